(* C14 - shared arrays and node communicators: every rank sees the same correct array
   (src/sc_shmem.c, sc_mpi_comm_attach_node_comms / detach / get_node_comms of src/sc_mpi.c).
   Statements about the executable model coq/C14/ShmemModel.v, which checks/C14.py ties to the compiled code running
   on the simulated MPI (views of every array on every rank, grid positions, write_start grants, and the per-rank
   sequence of MPI calls of every operation).  This file contains only statements, `exact` proofs and
   Print Assumptions.

   Vocabulary:  P ranks; a node partition is a colouring nd : rank -> node.
     members P nd c            the ranks of colour c in ascending order (what MPI_Comm_split yields for these keys)
     attach_explicit P ppn r   the (intranode, internode) member lists rank r gets for processes_per_node = ppn
     attach_split_type P nd r  the same when MPI_Comm_split_type reports the classes nd (None if sizes differ)
     comms_explicit nn ppn     r |-> Some (attach_explicit (nn*ppn) ppn r);   comms_none: nothing attached
     grid_position nc r        (intranode rank, intranode size, internode rank, internode size)
     shmem_allgather / shmem_prefix / shmem_memcpy ... r   the array AS READ BY RANK r afterwards
     rank_order P c = c 0 ++ ... ++ c (P-1);   prefix_spec wr P n c = (0, s0, s0+s1, ...) with every sum wrapped by wr
     write_start comms f r     return value of sc_shmem_write_start on rank r
     dup_comms nc / comms_dup  the attachment a communicator obtained by MPI_Comm_dup inherits (copy callback)
     l_attach / l_detach / l_dup / l_free_dup   life cycle of the attached communicators (live ids, attribute)
     pstep / prun              the lock/barrier protocol of the window flavours on one node, one event at a time:
                               WS_arrive i (write_start: unlock, enter its barrier), WS_leave i (that barrier complete: write_start
                               returns, rank 0 with the exclusive lock), WR i v (store), WE_arrive i (write_end: the writer unlocks,
                               enter its barrier), WE_leave i (barrier complete: shared lock, write_end returns);
                               sarrived / sleft / arrived / left_ s i = write_start calls begun / returned from, write_end calls
                               begun / returned from by rank i;  snap s k = the array as the writer left it when it entered its
                               k-th write_end (snap s 0: the initial content);  wround s = the writer's round of the last store
     pstep_old / prun_old      the same protocol WITHOUT the barrier of write_start: libsc before the repair of finding F-C14b *)
From Coq Require Import ZArith Arith List Bool Sorting.Sorted.
From ScV Require Import Base.CInt C14.ShmemModel C14.GridProofs C14.ShmemProofs C14.ProtocolProofs.
Import ListNotations.

(* ---- the node grid: explicit processes per node, P = nn * ppn ---------------------------------------------------- *)
(* every rank sits at (offset, node) = (r mod ppn, r / ppn); the communicators have sizes ppn and nn *)
Theorem C14_grid_position : forall nn ppn, 0 < ppn -> forall r, r < nn * ppn ->
  grid_position (attach_explicit (nn * ppn) ppn r) r = (r mod ppn, ppn, r / ppn, nn).
Proof. exact explicit_grid_position. Qed.
Print Assumptions C14_grid_position.

(* complete grid: every cell (node k, offset j) holds exactly one rank *)
Theorem C14_grid_complete : forall nn ppn, 0 < ppn -> forall k j, k < nn -> j < ppn ->
  exists r, r < nn * ppn /\ r / ppn = k /\ r mod ppn = j /\
            (forall r', r' < nn * ppn -> r' / ppn = k -> r' mod ppn = j -> r' = r).
Proof. exact explicit_grid_complete. Qed.
Print Assumptions C14_grid_complete.

(* each rank lies in exactly one row (its node) and one column (its offset) *)
Theorem C14_grid_row_col : forall nn ppn, 0 < ppn -> forall r q, r < nn * ppn -> q < nn * ppn ->
  (In q (intra (attach_explicit (nn * ppn) ppn r)) <-> q / ppn = r / ppn) /\
  (In q (inter (attach_explicit (nn * ppn) ppn r)) <-> q mod ppn = r mod ppn).
Proof. exact explicit_row_col. Qed.
Print Assumptions C14_grid_row_col.

(* the member lists are in the order MPI_Comm_split prescribes for the keys the code passes (offset resp. node) *)
Theorem C14_grid_key_order : forall nn ppn, 0 < ppn -> forall r, r < nn * ppn ->
  StronglySorted (key_lt (fun q => q mod ppn)) (intra (attach_explicit (nn * ppn) ppn r)) /\
  StronglySorted (key_lt (fun q => q / ppn)) (inter (attach_explicit (nn * ppn) ppn r)).
Proof. exact explicit_key_order. Qed.
Print Assumptions C14_grid_key_order.

(* MPI_Comm_split_type reporting blocks of ppn consecutive ranks gives the same communicators *)
Theorem C14_grid_split_type_contiguous : forall nn ppn, 0 < ppn -> forall r, r < nn * ppn ->
  attach_split_type (nn * ppn) (fun q => q / ppn) r = Some (attach_explicit (nn * ppn) ppn r).
Proof. exact split_type_contiguous. Qed.
Print Assumptions C14_grid_split_type_contiguous.

(* ---- the node grid for ANY node classes reported by the MPI library ------------------------------------------------ *)
(* (node, intranode rank) identifies a rank; the intranode rank is below the node size; every cell is taken *)
Theorem C14_grid_classes : forall P nd,
  (forall r r', r < P -> r' < P -> nd r = nd r' -> intrarank P nd r = intrarank P nd r' -> r = r') /\
  (forall r, r < P -> intrarank P nd r < length (members P nd (nd r))) /\
  (forall k j, j < length (members P nd k) -> exists r, r < P /\ nd r = k /\ intrarank P nd r = j).
Proof. intros; split; [exact (grid_cell_unique P nd)|split; [exact (intrarank_bound P nd)|exact (grid_cell_exists P nd)]]. Qed.
Print Assumptions C14_grid_classes.

(* ---- detach releases both communicators ---------------------------------------------------------------------------- *)
Theorem C14_attach_then_get : forall s, attr s = None -> forall explicit,
  let s' := l_attach explicit true s in
  l_get s' = Some (next_id s, S (next_id s)) /\ live s' = S (next_id s) :: next_id s :: live s.
Proof. exact attach_ok. Qed.
Print Assumptions C14_attach_then_get.

Theorem C14_detach_frees_both : forall s, (forall c, In c (live s) -> c < next_id s) -> attr s = None ->
  forall explicit equal, let s' := l_detach (l_attach explicit equal s) in live s' = live s /\ l_get s' = None.
Proof. exact attach_detach. Qed.
Print Assumptions C14_detach_frees_both.

(* node sizes differ: nothing is attached, the one communicator created is freed at once *)
Theorem C14_attach_unequal_sizes : forall s, (forall c, In c (live s) -> c < next_id s) -> attr s = None ->
  let s' := l_attach false false s in live s' = live s /\ l_get s' = None.
Proof. exact attach_unequal. Qed.
Print Assumptions C14_attach_unequal_sizes.

(* ---- HISTORIES of attach / detach / dup / free on a communicator (0) and its duplicate (1) ---------------------------------------------- *)
(* D = any type of divisions.  hstep: HAttach c (Some d) = an attach that attaches (two new communicators; MPI_Comm_set_attr replaces the
   attribute and its delete callback frees the pair attached before), HAttach c None = MPI_Comm_split_type reported nodes of unequal
   size (one communicator created and freed, nothing else changes), HDetach c, HDup (copy callback), HFreeDup (delete callback).
   in_force h c = the id-free specification: the last attach on c that attached, copied by dup, removed by detach / free.
   For EVERY history the life cycle accepts: the division in force on each communicator is in_force; the live node communicators are
   exactly the pairs realising the divisions in force, all distinct (what a replaced or detached division used is released) *)
Theorem C14_attach_history : forall (D : Type) (h : list (hop D)) (s : hstate D), hrun D hinit h = Some s ->
  (forall c, h_division D s c = in_force D h c) /\
  NoDup (h_live D s) /\
  (forall x, In x (h_live D s) <-> exists c a b d, h_attr D s c = Some (a, b, d) /\ (x = a \/ x = b)) /\
  (forall c a b d, h_attr D s c = Some (a, b, d) -> a <> b /\ (c = 0 \/ c = 1 /\ h_dup D s = true)) /\
  length (h_live D s) = 2 * (length (filter (fun c => match h_attr D s c with Some _ => true | None => false end) [0; 1])).
Proof. exact attach_history. Qed.
Print Assumptions C14_attach_history.

(* the division in force is the LAST attached one, whatever was attached, detached, duplicated or freed before *)
Theorem C14_last_attach_in_force : forall (D : Type) (h : list (hop D)) c d s,
  hrun D hinit (h ++ [HAttach D c (Some d)]) = Some s -> h_division D s c = Some d.
Proof. exact last_attach_in_force. Qed.
Print Assumptions C14_last_attach_in_force.

Theorem C14_history_no_leak : forall (D : Type) (h : list (hop D)) s,
  hrun D hinit h = Some s -> h_attr D s 0 = None -> h_attr D s 1 = None -> h_live D s = [].
Proof. exact history_no_leak. Qed.
Print Assumptions C14_history_no_leak.

(* ---- what the arrays hold: every flavour, every reading rank, every P = nn * ppn, every count and item type --------- *)
Theorem C14_allgather_rank_order : forall nn ppn, 0 < ppn -> forall contrib f r, r < nn * ppn ->
  shmem_allgather (nn * ppn) (comms_explicit nn ppn) f contrib r = rank_order (nn * ppn) contrib.
Proof. exact allgather_explicit. Qed.
Print Assumptions C14_allgather_rank_order.

(* wr = the wrap of the C item type; the contributed items are values of that type *)
Theorem C14_prefix : forall wr nn ppn count, 0 < ppn -> forall contrib,
  (forall q, q < nn * ppn -> length (contrib q) = count) ->
  (forall q x, q < nn * ppn -> In x (contrib q) -> wr x = x) ->
  forall f r, r < nn * ppn ->
  shmem_prefix wr (nn * ppn) (comms_explicit nn ppn) count f contrib r = prefix_spec wr (nn * ppn) count contrib.
Proof. exact prefix_explicit. Qed.
Print Assumptions C14_prefix.

(* ... and prefix_spec is (0, s0, s0+s1, ...) with the mathematical sums wrapped once, for each supported integer type *)
Theorem C14_prefix_is_wrapped_sums : forall d nn ppn count contrib,
  prefix_spec (wrap_of d) (nn * ppn) count contrib
  = concat (repeat 0%Z count :: map (map (wrap_of d)) (sum_rows (repeat 0%Z count) (map contrib (seq 0 (nn * ppn))))).
Proof.
  intros d nn ppn count contrib.
  exact (prefix_spec_sums (wrap_of d) nn ppn count contrib (wrap_of_hom d)
           ltac:(do 7 (destruct d as [|d]; [reflexivity|]); reflexivity)).
Qed.
Print Assumptions C14_prefix_is_wrapped_sums.

(* ---- sc_shmem_allgather with DIFFERENT send and receive signatures (data = bytes) ------------------------------------------------ *)
(* snd = (sendcount, size of sendtype), rcv = (recvcount, size of recvtype); `contrib q` = the bytes of rank q's send buffer; room = bytes
   of the array.  shmem_allgather_sig = None when some MPI call of the operation is erroneous (signatures that do not match, truncation,
   overrun of the node buffer or of the array).  For EVERY flavour, reading rank, P = nn * ppn and EVERY pair of signatures describing the
   same number of bytes: every call is defined and the array holds the send buffers of ranks 0 .. P-1 in rank order *)
Theorem C14_allgather_sig_rank_order : forall nn ppn, 0 < ppn -> forall contrib (snd rcv : sig) room,
  sig_bytes snd = sig_bytes rcv ->
  (forall q, q < nn * ppn -> length (contrib q) = sig_bytes snd) ->
  nn * ppn * sig_bytes rcv <= room ->
  forall f r, r < nn * ppn ->
  shmem_allgather_sig (nn * ppn) (comms_explicit nn ppn) contrib snd rcv room f r = Some (rank_order (nn * ppn) contrib).
Proof. exact allgather_sig_explicit. Qed.
Print Assumptions C14_allgather_sig_rank_order.

(* for ANY node communicators: whenever all calls are defined the result is the one of the signature-free specification *)
Theorem C14_allgather_sig_refines : forall P comms contrib (snd rcv : sig) room f r x,
  shmem_allgather_sig P comms contrib snd rcv room f r = Some x -> x = shmem_allgather P comms f contrib r.
Proof. exact allgather_sig_refines. Qed.
Print Assumptions C14_allgather_sig_refines.

Theorem C14_allgather_sig_unattached : forall P contrib (snd rcv : sig) room f r, sig_bytes snd = sig_bytes rcv ->
  (forall q, q < P -> length (contrib q) = sig_bytes snd) -> P * sig_bytes rcv <= room ->
  shmem_allgather_sig P comms_none contrib snd rcv room f r = Some (rank_order P contrib).
Proof. exact allgather_sig_unattached. Qed.
Print Assumptions C14_allgather_sig_unattached.

(* the precondition cannot be dropped: signatures describing different numbers of bytes make an MPI call erroneous *)
Theorem C14_allgather_sig_mismatch_undefined : forall P comms contrib (snd rcv : sig) room f r, sig_bytes snd <> sig_bytes rcv ->
  (shared_on comms f r = true -> forall nc, comms (writer_of comms f r) = Some nc -> inter nc <> []) ->
  shmem_allgather_sig P comms contrib snd rcv room f r = None.
Proof. exact allgather_sig_mismatch_undefined. Qed.
Print Assumptions C14_allgather_sig_mismatch_undefined.

(* a shared copy replicates the source on all ranks *)
Theorem C14_memcpy : forall nn ppn f (src : nat -> list Z) r, (forall q q', src q = src q') ->
  shmem_memcpy (comms_explicit nn ppn) f src r = src r.
Proof. exact memcpy_explicit. Qed.
Print Assumptions C14_memcpy.

(* nothing attached: every flavour behaves like the basic one *)
Theorem C14_unattached : forall wr P count contrib f r,
  shmem_allgather P comms_none f contrib r = rank_order P contrib /\
  shmem_prefix wr P comms_none count f contrib r = prefix_spec wr P count contrib /\
  write_start comms_none f r = true.
Proof.
  intros; split; [exact (allgather_unattached P contrib f r)|split;
    [exact (prefix_unattached wr P count contrib f r)|exact (write_start_unattached f r)]].
Qed.
Print Assumptions C14_unattached.

(* ---- who is granted write access ----------------------------------------------------------------------------------- *)
Theorem C14_write_start : forall nn ppn, 0 < ppn -> forall f r, r < nn * ppn ->
  write_start (comms_explicit nn ppn) f r = if is_shared f then (r mod ppn =? 0) else true.
Proof. exact write_start_explicit. Qed.
Print Assumptions C14_write_start.

(* exactly one rank per node for the window flavours: the first member of the node - for explicit nodes ... *)
Theorem C14_one_writer_per_node : forall nn ppn f r, 0 < ppn -> r < nn * ppn -> is_shared f = true ->
  let row := members (nn * ppn) (fun q => q / ppn) (r / ppn) in
  In (hd r row) row /\ forall q, In q row -> (write_start (comms_explicit nn ppn) f q = true <-> q = hd r row).
Proof. exact one_writer_explicit. Qed.
Print Assumptions C14_one_writer_per_node.

(* ... and for any equally sized node classes reported by MPI_Comm_split_type *)
Theorem C14_one_writer_per_node_classes : forall P nd f r, equal_sizes P nd = true -> r < P -> is_shared f = true ->
  let row := members P nd (nd r) in
  In (hd r row) row /\ forall q, In q row -> (write_start (attach_split_type P nd) f q = true <-> q = hd r row).
Proof. exact one_writer_split_type. Qed.
Print Assumptions C14_one_writer_per_node_classes.

(* every rank for the unshared flavours *)
Theorem C14_all_write_unshared : forall comms f r, is_shared f = false -> write_start comms f r = true.
Proof. exact all_write_unshared. Qed.
Print Assumptions C14_all_write_unshared.

(* ---- the write_start / write_end protocol of the window flavours: EVERY interleaving, every n, any number of rounds, ---------
   ---- no calling convention (every event list that prun accepts from pinit) --------------------------------------------------- *)
(* (a) both MPI_MODE_NOCHECK assertions are true: no exclusive lock is ever taken while another rank of the node holds a lock,
   no shared lock while another rank holds the exclusive one *)
Theorem C14_protocol_nocheck_assertions_hold : forall n v es s, prun n (pinit v) es = Some s -> conflict s = false.
Proof. exact nocheck_assertions_hold. Qed.
Print Assumptions C14_protocol_nocheck_assertions_hold.

(* (b) at any moment at most one rank of the node has write access: intranode rank 0, exactly between its return from write_start
   and its entry into write_end; a rank holds the exclusive lock exactly while it is that writer, the shared lock exactly while it reads *)
Theorem C14_protocol_one_writer : forall n v es s, prun n (pinit v) es = Some s ->
  (forall i, ph s i = Writer -> i = 0) /\
  (forall i, lk s i = ExclLock <-> ph s i = Writer) /\
  (forall i, lk s i = SharedLock <-> ph s i = Reading) /\
  (forall i j, ph s i = Writer -> ph s j = Writer -> i = j) /\
  (ph s 0 = Writer <-> sleft s 0 = S (arrived s 0)).
Proof. exact one_writer. Qed.
Print Assumptions C14_protocol_one_writer.

Theorem C14_protocol_write_access : forall n s i s', pstep n s (WS_leave i) = Some s' -> (ph s' i = Writer <-> i = 0).
Proof. exact write_access. Qed.
Print Assumptions C14_protocol_write_access.

(* (c) the array changes only by a store of the writer, between its write_start and write_end, holding the exclusive lock, while
   no other rank of the node holds a lock or reads *)
Theorem C14_protocol_only_writer_changes_array : forall n s e s', pstep n s e = Some s' -> mem s' <> mem s ->
  exists i v, e = WR i v /\ ph s i = Writer.
Proof. exact array_changes_only_by_writer. Qed.
Print Assumptions C14_protocol_only_writer_changes_array.

Theorem C14_protocol_array_changes_only_in_write_round : forall n v es s e s',
  prun n (pinit v) es = Some s -> pstep n s e = Some s' -> mem s' <> mem s ->
  exists x, e = WR 0 x /\ ph s 0 = Writer /\ lk s 0 = ExclLock /\ sleft s 0 = S (arrived s 0) /\
            forall j, j < n -> j <> 0 -> lk s j = NoLock /\ ph s j <> Reading.
Proof. exact array_changes_only_in_write_round. Qed.
Print Assumptions C14_protocol_array_changes_only_in_write_round.

(* after write_end: a rank returns from its k-th write_end only after the writer has entered its k-th write_end *)
Theorem C14_protocol_written_data_visible : forall n v es s i s',
  prun n (pinit v) es = Some s -> pstep n s (WE_leave i) = Some s' ->
  left_ s' i <= arrived s 0 /\ ph s' i = Reading /\ mem s' = mem s.
Proof. exact leave_after_writer_end. Qed.
Print Assumptions C14_protocol_written_data_visible.

(* (d) ROUNDS DO NOT OVERLAP (full-strength visibility, no guard).  Whenever a rank reads - it has returned from its k-th
   write_end and not yet entered its next write_start (k = 0: before the first round) - the array is EXACTLY what the writer left
   when it entered ITS k-th write_end: the writer has completed exactly k rounds and begun no further one (it cannot begin round
   k+1 before this rank has entered its (k+1)-th write_start), and the last store happened in a round <= k *)
Theorem C14_protocol_rounds_do_not_overlap : forall n v es s i, prun n (pinit v) es = Some s -> i < n -> ph s i = Reading ->
  mem s = snap s (left_ s i) /\ wround s <= left_ s i /\ arrived s 0 = left_ s i /\ sleft s 0 = left_ s i /\ ph s 0 <> Writer.
Proof. exact rounds_do_not_overlap. Qed.
Print Assumptions C14_protocol_rounds_do_not_overlap.

(* the same from the writer's side: it has returned from no more write_starts than any rank of the node has begun; while it
   writes nobody reads, every rank is inside the current round *)
Theorem C14_protocol_writer_waits_for_readers : forall n v es s i, prun n (pinit v) es = Some s -> i < n ->
  sleft s 0 <= sarrived s i /\ (ph s 0 = Writer -> ph s i <> Reading /\ left_ s i < sarrived s i).
Proof. exact writer_waits_for_readers. Qed.
Print Assumptions C14_protocol_writer_waits_for_readers.

(* the two barriers cannot deadlock: in every reachable state some rank can take its next step *)
Theorem C14_protocol_no_deadlock : forall n v es s, 0 < n -> prun n (pinit v) es = Some s -> exists e s', pstep n s e = Some s'.
Proof. exact no_deadlock. Qed.
Print Assumptions C14_protocol_no_deadlock.

(* ---- MPI_Comm_dup of a communicator with attachment (attribute copy callback sc_mpi_node_comms_copy) --------------- *)
(* the duplicate carries the SAME grid: same member lists in the same slots, hence the same position of every rank;
   for P = nn * ppn that position is again (r mod ppn, ppn, r / ppn, nn) *)
Theorem C14_dup_inherits_grid : forall nc r,
  grid_position (dup_comms nc) r = grid_position nc r /\ intra (dup_comms nc) = intra nc /\ inter (dup_comms nc) = inter nc.
Proof. exact dup_grid_position. Qed.
Print Assumptions C14_dup_inherits_grid.

Theorem C14_dup_inherits_grid_explicit : forall nn ppn, 0 < ppn -> forall r, r < nn * ppn ->
  comms_dup (comms_explicit nn ppn) r = Some (dup_comms (attach_explicit (nn * ppn) ppn r)) /\
  grid_position (dup_comms (attach_explicit (nn * ppn) ppn r)) r = (r mod ppn, ppn, r / ppn, nn).
Proof. exact dup_grid_explicit. Qed.
Print Assumptions C14_dup_inherits_grid_explicit.

(* the shared arrays and the write grants on the duplicate are the correct ones as well *)
Theorem C14_dup_results : forall nn ppn wr count, 0 < ppn -> forall contrib,
  (forall q, q < nn * ppn -> length (contrib q) = count) ->
  (forall q x, q < nn * ppn -> In x (contrib q) -> wr x = x) ->
  forall f r, r < nn * ppn ->
  shmem_allgather (nn * ppn) (comms_dup (comms_explicit nn ppn)) f contrib r = rank_order (nn * ppn) contrib /\
  shmem_prefix wr (nn * ppn) (comms_dup (comms_explicit nn ppn)) count f contrib r = prefix_spec wr (nn * ppn) count contrib /\
  write_start (comms_dup (comms_explicit nn ppn)) f r = (if is_shared f then (r mod ppn =? 0) else true).
Proof. exact dup_results. Qed.
Print Assumptions C14_dup_results.

(* life cycle: the duplicate owns two new communicators copied slot by slot; freeing the duplicate frees exactly those
   and leaves the original's attachment alive *)
Theorem C14_dup_then_free : forall s a b, (forall c, In c (live s) -> c < next_id s) -> attr s = Some (a, b) ->
  let '(s1, d) := l_dup s in
  d = Some (next_id s, S (next_id s)) /\ dup_sources s = Some (a, b) /\
  live s1 = S (next_id s) :: next_id s :: live s /\ attr s1 = Some (a, b) /\
  ~ In (next_id s) (live s) /\ ~ In (S (next_id s)) (live s) /\
  live (l_free_dup d s1) = live s /\ attr (l_free_dup d s1) = Some (a, b).
Proof. exact dup_then_free. Qed.
Print Assumptions C14_dup_then_free.

Theorem C14_dup_unattached : forall s, attr s = None -> l_dup s = (s, None).
Proof. exact dup_unattached. Qed.
Print Assumptions C14_dup_unattached.

(* ---- recorded findings: the unguarded statements are false of the faithful model ------------------------------------ *)
(* F-C14a: equally sized nodes that are not contiguous in rank order (round robin), window flavour: node-major order *)
Theorem C14_window_allgather_roundrobin_refuted :
  equal_sizes 4 rr_nd = true /\
  shmem_allgather 4 rr_comms Window rr_contrib 0 = [0; 2; 1; 3]%Z /\
  shmem_allgather 4 rr_comms Window rr_contrib 0 <> rank_order 4 rr_contrib /\
  shmem_prefix s32 4 rr_comms 1 Window rr_contrib 3 = [0; 0; 2; 3; 6]%Z /\
  shmem_prefix s32 4 rr_comms 1 Window rr_contrib 3 <> prefix_spec s32 4 1 rr_contrib /\
  shmem_allgather 4 rr_comms Basic rr_contrib 0 = rank_order 4 rr_contrib.
Proof. exact roundrobin_refuted. Qed.
Print Assumptions C14_window_allgather_roundrobin_refuted.

(* F-C14b, REPAIRED in libsc (barrier in sc_shmem_write_start_window); regression guards about the protocol WITHOUT that barrier
   (prun_old = libsc before the repair).  Two write rounds back to back, WS i = [WS_arrive i; WS_leave i]: rank 1 has returned from
   its FIRST write_end (left_ = 1, phase Reading) and finds the data of round 2 (wround = 2, mem = 22, not snap 1 = 11), and a
   NOCHECK assertion was false; the repaired protocol does not admit this schedule at all *)
Theorem C14_back_to_back_rounds_old_refuted :
  option_map (fun s => (ph s 1, left_ s 1, wround s, mem s, snap s 1, conflict s)) (prun_old 2 (pinit 0%Z) b2b_events)
    = Some (Reading, 1, 2, 22%Z, 11%Z, true)
  /\ prun 2 (pinit 0%Z) b2b_events = None.
Proof. exact back_to_back_refuted. Qed.
Print Assumptions C14_back_to_back_rounds_old_refuted.

(* without the barrier the MPI_MODE_NOCHECK assertion of the exclusive lock was false already in the first round (the other rank
   still holds the shared lock of sc_shmem_malloc); with the barrier the writer cannot pass write_start alone *)
Theorem C14_nocheck_conflict_old_reachable :
  option_map conflict (prun_old 2 (pinit 0%Z) (WS 0)) = Some true /\ prun 2 (pinit 0%Z) (WS 0) = None.
Proof. exact nocheck_conflict_reachable. Qed.
Print Assumptions C14_nocheck_conflict_old_reachable.

(* ---- the hypotheses are satisfiable ---------------------------------------------------------------------------------- *)
Example C14_ex_grid : grid_position (attach_explicit 6 2 3) 3 = (1, 2, 1, 3).
Proof. exact (eq_refl _). Qed.

Example C14_ex_results :
  let contrib := fun q => [Z.of_nat q + 100; 2147483647 - Z.of_nat q]%Z in
  shmem_allgather 4 (comms_explicit 2 2) WindowPrescan contrib 3 = [100; 2147483647; 101; 2147483646; 102; 2147483645; 103; 2147483644]%Z
  /\ shmem_prefix s32 4 (comms_explicit 2 2) 2 WindowPrescan contrib 1
     = [0; 0; 100; 2147483647; 201; -3; 303; 2147483642; 406; -10]%Z
  /\ shmem_prefix s32 4 (comms_explicit 2 2) 2 Basic contrib 2 = shmem_prefix s32 4 (comms_explicit 2 2) 2 WindowPrescan contrib 1
  /\ map (write_start (comms_explicit 2 2) Window) [0; 1; 2; 3] = [true; false; true; false].
Proof. vm_compute. repeat split. Qed.

(* two complete write rounds back to back (no synchronisation between them other than the protocol's own) on 2 and on 3 ranks *)
Example C14_ex_two_rounds_on_2 :
  option_map (fun s => (map (left_ s) [0; 1], map (ph s) [0; 1], wround s, mem s, (snap s 0, snap s 1, snap s 2), conflict s))
    (prun 2 (pinit 0%Z) two_rounds_2)
  = Some ([2; 2], [Reading; Reading], 2, 22%Z, (0%Z, 11%Z, 22%Z), false).
Proof. exact two_rounds_on_2. Qed.

Example C14_ex_two_rounds_on_3 :
  option_map (fun s => (map (left_ s) [0; 1; 2], map (lk s) [0; 1; 2], wround s, mem s, (snap s 1, snap s 2), conflict s))
    (prun 3 (pinit 0%Z) two_rounds_3)
  = Some ([2; 2; 2], [SharedLock; SharedLock; SharedLock], 2, 22%Z, (11%Z, 22%Z), false).
Proof. exact two_rounds_on_3. Qed.

(* 4 ranks in 2 nodes, window flavour, every rank sends 2 x 4 bytes and the array is described as 1 x 8 bytes per rank *)
Example C14_ex_allgather_sig :
  let contrib := fun q => map (fun b => Z.of_nat (10 * q + b)) (seq 0 8) in
  shmem_allgather_sig 4 (comms_explicit 2 2) contrib (mk_sig 2 4) (mk_sig 1 8) 32 Window 3 = Some (rank_order 4 contrib)
  /\ shmem_allgather_sig 4 (comms_explicit 2 2) contrib (mk_sig 2 4) (mk_sig 2 8) 64 Window 3 = None.
Proof. vm_compute. split; reflexivity. Qed.

(* attach (2) ; attach (3) ; dup ; attach (1) on the original ; detach the duplicate: divisions in force 1 and none, 2 communicators alive *)
Example C14_ex_history :
  let h := [HAttach nat 0 (Some 2); HAttach nat 0 (Some 3); HDup; HAttach nat 0 (Some 1); HAttach nat 1 None; HDetach 1] in
  option_map (fun s => (h_division nat s 0, h_division nat s 1, h_live nat s)) (hrun nat hinit h) = Some (Some 1, None, [7; 6])
  /\ in_force nat [HAttach nat 0 (Some 2); HAttach nat 0 (Some 3); HDup] 1 = Some 3.
Proof. vm_compute. split; reflexivity. Qed.

Example C14_ex_dup_life :
  let s0 := mk_ls [] 0 None in
  let s1 := l_attach true true s0 in
  let '(s2, d) := l_dup s1 in
  live s1 = [1; 0] /\ l_get s1 = Some (0, 1) /\ d = Some (2, 3) /\ live s2 = [3; 2; 1; 0]
  /\ live (l_free_dup d s2) = [1; 0] /\ live (l_detach (l_free_dup d s2)) = [].
Proof. vm_compute. repeat split. Qed.

(* ===== tie T1: the model uses what the definitions GENERATED from /repo/src/sc_mpi.c and sc_shmem.c compute ================== *)
(* Gen/ShmemC14.v is regenerated from the working tree on every run (tools/c2g/groups_C14.py); an edit of the arithmetic
   changes a generated definition and the statements below stop checking.  zn = Z.of_nat, B31 = 2^31. *)
From Coq Require Import ZArith Lia.
From ScV Require Import Base.CInt Gen.ShmemC14 C14.ShmemGen.
Local Open Scope Z_scope.


(* processes_per_node < 1 selects the MPI_Comm_split_type branch *)
Theorem C14_gen_attach_test : forall ppn, attach_split_type_test ppn = (ppn <? 1).
Proof. exact gen_attach_test. Qed.
Print Assumptions C14_gen_attach_test.

(* explicit processes_per_node: node = rank / ppn, offset = rank mod ppn; intranode split (colour node, key offset), internode split (colour offset, key node) *)
Theorem C14_gen_attach_explicit : forall r ppn x y, (0 < ppn)%nat -> zn r < B31 ->
  ShmemC14.attach_explicit (zn r) (zn ppn) x y =
  (zn (r / ppn), zn (r mod ppn), zn (r / ppn), zn (r mod ppn), zn (r mod ppn), zn (r / ppn)).
Proof. exact gen_attach_explicit. Qed.
Print Assumptions C14_gen_attach_explicit.

(* the model's pair of communicators for an explicit processes_per_node = the classes of the GENERATED colours *)
Theorem C14_gen_attach_explicit_model : forall P ppn r, (0 < ppn)%nat -> zn P < B31 -> (r < P)%nat ->
  ShmemModel.attach_explicit P ppn r =
  mk_nc (filter (fun q => intra_colour ppn q =? intra_colour ppn r)%nat (seq 0 P))
        (filter (fun q => inter_colour ppn q =? inter_colour ppn r)%nat (seq 0 P)).
Proof. exact gen_attach_explicit_model. Qed.
Print Assumptions C14_gen_attach_explicit_model.

(* split_type branch: unequal node sizes are refused; key = rank; internode split with colour intrarank and key rank *)
Theorem C14_gen_attach_split_type : forall mx mn ir r, attach_unequal mx mn = negb (mx =? mn) /\ attach_split_type_key r = r /\
  attach_split_type_colour ir r = ir /\ attach_split_type_interkey ir r = r.
Proof. exact gen_attach_split_type. Qed.
Print Assumptions C14_gen_attach_split_type.

(* sc_shmem_write_start_window: every rank unlocks (1st of the lock / barrier calls), then passes the barrier on the INTRANODE
   communicator (2nd); exactly intrarank 0 then takes the exclusive lock (3rd; 234 = MPI_LOCK_EXCLUSIVE) and gets 1 *)
Theorem C14_gen_write_start_window : forall ir a c n1 n2 w u1 u2 u3 u4, write_start_window ir a c n1 n2 w u1 u2 u3 u4 =
  (b2z (ir =? 0), 1, 1, 1, 2, n1, b2z (ir =? 0), if ir =? 0 then 3 else 0, if ir =? 0 then 234 else 0).
Proof. exact gen_write_start_window. Qed.
Print Assumptions C14_gen_write_start_window.

(* the model's return value of sc_shmem_write_start = the generated value of the flavour, at intrarank = position of the rank in its node *)
Theorem C14_gen_write_start : forall comms f r a c n1 n2 w u1 u2 u3 u4, write_start comms f r =
  match comms r with
  | Some nc => if is_shared f
               then z2b (ws_ret (write_start_window (zn (index_in r (intra nc))) a c n1 n2 w u1 u2 u3 u4))
               else z2b write_start_basic
  | None => z2b write_start_basic
  end.
Proof. exact gen_write_start. Qed.
Print Assumptions C14_gen_write_start.

(* the MPI calls the model lists for write_start are the ones the generated code makes, IN THE ORDER it makes them
   (calls_in_order: the calls made, by their position): unlock, barrier on intranode, exclusive lock of the writer *)
Theorem C14_gen_calls_write_start : forall ir a c n1 n2 w u1 u2 u3 u4,
  let '(ret, unl, unl_at, bar, bar_at, bar_comm, lck, lck_at, lck_type) := write_start_window ir a c n1 n2 w u1 u2 u3 u4 in
  calls_write_start true (z2b ret) = calls_in_order [(unl, unl_at, 6%nat); (bar, bar_at, 5%nat); (lck, lck_at, lock_code lck_type)]
  /\ bar_comm = n1.
Proof. exact gen_calls_write_start. Qed.
Print Assumptions C14_gen_calls_write_start.

(* sc_shmem_write_end_window: only intrarank 0 unlocks; then the barrier on the intranode communicator; then everybody takes the shared lock (235) *)
Theorem C14_gen_write_end_window : forall ir a c n1 n2 w u1 u2 u3 u4, write_end_window ir a c n1 n2 w u1 u2 u3 u4 =
  (b2z (ir =? 0), (if ir =? 0 then 1 else 0), 1, (if ir =? 0 then 2 else 1), n1, 1, (if ir =? 0 then 3 else 2), 235).
Proof. exact gen_write_end_window. Qed.
Print Assumptions C14_gen_write_end_window.

(* the MPI calls the model lists for write_end are the ones the generated code makes, in that order *)
Theorem C14_gen_calls_write_end : forall ir a c n1 n2 w u1 u2 u3 u4,
  let '(unl, unl_at, bar, bar_at, bar_comm, lck, lck_at, lck_type) := write_end_window ir a c n1 n2 w u1 u2 u3 u4 in
  calls_write_end true (ir =? 0) = calls_in_order [(unl, unl_at, 6%nat); (bar, bar_at, 5%nat); (lck, lck_at, lock_code lck_type)]
  /\ bar_comm = n1.
Proof. exact gen_calls_write_end. Qed.
Print Assumptions C14_gen_calls_write_end.

(* the node root, and nobody else, allocates the gather buffer *)
Theorem C14_gen_is_root : forall ir, allgather_common_is_root ir = (ir =? 0) /\ prefix_common_is_root ir = (ir =? 0) /\ prefix_common_prescan_is_root ir = (ir =? 0).
Proof. exact gen_is_root. Qed.
Print Assumptions C14_gen_is_root.

(* sc_scan_on_array: slot p, item c is at count * p + c, its predecessor at count * (p - 1) + c (all eight integer branches) *)
Theorem C14_gen_scan_index : forall count p c, 0 <= count -> 1 <= p < B31 -> 0 <= c -> count * p + c < B31 ->
  let d := count * p + c in let s := count * (p - 1) + c in
  scan_dst_char count p c = d /\ scan_src_char count p c = s /\ scan_dst_short count p c = d /\ scan_src_short count p c = s /\
  scan_dst_ushort count p c = d /\ scan_src_ushort count p c = s /\ scan_dst_int count p c = d /\ scan_src_int count p c = s /\
  scan_dst_unsigned count p c = d /\ scan_src_unsigned count p c = s /\ scan_dst_long count p c = d /\ scan_src_long count p c = s /\
  scan_dst_ulong count p c = d /\ scan_src_ulong count p c = s /\ scan_dst_longlong count p c = d /\ scan_src_longlong count p c = s.
Proof. exact gen_scan_index. Qed.
Print Assumptions C14_gen_scan_index.

(* slot p += slot p - 1 wrapped to the element type = the model's vadd (wrap_of d) for int, unsigned, long, unsigned long, long long, for ALL values *)
Theorem C14_gen_scan_add_wide : forall array count p c, 0 <= count -> 1 <= p < B31 -> 0 <= c -> count * p + c < B31 ->
  let x := array (count * p + c) in let prev := array (count * (p - 1) + c) in
  scan_add_int array count p c = wrap_of 3 (x + prev) /\ scan_add_unsigned array count p c = wrap_of 4 (x + prev) /\
  scan_add_long array count p c = wrap_of 5 (x + prev) /\ scan_add_ulong array count p c = wrap_of 6 (x + prev) /\
  scan_add_longlong array count p c = wrap_of 7 (x + prev).
Proof. exact gen_scan_add_wide. Qed.
Print Assumptions C14_gen_scan_add_wide.

(* the same for char, short, unsigned short (operands promoted to int) *)
Theorem C14_gen_scan_add_small : forall array count p c, 0 <= count -> 1 <= p < B31 -> 0 <= c -> count * p + c < B31 ->
  (forall i, - 65536 <= array i < 65536) ->
  let x := array (count * p + c) in let prev := array (count * (p - 1) + c) in
  scan_add_char array count p c = wrap_of 0 (x + prev) /\ scan_add_short array count p c = wrap_of 1 (x + prev) /\
  scan_add_ushort array count p c = wrap_of 2 (x + prev).
Proof. exact gen_scan_add_small. Qed.
Print Assumptions C14_gen_scan_add_small.

(* the slots 1 .. size are summed up *)
Theorem C14_gen_scan_slots : forall p size, scan_slot_first = 1 /\ scan_slot_cond p size = (p <=? size).
Proof. exact gen_scan_slots. Qed.
Print Assumptions C14_gen_scan_slots.

(* basic / prescan prefix: `count` zero items in front (memset of count * typesize bytes), the gathered items behind them, counts of the collectives *)
Theorem C14_gen_prefix_private : forall recvbuf ts count size, 0 <= ts < B31 -> zn count < B31 -> zn count * ts < B31 ->
  prefix_basic_memset_arg2 ts (zn count) = zn (length (repeat 0 count)) * ts /\
  prefix_basic_allgather_arg3 recvbuf ts (zn count) = recvbuf + zn (length (repeat 0 count)) * ts /\
  prefix_basic_allgather_arg1 (zn count) = zn count /\ prefix_basic_allgather_arg4 (zn count) = zn count /\
  (prefix_basic_scan_on_array_arg1 size, prefix_basic_scan_on_array_arg2 (zn count), prefix_basic_scan_on_array_arg3 ts) = (size, zn count, ts) /\
  prefix_prescan_malloc_arg1 ts (zn count) = zn count * ts /\ prefix_prescan_scan_arg2 (zn count) = zn count /\
  prefix_prescan_memset_arg2 ts (zn count) = zn (length (repeat 0 count)) * ts /\
  prefix_prescan_allgather_arg3 recvbuf ts (zn count) = recvbuf + zn (length (repeat 0 count)) * ts /\
  prefix_prescan_allgather_arg1 (zn count) = zn count /\ prefix_prescan_allgather_arg4 (zn count) = zn count.
Proof. exact gen_prefix_private. Qed.
Print Assumptions C14_gen_prefix_private.

(* window flavours: the root's buffer and the blocks the roots exchange have the length of the node's gathered contributions (model: gather (intra nc)); offsets and counts as above *)
Theorem C14_gen_prefix_window : forall recvbuf ts count (ms : list nat) (f : nat -> list Z) size, 0 <= ts < B31 -> zn count < B31 -> zn (length ms) * zn count * ts < B31 -> zn count * ts < B31 -> zn (length ms) * zn count < B31 ->
  (forall q, In q ms -> length (f q) = count) ->
  let isz := zn (length ms) in let blk := zn (length (gather ms f)) in
  prefix_common_malloc_arg1 isz (zn count) ts = blk * ts /\
  (prefix_common_gather_arg1 (zn count), prefix_common_gather_arg4 (zn count), prefix_common_gather_arg6) = (zn count, zn count, 0) /\
  prefix_common_memset_arg2 (zn count) ts = zn (length (repeat 0 count)) * ts /\
  prefix_common_allgather_arg3 recvbuf (zn count) ts = recvbuf + zn (length (repeat 0 count)) * ts /\
  prefix_common_allgather_arg1 (zn count) isz = blk /\ prefix_common_allgather_arg4 (zn count) isz = blk /\
  (prefix_common_scan_on_array_arg1 size, prefix_common_scan_on_array_arg2 (zn count), prefix_common_scan_on_array_arg3 ts) = (size, zn count, ts) /\
  prefix_common_prescan_malloc1_arg1 ts (zn count) = zn count * ts /\ prefix_common_prescan_malloc2_arg1 isz (zn count) ts = blk * ts /\
  prefix_common_prescan_scan_arg2 (zn count) = zn count /\
  (prefix_common_prescan_gather_arg1 (zn count), prefix_common_prescan_gather_arg4 (zn count), prefix_common_prescan_gather_arg6) = (zn count, zn count, 0) /\
  prefix_common_prescan_memset_arg2 (zn count) ts = zn (length (repeat 0 count)) * ts /\
  prefix_common_prescan_allgather_arg3 recvbuf (zn count) ts = recvbuf + zn (length (repeat 0 count)) * ts /\
  prefix_common_prescan_allgather_arg1 (zn count) isz = blk /\ prefix_common_prescan_allgather_arg4 (zn count) isz = blk.
Proof. exact gen_prefix_window. Qed.
Print Assumptions C14_gen_prefix_window.

(* sc_shmem_allgather has separate send and receive signatures snd = (sendcount, size of sendtype), rcv = (recvcount, size of recvtype);
   k = size of the node.  Which of them enters which argument: basic flavours MPI_Allgather (sendcount, sendtype -> recvcount, recvtype) on comm;
   window flavours: typesize = sc_mpi_sizeof (RECVTYPE), node buffer of intrasize * RECVCOUNT * typesize bytes (the room of the model's
   node_buffer), MPI_Gather (SENDCOUNT, sendtype -> RECVCOUNT, recvtype) to root 0 of intranode, MPI_Allgather (SENDCOUNT * intrasize,
   sendtype -> RECVCOUNT * intrasize, recvtype) on internode (the model's sig_times k snd, sig_times k rcv) *)
Theorem C14_gen_allgather_sig : forall (snd rcv : sig) (k : nat) st rt cm ia ie,
  zn (sg_count snd * k) < B31 -> zn (sg_count rcv * k) < B31 -> zn (k * (sg_count rcv * sg_size rcv)) < B31 ->
  let sc := zn (sg_count snd) in let rc := zn (sg_count rcv) in let isz := zn k in let ts := zn (sg_size rcv) in
  (allgather_basic_allgather_arg1 sc st rc rt isz ts cm ia ie, allgather_basic_allgather_arg2 sc st rc rt isz ts cm ia ie,
   allgather_basic_allgather_arg4 sc st rc rt isz ts cm ia ie, allgather_basic_allgather_arg5 sc st rc rt isz ts cm ia ie,
   allgather_basic_allgather_arg6 sc st rc rt isz ts cm ia ie) = (sc, st, rc, rt, cm) /\
  allgather_common_sizeof_arg0 sc st rc rt isz ts cm ia ie = rt /\
  allgather_common_malloc_arg1 sc st rc rt isz ts cm ia ie = zn (k * (sg_count rcv * sg_size rcv)) /\
  (allgather_common_gather_arg1 sc st rc rt isz ts cm ia ie, allgather_common_gather_arg2 sc st rc rt isz ts cm ia ie,
   allgather_common_gather_arg4 sc st rc rt isz ts cm ia ie, allgather_common_gather_arg5 sc st rc rt isz ts cm ia ie,
   allgather_common_gather_arg6 sc st rc rt isz ts cm ia ie, allgather_common_gather_arg7 sc st rc rt isz ts cm ia ie) = (sc, st, rc, rt, 0, ia) /\
  (allgather_common_allgather_arg1 sc st rc rt isz ts cm ia ie, allgather_common_allgather_arg2 sc st rc rt isz ts cm ia ie,
   allgather_common_allgather_arg4 sc st rc rt isz ts cm ia ie, allgather_common_allgather_arg5 sc st rc rt isz ts cm ia ie,
   allgather_common_allgather_arg6 sc st rc rt isz ts cm ia ie)
  = (zn (sg_count (sig_times k snd)), st, zn (sg_count (sig_times k rcv)), rt, ie).
Proof. exact gen_allgather_sig. Qed.
Print Assumptions C14_gen_allgather_sig.

(* the decisions of sc_mpi_comm_attach_node_comms as a whole (exactly one return statement in the source: unequal node sizes): which
   communicators are created / freed, whether and on which communicator the attribute is set - there is no other path *)
Theorem C14_gen_attach_decisions : forall ppn mx mn cm x1 x2 x3 x4 x5 x6 x7 x8 x9 x10 x11 x12 x13 x14 x15 x16 x17 x18,
  attach_decisions ppn mx mn cm x1 x2 x3 x4 x5 x6 x7 x8 x9 x10 x11 x12 x13 x14 x15 x16 x17 x18 =
  if ppn <? 1 then (if mx =? mn then (1, 0, 1, 0, 0, 1, 1, cm) else (1, 1, 0, 0, 0, 0, 0, 0)) else (0, 0, 0, 1, 1, 1, 1, cm).
Proof. exact gen_attach_decisions. Qed.
Print Assumptions C14_gen_attach_decisions.

(* ... and they are the steps of the life cycle: every explicit attach and every split_type attach with equal node sizes attaches ITS
   division to THIS communicator (so it is the one in force afterwards), the refused one changes no attribute *)
Theorem C14_gen_attach_decisions_model : forall (D : Type) (d : D) (s : hstate D) c ppn mx mn cm x1 x2 x3 x4 x5 x6 x7 x8 x9 x10 x11 x12 x13 x14 x15 x16 x17 x18,
  h_valid D s c = true ->
  let '(st, fr, s1, s2, s3, al, sa, sc) := attach_decisions ppn mx mn cm x1 x2 x3 x4 x5 x6 x7 x8 x9 x10 x11 x12 x13 x14 x15 x16 x17 x18 in
  exists s', hstep D s (HAttach D c (if attach_attaches ppn mx mn then Some d else None)) = Some s' /\
  zn (h_next D s') = zn (h_next D s) + (st + s1 + s2 + s3) /\ st + s1 + s2 + s3 - fr = 2 * sa /\ al = sa /\
  z2b sa = attach_attaches ppn mx mn /\ (z2b sa = true -> sc = cm /\ h_division D s' c = Some d) /\
  (z2b sa = false -> h_attr D s' = h_attr D s).
Proof. exact gen_attach_decisions_model. Qed.
Print Assumptions C14_gen_attach_decisions_model.
