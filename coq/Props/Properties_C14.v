(* C14 - placeholder while the proofs are being written *)
From Coq Require Import Arith List.
From ScV Require Import C14.ShmemModel.
Import ListNotations.
Theorem C14_grid_example : grid_position (attach_explicit 6 2 3) 3 = (1, 2, 1, 3).
Proof. exact (eq_refl _). Qed.
Print Assumptions C14_grid_example.
