(* C14 - placeholder while the model is being written *)
From Coq Require Import Arith.
Theorem C14_placeholder : 1 + 1 = 2.
Proof. exact (eq_refl 2). Qed.
Print Assumptions C14_placeholder.
