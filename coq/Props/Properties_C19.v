(* C19 - a log message reaches the handler exactly when category and thresholds say so.
   sc_log, sc_logv, sc_set_log_defaults and the SC_GEN_LOG* macros are GENERATED from /repo's current
   source (Gen/LogC19.v); the state around them is the model C19/LogModel.v, tied to the
   implementation by the exhaustive correspondence run of checks/C19.py.
   This file contains only statements, `exact` proofs and Print Assumptions. *)
From Coq Require Import ZArith List Bool.
From ScV Require Import Base.CInt Gen.LogC19 C19.LogModel C19.LogProofs C19.LogMachine.
Import ListNotations.
Local Open Scope Z_scope.
Local Open Scope bool_scope.

(* --- the generated decision, for EVERY value of every global and argument ------------------- *)
Theorem C19_filter_generated :
  forall (isr pkt pkh : Z -> Z) (dthr dh stream stdout ident tfile tprio package category priority msg : Z),
  sc_log isr pkt pkh dthr dh stream stdout ident tfile tprio package category priority msg =
  if g_passes ident category priority then
    [(1, 0, 0, g_eff_pkg isr package, 0, 0, 0)]
    ++ (if g_trace_on tfile tprio priority
        then [(0, g_eff_handler isr pkh dh package, tfile, g_eff_pkg isr package, category, priority, msg)] else [])
    ++ (if g_eff_thr isr pkt dthr package <=? priority
        then [(0, g_eff_handler isr pkh dh package, g_eff_stream stream stdout, g_eff_pkg isr package, category, priority, msg)] else [])
    ++ [(2, 0, 0, g_eff_pkg isr package, 0, 0, 0)]
  else [].
Proof. exact sc_log_events. Qed.
Print Assumptions C19_filter_generated.

(* --- handler invocations in any state: trace delivery (own bound) then log delivery (threshold) -- *)
Theorem C19_filter : forall st package category priority msg,
  deliveries (log_st st package category priority msg) =
  (if passes st category priority && trace_on st priority
   then [trace_delivery st package category priority msg] else [])
  ++ (if passes st category priority && (eff_threshold st package <=? priority)
      then [log_delivery st package category priority msg] else []).
Proof. exact log_filter. Qed.
Print Assumptions C19_filter.

(* exactly once iff deliverable, otherwise not at all; the trace stream independently *)
Theorem C19_exactly_once : forall st package c q msg,
  exists tr lg,
    deliveries (log_st st package c q msg) = tr ++ lg
    /\ (deliverable st package c q -> lg = [log_delivery st package c q msg])
    /\ (~ deliverable st package c q -> lg = [])
    /\ (traceable st c q -> tr = [trace_delivery st package c q msg])
    /\ (~ traceable st c q -> tr = []).
Proof. exact log_exactly_once. Qed.
Print Assumptions C19_exactly_once.

(* ... in particular after EVERY history of registrations, threshold changes, init/finalize, logging *)
Theorem C19_exactly_once_after_history : forall dbg ops st evs,
  run dbg (init_state dbg) ops = Some (st, evs) ->
  forall package c q msg, exists tr lg,
    deliveries (log_st st package c q msg) = tr ++ lg
    /\ (deliverable st package c q -> lg = [log_delivery st package c q msg])
    /\ (~ deliverable st package c q -> lg = [])
    /\ (traceable st c q -> tr = [trace_delivery st package c q msg])
    /\ (~ traceable st c q -> tr = []).
Proof. intros dbg ops st evs _. exact (log_exactly_once st). Qed.
Print Assumptions C19_exactly_once_after_history.

Theorem C19_conditions_decidable : forall st c q,
  (passes st c q = true <-> admitted st c q) /\ (trace_on st q = true <-> (s_tfile st <> 0 /\ s_tprio st <= q)).
Proof. intros; split; [exact (passes_spec st c q)|exact (trace_on_spec st q)]. Qed.
Print Assumptions C19_conditions_decidable.

Theorem C19_unregistered_is_default : forall st package c q msg,
  is_reg st package = 0 -> log_st st package c q msg = log_st st (-1) c q msg.
Proof. exact log_unregistered_is_default. Qed.
Print Assumptions C19_unregistered_is_default.

(* sc_log takes the mutex of the effective package (-1 or registered: a mutex that exists), once, around the deliveries *)
Theorem C19_log_locks : forall st package c q msg,
  locks (log_st st package c q msg) =
  (if passes st c q then [(1, 0, 0, eff_pkg st package, 0, 0, 0); (2, 0, 0, eff_pkg st package, 0, 0, 0)] else [])
  /\ lock_legal st (eff_pkg st package) = true.
Proof. intros; split; [exact (log_locks st package c q msg)|exact (eff_pkg_legal st package)]. Qed.
Print Assumptions C19_log_locks.

(* sc_logf / sc_logv, the GENERATED function for every value of every global and argument: the id is
   mapped to the effective package first (the given id if registered or -1, else -1 - the package sc_log
   uses), that package's mutex is locked and unlocked, then it is sc_log *)
Theorem C19_logv_generated :
  forall (isr pkt pkh : Z -> Z) (dthr dh stream stdout ident tfile tprio package category priority fmt : Z),
  sc_logv isr pkt pkh dthr dh stream stdout ident tfile tprio package category priority fmt =
  [(1, 0, 0, g_eff_pkg isr package, 0, 0, 0); (2, 0, 0, g_eff_pkg isr package, 0, 0, 0)]
  ++ sc_log isr pkt pkh dthr dh stream stdout ident tfile tprio package category priority fmt.
Proof. exact sc_logv_events. Qed.
Print Assumptions C19_logv_generated.

(* the same in a model state, for EVERY package id: exactly the effective package is locked and unlocked
   (a mutex that exists), the handler invocations are those of sc_log; the call never ends the process;
   for ids below -1 the "Invalid package id" message of sc_package_is_registered appears once, exactly
   as in sc_log *)
Theorem C19_logv : forall dbg st package c q msg,
  logv_st st package c q msg =
    [(1, 0, 0, eff_pkg st package, 0, 0, 0); (2, 0, 0, eff_pkg st package, 0, 0, 0)] ++ log_st st package c q msg
  /\ lock_legal st (eff_pkg st package) = true
  /\ deliveries (logv_st st package c q msg) = deliveries (log_st st package c q msg)
  /\ step dbg st (OLogv package c q msg) =
       Some (st, isreg_query dbg st package
                 ++ [(1, 0, 0, eff_pkg st package, 0, 0, 0); (2, 0, 0, eff_pkg st package, 0, 0, 0)]
                 ++ log_st st package c q msg)
  /\ step dbg st (OLog package c q msg) = Some (st, isreg_query dbg st package ++ log_st st package c q msg)
  /\ isreg_query dbg st package =
       (if package <? -1 then logv_st st (s_pkgid st) c19_const_lc_normal c19_const_lp_error MSG_INVALID_ID else []).
Proof.
  intros; split; [exact (logv_events st package c q msg)|split; [exact (eff_pkg_legal st package)|
  split; [exact (logv_deliveries st package c q msg)|split; [exact (proj1 (logv_step dbg st package c q msg))|
  split; [exact (proj2 (logv_step dbg st package c q msg))|exact (isreg_query_once dbg st package)]]]]].
Qed.
Print Assumptions C19_logv.

(* every lock event of sc_logv names the effective package, whose mutex exists *)
Theorem C19_logv_locks : forall st package c q msg e,
  In e (locks (logv_st st package c q msg)) ->
  (e = (1, 0, 0, eff_pkg st package, 0, 0, 0) \/ e = (2, 0, 0, eff_pkg st package, 0, 0, 0))
  /\ lock_legal st (eff_pkg st package) = true.
Proof. exact logv_locks_legal. Qed.
Print Assumptions C19_logv_locks.

(* logging in any form never ends the process and leaves the state alone, whatever the package id *)
Theorem C19_logging_total : forall dbg st o,
  (match o with OLog _ _ _ _ | OLogv _ _ _ _ | OGenLog _ _ _ _ | OGenLogf _ _ _ _ => True | _ => False end) ->
  exists evs, step dbg st o = Some (st, evs).
Proof. exact step_log_total. Qed.
Print Assumptions C19_logging_total.

(* what repair 622fcc2 of libsc removed (former finding logv-unregistered-package): sc_logv as it was
   (sc_logv_old: lock of the id AS GIVEN) takes, for every id that is neither -1 nor registered, a mutex
   that does not exist, while the generated sc_logv never mentions that id; the handler invocations are
   the same.  Reverting the repair makes the generated function equal to sc_logv_old, and C19_logv,
   C19_logv_generated and C19_logv_locks stop checking. *)
Theorem C19_logv_old_locks_unregistered : forall st package c q msg,
  package <> -1 -> is_reg st package = 0 ->
  In (1, 0, 0, package, 0, 0, 0) (logv_old_st st package c q msg)
  /\ lock_legal st package = false
  /\ ~ In (1, 0, 0, package, 0, 0, 0) (logv_st st package c q msg)
  /\ deliveries (logv_old_st st package c q msg) = deliveries (logv_st st package c q msg).
Proof. exact logv_old_locks_unregistered. Qed.
Print Assumptions C19_logv_old_locks_unregistered.

(* --- the compile-time macros in front: only priorities below SC_LP_THRESHOLD are dropped ------- *)
Theorem C19_gen_log_macro : forall (dbg : bool) package c q s,
  (if dbg then w_c19_gen_log_dbg else w_c19_gen_log) package c q s =
  (if q <? lp_threshold dbg then [] else [(3, 0, 0, package, c, q, s)])
  /\ (if dbg then w_c19_gen_logf_dbg else w_c19_gen_logf) package c q s =
     (if q <? lp_threshold dbg then [] else [(4, 0, 0, package, c, q, s)]).
Proof. intros; split; [exact (gen_log_macro dbg package c q s)|exact (gen_logf_macro dbg package c q s)]. Qed.
Print Assumptions C19_gen_log_macro.

Theorem C19_gen_log_step : forall dbg st package c q msg,
  step dbg st (OGenLog package c q msg) = (if q <? lp_threshold dbg then Some (st, []) else step dbg st (OLog package c q msg))
  /\ step dbg st (OGenLogf package c q msg) = (if q <? lp_threshold dbg then Some (st, []) else step dbg st (OLogv package c q msg)).
Proof. intros; split; [exact (gen_log_step dbg st package c q msg)|exact (gen_logf_step dbg st package c q msg)]. Qed.
Print Assumptions C19_gen_log_step.

Theorem C19_convenience_macros : forall (dbg : bool) id s,
  (if dbg then w_c19_lerror_dbg else w_c19_lerror) id s = [(4, 0, 0, id, c19_const_lc_normal, c19_const_lp_error, s)]
  /\ (if dbg then w_c19_global_essential_dbg else w_c19_global_essential) id s = [(4, 0, 0, id, c19_const_lc_global, c19_const_lp_essential, s)]
  /\ (if dbg then w_c19_global_production_dbg else w_c19_global_production) id s = [(4, 0, 0, id, c19_const_lc_global, c19_const_lp_production, s)]
  /\ (if dbg then w_c19_trace_dbg else w_c19_trace) id s = (if dbg then [(4, 0, 0, id, c19_const_lc_normal, c19_const_lp_trace, s)] else [])
  /\ (if dbg then w_c19_global_info_dbg else w_c19_global_info) id s = [(4, 0, 0, id, c19_const_lc_global, 4, s)].
Proof. exact convenience_macros. Qed.
Print Assumptions C19_convenience_macros.

(* --- the mutators, in terms of the abstract view id -> (handler, threshold) --------------------- *)
Theorem C19_register_least_free : forall dbg st h thr st' evs,
  step dbg st (ORegister h thr) = Some (st', evs) ->
  exists id, evs = [(5, 0, 0, id, 0, 0, 0)] /\ 0 <= id
    /\ lookup st id = None /\ (forall j, 0 <= j < id -> lookup st j <> None)
    /\ lookup st' id = Some (h, thr) /\ (forall j, j <> id -> lookup st' j = lookup st j)
    /\ same_globals st st' /\ valid_thr thr = true.
Proof. exact step_register. Qed.
Print Assumptions C19_register_least_free.

Theorem C19_unregister : forall dbg st id st' evs,
  step dbg st (OUnregister id) = Some (st', evs) ->
  evs = [] /\ lookup st id <> None /\ lookup st' id = None
  /\ (forall j, j <> id -> lookup st' j = lookup st j) /\ same_globals st st'.
Proof. exact step_unregister. Qed.
Print Assumptions C19_unregister.

Theorem C19_set_verbosity : forall dbg st id thr st' evs,
  step dbg st (OSetVerbosity id thr) = Some (st', evs) ->
  evs = [] /\ (exists h t0, lookup st id = Some (h, t0) /\ lookup st' id = Some (h, thr))
  /\ (forall j, j <> id -> lookup st' j = lookup st j) /\ same_globals st st' /\ valid_thr thr = true.
Proof. exact step_set_verbosity. Qed.
Print Assumptions C19_set_verbosity.

Theorem C19_set_defaults : forall dbg st stream h thr st' evs,
  step dbg st (OSetDefaults stream h thr) = Some (st', evs) ->
  evs = []
  /\ s_dhandler st' = (if h =? 0 then BUILTIN else h)
  /\ s_dthr st' = (if thr =? c19_const_lp_default then lp_threshold dbg else thr)
  /\ s_stream st' = stream
  /\ s_table st' = s_table st /\ s_ident st' = s_ident st /\ s_tfile st' = s_tfile st
  /\ s_tprio st' = s_tprio st /\ s_pkgid st' = s_pkgid st.
Proof. exact step_set_defaults. Qed.
Print Assumptions C19_set_defaults.

Theorem C19_init : forall dbg st ident h thr st' evs,
  step dbg st (OInit ident h thr) = Some (st', evs) ->
  exists id, 0 <= id /\ s_pkgid st = -1 /\ s_pkgid st' = id /\ s_ident st' = ident
    /\ lookup st id = None /\ (forall j, 0 <= j < id -> lookup st j <> None)
    /\ lookup st' id = Some (h, thr) /\ (forall j, j <> id -> lookup st' j = lookup st j)
    /\ s_dthr st' = s_dthr st /\ s_dhandler st' = s_dhandler st /\ s_stream st' = s_stream st
    /\ s_tfile st' = s_tfile st /\ s_tprio st' = s_tprio st
    /\ evs = flat_map (fun m => logv_st st' id c19_const_lc_global (if m =? MSG_THIS_IS then c19_const_lp_essential else c19_const_lp_production) m)
                      (MSG_THIS_IS :: MSG_INIT) ++ [(5, 0, 0, id, 0, 0, 0)].
Proof. exact step_init. Qed.
Print Assumptions C19_init.

Theorem C19_finalize : forall dbg st st' evs,
  step dbg st OFinalize = Some (st', evs) ->
  evs = [] /\ (forall id, lookup st' id = None) /\ s_ident st' = -1 /\ s_tfile st' = 0 /\ s_pkgid st' = -1
  /\ s_dthr st' = s_dthr st /\ s_dhandler st' = s_dhandler st /\ s_stream st' = s_stream st /\ s_tprio st' = s_tprio st.
Proof. exact step_finalize. Qed.
Print Assumptions C19_finalize.

Theorem C19_logging_keeps_state : forall dbg st o st' evs,
  (match o with OLog _ _ _ _ | OLogv _ _ _ _ | OGenLog _ _ _ _ | OGenLogf _ _ _ _ => True | _ => False end) ->
  step dbg st o = Some (st', evs) -> st' = st.
Proof. exact step_log_keeps_state. Qed.
Print Assumptions C19_logging_keeps_state.

(* thresholds can be changed at any time with immediate effect *)
Theorem C19_threshold_immediate : forall dbg st id thr st' evs,
  step dbg st (OSetVerbosity id thr) = Some (st', evs) ->
  eff_threshold st' id = (if thr =? c19_const_lp_default then s_dthr st else thr)
  /\ eff_handler st' id = eff_handler st id
  /\ forall j, j <> id -> eff_threshold st' j = eff_threshold st j /\ eff_handler st' j = eff_handler st j.
Proof. exact set_verbosity_immediate. Qed.
Print Assumptions C19_threshold_immediate.

Theorem C19_defaults_immediate : forall dbg st stream h thr st' evs,
  step dbg st (OSetDefaults stream h thr) = Some (st', evs) ->
  forall id, eff_threshold st' id =
             match lookup st id with
             | Some (_, t) => if t =? c19_const_lp_default then (if thr =? c19_const_lp_default then lp_threshold dbg else thr) else t
             | None => if thr =? c19_const_lp_default then lp_threshold dbg else thr end.
Proof. exact set_defaults_immediate. Qed.
Print Assumptions C19_defaults_immediate.

(* what the filter reads is the abstract view only *)
Theorem C19_effective_from_view : forall st id,
  eff_pkg st id = (match lookup st id with Some _ => id | None => -1 end)
  /\ eff_threshold st id = (match lookup st id with
                            | Some (_, t) => if t =? c19_const_lp_default then s_dthr st else t
                            | None => s_dthr st end)
  /\ eff_handler st id = (match lookup st id with
                          | Some (h, _) => if h =? 0 then s_dhandler st else h
                          | None => s_dhandler st end).
Proof. intros; split; [exact (eff_pkg_lookup st id)|split; [exact (eff_threshold_lookup st id)|exact (eff_handler_lookup st id)]]. Qed.
Print Assumptions C19_effective_from_view.

(* the table layout (allocation size, slot reuse, doubling) is unobservable: states with equal views
   produce equal events and equal views under EVERY history, and abort on the same histories *)
Theorem C19_history_view : forall dbg ops a b, view_eq a b ->
  match run dbg a ops, run dbg b ops with
  | Some (a', e1), Some (b', e2) => e1 = e2 /\ view_eq a' b'
  | None, None => True
  | _, _ => False
  end.
Proof. exact run_view. Qed.
Print Assumptions C19_history_view.

(* in every reachable state the handler that sc_log calls is not NULL *)
Theorem C19_handler_never_null : forall dbg ops st evs,
  run dbg (init_state dbg) ops = Some (st, evs) -> forall package, eff_handler st package <> 0.
Proof. exact handler_never_null. Qed.
Print Assumptions C19_handler_never_null.

(* --- the hypotheses are satisfiable / the statements are not vacuous --------------------------- *)
Example C19_ex_history :
  exists st evs,
    run false (init_state false)
        [OSetDefaults 2 1 3; ORegister 2 (-1); ORegister 0 6; OUnregister 0; ORegister 3 8;
         OSetVerbosity 1 2; OLog 1 2 2 7; OLog 0 1 8 8; OLog 5 2 3 9; OLog 0 2 7 10] = Some (st, evs)
    /\ deliveries evs = [(0, 1, 2, 1, 2, 2, 7); (0, 3, 2, 0, 1, 8, 8); (0, 1, 2, -1, 2, 3, 9)]
    /\ deliverable st 1 2 2 /\ ~ deliverable st 0 2 7.
Proof.
  eexists; eexists; split; [vm_compute; reflexivity|]. split; [vm_compute; reflexivity|].
  split.
  - repeat split; vm_compute; try discriminate; try (right; reflexivity). intros [H _]; discriminate.
  - intros [_ H]. vm_compute in H. apply H. reflexivity.
Qed.

Example C19_ex_trace_independent :
  exists st evs, run false (init_state false) [OSetDefaults 0 1 9; OTrace 3 2; OLog (-1) 2 5 1] = Some (st, evs)
    /\ deliveries evs = [(0, 1, 3, -1, 2, 5, 1)].
Proof. eexists; eexists; split; vm_compute; reflexivity. Qed.

(* the hypotheses of C19_logv_old_locks_unregistered are satisfiable, and sc_logf with ids that are not
   registered (unregistered again, never registered inside the table, beyond the table, negative) is
   delivered to the default handler *)
Example C19_ex_logv_old_differs :
  exists st package c q msg,
    package <> -1 /\ is_reg st package = 0 /\ logv_old_st st package c q msg <> logv_st st package c q msg.
Proof. exact logv_old_example. Qed.

Example C19_ex_logv_unregistered :
  exists st evs,
    run false (init_state false)
        [OSetDefaults 2 1 3; ORegister 2 0; ORegister 3 0; OUnregister 1;
         OLogv 1 2 5 7; OLogv 2 2 5 8; OLogv 3 2 5 9; OLogv 1000 2 5 10; OLogv (-7) 2 5 11; OLogv 0 2 5 12] = Some (st, evs)
    /\ deliveries evs = [(0, 1, 2, -1, 2, 5, 7); (0, 1, 2, -1, 2, 5, 8); (0, 1, 2, -1, 2, 5, 9); (0, 1, 2, -1, 2, 5, 10);
                         (0, 1, 2, -1, 2, 8, MSG_INVALID_ID); (0, 1, 2, -1, 2, 5, 11); (0, 2, 2, 0, 2, 5, 12)].
Proof. eexists; eexists; split; vm_compute; reflexivity. Qed.
