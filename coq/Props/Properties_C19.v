(* C19 - a log message reaches the handler exactly when category and thresholds say so.
   sc_log, sc_logv, sc_set_log_defaults and the SC_GEN_LOG* macros are GENERATED from /repo's current
   source (Gen/LogC19.v); the state around them is the model C19/LogModel.v, tied to the
   implementation by the exhaustive correspondence run of checks/C19.py.
   The PACKAGE REGISTRY (sc_package_register / unregister / is_registered / set_verbosity, sc_finalize_noabort,
   sc_log_indent_*, the decisions of the built-in handler) is GENERATED as well (Gen/PkgC19.v); the machine that
   executes the generated functions on a concrete table (C19/PkgModel.v) refines the model for every history.
   This file contains only statements, `exact` proofs and Print Assumptions. *)
From Coq Require Import ZArith List Bool.
From ScV Require Import Base.CInt Gen.LogC19 Gen.PkgC19 C19.LogModel C19.LogProofs C19.LogMachine C19.PkgModel C19.PkgProofs C19.LogHistories C19.LogLaws.
Import ListNotations.
Local Open Scope Z_scope.
Local Open Scope bool_scope.

(* --- the generated decision, for EVERY value of every global and argument ------------------- *)
Theorem C19_filter_generated :
  forall (isr pkt pkh : Z -> Z) (dthr dh stream stdout ident tfile tprio package category priority msg : Z),
  sc_log isr pkt pkh dthr dh stream stdout ident tfile tprio package category priority msg =
  if g_passes ident category priority then
    [(1, 0, 0, g_eff_pkg isr package, 0, 0, 0)]
    ++ (if g_trace_on tfile tprio priority
        then [(0, g_eff_handler isr pkh dh package, tfile, g_eff_pkg isr package, category, priority, msg)] else [])
    ++ (if g_eff_thr isr pkt dthr package <=? priority
        then [(0, g_eff_handler isr pkh dh package, g_eff_stream stream stdout, g_eff_pkg isr package, category, priority, msg)] else [])
    ++ [(2, 0, 0, g_eff_pkg isr package, 0, 0, 0)]
  else [].
Proof. exact sc_log_events. Qed.
Print Assumptions C19_filter_generated.

(* --- handler invocations in any state: trace delivery (own bound) then log delivery (threshold) -- *)
Theorem C19_filter : forall st package category priority msg,
  deliveries (log_st st package category priority msg) =
  (if passes st category priority && trace_on st priority
   then [trace_delivery st package category priority msg] else [])
  ++ (if passes st category priority && (eff_threshold st package <=? priority)
      then [log_delivery st package category priority msg] else []).
Proof. exact log_filter. Qed.
Print Assumptions C19_filter.

(* exactly once iff deliverable, otherwise not at all; the trace stream independently *)
Theorem C19_exactly_once : forall st package c q msg,
  exists tr lg,
    deliveries (log_st st package c q msg) = tr ++ lg
    /\ (deliverable st package c q -> lg = [log_delivery st package c q msg])
    /\ (~ deliverable st package c q -> lg = [])
    /\ (traceable st c q -> tr = [trace_delivery st package c q msg])
    /\ (~ traceable st c q -> tr = []).
Proof. exact log_exactly_once. Qed.
Print Assumptions C19_exactly_once.

(* ... in particular after EVERY history of registrations, threshold changes, init/finalize, logging *)
Theorem C19_exactly_once_after_history : forall dbg ops st evs,
  run dbg (init_state dbg) ops = Some (st, evs) ->
  forall package c q msg, exists tr lg,
    deliveries (log_st st package c q msg) = tr ++ lg
    /\ (deliverable st package c q -> lg = [log_delivery st package c q msg])
    /\ (~ deliverable st package c q -> lg = [])
    /\ (traceable st c q -> tr = [trace_delivery st package c q msg])
    /\ (~ traceable st c q -> tr = []).
Proof. intros dbg ops st evs _. exact (log_exactly_once st). Qed.
Print Assumptions C19_exactly_once_after_history.

Theorem C19_conditions_decidable : forall st c q,
  (passes st c q = true <-> admitted st c q) /\ (trace_on st q = true <-> (s_tfile st <> 0 /\ s_tprio st <= q)).
Proof. intros; split; [exact (passes_spec st c q)|exact (trace_on_spec st q)]. Qed.
Print Assumptions C19_conditions_decidable.

Theorem C19_unregistered_is_default : forall st package c q msg,
  is_reg st package = 0 -> log_st st package c q msg = log_st st (-1) c q msg.
Proof. exact log_unregistered_is_default. Qed.
Print Assumptions C19_unregistered_is_default.

(* sc_log takes the mutex of the effective package (-1 or registered: a mutex that exists), once, around the deliveries *)
Theorem C19_log_locks : forall st package c q msg,
  locks (log_st st package c q msg) =
  (if passes st c q then [(1, 0, 0, eff_pkg st package, 0, 0, 0); (2, 0, 0, eff_pkg st package, 0, 0, 0)] else [])
  /\ lock_legal st (eff_pkg st package) = true.
Proof. intros; split; [exact (log_locks st package c q msg)|exact (eff_pkg_legal st package)]. Qed.
Print Assumptions C19_log_locks.

(* sc_logf / sc_logv, the GENERATED function for every value of every global and argument: the id is
   mapped to the effective package first (the given id if registered or -1, else -1 - the package sc_log
   uses), that package's mutex is locked and unlocked, then it is sc_log *)
Theorem C19_logv_generated :
  forall (isr pkt pkh : Z -> Z) (dthr dh stream stdout ident tfile tprio package category priority fmt : Z),
  sc_logv isr pkt pkh dthr dh stream stdout ident tfile tprio package category priority fmt =
  [(1, 0, 0, g_eff_pkg isr package, 0, 0, 0); (2, 0, 0, g_eff_pkg isr package, 0, 0, 0)]
  ++ sc_log isr pkt pkh dthr dh stream stdout ident tfile tprio package category priority fmt.
Proof. exact sc_logv_events. Qed.
Print Assumptions C19_logv_generated.

(* the same in a model state, for EVERY package id: exactly the effective package is locked and unlocked
   (a mutex that exists), the handler invocations are those of sc_log; the call never ends the process;
   for ids below -1 the "Invalid package id" message of sc_package_is_registered appears once, exactly
   as in sc_log *)
Theorem C19_logv : forall dbg st package c q msg,
  logv_st st package c q msg =
    [(1, 0, 0, eff_pkg st package, 0, 0, 0); (2, 0, 0, eff_pkg st package, 0, 0, 0)] ++ log_st st package c q msg
  /\ lock_legal st (eff_pkg st package) = true
  /\ deliveries (logv_st st package c q msg) = deliveries (log_st st package c q msg)
  /\ step dbg st (OLogv package c q msg) =
       Some (st, isreg_query dbg st package
                 ++ [(1, 0, 0, eff_pkg st package, 0, 0, 0); (2, 0, 0, eff_pkg st package, 0, 0, 0)]
                 ++ log_st st package c q msg)
  /\ step dbg st (OLog package c q msg) = Some (st, isreg_query dbg st package ++ log_st st package c q msg)
  /\ isreg_query dbg st package =
       (if package <? -1 then logv_st st (s_pkgid st) c19_const_lc_normal c19_const_lp_error MSG_INVALID_ID else []).
Proof.
  intros; split; [exact (logv_events st package c q msg)|split; [exact (eff_pkg_legal st package)|
  split; [exact (logv_deliveries st package c q msg)|split; [exact (proj1 (logv_step dbg st package c q msg))|
  split; [exact (proj2 (logv_step dbg st package c q msg))|exact (isreg_query_once dbg st package)]]]]].
Qed.
Print Assumptions C19_logv.

(* every lock event of sc_logv names the effective package, whose mutex exists *)
Theorem C19_logv_locks : forall st package c q msg e,
  In e (locks (logv_st st package c q msg)) ->
  (e = (1, 0, 0, eff_pkg st package, 0, 0, 0) \/ e = (2, 0, 0, eff_pkg st package, 0, 0, 0))
  /\ lock_legal st (eff_pkg st package) = true.
Proof. exact logv_locks_legal. Qed.
Print Assumptions C19_logv_locks.

(* logging in any form never ends the process and leaves the state alone, whatever the package id *)
Theorem C19_logging_total : forall dbg st o,
  (match o with OLog _ _ _ _ | OLogv _ _ _ _ | OGenLog _ _ _ _ | OGenLogf _ _ _ _ => True | _ => False end) ->
  exists evs, step dbg st o = Some (st, evs).
Proof. exact step_log_total. Qed.
Print Assumptions C19_logging_total.

(* what repair 622fcc2 of libsc removed (former finding logv-unregistered-package): sc_logv as it was
   (sc_logv_old: lock of the id AS GIVEN) takes, for every id that is neither -1 nor registered, a mutex
   that does not exist, while the generated sc_logv never mentions that id; the handler invocations are
   the same.  Reverting the repair makes the generated function equal to sc_logv_old, and C19_logv,
   C19_logv_generated and C19_logv_locks stop checking. *)
Theorem C19_logv_old_locks_unregistered : forall st package c q msg,
  package <> -1 -> is_reg st package = 0 ->
  In (1, 0, 0, package, 0, 0, 0) (logv_old_st st package c q msg)
  /\ lock_legal st package = false
  /\ ~ In (1, 0, 0, package, 0, 0, 0) (logv_st st package c q msg)
  /\ deliveries (logv_old_st st package c q msg) = deliveries (logv_st st package c q msg).
Proof. exact logv_old_locks_unregistered. Qed.
Print Assumptions C19_logv_old_locks_unregistered.

(* --- the compile-time macros in front: only priorities below SC_LP_THRESHOLD are dropped ------- *)
Theorem C19_gen_log_macro : forall (dbg : bool) package c q s,
  (if dbg then w_c19_gen_log_dbg else w_c19_gen_log) package c q s =
  (if q <? lp_threshold dbg then [] else [(3, 0, 0, package, c, q, s)])
  /\ (if dbg then w_c19_gen_logf_dbg else w_c19_gen_logf) package c q s =
     (if q <? lp_threshold dbg then [] else [(4, 0, 0, package, c, q, s)]).
Proof. intros; split; [exact (gen_log_macro dbg package c q s)|exact (gen_logf_macro dbg package c q s)]. Qed.
Print Assumptions C19_gen_log_macro.

Theorem C19_gen_log_step : forall dbg st package c q msg,
  step dbg st (OGenLog package c q msg) = (if q <? lp_threshold dbg then Some (st, []) else step dbg st (OLog package c q msg))
  /\ step dbg st (OGenLogf package c q msg) = (if q <? lp_threshold dbg then Some (st, []) else step dbg st (OLogv package c q msg)).
Proof. intros; split; [exact (gen_log_step dbg st package c q msg)|exact (gen_logf_step dbg st package c q msg)]. Qed.
Print Assumptions C19_gen_log_step.

Theorem C19_convenience_macros : forall (dbg : bool) id s,
  (if dbg then w_c19_lerror_dbg else w_c19_lerror) id s = [(4, 0, 0, id, c19_const_lc_normal, c19_const_lp_error, s)]
  /\ (if dbg then w_c19_global_essential_dbg else w_c19_global_essential) id s = [(4, 0, 0, id, c19_const_lc_global, c19_const_lp_essential, s)]
  /\ (if dbg then w_c19_global_production_dbg else w_c19_global_production) id s = [(4, 0, 0, id, c19_const_lc_global, c19_const_lp_production, s)]
  /\ (if dbg then w_c19_trace_dbg else w_c19_trace) id s = (if dbg then [(4, 0, 0, id, c19_const_lc_normal, c19_const_lp_trace, s)] else [])
  /\ (if dbg then w_c19_global_info_dbg else w_c19_global_info) id s = [(4, 0, 0, id, c19_const_lc_global, 4, s)].
Proof. exact convenience_macros. Qed.
Print Assumptions C19_convenience_macros.

(* --- the mutators, in terms of the abstract view id -> (handler, threshold) --------------------- *)
Theorem C19_register_least_free : forall dbg st h thr st' evs,
  step dbg st (ORegister h thr) = Some (st', evs) ->
  exists id, evs = [(5, 0, 0, id, 0, 0, 0)] /\ 0 <= id
    /\ lookup st id = None /\ (forall j, 0 <= j < id -> lookup st j <> None)
    /\ lookup st' id = Some (h, thr) /\ (forall j, j <> id -> lookup st' j = lookup st j)
    /\ same_globals st st' /\ valid_thr thr = true.
Proof. exact step_register. Qed.
Print Assumptions C19_register_least_free.

Theorem C19_unregister : forall dbg st id st' evs,
  step dbg st (OUnregister id) = Some (st', evs) ->
  evs = [] /\ lookup st id <> None /\ lookup st' id = None
  /\ (forall j, j <> id -> lookup st' j = lookup st j) /\ same_globals st st'.
Proof. exact step_unregister. Qed.
Print Assumptions C19_unregister.

Theorem C19_set_verbosity : forall dbg st id thr st' evs,
  step dbg st (OSetVerbosity id thr) = Some (st', evs) ->
  evs = [] /\ (exists h t0, lookup st id = Some (h, t0) /\ lookup st' id = Some (h, thr))
  /\ (forall j, j <> id -> lookup st' j = lookup st j) /\ same_globals st st' /\ valid_thr thr = true.
Proof. exact step_set_verbosity. Qed.
Print Assumptions C19_set_verbosity.

Theorem C19_set_defaults : forall dbg st stream h thr st' evs,
  step dbg st (OSetDefaults stream h thr) = Some (st', evs) ->
  evs = []
  /\ s_dhandler st' = (if h =? 0 then BUILTIN else h)
  /\ s_dthr st' = (if thr =? c19_const_lp_default then lp_threshold dbg else thr)
  /\ s_stream st' = stream
  /\ s_table st' = s_table st /\ s_ident st' = s_ident st /\ s_tfile st' = s_tfile st
  /\ s_tprio st' = s_tprio st /\ s_pkgid st' = s_pkgid st.
Proof. exact step_set_defaults. Qed.
Print Assumptions C19_set_defaults.

Theorem C19_init : forall dbg st ident h thr st' evs,
  step dbg st (OInit ident h thr) = Some (st', evs) ->
  exists id, 0 <= id /\ s_pkgid st = -1 /\ s_pkgid st' = id /\ s_ident st' = ident
    /\ lookup st id = None /\ (forall j, 0 <= j < id -> lookup st j <> None)
    /\ lookup st' id = Some (h, thr) /\ (forall j, j <> id -> lookup st' j = lookup st j)
    /\ s_dthr st' = s_dthr st /\ s_dhandler st' = s_dhandler st /\ s_stream st' = s_stream st
    /\ s_tfile st' = s_tfile st /\ s_tprio st' = s_tprio st
    /\ evs = flat_map (fun m => logv_st st' id c19_const_lc_global (if m =? MSG_THIS_IS then c19_const_lp_essential else c19_const_lp_production) m)
                      (MSG_THIS_IS :: MSG_INIT) ++ [(5, 0, 0, id, 0, 0, 0)].
Proof. exact step_init. Qed.
Print Assumptions C19_init.

Theorem C19_finalize : forall dbg st st' evs,
  step dbg st OFinalize = Some (st', evs) ->
  evs = [] /\ (forall id, lookup st' id = None) /\ s_ident st' = -1 /\ s_tfile st' = 0 /\ s_pkgid st' = -1
  /\ s_dthr st' = s_dthr st /\ s_dhandler st' = s_dhandler st /\ s_stream st' = s_stream st /\ s_tprio st' = s_tprio st.
Proof. exact step_finalize. Qed.
Print Assumptions C19_finalize.

Theorem C19_logging_keeps_state : forall dbg st o st' evs,
  (match o with OLog _ _ _ _ | OLogv _ _ _ _ | OGenLog _ _ _ _ | OGenLogf _ _ _ _ => True | _ => False end) ->
  step dbg st o = Some (st', evs) -> st' = st.
Proof. exact step_log_keeps_state. Qed.
Print Assumptions C19_logging_keeps_state.

(* thresholds can be changed at any time with immediate effect *)
Theorem C19_threshold_immediate : forall dbg st id thr st' evs,
  step dbg st (OSetVerbosity id thr) = Some (st', evs) ->
  eff_threshold st' id = (if thr =? c19_const_lp_default then s_dthr st else thr)
  /\ eff_handler st' id = eff_handler st id
  /\ forall j, j <> id -> eff_threshold st' j = eff_threshold st j /\ eff_handler st' j = eff_handler st j.
Proof. exact set_verbosity_immediate. Qed.
Print Assumptions C19_threshold_immediate.

Theorem C19_defaults_immediate : forall dbg st stream h thr st' evs,
  step dbg st (OSetDefaults stream h thr) = Some (st', evs) ->
  forall id, eff_threshold st' id =
             match lookup st id with
             | Some (_, t) => if t =? c19_const_lp_default then (if thr =? c19_const_lp_default then lp_threshold dbg else thr) else t
             | None => if thr =? c19_const_lp_default then lp_threshold dbg else thr end.
Proof. exact set_defaults_immediate. Qed.
Print Assumptions C19_defaults_immediate.

(* what the filter reads is the abstract view only *)
Theorem C19_effective_from_view : forall st id,
  eff_pkg st id = (match lookup st id with Some _ => id | None => -1 end)
  /\ eff_threshold st id = (match lookup st id with
                            | Some (_, t) => if t =? c19_const_lp_default then s_dthr st else t
                            | None => s_dthr st end)
  /\ eff_handler st id = (match lookup st id with
                          | Some (h, _) => if h =? 0 then s_dhandler st else h
                          | None => s_dhandler st end).
Proof. intros; split; [exact (eff_pkg_lookup st id)|split; [exact (eff_threshold_lookup st id)|exact (eff_handler_lookup st id)]]. Qed.
Print Assumptions C19_effective_from_view.

(* the table layout (allocation size, slot reuse, doubling) is unobservable: states with equal views
   produce equal events and equal views under EVERY history, and abort on the same histories *)
Theorem C19_history_view : forall dbg ops a b, view_eq a b ->
  match run dbg a ops, run dbg b ops with
  | Some (a', e1), Some (b', e2) => e1 = e2 /\ view_eq a' b'
  | None, None => True
  | _, _ => False
  end.
Proof. exact run_view. Qed.
Print Assumptions C19_history_view.

(* in every reachable state the handler that sc_log calls is not NULL *)
Theorem C19_handler_never_null : forall dbg ops st evs,
  run dbg (init_state dbg) ops = Some (st, evs) -> forall package, eff_handler st package <> 0.
Proof. exact handler_never_null. Qed.
Print Assumptions C19_handler_never_null.

(* --- the hypotheses are satisfiable / the statements are not vacuous --------------------------- *)
Example C19_ex_history :
  exists st evs,
    run false (init_state false)
        [OSetDefaults 2 1 3; ORegister 2 (-1); ORegister 0 6; OUnregister 0; ORegister 3 8;
         OSetVerbosity 1 2; OLog 1 2 2 7; OLog 0 1 8 8; OLog 5 2 3 9; OLog 0 2 7 10] = Some (st, evs)
    /\ deliveries evs = [(0, 1, 2, 1, 2, 2, 7); (0, 3, 2, 0, 1, 8, 8); (0, 1, 2, -1, 2, 3, 9)]
    /\ deliverable st 1 2 2 /\ ~ deliverable st 0 2 7.
Proof.
  eexists; eexists; split; [vm_compute; reflexivity|]. split; [vm_compute; reflexivity|].
  split.
  - repeat split; vm_compute; try discriminate; try (right; reflexivity). intros [H _]; discriminate.
  - intros [_ H]. vm_compute in H. apply H. reflexivity.
Qed.

Example C19_ex_trace_independent :
  exists st evs, run false (init_state false) [OSetDefaults 0 1 9; OTrace 3 2; OLog (-1) 2 5 1] = Some (st, evs)
    /\ deliveries evs = [(0, 1, 3, -1, 2, 5, 1)].
Proof. eexists; eexists; split; vm_compute; reflexivity. Qed.

(* the hypotheses of C19_logv_old_locks_unregistered are satisfiable, and sc_logf with ids that are not
   registered (unregistered again, never registered inside the table, beyond the table, negative) is
   delivered to the default handler *)
Example C19_ex_logv_old_differs :
  exists st package c q msg,
    package <> -1 /\ is_reg st package = 0 /\ logv_old_st st package c q msg <> logv_st st package c q msg.
Proof. exact logv_old_example. Qed.

Example C19_ex_logv_unregistered :
  exists st evs,
    run false (init_state false)
        [OSetDefaults 2 1 3; ORegister 2 0; ORegister 3 0; OUnregister 1;
         OLogv 1 2 5 7; OLogv 2 2 5 8; OLogv 3 2 5 9; OLogv 1000 2 5 10; OLogv (-7) 2 5 11; OLogv 0 2 5 12] = Some (st, evs)
    /\ deliveries evs = [(0, 1, 2, -1, 2, 5, 7); (0, 1, 2, -1, 2, 5, 8); (0, 1, 2, -1, 2, 5, 9); (0, 1, 2, -1, 2, 5, 10);
                         (0, 1, 2, -1, 2, 8, MSG_INVALID_ID); (0, 1, 2, -1, 2, 5, 11); (0, 2, 2, 0, 2, 5, 12)].
Proof. eexists; eexists; split; vm_compute; reflexivity. Qed.


(* ============================================================================================== *)
(* The package registry: generated functions (Gen/PkgC19.v) on the concrete table (C19/PkgModel.v) *)
(* ============================================================================================== *)

(* sc_package_is_registered, for EVERY table and EVERY value num of the counter sc_num_packages: the bound is the size
   of the TABLE (sc_num_packages_alloc), never the count; the slot's
   is_registered decides; the only effect is the Invalid-package-id message for negative ids *)
Theorem C19_gen_is_registered : forall (dbg : bool) t num pkgid id,
  (if dbg then sc_package_is_registered_dbg else sc_package_is_registered) (m_reg t) num (Z.of_nat (length t)) pkgid id =
  ((if id <? 0 then [(4, id, 0, pkgid, c19_const_lc_normal, c19_const_lp_error, MSG_INVALID_ID)] else []),
   b2z (table_reg (abs t) id)).
Proof. exact gen_is_registered. Qed.
Print Assumptions C19_gen_is_registered.

Theorem C19_gen_is_registered_message : forall (dbg : bool) st id,
  flat_map (expand_own st)
    (fst ((if dbg then sc_package_is_registered_dbg else sc_package_is_registered) (m_reg []) 0 0 (s_pkgid st) id)) =
  isreg_side dbg st id.
Proof. exact gen_is_registered_message. Qed.
Print Assumptions C19_gen_is_registered_message.

(* sc_package_set_verbosity: aborts unless the id is registered and the threshold valid; else ONE store, into the
   threshold of that slot; the abstraction is the model's update *)
Theorem C19_gen_set_verbosity : forall junk c pkgid id thr,
  k_set_verbosity junk c pkgid id thr =
  (if table_reg (abs (c_slots c)) id && valid_thr thr
   then Some (mkcreg (upd (c_slots c) id (setf 3 thr)) (c_num c)) else None)
  /\ (table_reg (abs (c_slots c)) id = true ->
      abs (upd (c_slots c) id (setf 3 thr)) =
      set_nth (Z.to_nat id) (mkpkg true (p_handler (tnth (abs (c_slots c)) id)) thr) (abs (c_slots c))).
Proof. intros; split; [exact (gen_set_verbosity junk c pkgid id thr)|exact (abs_set_verbosity (c_slots c) id thr)]. Qed.
Print Assumptions C19_gen_set_verbosity.

(* sc_package_unregister (with sc_package_unregister_noabort and sc_query_doabort inside): aborts for an id that is
   not registered; else is_registered := 0, handler := NULL, threshold := SC_LP_DEFAULT, the mutex destroyed,
   sc_num_packages decremented - the slot stays in the table (a HOLE), its indentation is not reset *)
Theorem C19_gen_unregister : forall junk c pkgid id,
  k_unregister junk c pkgid 1 id =
  (if table_reg (abs (c_slots c)) id
   then Some (mkcreg (upd (c_slots c) id unreg_slot) (s32 (c_num c - 1)),
              [(8, 2, 0, id, 0, 0, 0); (6, 1, 0, id, 0, 0, 0); (6, 2, 0, id, 0, 0, 0); (6, 3, 0, id, 0, 0, -1); (8, 5, 0, id, 0, 0, 0)])
   else None)
  /\ (0 <= id < Z.of_nat (length (c_slots c)) ->
      abs (upd (c_slots c) id unreg_slot) = set_nth (Z.to_nat id) (mkpkg false 0 c19_const_lp_default) (abs (c_slots c))).
Proof. intros; split; [exact (gen_unregister junk c pkgid id)|exact (abs_unregister (c_slots c) id)]. Qed.
Print Assumptions C19_gen_unregister.

(* sc_package_register with its three loops, on EVERY table below 2^30 slots and whatever realloc leaves in new
   memory: first slot that is not registered (ids are reused, holes are filled), else growth to 2 n + 1 slots,
   initialised unregistered / NULL / SILENT / indent 0, slot n taken; invalid threshold aborts *)
Theorem C19_gen_register : forall junk c h thr,
  c_alloc c < MAXSLOTS ->
  k_register junk c h thr =
  if valid_thr thr then
    match first_free (abs (c_slots c)) 0 with
    | Some i => Some (mkcreg (upd (c_slots c) (Z.of_nat i) (new_slot h thr)) (s32 (c_num c + 1)), Z.of_nat i)
    | None => Some (mkcreg (c_slots c ++ new_slot h thr junk :: repeat (init_slot junk) (length (c_slots c))) (s32 (c_num c + 1)),
                    Z.of_nat (length (c_slots c)))
    end
  else None.
Proof. exact gen_register. Qed.
Print Assumptions C19_gen_register.

Theorem C19_gen_register_model : forall junk c h thr c' id,
  k_register junk c h thr = Some (c', id) ->
  valid_thr thr = true /\ c_alloc c < MAXSLOTS
  /\ register (abs (c_slots c)) h thr = (Z.to_nat id, abs (c_slots c')) /\ 0 <= id
  /\ c_alloc c' < 2147483648.
Proof. exact k_register_model. Qed.
Print Assumptions C19_gen_register_model.

(* sc_finalize_noabort: sc_package_unregister_noabort is called for exactly the registered slots from the top of the
   TABLE (sc_num_packages_alloc - 1) down to 0, then the table is freed; identifier, trace file, sc_package_id reset *)
Theorem C19_gen_finalize : forall junk c tfile pkgid, c_alloc c < 2147483648 ->
  exists c', k_finalize junk c tfile pkgid =
    Some (c', (-1, 0, -1),
          call_evs (m_reg (c_slots c)) (down (length (c_slots c))) ++ [(8, 2, 0, -1, 0, 0, 0); (7, 1, 0, 0, 0, 0, 0)])
  /\ c_slots c' = [].
Proof. exact gen_finalize. Qed.
Print Assumptions C19_gen_finalize.

(* REFINEMENT: the machine that executes the generated registry functions on the concrete table does, step by step
   and for every history, what the model does on the abstraction; and below 2^30 slots it is defined wherever the
   model is *)
Theorem C19_registry_refines_step : forall junk dbg k o k' evs, kbound k ->
  kstep junk dbg k o = Some (k', evs) ->
  step dbg (k_view k) o = Some (k_view k', evs) /\ kbound k'.
Proof. exact kstep_refines. Qed.
Print Assumptions C19_registry_refines_step.

Theorem C19_registry_complete_step : forall junk dbg k o v' evs, c_alloc (kc k) < MAXSLOTS ->
  step dbg (k_view k) o = Some (v', evs) ->
  exists k', kstep junk dbg k o = Some (k', evs) /\ k_view k' = v'.
Proof. exact kstep_complete. Qed.
Print Assumptions C19_registry_complete_step.

(* ... for every history from the initial state, down to the finite map id -> (handler, threshold) *)
Theorem C19_registry_refines_history : forall junk dbg ops k evs,
  krun junk dbg (k_init dbg) ops = Some (k, evs) ->
  run dbg (init_state dbg) ops = Some (k_view k, evs)
  /\ forall id, lookup (k_view k) id =
       if (0 <=? id) && (id <? c_alloc (kc k)) && z2b (m_reg (c_slots (kc k)) id)
       then Some (m_handler (c_slots (kc k)) id, m_thr (c_slots (kc k)) id) else None.
Proof. exact krun_from_init. Qed.
Print Assumptions C19_registry_refines_history.

(* log indentation: compiled out in the pinned configuration; without SC_ENABLE_PTHREAD one store per call *)
Theorem C19_gen_indent : forall t id count,
  sc_log_indent_push_count = [] /\ sc_log_indent_pop_count = []
  /\ sc_log_indent_push_count_np (m_indent t) id count =
     (if 0 <=? id then [(6, 4, 0, id, 0, 0, s32 (m_indent t id + Z.max 0 count))] else [])
  /\ sc_log_indent_pop_count_np (m_indent t) id count =
     (if 0 <=? id then [(6, 4, 0, id, 0, 0, Z.max 0 (s32 (m_indent t id - Z.max 0 count)))] else []).
Proof. exact gen_indent. Qed.
Print Assumptions C19_gen_indent.

Theorem C19_indent_per_package : forall junk c id count, 0 <= id < c_alloc c ->
  let c1 := k_indent_push junk c id count in
  let c2 := k_indent_pop junk c id count in
  abs (c_slots c1) = abs (c_slots c) /\ abs (c_slots c2) = abs (c_slots c)
  /\ m_indent (c_slots c1) id = s32 (m_indent (c_slots c) id + Z.max 0 count)
  /\ m_indent (c_slots c2) id = Z.max 0 (s32 (m_indent (c_slots c) id - Z.max 0 count))
  /\ (forall j, 0 <= j -> j <> id -> snth (c_slots c1) j = snth (c_slots c) j /\ snth (c_slots c2) j = snth (c_slots c) j)
  /\ 0 <= m_indent (c_slots c2) id.
Proof. exact indent_effect. Qed.
Print Assumptions C19_indent_per_package.

(* the built-in handler: package name printed iff the (effective) package is not -1, identifier printed iff NORMAL
   and identifier >= 0, file:line iff TRACE, indentation of that package - what LogModel.observe shows *)
Theorem C19_gen_log_handler : forall st t x s c q m,
  let p := eff_pkg st x in
  sc_log_handler_decide (is_reg st) (m_indent t) (s_ident st) p c =
  ([], p, b2z (negb (p =? -1)), b2z ((c =? c19_const_lc_normal) && (0 <=? s_ident st)), if p =? -1 then 0 else m_indent t p)
  /\ (let '(_, _, wp, wi, _) := sc_log_handler_decide (is_reg st) (m_indent t) (s_ident st) p c in
      observe st (0, BUILTIN, s, p, c, q, m) = (0, BUILTIN, s, wp, wi, b2z (sc_log_handler_trace_cond q), m)).
Proof. intros; split; [exact (gen_log_handler_decide st t x c)|exact (observe_is_handler_decision st t x s c q m)]. Qed.
Print Assumptions C19_gen_log_handler.

(* ============================================================================================== *)
(* Histories                                                                                       *)
(* ============================================================================================== *)
Theorem C19_unregister_then_default : forall dbg st id st' evs,
  step dbg st (OUnregister id) = Some (st', evs) ->
  (forall c q m, log_st st' id c q m = log_st st' (-1) c q m)
  /\ (forall c q m, logv_st st' id c q m = logv_st st' (-1) c q m)
  /\ eff_pkg st' id = -1 /\ eff_threshold st' id = s_dthr st /\ eff_handler st' id = s_dhandler st
  /\ forall j, j <> id -> eff_pkg st' j = eff_pkg st j /\ eff_threshold st' j = eff_threshold st j /\ eff_handler st' j = eff_handler st j.
Proof. exact unregister_then_default. Qed.
Print Assumptions C19_unregister_then_default.

Theorem C19_reregister_fresh : forall dbg st id st1 e1 h thr st2 e2,
  step dbg st (OUnregister id) = Some (st1, e1) ->
  (forall j, 0 <= j < id -> lookup st j <> None) ->
  step dbg st1 (ORegister h thr) = Some (st2, e2) ->
  e2 = [(5, 0, 0, id, 0, 0, 0)] /\ lookup st2 id = Some (h, thr)
  /\ eff_threshold st2 id = (if thr =? c19_const_lp_default then s_dthr st else thr)
  /\ eff_handler st2 id = (if h =? 0 then s_dhandler st else h)
  /\ forall j, j <> id -> lookup st2 j = lookup st j.
Proof. exact reregister_fresh. Qed.
Print Assumptions C19_reregister_fresh.

Theorem C19_set_defaults_after_registration : forall dbg st stream h thr st' evs,
  step dbg st (OSetDefaults stream h thr) = Some (st', evs) ->
  let dh := if h =? 0 then BUILTIN else h in
  let dt := if thr =? c19_const_lp_default then lp_threshold dbg else thr in
  forall id,
    lookup st' id = lookup st id
    /\ eff_handler st' id = match lookup st id with Some (h0, _) => if h0 =? 0 then dh else h0 | None => dh end
    /\ eff_threshold st' id = match lookup st id with Some (_, t0) => if t0 =? c19_const_lp_default then dt else t0 | None => dt end
    /\ eff_stream st' = (if stream =? 0 then STDOUT else stream).
Proof. exact set_defaults_after_registration. Qed.
Print Assumptions C19_set_defaults_after_registration.

(* ALL sequences of threshold changes of a package, a message after each: message k is judged by threshold k *)
Theorem C19_threshold_sequence : forall dbg id c q m ts st h t0,
  lookup st id = Some (h, t0) -> forallb valid_thr ts = true ->
  exists st' evs,
    run dbg st (flat_map (fun t => [OSetVerbosity id t; OLog id c q m]) ts) = Some (st', evs)
    /\ deliveries evs = flat_map (judged st h id c q m) ts
    /\ same_globals st st' /\ lookup st' id = Some (h, last ts t0).
Proof. exact threshold_sequence. Qed.
Print Assumptions C19_threshold_sequence.

(* --- non-vacuity ------------------------------------------------------------------------------- *)
(* the machine of generated functions runs a history with growth 0 -> 1 -> 3 -> 7 slots, holes, reuse of ids,
   messages in between and a finalize; junk = what realloc leaves in new memory *)
Example C19_ex_registry_history :
  let junk := mkslot 77 78 79 80 81 in
  exists k evs,
    krun junk false (k_init false)
      [OSetDefaults 2 1 3; ORegister 2 0; ORegister 3 1; ORegister 4 2; ORegister 5 3; OUnregister 1; OUnregister 2;
       OLog 3 2 5 7; OLog 1 2 5 8; ORegister 6 4; OSetVerbosity 1 9; OLog 1 2 5 9; ORegister 7 0; OLog 2 2 5 10] = Some (k, evs)
    /\ deliveries evs = [(0, 5, 2, 3, 2, 5, 7); (0, 1, 2, -1, 2, 5, 8); (0, 7, 2, 2, 2, 5, 10)]
    /\ c_alloc (kc k) = 7 /\ c_num (kc k) = 4
    /\ map (fun s => k_reg s) (c_slots (kc k)) = [1; 1; 1; 1; 0; 0; 0].
Proof. cbv zeta. eexists; eexists; split; [vm_compute; reflexivity|]. repeat split; vm_compute; reflexivity. Qed.

Example C19_ex_registry_finalize :
  exists k evs,
    krun slot0 false (k_init false) [ORegister 2 0; ORegister 3 1; ORegister 4 2; OUnregister 1; OFinalize; OLog 0 2 5 1; ORegister 0 0] = Some (k, evs)
    /\ c_alloc (kc k) = 1 /\ deliveries evs = [(0, 99, 1, -1, 2, 5, 1)].
Proof. eexists; eexists; split; [vm_compute; reflexivity|]. split; vm_compute; reflexivity. Qed.

(* OBSERVATION (configurations with SC_ENABLE_DEBUG and without SC_ENABLE_PTHREAD only): the assertion
   `package < sc_num_packages` of sc_log_indent_push_count uses the COUNT of packages as a bound on ids; with a hole
   below a live package it fails for a registered package *)
Example C19_ex_indent_assert_hole :
  exists k evs,
    krun slot0 true (k_init true) [ORegister 0 0; ORegister 0 0; OUnregister 0] = Some (k, evs)
    /\ table_reg (abs (c_slots (kc k))) 1 = true
    /\ aborts (sc_log_indent_push_count_npdbg (m_indent (c_slots (kc k))) (c_num (kc k)) (c_alloc (kc k)) 1 1) = true.
Proof. eexists; eexists; split; [vm_compute; reflexivity|]. split; vm_compute; reflexivity. Qed.

Example C19_ex_threshold_sequence :
  exists st evs st' evs',
    run false (init_state false) [OSetDefaults 2 1 4; ORegister 3 0] = Some (st, evs)
    /\ lookup st 0 = Some (3, 0)
    /\ run false st (flat_map (fun t => [OSetVerbosity 0 t; OLog 0 2 5 7]) [6; 5; -1; 9; 0]) = Some (st', evs')
    /\ deliveries evs' = [(0, 3, 2, 0, 2, 5, 7); (0, 3, 2, 0, 2, 5, 7); (0, 3, 2, 0, 2, 5, 7)].
Proof. eexists; eexists; eexists; eexists. split; [vm_compute; reflexivity|]. repeat split; vm_compute; reflexivity. Qed.

(* ===== monotonicity of the filter in the priority (C19/LogLaws.v) ================================================= *)
(* what reaches the log stream / the trace stream at priority q1 reaches it at every valid priority q2 >= q1 *)
Theorem C19_law_deliverable_monotone : forall st package c q1 q2,
  deliverable st package c q1 -> priority_valid q2 -> q1 <= q2 -> deliverable st package c q2.
Proof. exact deliverable_mono. Qed.
Print Assumptions C19_law_deliverable_monotone.

Theorem C19_law_traceable_monotone : forall st c q1 q2,
  traceable st c q1 -> priority_valid q2 -> q1 <= q2 -> traceable st c q2.
Proof. exact traceable_mono. Qed.
Print Assumptions C19_law_traceable_monotone.

Theorem C19_law_log_part_monotone : forall st package c q1 q2,
  passes st c q1 && (eff_threshold st package <=? q1) = true -> priority_valid q2 -> q1 <= q2 ->
  passes st c q2 && (eff_threshold st package <=? q2) = true.
Proof. exact log_part_mono. Qed.
Print Assumptions C19_law_log_part_monotone.

Theorem C19_law_log_delivery_monotone : forall st package c q1 q2 m2,
  priority_valid q2 -> q1 <= q2 -> deliverable st package c q1 ->
  In (log_delivery st package c q2 m2) (deliveries (log_st st package c q2 m2)).
Proof. exact log_delivery_mono. Qed.
Print Assumptions C19_law_log_delivery_monotone.
