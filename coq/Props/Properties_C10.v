(* C10 - allocation accounting is exact; every library object returns its memory.
   Statements about the executable model coq/C10/AllocModel.v of the allocation layer and the package table of
   /repo/src/sc.c in the pinned configuration (libsc's own padding allocator, alignment 8, counters on):
   sc_malloc / sc_calloc / sc_realloc / sc_strdup / sc_free, sc_malloc_aligned / sc_realloc_aligned / sc_free_aligned with
   the two bookkeeping words kept IN the modelled memory, sc_memory_status, sc_memory_check_noerr, sc_package_register /
   unregister / is_registered, sc_package_rc_count_add, sc_finalize_noabort.
   `junk` is the content of memory fresh from malloc: every statement holds for every junk.
   `legal` is the documented precondition of every call, decided on the state (package -1 or registered; a block is freed or
   reallocated with the package it was obtained for; no use after free; caller writes stay inside the requested size;
   malloc returns an address that is not the address of a live block; unregister only of a balanced package - the call
   aborts otherwise).  This file contains only statements, `exact` proofs and Print Assumptions. *)
From Coq Require Import ZArith List Bool.
From ScV Require Import C10.AllocBase C10.AllocModel C10.AllocArith C10.AllocInv C10.AllocSteps C10.AllocPkg C10.AllocTop C10.AllocLaws.
From ScV Require Import Base.CInt Gen.AllocC10 C10.AllocGen.
Import ListNotations.
Local Open Scope Z_scope.

(* ===== the ledger ================================================================================================== *)
(* for EVERY legal history of malloc / calloc / realloc (incl. realloc (NULL, n) and realloc (p, 0)) / strdup / free /
   register / unregister / finalize / reference-counter moves, and for the default package -1 and every package
   registered at the end: sc_memory_status = number of blocks obtained for that package and not yet released *)
Theorem C10_status : forall junk ops p, legal junk ops = true -> pkg_ok (run junk ops) p = true ->
  status (run junk ops) p = nlive (run junk ops) p.
Proof. exact status_exact. Qed.
Print Assumptions C10_status.

(* ... and so after every call of the history (every prefix), which is what the check observes *)
Theorem C10_status_after_every_call : forall junk ops1 ops2 p, legal junk (ops1 ++ ops2) = true ->
  pkg_ok (run junk ops1) p = true -> status (run junk ops1) p = nlive (run junk ops1) p.
Proof. exact status_exact_always. Qed.
Print Assumptions C10_status_after_every_call.

(* consequently: once everything obtained for p has been released the counter of p is where it started *)
Theorem C10_balanced_when_returned : forall junk ops p, legal junk ops = true -> pkg_ok (run junk ops) p = true ->
  live_blocks (run junk ops) p = [] -> status (run junk ops) p = 0.
Proof. exact balanced_when_returned. Qed.
Print Assumptions C10_balanced_when_returned.

(* the invariant behind it (HeapInv: words intact, raw addresses distinct, every live block belongs to -1, to a registered
   package or to a package that is gone; CntInv: status = live blocks) holds initially and after every legal call *)
Theorem C10_invariant_step : forall junk st o, Inv st -> legal_step st o = true -> Inv (step junk st o).
Proof. exact step_Inv. Qed.
Print Assumptions C10_invariant_step.

Theorem C10_invariant_init : Inv init.
Proof. exact Inv_init. Qed.
Print Assumptions C10_invariant_init.

(* ===== blocks: aligned, usable for their full size, bookkeeping intact ============================================ *)
(* pointer arithmetic of sc_malloc_aligned, for every address malloc may return, every size, every alignment > 0 *)
Theorem C10_aligned : forall al raw, 0 < al -> aligned_ptr al raw mod al = 0.
Proof. exact aligned_ptr_mod. Qed.
Print Assumptions C10_aligned.

(* the two words [ptr - 16, ptr) and the user area [ptr, ptr + size) lie inside the raw block [raw, raw + 16 + size + al),
   with at least one byte to spare behind the user area *)
Theorem C10_layout : forall al raw size, 0 < al -> 0 <= size ->
  let p := aligned_ptr al raw in
  raw <= p - EXTRA /\ p - EXTRA < raw + al /\ p + size < raw + alloc_size al size.
Proof. exact aligned_layout. Qed.
Print Assumptions C10_layout.

Theorem C10_aligned_least : forall al raw q, 0 < al -> raw + EXTRA <= q -> q mod al = 0 -> aligned_ptr al raw <= q.
Proof. exact aligned_least. Qed.
Print Assumptions C10_aligned_least.

(* in every legal history, for every live block: the word at ptr[-1] is the raw pointer, the word at ptr[-2] the size
   (read back from the modelled memory), the raw block has 16 + size + 8 bytes, the user area has `size` bytes *)
Theorem C10_blocks_wf : forall junk ops h b, legal junk ops = true -> hget (run junk ops) h = Some b ->
  word_m1 b = b_raw b /\ word_m2 b = b_size b /\ len (b_mem b) = alloc_size ALIGN (b_size b) /\ 0 <= b_size b /\
  len (b_user b) = b_size b.
Proof. exact blocks_wf. Qed.
Print Assumptions C10_blocks_wf.

(* sc_free_aligned / sc_realloc_aligned always find the raw block through the stored word *)
Theorem C10_never_bad : forall junk ops, legal junk ops = true -> s_bad (run junk ops) = false.
Proof. exact never_bad. Qed.
Print Assumptions C10_never_bad.

(* a caller's write inside [0, size) is read back and changes nothing else of the user area (nor the two words: C10_blocks_wf) *)
Theorem C10_write_read : forall b off d, blk_wf b -> 0 <= off -> off + len d <= b_size b ->
  let b' := with_mem b (upd (b_mem b) (b_uoff b + off) d) in
  sub (b_user b') off (len d) = d /\
  (forall q m, 0 <= q -> 0 <= m -> q + m <= off -> sub (b_user b') q m = sub (b_user b) q m) /\
  (forall q m, off + len d <= q -> 0 <= m -> q + m <= b_size b -> sub (b_user b') q m = sub (b_user b) q m).
Proof. exact (write_read junk0). Qed.
Print Assumptions C10_write_read.

(* sc_calloc: aligned, of the requested size, all zero - whatever malloc left in the block *)
Theorem C10_calloc_zero : forall junk st p nm sz raw, HeapInv st -> pkg_ok st p = true -> raw_fresh st raw (nm * sz) = true ->
  let '(st1, h, out) := sc_calloc junk st p nm sz raw in
  exists b, hget st1 h = Some b /\ b_pkg b = p /\ b_size b = nm * sz /\ b_user b = repeat 0 (Z.to_nat (nm * sz)) /\
            b_ptr b mod ALIGN = 0.
Proof. exact calloc_zero. Qed.
Print Assumptions C10_calloc_zero.

(* sc_realloc (ptr <> NULL, n > 0): the old block is gone, the new one is aligned, has n bytes and starts with the
   first min (old size, n) bytes of the old one *)
Theorem C10_realloc_keeps : forall junk st p h b n raw, HeapInv st -> hget st h = Some b -> pkg_ok st p = true -> raw_fresh st raw n = true ->
  let '(st1, h1, ptr) := realloc_aligned junk st p h ALIGN n raw in
  exists nb, hget st1 h1 = Some nb /\ hget st1 h = None /\ b_size nb = n /\ ptr = b_ptr nb /\ ptr mod ALIGN = 0 /\
             let m := Z.min (b_size b) n in sub (b_user nb) 0 m = sub (b_user b) 0 m.
Proof. exact realloc_keeps. Qed.
Print Assumptions C10_realloc_keeps.

(* ===== memory check and finalize ===================================================================================== *)
(* sc_memory_check_noerr (p) = 0 iff p is -1 or registered, its status is 0 and no reference is active *)
Theorem C10_check_zero_iff : forall st p, -1 <= p ->
  (check_noerr st p = 0 <-> pkg_ok st p = true /\ status st p = 0 /\ (if p =? -1 then s_drc st else p_rc (pget st p)) = 0).
Proof. exact check_zero_iff. Qed.
Print Assumptions C10_check_zero_iff.

(* sc_finalize_noabort = 0 iff every registered package and the default package pass the memory check ... *)
Theorem C10_finalize_zero_iff : forall st, Inv st ->
  (snd (finalize st) = 0 <-> (forall i, is_reg st i = true -> check_noerr st i = 0) /\ check_noerr st (-1) = 0).
Proof. exact finalize_zero_iff. Qed.
Print Assumptions C10_finalize_zero_iff.

(* ... which for every legal history means: no block of a live package is left and no reference counter is active *)
Theorem C10_finalize_zero_ledger : forall junk ops, legal junk ops = true ->
  (snd (finalize (run junk ops)) = 0 <->
   (forall p, pkg_ok (run junk ops) p = true ->
      nlive (run junk ops) p = 0 /\ (if p =? -1 then s_drc (run junk ops) else p_rc (pget (run junk ops) p)) = 0)).
Proof. exact finalize_zero_ledger. Qed.
Print Assumptions C10_finalize_zero_ledger.

(* ===== package ids ======================================================================================================= *)
(* sc_package_register returns an id that is not the id of a live package (so live ids are pairwise distinct), namely the
   lowest unused one; every other id keeps its state; the new package starts balanced; the table grows 0,1,3,7,15,.. *)
Theorem C10_register_fresh : forall st name, let '(st', id) := register st name in
  0 <= id /\ is_reg st id = false /\ is_reg st' id = true /\ (forall j, 0 <= j < id -> is_reg st j = true) /\
  (forall q, q <> id -> is_reg st' q = is_reg st q) /\ status st' id = 0 /\
  (id < nalloc st \/ (id = nalloc st /\ nalloc st' = 2 * nalloc st + 1)).
Proof. exact register_fresh. Qed.
Print Assumptions C10_register_fresh.

(* an unregistered id is free again: nobody else is affected and the next registration returns an id not above it *)
Theorem C10_unregister_then_register : forall st id name, is_reg st id = true ->
  let st1 := fst (unregister_noabort st id) in
  is_reg st1 id = false /\ (forall q, q <> id -> is_reg st1 q = is_reg st q) /\ snd (register st1 name) <= id.
Proof. exact unregister_then_register. Qed.
Print Assumptions C10_unregister_then_register.

(* ===== the hypotheses are satisfiable ======================================================================================= *)
Example C10_legal_example :
  legal junk0 [ORegister 7; OMalloc 0 10 4099; OWrite 1 0 [1;2;3]; ORealloc 0 1 0 5000; OMalloc (-1) 0 8197; ORealloc (-1) 2 33 12290;
               OCalloc 0 3 4 20001; OStrdup (-1) (Some [65;66]) 30005; ORc 0 1; OCheck 0; OFree 0 4; ORc 0 (-1); OUnregister 0;
               ORegister 9; OFree (-1) 3; OFree (-1) 5; OFinalize] = true.
Proof. vm_compute. reflexivity. Qed.

(* ===== tie T1: the model computes what the definitions GENERATED from /repo/src/sc.c compute ============================== *)
(* Gen/AllocC10.v is regenerated from the working tree on every run (tools/c2g/groups_C10.py); an edit of the arithmetic in
   sc.c changes a generated definition and the statements below stop checking. *)

(* the generated body of sc_malloc_aligned, for every alignment > 0, size >= 0 and raw address (block below 2^62): malloc is
   asked for the model's alloc_size, the model's aligned_ptr is returned, the raw pointer is stored in the word at
   ptr - 8 and the size in the word at ptr - 16 *)
Theorem C10_gen_malloc_aligned : forall al size raw, 0 < al -> 0 <= size -> 0 <= raw -> raw + alloc_size al size < MAXA ->
  sc_malloc_aligned_arith al size raw =
  (alloc_size al size, aligned_ptr al raw - 8, raw, aligned_ptr al raw - 16, size, aligned_ptr al raw).
Proof. exact gen_malloc_aligned. Qed.
Print Assumptions C10_gen_malloc_aligned.

(* the model's sc_malloc_aligned written with the generated function: block size, pointer, both word stores *)
Theorem C10_gen_malloc_aligned_model : forall junk st tag al size raw, 0 < al -> 0 <= size -> 0 <= raw -> raw + alloc_size al size < MAXA ->
  malloc_aligned junk st tag al size raw =
  let '(asz, a1, v1, a2, v2, p) := sc_malloc_aligned_arith al size raw in
  let h := length (s_heap st) in
  (set_heap st (s_heap st ++ [Some (mkblk tag raw size
      (upd (upd (mkjunk_from junk h 0 (Z.to_nat asz)) (a1 - raw) (le64_enc v1)) (a2 - raw) (le64_enc v2)))]), h, p).
Proof. exact gen_malloc_aligned_model. Qed.
Print Assumptions C10_gen_malloc_aligned_model.

(* C10_aligned / C10_layout / C10_aligned_least stated of the GENERATED definition *)
Theorem C10_gen_malloc_aligned_props : forall al size raw, 0 < al -> 0 <= size -> 0 <= raw -> raw + alloc_size al size < MAXA ->
  let '(asz, a1, v1, a2, v2, p) := sc_malloc_aligned_arith al size raw in
  p mod al = 0 /\ raw <= a2 /\ a2 + 8 = a1 /\ a1 + 8 = p /\ p + size < raw + asz /\ v1 = raw /\ v2 = size /\
  (forall q, raw + 16 <= q -> q mod al = 0 -> p <= q).
Proof. exact gen_malloc_aligned_props. Qed.
Print Assumptions C10_gen_malloc_aligned_props.

(* sc_free_aligned: the pointer the model hands to free () is the word the generated code reads (at ptr - 8) and hands to free () *)
Theorem C10_gen_free_aligned : forall b al, word_m1 b = sc_free_aligned_arith (blk_word b) (b_ptr b) al.
Proof. exact gen_free_aligned_model. Qed.
Print Assumptions C10_gen_free_aligned.

(* sc_realloc_aligned: old size read at ptr - 16, new block of (alignment, size), memcpy (new, old, min (old size, size)),
   the old pointer released, the new one returned - as in the model's realloc_aligned *)
Theorem C10_gen_realloc_aligned : forall b al size np,
  sc_realloc_aligned_arith (blk_word b) (b_ptr b) al size np =
  (al, size, np, b_ptr b, Z.min (word_m2 b) size, b_ptr b, al, np).
Proof. exact gen_realloc_aligned_model. Qed.
Print Assumptions C10_gen_realloc_aligned.

(* the alignment sc_malloc / sc_calloc / sc_realloc / sc_free pass on (SC_MEMALIGN_BYTES) is the model's ALIGN; sc_calloc's size *)
Theorem C10_gen_align : ALIGN = alloc_align_malloc /\ ALIGN = alloc_align_calloc /\ ALIGN = alloc_align_realloc /\ ALIGN = alloc_align_free.
Proof. exact gen_align. Qed.
Print Assumptions C10_gen_align.

Theorem C10_gen_calloc_size : forall nm sz, 0 <= nm * sz < MAXA -> alloc_calloc_size nm sz = nm * sz.
Proof. exact gen_calloc_size. Qed.
Print Assumptions C10_gen_calloc_size.

(* sc_package_register from the search for an unused slot to the growth of the table, for every table below 2^30 slots at
   every (element) address B: the generated loop finds the id the model's `register` returns, the table has the model's size
   afterwards, and it is reallocated exactly when the model grows it, to (2 n + 1) * sizeof (sc_package_t) bytes *)
Theorem C10_gen_register : forall st name B sz rr, nalloc st < 2 ^ 30 -> 0 <= sz < 2 ^ 31 ->
  let id := snd (register st name) in
  let st' := fst (register st name) in
  exists i np base rsz,
    register_slot (S (length (s_pkgs st))) (reg_at (s_pkgs st) B) (nalloc st) B sz rr = Some (i, np, id, nalloc st', base, rsz) /\
    np = base + id /\
    (id < nalloc st -> base = B /\ rsz = 0 /\ nalloc st' = nalloc st) /\
    (nalloc st <= id -> id = nalloc st /\ base = rr /\ rsz = (2 * nalloc st + 1) * sz /\ nalloc st' = 2 * nalloc st + 1).
Proof. exact gen_register_model. Qed.
Print Assumptions C10_gen_register.

(* ===== T1: ownership ledgers (binary notify recursion; rehash and create / destroy pairs of the containers) ========= *)
(* Gen/LedgerC10.v is regenerated on every run from sc_notify_recursive (src/sc_notify.c, compiled with SC_ENABLE_MPI): the
   list of ownership events (sc_array_new / init / reset / destroy / resize / push / sc_notify_merge / struct assignment) on
   the arrays `array` (the caller's), `sendbuf`, `recvbuf`, `morebuf` of one level of the recursion, as a function of the
   values c 0, c 1, .. of its branch conditions.  C10/LedgerModel.v executes such a list on an abstract state (which
   variable refers to which structure, which block a structure holds, live blocks, live heap objects): a use before
   initialisation or after free and a double free stop the run, a block or heap object that nobody frees is still live
   at the end.

   For EVERY valuation of the branch conditions (every communicator size, rank and level, with or without the second
   message of a rank whose upper neighbour has no partner), entered with the caller's array holding a block or empty:
   the run goes through, sendbuf / recvbuf and their structs are returned, and the only live block left is the one the
   caller's array holds - "the counters are where they started plus what the caller still holds". *)
From Coq Require Import String.
From ScV Require Import C10.LedgerModel Gen.LedgerC10 C10.LedgerProofs.

Theorem C10_gen_notify_recursive_ledger : forall c : nat -> bool,
  balanced_run "array" (notify_recursive_ledger_b c) (entry_own "array") = true /\
  balanced_run "array" (notify_recursive_ledger_b c) (entry_empty "array") = true.
Proof. exact notify_recursive_ledger_balanced. Qed.
Print Assumptions C10_gen_notify_recursive_ledger.

(* the statements of the level in front of that slice do nothing to any array but hand the caller's array to the
   recursive call (which, by the theorem above and induction on the level, returns it the same way) *)
Theorem C10_gen_notify_recursive_prefix : forall c : nat -> bool,
  only_uses "array" (notify_recursive_prefix_b c) = true.
Proof. exact notify_recursive_prefix_only_uses. Qed.
Print Assumptions C10_gen_notify_recursive_prefix.

(* ----- the rehash of a hash table: sc_hash_maybe_resize (src/sc_containers.c), behind sc_hash_insert_unique / sc_hash_remove and
   so behind sc_hash_array, sc_keyvalue and sc_statistics.  Entered with hash->slots pointing to a heap array (sc_array_new)
   that holds the slot block; c1 = the conditions of the decision whether to resize, c2 = those of the rest.  On every path:
   no use after free, no double free, and at the end exactly ONE heap array structure is live - the one hash->slots points
   to - and exactly its block: the old structure and the old block are gone, the new ones are not lost.  (The paths that
   return without resizing are the first statement.) *)
Theorem C10_gen_hash_resize_ledger : forall c1 c2 : nat -> bool,
  balanced_heap_run "hash->slots" (hash_resize_prefix_b c1) (entry_heap "hash->slots") = true /\
  balanced_heap_run "hash->slots" (hash_resize_prefix_b c1 ++ hash_resize_ledger_b c2) (entry_heap "hash->slots") = true.
Proof. intros c1 c2; split; [exact (hash_resize_prefix_balanced c1)|exact (hash_resize_ledger_balanced c1 c2)]. Qed.
Print Assumptions C10_gen_hash_resize_ledger.

(* ----- create / destroy pairs: the event list of the constructor followed by that of the destructor leaves the live heap
   objects and blocks as they were.  sc_hash: cn 0 = "the caller handed in an allocator", cd 0 = hash->allocator_owned, which
   sc_hash_new sets to the negation (hypothesis: the flag is data).  The caller's allocator survives, the own one is freed;
   also with sc_hash_unlink_destroy, and with a rehash in between. *)
Theorem C10_gen_hash_new_destroy : forall cn c1 c2 cd : nat -> bool, cd 0%nat = negb (cn 0%nat) ->
  restored_run (hash_new_ledger_b cn ++ hash_destroy_ledger_b cd) (entry_ext "allocator") = true /\
  restored_run (hash_new_ledger_b cn ++ hash_unlink_destroy_ledger_b cd) (entry_ext "allocator") = true /\
  restored_run (hash_new_ledger_b cn ++ hash_resize_prefix_b c1 ++ hash_resize_ledger_b c2 ++ hash_destroy_ledger_b cd) (entry_ext "allocator") = true.
Proof.
  intros cn c1 c2 cd H; split; [exact (hash_new_destroy_restored cn cd H)|split;
    [exact (hash_new_unlink_destroy_restored cn cd H)|exact (hash_new_resize_destroy_restored cn c1 c2 cd H)]].
Qed.
Print Assumptions C10_gen_hash_new_destroy.

(* sc_hash_array_new then sc_hash_array_destroy: nothing is left; then sc_hash_array_rip: nothing but the element block,
   held by the caller's structure `rip` *)
Theorem C10_gen_hash_array_new_destroy : forall cn cd : nat -> bool,
  restored_run (hash_array_new_ledger_b cn ++ hash_array_destroy_ledger_b cd) entry_none = true /\
  balanced_run "rip" (hash_array_new_ledger_b cn ++ hash_array_rip_ledger_b cd) entry_none = true.
Proof. intros cn cd; split; [exact (hash_array_new_destroy_restored cn cd)|exact (hash_array_new_rip_balanced cn cd)]. Qed.
Print Assumptions C10_gen_hash_array_new_destroy.

Theorem C10_gen_keyvalue_new_destroy : forall cn cd : nat -> bool,
  restored_run (keyvalue_new_ledger_b cn ++ keyvalue_destroy_ledger_b cd) entry_none = true.
Proof. exact keyvalue_new_destroy_restored. Qed.
Print Assumptions C10_gen_keyvalue_new_destroy.

(* what the three predicates say in terms of the counters (live heap objects + live blocks = what sc_memory_status counts) *)
Theorem C10_ledger_balanced_meaning : forall a l st, balanced_run a l st = true ->
  exists st', l_run l st = Some st' /\ l_heap st' = [] /\
    (l_live st' = [] /\ (exists o, l_deref a st' = Some (o, Empty)) \/ exists o b, l_live st' = [b] /\ l_deref a st' = Some (o, Own b)).
Proof. exact balanced_run_meaning. Qed.
Print Assumptions C10_ledger_balanced_meaning.

Theorem C10_ledger_balanced_heap_meaning : forall a l st, balanced_heap_run a l st = true ->
  exists st' o, l_run l st = Some st' /\ l_var a (l_vars st') = Some o /\ l_heap st' = [o] /\
    (l_live st' = [] /\ l_deref a st' = Some (o, Empty) \/ exists b, l_live st' = [b] /\ l_deref a st' = Some (o, Own b)).
Proof. exact balanced_heap_run_meaning. Qed.
Print Assumptions C10_ledger_balanced_heap_meaning.

Theorem C10_ledger_restored_meaning : forall l st, restored_run l st = true ->
  exists st', l_run l st = Some st' /\ l_heap st' = l_heap st /\ l_live st' = l_live st.
Proof. exact restored_run_meaning. Qed.
Print Assumptions C10_ledger_restored_meaning.

(* the model is not vacuous: overwriting an array that holds a block (struct assignment or a second init) without a reset
   in between is seen as a block that stays live, a reset of the stale copy as a double free; swapping the CONTENTS of two
   heap arrays and resetting the temporary one (seeded change C10f) leaves its structure live *)
Example C10_ledger_sees_overwrite :
  balanced_run "array" [LInit "m"; LGrow "m"; LCopy "array" "m"] (entry_own "array") = false /\
  balanced_run "array" [LInit "m"; LReset "array"; LCopy "array" "m"] (entry_own "array") = true /\
  balanced_run "array" [LInit "m"; LReset "array"; LCopy "array" "m"; LReset "m"; LReset "array"] (entry_own "array") = false /\
  balanced_run "array" [LNew "s"; LUse "s"] (entry_own "array") = false /\
  balanced_run "array" [LNew "s"; LDestroy "s"; LUse "s"] (entry_own "array") = false /\
  balanced_heap_run "h" [LAlias "old" "h"; LNew "new"; LDestroy "old"; LAlias "h" "new"] (entry_heap "h") = true /\
  balanced_heap_run "h" [LAlias "old" "h"; LNew "new"; LCopy "tmp" "old"; LCopy "old" "new"; LCopy "new" "tmp"; LReset "new"] (entry_heap "h") = false /\
  balanced_heap_run "h" [LAlias "old" "h"; LNew "new"; LCopy "tmp" "old"; LCopy "old" "new"; LCopy "new" "tmp"; LDestroy "new"] (entry_heap "h") = true /\
  restored_run [LAlloc "p"; LAlloc "q"; LFree "p"] entry_none = false /\
  restored_run [LAlloc "p"; LFree "p"; LFree "p"] entry_none = false.
Proof. vm_compute. repeat split. Qed.

(* ===== corollaries over every legal history (C10/AllocLaws.v) =================================================== *)
(* the counter of a package is never negative, after the history and after every prefix of it *)
Theorem C10_status_nonneg : forall junk ops p, legal junk ops = true -> pkg_ok (run junk ops) p = true ->
  0 <= status (run junk ops) p.
Proof. exact status_nonneg. Qed.
Print Assumptions C10_status_nonneg.

Theorem C10_status_nonneg_after_every_call : forall junk ops1 ops2 p, legal junk (ops1 ++ ops2) = true ->
  pkg_ok (run junk ops1) p = true -> 0 <= status (run junk ops1) p.
Proof. exact status_nonneg_always. Qed.
Print Assumptions C10_status_nonneg_after_every_call.

(* ... and it is zero EXACTLY when no block of the package is live: a non-zero sc_memory_status always names a leak *)
Theorem C10_status_zero_iff_nothing_live : forall junk ops p, legal junk ops = true -> pkg_ok (run junk ops) p = true ->
  (status (run junk ops) p = 0 <-> live_blocks (run junk ops) p = []).
Proof. exact status_zero_iff. Qed.
Print Assumptions C10_status_zero_iff_nothing_live.
