(* C08 - sc_array behaves as a sequence of fixed-size elements under any history.
   Statements about the executable model coq/C08/ArrayModel.v of /repo/src/sc_containers.c (the sc_array functions) and the
   inline functions of sc_containers.h.  The concrete machine (`run`) works on a heap of blocks with the four C
   fields of every array; each integer decision (owner/view test, power-of-two round-up, grow/shrink test, fast
   path of push, byte_alloc encoding of views, returned pointers) is taken from functions GENERATED from the C
   source on every run (Gen/Array.v).  The reference machine (`run_spec`) knows only byte sequences and windows.
   `junk` is the content of never-written memory (fresh blocks, tails after a reallocation): every statement
   holds for every junk.  `sort`, `find`, `adler_*` stand for libc qsort / bsearch and zlib adler32.
   This file contains only statements, `exact` proofs and Print Assumptions. *)
From Coq Require Import ZArith List Bool Permutation.
From ScV Require Import Base.CInt Gen.Array C18.MacroProofs C08.ArrayModel C08.ArrayLists C08.ArrayGen C08.ArrayRefine C08.ArrayStep C08.ArrayTop C08.ArrayAlgo C08.ArrayFull Gen.ArrayPermC08 C08.ArrayPermGen Gen.ArrayDebugC08 C08.ArrayDebugGen C08.ArrayPolicy.
Import ListNotations.
Local Open Scope Z_scope.

(* ===== refinement: every legal history ======================================================================= *)

(* For EVERY finite operation list that satisfies the documented preconditions (`legal`, a boolean decided on the
   reference state), every junk, every comparison callback, every qsort that returns a permutation, every bsearch,
   every type callback: each live array shows the element size, the count and the bytes of all elements of the
   reference sequence (`cobs = sobs` for every handle), every value returned by a call (pop / index pointers' bytes,
   is_sorted, is_equal, bsearch, checksum, is_permutation) equals the reference value, and the concrete state
   satisfies the invariant `Inv`: count * size <= allocation (owner) | <= view length (view), the addressed bytes lie
   inside the block, no block has two owners, mallocs - frees = number of live structs and blocks, and no access
   ever left an allocation or a view (c_bad = false).  The only hypothesis is the contract of qsort. *)
Theorem C08_refines : forall junk cmp sort find adler_init adler_upd tyf,
  (forall l, Permutation (sort l) l) ->
  forall ops, legal cmp sort find adler_init adler_upd tyf ops = true ->
  (forall h, cobs (run junk cmp sort find adler_init adler_upd tyf ops) h
             = sobs (run_spec cmp sort find adler_init adler_upd tyf ops) h) /\
  c_outs (run junk cmp sort find adler_init adler_upd tyf ops) = s_outs (run_spec cmp sort find adler_init adler_upd tyf ops) /\
  Inv (run junk cmp sort find adler_init adler_upd tyf ops).
Proof. exact refines_full. Qed.
Print Assumptions C08_refines.

(* create ... reset/destroy: when the history has destroyed (or reset and abandoned) every array it created,
   every sc_malloc has met its sc_free - the contribution of sc_array to the ledger of C10 is zero *)
Theorem C08_ledger_balanced : forall junk cmp sort find adler_init adler_upd tyf,
  (forall l, Permutation (sort l) l) ->
  forall ops, legal cmp sort find adler_init adler_upd tyf ops = true ->
  none_live (run_spec cmp sort find adler_init adler_upd tyf ops) = true ->
  c_mallocs (run junk cmp sort find adler_init adler_upd tyf ops) - c_frees (run junk cmp sort find adler_init adler_upd tyf ops) = 0.
Proof. exact ledger_balanced_full. Qed.
Print Assumptions C08_ledger_balanced.

(* the three hand-modelled loops compute their definitions, for every comparison function and every input:
   sc_array_uniq (read/write counters) = uniq_spec; sc_array_split (binary search with offsets fill and step advance) =
   split_spec on type-sorted input with types in [0, T); sc_array_permute (pivot / cycle loop) = permute_spec with
   newindices ending as the identity, for every permutation.  (The fuel of the split loop in the model is 2n + T + 1
   passes; the C loop has no bound.  2n passes are proved sufficient.) *)
Theorem C08_loops_ok : forall cmp, loops_ok cmp.
Proof. exact loops_ok_all. Qed.
Print Assumptions C08_loops_ok.

(* one step: the simulation relation R (ArrayRefine.v) is preserved by every legal call and the call returns the
   reference result; R holds initially.  (This is the induction step of C08_refines; its hypotheses on the loop
   models are the three conjuncts of loops_ok.) *)
Theorem C08_initial : R c_init s_init.
Proof. exact R_init. Qed.
Print Assumptions C08_initial.

(* ===== content survives reallocation, for arbitrary junk ==================================================== *)

(* sc_array_resize of an owner without views: the new state is related to the reference state whose bytes X agree
   with the old bytes on the first min (old, new) * elem_size positions - whether the block was kept, grown or
   shrunk into a fresh block with junk tail *)
Theorem C08_resize_keeps_content : forall junk c s h a dy e n b n',
  R c s -> lget (c_arrs c) h = Some a -> sget s h = Some (SOwn dy e n b) -> rooted s h = false ->
  0 <= n' -> n' * e <= MAXB ->
  exists X, R (c_resize junk c h a n') (s_set s h (Some (SOwn dy e n' X))) /\
            (forall p, 0 <= p <= Z.min n n' * e -> firstn (Z.to_nat p) X = firstn (Z.to_nat p) b).
Proof. exact resize_own_R. Qed.
Print Assumptions C08_resize_keeps_content.

(* the reference machine itself: after any size change to n' the first min (n, n') elements are the old ones *)
Theorem C08_spec_resize_keeps : forall e n b n' p d, 0 < e -> 0 <= n -> 0 <= n' -> len b = n * e -> p = Z.min n n' * e ->
  firstn (Z.to_nat (Z.min n n')) (elems e n' (firstn (Z.to_nat p) b ++ d)) = firstn (Z.to_nat (Z.min n n')) (elems e n b).
Proof. exact spec_resize_keeps. Qed.
Print Assumptions C08_spec_resize_keeps.

(* ===== views alias exactly their section ======================================================================= *)

(* a write of d at byte p through a view (window starting at byte boff of root r) leaves the root's length alone,
   puts d at [boff + p, boff + p + |d|) and changes no byte before or after it *)
Theorem C08_view_write_exact : forall s h dy r boff e n cap rdy re rn b p d,
  sget s r = Some (SOwn rdy re rn b) -> 0 <= boff -> 0 <= p -> boff + p + len d <= len b ->
  let b' := s_rbytes (s_wr s h (SView dy r boff e n cap) p d) r in
  len b' = len b /\
  sub b' (boff + p) (len d) = d /\
  (forall q m, 0 <= q -> 0 <= m -> q + m <= boff + p -> sub b' q m = sub b q m) /\
  (forall q m, boff + p + len d <= q -> sub b' q m = sub b q m).
Proof. exact view_write_exact. Qed.
Print Assumptions C08_view_write_exact.

(* concrete side: reading n bytes at p through any array (owner or view) is inside the capacity and inside the
   block, and returns the reference bytes *)
Theorem C08_read_in_bounds : forall c s h a sa p n, R c s -> lget (c_arrs c) h = Some a -> sget s h = Some sa ->
  0 <= p -> 0 <= n -> p + n <= s_cnt sa * s_esz sa ->
  acc_ok c a p n = true /\ c_rd c a p n = s_rd s h sa p n.
Proof. exact acc_rd. Qed.
Print Assumptions C08_read_in_bounds.

(* ===== the generated decisions (re-checked against the current source on every run) ========================== *)

(* SC_ROUNDUP2_64 as used by sc_array_resize: least power of two >= x *)
Theorem C08_gen_roundup : forall x, 0 < x <= MAXB -> is_roundup2 x (roundup_u64 x) /\ roundup_u64 x <= MAXB.
Proof. exact roundup_u64_correct. Qed.
Print Assumptions C08_gen_roundup.

(* sc_array_resize on an owner: reset at count 0; keep the allocation iff newoffs <= byte_alloc <= roundup (newoffs);
   otherwise realloc to exactly roundup (newoffs) *)
Theorem C08_gen_resize_owner : forall e c b n, 0 < e -> 0 <= n -> n * e <= MAXB -> 0 <= b <= MAXB ->
  sc_array_resize e c b n =
  if n =? 0 then (c, b, 1, 0)
  else let r := roundup_u64 (n * e) in
       if (b <? n * e) || (r <? b) then (n, r, 2, r) else (n, b, 0, 0).
Proof. exact resize_owner. Qed.
Print Assumptions C08_gen_resize_owner.

Theorem C08_gen_resize_view : forall e c b n, b < 0 -> sc_array_resize e c b n = (n, b, 0, 0).
Proof. exact resize_view. Qed.
Print Assumptions C08_gen_resize_view.

(* inline sc_array_push_count: fast path iff the new byte size fits the allocation; pointer = array + e * old count *)
Theorem C08_gen_push_count : forall e c b off k, 0 < e -> 0 <= c -> 0 <= k -> (c + k) * e <= MAXB -> 0 <= b <= MAXB ->
  sc_array_push_count e c b off k =
  if b <? e * (c + k) then (c, 3, c + k, off + e * c) else (c + k, 0, 0, off + e * c).
Proof. exact push_count_owner. Qed.
Print Assumptions C08_gen_push_count.

Theorem C08_gen_pop : forall e c b off, 0 < e -> 0 < c -> c * e <= MAXB -> sc_array_pop e c b off = (c - 1, off + e * (c - 1)).
Proof. exact pop_owner. Qed.
Print Assumptions C08_gen_pop.

Theorem C08_gen_index : forall e c b off i, 0 < e -> 0 <= i -> i * e <= MAXB -> sc_array_index e c b off i = off + e * i.
Proof. exact index_val. Qed.
Print Assumptions C08_gen_index.

(* views: byte_alloc = -(length * elem_size + 1), pointer = array + offset * elem_size *)
Theorem C08_gen_init_view : forall e c b off o l, 0 < e -> 0 <= o -> 0 <= l -> (o + l) * e <= MAXB ->
  sc_array_init_view e c b off o l = (e, l, - (l * e + 1), off + o * e).
Proof. exact init_view_val. Qed.
Print Assumptions C08_gen_init_view.

Theorem C08_gen_init_data : forall base e n, 0 < e -> 0 <= n -> n * e <= MAXB -> sc_array_init_data base e n = (e, n, - (n * e + 1), base).
Proof. exact init_data_val. Qed.
Print Assumptions C08_gen_init_data.

Theorem C08_gen_init_count : forall e n, 0 < e -> 0 <= n -> n * e <= MAXB -> sc_array_init_count e n = (e, n, e * n, 4, e * n).
Proof. exact init_count_val. Qed.
Print Assumptions C08_gen_init_count.

(* reset frees exactly when the array is an owner; rewind (0) of an owner is a reset; destroy frees block and struct *)
Theorem C08_gen_reset : forall e c b off, sc_array_reset e c b off = (0, 0, 0, if 0 <=? b then 5 else 0).
Proof. exact reset_val. Qed.
Print Assumptions C08_gen_reset.

Theorem C08_gen_rewind : forall e c b off n, sc_array_rewind e c b off n = if (n =? 0) && (0 <=? b) then (c, 1) else (n, 0).
Proof. exact rewind_val. Qed.
Print Assumptions C08_gen_rewind.

Theorem C08_gen_destroy : forall e c b off, sc_array_destroy e c b off = (if 0 <=? b then 5 else 0, 1).
Proof. exact destroy_val. Qed.
Print Assumptions C08_gen_destroy.

(* ----- sc_array_permute, cut into GENERATED slices (Gen/ArrayPermC08.v): set-up, loop conditions, one iteration of the
   inner loop with its three memcpy calls, the statements around it.  The loop model of the concrete machine
   (permute_model / permute_outer / permute_inner of ArrayModel.v, which C08_refines and C08_loops_ok are about) is,
   unfolding by unfolding, what the generated slices compute. *)
Theorem C08_gen_permute_inner : forall f (l : list (list Z)) ni zi zj zk temp carray esize,
  0 <= esize -> 0 <= zi -> 0 <= zk -> esize * zi <= MAXB -> esize * zk <= MAXB ->
  permute_inner (S f) l ni zi zj zk =
  if c8_permute_inner_cond zk zi then
    let '(zj1, zk1, nzj, _, _, _, _, _, _, _, _, _) := c8_permute_inner_step temp carray esize zk zi (nthz ni zk) in
    permute_inner f (swapn l zi zk) (setn ni (Z.to_nat zj1) nzj) zi zj1 zk1
  else Some (l, ni, zj).
Proof. exact gen_permute_inner_eq. Qed.
Print Assumptions C08_gen_permute_inner.

Theorem C08_gen_permute_outer : forall f (l : list (list Z)) ni zi zj count,
  0 <= zi <= MAXB ->
  permute_outer (S f) l ni zi zj count =
  if c8_permute_outer_cond zi count then
    match permute_inner (S (Z.to_nat count)) l ni zi zj (c8_permute_outer_pre (nthz ni zj)) with
    | None => None
    | Some (l1, ni1, _) =>
      let '(nzi, zi1, zj1) := c8_permute_outer_post zi in permute_outer f l1 (setn ni1 (Z.to_nat zi) nzi) zi1 zj1 count
    end
  else Some (l, ni).
Proof. exact gen_permute_outer_eq. Qed.
Print Assumptions C08_gen_permute_outer.

Theorem C08_gen_permute_start : forall (l : list (list Z)) ni,
  permute_model l ni = let '(zi, zj) := c8_permute_init in permute_outer (S (length l)) l ni zi zj (Z.of_nat (length l)).
Proof. exact gen_permute_model_eq. Qed.
Print Assumptions C08_gen_permute_start.

(* The exchange inside the inner loop, on a byte memory (`mcpy m dst src n` = memory after memcpy (dst, src, n)): if the
   elements of l lie at carray + esize * i and the temporary element lies outside the array, then after the three
   GENERATED memcpy calls the memory holds `swapn l zi zk` - both elements are exchanged in ALL their bytes, for every
   element size >= 1 -, nothing outside the two elements and the temporary is written, and the temporary is used with
   exactly esize bytes.  (`swapn` is the step of permute_inner above.) *)
Theorem C08_gen_permute_exchange : forall m (l : list (list Z)) temp carray esize zi zk nzk,
  0 < esize -> (zi < length l)%nat -> (zk < length l)%nat -> zi <> zk ->
  esize * Z.of_nat (length l) <= MAXB ->
  (temp + esize <= carray \/ carray + esize * Z.of_nat (length l) <= temp) ->
  holds m carray esize l ->
  let '(_, _, _, d1, s1, n1, d2, s2, n2, d3, s3, n3) :=
    c8_permute_inner_step temp carray esize (Z.of_nat zk) (Z.of_nat zi) nzk in
  let m' := mcpy (mcpy (mcpy m d1 s1 n1) d2 s2 n2) d3 s3 n3 in
  holds m' carray esize (swapn l (Z.of_nat zi) (Z.of_nat zk)) /\
  (forall a, ~ (temp <= a < temp + esize) ->
             ~ (carray + esize * Z.of_nat zi <= a < carray + esize * Z.of_nat zi + esize) ->
             ~ (carray + esize * Z.of_nat zk <= a < carray + esize * Z.of_nat zk + esize) -> m' a = m a) /\
  d1 = temp /\ n1 = esize /\ s3 = temp /\ n3 = esize.
Proof. exact gen_permute_exchange. Qed.
Print Assumptions C08_gen_permute_exchange.

(* set-up: esize = elem_size, count = elem_count, carray = array->array, and the temporary element is allocated with
   elem_size bytes; an empty array returns at once; newind is the storage of newindices itself (keepperm = 0) or a
   private copy of count * 8 bytes filled by one memcpy of count * 8 bytes from sc_array_index (newindices, 0) *)
Theorem C08_gen_permute_setup : forall e ret arr cnt keep p0 p1, 0 <= e <= MAXB -> 0 <= cnt -> cnt * 8 <= MAXB ->
  c8_permute_setup e ret arr cnt = (e, cnt, arr, ret, e) /\
  c8_permute_empty cnt = (cnt =? 0) /\
  c8_permute_newind keep p0 cnt ret p1 = (if keep =? 0 then (p0, 0, 0, 0, 0, 0, 0) else (ret, 1, cnt * 8, 1, ret, p1, cnt * 8)).
Proof. intros; split; [apply gen_permute_setup|split; [apply gen_permute_empty|apply gen_permute_newind]]; assumption. Qed.
Print Assumptions C08_gen_permute_setup.

(* ----- the SC_ENABLE_DEBUG configuration (Gen/ArrayDebugC08.v: sc_array_truncate, _rewind, _reset, _resize of the Debug build,
   generated as whole functions; memset / sc_realloc / sc_free / sc_array_reset calls are outputs "called, arguments").
   What the Debug build fills with -1 on its own: only storage of an OWNER, inside the array's own allocation, never a byte
   below min (old count, new count) * elem_size (the elements that survive the call).  sc_array_resize has three fills, at most
   one per call: m1 = the dropped elements [n * e, c * e) when it shrinks and keeps the allocation; m2 = the elements that
   become visible [c * e, n * e) when it grows inside the kept allocation (their content is undefined by the documentation;
   this fill replaced the assertion of F-C08g); m3 = the tail [min (c, n) * e, b') of the block of exactly b' bytes returned
   by sc_realloc.  A view (byte_alloc < 0) is never filled: sc_array_resize of a view changes its count and calls nothing;
   sc_array_rewind calls sc_array_reset (new_count = 0 on an owner) or sets the count, sc_array_reset frees an owner's storage
   - neither contains a fill; sc_array_truncate (owners only, SC_ASSERT) fills [array, array + byte_alloc) with the count set
   to 0.  The translator group also pins the census of memset calls over all sc_array functions and refuses a loop. *)
Theorem C08_gen_debug_fills :
  (forall a b, 0 <= b <= MAXB -> c8d_truncate a b = (0, 1, a, -1, b)) /\
  (forall n b arr c, c8d_rewind n b arr c = if (n =? 0) && (0 <=? b) then (c, 1, arr) else (n, 0, 0)) /\
  (forall b a, c8d_reset b a = (0, 0, 0, (if 0 <=? b then 1 else 0), (if 0 <=? b then a else 0))) /\
  (forall b n arr c e a ret, b < 0 ->
     c8d_resize b n arr c e a ret = (n, b, 0, 0, 0, 0, 0, 0, 0, 0, 0, 0, 0, 0, 0, 0, 0, 0, 0)) /\
  (forall b n arr c e a ret c' b' rc ra m1c m1d m1v m1n m2c m2d m2v m2n rlc rlp rls m3c m3d m3v m3n,
     0 < e -> 0 <= c -> 0 <= n -> c * e <= b -> n * e <= MAXB -> 0 <= b <= MAXB ->
     c8d_resize b n arr c e a ret = (c', b', rc, ra, m1c, m1d, m1v, m1n, m2c, m2d, m2v, m2n, rlc, rlp, rls, m3c, m3d, m3v, m3n) ->
     (m1c = 0 \/ m1c = 1) /\ (m2c = 0 \/ m2c = 1) /\ (m3c = 0 \/ m3c = 1) /\ m1c + m2c + m3c <= 1 /\
     (m1c = 1 -> rlc = 0 /\ b' = b /\ n < c /\ m1v = -1 /\ m1d = a + n * e /\ m1n = c * e - n * e /\ m1d + m1n <= a + b) /\
     (m2c = 1 -> rlc = 0 /\ b' = b /\ c < n /\ m2v = -1 /\ m2d = a + c * e /\ m2n = n * e - c * e /\ m2d + m2n <= a + b) /\
     (m3c = 1 -> rlc = 1 /\ rlp = a /\ rls = b' /\ m3v = -1 /\ 0 <= m3n /\ m3d = ret + Z.min c n * e /\ m3d + m3n = ret + b' /\ n * e <= b') /\
     (rc = 1 -> n = 0 /\ m1c = 0 /\ m2c = 0 /\ m3c = 0)).
Proof.
  split; [exact dbg_truncate_val|split; [exact dbg_rewind_val|split; [exact dbg_reset_val|split; [exact dbg_resize_view|exact dbg_resize_owner]]]].
Qed.
Print Assumptions C08_gen_debug_fills.

(* Regression guard for F-C08g (repaired in /repo): the Debug build used to CHECK the bytes [oldoffs, newoffs) for 0xff instead of
   filling them (`old_debug_assert`, the former loop at sc_containers.c:263-265 as a predicate on the block).  For every content of
   fresh memory: after `init (4); push; push; pop` the concrete machine's block still holds the popped element; the resize to 2
   elements is legal, keeps the allocation (the generated Debug function takes the growth fill m2 of exactly these 4 bytes) - and the
   old assertion is FALSE on them: a legal history on which the Debug build aborted. *)
Theorem C08_debug_assert_old_refuted : forall junk : nat -> Z -> Z,
  let st := run junk bcmp isort lfind 1 adler32 first_byte guard_ops in
  legal bcmp isort lfind 1 adler32 first_byte (guard_ops ++ [OResize 0 2 [9; 9; 9; 9]]) = true /\
  exists a, cget st 0 = Some a /\ a_esz a = 4 /\ a_cnt a = 1 /\ a_balloc a = 8 /\ a_off a = 0 /\
    hget (c_heap st) (a_blk a) = [1; 2; 3; 4; 5; 6; 7; 8] /\
    (forall p ret arr, c8d_resize (a_balloc a) 2 arr (a_cnt a) (a_esz a) p ret =
                       (2, 8, 0, 0, 0, 0, 0, 0, 1, p + 4, -1, 4, 0, 0, 0, 0, 0, 0, 0)) /\
    old_debug_assert (hget (c_heap st) (a_blk a)) (a_cnt a * a_esz a) (2 * a_esz a) = false.
Proof. exact old_assert_refuted. Qed.
Print Assumptions C08_debug_assert_old_refuted.

(* ===== derived results ============================================================================================ *)

(* sc_array_is_sorted returns 1 iff every element compares <= its successor, and 0 otherwise *)
Theorem C08_is_sorted : forall cmp l, is_sorted cmp l = 1 <-> ordered cmp l.
Proof. exact is_sorted_spec. Qed.
Print Assumptions C08_is_sorted.

Theorem C08_is_sorted_01 : forall cmp l, is_sorted cmp l = 0 \/ is_sorted cmp l = 1.
Proof. exact is_sorted_01. Qed.
Print Assumptions C08_is_sorted_01.

(* uniq: the result is a subsequence of the input, and - when cmp = 0 is an equivalence - no two neighbours are equal *)
Theorem C08_uniq_subseq : forall cmp l, subseq (uniq_spec cmp l) l.
Proof. exact uniq_spec_subseq. Qed.
Print Assumptions C08_uniq_subseq.

Theorem C08_uniq_adjacent_differ : forall cmp, (forall x, cmp x x = 0) -> (forall x y, cmp x y = 0 -> cmp y x = 0) ->
  (forall x y z, cmp x y = 0 -> cmp y z = 0 -> cmp x z = 0) -> forall l, adjdiff cmp (uniq_spec cmp l).
Proof. exact uniq_spec_adjdiff. Qed.
Print Assumptions C08_uniq_adjacent_differ.

(* split: on type-sorted input, offsets[k] <= i < offsets[k+1] exactly for the elements i of type k (unique boundaries) *)
Theorem C08_split_boundaries : forall types T, sorted_z types = true ->
  forallb (fun t => (0 <=? t) && (t <? T)) types = true ->
  forall k i, 0 <= k < T -> (i < length types)%nat ->
  (nthz (split_spec types T) k <= Z.of_nat i < nthz (split_spec types T) (k + 1) <-> nth i types 0 = k).
Proof. exact split_spec_boundaries. Qed.
Print Assumptions C08_split_boundaries.

(* permute: the data that was at index i is at index newindices[i] afterwards; is_permutation decides permutations *)
Theorem C08_permute_realises : forall (l : list (list Z)) ni, length ni = length l -> is_perm ni = 1 ->
  forall i, (i < length l)%nat -> nth (Z.to_nat (nth i ni 0)) (permute_spec l ni) [] = nth i l [].
Proof. exact permute_spec_nth. Qed.
Print Assumptions C08_permute_realises.

Theorem C08_is_permutation_iff : forall ni, is_perm ni = 1 <-> Permutation ni (map Z.of_nat (seq 0 (length ni))).
Proof. exact is_perm_iff. Qed.
Print Assumptions C08_is_permutation_iff.

(* ===== the hypotheses are satisfiable ============================================================================ *)
Example C08_legal_example :
  legal bcmp isort lfind 1 adler32 first_byte
    [OInit false 0 3; OPush 0 [1;2;3]; OPush 0 [4;5;6]; OPushCount 0 2 [7;8;9;1;2;3]; OInitView true 1 0 1 2;
     OSet 1 0 [9;9;9]; OInitCount true 2 3 1 [0;0;0]; OCopy 2 1; OSort 0; OUniq 2; ODestroy 1; OPop 0; OResize 2 9 (repeat 7 21);
     OResize 0 1 []; OIndex 0 0; ODestroy 2; ODrop 0] = true.
Proof. vm_compute. reflexivity. Qed.

(* ===== allocation policy of the generated sc_array_resize over HISTORIES of resize calls (C08/ArrayPolicy.v) ====== *)

(* after a resize of an owner to n > 0 elements, from any capacity: count n, capacity covers the elements, stays
   within the size bound and is below twice the need *)
Theorem C08_policy_resize_bounds : forall e c b n, 0 < e -> 0 < n -> n * e <= MAXB -> 0 <= b <= MAXB ->
  let st := pol_step e (c, b) n in
  fst st = n /\ n * e <= snd st <= MAXB /\ snd st < 2 * (n * e).
Proof. exact resize_bounds. Qed.
Print Assumptions C08_policy_resize_bounds.

(* a second resize to the same count takes no action (no reallocation, capacity unchanged) *)
Theorem C08_policy_resize_stable : forall e c b n, 0 < e -> 0 < n -> n * e <= MAXB -> 0 <= b <= MAXB ->
  let st := pol_step e (c, b) n in
  sc_array_resize e (fst st) (snd st) n = (n, snd st, 0, 0).
Proof. exact resize_stable. Qed.
Print Assumptions C08_policy_resize_stable.

(* EVERY history of resize calls (any counts >= 0 within the size bound, growing and shrinking across every
   power-of-two boundary), from any owner state: the capacity stays within the bound, and after a last resize to
   n > 0 it covers n elements and is below twice the need *)
Theorem C08_policy_history_range : forall e ns, 0 < e -> Forall (fun n => 0 <= n /\ n * e <= MAXB) ns ->
  forall c b, 0 <= b <= MAXB -> 0 <= snd (fold_left (pol_step e) ns (c, b)) <= MAXB.
Proof. exact resize_history_range. Qed.
Print Assumptions C08_policy_history_range.

Theorem C08_policy_history_last : forall e ns n, 0 < e -> Forall (fun n => 0 <= n /\ n * e <= MAXB) ns ->
  0 < n -> n * e <= MAXB ->
  forall c b, 0 <= b <= MAXB ->
  let st := fold_left (pol_step e) (ns ++ [n]) (c, b) in
  fst st = n /\ n * e <= snd st <= MAXB /\ snd st < 2 * (n * e).
Proof. exact resize_history_last. Qed.
Print Assumptions C08_policy_history_last.
