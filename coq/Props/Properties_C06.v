(* C06 - ASCII-armored encodings are lossless and build-configuration independent.
   The statements are about the executable models of libb64, sc_io_encode_zlib, sc_io_noncompress,
   adler32 and the VTK writers (coq/C06/*Model.v); the value functions, tables, adler32 and all size
   formulas are the constants GENERATED from /repo's current source (Gen/Codec.v, tie T1); the models
   are run against both builds of the real code on every check (tie T2).
   This file contains only statements, `exact` proofs and Print Assumptions. *)
From Coq Require Import ZArith List Bool.
From ScV Require Import Base.CInt Gen.Codec C06.Res C06.B64Model C06.B64Spec C06.B64Proofs
  C06.ArmorModel C06.ArmorProofs C06.StoredModel C06.StoredProofs C06.AdlerProofs
  C07.PuffModel C07.DecodeModel C06.StoredRoundtrip C06.RoundTrip.
Import ListNotations.
Local Open Scope Z_scope.

(* --- base 64 ------------------------------------------------------------------------------------- *)
(* libb64's decoder inverts libb64's encoder, for every byte string *)
Theorem C06_b64_roundtrip : forall x, bytes x -> b64_decode_all (b64_encode_all x) = Ok x.
Proof. exact b64_roundtrip. Qed.
Print Assumptions C06_b64_roundtrip.

(* the encoder state machine computes RFC 4648 base 64 (specification written independently:
   24-bit groups by division, alphabet by ranges, '=' padding) *)
Theorem C06_b64_is_rfc4648 : forall x, bytes x -> b64_encode_all x = rfc4648 x.
Proof. exact b64_is_rfc4648. Qed.
Print Assumptions C06_b64_is_rfc4648.

(* streaming law: encoding in chunks with one encoder state = encoding the concatenation
   (this is what makes the chunked VTK writers produce one RFC 4648 text) *)
Theorem C06_b64_streaming : forall st a b,
  enc_block st (a ++ b) =
  let '(s1, o1) := enc_block st a in let '(s2, o2) := enc_block s1 b in (s2, o1 ++ o2).
Proof. exact enc_block_app. Qed.
Print Assumptions C06_b64_streaming.

(* bytes outside the alphabet inserted anywhere into the text do not change what is decoded *)
Theorem C06_b64_decoder_skips : forall x a b c, bytes x -> b64_encode_all x = a ++ b -> dec_value c < 0 ->
  b64_decode_all (a ++ c :: b) = Ok x.
Proof. exact b64_roundtrip_with_junk. Qed.
Print Assumptions C06_b64_decoder_skips.

(* --- the armor ------------------------------------------------------------------------------------ *)
(* the text written by the line loop of sc_io_encode_zlib is the RFC 4648 code of the payload cut into
   lines of 76 characters, each followed by [break byte; '\n'], then NUL - for all 256 break bytes *)
Theorem C06_armor_is_wrapped_rfc4648 : forall lb p, bytes p -> 0 < len p < M64 / 4 ->
  armor lb p = wrap76 (Z.to_nat ((len p + 56) / 57)) (u8 lb) (rfc4648 p) ++ [0].
Proof. exact armor_spec. Qed.
Print Assumptions C06_armor_is_wrapped_rfc4648.

Theorem C06_armor_geometry : forall lb p, bytes p -> 0 < len p < M64 / 4 ->
  exists ls,
    rfc4648 p = concat ls /\
    armor lb p = with_breaks (u8 lb) ls ++ [0] /\
    Forall (fun l => len l = 76) (removelast ls) /\
    ls <> [] /\ 1 <= len (last ls []) <= 76 /\
    len ls = (len p + 56) / 57 /\
    len (armor lb p) = 4 * ((len p + 2) / 3) + 2 * ((len p + 56) / 57) + 1 /\
    len (armor lb p) = sc_encoded_size (len p).
Proof. exact armor_geometry. Qed.
Print Assumptions C06_armor_geometry.

(* the first 12 characters are the RFC 4648 code of the 9-byte info header (8-byte big-endian size, 'z') *)
Theorem C06_armor_first12 : forall lb p, bytes p -> 9 <= len p < M64 / 4 ->
  firstn 12 (armor lb p) = rfc4648 (firstn 9 p).
Proof. exact armor_first12. Qed.
Print Assumptions C06_armor_first12.

(* --- VTK writers ---------------------------------------------------------------------------------- *)
Theorem C06_vtk_binary : forall d, bytes d -> len d < M32 ->
  vtk_write_binary d = rfc4648 (le4 (len d) ++ d).
Proof. exact vtk_write_binary_spec. Qed.
Print Assumptions C06_vtk_binary.

Theorem C06_vtk_compressed : forall n blocks, Forall bytes blocks -> 0 <= n ->
  let header := le4 (u32 (n / 32768 + (if 0 <? n mod 32768 then 1 else 0))) ++ le4 32768
                ++ le4 (u32 (if (0 <? n mod 32768) || (n =? 0) then n mod 32768 else 32768))
                ++ concat (map (fun b => le4 (u32 (len b))) blocks) in
  vtk_compressed_of_blocks n blocks = rfc4648 header ++ rfc4648 (concat blocks).
Proof. exact vtk_compressed_spec. Qed.
Print Assumptions C06_vtk_compressed.

(* --- the build without zlib: stored-block writer and adler32 -------------------------------------- *)
(* what sc_io_noncompress writes conforms to RFC 1950 / RFC 1951 (stored blocks), specification
   written in Rocq from the RFCs - so any conforming inflate (zlib in the other build) accepts it *)
Theorem C06_stored_is_zlib : forall d, bytes d -> zlib_stored_stream (noncompress d) d.
Proof. exact noncompress_is_zlib_stored. Qed.
Print Assumptions C06_stored_is_zlib.

(* its length is the GENERATED sc_io_noncompress_bound (the size the encoder allocates and armors) *)
Theorem C06_stored_length : forall d, bytes d -> len d < M64 / 2 ->
  len (noncompress d) = sc_io_noncompress_bound (len d).
Proof. exact noncompress_len. Qed.
Print Assumptions C06_stored_length.

(* adler32 with reduction deferred to every 5000th byte in 32-bit arithmetic = mathematical Adler-32 *)
Theorem C06_adler32_model : forall adler l, bytes l -> 0 <= adler < M32 ->
  adler_update adler l = adler32_from adler l.
Proof. exact adler_update_spec. Qed.
Print Assumptions C06_adler32_model.

(* ... and the GENERATED C function computes exactly that, on any buffer whose bytes are l *)
Theorem C06_adler32_generated : forall fuel adler f l, len l < M64 ->
  (forall j, (j < List.length l)%nat -> u8 (f (Z.of_nat j)) = nth j l 0) -> (List.length l < fuel)%nat ->
  sc_io_adler32_update fuel adler f (len l) = Some (adler_update adler l).
Proof. exact gen_adler_update. Qed.
Print Assumptions C06_adler32_generated.

(* both together: the statement of DESIGN.md Appendix A *)
Theorem C06_adler32 : forall fuel adler f l, bytes l -> 0 <= adler < M32 -> len l < M64 ->
  (forall j, (j < List.length l)%nat -> u8 (f (Z.of_nat j)) = nth j l 0) -> (List.length l < fuel)%nat ->
  sc_io_adler32_update fuel adler f (len l) = Some (adler32_from adler l).
Proof. exact gen_adler_is_spec. Qed.
Print Assumptions C06_adler32.

(* checksums of concatenated buffers chain (the writer updates block by block) *)
Theorem C06_adler32_chunks : forall adler x y, bytes x -> bytes y -> 0 <= adler < M32 ->
  adler_update (adler_update adler x) y = adler_update adler (x ++ y).
Proof. exact adler_update_app. Qed.
Print Assumptions C06_adler32_chunks.

(* --- the reader of the build without zlib (header checks + sc_puff + adler32 check) ---------------- *)
(* sc_puff decodes ANY RFC 1951 sequence of stored blocks, whatever follows it in memory *)
Theorem C06_puff_stored_blocks : forall blocks d tail dnil cap,
  stored_blocks blocks d -> len blocks < M64 -> (dnil = false -> len d <= cap) ->
  puff dnil cap (len d) (blocks ++ tail) (len blocks) = Ok (0, len d, len blocks, if dnil then [] else d).
Proof. exact puff_stored_blocks. Qed.
Print Assumptions C06_puff_stored_blocks.

(* sc_io_nonuncompress accepts EVERY stream conforming to the RFC 1950/1951 stored format and returns
   the data (dnil: the destination pointer is NULL, which libsc passes only for a declared size 0) *)
Theorem C06_stored_reader_accepts_rfc : forall s d cap dnil,
  zlib_stored_stream s d -> bytes s -> len s < M64 ->
  (dnil = false -> len d <= cap) -> (dnil = true -> d = []) ->
  nonuncompress s (len d) cap dnil = Ok d.
Proof. exact nonuncompress_accepts_rfc. Qed.
Print Assumptions C06_stored_reader_accepts_rfc.

(* hence libsc's own reader inverts libsc's own writer, for every byte string (multi-block included) *)
Theorem C06_stored_roundtrip : forall d cap dnil, bytes d -> len d < M64 / 2 ->
  (dnil = false -> len d <= cap) -> (dnil = true -> d = []) ->
  nonuncompress (noncompress d) (len d) cap dnil = Ok d.
Proof. exact stored_roundtrip. Qed.
Print Assumptions C06_stored_roundtrip.

(* --- decode (encode x) = x ---------------------------------------------------------------------------- *)
(* the line loop of sc_io_decode applied to an armored payload returns the payload, for all 256 break bytes
   (the break bytes are skipped by position, so alphabet characters are allowed as break bytes too) *)
Theorem C06_dec_lines_armor : forall lb p, bytes p -> 0 < len p < M64 / 4 ->
  let t := armor lb p in
  let E := len t in
  let lines := dec_base64_lines E in
  dec_guard_short E lines = false /\
  dec_lines (Z.to_nat lines) E t 0 (dec_irem E lines) 0 lines [] 0 (dec_compressed_size lines)
            (repeat 0 76) d_init = Ok (p, len p).
Proof. exact dec_lines_armor. Qed.
Print Assumptions C06_dec_lines_armor.

(* the build with zlib: compress2 / uncompress are external code; their contract (zlib's documented round
   trip) is the Section hypothesis, so the theorem holds for every level and every conforming zlib.
   out = the output array as passed in (owner of any size, or a view with o_cnt elements of o_esz bytes;
   in place: the descriptor of the input array); the result is (element count, bytes). *)
Section Zlib.
  Variable deflate : Z -> list Z -> list Z.
  Variable inflate : list Z -> Z -> option (list Z).
  Hypothesis deflate_bytes : forall l d, bytes d -> bytes (deflate l d).
  Hypothesis zlib_ok : forall l d, bytes d -> inflate (deflate l d) (len d) = Some d.

  Theorem C06_roundtrip : forall lvl lb d out maxsz,
    bytes d -> 9 + len (deflate lvl d) < M64 / 4 -> len d < M64 / 2 ->
    len d / 1032 <= 9 + len (deflate lvl d) ->      (* deflate expands at most 1032:1 (format fact, assumed of zlib): the guard of 5c6a588 *)
    0 < o_esz out -> (len d) mod (o_esz out) = 0 ->
    (maxsz <= 0 \/ len d <= maxsz) ->
    (o_owner out = false -> len d <= o_cnt out * o_esz out < M64) ->
    sc_decode_with (zlib_unc inflate) (sc_encode_with (deflate lvl) lb d) out maxsz = Ok (len d / o_esz out, d).
  Proof. exact (decode_encode_zlib deflate inflate deflate_bytes zlib_ok). Qed.
End Zlib.
Print Assumptions C06_roundtrip.

(* the build without zlib: writer, reader, sc_puff and adler32 are libsc's own code - no hypothesis *)
Theorem C06_roundtrip_stored : forall lb d out maxsz,
  bytes d -> len d < M64 / 8 ->
  0 < o_esz out -> (len d) mod (o_esz out) = 0 ->
  (maxsz <= 0 \/ len d <= maxsz) ->
  (o_owner out = false -> len d <= o_cnt out * o_esz out < M64) ->
  sc_decode (sc_encode_stored lb d) out maxsz = Ok (len d / o_esz out, d).
Proof. exact decode_encode_stored. Qed.
Print Assumptions C06_roundtrip_stored.

(* sc_io_decode_info on an encoding returns the original size and 'z', whatever the compressor *)
Theorem C06_decode_info_of_encode : forall compress lb d,
  bytes d -> bytes (compress d) -> len d < M64 -> 9 + len (compress d) < M64 / 4 ->
  sc_decode_info (sc_encode_with compress lb d) = Ok (len d, 122).
Proof. exact decode_info_encode. Qed.
Print Assumptions C06_decode_info_of_encode.

(* configuration independence inside the model: the text of the build WITHOUT zlib carries a stream that
   conforms to RFC 1950/1951 (C06_stored_is_zlib), which every conforming inflate - zlib's in the other
   build - accepts; the text of the build WITH zlib is read by sc_puff in the build without: that direction
   relies on the Huffman paths of sc_puff computing inflate, which is tested (both builds decode each
   other's texts on every run), not proved - see docs/C06.md. *)

(* hypotheses are satisfiable / the statements are not vacuous *)
Example C06_ex_b64 : b64_encode_all [77; 97; 110; 33] = [84; 87; 70; 117; 73; 81; 61; 61].   (* "Man!" -> "TWFuIQ==" *)
Proof. vm_compute. reflexivity. Qed.
Example C06_ex_adler : adler_update 1 [87; 105; 107; 105; 112; 101; 100; 105; 97] = 300286872.  (* "Wikipedia" -> 0x11E60398 *)
Proof. vm_compute. reflexivity. Qed.
Example C06_ex_empty : sc_encode_stored 61 [] = [65; 65; 65; 65; 65; 65; 65; 65; 65; 65; 66; 54; 101; 65; 69; 66; 65; 65; 68; 47; 47; 119; 65; 65; 65; 65; 69; 61; 61; 10; 0].
Proof. vm_compute. reflexivity. Qed.

(* ==================================================================================================== *)
(* --- sc_puff against RFC 1951: functional correctness on Huffman streams -------------------------------
   The specification (C06/DeflateSpec.v) is written from RFC 1951 / RFC 1950 and does not mention the code:
   LSB-first bit packing, the canonical Huffman code of a length vector (bl_count / next_code), the
   literal/length/distance alphabets with their extra bits, the fixed code, the dynamic header with its
   run-length coded code lengths, stored blocks, the block sequence, the zlib wrapper with Adler-32.     *)
From ScV Require Import C06.DeflateSpec C06.DeflateCanon C06.DeflateBits.

(* the canonical codes fit into their lengths and form a prefix code whenever the Kraft sum is at most 1 *)
Theorem C06_canonical_fits : forall ls sym, not_over ls -> has_code ls sym ->
  0 <= code_val ls sym < 2 ^ nth (Z.to_nat sym) ls 0.
Proof. exact code_val_fits. Qed.
Print Assumptions C06_canonical_fits.

Theorem C06_canonical_prefix_free : forall ls a b, not_over ls -> has_code ls a -> has_code ls b ->
  prefix (code_of ls a) (code_of ls b) -> a = b.
Proof. exact canonical_prefix_free. Qed.
Print Assumptions C06_canonical_prefix_free.

(* stage (a): the bit reader of sc_puff.c.  inrep c s bs tail: the bits the state s has not consumed yet are bs
   (the low p_bitcnt bits of the bit buffer, then the bytes up to inlen, each LSB first).  If they start with the
   n-bit data element v, bits(s, n) returns v and leaves exactly the rest; the output side is untouched. *)
Theorem C06_puff_bits : forall c s need v rest tail,
  inrep c s (bitsZ need v ++ rest) tail -> 0 <= need <= 16 -> 0 <= v < 2 ^ need ->
  exists s', bits c s need = Ok (v, s') /\ inrep c s' rest tail /\ sameout s s'.
Proof. exact bits_spec. Qed.
Print Assumptions C06_puff_bits.

(* stage (b): Huffman decoding.  huff_for ls h: the tables count[] / symbol[] of sc_puff.c describe the canonical code
   of the code lengths ls.  construct() builds such tables for every length vector that is not over-subscribed
   (complete or not) and returns 2^15 - Kraft sum (0 iff complete; 0 as well when there is no code at all);
   decode() then returns the symbol whose canonical code (RFC 1951 3.2.2, most significant bit first) the unread
   bits start with, and consumes exactly that code. *)
From ScV Require Import C07.PuffHuffman C06.DeflateDecode C06.DeflateConstruct.

Theorem C06_puff_construct : forall lengths loff n, 0 <= loff -> 0 <= n <= 1000 -> loff + n <= len lengths ->
  let ls := lens_at lengths loff n in
  Forall (fun v => 0 <= v <= 15) ls ->
  forall h, len (h_count h) = 16 -> n <= len (h_symbol h) -> not_over ls ->
  exists err h', construct h lengths loff n = Ok (err, h') /\ huff_for ls h' /\
    (forall l, 0 <= l < 16 -> nth (Z.to_nat l) (h_count h') 0 = cnt ls l) /\
    len (h_symbol h') = len (h_symbol h) /\
    (cnt ls 0 = n -> err = 0) /\ (cnt ls 0 <> n -> err = 2 ^ 15 - kraft ls).
Proof. exact construct_spec. Qed.
Print Assumptions C06_puff_construct.

Theorem C06_puff_decode : forall c h ls sym tail rest,
  huff_for ls h -> not_over ls -> has_code ls sym ->
  forall s, inrep c s (code_of ls sym ++ rest) tail ->
  exists s', decode c h s = Ok (sym, s') /\ inrep c s' rest tail /\ sameout s s'.
Proof. exact decode_spec. Qed.
Print Assumptions C06_puff_decode.

(* stages (c) and (d): the symbol loop.  outrep c s o: the output produced so far is o (only its length is kept when
   dest == NIL).  `symbols lit dist o bs o'` (DeflateSpec.v) is the RFC's description of the compressed data of a block:
   literals, <length, distance> pairs with extra bits and overlapping copy, end-of-block.  codes() with tables for the
   codes lit/dist turns the output o into o' and consumes exactly bs; N = length of the complete output, which the
   destination must be able to hold.  The tables lens/lext/dists/dext of sc_puff.c are the RFC's printed tables. *)
From ScV Require Import C06.DeflateCodes.

Theorem C06_puff_tables_are_rfc :
  combine lext lens = rfc_len_table /\ combine dext dists = rfc_dist_table /\
  map (fun i => (len_extra i, len_base i)) (map Z.of_nat (seq 0 29)) = rfc_len_table /\
  map (fun j => (dist_extra j, dist_base j)) (map Z.of_nat (seq 0 30)) = rfc_dist_table.
Proof. exact tables_are_rfc. Qed.
Print Assumptions C06_puff_tables_are_rfc.

Theorem C06_puff_codes : forall c lc dc lit dist tail,
  huff_for lit lc -> huff_for dist dc -> not_over lit -> not_over dist ->
  forall N, N < M64 -> (c_nil c = false -> N <= c_outlen c /\ N <= c_outcap c) ->
  forall s o bs o' rest,
  symbols lit dist o bs o' -> len o' <= N -> inrep c s (bs ++ rest) tail -> outrep c s o ->
  exists s', codes c lc dc s = Ok s' /\ inrep c s' rest tail /\ outrep c s' o'.
Proof. exact codes_spec. Qed.
Print Assumptions C06_puff_codes.

(* fixed(): blocks coded with the fixed codes of RFC 1951 3.2.6 (288 literal/length codes of 7-9 bits, 5-bit distances) *)
Theorem C06_puff_fixed : forall c s o bs o' rest tail N,
  symbols fixed_lit fixed_dist o bs o' -> len o' <= N -> N < M64 ->
  (c_nil c = false -> N <= c_outlen c /\ N <= c_outcap c) ->
  inrep c s (bs ++ rest) tail -> outrep c s o ->
  exists s', fixed c s = Ok s' /\ inrep c s' rest tail /\ outrep c s' o'.
Proof. exact fixed_spec. Qed.
Print Assumptions C06_puff_fixed.

(* stage (e): dynamic().  The premises are exactly those of bk_dynamic in DeflateSpec.v: HLIT <= 29 (at most 286
   literal/length codes), HDIST <= 29 (at most 30 distance codes), the HCLEN + 4 three-bit lengths vs of the code
   length code in the order 16,17,18,0,8,7,9,... (cl_of), that code complete, the HLIT + 257 + HDIST + 1 code lengths
   run-length coded with it (cl_lengths: 0..15, 16 = repeat previous 3..6 times, 17 = 3..10 zeros, 18 = 11..138 zeros,
   never beyond the total), both codes acceptable (code_ok: complete, or all lengths 0/1), then the symbols. *)
From ScV Require Import C06.DeflateDynamic.

Theorem C06_puff_dynamic : forall c s o hlit hdist hclen vs lens bs1 bs2 o' rest tail N,
  0 <= hlit <= 29 -> 0 <= hdist <= 29 -> 0 <= hclen <= 15 ->
  len vs = hclen + 4 -> Forall (fun v => 0 <= v < 8) vs ->
  complete (cl_of vs) ->
  cl_lengths (cl_of vs) (hlit + 257 + (hdist + 1)) [] bs1 lens ->
  code_ok (firstn (Z.to_nat (hlit + 257)) lens) ->
  code_ok (skipn (Z.to_nat (hlit + 257)) lens) ->
  symbols (firstn (Z.to_nat (hlit + 257)) lens) (skipn (Z.to_nat (hlit + 257)) lens) o bs2 o' ->
  len o' <= N -> N < M64 -> (c_nil c = false -> N <= c_outlen c /\ N <= c_outcap c) ->
  inrep c s (bitsZ 5 hlit ++ bitsZ 5 hdist ++ bitsZ 4 hclen ++ flat_map (bitsZ 3) vs ++ bs1 ++ bs2 ++ rest) tail ->
  outrep c s o ->
  exists s', dynamic c s = Ok s' /\ inrep c s' rest tail /\ outrep c s' o'.
Proof. exact dynamic_spec. Qed.
Print Assumptions C06_puff_dynamic.

(* stage (f) and the result.  THE THEOREM: sc_puff inflates every deflate stream.  s = the sourcelen bytes handed to
   sc_puff, d = the data, `deflate_stream s d` = s is, LSB first, a sequence of stored / fixed / dynamic blocks (the last
   one with BFINAL) for d followed by fewer than 8 unused bits; tail = whatever follows in memory (the Adler-32
   trailer), dnil: dest == NIL (scanning), cap = memory at dest.  sc_puff returns 0, *destlen = |d|, *sourcelen = |s|
   and has written d (destlen = the size announced for the destination, any value >= |d|). *)
From ScV Require Import C06.DeflateCorrect.

Theorem C06_puff_inflates_deflate : forall s d tail dnil cap destlen,
  deflate_stream s d -> bytes s -> len s < M64 -> len d <= destlen < M64 -> (dnil = false -> destlen <= cap) ->
  puff dnil cap destlen (s ++ tail) (len s) = Ok (0, len d, len s, if dnil then [] else d) /\ bytes d.
Proof. exact puff_inflates_deflate_gen. Qed.
Print Assumptions C06_puff_inflates_deflate.

(* hence the specification is functional: a byte string is a deflate stream for at most one data string *)
Theorem C06_deflate_spec_functional : forall s d d', bytes s -> len s < M64 -> len d < M64 -> len d' < M64 ->
  deflate_stream s d -> deflate_stream s d' -> d = d'.
Proof. exact deflate_stream_functional. Qed.
Print Assumptions C06_deflate_spec_functional.

(* the new specification extends the stored-block specification of C06_stored_is_zlib: what sc_io_noncompress
   writes is a zlib stream in the new sense as well *)
Theorem C06_stored_spec_is_special_case : forall s d, zlib_stored_stream s d -> bytes s -> zlib_stream s d.
Proof. exact zlib_stored_is_zlib. Qed.
Print Assumptions C06_stored_spec_is_special_case.

(* sc_io_nonuncompress (header checks, sc_puff, length checks, Adler-32 of the output against the trailer) returns d
   for EVERY zlib stream for d (RFC 1950 wrapper, any CINFO <= 7, any FLG with FDICT clear and valid FCHECK, around
   any RFC 1951 deflate stream) - generalises C06_stored_reader_accepts_rfc from stored blocks to all block types *)
Theorem C06_reader_accepts_zlib_streams : forall z d cap dnil,
  zlib_stream z d -> bytes z -> len z < M64 -> len d < M64 ->
  (dnil = false -> len d <= cap) -> (dnil = true -> d = []) ->
  nonuncompress z (len d) cap dnil = Ok d.
Proof. exact nonuncompress_inflates. Qed.
Print Assumptions C06_reader_accepts_zlib_streams.

(* a fact about the format, derived from the specification: n bytes of deflate data encode at most 1032 n bytes
   (a <length, distance> pair yields at most 258 bytes and costs at least 2 bits) - the constant of the guard
   `size / 1032 > ocnt` of sc_io_decode (commit 5c6a588) *)
From ScV Require Import C06.DeflateBound.

Theorem C06_deflate_expansion : forall s d, deflate_stream s d -> len d <= 1032 * len s.
Proof. exact deflate_expansion. Qed.
Print Assumptions C06_deflate_expansion.

(* Configuration independence, direction zlib build -> build without zlib.  compress2 is external code; its contract
   is CONFORMANCE to RFC 1950/1951 as an encoding of its input (not a round trip with some inflate).  Then the decoder
   of the build without zlib returns the data with the identical element count - for every level, all 256 break
   bytes, every element size dividing the length, owner or sufficient view, maximum 0 or >= length.  The size
   hypotheses are those of C06_roundtrip, WITHOUT its premise on the compression ratio (C06_deflate_expansion). *)
Section ZlibConforms.
  Variable deflate : Z -> list Z -> list Z.
  Hypothesis deflate_bytes : forall l d, bytes d -> bytes (deflate l d).
  Hypothesis deflate_conforms : forall l d, bytes d -> zlib_stream (deflate l d) d.

  Theorem C06_cross_decode_zlib_to_nozlib : forall lvl lb d out maxsz,
    bytes d -> 9 + len (deflate lvl d) < M64 / 4 -> len d < M64 / 2 ->
    0 < o_esz out -> (len d) mod (o_esz out) = 0 ->
    (maxsz <= 0 \/ len d <= maxsz) ->
    (o_owner out = false -> len d <= o_cnt out * o_esz out < M64) ->
    sc_decode (sc_encode_with (deflate lvl) lb d) out maxsz = Ok (len d / o_esz out, d).
  Proof. exact (cross_decode_zlib_to_nozlib_all deflate deflate_bytes deflate_conforms). Qed.
End ZlibConforms.
Print Assumptions C06_cross_decode_zlib_to_nozlib.

(* the specification is not vacuous and relates REAL zlib output to its input (C06/DeflateExamples.v: streams of
   python3 zlib.compress - stored, fixed code with overlapping matches of length 258, fixed code with matches at distance
   45, dynamic codes with run-length coded code lengths; derivations found by tactics, checked by the kernel) *)
From ScV Require Import C06.DeflateExamples.
Example C06_ex_zlib_fixed : zlib_stream ex2_z (repeat 0 1000) /\ nonuncompress ex2_z 1000 1000 false = Ok (repeat 0 1000).
Proof. split; [exact ex2_conforms|exact ex2_decoded]. Qed.
Example C06_ex_zlib_dynamic : zlib_stream ex4_z ex4_d /\ nonuncompress ex4_z 300 300 false = Ok ex4_d.
Proof. split; [exact ex4_conforms|exact ex4_decoded]. Qed.
