(* C06 - ASCII-armored encodings are lossless and build-configuration independent.
   The statements are about the executable models of libb64, sc_io_encode_zlib, sc_io_noncompress,
   adler32 and the VTK writers (coq/C06/*Model.v); the value functions, tables, adler32 and all size
   formulas are the constants GENERATED from /repo's current source (Gen/Codec.v, tie T1); the models
   are run against both builds of the real code on every check (tie T2).
   This file contains only statements, `exact` proofs and Print Assumptions. *)
From Coq Require Import ZArith List Bool.
From ScV Require Import Base.CInt Gen.Codec C06.Res C06.B64Model C06.B64Spec C06.B64Proofs
  C06.ArmorModel C06.ArmorProofs C06.StoredModel C06.StoredProofs C06.AdlerProofs
  C07.PuffModel C07.DecodeModel C06.StoredRoundtrip C06.RoundTrip.
Import ListNotations.
Local Open Scope Z_scope.

(* --- base 64 ------------------------------------------------------------------------------------- *)
(* libb64's decoder inverts libb64's encoder, for every byte string *)
Theorem C06_b64_roundtrip : forall x, bytes x -> b64_decode_all (b64_encode_all x) = Ok x.
Proof. exact b64_roundtrip. Qed.
Print Assumptions C06_b64_roundtrip.

(* the encoder state machine computes RFC 4648 base 64 (specification written independently:
   24-bit groups by division, alphabet by ranges, '=' padding) *)
Theorem C06_b64_is_rfc4648 : forall x, bytes x -> b64_encode_all x = rfc4648 x.
Proof. exact b64_is_rfc4648. Qed.
Print Assumptions C06_b64_is_rfc4648.

(* streaming law: encoding in chunks with one encoder state = encoding the concatenation
   (this is what makes the chunked VTK writers produce one RFC 4648 text) *)
Theorem C06_b64_streaming : forall st a b,
  enc_block st (a ++ b) =
  let '(s1, o1) := enc_block st a in let '(s2, o2) := enc_block s1 b in (s2, o1 ++ o2).
Proof. exact enc_block_app. Qed.
Print Assumptions C06_b64_streaming.

(* bytes outside the alphabet inserted anywhere into the text do not change what is decoded *)
Theorem C06_b64_decoder_skips : forall x a b c, bytes x -> b64_encode_all x = a ++ b -> dec_value c < 0 ->
  b64_decode_all (a ++ c :: b) = Ok x.
Proof. exact b64_roundtrip_with_junk. Qed.
Print Assumptions C06_b64_decoder_skips.

(* --- the armor ------------------------------------------------------------------------------------ *)
(* the text written by the line loop of sc_io_encode_zlib is the RFC 4648 code of the payload cut into
   lines of 76 characters, each followed by [break byte; '\n'], then NUL - for all 256 break bytes *)
Theorem C06_armor_is_wrapped_rfc4648 : forall lb p, bytes p -> 0 < len p < M64 / 4 ->
  armor lb p = wrap76 (Z.to_nat ((len p + 56) / 57)) (u8 lb) (rfc4648 p) ++ [0].
Proof. exact armor_spec. Qed.
Print Assumptions C06_armor_is_wrapped_rfc4648.

Theorem C06_armor_geometry : forall lb p, bytes p -> 0 < len p < M64 / 4 ->
  exists ls,
    rfc4648 p = concat ls /\
    armor lb p = with_breaks (u8 lb) ls ++ [0] /\
    Forall (fun l => len l = 76) (removelast ls) /\
    ls <> [] /\ 1 <= len (last ls []) <= 76 /\
    len ls = (len p + 56) / 57 /\
    len (armor lb p) = 4 * ((len p + 2) / 3) + 2 * ((len p + 56) / 57) + 1 /\
    len (armor lb p) = sc_encoded_size (len p).
Proof. exact armor_geometry. Qed.
Print Assumptions C06_armor_geometry.

(* the first 12 characters are the RFC 4648 code of the 9-byte info header (8-byte big-endian size, 'z') *)
Theorem C06_armor_first12 : forall lb p, bytes p -> 9 <= len p < M64 / 4 ->
  firstn 12 (armor lb p) = rfc4648 (firstn 9 p).
Proof. exact armor_first12. Qed.
Print Assumptions C06_armor_first12.

(* --- VTK writers ---------------------------------------------------------------------------------- *)
Theorem C06_vtk_binary : forall d, bytes d -> len d < M32 ->
  vtk_write_binary d = rfc4648 (le4 (len d) ++ d).
Proof. exact vtk_write_binary_spec. Qed.
Print Assumptions C06_vtk_binary.

Theorem C06_vtk_compressed : forall n blocks, Forall bytes blocks -> 0 <= n ->
  let header := le4 (u32 (n / 32768 + (if 0 <? n mod 32768 then 1 else 0))) ++ le4 32768
                ++ le4 (u32 (if (0 <? n mod 32768) || (n =? 0) then n mod 32768 else 32768))
                ++ concat (map (fun b => le4 (u32 (len b))) blocks) in
  vtk_compressed_of_blocks n blocks = rfc4648 header ++ rfc4648 (concat blocks).
Proof. exact vtk_compressed_spec. Qed.
Print Assumptions C06_vtk_compressed.

(* --- the build without zlib: stored-block writer and adler32 -------------------------------------- *)
(* what sc_io_noncompress writes conforms to RFC 1950 / RFC 1951 (stored blocks), specification
   written in Rocq from the RFCs - so any conforming inflate (zlib in the other build) accepts it *)
Theorem C06_stored_is_zlib : forall d, bytes d -> zlib_stored_stream (noncompress d) d.
Proof. exact noncompress_is_zlib_stored. Qed.
Print Assumptions C06_stored_is_zlib.

(* its length is the GENERATED sc_io_noncompress_bound (the size the encoder allocates and armors) *)
Theorem C06_stored_length : forall d, bytes d -> len d < M64 / 2 ->
  len (noncompress d) = sc_io_noncompress_bound (len d).
Proof. exact noncompress_len. Qed.
Print Assumptions C06_stored_length.

(* adler32 with reduction deferred to every 5000th byte in 32-bit arithmetic = mathematical Adler-32 *)
Theorem C06_adler32_model : forall adler l, bytes l -> 0 <= adler < M32 ->
  adler_update adler l = adler32_from adler l.
Proof. exact adler_update_spec. Qed.
Print Assumptions C06_adler32_model.

(* ... and the GENERATED C function computes exactly that, on any buffer whose bytes are l *)
Theorem C06_adler32_generated : forall fuel adler f l, len l < M64 ->
  (forall j, (j < List.length l)%nat -> u8 (f (Z.of_nat j)) = nth j l 0) -> (List.length l < fuel)%nat ->
  sc_io_adler32_update fuel adler f (len l) = Some (adler_update adler l).
Proof. exact gen_adler_update. Qed.
Print Assumptions C06_adler32_generated.

(* both together: the statement of DESIGN.md Appendix A *)
Theorem C06_adler32 : forall fuel adler f l, bytes l -> 0 <= adler < M32 -> len l < M64 ->
  (forall j, (j < List.length l)%nat -> u8 (f (Z.of_nat j)) = nth j l 0) -> (List.length l < fuel)%nat ->
  sc_io_adler32_update fuel adler f (len l) = Some (adler32_from adler l).
Proof. exact gen_adler_is_spec. Qed.
Print Assumptions C06_adler32.

(* checksums of concatenated buffers chain (the writer updates block by block) *)
Theorem C06_adler32_chunks : forall adler x y, bytes x -> bytes y -> 0 <= adler < M32 ->
  adler_update (adler_update adler x) y = adler_update adler (x ++ y).
Proof. exact adler_update_app. Qed.
Print Assumptions C06_adler32_chunks.

(* --- the reader of the build without zlib (header checks + sc_puff + adler32 check) ---------------- *)
(* sc_puff decodes ANY RFC 1951 sequence of stored blocks, whatever follows it in memory *)
Theorem C06_puff_stored_blocks : forall blocks d tail dnil cap,
  stored_blocks blocks d -> len blocks < M64 -> (dnil = false -> len d <= cap) ->
  puff dnil cap (len d) (blocks ++ tail) (len blocks) = Ok (0, len d, len blocks, if dnil then [] else d).
Proof. exact puff_stored_blocks. Qed.
Print Assumptions C06_puff_stored_blocks.

(* sc_io_nonuncompress accepts EVERY stream conforming to the RFC 1950/1951 stored format and returns
   the data (dnil: the destination pointer is NULL, which libsc passes only for a declared size 0) *)
Theorem C06_stored_reader_accepts_rfc : forall s d cap dnil,
  zlib_stored_stream s d -> bytes s -> len s < M64 ->
  (dnil = false -> len d <= cap) -> (dnil = true -> d = []) ->
  nonuncompress s (len d) cap dnil = Ok d.
Proof. exact nonuncompress_accepts_rfc. Qed.
Print Assumptions C06_stored_reader_accepts_rfc.

(* hence libsc's own reader inverts libsc's own writer, for every byte string (multi-block included) *)
Theorem C06_stored_roundtrip : forall d cap dnil, bytes d -> len d < M64 / 2 ->
  (dnil = false -> len d <= cap) -> (dnil = true -> d = []) ->
  nonuncompress (noncompress d) (len d) cap dnil = Ok d.
Proof. exact stored_roundtrip. Qed.
Print Assumptions C06_stored_roundtrip.

(* --- decode (encode x) = x ---------------------------------------------------------------------------- *)
(* the line loop of sc_io_decode applied to an armored payload returns the payload, for all 256 break bytes
   (the break bytes are skipped by position, so alphabet characters are allowed as break bytes too) *)
Theorem C06_dec_lines_armor : forall lb p, bytes p -> 0 < len p < M64 / 4 ->
  let t := armor lb p in
  let E := len t in
  let lines := dec_base64_lines E in
  dec_guard_short E lines = false /\
  dec_lines (Z.to_nat lines) E t 0 (dec_irem E lines) 0 lines [] 0 (dec_compressed_size lines)
            (repeat 0 76) d_init = Ok (p, len p).
Proof. exact dec_lines_armor. Qed.
Print Assumptions C06_dec_lines_armor.

(* the build with zlib: compress2 / uncompress are external code; their contract (zlib's documented round
   trip) is the Section hypothesis, so the theorem holds for every level and every conforming zlib.
   out = the output array as passed in (owner of any size, or a view with o_cnt elements of o_esz bytes;
   in place: the descriptor of the input array); the result is (element count, bytes). *)
Section Zlib.
  Variable deflate : Z -> list Z -> list Z.
  Variable inflate : list Z -> Z -> option (list Z).
  Hypothesis deflate_bytes : forall l d, bytes d -> bytes (deflate l d).
  Hypothesis zlib_ok : forall l d, bytes d -> inflate (deflate l d) (len d) = Some d.

  Theorem C06_roundtrip : forall lvl lb d out maxsz,
    bytes d -> 9 + len (deflate lvl d) < M64 / 4 -> len d < M64 / 2 ->
    len d / 1032 <= 9 + len (deflate lvl d) ->      (* deflate expands at most 1032:1 (format fact, assumed of zlib): the guard of 5c6a588 *)
    0 < o_esz out -> (len d) mod (o_esz out) = 0 ->
    (maxsz <= 0 \/ len d <= maxsz) ->
    (o_owner out = false -> len d <= o_cnt out * o_esz out < M64) ->
    sc_decode_with (zlib_unc inflate) (sc_encode_with (deflate lvl) lb d) out maxsz = Ok (len d / o_esz out, d).
  Proof. exact (decode_encode_zlib deflate inflate deflate_bytes zlib_ok). Qed.
End Zlib.
Print Assumptions C06_roundtrip.

(* the build without zlib: writer, reader, sc_puff and adler32 are libsc's own code - no hypothesis *)
Theorem C06_roundtrip_stored : forall lb d out maxsz,
  bytes d -> len d < M64 / 8 ->
  0 < o_esz out -> (len d) mod (o_esz out) = 0 ->
  (maxsz <= 0 \/ len d <= maxsz) ->
  (o_owner out = false -> len d <= o_cnt out * o_esz out < M64) ->
  sc_decode (sc_encode_stored lb d) out maxsz = Ok (len d / o_esz out, d).
Proof. exact decode_encode_stored. Qed.
Print Assumptions C06_roundtrip_stored.

(* sc_io_decode_info on an encoding returns the original size and 'z', whatever the compressor *)
Theorem C06_decode_info_of_encode : forall compress lb d,
  bytes d -> bytes (compress d) -> len d < M64 -> 9 + len (compress d) < M64 / 4 ->
  sc_decode_info (sc_encode_with compress lb d) = Ok (len d, 122).
Proof. exact decode_info_encode. Qed.
Print Assumptions C06_decode_info_of_encode.

(* configuration independence inside the model: the text of the build WITHOUT zlib carries a stream that
   conforms to RFC 1950/1951 (C06_stored_is_zlib), which every conforming inflate - zlib's in the other
   build - accepts; the text of the build WITH zlib is read by sc_puff in the build without: that direction
   relies on the Huffman paths of sc_puff computing inflate, which is tested (both builds decode each
   other's texts on every run), not proved - see docs/C06.md. *)

(* hypotheses are satisfiable / the statements are not vacuous *)
Example C06_ex_b64 : b64_encode_all [77; 97; 110; 33] = [84; 87; 70; 117; 73; 81; 61; 61].   (* "Man!" -> "TWFuIQ==" *)
Proof. vm_compute. reflexivity. Qed.
Example C06_ex_adler : adler_update 1 [87; 105; 107; 105; 112; 101; 100; 105; 97] = 300286872.  (* "Wikipedia" -> 0x11E60398 *)
Proof. vm_compute. reflexivity. Qed.
Example C06_ex_empty : sc_encode_stored 61 [] = [65; 65; 65; 65; 65; 65; 65; 65; 65; 65; 66; 54; 101; 65; 69; 66; 65; 65; 68; 47; 47; 119; 65; 65; 65; 65; 69; 61; 61; 10; 0].
Proof. vm_compute. reflexivity. Qed.

(* ==================================================================================================== *)
(* --- sc_puff against RFC 1951: functional correctness on Huffman streams -------------------------------
   The specification (C06/DeflateSpec.v) is written from RFC 1951 / RFC 1950 and does not mention the code:
   LSB-first bit packing, the canonical Huffman code of a length vector (bl_count / next_code), the
   literal/length/distance alphabets with their extra bits, the fixed code, the dynamic header with its
   run-length coded code lengths, stored blocks, the block sequence, the zlib wrapper with Adler-32.     *)
From ScV Require Import C06.DeflateSpec C06.DeflateCanon C06.DeflateBits.

(* the canonical codes fit into their lengths and form a prefix code whenever the Kraft sum is at most 1 *)
Theorem C06_canonical_fits : forall ls sym, not_over ls -> has_code ls sym ->
  0 <= code_val ls sym < 2 ^ nth (Z.to_nat sym) ls 0.
Proof. exact code_val_fits. Qed.
Print Assumptions C06_canonical_fits.

Theorem C06_canonical_prefix_free : forall ls a b, not_over ls -> has_code ls a -> has_code ls b ->
  prefix (code_of ls a) (code_of ls b) -> a = b.
Proof. exact canonical_prefix_free. Qed.
Print Assumptions C06_canonical_prefix_free.

(* stage (a): the bit reader of sc_puff.c.  inrep c s bs tail: the bits the state s has not consumed yet are bs
   (the low p_bitcnt bits of the bit buffer, then the bytes up to inlen, each LSB first).  If they start with the
   n-bit data element v, bits(s, n) returns v and leaves exactly the rest; the output side is untouched. *)
Theorem C06_puff_bits : forall c s need v rest tail,
  inrep c s (bitsZ need v ++ rest) tail -> 0 <= need <= 16 -> 0 <= v < 2 ^ need ->
  exists s', bits c s need = Ok (v, s') /\ inrep c s' rest tail /\ sameout s s'.
Proof. exact bits_spec. Qed.
Print Assumptions C06_puff_bits.

(* stage (b): Huffman decoding.  huff_for ls h: the tables count[] / symbol[] of sc_puff.c describe the canonical code
   of the code lengths ls.  construct() builds such tables for every length vector that is not over-subscribed
   (complete or not) and returns 2^15 - Kraft sum (0 iff complete; 0 as well when there is no code at all);
   decode() then returns the symbol whose canonical code (RFC 1951 3.2.2, most significant bit first) the unread
   bits start with, and consumes exactly that code. *)
From ScV Require Import C07.PuffHuffman C06.DeflateDecode C06.DeflateConstruct.

Theorem C06_puff_construct : forall lengths loff n, 0 <= loff -> 0 <= n <= 1000 -> loff + n <= len lengths ->
  let ls := lens_at lengths loff n in
  Forall (fun v => 0 <= v <= 15) ls ->
  forall h, len (h_count h) = 16 -> n <= len (h_symbol h) -> not_over ls ->
  exists err h', construct h lengths loff n = Ok (err, h') /\ huff_for ls h' /\
    (forall l, 0 <= l < 16 -> nth (Z.to_nat l) (h_count h') 0 = cnt ls l) /\
    len (h_symbol h') = len (h_symbol h) /\
    (cnt ls 0 = n -> err = 0) /\ (cnt ls 0 <> n -> err = 2 ^ 15 - kraft ls).
Proof. exact construct_spec. Qed.
Print Assumptions C06_puff_construct.

Theorem C06_puff_decode : forall c h ls sym tail rest,
  huff_for ls h -> not_over ls -> has_code ls sym ->
  forall s, inrep c s (code_of ls sym ++ rest) tail ->
  exists s', decode c h s = Ok (sym, s') /\ inrep c s' rest tail /\ sameout s s'.
Proof. exact decode_spec. Qed.
Print Assumptions C06_puff_decode.

(* stages (c) and (d): the symbol loop.  outrep c s o: the output produced so far is o (only its length is kept when
   dest == NIL).  `symbols lit dist o bs o'` (DeflateSpec.v) is the RFC's description of the compressed data of a block:
   literals, <length, distance> pairs with extra bits and overlapping copy, end-of-block.  codes() with tables for the
   codes lit/dist turns the output o into o' and consumes exactly bs; N = length of the complete output, which the
   destination must be able to hold.  The tables lens/lext/dists/dext of sc_puff.c are the RFC's printed tables. *)
From ScV Require Import C06.DeflateCodes.

Theorem C06_puff_tables_are_rfc :
  combine lext lens = rfc_len_table /\ combine dext dists = rfc_dist_table /\
  map (fun i => (len_extra i, len_base i)) (map Z.of_nat (seq 0 29)) = rfc_len_table /\
  map (fun j => (dist_extra j, dist_base j)) (map Z.of_nat (seq 0 30)) = rfc_dist_table.
Proof. exact tables_are_rfc. Qed.
Print Assumptions C06_puff_tables_are_rfc.

Theorem C06_puff_codes : forall c lc dc lit dist tail,
  huff_for lit lc -> huff_for dist dc -> not_over lit -> not_over dist ->
  forall N, N < M64 -> (c_nil c = false -> N <= c_outlen c /\ N <= c_outcap c) ->
  forall s o bs o' rest,
  symbols lit dist o bs o' -> len o' <= N -> inrep c s (bs ++ rest) tail -> outrep c s o ->
  exists s', codes c lc dc s = Ok s' /\ inrep c s' rest tail /\ outrep c s' o'.
Proof. exact codes_spec. Qed.
Print Assumptions C06_puff_codes.

(* fixed(): blocks coded with the fixed codes of RFC 1951 3.2.6 (288 literal/length codes of 7-9 bits, 5-bit distances) *)
Theorem C06_puff_fixed : forall c s o bs o' rest tail N,
  symbols fixed_lit fixed_dist o bs o' -> len o' <= N -> N < M64 ->
  (c_nil c = false -> N <= c_outlen c /\ N <= c_outcap c) ->
  inrep c s (bs ++ rest) tail -> outrep c s o ->
  exists s', fixed c s = Ok s' /\ inrep c s' rest tail /\ outrep c s' o'.
Proof. exact fixed_spec. Qed.
Print Assumptions C06_puff_fixed.

(* stage (e): dynamic().  The premises are exactly those of bk_dynamic in DeflateSpec.v: HLIT <= 29 (at most 286
   literal/length codes), HDIST <= 29 (at most 30 distance codes), the HCLEN + 4 three-bit lengths vs of the code
   length code in the order 16,17,18,0,8,7,9,... (cl_of), that code complete, the HLIT + 257 + HDIST + 1 code lengths
   run-length coded with it (cl_lengths: 0..15, 16 = repeat previous 3..6 times, 17 = 3..10 zeros, 18 = 11..138 zeros,
   never beyond the total), both codes acceptable (code_ok: complete, or all lengths 0/1), then the symbols. *)
From ScV Require Import C06.DeflateDynamic.

Theorem C06_puff_dynamic : forall c s o hlit hdist hclen vs lens bs1 bs2 o' rest tail N,
  0 <= hlit <= 29 -> 0 <= hdist <= 29 -> 0 <= hclen <= 15 ->
  len vs = hclen + 4 -> Forall (fun v => 0 <= v < 8) vs ->
  complete (cl_of vs) ->
  cl_lengths (cl_of vs) (hlit + 257 + (hdist + 1)) [] bs1 lens ->
  code_ok (firstn (Z.to_nat (hlit + 257)) lens) ->
  code_ok (skipn (Z.to_nat (hlit + 257)) lens) ->
  symbols (firstn (Z.to_nat (hlit + 257)) lens) (skipn (Z.to_nat (hlit + 257)) lens) o bs2 o' ->
  len o' <= N -> N < M64 -> (c_nil c = false -> N <= c_outlen c /\ N <= c_outcap c) ->
  inrep c s (bitsZ 5 hlit ++ bitsZ 5 hdist ++ bitsZ 4 hclen ++ flat_map (bitsZ 3) vs ++ bs1 ++ bs2 ++ rest) tail ->
  outrep c s o ->
  exists s', dynamic c s = Ok s' /\ inrep c s' rest tail /\ outrep c s' o'.
Proof. exact dynamic_spec. Qed.
Print Assumptions C06_puff_dynamic.

(* stage (f) and the result.  THE THEOREM: sc_puff inflates every deflate stream.  s = the sourcelen bytes handed to
   sc_puff, d = the data, `deflate_stream s d` = s is, LSB first, a sequence of stored / fixed / dynamic blocks (the last
   one with BFINAL) for d followed by fewer than 8 unused bits; tail = whatever follows in memory (the Adler-32
   trailer), dnil: dest == NIL (scanning), cap = memory at dest.  sc_puff returns 0, *destlen = |d|, *sourcelen = |s|
   and has written d (destlen = the size announced for the destination, any value >= |d|). *)
From ScV Require Import C06.DeflateCorrect.

Theorem C06_puff_inflates_deflate : forall s d tail dnil cap destlen,
  deflate_stream s d -> bytes s -> len s < M64 -> len d <= destlen < M64 -> (dnil = false -> destlen <= cap) ->
  puff dnil cap destlen (s ++ tail) (len s) = Ok (0, len d, len s, if dnil then [] else d) /\ bytes d.
Proof. exact puff_inflates_deflate_gen. Qed.
Print Assumptions C06_puff_inflates_deflate.

(* hence the specification is functional: a byte string is a deflate stream for at most one data string *)
Theorem C06_deflate_spec_functional : forall s d d', bytes s -> len s < M64 -> len d < M64 -> len d' < M64 ->
  deflate_stream s d -> deflate_stream s d' -> d = d'.
Proof. exact deflate_stream_functional. Qed.
Print Assumptions C06_deflate_spec_functional.

(* the new specification extends the stored-block specification of C06_stored_is_zlib: what sc_io_noncompress
   writes is a zlib stream in the new sense as well *)
Theorem C06_stored_spec_is_special_case : forall s d, zlib_stored_stream s d -> bytes s -> zlib_stream s d.
Proof. exact zlib_stored_is_zlib. Qed.
Print Assumptions C06_stored_spec_is_special_case.

(* sc_io_nonuncompress (header checks, sc_puff, length checks, Adler-32 of the output against the trailer) returns d
   for EVERY zlib stream for d (RFC 1950 wrapper, any CINFO <= 7, any FLG with FDICT clear and valid FCHECK, around
   any RFC 1951 deflate stream) - generalises C06_stored_reader_accepts_rfc from stored blocks to all block types *)
Theorem C06_reader_accepts_zlib_streams : forall z d cap dnil,
  zlib_stream z d -> bytes z -> len z < M64 -> len d < M64 ->
  (dnil = false -> len d <= cap) -> (dnil = true -> d = []) ->
  nonuncompress z (len d) cap dnil = Ok d.
Proof. exact nonuncompress_inflates. Qed.
Print Assumptions C06_reader_accepts_zlib_streams.

(* a fact about the format, derived from the specification: n bytes of deflate data encode at most 1032 n bytes
   (a <length, distance> pair yields at most 258 bytes and costs at least 2 bits) - the constant of the guard
   `size / 1032 > ocnt` of sc_io_decode (commit 5c6a588) *)
From ScV Require Import C06.DeflateBound.

Theorem C06_deflate_expansion : forall s d, deflate_stream s d -> len d <= 1032 * len s.
Proof. exact deflate_expansion. Qed.
Print Assumptions C06_deflate_expansion.

(* Configuration independence, direction zlib build -> build without zlib.  compress2 is external code; its contract
   is CONFORMANCE to RFC 1950/1951 as an encoding of its input (not a round trip with some inflate).  Then the decoder
   of the build without zlib returns the data with the identical element count - for every level, all 256 break
   bytes, every element size dividing the length, owner or sufficient view, maximum 0 or >= length.  The size
   hypotheses are those of C06_roundtrip, WITHOUT its premise on the compression ratio (C06_deflate_expansion). *)
Section ZlibConforms.
  Variable deflate : Z -> list Z -> list Z.
  Hypothesis deflate_bytes : forall l d, bytes d -> bytes (deflate l d).
  Hypothesis deflate_conforms : forall l d, bytes d -> zlib_stream (deflate l d) d.

  Theorem C06_cross_decode_zlib_to_nozlib : forall lvl lb d out maxsz,
    bytes d -> 9 + len (deflate lvl d) < M64 / 4 -> len d < M64 / 2 ->
    0 < o_esz out -> (len d) mod (o_esz out) = 0 ->
    (maxsz <= 0 \/ len d <= maxsz) ->
    (o_owner out = false -> len d <= o_cnt out * o_esz out < M64) ->
    sc_decode (sc_encode_with (deflate lvl) lb d) out maxsz = Ok (len d / o_esz out, d).
  Proof. exact (cross_decode_zlib_to_nozlib_all deflate deflate_bytes deflate_conforms). Qed.
End ZlibConforms.
Print Assumptions C06_cross_decode_zlib_to_nozlib.

(* the specification is not vacuous and relates REAL zlib output to its input (C06/DeflateExamples.v: streams of
   python3 zlib.compress - stored, fixed code with overlapping matches of length 258, fixed code with matches at distance
   45, dynamic codes with run-length coded code lengths; derivations found by tactics, checked by the kernel) *)
From ScV Require Import C06.DeflateExamples.
Example C06_ex_zlib_fixed : zlib_stream ex2_z (repeat 0 1000) /\ nonuncompress ex2_z 1000 1000 false = Ok (repeat 0 1000).
Proof. split; [exact ex2_conforms|exact ex2_decoded]. Qed.
Example C06_ex_zlib_dynamic : zlib_stream ex4_z ex4_d /\ nonuncompress ex4_z 300 300 false = Ok ex4_d.
Proof. split; [exact ex4_conforms|exact ex4_decoded]. Qed.

(* ================================================================================================================== *)
(* Encoder side tied by T1 (Gen/EncodeC06.v: slices of libb64/cencode.c, sc_io_noncompress, sc_io_encode_zlib in both
   configurations, sc_vtk_write_binary, sc_vtk_write_compressed), histories on one encoder state, statelessness of the decoder
   with the census of sc_puff.c's static objects (Gen/StaticC06.v).  A `char` is signed in the slices (s8); mem_widx = the ADDRESS
   of a store (pointers are integers); the outputs of a slice are listed in the comment above its definition in Gen/EncodeC06.v. *)
From Coq Require Import String.
From ScV Require Import Gen.EncodeC06 Gen.StaticC06 C06.EncodeGen C06.EncodeHistories C06.PuffProcess.

(* base64_init_encodestate: step_A, result 0 (the enumerators are parameters: any three values) *)
Theorem C06_gen_b64e_init :
  forall sA sB sC : Z, b64e_init sA = (u32 (step_code sA sB sC (e_step e_init)), e_result e_init, 0, 0).
Proof. exact gen_b64e_init. Qed.
Print Assumptions C06_gen_b64e_init.

(* base64_encode_block: the carry is loaded from the state, the pointers start at the arguments, the switch dispatches on the saved step *)
Theorem C06_gen_b64e_enter :
  forall (sA sB sC : Z) (st : estate) (pin n co : Z),
  b64e_enter (e_result st) = (e_result st, 0) /\
  b64e_plainchar_init pin = pin /\
  b64e_plaintextend_init pin n = pin + n /\
  b64e_codechar_init co = co /\
  b64e_switch_on (step_code sA sB sC (e_step st)) = step_code sA sB sC (e_step st) /\
  b64e_end_switch_on (step_code sA sB sC (e_step st)) = step_code sA sB sC (e_step st).
Proof. exact gen_b64e_enter. Qed.
Print Assumptions C06_gen_b64e_enter.

(* end of the input in front of any of the three labels: carry and step are SAVED, the number of characters is returned *)
Theorem C06_gen_b64e_input_end :
  forall (sA sB sC : Z) (pt_at : Z -> Z) (p r cc co frag sr ss sc : Z),
  b64e_step_A pt_at p p r sA cc co frag sr ss = (u64 (s64 (cc - co)), 1, 0, 0, r, u32 sA, frag, p, r, cc, 1) /\
  b64e_step_B pt_at p p r sB cc co frag sr ss = (u64 (s64 (cc - co)), 1, 0, 0, r, u32 sB, frag, p, r, cc, 1) /\
  b64e_step_C pt_at p p r sC cc co frag sc sr ss = (u64 (s64 (cc - co)), 1, 0, 0, 0, 0, r, u32 sC, frag, p, r, cc, sc, 1).
Proof. exact gen_b64e_input_end. Qed.
Print Assumptions C06_gen_b64e_input_end.

(* one plaintext byte in step A: the generated statements store the model's character, keep the model's carry and fall into step B *)
Theorem C06_gen_b64e_step_A :
  forall (sA : Z) (pt_at : Z -> Z) (p pend r cc co frag sr ss x : Z),
  byte x ->
  pt_at p = s8 x ->
  p <> pend ->
  b64e_step_A pt_at p pend r sA cc co frag sr ss =
  (let
   '(st', out) := enc_byte {| e_step := StepA; e_result := r |} x in
    (0, 0, cc, s8 (nth 0 out 0), sr, ss, s8 x, p + 1, e_result st', cc + Z.of_nat (Datatypes.length out), 0)) /\
  e_step (fst (enc_byte {| e_step := StepA; e_result := r |} x)) = StepB.
Proof. exact gen_b64e_step_A. Qed.
Print Assumptions C06_gen_b64e_step_A.

(* one plaintext byte in step B (a group is open: the carry of the previous byte enters the character) *)
Theorem C06_gen_b64e_step_B :
  forall (sB : Z) (pt_at : Z -> Z) (p pend r cc co frag sr ss x : Z),
  byte x ->
  0 <= r < 64 ->
  pt_at p = s8 x ->
  p <> pend ->
  b64e_step_B pt_at p pend r sB cc co frag sr ss =
  (let
   '(st', out) := enc_byte {| e_step := StepB; e_result := r |} x in
    (0, 0, cc, s8 (nth 0 out 0), sr, ss, s8 x, p + 1, e_result st', cc + Z.of_nat (Datatypes.length out), 0)) /\
  e_step (fst (enc_byte {| e_step := StepB; e_result := r |} x)) = StepC.
Proof. exact gen_b64e_step_B. Qed.
Print Assumptions C06_gen_b64e_step_B.

(* one plaintext byte in step C: two characters, stepcount incremented (no line break: SC_BASE64_WRAP undefined), back to step A *)
Theorem C06_gen_b64e_step_C :
  forall (sC : Z) (pt_at : Z -> Z) (p pend r cc co frag sc sr ss x : Z),
  byte x ->
  0 <= r < 64 ->
  pt_at p = s8 x ->
  p <> pend ->
  b64e_step_C pt_at p pend r sC cc co frag sc sr ss =
  (let
   '(st', out) := enc_byte {| e_step := StepC; e_result := r |} x in
    (0, 0, cc, s8 (nth 0 out 0), cc + 1, s8 (nth 1 out 0), sr, ss, s8 x, p + 1, e_result st', cc + Z.of_nat (Datatypes.length out),
     s32 (sc + 1), 0)) /\ e_step (fst (enc_byte {| e_step := StepC; e_result := r |} x)) = StepA.
Proof. exact gen_b64e_step_C. Qed.
Print Assumptions C06_gen_b64e_step_C.

(* base64_encode_blockend: the three cases write the model's enc_end (carry character and '=' padding), no newline *)
Theorem C06_gen_b64e_end :
  forall cc co r : Z,
  0 <= r < 64 ->
  (let out := enc_end {| e_step := StepB; e_result := r |} in
   b64e_end_step_B cc r = (cc, s8 (nth 0 out 0), cc + 1, nth 1 out 0, cc + 1 + 1, nth 2 out 0, cc + 1 + 1 + 1, 0) /\
   Datatypes.length out = 3%nat) /\
  (let out := enc_end {| e_step := StepC; e_result := r |} in
   b64e_end_step_C cc r = (cc, s8 (nth 0 out 0), cc + 1, nth 1 out 0, cc + 1 + 1, 0) /\ Datatypes.length out = 2%nat) /\
  (b64e_end_step_A = 0 /\ enc_end {| e_step := StepA; e_result := r |} = []) /\
  b64e_end_return cc co = (u64 (s64 (cc - co)), 1, 1) /\ b64e_unreachable_return cc co = (u64 (s64 (cc - co)), 1, 1).
Proof. exact gen_b64e_end. Qed.
Print Assumptions C06_gen_b64e_end.

(* the carry `result` the encoder keeps between two bytes is a 6-bit value (so the char arithmetic of the slices never sees a negative char) *)
Theorem C06_gen_b64e_carry :
  forall (st : estate) (x : Z), byte x -> 0 <= e_result (fst (enc_byte st x)) < 64.
Proof. exact enc_byte_carry. Qed.
Print Assumptions C06_gen_b64e_carry.

(* sc_io_adler32_init stores 1 *)
Theorem C06_gen_adler32_init :
  adler32_init = (adler_init, 0).
Proof. exact gen_adler32_init. Qed.
Print Assumptions C06_gen_adler32_init.

(* sc_io_noncompress: the two zlib header bytes 78 01 of the model, dest moves by 2 *)
Theorem C06_gen_nonc_header :
  forall dest dsz : Z,
  nonc_header dest dsz =
  (u64 (dest + 0), s8 (nth 0 (firstn 2 (noncompress [])) 0), u64 (dest + 1), s8 (nth 1 (firstn 2 (noncompress [])) 0), 
   dest + 2, u64 (dsz - 2), 0).
Proof. exact gen_nonc_header. Qed.
Print Assumptions C06_gen_nonc_header.

(* sc_io_noncompress, one iteration of the do loop = the model's noncompress_block: BFINAL, LEN, NLEN bytes at dest..dest+4, memcpy of bsize bytes behind them, checksum over exactly these bytes, pointers advanced, loop continues iff bytes remain *)
Theorem C06_gen_nonc_block :
  forall (l : list Z) (n adler dest dsz src b0 : Z),
  0 <= n < M64 ->
  let
  '(o, l', n', a') := noncompress_block l n adler in
   let bs := if negb (NONCOMP_BLOCK <? n) then u16 n else NONCOMP_BLOCK in
   nonc_block n b0 dest dsz src adler =
   (1, dest + 5, src, bs, 1, src, bs, u64 (dest + 0), s8 (nth 0 o 0), u64 (dest + 1), s8 (nth 1 o 0), u64 (dest + 2), 
    s8 (nth 2 o 0), u64 (dest + 3), s8 (nth 3 o 0), u64 (dest + 4), s8 (nth 4 o 0), bs, u16 (Z.lnot bs), dest + 5 + bs,
    u64 (u64 (dsz - 5) - bs), adler, src + bs, n', if 0 <? n' then 0 else 1) /\
   o = firstn 5 o ++ firstn (Z.to_nat bs) l /\
   l' = skipn (Z.to_nat bs) l /\ a' = adler_update adler (firstn (Z.to_nat bs) l) /\ 0 <= bs <= n /\ n' = n - bs.
Proof. exact gen_nonc_block. Qed.
Print Assumptions C06_gen_nonc_block.

(* sc_io_noncompress: the four trailing bytes are the model's big-endian be4 of the checksum *)
Theorem C06_gen_nonc_trailer :
  forall dest adler : Z,
  0 <= adler < M32 ->
  nonc_trailer dest adler =
  (u64 (dest + 0), s8 (nth 0 (be4 adler) 0), u64 (dest + 1), s8 (nth 1 (be4 adler) 0), u64 (dest + 2), s8 (nth 2 (be4 adler) 0), 
   u64 (dest + 3), s8 (nth 3 (be4 adler) 0), 0).
Proof. exact gen_nonc_trailer. Qed.
Print Assumptions C06_gen_nonc_trailer.

(* sc_io_encode = sc_io_encode_zlib (data, out, level, break byte) with legal arguments (level -1..9, a byte) *)
Theorem C06_gen_enc_defaults :
  -1 <= enc_default_level <= 9 /\ 0 <= enc_default_break < 256.
Proof. exact gen_enc_defaults. Qed.
Print Assumptions C06_gen_enc_defaults.

(* sc_io_encode_zlib, size loop: iteration i stores byte i of the model's info_header (big endian) *)
Theorem C06_gen_enc_size_step :
  forall i n : Z, 0 <= i < 8 -> 0 <= n < M64 -> enc_size_step i n = (i, nth (Z.to_nat i) (info_header n) 0, i + 1, 0).
Proof. exact gen_enc_size_step. Qed.
Print Assumptions C06_gen_enc_size_step.

(* the size loop runs for i = 0..7; the header has 9 bytes *)
Theorem C06_gen_enc_size_loop_end :
  forall n : Z, enc_size_init = (0, 0) /\ enc_size_step 8 n = (0, 0, 8, 1) /\ len (info_header n) = 9.
Proof. exact gen_enc_size_loop_end. Qed.
Print Assumptions C06_gen_enc_size_loop_end.

(* input_size = elem_count * elem_size *)
Theorem C06_gen_enc_input_size :
  forall out cnt esz : Z, enc_input_size out cnt esz = (u64 (cnt * esz), 0).
Proof. exact gen_enc_input_size. Qed.
Print Assumptions C06_gen_enc_input_size.

(* build without zlib: 'z' at index 8; temporary array of 9 + sc_io_noncompress_bound bytes; header copied to its front; sc_io_noncompress writes behind it with the bound as capacity, from the input array, input_size bytes *)
Theorem C06_gen_enc_compress_nz :
  forall n ca os da : Z,
  enc_compress_nz n ca os da =
  (1, 1, u64 (len (info_header n) + sc_io_noncompress_bound n), 1, ca, os, len (info_header n), 1, ca + len (info_header n),
   sc_io_noncompress_bound n, da, n, 8, nth 8 (info_header n) 0, sc_io_noncompress_bound n, 0).
Proof. exact gen_enc_compress_nz. Qed.
Print Assumptions C06_gen_enc_compress_nz.

(* build with zlib: compressBound (input_size); compress2 into the same place with the caller's level; zlen = the length compress2 leaves *)
Theorem C06_gen_enc_compress_z :
  forall n cb ca os da lvl zret zlen : Z,
  enc_compress_z n cb ca os da lvl zret zlen =
  (1, n, 1, 1, u64 (len (info_header n) + cb), 1, ca, os, len (info_header n), 1, ca + len (info_header n), da, n, lvl, 8,
   nth 8 (info_header n) 0, zlen, cb, zret, 0).
Proof. exact gen_enc_compress_z. Qed.
Print Assumptions C06_gen_enc_compress_z.

(* payload = 9 + compressed length; line count and text size by the generated formulas the model uses; the output array (the input array itself for out == NULL) is resized to the text size; NUL at its start *)
Theorem C06_gen_enc_prepare :
  forall out data clen ca oa : Z,
  let plen := u64 (9 + clen) in
  enc_prepare out data clen ca oa =
  (1, if out =? 0 then data else out, sc_encoded_size plen, 1, u64 (oa + 0), 0, if out =? 0 then data else out, plen, 
   enc_base64_lines plen, sc_encoded_size plen, ca, plen, oa, 0).
Proof. exact gen_enc_prepare. Qed.
Print Assumptions C06_gen_enc_prepare.

(* one iteration of the line loop: same last-line test as the model, same byte count handed to the encoder, 57 bytes / 78 characters forward, break byte and newline behind the 76 characters resp. behind blockend on the last line, NUL behind them *)
Theorem C06_gen_enc_line_step :
  forall zlin lines opos ipos irem lout0 bo ret lb retend : Z,
  zlin < lines ->
  enc_line_step zlin lines opos ipos irem lout0 bo ret lb retend =
  (if zlin <? u64 (lines - 1)
   then
    (1, ipos, enc_lein irem, bo, 1, opos, bo, 76, 0, 0, 0, 0, 0, 0, 0, 0, 0, 0, u64 (opos + 76), s8 lb, u64 (opos + 77), 10, 
     u64 (opos + 78), 0, opos + 78, ipos + 57, u64 (irem - 57), ret, u64 (zlin + 1), 0)
   else
    (1, ipos, enc_lein irem, bo, 0, 0, 0, 0, 1, opos, bo, ret, 1, bo, 1, opos + ret, bo, retend, u64 (opos + ret + retend + 0), 
     s8 lb, u64 (opos + ret + retend + 1), 10, u64 (opos + ret + retend + 2), 0, 0, 0, 0, retend, u64 (zlin + 1), 0)).
Proof. exact gen_enc_line_step. Qed.
Print Assumptions C06_gen_enc_line_step.

(* the line loop starts at 0 and ends at base64_lines; then the temporary array is freed *)
Theorem C06_gen_enc_line_loop :
  forall zlin lines opos ipos irem lout0 bo ret lb retend : Z,
  lines <= zlin ->
  enc_line_init = (0, 0) /\
  enc_line_step zlin lines opos ipos irem lout0 bo ret lb retend =
  (0, 0, 0, 0, 0, 0, 0, 0, 0, 0, 0, 0, 0, 0, 0, 0, 0, 0, 0, 0, 0, 0, 0, 0, opos, ipos, irem, lout0, zlin, 1) /\ enc_finish = (1, 0).
Proof. exact gen_enc_line_loop. Qed.
Print Assumptions C06_gen_enc_line_loop.

(* one unfolding of the model's line loop: the shape C06_gen_enc_line_step is compared with *)
Theorem C06_gen_enc_lines_shape :
  forall (k : nat) (zlin lines : Z) (ipos : list Z) (irem : Z) (st : estate) (lb : Z),
  enc_lines (S k) zlin lines ipos irem st lb =
  (let
   '(st1, code) := enc_block st (firstn (Z.to_nat (enc_lein irem)) ipos) in
    if zlin <? u64 (lines - 1)
    then code ++ [lb; 10] ++ enc_lines k (zlin + 1) lines (skipn 57 ipos) (u64 (irem - 57)) st1 lb
    else code ++ enc_end st1 ++ [lb; 10; 0]).
Proof. exact enc_lines_unfold. Qed.
Print Assumptions C06_gen_enc_lines_shape.

(* sc_vtk_write_binary: chunks of 32768, buffer of 65537 characters, the encoder first reads the 4 bytes of the 32-bit length word *)
Theorem C06_gen_vtkb_header :
  forall n pkg mret ahdr eret file : Z,
  vtkb_header n pkg mret ahdr eret file =
  (1, pkg, 65537, 1, 1, ahdr, len (le4 (u32 n)), mret, 1, mret, 1, eret, file, eret, 0, 32768, u32 n, 65537, mret, u32 n, eret, 0, n, 0).
Proof. exact gen_vtkb_header. Qed.
Print Assumptions C06_gen_vtkb_header.

(* one iteration of the chunk loop: the model's chunk length, chunk k starts at numeric_data + k * 32768, the SAME encoder state *)
Theorem C06_gen_vtkb_chunk_step :
  forall remaining w0 bl0 chunks data bd eret file : Z,
  0 < remaining < M64 ->
  vtkb_chunk_step remaining w0 bl0 chunks 32768 data bd eret file =
  (let writenow := if remaining <? 32768 then remaining else 32768 in
   (1, data + u64 (chunks * 32768), writenow, bd, 1, bd, 1, eret, file, eret, 0, writenow, eret, remaining - writenow, u64 (chunks + 1), 0)).
Proof. exact gen_vtkb_chunk_step. Qed.
Print Assumptions C06_gen_vtkb_chunk_step.

(* the chunk loop ends when nothing remains *)
Theorem C06_gen_vtkb_chunk_loop_end :
  forall w0 bl0 chunks cs data bd eret file : Z,
  vtkb_chunk_step 0 w0 bl0 chunks cs data bd eret file = (0, 0, 0, 0, 0, 0, 0, 0, 0, 0, 0, w0, bl0, 0, chunks, 1).
Proof. exact gen_vtkb_chunk_loop_end. Qed.
Print Assumptions C06_gen_vtkb_chunk_loop_end.

(* one unfolding of the model's chunk loop: the shape C06_gen_vtkb_chunk_step is compared with *)
Theorem C06_gen_vtkb_chunks_shape :
  forall (f : nat) (data : list Z) (remaining : Z) (st : estate),
  vtk_chunks (S f) data remaining st =
  (if 0 <? remaining
   then
    let writenow := if remaining <? 32768 then remaining else 32768 in
    let
    '(st1, o1) := enc_block st (firstn (Z.to_nat writenow) data) in
     let '(st2, o2) := vtk_chunks f (skipn (Z.to_nat writenow) data) (remaining - writenow) st1 in (st2, o1 ++ o2)
   else (st, [])).
Proof. exact vtk_chunks_unfold. Qed.
Print Assumptions C06_gen_vtkb_chunks_shape.

(* blockend on the same state; buffer freed; -1 iff ferror *)
Theorem C06_gen_vtkb_finish :
  forall bd eret file pkg fe : Z,
  vtkb_finish bd eret file pkg fe = (1, bd, 1, bd, 1, eret, file, 1, pkg, bd, eret, 0, if z2b fe then -1 else 0, 1, eret, 1).
Proof. exact gen_vtkb_finish. Qed.
Print Assumptions C06_gen_vtkb_finish.

(* sc_vtk_write_compressed: block arithmetic and the first three header words are the model's *)
Theorem C06_gen_vtkc_sizes :
  forall n pkg m1 m2 m3 : Z,
  0 <= n < M32 ->
  let lastsize := n mod 32768 in
  let numregular := n / 32768 in
  let numfull := numregular + (if 0 <? lastsize then 1 else 0) in
  let h2 := if (0 <? lastsize) || (n =? 0) then lastsize else 32768 in
  let hsize := 4 * (3 + numfull) in
  let cl := 2 * (if hsize <? 32768 then 32768 else hsize) + 4 + 1 in
  vtkc_sizes n pkg m1 m2 m3 =
  (1, pkg, cl, 1, pkg, cl, 1, pkg, hsize, 0, u32 numfull, 1, 32768, 2, u32 h2, 32768, lastsize, numregular, numfull, 
   3 + numfull, hsize, cl, m1, m2, m3, 0) /\ hsize = len (le4 (u32 numfull) ++ le4 32768 ++ le4 (u32 h2)) + 4 * numfull.
Proof. exact gen_vtkc_sizes. Qed.
Print Assumptions C06_gen_vtkc_sizes.

(* the size words are cleared *)
Theorem C06_gen_vtkc_zero :
  forall iz he : Z, vtkc_zero_init = (3, 0) /\ vtkc_zero_step iz he = (if iz <? he then (iz, 0, u64 (iz + 1), 0) else (0, 0, iz, 1)).
Proof. exact gen_vtkc_zero. Qed.
Print Assumptions C06_gen_vtkc_zero.

(* dummy header: fresh state, one block of header_size bytes, blockend directly behind, position remembered, state initialised again *)
Theorem C06_gen_vtkc_dummy_header :
  forall ch hs bd e1 e2 file ft : Z,
  vtkc_dummy_header ch hs bd e1 e2 file ft =
  (1, 1, ch, hs, bd, 1, bd + e1, 1, file, 1, bd, 1, u64 (e1 + e2), file, 1, u64 (e1 + e2), 0, u64 (e1 + e2), e2, ft, 0).
Proof. exact gen_vtkc_dummy_header. Qed.
Print Assumptions C06_gen_vtkc_dummy_header.

(* one regular block: 32768 bytes from numeric_data + k * 32768 at level 9; the length compress2 leaves is header word 3 + k and the block length handed to the same encoder state *)
Theorem C06_gen_vtkc_block_step :
  forall tb nreg clen cin0 rv0 bl0 cl cd data zret bd eret file : Z,
  tb < nreg ->
  vtkc_block_init = (0, 0) /\
  vtkc_block_step tb nreg clen cin0 rv0 bl0 cl cd data 32768 zret bd eret file =
  (1, cd, data + u64 (tb * 32768), 32768, 9, 1, cd, clen, bd, 1, bd, 1, eret, file, u64 (3 + tb), u32 clen, eret, 0, clen, cl, zret, eret,
   u64 (tb + 1), 0).
Proof. exact gen_vtkc_block_step. Qed.
Print Assumptions C06_gen_vtkc_block_step.

(* the block loop ends at numregularblocks *)
Theorem C06_gen_vtkc_block_loop_end :
  forall tb nreg clen cin0 rv0 bl0 cl cd data bs zret bd eret file : Z,
  nreg <= tb ->
  vtkc_block_step tb nreg clen cin0 rv0 bl0 cl cd data bs zret bd eret file =
  (0, 0, 0, 0, 0, 0, 0, 0, 0, 0, 0, 0, 0, 0, 0, 0, 0, 0, clen, cin0, rv0, bl0, tb, 1).
Proof. exact gen_vtkc_block_loop_end. Qed.
Print Assumptions C06_gen_vtkc_block_loop_end.

(* the odd-sized last block iff lastsize > 0 *)
Theorem C06_gen_vtkc_last_block :
  forall cl cd data tb ls zret clen bd eret file : Z,
  vtkc_has_last ls = (0 <? ls) /\
  vtkc_last_block cl cd data tb 32768 ls zret clen bd eret file =
  (1, cd, data + u64 (tb * 32768), ls, 9, 1, cd, clen, bd, 1, bd, 1, eret, file, u64 (3 + tb), u32 clen, eret, 0, clen, cl, zret, eret, 0).
Proof. exact gen_vtkc_last_block. Qed.
Print Assumptions C06_gen_vtkc_last_block.

(* blockend of the data; fresh state for the real header written at the remembered position; buffers freed; -1 iff a seek failed or ferror *)
Theorem C06_gen_vtkc_finish :
  forall bd e0 file ft ch hs e1 e2 hp s1 s2 pkg cd fe : Z,
  vtkc_finish bd e0 file ft ch hs e1 e2 hp s1 s2 pkg cd fe =
  (1, bd, 1, bd, 1, e0, file, 1, file, 1, 1, ch, hs, bd, 1, bd + e1, 1, file, hp, 0, 1, bd, 1, u64 (e1 + e2), file, 1, file, ft, 0, 1, pkg, ch,
   1, pkg, cd, 1, pkg, bd, e0, 0, u64 (e1 + e2), 0, if negb (s1 =? 0) || negb (s2 =? 0) || z2b fe then -1 else 0, 1, 
   u64 (e1 + e2), ft, e2, s1, s2, 1).
Proof. exact gen_vtkc_finish. Qed.
Print Assumptions C06_gen_vtkc_finish.

(* HISTORIES on one encoder state: for EVERY list of chunks (empty chunks, one-byte chunks, chunks ending inside a group) the characters of all base64_encode_block calls followed by blockend are RFC 4648 of the concatenation *)
Theorem C06_b64_any_chunking :
  forall chunks : list (list Z),
  Forall bytes chunks -> (let '(st, o) := enc_blocks e_init chunks in o ++ enc_end st) = rfc4648 (List.concat chunks).
Proof. exact b64_any_chunking. Qed.
Print Assumptions C06_b64_any_chunking.

(* every partition of the same input gives the same text and the same final state *)
Theorem C06_b64_partition_independent :
  forall (l : list Z) (chunks : list (list Z)),
  bytes l ->
  List.concat chunks = l ->
  (let '(st, o) := enc_blocks e_init chunks in o ++ enc_end st) = rfc4648 l /\ enc_blocks e_init chunks = enc_block e_init l.
Proof. exact b64_partition_independent. Qed.
Print Assumptions C06_b64_partition_independent.

(* after every history the step is the byte count modulo 3 and blockend would complete the RFC 4648 text: the open group survives between the calls *)
Theorem C06_b64_history_state :
  forall chunks : list (list Z),
  Forall bytes chunks ->
  let
  '(st, o) := enc_blocks e_init chunks in
   e_step st = match len (List.concat chunks) mod 3 with
               | 0 => StepA
               | 1 => StepB
               | _ => StepC
               end /\ o ++ enc_end st = rfc4648 (List.concat chunks) /\ 0 <= e_result st.
Proof. exact b64_history_state. Qed.
Print Assumptions C06_b64_history_state.

(* a zero-length call anywhere in a history changes nothing (seed C06c reset the state there) *)
Theorem C06_b64_empty_chunk :
  forall (st : estate) (a b : list (list Z)), enc_blocks st (a ++ [] :: b) = enc_blocks st (a ++ b).
Proof. exact b64_empty_chunk. Qed.
Print Assumptions C06_b64_empty_chunk.

(* the case of seed C06c: state in step B, a call with exactly one byte, then blockend *)
Theorem C06_b64_one_byte_in_step_B :
  forall a b : Z,
  byte a ->
  byte b ->
  (let '(st, o) := enc_blocks e_init [[a]; [b]] in o ++ enc_end st) = rfc4648 [a; b] /\ e_step (fst (enc_blocks e_init [[a]; [b]])) = StepC.
Proof. exact b64_one_byte_in_step_B. Qed.
Print Assumptions C06_b64_one_byte_in_step_B.

(* sc_puff with its static cache (virgin flag, fixed-code tables) refines the cache-free model in every state whose cache is empty or holds the tables a fresh call builds, and leaves such a state *)
Theorem C06_puff_cache_invariant :
  forall (st : pstatic) (nil : bool) (outcap destlen : Z) (src : list Z) (sourcelen : Z),
  good st ->
  fst (puff_st st nil outcap destlen src sourcelen) = puff nil outcap destlen src sourcelen /\
  good (snd (puff_st st nil outcap destlen src sourcelen)).
Proof. exact puff_st_ok. Qed.
Print Assumptions C06_puff_cache_invariant.

(* sc_puff is stateless: in every static state a process can reach by any history of sc_puff calls it returns what a fresh process returns *)
Theorem C06_puff_stateless :
  forall st : pstatic,
  reachable st ->
  forall (nil : bool) (outcap destlen : Z) (src : list Z) (sourcelen : Z),
  fst (puff_st st nil outcap destlen src sourcelen) = puff nil outcap destlen src sourcelen.
Proof. exact puff_stateless. Qed.
Print Assumptions C06_puff_stateless.

(* hence sc_io_nonuncompress *)
Theorem C06_nonuncompress_stateless :
  forall st : pstatic,
  reachable st -> forall (src : list Z) (ds dc : Z) (dn : bool), nonuncompress_in st src ds dc dn = nonuncompress src ds dc dn.
Proof. exact nonuncompress_stateless. Qed.
Print Assumptions C06_nonuncompress_stateless.

(* hence sc_io_decode of the build without zlib *)
Theorem C06_decode_stateless :
  forall st : pstatic,
  reachable st -> forall (data : list Z) (out : outdesc) (maxsz : Z), sc_decode_in st data out maxsz = sc_decode data out maxsz.
Proof. exact decode_stateless. Qed.
Print Assumptions C06_decode_stateless.

(* one PROCESS decoding many texts (with any other sc_puff calls in between): every result is the result of a fresh process *)
Theorem C06_process_is_stateless :
  forall (st : pstatic) (jobs : list job) (results : list (res (Z * list Z))),
  reachable st -> process_run st jobs results -> results = map fresh_job jobs.
Proof. exact process_is_stateless. Qed.
Print Assumptions C06_process_is_stateless.

(* any order: a job's result does not depend on its position in the run nor on what was decoded before *)
Theorem C06_process_any_order :
  forall (jobs jobs' : list job) (results results' : list (res (Z * list Z))),
  process_run static0 jobs results ->
  process_run static0 jobs' results' ->
  forall (j : job) (i i' : nat),
  nth_error jobs i = Some j ->
  nth_error jobs' i' = Some j -> nth_error results i = Some (fresh_job j) /\ nth_error results' i' = Some (fresh_job j).
Proof. exact process_any_order. Qed.
Print Assumptions C06_process_any_order.

(* T1: the objects with static storage duration in sc_puff.c, generated from the current source, are exactly the modelled cache: constant tables, and the state of fixed () written only under `if (virgin)` *)
Theorem C06_gen_puff_census :
  puff_static_census = puff_census_expected /\ census_confined puff_static_census = true.
Proof. exact gen_puff_census. Qed.
Print Assumptions C06_gen_puff_census.

(* T1: libb64 has no mutable static state (its tables are only read) *)
Theorem C06_gen_b64_census :
  forallb (fun '(_, _, _, sites) => forallb (fun '(_, kind, _) => (kind =? "read")%string) sites)
    (cencode_static_census ++ cdecode_static_census) = true.
Proof. exact gen_b64_census. Qed.
Print Assumptions C06_gen_b64_census.

(* non-vacuity *)
Example C06_ex_chunking : (let '(st, o) := enc_blocks e_init [[77]; []; [97]; [110; 32; 105; 115]; []] in o ++ enc_end st) = rfc4648 [77; 97; 110; 32; 105; 115]
  /\ Forall bytes [[77]; []; [97]; [110; 32; 105; 115]; []].
Proof. split; [reflexivity|]. repeat constructor; unfold byte; cbv; intuition discriminate. Qed.
Example C06_ex_step_hyps : byte 200 /\ 0 <= 48 < 64 /\ (fun p => s8 200) 5 = s8 200 /\ 5 <> 6.
Proof. repeat split; unfold byte; try (cbv; intuition discriminate). Qed.
(* a process really changes its static state: after one fixed-codes block (03 00 = an empty deflate stream) the cache is filled *)
Example C06_ex_static_changes : s_virgin (snd (puff_st static0 false 4 4 [3; 0] 2)) = false /\ reachable (snd (puff_st static0 false 4 4 [3; 0] 2)).
Proof. split; [vm_compute; reflexivity|apply reach_call, reach_init]. Qed.
Example C06_ex_process_run : forall j, process_run static0 [j; j] [run_job static0 j; run_job (snd (puff_st static0 false 4 4 [3; 0] 2)) j].
Proof. intros j. eapply run_cons; [apply rf_call, rf_refl|]. eapply run_cons; [apply rf_refl|apply run_nil]. Qed.

(* the WHOLE control flow of base64_encode_block from the generated slices: entered at the saved step, the slices run in the
   order A -> B -> C -> A .. (the fall-through order of the labels inside `while (1)`, checked by the generator) until one
   returns: for every input, every entry state (6-bit carry) and every memory holding the input, exactly the model's characters
   are stored, the model's step and carry are saved and the number of characters is returned *)
From ScV Require Import C06.EncodeRun.
Theorem C06_gen_b64e_block_control_flow : forall sA sB sC l st pt_at p cc co out,
  bytes l -> 0 <= e_result st < 64 ->
  (forall i, 0 <= i < len l -> pt_at (p + i) = s8 (nth (Z.to_nat i) l 0)) ->
  gen_block sA sB sC (S (Datatypes.length l)) (e_step st) pt_at p (p + len l) (e_result st) cc co out =
    let '(st', o) := enc_block st l in
    Some (u64 (s64 (cc + len o - co)), u32 (step_code sA sB sC (e_step st')), e_result st', out ++ map s8 o).
Proof. exact gen_block_is_enc_block. Qed.
Print Assumptions C06_gen_b64e_block_control_flow.
Example C06_ex_block_control_flow :
  gen_block 0 1 2 5 StepB (fun p => s8 (nth (Z.to_nat (p - 100)) [77; 97; 110; 200] 0)) 100 104 16 7 7 [] =
  Some (5, 2, shl (Z.land 200 15) 2, map s8 (snd (enc_block (mkE StepB 16) [77; 97; 110; 200]))).
Proof. vm_compute. reflexivity. Qed.
