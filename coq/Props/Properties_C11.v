(* C11 - sink and source streams are transparent to chunking and count bytes exactly.
   Statements about the executable model coq/C11/IoModel.v of /repo/src/sc_io.c:40-617, which the
   check ties to the C code by running both on the same operation sequences.
   `junk` is what C leaves uninitialised (array padding / grown tails): every statement holds for
   every junk.  This file contains only statements, `exact` proofs and Print Assumptions. *)
From Coq Require Import ZArith List Bool.
From ScV Require Import C11.IoModel C11.IoLists C11.IoSinkProofs C11.IoSourceProofs.
From ScV Require Import Base.CInt Gen.IoC11 C11.IoGen.
Import ListNotations.
Local Open Scope Z_scope.

(* ===== sinks =================================================================================== *)

(* However a byte string is cut into write calls (chunks of any sizes >= 0), an owner array of ANY
   element size ends up holding the previous content (append) or nothing (write) followed by the
   concatenation; buffer_bytes counts it; every call succeeds. *)
Theorem C11_sink_chunking_buffer : forall junk (append : bool) (a : arr) (chunks : list (list Z)),
  arr_wf a -> a_view a = false ->
  let r := sink_run junk (sink_new_buffer junk append a) (map (fun d => SWrite d None) chunks) in
  sink_content (fst r) = (if append then a_mem a else []) ++ concat chunks /\
  k_bb (fst r) = len (sink_content (fst r)) /\
  snd r = map (fun _ => (E_NONE, None)) chunks.
Proof. exact sink_chunking_buffer. Qed.
Print Assumptions C11_sink_chunking_buffer.

(* the same for files: `f` is what fopen left of the file ("wb": nothing, "ab" / FILE*: everything) *)
Theorem C11_sink_chunking_file : forall (named : bool) (f : list Z) (chunks : list (list Z)) junk,
  let r := sink_run junk (mkSink (DFile named f) 0 0 0) (map (fun d => SWrite d None) chunks) in
  sink_content (fst r) = f ++ concat chunks /\ snd r = map (fun _ => (E_NONE, None)) chunks.
Proof. exact sink_chunking_file. Qed.
Print Assumptions C11_sink_chunking_file.

Theorem C11_sink_new_filename : forall append old,
  sink_new_filename true append old = Some (mkSink (DFile true (if append then old else [])) 0 0 0).
Proof. intros; reflexivity. Qed.
Print Assumptions C11_sink_new_filename.

(* two partitions of the same bytes cannot be told apart (content and both counters) *)
Theorem C11_sink_chunking_independent : forall junk s c1 c2,
  sink_wf s -> growable s -> concat c1 = concat c2 ->
  sink_abs (fst (sink_run junk s (map (fun d => SWrite d None) c1))) =
  sink_abs (fst (sink_run junk s (map (fun d => SWrite d None) c2))).
Proof. exact sink_chunking_independent. Qed.
Print Assumptions C11_sink_chunking_independent.

(* EVERY interleaving of write / align / complete on a growable sink (owner array of any element
   size, or file) behaves like the reference `spec_run`: a byte string plus two counters, where
   write appends and adds to both counters, align appends (a - out mod a) mod a zeros, complete
   answers AGAIN iff the length is not a multiple of the element size and otherwise reports and
   resets the counters.  Content, counters and every return value agree. *)
Theorem C11_sink_refines : forall junk (ops : list sop) (s : sink),
  sink_wf s -> growable s -> forallb fault_free ops = true ->
  let r := sink_run junk s ops in
  let q := spec_run (sink_unit s) (sink_abs s) ops in
  sink_abs (fst r) = fst q /\ snd r = snd q /\ sink_wf (fst r) /\ growable (fst r).
Proof. exact sink_run_refines. Qed.
Print Assumptions C11_sink_refines.

(* one write: content, counters (bytes accepted / delivered) *)
Theorem C11_sink_write : forall junk s d,
  sink_wf s -> growable s ->
  let r := sink_write junk s d None in
  snd r = E_NONE /\ sink_wf (fst r) /\ growable (fst r) /\
  sink_content (fst r) = sink_content s ++ d /\
  k_in (fst r) = k_in s + len d /\ k_out (fst r) = k_out s + len d /\
  sink_unit (fst r) = sink_unit s /\
  (forall a, k_dev s = DBuf a -> k_bb (fst r) = k_bb s + len d).
Proof. exact sink_write_growable. Qed.
Print Assumptions C11_sink_write.

(* align writes exactly pad = (a - out mod a) mod a zero bytes; pad is the least count that reaches
   the boundary *)
Theorem C11_sink_align : forall junk s al,
  sink_wf s -> growable s -> 0 < al -> 0 <= k_out s ->
  let r := sink_align junk s al None in
  let pad := (al - k_out s mod al) mod al in
  snd r = E_NONE /\
  sink_content (fst r) = sink_content s ++ repeat 0 (Z.to_nat pad) /\
  0 <= pad < al /\
  k_out (fst r) = k_out s + pad /\ k_in (fst r) = k_in s + pad /\
  k_out (fst r) mod al = 0 /\
  (forall k, 0 <= k -> (k_out s + k) mod al = 0 -> pad <= k).
Proof. exact sink_align_spec. Qed.
Print Assumptions C11_sink_align.

(* complete: AGAIN iff a partial array element is pending (then a no-op); otherwise the counters
   are reported and reset and nothing else changes; a file sink fails iff fflush fails *)
Theorem C11_sink_complete : forall s ff,
  let '(s', rc, rep) := sink_complete s ff in
  match k_dev s with
  | DBuf a =>
      (rc = E_AGAIN <-> k_bb s mod a_esz a <> 0) /\
      (rc = E_AGAIN -> s' = s /\ rep = None) /\
      (rc <> E_AGAIN -> rc = E_NONE /\ rep = Some (k_in s, k_out s) /\
                        s' = mkSink (k_dev s) (k_bb s) 0 0)
  | DFile _ _ =>
      (rc = E_FATAL <-> ff = true) /\
      (ff = true -> s' = s /\ rep = None) /\
      (ff = false -> rc = E_NONE /\ rep = Some (k_in s, k_out s) /\ s' = mkSink (k_dev s) (k_bb s) 0 0)
  end.
Proof. exact sink_complete_spec. Qed.
Print Assumptions C11_sink_complete.

(* view-backed sink (cannot grow): a write returns FATAL iff the rounded-up size exceeds the view;
   then nothing is copied and no counter moves; otherwise it behaves like any write; in both cases
   the viewed memory keeps its size and is untouched outside [buffer_bytes, buffer_bytes + len d) *)
Theorem C11_sink_write_view : forall junk s a d,
  sink_wf s -> view_sink s a -> d <> [] ->
  let nc := (k_bb s + len d + a_esz a - 1) / a_esz a in
  let r := sink_write junk s d None in
  (snd r = E_FATAL <-> nc * a_esz a > len (a_mem a)) /\
  (snd r <> E_FATAL -> snd r = E_NONE /\
      sink_content (fst r) = sink_content s ++ d /\ k_bb (fst r) = k_bb s + len d /\
      k_in (fst r) = k_in s + len d /\ k_out (fst r) = k_out s + len d) /\
  (snd r = E_FATAL ->
      k_bb (fst r) = k_bb s /\ k_in (fst r) = k_in s /\ k_out (fst r) = k_out s /\
      exists a', k_dev (fst r) = DBuf a' /\ a_mem a' = a_mem a /\ a_view a' = true /\ a_esz a' = a_esz a) /\
  (forall a', k_dev (fst r) = DBuf a' -> len (a_mem a') = len (a_mem a) /\
      drop (k_bb s + len d) (a_mem a') = drop (k_bb s + len d) (a_mem a) /\
      take (k_bb s) (a_mem a') = take (k_bb s) (a_mem a)) /\
  sink_wf (fst r) /\ (exists a', view_sink (fst r) a' /\ a_esz a' = a_esz a).
Proof. exact sink_write_view. Qed.
Print Assumptions C11_sink_write_view.

(* no operation sequence at all (faults included, views included) makes the model copy outside the
   backing array: the instrumentation code E_OOB never shows up *)
Theorem C11_sink_never_out_of_bounds : forall junk ops s, sink_wf s ->
  (forall o, In o (snd (sink_run junk s ops)) -> fst o <> E_OOB) /\ sink_wf (fst (sink_run junk s ops)).
Proof. exact sink_run_no_oob. Qed.
Print Assumptions C11_sink_never_out_of_bounds.

(* a short fwrite: FATAL, counters untouched, exactly the transferred bytes are in the file *)
Theorem C11_sink_write_fault : forall junk s nm f d k,
  k_dev s = DFile nm f -> 0 <= k < len d ->
  let r := sink_write junk s d (Some k) in
  snd r = E_FATAL /\ k_in (fst r) = k_in s /\ k_out (fst r) = k_out s /\
  sink_content (fst r) = f ++ take k d.
Proof. exact sink_write_file_fault. Qed.
Print Assumptions C11_sink_write_fault.

(* destroy turns a pending partial element (AGAIN) and any flush / close failure into FATAL *)
Theorem C11_sink_destroy : forall s ff cf,
  fst (sink_destroy s ff cf) =
  match k_dev s with
  | DBuf a => if k_bb s mod a_esz a =? 0 then E_NONE else E_FATAL
  | DFile true _ => if cf || ff then E_FATAL else E_NONE
  | DFile false _ => if ff then E_FATAL else E_NONE
  end.
Proof. exact sink_destroy_spec. Qed.
Print Assumptions C11_sink_destroy.

(* ===== sources ================================================================================= *)

(* Whatever way reads are sized (sizes >= 0, count pointer given): the pieces handed out,
   concatenated, are the stored bytes in order; every count is min (asked, left); the rest of each
   caller buffer keeps its sentinel (C11_source_read_step); counters add up. *)
Theorem C11_source_reads_in_order : forall junk sent (ns : list Z) (s : source),
  source_wf s -> eof_ok s -> Forall (fun n => 0 <= n) ns ->
  let '(s', outs) := source_run junk sent s (map (fun n => RRead n true true NoFault) ns) in
  concat (map delivered outs) = take (zsum ns) (source_rest s) /\
  source_rest s' = drop (zsum ns) (source_rest s) /\
  map o_rc outs = map (fun _ => E_NONE) ns /\
  map o_cnt outs = map Some (counts_spec (len (source_rest s)) ns) /\
  r_out s' = r_out s + Z.min (zsum ns) (len (source_rest s)) /\
  r_in s' = r_in s + Z.min (zsum ns) (len (source_rest s)) /\
  source_stored s' = source_stored s /\ source_wf s' /\ eof_ok s'.
Proof. exact source_reads_in_order. Qed.
Print Assumptions C11_source_reads_in_order.

Theorem C11_source_read_step : forall junk sent s n,
  source_wf s -> eof_ok s -> 0 <= n ->
  let k := next_k s n in
  let '(s', r) := source_step junk sent s (RRead n true true NoFault) in
  source_wf s' /\ eof_ok s' /\ source_stored s' = source_stored s /\
  o_rc r = E_NONE /\ o_cnt r = Some k /\
  o_data r = Some (take k (source_rest s) ++ repeat sent (Z.to_nat (n - k))) /\
  delivered r = take k (source_rest s) /\
  source_rest s' = drop k (source_rest s) /\
  r_in s' = r_in s + k /\ r_out s' = r_out s + k /\
  mirror_plus (r_mir s) (take k (source_rest s)) (r_mir s').
Proof. exact source_read_step. Qed.
Print Assumptions C11_source_read_step.

(* one read into a caller buffer with or without count pointer: a short count signals the end
   (count pointer) or FATAL is returned (no count pointer; also when the end has been registered
   by an earlier call: repair 103c295) *)
Theorem C11_source_read : forall junk s n u wc,
  source_wf s -> eof_ok s -> 0 <= n -> len u = n ->
  let k := next_k s n in
  let '(s', rc, cnt, data') := source_read junk s n (Some u) wc NoFault in
  data' = Some (take k (source_rest s) ++ drop k u) /\
  source_wf s' /\ eof_ok s' /\ source_stored s' = source_stored s /\
  mirror_plus (r_mir s) (take k (source_rest s)) (r_mir s') /\
  (k < n -> source_rest s' = []) /\
  ((wc = true \/ k = n) ->
     rc = E_NONE /\ cnt = (if wc then Some k else None) /\
     source_rest s' = drop k (source_rest s) /\
     r_in s' = r_in s + k /\ r_out s' = r_out s + k) /\
  ((wc = false /\ k < n) -> rc = E_FATAL /\ cnt = None /\ r_in s' = r_in s /\ r_out s' = r_out s).
Proof. exact source_read_data. Qed.
Print Assumptions C11_source_read.

(* Exact reads (bytes_out == NULL).  Documented: "Returns an error if bytes_out is NULL and less
   than bytes_avail are read."  The full-strength statement, for every source state - also after
   the end has been registered by an earlier call (finding F-C11b, repaired in /repo by 103c295): *)
Theorem C11_source_read_exact : forall junk s n u,
  source_wf s -> eof_ok s -> 0 <= n -> len u = n ->
  let '(s', rc, cnt, data') := source_read junk s n (Some u) false NoFault in
  cnt = None /\
  (n <= len (source_rest s) ->
     rc = E_NONE /\ data' = Some (take n (source_rest s)) /\ source_rest s' = drop n (source_rest s) /\
     r_in s' = r_in s + n /\ r_out s' = r_out s + n) /\
  (len (source_rest s) < n -> rc = E_FATAL /\ r_in s' = r_in s /\ r_out s' = r_out s).
Proof. exact source_read_exact. Qed.
Print Assumptions C11_source_read_exact.

(* once the end is registered, an exact request of n > 0 bytes (with or without data pointer, whatever
   the stream would do) is refused and the source, the caller's buffer and *bytes_out are left alone *)
Theorem C11_source_read_exact_at_eof : forall junk s n data flt,
  r_eof s = true -> 0 < n ->
  source_read junk s n data false flt = (s, E_FATAL, None, data).
Proof. exact source_read_exact_at_eof. Qed.
Print Assumptions C11_source_read_exact_at_eof.

(* Regression guard: with the early return as it was before 103c295 (`source_read_old`: success
   whenever nothing is asked or the end is registered) the statement C11_source_read_exact is false -
   after a counted read has returned 0 at the end, an exact read of n > 0 bytes returns success and
   leaves the caller's buffer untouched, where the repaired function returns FATAL.  The two functions
   differ in exactly this case. *)
Theorem C11_source_read_exact_old_refuted :
  exists s n u, source_wf s /\ eof_ok s /\ 0 < n /\ len u = n /\ len (source_rest s) < n /\
    (let '(_, rc, _, data') := source_read_old (fun _ => 0) s n (Some u) false NoFault in
     rc = E_NONE /\ data' = Some u) /\
    (let '(s', rc, _, data') := source_read (fun _ => 0) s n (Some u) false NoFault in
     rc = E_FATAL /\ data' = Some u /\ s' = s).
Proof. exact source_read_exact_old_refuted. Qed.
Print Assumptions C11_source_read_exact_old_refuted.

Theorem C11_source_read_old_differs : forall junk s n data wc flt,
  source_read_old junk s n data wc flt <> source_read junk s n data wc flt <->
  (r_eof s = true /\ wc = false /\ 0 < n).
Proof. exact source_read_old_differs. Qed.
Print Assumptions C11_source_read_old_differs.

(* NULL data skips: an array source skips min (n, left) bytes with the same end signalling ... *)
Theorem C11_source_skip_buffer : forall junk s a n wc,
  r_dev s = RBuf a -> source_wf s -> eof_ok s -> 0 <= n ->
  let k := next_k s n in
  let '(s', rc, cnt, data') := source_read junk s n None wc NoFault in
  data' = None /\ source_wf s' /\ eof_ok s' /\ source_stored s' = source_stored s /\
  (k < n -> source_rest s' = []) /\
  ((wc = true \/ k = n) ->
     rc = E_NONE /\ cnt = (if wc then Some k else None) /\
     source_rest s' = drop k (source_rest s) /\
     r_in s' = r_in s + k /\ r_out s' = r_out s + k) /\
  ((wc = false /\ k < n) -> rc = E_FATAL /\ cnt = None /\ r_in s' = r_in s /\ r_out s' = r_out s).
Proof. exact source_skip_buffer. Qed.
Print Assumptions C11_source_skip_buffer.

(* ... a file source seeks n bytes forward without looking for the end (as the code documents:
   "seek now and check for potential end of file next time"); the mirror is not written.  Once the
   end has been registered the call leaves the source alone: a counted skip reports 0, an exact skip
   of n > 0 bytes is FATAL. *)
Theorem C11_source_skip_file : forall junk s nm f pos n wc,
  r_dev s = RFile nm f pos -> source_wf s -> eof_ok s -> 0 <= n ->
  let '(s', rc, cnt, data') := source_read junk s n None wc NoFault in
  data' = None /\ source_wf s' /\ eof_ok s' /\ source_stored s' = source_stored s /\ r_mir s' = r_mir s /\
  rc = (if r_eof s && negb wc && (0 <? n) then E_FATAL else E_NONE) /\
  let k := if r_eof s then 0 else n in
  cnt = (if wc then Some k else None) /\
  source_rest s' = drop k (source_rest s) /\ source_pos s' = source_pos s + k /\
  r_in s' = r_in s + k /\ r_out s' = r_out s + k /\
  (r_eof s = true -> s' = s).
Proof. exact source_skip_file. Qed.
Print Assumptions C11_source_skip_file.

(* align skips exactly (a - out mod a) mod a bytes; once the end has been registered, an align that
   needs padding is FATAL and leaves the source as it is *)
Theorem C11_source_align_file : forall junk s nm f pos al,
  r_dev s = RFile nm f pos -> source_wf s -> eof_ok s -> 0 < al -> 0 <= r_out s ->
  let pad := (al - r_out s mod al) mod al in
  let '(s', rc) := source_align junk s al NoFault in
  0 <= pad < al /\
  ((r_eof s = false \/ pad = 0) ->
     rc = E_NONE /\ source_pos s' = source_pos s + pad /\
     source_rest s' = drop pad (source_rest s) /\
     r_out s' = r_out s + pad /\ r_in s' = r_in s + pad /\ r_out s' mod al = 0) /\
  ((r_eof s = true /\ 0 < pad) -> rc = E_FATAL /\ s' = s) /\
  source_wf s' /\ eof_ok s' /\ r_mir s' = r_mir s.
Proof. exact source_align_file. Qed.
Print Assumptions C11_source_align_file.

(* an array source: success iff the padding is there (after the registered end: iff none is needed) *)
Theorem C11_source_align_buffer : forall junk s a al,
  r_dev s = RBuf a -> source_wf s -> eof_ok s -> 0 < al -> 0 <= r_out s ->
  let pad := (al - r_out s mod al) mod al in
  let '(s', rc) := source_align junk s al NoFault in
  0 <= pad < al /\
  (pad <= len (source_rest s) ->
     rc = E_NONE /\ source_rest s' = drop pad (source_rest s) /\
     r_out s' = r_out s + pad /\ r_in s' = r_in s + pad /\ r_out s' mod al = 0) /\
  (len (source_rest s) < pad -> rc = E_FATAL /\ r_out s' = r_out s /\ r_in s' = r_in s) /\
  source_wf s' /\ eof_ok s'.
Proof. exact source_align_buffer. Qed.
Print Assumptions C11_source_align_buffer.

(* complete: AGAIN iff an array source stands inside an element; otherwise counters reported/reset *)
Theorem C11_source_complete : forall s,
  source_wf s ->
  let '(s', rc, rep) := source_complete s in
  match r_dev s with
  | RBuf a => (rc = E_AGAIN <-> r_bb s mod a_esz a <> 0) /\
              (rc = E_AGAIN -> s' = s /\ rep = None)
  | RFile _ _ _ => rc = E_NONE
  end /\
  (rc <> E_AGAIN -> rc = E_NONE /\ rep = Some (r_in s, r_out s) /\ r_in s' = 0 /\ r_out s' = 0 /\
                    source_rest s' = source_rest s /\ r_eof s' = r_eof s /\
                    mirror_content s' = mirror_content s /\ source_wf s').
Proof. exact source_complete_spec. Qed.
Print Assumptions C11_source_complete.

(* the mirror holds exactly what the reads handed out, over every interleaving of reads, skips,
   aligns, completes and mirror reads ... *)
Theorem C11_mirror_replays : forall junk sent ops s m,
  source_wf s -> eof_ok s -> is_file s -> 0 <= r_out s -> mirror_content s = Some m ->
  forallb mirror_ok_op ops = true -> Forall nonneg_op ops ->
  let '(s', outs) := source_run junk sent s ops in
  mirror_content s' = Some (m ++ delivered_all ops outs).
Proof. exact mirror_replays. Qed.
Print Assumptions C11_mirror_replays.

(* ... and reading it replays it from the start (error reported as 1: the C code combines with ||) *)
Theorem C11_mirror_read : forall junk s m n u wc,
  source_wf s -> mirror_content s = Some m -> 0 <= n -> len u = n ->
  let k := Z.min n (len m) in
  source_read_mirror junk s n (Some u) wc =
  (if wc || (n <=? len m) then 0 else 1, if wc || (n <=? len m) then (if wc then Some k else None) else None,
   Some (take k m ++ drop k u)).
Proof. exact source_read_mirror_spec. Qed.
Print Assumptions C11_mirror_read.

Theorem C11_mirror_activate : forall junk s,
  source_wf s -> is_file s -> r_mir s = None ->
  let '(s', rc) := source_activate_mirror junk s in
  rc = E_NONE /\ mirror_content s' = Some [] /\ source_wf s' /\ is_file s' /\
  source_rest s' = source_rest s /\ r_eof s' = r_eof s /\ r_out s' = r_out s /\ r_in s' = r_in s.
Proof. exact source_activate_mirror_spec. Qed.
Print Assumptions C11_mirror_activate.

(* stdio faults and side effects *)
Theorem C11_source_read_fault : forall junk s nm f pos n u wc k e r,
  r_dev s = RFile nm f pos -> r_eof s = false -> 0 <= k < n -> (e = false \/ r = true) ->
  let '(s', rc, cnt, _) := source_read junk s n (Some u) wc (ShortRead k e r) in
  rc = E_FATAL /\ cnt = None /\ r_in s' = r_in s /\ r_out s' = r_out s /\ r_mir s' = r_mir s.
Proof. exact source_read_file_error. Qed.
Print Assumptions C11_source_read_fault.

Theorem C11_source_shrunk_buffer : forall junk s a n data,
  r_dev s = RBuf a -> r_eof s = false -> 0 < n -> a_cnt a * a_esz a < r_bb s ->
  let '(s', rc, cnt, data') := source_read junk s n data true NoFault in
  rc = E_NONE /\ cnt = Some 0 /\ data' = data /\ r_eof s' = true /\ r_bb s' = r_bb s.
Proof. exact source_read_shrunk. Qed.
Print Assumptions C11_source_shrunk_buffer.

(* ===== save / load ============================================================================== *)
(* load (save a) = a for every byte array, every previous content of the target buffer and every
   junk, with the 16384-byte window loop of sc_io_file_load (fuel = any bound on the iterations) *)
Theorem C11_file_load_save : forall junk a b fuel,
  a_view b = false -> a_esz b = 1 -> len (a_mem b) = a_cnt b ->
  let c := take (a_cnt a) (a_mem a) in
  len c < Z.of_nat fuel * bwins ->
  file_save junk a true None false false = (0, Some c) /\
  file_load junk fuel (Some c) b [] false = Some (0, mkArr 1 (len c) false c).
Proof. exact file_load_save. Qed.
Print Assumptions C11_file_load_save.

(* the window loop for EVERY window size w > 0 *)
Theorem C11_load_loop : forall junk w, 0 < w -> forall fuel f src b bpos,
  load_inv f src b bpos -> len f - bpos < Z.of_nat fuel * w ->
  load_loop junk w fuel src b bpos [] false = Some (0, mkArr 1 (len f) false f).
Proof. exact load_loop_spec. Qed.
Print Assumptions C11_load_loop.

(* ===== the hypotheses are satisfiable by non-trivial states ==================================== *)
Example C11_ex_sink : let a := mkArr 3 2 false [1;2;3;4;5;6] in
  arr_wf a /\ a_view a = false /\
  sink_content (fst (sink_run (fun _ => 170) (sink_new_buffer (fun _ => 170) true a)
                              [SWrite [7] None; SAlign 4 None; SWrite [8;9] None; SComplete false; SWrite [10;11] None; SComplete false]))
  = [1;2;3;4;5;6;7;0;0;0;8;9;10;11] /\
  map fst (snd (sink_run (fun _ => 170) (sink_new_buffer (fun _ => 170) true a)
                              [SWrite [7] None; SAlign 4 None; SWrite [8;9] None; SComplete false; SWrite [10;11] None; SComplete false]))
  = [0; 0; 0; 0; 0; -2].
Proof. unfold arr_wf. vm_compute. repeat split; try reflexivity; intros; discriminate. Qed.

Example C11_ex_view : let a := mkArr 2 1 true [1;2;238;238;238;238] in
  let s := sink_new_buffer (fun _ => 170) true a in
  sink_wf s /\ view_sink s a /\
  snd (sink_write (fun _ => 170) s [5;6;7;8] None) = E_NONE /\
  snd (sink_write (fun _ => 170) s [5;6;7;8;9] None) = E_FATAL.
Proof. unfold sink_wf, view_sink. vm_compute. repeat split; try reflexivity; intros; discriminate. Qed.

Example C11_ex_source : let s := source_new_filefile [1;2;3;4;5] 1 in
  source_wf s /\ eof_ok s /\ is_file s /\
  map o_cnt (snd (source_run (fun _ => 0) 238 s [RMirrorOn; RRead 2 true true NoFault; RAlign 4 NoFault; RRead 3 true true NoFault; RMirrorRead 8 true true]))
  = [None; Some 2; None; Some 0; Some 2].
Proof. unfold source_wf, eof_ok, is_file, mirror_wf. vm_compute. repeat split; try reflexivity; try discriminate. Qed.

(* ===== tie T1: the model computes what the definitions GENERATED from /repo/src/sc_io.c compute ============================== *)
(* Gen/IoC11.v is regenerated from the working tree on every run (tools/c2g/groups_C11.py); an edit of the arithmetic in
   sc_io.c changes a generated definition and the statements below stop checking.  BIG = 2^62 bounds every byte count. *)

(* sc_io_sink_write: the generated new_count is the model's ceil ((buffer_bytes + bytes_avail) / elem_size) *)
Theorem C11_gen_sink_new_count : forall esz bb n, 0 < esz -> 0 <= bb -> 0 <= n -> bb + n + esz < BIG ->
  sink_new_count esz bb n = (bb + n + esz - 1) / esz.
Proof. exact gen_sink_new_count. Qed.
Print Assumptions C11_gen_sink_new_count.

(* ... the least number of whole elements that holds the bytes, stated of the GENERATED definition *)
Theorem C11_gen_sink_new_count_ceil : forall esz bb n, 0 < esz -> 0 <= bb -> 0 <= n -> bb + n + esz < BIG ->
  let c := sink_new_count esz bb n in (c - 1) * esz < bb + n <= c * esz.
Proof. exact gen_sink_new_count_ceil. Qed.
Print Assumptions C11_gen_sink_new_count_ceil.

(* the unconditional size check of sc_io_sink_write on a view (byte_alloc = -(capacity + 1)) is the model's arr_fits *)
Theorem C11_gen_sink_view_check_view : forall a, a_view a = true -> 0 <= a_cnt a * a_esz a < BIG -> len (a_mem a) < BIG ->
  sink_view_check (a_cnt a) (a_esz a) (- (len (a_mem a) + 1)) = negb (arr_fits a).
Proof. exact gen_sink_view_check_view. Qed.
Print Assumptions C11_gen_sink_view_check_view.

(* ... and on an owner (byte_alloc >= elem_count * elem_size after sc_array_resize) it never fires, as in the model *)
Theorem C11_gen_sink_view_check_owner : forall a ba, a_view a = false -> 0 <= a_cnt a * a_esz a <= ba -> ba < BIG ->
  sink_view_check (a_cnt a) (a_esz a) ba = negb (arr_fits a).
Proof. exact gen_sink_view_check_owner. Qed.
Print Assumptions C11_gen_sink_view_check_owner.

(* the model's sc_io_sink_write on a buffer sink written with the generated new_count / buffer_bytes / counters *)
Theorem C11_gen_sink_write_buffer : forall junk s a d flt, k_dev s = DBuf a -> 0 < a_esz a -> 0 <= k_bb s -> 0 <= k_in s -> 0 <= k_out s ->
  k_bb s + len d + a_esz a < BIG -> k_in s + len d < BIG -> k_out s + len d < BIG ->
  sink_write junk s d flt =
  let n := len d in
  if n =? 0 then (s, E_NONE) else
  let nc := sink_new_count (a_esz a) (k_bb s) n in
  let a' := arr_resize junk a nc in
  if negb (arr_fits a') then (mkSink (DBuf a') (k_bb s) (k_in s) (k_out s), E_FATAL)
  else match put (k_bb s) d (a_mem a') with
       | None => (mkSink (DBuf a') (k_bb s) (k_in s) (k_out s), E_OOB)
       | Some m => let '(bb', bo) := sink_buffer_advance (k_bb s) n in
                   let '(i', o') := sink_counters (k_in s) n (k_out s) bo in
                   (mkSink (DBuf (mkArr (a_esz a) (a_cnt a') (a_view a') m)) bb' i' o', E_NONE)
       end.
Proof. exact gen_sink_write_buffer. Qed.
Print Assumptions C11_gen_sink_write_buffer.

(* sc_io_sink_complete returns AGAIN exactly when the generated test says so *)
Theorem C11_gen_sink_complete_buffer : forall s a ff, k_dev s = DBuf a ->
  sink_complete s ff = if sink_again (k_bb s) (a_esz a) then (s, E_AGAIN, None)
                       else (mkSink (k_dev s) (k_bb s) 0 0, E_NONE, Some (k_in s, k_out s)).
Proof. exact gen_sink_complete_buffer. Qed.
Print Assumptions C11_gen_sink_complete_buffer.

(* sc_io_source_complete returns AGAIN exactly when the generated test says so *)
Theorem C11_gen_source_complete_buffer : forall s a, r_dev s = RBuf a ->
  source_complete s = if source_again (r_bb s) (a_esz a) then (s, E_AGAIN, None)
                      else (mkSrc (r_dev s) (r_bb s) 0 0 (r_eof s) (r_mir s), E_NONE, Some (r_in s, r_out s)).
Proof. exact gen_source_complete_buffer. Qed.
Print Assumptions C11_gen_source_complete_buffer.

(* sc_io_sink_align: the generated fill is the model's (align - out mod align) mod align *)
Theorem C11_gen_sink_align_fill : forall al out, 0 < al < BIG -> sink_align_fill al out = align_fill out al.
Proof. exact gen_sink_align_fill. Qed.
Print Assumptions C11_gen_sink_align_fill.

(* sc_io_source_align: the same *)
Theorem C11_gen_source_align_fill : forall al out, 0 < al < BIG -> source_align_fill al out = align_fill out al.
Proof. exact gen_source_align_fill. Qed.
Print Assumptions C11_gen_source_align_fill.

(* the model's sc_io_sink_align writes the generated number of zero bytes *)
Theorem C11_gen_sink_align : forall junk s al flt, 0 < al < BIG ->
  sink_align junk s al flt = sink_write junk s (zeros (sink_align_request (sink_align_fill al (k_out s)))) flt.
Proof. exact gen_sink_align. Qed.
Print Assumptions C11_gen_sink_align.

(* the model's sc_io_source_align skips the generated number of bytes *)
Theorem C11_gen_source_align : forall junk s al flt, 0 < al < BIG ->
  source_align junk s al flt =
  let '(s', rc, _, _) := source_read junk s (source_align_request (source_align_fill al (r_out s))) None false flt in (s', rc).
Proof. exact gen_source_align. Qed.
Print Assumptions C11_gen_source_align.

(* sc_io_source_read: bytes still available in the buffer (0 if it has shrunk below the read position) *)
Theorem C11_gen_source_avail : forall cnt esz bb, 0 <= cnt * esz < BIG -> 0 <= bb < BIG ->
  source_avail cnt esz bb = (let total := cnt * esz in if total <? bb then 0 else total - bb).
Proof. exact gen_source_avail. Qed.
Print Assumptions C11_gen_source_avail.

(* sc_io_source_read: SC_MIN (available, requested) *)
Theorem C11_gen_source_take : forall avail n, source_take avail n = Z.min avail n.
Proof. exact gen_source_take. Qed.
Print Assumptions C11_gen_source_take.

(* sc_io_source_read: the exact-request test bytes_out == NULL && bbytes_out < bytes_avail *)
Theorem C11_gen_source_short : forall (wc : bool) p k n, p <> 0 -> source_short (if wc then p else 0) k n = negb wc && (k <? n).
Proof. exact gen_source_short. Qed.
Print Assumptions C11_gen_source_short.

(* the tail of the model's sc_io_source_read written with the generated test and counters *)
Theorem C11_gen_read_finish : forall s n wc retval k data p, p <> 0 -> 0 <= r_in s -> 0 <= r_out s -> 0 <= k -> r_in s + k < BIG -> r_out s + k < BIG ->
  read_finish s n wc retval k data =
  if retval then (s, E_FATAL, None, data)
  else if source_short (if wc then p else 0) k n then (s, E_FATAL, None, data)
  else let '(i', o') := source_counters (r_in s) k (r_out s) in
       (mkSrc (r_dev s) (r_bb s) i' o' (r_eof s) (r_mir s), E_NONE, if wc then Some k else None, data).
Proof. exact gen_read_finish. Qed.
Print Assumptions C11_gen_read_finish.

(* the model's sc_io_source_read on a buffer source written with the generated available / taken counts *)
Theorem C11_gen_source_read_buffer : forall junk s a n data wc flt, r_dev s = RBuf a -> 0 <= a_cnt a * a_esz a < BIG -> 0 <= r_bb s < BIG ->
  source_read junk s n data wc flt =
  if (n =? 0) || r_eof s then
    (if wc then (s, E_NONE, Some 0, data) else if 0 <? n then (s, E_FATAL, None, data) else (s, E_NONE, None, data))
  else
    let avail := source_avail (a_cnt a) (a_esz a) (r_bb s) in
    if avail =? 0 then read_finish (mkSrc (r_dev s) (r_bb s) (r_in s) (r_out s) true (r_mir s)) n wc false 0 data
    else let k := source_take avail n in
         let data' := match data with Some u => Some (take k (drop (r_bb s) (a_mem a)) ++ drop k u) | None => None end in
         read_finish (mkSrc (r_dev s) (r_bb s + k) (r_in s) (r_out s) (r_eof s) (r_mir s)) n wc false k data'.
Proof. exact gen_source_read_buffer. Qed.
Print Assumptions C11_gen_source_read_buffer.

(* sc_io_file_load: the window size *)
Theorem C11_gen_load_bwins : bwins = load_bwins.
Proof. exact gen_load_bwins. Qed.
Print Assumptions C11_gen_load_bwins.

(* sc_io_file_load: start, room made, bytes requested, target position, end-of-file test, final size, next position *)
Theorem C11_gen_load_window : forall bpos bout, 0 <= bpos -> 0 <= bout -> bpos + bwins < BIG -> bpos + bout < BIG ->
  load_start = 0 /\ load_room bpos load_bwins = bpos + bwins /\ load_request load_bwins = bwins /\ load_target bpos = bpos /\
  load_last bout load_bwins = (bout <? bwins) /\ load_final bpos bout = bpos + bout /\ load_next bpos load_bwins = bpos + bwins.
Proof. exact gen_load_window. Qed.
Print Assumptions C11_gen_load_window.

(* the model's sc_io_file_load runs its loop with the generated window from the generated start *)
Theorem C11_gen_file_load_start : forall junk fuel c b flts cf, file_load junk fuel (Some c) b flts cf =
  match source_new_filename true c with
  | Some src => load_loop junk load_bwins fuel src b load_start flts cf
  | None => Some (-1, b)
  end.
Proof. exact gen_file_load_start. Qed.
Print Assumptions C11_gen_file_load_start.

(* ===== T1, whole bodies (coq/C11/IoWhole.v) =================================================================
   Every function of the sinks and sources is translated as a whole (Gen/IoC11.v: io_<function>, calls as effects,
   struct fields as locations); rd_<function> READS the generated outputs (which array operation a call is, which object
   it goes to - E_WRONG otherwise -, the counters afterwards) and each theorem says: that reading IS the model's function,
   for every state and argument (sizes below BIG = 2^62). *)
From ScV Require Import C11.IoWhole.

Theorem C11_gen_whole_sink_new_buffer : forall junk (append : bool) a enc bufp objp szof v2 v3 fo fe,
  objp <> 0 -> 0 <= a_cnt a * a_esz a < BIG ->
  rd_sink_new_buffer junk a bufp objp
    (io_sink_new io_SC_IO_TYPE_BUFFER (mode_of append) enc bufp v2 v3 (a_cnt a) (a_esz a) szof objp fo fe)
  = (Some (sink_new_buffer junk append a), io_SC_IO_TYPE_BUFFER).
Proof. exact whole_sink_new_buffer. Qed.
Print Assumptions C11_gen_whole_sink_new_buffer.

Theorem C11_gen_whole_sink_new_filename : forall (open_ok append : bool) old enc namep filep objp szof v1 v3 c e fe,
  objp <> 0 -> filep <> 0 ->
  rd_sink_new_file true filep namep objp old
    (io_sink_new io_SC_IO_TYPE_FILENAME (mode_of append) enc v1 namep v3 c e szof objp (if open_ok then filep else 0) fe)
  = (sink_new_filename open_ok append old, if open_ok then io_SC_IO_TYPE_FILENAME else 0).
Proof. exact whole_sink_new_filename. Qed.
Print Assumptions C11_gen_whole_sink_new_filename.

Theorem C11_gen_whole_sink_new_filefile : forall (bad : bool) mode f enc filep objp szof v1 v2 c e fo,
  objp <> 0 -> filep <> 0 ->
  rd_sink_new_file false filep filep objp f
    (io_sink_new io_SC_IO_TYPE_FILEFILE mode enc v1 v2 filep c e szof objp fo (if bad then 1 else 0))
  = (if bad then None else Some (sink_new_filefile f), if bad then 0 else io_SC_IO_TYPE_FILEFILE).
Proof. exact whole_sink_new_filefile. Qed.
Print Assumptions C11_gen_whole_sink_new_filefile.

Theorem C11_gen_whole_sink_write_buffer : forall junk s a d flt bufp base dptr filep fwr ba,
  k_dev s = DBuf a -> 0 < a_esz a -> 0 <= k_bb s -> 0 <= k_in s -> 0 <= k_out s ->
  k_bb s + len d + a_esz a < BIG -> k_in s + len d < BIG -> k_out s + len d < BIG ->
  byte_alloc_of (arr_resize junk a ((k_bb s + len d + a_esz a - 1) / a_esz a)) ba ->
  rd_sink_write_buffer junk s a bufp base dptr d
    (io_sink_write io_SC_IO_TYPE_BUFFER bufp (a_esz a) ba base (k_bb s) (k_in s) (k_out s) filep dptr (len d) fwr)
  = sink_write junk s d flt.
Proof. exact whole_sink_write_buffer. Qed.
Print Assumptions C11_gen_whole_sink_write_buffer.

Theorem C11_gen_whole_sink_write_file : forall junk s nm f d flt bufp esz ba base filep dptr,
  k_dev s = DFile nm f -> 0 <= k_in s -> 0 <= k_out s -> k_in s + len d < BIG -> k_out s + len d < BIG ->
  rd_sink_write_file nm f filep dptr d (fwrite_result (len d) flt)
    (io_sink_write (iotype_of_sdev (k_dev s)) bufp esz ba base (k_bb s) (k_in s) (k_out s) filep dptr (len d) (fwrite_result (len d) flt))
  = sink_write junk s d flt.
Proof. exact whole_sink_write_file. Qed.
Print Assumptions C11_gen_whole_sink_write_file.

Theorem C11_gen_whole_sink_complete : forall s (ff : bool) (w1 w2 : bool) p1 p2 u1 u2 filep esz,
  p1 <> 0 -> p2 <> 0 ->
  esz = match k_dev s with DBuf a => a_esz a | _ => esz end ->
  rd_sink_complete s filep
    (io_sink_complete (iotype_of_sdev (k_dev s)) esz (k_bb s) (k_in s) (k_out s) filep (ptr_of w1 p1) (ptr_of w2 p2) u1 u2 (if ff then -1 else 0))
  = (let '(s', rc, rep) := sink_complete s ff in (s', rc, stored2 rep w1 w2 u1 u2)).
Proof. exact whole_sink_complete. Qed.
Print Assumptions C11_gen_whole_sink_complete.

Theorem C11_gen_whole_sink_align : forall junk s al flt sinkp blk,
  0 < al < BIG ->
  forall wret, wret = snd (sink_write junk s (zeros (align_fill (k_out s) al)) flt) ->
  match rd_sink_align sinkp blk (io_sink_align sinkp (k_out s) al blk wret) with
  | Some (n, rc) => sink_align junk s al flt = (fst (sink_write junk s (zeros n) flt), rc)
  | None => False
  end.
Proof. exact whole_sink_align. Qed.
Print Assumptions C11_gen_whole_sink_align.

Theorem C11_gen_whole_sink_destroy : forall s (ff cf : bool) sinkp filep,
  rd_sink_destroy sinkp filep (match k_dev s with DFile true _ => true | _ => false end)
    (io_sink_destroy sinkp (iotype_of_sdev (k_dev s)) filep (snd (fst (sink_complete s ff))) (if cf then -1 else 0))
  = fst (sink_destroy s ff cf).
Proof. exact whole_sink_destroy. Qed.
Print Assumptions C11_gen_whole_sink_destroy.

Theorem C11_gen_whole_sink_destroy_null : forall p dret,
  rd_destroy_null p (io_sink_destroy_null p dret) = (if p =? 0 then 0 else dret, 0).
Proof. exact whole_sink_destroy_null. Qed.
Print Assumptions C11_gen_whole_sink_destroy_null.

Theorem C11_gen_whole_source_new_buffer : forall a enc bufp objp szof v2 v3 fo fe,
  objp <> 0 ->
  rd_source_new 0 a [] 0 bufp objp (io_source_new io_SC_IO_TYPE_BUFFER enc bufp v2 v3 szof objp fo fe)
  = (Some (source_new_buffer a), io_SC_IO_TYPE_BUFFER).
Proof. exact whole_source_new_buffer. Qed.
Print Assumptions C11_gen_whole_source_new_buffer.

Theorem C11_gen_whole_source_new_filename : forall (open_ok : bool) f enc namep filep objp szof v1 v3 fe,
  objp <> 0 -> filep <> 0 ->
  rd_source_new 1 (mkArr 1 0 false []) f 0 namep objp
    (io_source_new io_SC_IO_TYPE_FILENAME enc v1 namep v3 szof objp (if open_ok then filep else 0) fe)
  = (source_new_filename open_ok f, if open_ok then io_SC_IO_TYPE_FILENAME else 0).
Proof. exact whole_source_new_filename. Qed.
Print Assumptions C11_gen_whole_source_new_filename.

Theorem C11_gen_whole_source_new_filefile : forall (bad : bool) f pos enc filep objp szof v1 v2 fo,
  objp <> 0 -> filep <> 0 ->
  rd_source_new 2 (mkArr 1 0 false []) f pos filep objp
    (io_source_new io_SC_IO_TYPE_FILEFILE enc v1 v2 filep szof objp fo (if bad then 1 else 0))
  = (if bad then None else Some (source_new_filefile f pos), if bad then 0 else io_SC_IO_TYPE_FILEFILE).
Proof. exact whole_source_new_filefile. Qed.
Print Assumptions C11_gen_whole_source_new_filefile.

Theorem C11_gen_whole_source_read_buffer : forall junk s a n data (wc : bool) flt base p cp u filep mirp fr fe er wr sk,
  p <> 0 -> cp <> 0 ->
  r_dev s = RBuf a -> 0 <= a_cnt a * a_esz a < BIG -> 0 <= r_bb s < BIG -> 0 <= n < BIG ->
  0 <= r_in s -> 0 <= r_out s -> r_in s + n < BIG -> r_out s + n < BIG ->
  rd_source_read_buffer s a base (dptr_of data p) data
    (io_source_read io_SC_IO_TYPE_BUFFER (a_cnt a) (a_esz a) base (r_bb s) (r_in s) (r_out s) (eof_of (r_eof s)) filep mirp
                    (dptr_of data p) n (ptr_of wc cp) u fr fe er wr sk)
  = (let '(s', rc, cnt, data') := source_read junk s n data wc flt in (s', rc, stored1 cnt u, data')).
Proof. exact whole_source_read_buffer. Qed.
Print Assumptions C11_gen_whole_source_read_buffer.

Theorem C11_gen_whole_source_read_file : forall junk s nm f pos n data (wc : bool) flt p cp u filep mirp cnt esz base,
  p <> 0 -> cp <> 0 -> mirp <> 0 ->
  r_dev s = RFile nm f pos -> 0 <= pos -> 0 <= n < BIG -> 0 <= r_in s -> 0 <= r_out s -> r_in s + n < BIG -> r_out s + n < BIG ->
  let '(k, eofi, erri) := fread_result f pos n flt in
  rd_source_read_file junk s nm f pos filep mirp (dptr_of data p) data k (fseek_result flt)
    (io_source_read (iotype_of_rdev (r_dev s)) cnt esz base (r_bb s) (r_in s) (r_out s) (eof_of (r_eof s)) filep (mirror_ptr (r_mir s) mirp)
                    (dptr_of data p) n (ptr_of wc cp) u k (eof_of eofi) (eof_of erri)
                    (mirror_write_ret junk (r_mir s) (take k (drop pos f))) (fseek_result flt))
  = (let '(s', rc, c, data') := source_read junk s n data wc flt in (s', rc, stored1 c u, data')).
Proof. exact whole_source_read_file. Qed.
Print Assumptions C11_gen_whole_source_read_file.

Theorem C11_gen_whole_source_complete : forall s (w1 w2 : bool) p1 p2 u1 u2 mirp esz,
  p1 <> 0 -> p2 <> 0 -> mirp <> 0 ->
  esz = match r_dev s with RBuf a => a_esz a | _ => esz end ->
  (match r_dev s with RBuf _ => r_mir s = None | _ => True end) ->
  rd_source_complete s mirp
    (io_source_complete (iotype_of_rdev (r_dev s)) esz (r_bb s) (r_in s) (r_out s) (mirror_ptr (r_mir s) mirp) (ptr_of w1 p1) (ptr_of w2 p2) u1 u2
                        (mirror_complete_ret (r_mir s)))
  = (let '(s', rc, rep) := source_complete s in
     (* after AGAIN nothing has been touched *)
     (s', rc, stored2 rep w1 w2 u1 u2)).
Proof. exact whole_source_complete. Qed.
Print Assumptions C11_gen_whole_source_complete.

Theorem C11_gen_whole_source_align : forall junk s al flt srcp,
  0 < al < BIG ->
  forall rret, rret = snd (fst (fst (source_read junk s (align_fill (r_out s) al) None false flt))) ->
  match rd_source_align srcp (io_source_align srcp (r_out s) al rret) with
  | Some (n, rc) => source_align junk s al flt = (fst (fst (fst (source_read junk s n None false flt))), rc)
  | None => False
  end.
Proof. exact whole_source_align. Qed.
Print Assumptions C11_gen_whole_source_align.

Theorem C11_gen_whole_source_activate_mirror : forall junk s arrp sinkp mirp mbp,
  arrp <> 0 -> sinkp <> 0 -> mirp <> 0 ->
  rd_activate_mirror junk s arrp sinkp
    (io_source_activate_mirror (iotype_of_rdev (r_dev s)) mbp (mirror_ptr (r_mir s) mirp) arrp sinkp)
  = source_activate_mirror junk s.
Proof. exact whole_source_activate_mirror. Qed.
Print Assumptions C11_gen_whole_source_activate_mirror.

Theorem C11_gen_whole_source_read_mirror : forall junk s n data (wc : bool) mbp srcp p cp,
  mbp <> 0 -> srcp <> 0 ->
  (forall ms, r_mir s = Some ms -> exists a, k_dev ms = DBuf a) ->
  let inner := match r_mir s with
               | Some ms => match k_dev ms with DBuf a => source_read junk (source_new_buffer a) n data wc NoFault | _ => (source_new_buffer (mkArr 1 0 false []), 0, None, data) end
               | None => (source_new_buffer (mkArr 1 0 false []), 0, None, data)
               end in
  rd_read_mirror mbp srcp (dptr_of data p) n (ptr_of wc cp)
    (io_source_read_mirror (match r_mir s with Some _ => mbp | None => 0 end) (dptr_of data p) n (ptr_of wc cp) srcp
                           (snd (fst (fst inner))) (source_destroy (fst (fst (fst inner))) false))
  = fst (fst (source_read_mirror junk s n data wc)).
Proof. exact whole_source_read_mirror. Qed.
Print Assumptions C11_gen_whole_source_read_mirror.

Theorem C11_gen_whole_source_destroy : forall s (cf : bool) srcp filep mirp mbp,
  mirp <> 0 ->
  rd_source_destroy srcp filep mirp mbp (match r_dev s with RFile true _ _ => true | _ => false end) (match r_mir s with Some _ => true | None => false end)
    (io_source_destroy srcp (iotype_of_rdev (r_dev s)) filep (mirror_ptr (r_mir s) mirp) mbp (snd (fst (source_complete s)))
                       (match r_mir s with Some ms => fst (sink_destroy ms false false) | None => 0 end) (if cf then -1 else 0))
  = source_destroy s cf.
Proof. exact whole_source_destroy. Qed.
Print Assumptions C11_gen_whole_source_destroy.

Theorem C11_gen_whole_source_destroy_null : forall p dret,
  rd_destroy_null p (io_source_destroy_null p dret) = (if p =? 0 then 0 else dret, 0).
Proof. exact whole_source_destroy_null. Qed.
Print Assumptions C11_gen_whole_source_destroy_null.

Theorem C11_gen_whole_file_return : forall r k o sd sr,
  io_file_return r k o sd sr =
  (let r1 := if k =? 0 then r else b2z (z2b sd || z2b r) in
   let r2 := if o =? 0 then r1 else b2z (z2b sr || z2b r1) in
   (r2, if k =? 0 then 0 else 1, if k =? 0 then 0 else k, if o =? 0 then 0 else 1, if o =? 0 then 0 else o)).
Proof. exact whole_file_return. Qed.
Print Assumptions C11_gen_whole_file_return.

Theorem C11_gen_whole_file_save : forall junk a (open_ok : bool) flt (ff cf : bool) namep arrayp sinkp sd sr,
  sinkp <> 0 ->
  let w := sink_write junk (mkSink (DFile true []) 0 0 0) (take (a_cnt a) (a_mem a)) flt in
  rd_file_save namep arrayp (a_cnt a) sinkp
    (io_file_save namep arrayp (a_cnt a) 0 (if open_ok then sinkp else 0) (snd w) (fst (sink_destroy (fst w) ff cf))
                  (frv (-1) 0 0 sd sr) (frv (-1) sinkp 0 sd sr) (frv (-1) 0 0 sd sr) (frv 0 0 0 sd sr))
  = fst (file_save junk a open_ok flt ff cf).
Proof. exact whole_file_save. Qed.
Print Assumptions C11_gen_whole_file_save.

Theorem C11_gen_whole_file_load_open : forall junk fuel fo b flts cf namep srcp sd sr,
  srcp <> 0 ->
  let '(ret, stop, sink, source, bpos, w, sn_c, sn_a0, sn_a1, sn_a2, f_c, f_a0, f_a1, f_a2) :=
    io_file_load_open namep (match fo with Some _ => srcp | None => 0 end) (frv (-1) 0 0 sd sr) in
  sn_c = 1 /\ sn_a0 = io_SC_IO_TYPE_FILENAME /\ sn_a1 = io_SC_IO_ENCODE_NONE /\ sn_a2 = namep /\ sink = 0 /\
  (stop = 2 -> f_c = 1 /\ f_a0 = -1 /\ f_a1 = 0 /\ f_a2 = 0) /\ (stop = 0 -> f_c = 0 /\ source = srcp) /\
  file_load junk fuel fo b flts cf =
  (if stop =? 2 then Some (ret, b)
   else match fo with Some c => match source_new_filename true c with Some src => load_loop junk w fuel src b bpos flts cf | None => None end | None => None end).
Proof. exact whole_file_load_open. Qed.
Print Assumptions C11_gen_whole_file_load_open.

Theorem C11_gen_whole_file_load_body : forall junk fuel src b bpos flts cf bufp srcp idx sd sr,
  srcp <> 0 ->
  0 <= bpos -> bpos + bwins < BIG -> 0 <= snd (pass_read junk src b bpos bwins flts) <= bwins ->
  rd_load_body junk fuel src b bpos flts cf bufp srcp idx (fun src' => if negb (source_destroy src' cf =? 0) then -1 else 0)
    (io_file_load_body bufp 0 srcp bpos load_bwins (snd (pass_read junk src b bpos bwins flts)) idx (fst (pass_read junk src b bpos bwins flts))
                       (frv (-1) 0 srcp sd sr))
  = load_loop junk bwins (S fuel) src b bpos flts cf.
Proof. exact whole_file_load_body. Qed.
Print Assumptions C11_gen_whole_file_load_body.

Theorem C11_gen_whole_file_load_close : forall dn sd sr,
  io_file_load_close 0 0 dn (frv (-1) 0 0 sd sr) (frv 0 0 0 sd sr) =
  (if negb (dn =? 0) then -1 else 0, 1, if dn =? 0 then 0 else 1, if dn =? 0 then 0 else -1, 0, 0, if dn =? 0 then 1 else 0, 0, 0, 0).
Proof. exact whole_file_load_close. Qed.
Print Assumptions C11_gen_whole_file_load_close.

(* the hypotheses are satisfiable and the readings are not the error value: concrete instances, computed *)
Example C11_gen_whole_sink_write_example :
  io_sink_write io_SC_IO_TYPE_BUFFER 100 2 6 1000 1 1 1 0 2000 2 0 = (0, 3, 3, 3, 1, 100, 2, 1, 1001, 2000, 2, 0, 0, 0, 0, 0).
Proof. vm_compute. reflexivity. Qed.
Example C11_gen_whole_sink_write_view_full_example :   (* a view of 4 bytes (byte_alloc = -5) holding 3: one more byte fits, two do not *)
  fst (fst (fst (fst (fst (fst (fst (fst (fst (fst (fst (fst (fst (fst (fst (io_sink_write io_SC_IO_TYPE_BUFFER 100 2 (-5) 1000 3 3 3 0 2000 1 0))))))))))))))) = 0 /\
  fst (fst (fst (fst (fst (fst (fst (fst (fst (fst (fst (fst (fst (fst (fst (io_sink_write io_SC_IO_TYPE_BUFFER 100 2 (-5) 1000 3 3 3 0 2000 2 0))))))))))))))) = -1.
Proof. vm_compute. split; reflexivity. Qed.
Example C11_gen_whole_source_read_exact_at_eof_example :   (* is_eof set, n = 1, no count pointer: FATAL, nothing called *)
  io_source_read io_SC_IO_TYPE_BUFFER 2 1 1000 2 2 2 1 0 0 2000 1 0 77 0 0 0 0 0
  = (-1, 77, 2, 2, 2, 1, 0, 0, 0, 0, 0, 0, 0, 0, 0, 0, 0, 0, 0, 0, 0, 0, 0, 0, 0, 0, 0).
Proof. vm_compute. reflexivity. Qed.
Example C11_gen_whole_sink_new_example :   (* write mode: sc_array_resize (buffer, 0); append mode: buffer_bytes = count * size *)
  rd_sink_new_buffer (fun _ => 0) (mkArr 2 3 false [1;2;3;4;5;6]) 100 500 (io_sink_new io_SC_IO_TYPE_BUFFER (mode_of false) 0 100 0 0 3 2 72 500 0 0)
    = (Some (mkSink (DBuf (mkArr 2 0 false [])) 0 0 0), 0) /\
  rd_sink_new_buffer (fun _ => 0) (mkArr 2 3 false [1;2;3;4;5;6]) 100 500 (io_sink_new io_SC_IO_TYPE_BUFFER (mode_of true) 0 100 0 0 3 2 72 500 0 0)
    = (Some (mkSink (DBuf (mkArr 2 3 false [1;2;3;4;5;6])) 6 0 0), 0).
Proof. vm_compute. split; reflexivity. Qed.

(* ===== histories across objects (coq/C11/IoHistories.v) ===================================================== *)
From ScV Require Import C11.IoHistories.

(* SAVE THEN LOAD, EVERY CHUNKING ON BOTH SIDES: a FILENAME sink ("wb", or "ab" over the old content) is fed ANY list of chunks and
   destroyed; a FILENAME source opened on what is on disk then delivers, for ANY list of read sizes >= 0, exactly the first bytes of
   old ++ chunks in order; every call succeeds; the counts are min (asked, left) *)
Theorem C11_sink_then_source_chunked : forall junk sent (append : bool) old chunks ns, Forall (fun n => 0 <= n) ns ->
  match sink_new_filename true append old with
  | None => False
  | Some k0 =>
      let '(k1, wouts) := sink_run junk k0 (map (fun d => SWrite d None) chunks) in
      let '(rcd, dev) := sink_destroy k1 false false in
      match source_new_filename true (file_left dev) with
      | None => False
      | Some r0 =>
          let '(r1, outs) := source_run junk sent r0 (map (fun n => RRead n true true NoFault) ns) in
          let all := (if append then old else []) ++ concat chunks in
          wouts = map (fun _ => (E_NONE, None)) chunks /\ rcd = E_NONE /\ file_left dev = all /\
          concat (map delivered outs) = take (zsum ns) all /\
          map o_rc outs = map (fun _ => E_NONE) ns /\
          map o_cnt outs = map Some (counts_spec (len all) ns) /\
          source_rest r1 = drop (zsum ns) all
      end
  end.
Proof. exact sink_then_source_chunked. Qed.
Print Assumptions C11_sink_then_source_chunked.

(* EVERY HISTORY AFTER THE ACTIVATION OF THE MIRROR: whatever state the file source is in (any history before), after
   sc_io_source_activate_mirror and ANY interleaving of counted reads / skips / aligns / completions / mirror reads,
   sc_io_source_read_mirror of n bytes hands out exactly the first min (n, total) of the bytes that the reads delivered since the
   activation, in order; it fails (1) only for an exact request (no count pointer) that is too long *)
Theorem C11_mirror_since_activation : forall junk sent s ops n (wc : bool),
  source_wf s -> eof_ok s -> is_file s -> 0 <= r_out s -> r_mir s = None ->
  forallb mirror_ok_op ops = true -> Forall nonneg_op ops -> 0 <= n ->
  let '(s', outs) := source_run junk sent s (RMirrorOn :: ops ++ [RMirrorRead n true wc]) in
  let m := delivered_all ops (removelast (tl outs)) in
  let k := Z.min n (len m) in
  hd_error outs = Some (mkRes E_NONE None None None) /\
  last outs (mkRes 0 None None None) =
    mkRes (if wc || (n <=? len m) then 0 else 1) (if wc || (n <=? len m) then (if wc then Some k else None) else None) None
          (Some (take k m ++ drop k (repeat sent (Z.to_nat n)))).
Proof. exact mirror_since_activation. Qed.
Print Assumptions C11_mirror_since_activation.

(* non-vacuity: a concrete history of each kind, computed *)
Example C11_sink_then_source_chunked_example :
  let '(k1, _) := sink_run (fun _ => 0) (mkSink (DFile true [9]) 0 0 0) (map (fun d => SWrite d None) [[1;2];[];[3]]) in
  let '(r1, outs) := source_run (fun _ => 0) 238 (mkSrc (RFile true (file_left (snd (sink_destroy k1 false false))) 0) 0 0 0 false None)
                                (map (fun n => RRead n true true NoFault) [1;0;2;5]) in
  concat (map delivered outs) = [9;1;2;3] /\ map o_cnt outs = [Some 1; Some 0; Some 2; Some 1].
Proof. vm_compute. split; reflexivity. Qed.
Example C11_mirror_since_activation_example :
  let s := mkSrc (RFile false [1;2;3;4;5;6] 1) 0 0 0 false None in
  let ops := [RRead 2 true true NoFault; RAlign 4 NoFault; RComplete; RRead 1 true true NoFault] in
  source_wf s /\ eof_ok s /\ is_file s /\ r_mir s = None /\ forallb mirror_ok_op ops = true /\ Forall nonneg_op ops /\
  o_data (last (snd (source_run (fun _ => 0) 238 s (RMirrorOn :: ops ++ [RMirrorRead 4 true true]))) (mkRes 0 None None None)) = Some [2;3;6;238].
Proof. exact mirror_since_activation_example. Qed.
