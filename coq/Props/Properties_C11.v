(* C11 - sink and source streams are transparent to chunking and count bytes exactly.
   Statements about the executable model coq/C11/IoModel.v of /repo/src/sc_io.c:40-617, which the
   check ties to the C code by running both on the same operation sequences.
   `junk` is what C leaves uninitialised (array padding / grown tails): every statement holds for
   every junk.  This file contains only statements, `exact` proofs and Print Assumptions. *)
From Coq Require Import ZArith List Bool.
From ScV Require Import C11.IoModel C11.IoLists C11.IoSinkProofs C11.IoSourceProofs.
From ScV Require Import Base.CInt Gen.IoC11 C11.IoGen.
Import ListNotations.
Local Open Scope Z_scope.

(* ===== sinks =================================================================================== *)

(* However a byte string is cut into write calls (chunks of any sizes >= 0), an owner array of ANY
   element size ends up holding the previous content (append) or nothing (write) followed by the
   concatenation; buffer_bytes counts it; every call succeeds. *)
Theorem C11_sink_chunking_buffer : forall junk (append : bool) (a : arr) (chunks : list (list Z)),
  arr_wf a -> a_view a = false ->
  let r := sink_run junk (sink_new_buffer junk append a) (map (fun d => SWrite d None) chunks) in
  sink_content (fst r) = (if append then a_mem a else []) ++ concat chunks /\
  k_bb (fst r) = len (sink_content (fst r)) /\
  snd r = map (fun _ => (E_NONE, None)) chunks.
Proof. exact sink_chunking_buffer. Qed.
Print Assumptions C11_sink_chunking_buffer.

(* the same for files: `f` is what fopen left of the file ("wb": nothing, "ab" / FILE*: everything) *)
Theorem C11_sink_chunking_file : forall (named : bool) (f : list Z) (chunks : list (list Z)) junk,
  let r := sink_run junk (mkSink (DFile named f) 0 0 0) (map (fun d => SWrite d None) chunks) in
  sink_content (fst r) = f ++ concat chunks /\ snd r = map (fun _ => (E_NONE, None)) chunks.
Proof. exact sink_chunking_file. Qed.
Print Assumptions C11_sink_chunking_file.

Theorem C11_sink_new_filename : forall append old,
  sink_new_filename true append old = Some (mkSink (DFile true (if append then old else [])) 0 0 0).
Proof. intros; reflexivity. Qed.
Print Assumptions C11_sink_new_filename.

(* two partitions of the same bytes cannot be told apart (content and both counters) *)
Theorem C11_sink_chunking_independent : forall junk s c1 c2,
  sink_wf s -> growable s -> concat c1 = concat c2 ->
  sink_abs (fst (sink_run junk s (map (fun d => SWrite d None) c1))) =
  sink_abs (fst (sink_run junk s (map (fun d => SWrite d None) c2))).
Proof. exact sink_chunking_independent. Qed.
Print Assumptions C11_sink_chunking_independent.

(* EVERY interleaving of write / align / complete on a growable sink (owner array of any element
   size, or file) behaves like the reference `spec_run`: a byte string plus two counters, where
   write appends and adds to both counters, align appends (a - out mod a) mod a zeros, complete
   answers AGAIN iff the length is not a multiple of the element size and otherwise reports and
   resets the counters.  Content, counters and every return value agree. *)
Theorem C11_sink_refines : forall junk (ops : list sop) (s : sink),
  sink_wf s -> growable s -> forallb fault_free ops = true ->
  let r := sink_run junk s ops in
  let q := spec_run (sink_unit s) (sink_abs s) ops in
  sink_abs (fst r) = fst q /\ snd r = snd q /\ sink_wf (fst r) /\ growable (fst r).
Proof. exact sink_run_refines. Qed.
Print Assumptions C11_sink_refines.

(* one write: content, counters (bytes accepted / delivered) *)
Theorem C11_sink_write : forall junk s d,
  sink_wf s -> growable s ->
  let r := sink_write junk s d None in
  snd r = E_NONE /\ sink_wf (fst r) /\ growable (fst r) /\
  sink_content (fst r) = sink_content s ++ d /\
  k_in (fst r) = k_in s + len d /\ k_out (fst r) = k_out s + len d /\
  sink_unit (fst r) = sink_unit s /\
  (forall a, k_dev s = DBuf a -> k_bb (fst r) = k_bb s + len d).
Proof. exact sink_write_growable. Qed.
Print Assumptions C11_sink_write.

(* align writes exactly pad = (a - out mod a) mod a zero bytes; pad is the least count that reaches
   the boundary *)
Theorem C11_sink_align : forall junk s al,
  sink_wf s -> growable s -> 0 < al -> 0 <= k_out s ->
  let r := sink_align junk s al None in
  let pad := (al - k_out s mod al) mod al in
  snd r = E_NONE /\
  sink_content (fst r) = sink_content s ++ repeat 0 (Z.to_nat pad) /\
  0 <= pad < al /\
  k_out (fst r) = k_out s + pad /\ k_in (fst r) = k_in s + pad /\
  k_out (fst r) mod al = 0 /\
  (forall k, 0 <= k -> (k_out s + k) mod al = 0 -> pad <= k).
Proof. exact sink_align_spec. Qed.
Print Assumptions C11_sink_align.

(* complete: AGAIN iff a partial array element is pending (then a no-op); otherwise the counters
   are reported and reset and nothing else changes; a file sink fails iff fflush fails *)
Theorem C11_sink_complete : forall s ff,
  let '(s', rc, rep) := sink_complete s ff in
  match k_dev s with
  | DBuf a =>
      (rc = E_AGAIN <-> k_bb s mod a_esz a <> 0) /\
      (rc = E_AGAIN -> s' = s /\ rep = None) /\
      (rc <> E_AGAIN -> rc = E_NONE /\ rep = Some (k_in s, k_out s) /\
                        s' = mkSink (k_dev s) (k_bb s) 0 0)
  | DFile _ _ =>
      (rc = E_FATAL <-> ff = true) /\
      (ff = true -> s' = s /\ rep = None) /\
      (ff = false -> rc = E_NONE /\ rep = Some (k_in s, k_out s) /\ s' = mkSink (k_dev s) (k_bb s) 0 0)
  end.
Proof. exact sink_complete_spec. Qed.
Print Assumptions C11_sink_complete.

(* view-backed sink (cannot grow): a write returns FATAL iff the rounded-up size exceeds the view;
   then nothing is copied and no counter moves; otherwise it behaves like any write; in both cases
   the viewed memory keeps its size and is untouched outside [buffer_bytes, buffer_bytes + len d) *)
Theorem C11_sink_write_view : forall junk s a d,
  sink_wf s -> view_sink s a -> d <> [] ->
  let nc := (k_bb s + len d + a_esz a - 1) / a_esz a in
  let r := sink_write junk s d None in
  (snd r = E_FATAL <-> nc * a_esz a > len (a_mem a)) /\
  (snd r <> E_FATAL -> snd r = E_NONE /\
      sink_content (fst r) = sink_content s ++ d /\ k_bb (fst r) = k_bb s + len d /\
      k_in (fst r) = k_in s + len d /\ k_out (fst r) = k_out s + len d) /\
  (snd r = E_FATAL ->
      k_bb (fst r) = k_bb s /\ k_in (fst r) = k_in s /\ k_out (fst r) = k_out s /\
      exists a', k_dev (fst r) = DBuf a' /\ a_mem a' = a_mem a /\ a_view a' = true /\ a_esz a' = a_esz a) /\
  (forall a', k_dev (fst r) = DBuf a' -> len (a_mem a') = len (a_mem a) /\
      drop (k_bb s + len d) (a_mem a') = drop (k_bb s + len d) (a_mem a) /\
      take (k_bb s) (a_mem a') = take (k_bb s) (a_mem a)) /\
  sink_wf (fst r) /\ (exists a', view_sink (fst r) a' /\ a_esz a' = a_esz a).
Proof. exact sink_write_view. Qed.
Print Assumptions C11_sink_write_view.

(* no operation sequence at all (faults included, views included) makes the model copy outside the
   backing array: the instrumentation code E_OOB never shows up *)
Theorem C11_sink_never_out_of_bounds : forall junk ops s, sink_wf s ->
  (forall o, In o (snd (sink_run junk s ops)) -> fst o <> E_OOB) /\ sink_wf (fst (sink_run junk s ops)).
Proof. exact sink_run_no_oob. Qed.
Print Assumptions C11_sink_never_out_of_bounds.

(* a short fwrite: FATAL, counters untouched, exactly the transferred bytes are in the file *)
Theorem C11_sink_write_fault : forall junk s nm f d k,
  k_dev s = DFile nm f -> 0 <= k < len d ->
  let r := sink_write junk s d (Some k) in
  snd r = E_FATAL /\ k_in (fst r) = k_in s /\ k_out (fst r) = k_out s /\
  sink_content (fst r) = f ++ take k d.
Proof. exact sink_write_file_fault. Qed.
Print Assumptions C11_sink_write_fault.

(* destroy turns a pending partial element (AGAIN) and any flush / close failure into FATAL *)
Theorem C11_sink_destroy : forall s ff cf,
  fst (sink_destroy s ff cf) =
  match k_dev s with
  | DBuf a => if k_bb s mod a_esz a =? 0 then E_NONE else E_FATAL
  | DFile true _ => if cf || ff then E_FATAL else E_NONE
  | DFile false _ => if ff then E_FATAL else E_NONE
  end.
Proof. exact sink_destroy_spec. Qed.
Print Assumptions C11_sink_destroy.

(* ===== sources ================================================================================= *)

(* Whatever way reads are sized (sizes >= 0, count pointer given): the pieces handed out,
   concatenated, are the stored bytes in order; every count is min (asked, left); the rest of each
   caller buffer keeps its sentinel (C11_source_read_step); counters add up. *)
Theorem C11_source_reads_in_order : forall junk sent (ns : list Z) (s : source),
  source_wf s -> eof_ok s -> Forall (fun n => 0 <= n) ns ->
  let '(s', outs) := source_run junk sent s (map (fun n => RRead n true true NoFault) ns) in
  concat (map delivered outs) = take (zsum ns) (source_rest s) /\
  source_rest s' = drop (zsum ns) (source_rest s) /\
  map o_rc outs = map (fun _ => E_NONE) ns /\
  map o_cnt outs = map Some (counts_spec (len (source_rest s)) ns) /\
  r_out s' = r_out s + Z.min (zsum ns) (len (source_rest s)) /\
  r_in s' = r_in s + Z.min (zsum ns) (len (source_rest s)) /\
  source_stored s' = source_stored s /\ source_wf s' /\ eof_ok s'.
Proof. exact source_reads_in_order. Qed.
Print Assumptions C11_source_reads_in_order.

Theorem C11_source_read_step : forall junk sent s n,
  source_wf s -> eof_ok s -> 0 <= n ->
  let k := next_k s n in
  let '(s', r) := source_step junk sent s (RRead n true true NoFault) in
  source_wf s' /\ eof_ok s' /\ source_stored s' = source_stored s /\
  o_rc r = E_NONE /\ o_cnt r = Some k /\
  o_data r = Some (take k (source_rest s) ++ repeat sent (Z.to_nat (n - k))) /\
  delivered r = take k (source_rest s) /\
  source_rest s' = drop k (source_rest s) /\
  r_in s' = r_in s + k /\ r_out s' = r_out s + k /\
  mirror_plus (r_mir s) (take k (source_rest s)) (r_mir s').
Proof. exact source_read_step. Qed.
Print Assumptions C11_source_read_step.

(* one read into a caller buffer with or without count pointer: a short count signals the end
   (count pointer) or FATAL is returned (no count pointer; also when the end has been registered
   by an earlier call: repair 103c295) *)
Theorem C11_source_read : forall junk s n u wc,
  source_wf s -> eof_ok s -> 0 <= n -> len u = n ->
  let k := next_k s n in
  let '(s', rc, cnt, data') := source_read junk s n (Some u) wc NoFault in
  data' = Some (take k (source_rest s) ++ drop k u) /\
  source_wf s' /\ eof_ok s' /\ source_stored s' = source_stored s /\
  mirror_plus (r_mir s) (take k (source_rest s)) (r_mir s') /\
  (k < n -> source_rest s' = []) /\
  ((wc = true \/ k = n) ->
     rc = E_NONE /\ cnt = (if wc then Some k else None) /\
     source_rest s' = drop k (source_rest s) /\
     r_in s' = r_in s + k /\ r_out s' = r_out s + k) /\
  ((wc = false /\ k < n) -> rc = E_FATAL /\ cnt = None /\ r_in s' = r_in s /\ r_out s' = r_out s).
Proof. exact source_read_data. Qed.
Print Assumptions C11_source_read.

(* Exact reads (bytes_out == NULL).  Documented: "Returns an error if bytes_out is NULL and less
   than bytes_avail are read."  The full-strength statement, for every source state - also after
   the end has been registered by an earlier call (finding F-C11b, repaired in /repo by 103c295): *)
Theorem C11_source_read_exact : forall junk s n u,
  source_wf s -> eof_ok s -> 0 <= n -> len u = n ->
  let '(s', rc, cnt, data') := source_read junk s n (Some u) false NoFault in
  cnt = None /\
  (n <= len (source_rest s) ->
     rc = E_NONE /\ data' = Some (take n (source_rest s)) /\ source_rest s' = drop n (source_rest s) /\
     r_in s' = r_in s + n /\ r_out s' = r_out s + n) /\
  (len (source_rest s) < n -> rc = E_FATAL /\ r_in s' = r_in s /\ r_out s' = r_out s).
Proof. exact source_read_exact. Qed.
Print Assumptions C11_source_read_exact.

(* once the end is registered, an exact request of n > 0 bytes (with or without data pointer, whatever
   the stream would do) is refused and the source, the caller's buffer and *bytes_out are left alone *)
Theorem C11_source_read_exact_at_eof : forall junk s n data flt,
  r_eof s = true -> 0 < n ->
  source_read junk s n data false flt = (s, E_FATAL, None, data).
Proof. exact source_read_exact_at_eof. Qed.
Print Assumptions C11_source_read_exact_at_eof.

(* Regression guard: with the early return as it was before 103c295 (`source_read_old`: success
   whenever nothing is asked or the end is registered) the statement C11_source_read_exact is false -
   after a counted read has returned 0 at the end, an exact read of n > 0 bytes returns success and
   leaves the caller's buffer untouched, where the repaired function returns FATAL.  The two functions
   differ in exactly this case. *)
Theorem C11_source_read_exact_old_refuted :
  exists s n u, source_wf s /\ eof_ok s /\ 0 < n /\ len u = n /\ len (source_rest s) < n /\
    (let '(_, rc, _, data') := source_read_old (fun _ => 0) s n (Some u) false NoFault in
     rc = E_NONE /\ data' = Some u) /\
    (let '(s', rc, _, data') := source_read (fun _ => 0) s n (Some u) false NoFault in
     rc = E_FATAL /\ data' = Some u /\ s' = s).
Proof. exact source_read_exact_old_refuted. Qed.
Print Assumptions C11_source_read_exact_old_refuted.

Theorem C11_source_read_old_differs : forall junk s n data wc flt,
  source_read_old junk s n data wc flt <> source_read junk s n data wc flt <->
  (r_eof s = true /\ wc = false /\ 0 < n).
Proof. exact source_read_old_differs. Qed.
Print Assumptions C11_source_read_old_differs.

(* NULL data skips: an array source skips min (n, left) bytes with the same end signalling ... *)
Theorem C11_source_skip_buffer : forall junk s a n wc,
  r_dev s = RBuf a -> source_wf s -> eof_ok s -> 0 <= n ->
  let k := next_k s n in
  let '(s', rc, cnt, data') := source_read junk s n None wc NoFault in
  data' = None /\ source_wf s' /\ eof_ok s' /\ source_stored s' = source_stored s /\
  (k < n -> source_rest s' = []) /\
  ((wc = true \/ k = n) ->
     rc = E_NONE /\ cnt = (if wc then Some k else None) /\
     source_rest s' = drop k (source_rest s) /\
     r_in s' = r_in s + k /\ r_out s' = r_out s + k) /\
  ((wc = false /\ k < n) -> rc = E_FATAL /\ cnt = None /\ r_in s' = r_in s /\ r_out s' = r_out s).
Proof. exact source_skip_buffer. Qed.
Print Assumptions C11_source_skip_buffer.

(* ... a file source seeks n bytes forward without looking for the end (as the code documents:
   "seek now and check for potential end of file next time"); the mirror is not written.  Once the
   end has been registered the call leaves the source alone: a counted skip reports 0, an exact skip
   of n > 0 bytes is FATAL. *)
Theorem C11_source_skip_file : forall junk s nm f pos n wc,
  r_dev s = RFile nm f pos -> source_wf s -> eof_ok s -> 0 <= n ->
  let '(s', rc, cnt, data') := source_read junk s n None wc NoFault in
  data' = None /\ source_wf s' /\ eof_ok s' /\ source_stored s' = source_stored s /\ r_mir s' = r_mir s /\
  rc = (if r_eof s && negb wc && (0 <? n) then E_FATAL else E_NONE) /\
  let k := if r_eof s then 0 else n in
  cnt = (if wc then Some k else None) /\
  source_rest s' = drop k (source_rest s) /\ source_pos s' = source_pos s + k /\
  r_in s' = r_in s + k /\ r_out s' = r_out s + k /\
  (r_eof s = true -> s' = s).
Proof. exact source_skip_file. Qed.
Print Assumptions C11_source_skip_file.

(* align skips exactly (a - out mod a) mod a bytes; once the end has been registered, an align that
   needs padding is FATAL and leaves the source as it is *)
Theorem C11_source_align_file : forall junk s nm f pos al,
  r_dev s = RFile nm f pos -> source_wf s -> eof_ok s -> 0 < al -> 0 <= r_out s ->
  let pad := (al - r_out s mod al) mod al in
  let '(s', rc) := source_align junk s al NoFault in
  0 <= pad < al /\
  ((r_eof s = false \/ pad = 0) ->
     rc = E_NONE /\ source_pos s' = source_pos s + pad /\
     source_rest s' = drop pad (source_rest s) /\
     r_out s' = r_out s + pad /\ r_in s' = r_in s + pad /\ r_out s' mod al = 0) /\
  ((r_eof s = true /\ 0 < pad) -> rc = E_FATAL /\ s' = s) /\
  source_wf s' /\ eof_ok s' /\ r_mir s' = r_mir s.
Proof. exact source_align_file. Qed.
Print Assumptions C11_source_align_file.

(* an array source: success iff the padding is there (after the registered end: iff none is needed) *)
Theorem C11_source_align_buffer : forall junk s a al,
  r_dev s = RBuf a -> source_wf s -> eof_ok s -> 0 < al -> 0 <= r_out s ->
  let pad := (al - r_out s mod al) mod al in
  let '(s', rc) := source_align junk s al NoFault in
  0 <= pad < al /\
  (pad <= len (source_rest s) ->
     rc = E_NONE /\ source_rest s' = drop pad (source_rest s) /\
     r_out s' = r_out s + pad /\ r_in s' = r_in s + pad /\ r_out s' mod al = 0) /\
  (len (source_rest s) < pad -> rc = E_FATAL /\ r_out s' = r_out s /\ r_in s' = r_in s) /\
  source_wf s' /\ eof_ok s'.
Proof. exact source_align_buffer. Qed.
Print Assumptions C11_source_align_buffer.

(* complete: AGAIN iff an array source stands inside an element; otherwise counters reported/reset *)
Theorem C11_source_complete : forall s,
  source_wf s ->
  let '(s', rc, rep) := source_complete s in
  match r_dev s with
  | RBuf a => (rc = E_AGAIN <-> r_bb s mod a_esz a <> 0) /\
              (rc = E_AGAIN -> s' = s /\ rep = None)
  | RFile _ _ _ => rc = E_NONE
  end /\
  (rc <> E_AGAIN -> rc = E_NONE /\ rep = Some (r_in s, r_out s) /\ r_in s' = 0 /\ r_out s' = 0 /\
                    source_rest s' = source_rest s /\ r_eof s' = r_eof s /\
                    mirror_content s' = mirror_content s /\ source_wf s').
Proof. exact source_complete_spec. Qed.
Print Assumptions C11_source_complete.

(* the mirror holds exactly what the reads handed out, over every interleaving of reads, skips,
   aligns, completes and mirror reads ... *)
Theorem C11_mirror_replays : forall junk sent ops s m,
  source_wf s -> eof_ok s -> is_file s -> 0 <= r_out s -> mirror_content s = Some m ->
  forallb mirror_ok_op ops = true -> Forall nonneg_op ops ->
  let '(s', outs) := source_run junk sent s ops in
  mirror_content s' = Some (m ++ delivered_all ops outs).
Proof. exact mirror_replays. Qed.
Print Assumptions C11_mirror_replays.

(* ... and reading it replays it from the start (error reported as 1: the C code combines with ||) *)
Theorem C11_mirror_read : forall junk s m n u wc,
  source_wf s -> mirror_content s = Some m -> 0 <= n -> len u = n ->
  let k := Z.min n (len m) in
  source_read_mirror junk s n (Some u) wc =
  (if wc || (n <=? len m) then 0 else 1, if wc || (n <=? len m) then (if wc then Some k else None) else None,
   Some (take k m ++ drop k u)).
Proof. exact source_read_mirror_spec. Qed.
Print Assumptions C11_mirror_read.

Theorem C11_mirror_activate : forall junk s,
  source_wf s -> is_file s -> r_mir s = None ->
  let '(s', rc) := source_activate_mirror junk s in
  rc = E_NONE /\ mirror_content s' = Some [] /\ source_wf s' /\ is_file s' /\
  source_rest s' = source_rest s /\ r_eof s' = r_eof s /\ r_out s' = r_out s /\ r_in s' = r_in s.
Proof. exact source_activate_mirror_spec. Qed.
Print Assumptions C11_mirror_activate.

(* stdio faults and side effects *)
Theorem C11_source_read_fault : forall junk s nm f pos n u wc k e r,
  r_dev s = RFile nm f pos -> r_eof s = false -> 0 <= k < n -> (e = false \/ r = true) ->
  let '(s', rc, cnt, _) := source_read junk s n (Some u) wc (ShortRead k e r) in
  rc = E_FATAL /\ cnt = None /\ r_in s' = r_in s /\ r_out s' = r_out s /\ r_mir s' = r_mir s.
Proof. exact source_read_file_error. Qed.
Print Assumptions C11_source_read_fault.

Theorem C11_source_shrunk_buffer : forall junk s a n data,
  r_dev s = RBuf a -> r_eof s = false -> 0 < n -> a_cnt a * a_esz a < r_bb s ->
  let '(s', rc, cnt, data') := source_read junk s n data true NoFault in
  rc = E_NONE /\ cnt = Some 0 /\ data' = data /\ r_eof s' = true /\ r_bb s' = r_bb s.
Proof. exact source_read_shrunk. Qed.
Print Assumptions C11_source_shrunk_buffer.

(* ===== save / load ============================================================================== *)
(* load (save a) = a for every byte array, every previous content of the target buffer and every
   junk, with the 16384-byte window loop of sc_io_file_load (fuel = any bound on the iterations) *)
Theorem C11_file_load_save : forall junk a b fuel,
  a_view b = false -> a_esz b = 1 -> len (a_mem b) = a_cnt b ->
  let c := take (a_cnt a) (a_mem a) in
  len c < Z.of_nat fuel * bwins ->
  file_save junk a true None false false = (0, Some c) /\
  file_load junk fuel (Some c) b [] false = Some (0, mkArr 1 (len c) false c).
Proof. exact file_load_save. Qed.
Print Assumptions C11_file_load_save.

(* the window loop for EVERY window size w > 0 *)
Theorem C11_load_loop : forall junk w, 0 < w -> forall fuel f src b bpos,
  load_inv f src b bpos -> len f - bpos < Z.of_nat fuel * w ->
  load_loop junk w fuel src b bpos [] false = Some (0, mkArr 1 (len f) false f).
Proof. exact load_loop_spec. Qed.
Print Assumptions C11_load_loop.

(* ===== the hypotheses are satisfiable by non-trivial states ==================================== *)
Example C11_ex_sink : let a := mkArr 3 2 false [1;2;3;4;5;6] in
  arr_wf a /\ a_view a = false /\
  sink_content (fst (sink_run (fun _ => 170) (sink_new_buffer (fun _ => 170) true a)
                              [SWrite [7] None; SAlign 4 None; SWrite [8;9] None; SComplete false; SWrite [10;11] None; SComplete false]))
  = [1;2;3;4;5;6;7;0;0;0;8;9;10;11] /\
  map fst (snd (sink_run (fun _ => 170) (sink_new_buffer (fun _ => 170) true a)
                              [SWrite [7] None; SAlign 4 None; SWrite [8;9] None; SComplete false; SWrite [10;11] None; SComplete false]))
  = [0; 0; 0; 0; 0; -2].
Proof. unfold arr_wf. vm_compute. repeat split; try reflexivity; intros; discriminate. Qed.

Example C11_ex_view : let a := mkArr 2 1 true [1;2;238;238;238;238] in
  let s := sink_new_buffer (fun _ => 170) true a in
  sink_wf s /\ view_sink s a /\
  snd (sink_write (fun _ => 170) s [5;6;7;8] None) = E_NONE /\
  snd (sink_write (fun _ => 170) s [5;6;7;8;9] None) = E_FATAL.
Proof. unfold sink_wf, view_sink. vm_compute. repeat split; try reflexivity; intros; discriminate. Qed.

Example C11_ex_source : let s := source_new_filefile [1;2;3;4;5] 1 in
  source_wf s /\ eof_ok s /\ is_file s /\
  map o_cnt (snd (source_run (fun _ => 0) 238 s [RMirrorOn; RRead 2 true true NoFault; RAlign 4 NoFault; RRead 3 true true NoFault; RMirrorRead 8 true true]))
  = [None; Some 2; None; Some 0; Some 2].
Proof. unfold source_wf, eof_ok, is_file, mirror_wf. vm_compute. repeat split; try reflexivity; try discriminate. Qed.

(* ===== tie T1: the model computes what the definitions GENERATED from /repo/src/sc_io.c compute ============================== *)
(* Gen/IoC11.v is regenerated from the working tree on every run (tools/c2g/groups_C11.py); an edit of the arithmetic in
   sc_io.c changes a generated definition and the statements below stop checking.  BIG = 2^62 bounds every byte count. *)

(* sc_io_sink_write: the generated new_count is the model's ceil ((buffer_bytes + bytes_avail) / elem_size) *)
Theorem C11_gen_sink_new_count : forall esz bb n, 0 < esz -> 0 <= bb -> 0 <= n -> bb + n + esz < BIG ->
  sink_new_count esz bb n = (bb + n + esz - 1) / esz.
Proof. exact gen_sink_new_count. Qed.
Print Assumptions C11_gen_sink_new_count.

(* ... the least number of whole elements that holds the bytes, stated of the GENERATED definition *)
Theorem C11_gen_sink_new_count_ceil : forall esz bb n, 0 < esz -> 0 <= bb -> 0 <= n -> bb + n + esz < BIG ->
  let c := sink_new_count esz bb n in (c - 1) * esz < bb + n <= c * esz.
Proof. exact gen_sink_new_count_ceil. Qed.
Print Assumptions C11_gen_sink_new_count_ceil.

(* the unconditional size check of sc_io_sink_write on a view (byte_alloc = -(capacity + 1)) is the model's arr_fits *)
Theorem C11_gen_sink_view_check_view : forall a, a_view a = true -> 0 <= a_cnt a * a_esz a < BIG -> len (a_mem a) < BIG ->
  sink_view_check (a_cnt a) (a_esz a) (- (len (a_mem a) + 1)) = negb (arr_fits a).
Proof. exact gen_sink_view_check_view. Qed.
Print Assumptions C11_gen_sink_view_check_view.

(* ... and on an owner (byte_alloc >= elem_count * elem_size after sc_array_resize) it never fires, as in the model *)
Theorem C11_gen_sink_view_check_owner : forall a ba, a_view a = false -> 0 <= a_cnt a * a_esz a <= ba -> ba < BIG ->
  sink_view_check (a_cnt a) (a_esz a) ba = negb (arr_fits a).
Proof. exact gen_sink_view_check_owner. Qed.
Print Assumptions C11_gen_sink_view_check_owner.

(* the model's sc_io_sink_write on a buffer sink written with the generated new_count / buffer_bytes / counters *)
Theorem C11_gen_sink_write_buffer : forall junk s a d flt, k_dev s = DBuf a -> 0 < a_esz a -> 0 <= k_bb s -> 0 <= k_in s -> 0 <= k_out s ->
  k_bb s + len d + a_esz a < BIG -> k_in s + len d < BIG -> k_out s + len d < BIG ->
  sink_write junk s d flt =
  let n := len d in
  if n =? 0 then (s, E_NONE) else
  let nc := sink_new_count (a_esz a) (k_bb s) n in
  let a' := arr_resize junk a nc in
  if negb (arr_fits a') then (mkSink (DBuf a') (k_bb s) (k_in s) (k_out s), E_FATAL)
  else match put (k_bb s) d (a_mem a') with
       | None => (mkSink (DBuf a') (k_bb s) (k_in s) (k_out s), E_OOB)
       | Some m => let '(bb', bo) := sink_buffer_advance (k_bb s) n in
                   let '(i', o') := sink_counters (k_in s) n (k_out s) bo in
                   (mkSink (DBuf (mkArr (a_esz a) (a_cnt a') (a_view a') m)) bb' i' o', E_NONE)
       end.
Proof. exact gen_sink_write_buffer. Qed.
Print Assumptions C11_gen_sink_write_buffer.

(* sc_io_sink_complete returns AGAIN exactly when the generated test says so *)
Theorem C11_gen_sink_complete_buffer : forall s a ff, k_dev s = DBuf a ->
  sink_complete s ff = if sink_again (k_bb s) (a_esz a) then (s, E_AGAIN, None)
                       else (mkSink (k_dev s) (k_bb s) 0 0, E_NONE, Some (k_in s, k_out s)).
Proof. exact gen_sink_complete_buffer. Qed.
Print Assumptions C11_gen_sink_complete_buffer.

(* sc_io_source_complete returns AGAIN exactly when the generated test says so *)
Theorem C11_gen_source_complete_buffer : forall s a, r_dev s = RBuf a ->
  source_complete s = if source_again (r_bb s) (a_esz a) then (s, E_AGAIN, None)
                      else (mkSrc (r_dev s) (r_bb s) 0 0 (r_eof s) (r_mir s), E_NONE, Some (r_in s, r_out s)).
Proof. exact gen_source_complete_buffer. Qed.
Print Assumptions C11_gen_source_complete_buffer.

(* sc_io_sink_align: the generated fill is the model's (align - out mod align) mod align *)
Theorem C11_gen_sink_align_fill : forall al out, 0 < al < BIG -> sink_align_fill al out = align_fill out al.
Proof. exact gen_sink_align_fill. Qed.
Print Assumptions C11_gen_sink_align_fill.

(* sc_io_source_align: the same *)
Theorem C11_gen_source_align_fill : forall al out, 0 < al < BIG -> source_align_fill al out = align_fill out al.
Proof. exact gen_source_align_fill. Qed.
Print Assumptions C11_gen_source_align_fill.

(* the model's sc_io_sink_align writes the generated number of zero bytes *)
Theorem C11_gen_sink_align : forall junk s al flt, 0 < al < BIG ->
  sink_align junk s al flt = sink_write junk s (zeros (sink_align_request (sink_align_fill al (k_out s)))) flt.
Proof. exact gen_sink_align. Qed.
Print Assumptions C11_gen_sink_align.

(* the model's sc_io_source_align skips the generated number of bytes *)
Theorem C11_gen_source_align : forall junk s al flt, 0 < al < BIG ->
  source_align junk s al flt =
  let '(s', rc, _, _) := source_read junk s (source_align_request (source_align_fill al (r_out s))) None false flt in (s', rc).
Proof. exact gen_source_align. Qed.
Print Assumptions C11_gen_source_align.

(* sc_io_source_read: bytes still available in the buffer (0 if it has shrunk below the read position) *)
Theorem C11_gen_source_avail : forall cnt esz bb, 0 <= cnt * esz < BIG -> 0 <= bb < BIG ->
  source_avail cnt esz bb = (let total := cnt * esz in if total <? bb then 0 else total - bb).
Proof. exact gen_source_avail. Qed.
Print Assumptions C11_gen_source_avail.

(* sc_io_source_read: SC_MIN (available, requested) *)
Theorem C11_gen_source_take : forall avail n, source_take avail n = Z.min avail n.
Proof. exact gen_source_take. Qed.
Print Assumptions C11_gen_source_take.

(* sc_io_source_read: the exact-request test bytes_out == NULL && bbytes_out < bytes_avail *)
Theorem C11_gen_source_short : forall (wc : bool) p k n, p <> 0 -> source_short (if wc then p else 0) k n = negb wc && (k <? n).
Proof. exact gen_source_short. Qed.
Print Assumptions C11_gen_source_short.

(* the tail of the model's sc_io_source_read written with the generated test and counters *)
Theorem C11_gen_read_finish : forall s n wc retval k data p, p <> 0 -> 0 <= r_in s -> 0 <= r_out s -> 0 <= k -> r_in s + k < BIG -> r_out s + k < BIG ->
  read_finish s n wc retval k data =
  if retval then (s, E_FATAL, None, data)
  else if source_short (if wc then p else 0) k n then (s, E_FATAL, None, data)
  else let '(i', o') := source_counters (r_in s) k (r_out s) in
       (mkSrc (r_dev s) (r_bb s) i' o' (r_eof s) (r_mir s), E_NONE, if wc then Some k else None, data).
Proof. exact gen_read_finish. Qed.
Print Assumptions C11_gen_read_finish.

(* the model's sc_io_source_read on a buffer source written with the generated available / taken counts *)
Theorem C11_gen_source_read_buffer : forall junk s a n data wc flt, r_dev s = RBuf a -> 0 <= a_cnt a * a_esz a < BIG -> 0 <= r_bb s < BIG ->
  source_read junk s n data wc flt =
  if (n =? 0) || r_eof s then
    (if wc then (s, E_NONE, Some 0, data) else if 0 <? n then (s, E_FATAL, None, data) else (s, E_NONE, None, data))
  else
    let avail := source_avail (a_cnt a) (a_esz a) (r_bb s) in
    if avail =? 0 then read_finish (mkSrc (r_dev s) (r_bb s) (r_in s) (r_out s) true (r_mir s)) n wc false 0 data
    else let k := source_take avail n in
         let data' := match data with Some u => Some (take k (drop (r_bb s) (a_mem a)) ++ drop k u) | None => None end in
         read_finish (mkSrc (r_dev s) (r_bb s + k) (r_in s) (r_out s) (r_eof s) (r_mir s)) n wc false k data'.
Proof. exact gen_source_read_buffer. Qed.
Print Assumptions C11_gen_source_read_buffer.

(* sc_io_file_load: the window size *)
Theorem C11_gen_load_bwins : bwins = load_bwins.
Proof. exact gen_load_bwins. Qed.
Print Assumptions C11_gen_load_bwins.

(* sc_io_file_load: start, room made, bytes requested, target position, end-of-file test, final size, next position *)
Theorem C11_gen_load_window : forall bpos bout, 0 <= bpos -> 0 <= bout -> bpos + bwins < BIG -> bpos + bout < BIG ->
  load_start = 0 /\ load_room bpos load_bwins = bpos + bwins /\ load_request load_bwins = bwins /\ load_target bpos = bpos /\
  load_last bout load_bwins = (bout <? bwins) /\ load_final bpos bout = bpos + bout /\ load_next bpos load_bwins = bpos + bwins.
Proof. exact gen_load_window. Qed.
Print Assumptions C11_gen_load_window.

(* the model's sc_io_file_load runs its loop with the generated window from the generated start *)
Theorem C11_gen_file_load_start : forall junk fuel c b flts cf, file_load junk fuel (Some c) b flts cf =
  match source_new_filename true c with
  | Some src => load_loop junk load_bwins fuel src b load_start flts cf
  | None => Some (-1, b)
  end.
Proof. exact gen_file_load_start. Qed.
Print Assumptions C11_gen_file_load_start.
