(* C16 - the serial MPI emulation behaves like MPI on a single-rank communicator.
   Statements about (a) Gen.MpiC16.sc_mpi_sizeof, GENERATED from /repo/src/sc_mpi.c on every run, and
   (b) the executable model coq/C16/MpiModel.v of the stubs, tied to the code by running the same driver
   program against the serial build, the model and OpenMPI with one rank (checks/C16.py).
   The specification (coq/C16/MpiSpec1.v) is MPI's semantics at P = 1 over typed elements (size, extent).
   This file contains only statements, `exact` proofs and Print Assumptions. *)
From Coq Require Import ZArith List Bool.
From ScV Require Import Base.CInt Gen.MpiC16 C11.IoModel C16.MpiModel C16.MpiSpec1 C16.MpiProofs.
Import ListNotations.
Local Open Scope Z_scope.

(* sc_mpi_sizeof (= sc_MPI_Type_size) gives the ABI sizes (LP64) that MPI_Type_size reports *)
Theorem C16_sizeof_abi : forall t, valid_dt t -> sc_mpi_sizeof t = type_size t.
Proof. exact sizeof_abi. Qed.
Print Assumptions C16_sizeof_abi.

Theorem C16_sizeof_values :
  sc_mpi_sizeof h_MPI_BYTE = 1 /\ sc_mpi_sizeof h_MPI_CHAR = 1 /\ sc_mpi_sizeof h_MPI_UNSIGNED_CHAR = 1 /\
  sc_mpi_sizeof h_MPI_SHORT = 2 /\ sc_mpi_sizeof h_MPI_UNSIGNED_SHORT = 2 /\
  sc_mpi_sizeof h_MPI_INT = 4 /\ sc_mpi_sizeof h_MPI_UNSIGNED = 4 /\
  sc_mpi_sizeof h_MPI_LONG = 8 /\ sc_mpi_sizeof h_MPI_UNSIGNED_LONG = 8 /\ sc_mpi_sizeof h_MPI_LONG_LONG_INT = 8 /\
  sc_mpi_sizeof h_MPI_FLOAT = 4 /\ sc_mpi_sizeof h_MPI_DOUBLE = 8 /\ sc_mpi_sizeof h_MPI_LONG_DOUBLE = 16 /\
  sc_mpi_sizeof h_MPI_2INT = 8 /\ sc_mpi_sizeof h_MPI_DOUBLE_INT = 12.
Proof. vm_compute. repeat split. Qed.
Print Assumptions C16_sizeof_values.

(* Gather / Allgather / Alltoall with one rank: for every datatype, count >= 0, buffer contents:
   success, the contribution is element 0.. of the receive buffer, nothing else changes.
   Full-strength statement = this one without `contiguous_ok`; it is refuted below (F-C16b). *)
Theorem C16_gather : forall send recv np t nq tq,
  valid_dt t -> 0 <= np < 2 ^ 31 -> contiguous_ok t np 0 ->
  np * extent t <= len send -> np * extent t <= len recv ->
  exists r', sc_gather send np t recv nq tq = (SUCCESS, Some r') /\ coll_ok t np 0 send recv r'.
Proof. exact gather_spec. Qed.
Print Assumptions C16_gather.

Theorem C16_allgather_alltoall : sc_allgather = sc_gather /\ sc_alltoall = sc_gather /\ sc_allgatherv = sc_gatherv.
Proof. repeat split. Qed.
Print Assumptions C16_allgather_alltoall.

(* Gatherv / Allgatherv: every displacement >= 0 *)
Theorem C16_gatherv : forall send recv np t displ,
  valid_dt t -> 0 <= np < 2 ^ 31 -> 0 <= displ < 2 ^ 31 -> contiguous_ok t np displ ->
  np * extent t <= len send -> (displ + np) * extent t <= len recv ->
  exists r', sc_gatherv send np t recv np displ t = (SUCCESS, Some r') /\ coll_ok t np displ send recv r'.
Proof. exact gatherv_spec. Qed.
Print Assumptions C16_gatherv.

(* Reduce / Allreduce / Reduce_scatter_block / Scan: with one operand the result is the operand, for
   every operation `op` *)
Theorem C16_reduce : forall send recv n t op,
  valid_dt t -> 0 <= n < 2 ^ 31 -> contiguous_ok t n 0 ->
  n * extent t <= len send -> n * extent t <= len recv ->
  exists r', sc_reduce send recv n t op = (SUCCESS, Some r') /\ coll_ok t n 0 send recv r'.
Proof. exact reduce_spec. Qed.
Print Assumptions C16_reduce.

Theorem C16_reduce_family : sc_allreduce = sc_reduce /\ sc_reduce_scatter_block = sc_reduce /\ sc_scan = sc_reduce.
Proof. repeat split. Qed.
Print Assumptions C16_reduce_family.

(* Exscan leaves the receive buffer of rank 0 alone, Bcast leaves the root's buffer alone, Barrier succeeds *)
Theorem C16_exscan_bcast_barrier : forall p q n t op,
  sc_exscan p q n t op = (SUCCESS, Some q) /\ sc_bcast p n t = (SUCCESS, Some p) /\ sc_barrier = SUCCESS.
Proof. intros; repeat split. Qed.
Print Assumptions C16_exscan_bcast_barrier.

(* the unguarded collective statement is false of the code: two MPI_DOUBLE_INT elements (12 data bytes,
   stride 16) - known finding F-C16b *)
Theorem C16_double_int_refuted :
  valid_dt h_MPI_DOUBLE_INT /\ 2 * extent h_MPI_DOUBLE_INT <= len di_send /\
  exists r', sc_gather di_send 2 h_MPI_DOUBLE_INT di_recv 2 h_MPI_DOUBLE_INT = (SUCCESS, Some r') /\
             ~ coll_ok h_MPI_DOUBLE_INT 2 0 di_send di_recv r'.
Proof. exact double_int_refuted. Qed.
Print Assumptions C16_double_int_refuted.

(* Pack: succeeds iff position + count * size <= outsize; then the elements' data bytes are laid out at
   *position and *position advances by count * size; otherwise nothing changes.  No copy leaves a buffer. *)
Theorem C16_pack : forall inbuf incount t outbuf outsize pos,
  valid_dt t -> 0 <= incount -> contiguous_ok t incount 0 ->
  incount * extent t <= len inbuf -> len outbuf = outsize -> 0 <= pos -> pos + incount * type_size t < 2 ^ 31 ->
  let '(rc, out', pos') := sc_pack inbuf incount t outbuf outsize pos in
  (rc = SUCCESS <-> pos + incount * type_size t <= outsize) /\
  (rc <> SUCCESS -> out' = Some outbuf /\ pos' = pos) /\
  (rc = SUCCESS -> exists o, out' = Some o /\ pack_ok t incount inbuf outbuf pos o pos').
Proof. exact pack_spec. Qed.
Print Assumptions C16_pack.

Theorem C16_unpack : forall inbuf insize pos outbuf outcount t,
  valid_dt t -> 0 <= outcount -> contiguous_ok t outcount 0 ->
  len inbuf = insize -> outcount * extent t <= len outbuf -> 0 <= pos -> pos + outcount * type_size t < 2 ^ 31 ->
  let '(rc, out', pos') := sc_unpack inbuf insize pos outbuf outcount t in
  (rc = SUCCESS <-> pos + outcount * type_size t <= insize) /\
  (rc <> SUCCESS -> out' = Some outbuf /\ pos' = pos) /\
  (rc = SUCCESS -> exists o, out' = Some o /\ unpack_ok t outcount inbuf pos outbuf o pos').
Proof. exact unpack_spec. Qed.
Print Assumptions C16_unpack.

Theorem C16_pack_size : forall incount t, valid_dt t -> 0 <= incount -> incount * type_size t < 2 ^ 31 ->
  sc_pack_size incount t = (SUCCESS, Some (incount * type_size t)) /\ sc_type_size t = (SUCCESS, Some (type_size t)).
Proof. exact pack_size_spec. Qed.
Print Assumptions C16_pack_size.

(* rank and size queries (communicators incl. dup / split results, groups): 0 and 1, always stored *)
Theorem C16_rank_size : forall c color key,
  sc_comm_size c = (SUCCESS, Some 1) /\ sc_comm_rank c = (SUCCESS, Some 0) /\
  sc_group_size c = (SUCCESS, Some 1) /\ sc_group_rank c = (SUCCESS, Some 0) /\
  sc_comm_dup c = (SUCCESS, Some c) /\ sc_comm_split c color key = (SUCCESS, Some c) /\
  sc_comm_free c = (SUCCESS, Some COMM_NULL).
Proof. intros; repeat split. Qed.
Print Assumptions C16_rank_size.

(* completion calls on null requests (any number, also none): success and EVERY output argument stored:
   Testall's flag = 1 (repaired by 9f90c0c), Waitsome's outcount is stored (with 0; MPI stores MPI_UNDEFINED:
   documented deviation, judged only as "set") *)
Theorem C16_completion : forall reqs, Forall (fun r => r = REQUEST_NULL) reqs ->
  sc_waitall reqs = Some SUCCESS /\
  sc_testall reqs = Some (SUCCESS, Some 1) /\
  sc_waitsome reqs = Some (SUCCESS, Some 0) /\
  sc_wait REQUEST_NULL = Some SUCCESS.
Proof. exact completion_spec. Qed.
Print Assumptions C16_completion.

(* the hypotheses are satisfiable by non-trivial inputs *)
Example C16_ex_gatherv : valid_dt h_MPI_INT /\ contiguous_ok h_MPI_INT 2 1 /\
  sc_gatherv [1;2;3;4;5;6;7;8] 2 h_MPI_INT (repeat 238 16) 2 1 h_MPI_INT
  = (SUCCESS, Some [238;238;238;238;1;2;3;4;5;6;7;8;238;238;238;238]).
Proof. split; [eexists; vm_compute; reflexivity|]. split; [left; reflexivity|vm_compute; reflexivity]. Qed.

Example C16_ex_pack : sc_pack [1;2;3;4;5;6;7;8] 2 h_MPI_INT (repeat 238 9) 9 1 = (SUCCESS, Some [238;1;2;3;4;5;6;7;8], 9) /\
  sc_pack [1;2;3;4;5;6;7;8] 2 h_MPI_INT (repeat 238 9) 9 2 = (ERR_NO_SPACE, Some (repeat 238 9), 2).
Proof. vm_compute. split; reflexivity. Qed.
