(* C16 - the serial MPI emulation behaves like MPI on a single-rank communicator.
   Statements about (a) Gen.MpiC16.sc_mpi_sizeof, GENERATED from /repo/src/sc_mpi.c on every run, and
   (b) the executable model coq/C16/MpiModel.v of the stubs, tied to the code by running the same driver
   program against the serial build, the model and OpenMPI with one rank (checks/C16.py).
   The specification (coq/C16/MpiSpec1.v) is MPI's semantics at P = 1 over typed elements (size, extent).
   This file contains only statements, `exact` proofs and Print Assumptions. *)
From Coq Require Import ZArith List Bool.
From ScV Require Import Base.CInt Gen.MpiC16 C11.IoModel C16.MpiModel C16.MpiSpec1 C16.MpiProofs C16.MpiGen C16.MpiHist C16.MpiExact.
Import ListNotations.
Local Open Scope Z_scope.

(* sc_mpi_sizeof (= sc_MPI_Type_size) gives the ABI sizes (LP64) that MPI_Type_size reports *)
Theorem C16_sizeof_abi : forall t, valid_dt t -> sc_mpi_sizeof t = type_size t.
Proof. exact sizeof_abi. Qed.
Print Assumptions C16_sizeof_abi.

Theorem C16_sizeof_values :
  sc_mpi_sizeof h_MPI_BYTE = 1 /\ sc_mpi_sizeof h_MPI_CHAR = 1 /\ sc_mpi_sizeof h_MPI_UNSIGNED_CHAR = 1 /\
  sc_mpi_sizeof h_MPI_SHORT = 2 /\ sc_mpi_sizeof h_MPI_UNSIGNED_SHORT = 2 /\
  sc_mpi_sizeof h_MPI_INT = 4 /\ sc_mpi_sizeof h_MPI_UNSIGNED = 4 /\
  sc_mpi_sizeof h_MPI_LONG = 8 /\ sc_mpi_sizeof h_MPI_UNSIGNED_LONG = 8 /\ sc_mpi_sizeof h_MPI_LONG_LONG_INT = 8 /\
  sc_mpi_sizeof h_MPI_FLOAT = 4 /\ sc_mpi_sizeof h_MPI_DOUBLE = 8 /\ sc_mpi_sizeof h_MPI_LONG_DOUBLE = 16 /\
  sc_mpi_sizeof h_MPI_2INT = 8 /\ sc_mpi_sizeof h_MPI_DOUBLE_INT = 12.
Proof. vm_compute. repeat split. Qed.
Print Assumptions C16_sizeof_values.

(* Ranges such as `0 <= np < 2 ^ 31`, `0 <= displ < 2 ^ 31` are the TYPE of the parameter (`int`, documented as >= 0), not a
   restriction: the byte counts np * size (up to 2^31 * 16) and offsets displ * size are size_t in the code and u64 in the
   model, and do not wrap anywhere on this range (MpiProofs.copy_len_small). *)
(* Gather / Allgather / Alltoall with one rank: for every datatype, count >= 0, buffer contents:
   success, the contribution is element 0.. of the receive buffer, nothing else changes.
   Full-strength statement = this one without `contiguous_ok`; it is refuted below (F-C16b). *)
Theorem C16_gather : forall send recv np t nq tq,
  valid_dt t -> 0 <= np < 2 ^ 31 -> contiguous_ok t np 0 ->
  np * extent t <= len send -> np * extent t <= len recv ->
  exists r', sc_gather send np t recv nq tq = (SUCCESS, Some r') /\ coll_ok t np 0 send recv r'.
Proof. exact gather_spec. Qed.
Print Assumptions C16_gather.

Theorem C16_allgather_alltoall : sc_allgather = sc_gather /\ sc_alltoall = sc_gather /\ sc_allgatherv = sc_gatherv.
Proof. repeat split. Qed.
Print Assumptions C16_allgather_alltoall.

(* Gatherv / Allgatherv: every displacement >= 0 *)
Theorem C16_gatherv : forall send recv np t displ,
  valid_dt t -> 0 <= np < 2 ^ 31 -> 0 <= displ < 2 ^ 31 -> contiguous_ok t np displ ->
  np * extent t <= len send -> (displ + np) * extent t <= len recv ->
  exists r', sc_gatherv send np t recv np displ t = (SUCCESS, Some r') /\ coll_ok t np displ send recv r'.
Proof. exact gatherv_spec. Qed.
Print Assumptions C16_gatherv.

(* Reduce / Allreduce / Reduce_scatter_block / Scan: with one operand the result is the operand, for
   every operation `op` *)
Theorem C16_reduce : forall send recv n t op,
  valid_dt t -> 0 <= n < 2 ^ 31 -> contiguous_ok t n 0 ->
  n * extent t <= len send -> n * extent t <= len recv ->
  exists r', sc_reduce send recv n t op = (SUCCESS, Some r') /\ coll_ok t n 0 send recv r'.
Proof. exact reduce_spec. Qed.
Print Assumptions C16_reduce.

Theorem C16_reduce_family : sc_allreduce = sc_reduce /\ sc_reduce_scatter_block = sc_reduce /\ sc_scan = sc_reduce.
Proof. repeat split. Qed.
Print Assumptions C16_reduce_family.

(* Exscan leaves the receive buffer of rank 0 alone, Bcast leaves the root's buffer alone, Barrier succeeds *)
Theorem C16_exscan_bcast_barrier : forall p q n t op,
  sc_exscan p q n t op = (SUCCESS, Some q) /\ sc_bcast p n t = (SUCCESS, Some p) /\ sc_barrier = SUCCESS.
Proof. intros; repeat split. Qed.
Print Assumptions C16_exscan_bcast_barrier.

(* the unguarded collective statement is false of the code: two MPI_DOUBLE_INT elements (12 data bytes,
   stride 16) - known finding F-C16b *)
Theorem C16_double_int_refuted :
  valid_dt h_MPI_DOUBLE_INT /\ 2 * extent h_MPI_DOUBLE_INT <= len di_send /\
  exists r', sc_gather di_send 2 h_MPI_DOUBLE_INT di_recv 2 h_MPI_DOUBLE_INT = (SUCCESS, Some r') /\
             ~ coll_ok h_MPI_DOUBLE_INT 2 0 di_send di_recv r'.
Proof. exact double_int_refuted. Qed.
Print Assumptions C16_double_int_refuted.

(* F-C16b in exact form: for MPI_DOUBLE_INT the serial Gatherv (Gather / Allgather(v) / Alltoall are the case displ = 0 or
   forward to it) agrees with MPI on one rank for ALL buffer contents  if and only if  count = 0, or count = 1 and
   displacement = 0: the guard `contiguous_ok` of C16_gather / C16_gatherv cannot be weakened for this type except by the
   empty call, and every other call is a counterexample for suitable buffer contents *)
Theorem C16_double_int_exact : forall n displ, 0 <= n < 2 ^ 31 -> 0 <= displ < 2 ^ 31 ->
  ((forall send recv, n * 16 <= len send -> (displ + n) * 16 <= len recv ->
    exists r', sc_gatherv send n h_MPI_DOUBLE_INT recv n displ h_MPI_DOUBLE_INT = (SUCCESS, Some r') /\
               coll_ok h_MPI_DOUBLE_INT n displ send recv r')
   <-> n = 0 \/ (n = 1 /\ displ = 0)).
Proof. exact double_int_exact. Qed.
Print Assumptions C16_double_int_exact.

(* Pack (with the repaired space test `size > outsize - *position` and the repaired Pack_size): for EVERY count, position and
   buffer size in [0, 2^31) (the range of the `int` parameters; also position > outsize, also a byte count count * size that is
   not representable in an int): succeeds iff position + count * size <= outsize; then the elements' data bytes are laid out at
   *position and *position advances by count * size; otherwise (in particular for count * size >= 2^31) the call is refused
   and NOTHING changes.  No copy leaves a buffer. *)
Theorem C16_pack : forall inbuf incount t outbuf outsize pos,
  valid_dt t -> 0 <= incount < 2 ^ 31 -> contiguous_ok t incount 0 ->
  incount * extent t <= len inbuf -> len outbuf = outsize -> 0 <= pos < 2 ^ 31 -> outsize < 2 ^ 31 ->
  let '(rc, out', pos') := sc_pack inbuf incount t outbuf outsize pos in
  (rc = SUCCESS <-> pos + incount * type_size t <= outsize) /\
  (rc <> SUCCESS -> out' = Some outbuf /\ pos' = pos) /\
  (rc = SUCCESS -> exists o, out' = Some o /\ pack_ok t incount inbuf outbuf pos o pos').
Proof. exact pack_spec. Qed.
Print Assumptions C16_pack.

Theorem C16_unpack : forall inbuf insize pos outbuf outcount t,
  valid_dt t -> 0 <= outcount < 2 ^ 31 -> contiguous_ok t outcount 0 ->
  len inbuf = insize -> outcount * extent t <= len outbuf -> 0 <= pos < 2 ^ 31 -> insize < 2 ^ 31 ->
  let '(rc, out', pos') := sc_unpack inbuf insize pos outbuf outcount t in
  (rc = SUCCESS <-> pos + outcount * type_size t <= insize) /\
  (rc <> SUCCESS -> out' = Some outbuf /\ pos' = pos) /\
  (rc = SUCCESS -> exists o, out' = Some o /\ unpack_ok t outcount inbuf pos outbuf o pos').
Proof. exact unpack_spec. Qed.
Print Assumptions C16_unpack.

(* Pack_size: the number of bytes when it is representable in an `int`; otherwise ERR_NO_SPACE (and *size keeps the size of one
   element).  MPI's own MPI_Pack_size returns a wrapped number with MPI_SUCCESS there (OpenMPI 4: INT_MIN, 0): the emulation
   deliberately refuses instead.  Type_size: the size. *)
Theorem C16_pack_size : forall incount t, valid_dt t -> 0 <= incount < 2 ^ 31 ->
  sc_pack_size incount t = (if incount * type_size t <? 2 ^ 31 then (SUCCESS, Some (incount * type_size t))
                            else (ERR_NO_SPACE, Some (type_size t))) /\
  sc_type_size t = (SUCCESS, Some (type_size t)).
Proof. exact pack_size_spec. Qed.
Print Assumptions C16_pack_size.

(* F-C16c (repaired): regression guard.  With the OLD test `*position + size > outsize` (sc_pack_old) a legal position in a
   buffer of INT_MAX bytes and a request of 2 bytes that does not fit are accepted, the copy leaves the buffer, the position
   becomes INT_MIN; the repaired sc_pack refuses the same call and changes nothing. *)
Theorem C16_pack_overflow_old_refuted :
  let t := h_MPI_BYTE in let incount := 2 in let outsize := 2 ^ 31 - 1 in let pos := 2 ^ 31 - 2 in
  valid_dt t /\ 0 <= incount /\ 0 <= pos <= outsize /\ outsize < 2 ^ 31 /\ incount * type_size t < 2 ^ 31 /\
  outsize < pos + incount * type_size t /\
  forall inbuf outbuf, len outbuf = outsize -> incount * extent t <= len inbuf ->
    (let '(rc, out', pos') := sc_pack_old inbuf incount t outbuf outsize pos in
     rc = SUCCESS /\ out' = None /\ pos' = - 2 ^ 31) /\
    sc_pack inbuf incount t outbuf outsize pos = (ERR_NO_SPACE, Some outbuf, pos).
Proof. exact pack_overflow_old_refuted. Qed.
Print Assumptions C16_pack_overflow_old_refuted.

(* F-C16d (repaired): regression guard.  Pack BEFORE that repair (sc_pack_nocheck: the `int` product of Pack_size unchecked):
   2^28 long doubles (4 GiB) into 100 bytes: product 0, ACCEPTED, nothing packed; 2^27 long doubles (2 GiB) into INT_MAX bytes:
   product INT_MIN, the space test passes, the copy leaves every buffer, position INT_MIN.  The repaired sc_pack refuses both
   and changes nothing; Pack_size refuses from count * 16 = 2^31 on and is exact one element below. *)
Theorem C16_pack_size_overflow_old_refuted :
  let t := h_MPI_LONG_DOUBLE in
  valid_dt t /\ type_size t = 16 /\
  (forall inbuf outbuf, len outbuf = 100 ->
     sc_pack_nocheck inbuf (2 ^ 28) t outbuf 100 0 = (SUCCESS, Some outbuf, 0) /\
     sc_pack inbuf (2 ^ 28) t outbuf 100 0 = (ERR_NO_SPACE, Some outbuf, 0)) /\
  (forall inbuf outbuf, len outbuf = 2 ^ 31 - 1 -> len inbuf = 2 ^ 31 ->
     sc_pack_nocheck inbuf (2 ^ 27) t outbuf (2 ^ 31 - 1) 0 = (SUCCESS, None, - 2 ^ 31) /\
     sc_pack inbuf (2 ^ 27) t outbuf (2 ^ 31 - 1) 0 = (ERR_NO_SPACE, Some outbuf, 0)) /\
  sc_pack_size (2 ^ 28) t = (ERR_NO_SPACE, Some 16) /\ sc_pack_size (2 ^ 27) t = (ERR_NO_SPACE, Some 16) /\
  sc_pack_size (2 ^ 27 - 1) t = (SUCCESS, Some (2 ^ 31 - 16)).
Proof. exact pack_size_overflow_old_refuted. Qed.
Print Assumptions C16_pack_size_overflow_old_refuted.

(* code and position without the buffers (used by the run for positions near INT_MAX) are those of sc_pack *)
Theorem C16_pack_codes : forall inbuf incount t outbuf outsize pos,
  len outbuf = outsize -> u64 (pack_size_value incount t) <= len inbuf ->
  let '(rc, out', pos') := sc_pack inbuf incount t outbuf outsize pos in
  let '(rc2, pos2, over) := sc_pack_codes incount t outsize pos in
  rc = rc2 /\ pos' = pos2 /\ (over = true <-> out' = None).
Proof. exact pack_codes_spec. Qed.
Print Assumptions C16_pack_codes.

(* rank and size queries (communicators incl. dup / split results, groups): 0 and 1, always stored *)
Theorem C16_rank_size : forall c color key,
  sc_comm_size c = (SUCCESS, Some 1) /\ sc_comm_rank c = (SUCCESS, Some 0) /\
  sc_group_size c = (SUCCESS, Some 1) /\ sc_group_rank c = (SUCCESS, Some 0) /\
  sc_comm_dup c = (SUCCESS, Some c) /\ sc_comm_split c color key = (SUCCESS, Some c) /\
  sc_comm_free c = (SUCCESS, Some COMM_NULL).
Proof. intros; repeat split. Qed.
Print Assumptions C16_rank_size.

(* completion calls on null requests (any number, also none): success and EVERY output argument stored:
   Testall's flag = 1 (repaired by 9f90c0c), Waitsome's outcount is stored (with 0; MPI stores MPI_UNDEFINED:
   documented deviation, judged only as "set") *)
Theorem C16_completion : forall reqs, Forall (fun r => r = REQUEST_NULL) reqs ->
  sc_waitall reqs = Some SUCCESS /\
  sc_testall reqs = Some (SUCCESS, Some 1) /\
  sc_waitsome reqs = Some (SUCCESS, Some 0) /\
  sc_wait REQUEST_NULL = Some SUCCESS.
Proof. exact completion_spec. Qed.
Print Assumptions C16_completion.

(* ================= tie T1 for the bodies of the stubs: model = definitions GENERATED from sc_mpi.c =================
   stub_xxx (Gen/MpiC16.v) is the translated body of sc_MPI_Xxx: buffers are addresses, a call of memcpy / of another stub
   is the tuple (called, arguments ..); conventions in tools/c2g/groups_C16.py.  An edit of a byte count, an offset, a
   forwarded argument, a stored value or a returned code in sc_mpi.c changes the generated definition and breaks these. *)

(* Gather / Gatherv / Reduce: one memcpy (dest + offset, source + offset, bytes) with the model's copy descriptor, for all
   buffer addresses, counts, datatypes, displacements; sc_MPI_SUCCESS is returned *)
Theorem C16_gen_gather : forall p np tp q,
  let '(d, s, n) := gather_copy np tp in stub_gather p np tp q = (1, q + d, p + s, n, SUCCESS).
Proof. exact gen_gather. Qed.
Print Assumptions C16_gen_gather.

Theorem C16_gen_gatherv : forall p np tp q displ0 tq,
  let '(d, s, n) := gatherv_copy np tp displ0 tq in stub_gatherv p np tp q displ0 tq = (1, q + d, p + s, n, SUCCESS).
Proof. exact gen_gatherv. Qed.
Print Assumptions C16_gen_gatherv.

Theorem C16_gen_reduce : forall p q n t,
  let '(d, s, l) := gather_copy n t in stub_reduce p q n t = (1, q + d, p + s, l, SUCCESS).
Proof. exact gen_reduce. Qed.
Print Assumptions C16_gen_reduce.

(* Allgather / Alltoall / Allgatherv / Allreduce / Reduce_scatter_block / Scan call Gather / Gatherv / Reduce once with
   their own arguments in order and root 0 and return its result (the model: sc_allgather := sc_gather, ...) *)
Theorem C16_gen_forwarders : forall p np tp q nq tq recvc displ n t op comm r,
  stub_allgather p np tp q nq tq comm r = (1, p, np, tp, q, nq, tq, 0, comm, r) /\
  stub_alltoall p np tp q nq tq comm r = (1, p, np, tp, q, nq, tq, 0, comm, r) /\
  stub_allgatherv p np tp q recvc displ tq comm r = (1, p, np, tp, q, recvc, displ, tq, 0, comm, r) /\
  stub_allreduce p q n t op comm r = (1, p, q, n, t, op, 0, comm, r) /\
  stub_reduce_scatter_block p q n t op comm r = (1, p, q, n, t, op, 0, comm, r) /\
  stub_scan p q n t op comm r = (1, p, q, n, t, op, 0, comm, r).
Proof. exact gen_forwarders. Qed.
Print Assumptions C16_gen_forwarders.

Theorem C16_gen_nocopy : stub_exscan = SUCCESS /\ stub_bcast = SUCCESS /\ stub_barrier = sc_barrier.
Proof. exact gen_nocopy. Qed.
Print Assumptions C16_gen_nocopy.

(* Type_size stores (int) sc_mpi_sizeof (t); Pack_size calls Type_size (t, size); with what that stored: the
   representability guard `incount > 0 && *size > INT_MAX / incount`, the product, the code *)
Theorem C16_gen_sizes : forall incount t sizeptr r,
  sc_type_size t = (let '(v, rc) := stub_type_size t in (rc, Some v)) /\
  let '(v, _) := stub_type_size t in
  stub_pack_size incount t sizeptr r v = (1, t, sizeptr, pack_size_value incount t, pack_size_code incount t) /\
  sc_pack_size incount t = (pack_size_code incount t, Some (pack_size_value incount t)).
Proof. intros; split; [exact (gen_type_size t)|exact (gen_pack_size incount t sizeptr r)]. Qed.
Print Assumptions C16_gen_sizes.

(* Pack / Unpack: Pack_size (count, t, comm, &size) is called; for EVERY code r it returns and EVERY size it stores: a code
   other than SUCCESS is returned at once and nothing is touched; else the space test in `int` arithmetic, the memcpy, the
   advance of *position, the returned code - for all addresses and all integers *)
Theorem C16_gen_pack : forall inbuf incount t outbuf outsize pos comm r size,
  stub_pack inbuf incount t outbuf outsize pos comm r size =
  if negb (r =? SUCCESS) then (1, incount, t, comm, 0, 0, 0, 0, pos, r)
  else if pack_refuses pos size outsize then (1, incount, t, comm, 0, 0, 0, 0, pos, ERR_NO_SPACE)
  else let '(d, s, n) := pack_copy pos size in
       (1, incount, t, comm, 1, outbuf + d, inbuf + s, n, pack_advance pos size, SUCCESS).
Proof. exact gen_pack. Qed.
Print Assumptions C16_gen_pack.

Theorem C16_gen_unpack : forall inbuf insize pos outbuf outcount t comm r size,
  stub_unpack inbuf insize pos outbuf outcount t comm r size =
  if negb (r =? SUCCESS) then (1, outcount, t, comm, 0, 0, 0, 0, pos, r)
  else if pack_refuses pos size insize then (1, outcount, t, comm, 0, 0, 0, 0, pos, ERR_NO_SPACE)
  else let '(d, s, n) := unpack_copy pos size in
       (1, outcount, t, comm, 1, outbuf + d, inbuf + s, n, pack_advance pos size, SUCCESS).
Proof. exact gen_unpack. Qed.
Print Assumptions C16_gen_unpack.

(* the model's Pack / Unpack ARE the generated control flow, fed with the code and the size of the generated Pack_size, with
   the generated memcpy applied to the two lists *)
Theorem C16_gen_pack_model : forall inbuf incount t outbuf outsize pos,
  sc_pack inbuf incount t outbuf outsize pos =
  let '(_, _, _, size, r) := stub_pack_size incount t 0 0 (fst (stub_type_size t)) in
  let '(_, _, _, _, called, dst, src, n, pos', rc) := stub_pack 0 incount t 0 outsize pos 0 r size in
  (rc, if called =? 1 then memcpy_at outbuf dst inbuf src n else Some outbuf, pos').
Proof. exact gen_pack_model. Qed.
Print Assumptions C16_gen_pack_model.

Theorem C16_gen_unpack_model : forall inbuf insize pos outbuf outcount t,
  sc_unpack inbuf insize pos outbuf outcount t =
  let '(_, _, _, size, r) := stub_pack_size outcount t 0 0 (fst (stub_type_size t)) in
  let '(_, _, _, _, called, dst, src, n, pos', rc) := stub_unpack 0 insize pos 0 outcount t 0 r size in
  (rc, if called =? 1 then memcpy_at outbuf dst inbuf src n else Some outbuf, pos').
Proof. exact gen_unpack_model. Qed.
Print Assumptions C16_gen_unpack_model.

(* communicators and groups: the value stored through the output pointer and the returned code *)
Theorem C16_gen_comm : forall c color key,
  sc_comm_size c = (snd stub_comm_size, Some (fst stub_comm_size)) /\
  sc_comm_rank c = (snd stub_comm_rank, Some (fst stub_comm_rank)) /\
  sc_group_size c = (snd stub_group_size, Some (fst stub_group_size)) /\
  sc_group_rank c = (snd stub_group_rank, Some (fst stub_group_rank)) /\
  sc_comm_free c = (snd stub_comm_free, Some (fst stub_comm_free)) /\
  sc_comm_group c = (snd stub_comm_group, Some (fst stub_comm_group)) /\
  sc_group_free c = (snd stub_group_free, Some (fst stub_group_free)) /\
  sc_comm_dup c = (snd (stub_comm_dup c), Some (fst (stub_comm_dup c))) /\
  sc_comm_split c color key = (snd (stub_comm_split c), Some (fst (stub_comm_split c))).
Proof. exact gen_comm. Qed.
Print Assumptions C16_gen_comm.

Theorem C16_gen_init_thread : forall provided old,
  stub_init_thread provided old =
  if provided =? 0 then (old, fst sc_init_thread)
  else (match snd sc_init_thread with Some v => v | None => old end, fst sc_init_thread).
Proof. exact gen_init_thread. Qed.
Print Assumptions C16_gen_init_thread.

(* completion calls: the generated loops terminate for every request array (shorter than INT_MAX; reqfun reqs i = the i-th
   request) and every sufficient fuel; `ok` (no SC_CHECK_ABORT fired) is the model's all_null; Testall stores flag = 1,
   Waitsome stores outcount = 0 *)
Theorem C16_gen_wait : forall req, stub_wait req = (b2z (req =? REQUEST_NULL), SUCCESS) /\
  sc_wait req = if z2b (fst (stub_wait req)) then Some (snd (stub_wait req)) else None.
Proof. exact gen_wait. Qed.
Print Assumptions C16_gen_wait.

Theorem C16_gen_completion : forall reqs fuel old, len reqs < 2147483647 -> (length reqs < fuel)%nat ->
  stub_waitall fuel (reqfun reqs) (len reqs) = Some (b2z (all_null reqs), SUCCESS) /\
  stub_testall fuel (reqfun reqs) (len reqs) old = Some (b2z (all_null reqs), 1, SUCCESS) /\
  stub_waitsome fuel (reqfun reqs) (len reqs) old = Some (b2z (all_null reqs), 0, SUCCESS) /\
  sc_waitall reqs = (if all_null reqs then Some SUCCESS else None) /\
  sc_testall reqs = (if all_null reqs then Some (SUCCESS, Some 1) else None) /\
  sc_waitsome reqs = (if all_null reqs then Some (SUCCESS, Some 0) else None).
Proof. exact gen_completion. Qed.
Print Assumptions C16_gen_completion.

(* Error_class: NULL pointer gives ERR_ARG and stores nothing; else the model *)
Theorem C16_gen_error_class : forall code ptr old,
  stub_error_class code ptr old =
  if ptr =? 0 then (old, ERR_ARG)
  else (match snd (sc_error_class code) with Some v => v | None => old end, fst (sc_error_class code)).
Proof. exact gen_error_class. Qed.
Print Assumptions C16_gen_error_class.

(* Error_string, the whole body for ALL arguments (gen_msg code = the literal of the source handed to snprintf, lit k = the
   bytes of literal k), the messages = the model's table for ALL codes, and the model under the contract of snprintf *)
Theorem C16_gen_error_string : forall code str rl old snret,
  stub_error_string code str rl old snret =
  if ((str =? 0) || (rl =? 0))%bool then (0, 0, 0, 0, 0, old, ERR_ARG)
  else match gen_msg code with
       | None => (0, 0, 0, 0, 0, old, ERR_UNKNOWN)
       | Some k => if snret <? 0 then (1, str, MAX_ERROR_STRING, gen_fmt, k, old, h_MPI_ERR_NO_MEM)
                   else (1, str, MAX_ERROR_STRING, gen_fmt, k, (if MAX_ERROR_STRING <=? snret then MAX_ERROR_STRING - 1 else snret), SUCCESS)
       end.
Proof. exact gen_error_string. Qed.
Print Assumptions C16_gen_error_string.

Theorem C16_gen_error_string_table : forall code,
  option_map lit (gen_msg code) = message_of code error_messages /\ lit gen_fmt = [37; 115].
Proof. exact gen_error_string_table. Qed.
Print Assumptions C16_gen_error_string_table.

Theorem C16_gen_error_string_model : forall code str rl old, str <> 0 -> rl <> 0 ->
  match sc_error_string code with
  | (rc, Some txt, Some n) =>
      0 < len txt < MAX_ERROR_STRING /\ rc = SUCCESS /\ n = len txt /\
      exists k, lit k = txt /\ stub_error_string code str rl old (len txt) = (1, str, MAX_ERROR_STRING, gen_fmt, k, n, rc)
  | (rc, None, None) => forall snret, stub_error_string code str rl old snret = (0, 0, 0, 0, 0, old, rc)
  | _ => False
  end.
Proof. exact gen_error_string_model. Qed.
Print Assumptions C16_gen_error_string_model.

(* sc_mpi_sizeof in the configuration WITH MPI (the same source translated against OpenMPI's mpi.h, where the predefined
   handles are addresses of global objects): for ANY placement of the 15 objects at pairwise different addresses it gives
   for the k-th handle what the serial one gives for the k-th serial handle, i.e. MPI_Type_size *)
Theorem C16_gen_sizeof_mpi : forall base : Z -> Z,
  (forall i j, 0 <= i < 15 -> 0 <= j < 15 -> base i = base j -> i = j) ->
  forall k, 0 <= k < 15 ->
  sc_mpi_sizeof_mpi (base k) (base 0) (base 1) (base 2) (base 3) (base 4) (base 5) (base 6) (base 7) (base 8) (base 9)
                    (base 10) (base 11) (base 12) (base 13) (base 14)
  = sc_mpi_sizeof (nth (Z.to_nat k) serial_handles 0) /\
  valid_dt (nth (Z.to_nat k) serial_handles 0) /\
  sc_mpi_sizeof (nth (Z.to_nat k) serial_handles 0) = type_size (nth (Z.to_nat k) serial_handles 0).
Proof. exact gen_sizeof_mpi. Qed.
Print Assumptions C16_gen_sizeof_mpi.

(* ================= histories ================= *)
(* (item_ok: valid datatype, 0 <= count < 2^31, count * size bytes of data - NOT necessarily representable in an int: such an
   item is refused; buffers shorter than 2^31 bytes: `outsize` is an int; NO bound on the sum of the items)
   Pack several items one after the other into one buffer (each call continues at the position the previous one left),
   then Unpack them with the same datatypes and counts from the same start: every Unpack delivers the bytes that were
   packed, the position after the i-th Pack equals the position after the i-th Unpack for every i, the final positions
   agree, the buffer outside [pos, final) is untouched *)
Theorem C16_pack_unpack_roundtrip : forall items outs buf pos buf' posN ps, Forall item_ok items ->
  Forall2 (fun it o => len (it_data it) <= len o) items outs -> 0 <= pos <= len buf -> len buf < 2 ^ 31 ->
  pack_seq items buf pos = Some (buf', posN, ps) ->
  unpack_seq (shape_of items outs) buf' pos = Some (delivered items outs, posN, ps) /\
  posN = pos + total items /\ posN <= len buf /\ len buf' = len buf /\
  take pos buf' = take pos buf /\ drop posN buf' = drop posN buf.
Proof. exact pack_unpack_roundtrip. Qed.
Print Assumptions C16_pack_unpack_roundtrip.

(* a sequence of Packs is accepted as a whole iff everything fits: some call refuses otherwise *)
Theorem C16_pack_seq_refuses : forall items buf pos, Forall item_ok items -> 0 <= pos <= len buf -> len buf < 2 ^ 31 ->
  (pack_seq items buf pos = None <-> len buf < pos + total items).
Proof. exact pack_seq_refuses. Qed.
Print Assumptions C16_pack_seq_refuses.

Theorem C16_pack_twice_is_pack_once : forall t n1 n2 d1 d2 buf pos, item_ok (t, n1, d1) -> item_ok (t, n2, d2) ->
  0 <= pos <= len buf -> len buf < 2 ^ 31 -> n1 + n2 < 2 ^ 31 ->
  match pack_seq [(t, n1, d1); (t, n2, d2)] buf pos, pack_seq [(t, n1 + n2, d1 ++ d2)] buf pos with
  | Some (b, p, _), Some (b', p', _) => b = b' /\ p = p'
  | None, None => True
  | _, _ => False
  end.
Proof. exact pack_twice_is_pack_once. Qed.
Print Assumptions C16_pack_twice_is_pack_once.

(* the position at the boundary: exact fit, one byte too many, nothing to pack at position = size *)
Theorem C16_pack_boundary : forall t n d buf pos, item_ok (t, n, d) -> 0 <= pos <= len buf -> len buf < 2 ^ 31 ->
  (pos + len d = len buf -> sc_pack d n t buf (len buf) pos = (SUCCESS, Some (take pos buf ++ d), len buf)) /\
  (pos + len d = len buf + 1 -> sc_pack d n t buf (len buf) pos = (ERR_NO_SPACE, Some buf, pos)) /\
  (n = 0 -> sc_pack d n t buf (len buf) pos = (SUCCESS, Some buf, pos)).
Proof. exact pack_boundary. Qed.
Print Assumptions C16_pack_boundary.

Theorem C16_unpack_boundary : forall t n o buf pos, valid_dt t -> 0 <= n < 2 ^ 31 -> n * type_size t <= len o ->
  0 <= pos <= len buf -> len buf < 2 ^ 31 ->
  (pos + n * type_size t = len buf ->
   sc_unpack buf (len buf) pos o n t = (SUCCESS, Some (drop pos buf ++ drop (n * type_size t) o), len buf)) /\
  (pos + n * type_size t = len buf + 1 -> sc_unpack buf (len buf) pos o n t = (ERR_NO_SPACE, Some o, pos)) /\
  (n = 0 -> sc_unpack buf (len buf) pos o n t = (SUCCESS, Some o, pos)).
Proof. exact unpack_boundary. Qed.
Print Assumptions C16_unpack_boundary.

(* reuse of outputs: Gather, Allreduce of the gathered buffer, Scan of that result *)
Theorem C16_collective_chain : forall p q r s n t op, valid_dt t -> 0 <= n < 2 ^ 31 ->
  n * type_size t <= len p -> n * type_size t <= len q -> n * type_size t <= len r -> n * type_size t <= len s ->
  exists q' r' s', sc_gather p n t q n t = (SUCCESS, Some q') /\ sc_allreduce q' r n t op = (SUCCESS, Some r') /\
                   sc_scan r' s n t op = (SUCCESS, Some s') /\
                   len q' = len q /\ len r' = len r /\
                   s' = take (n * type_size t) p ++ drop (n * type_size t) s.
Proof. exact collective_chain. Qed.
Print Assumptions C16_collective_chain.

(* the hypotheses are satisfiable by non-trivial inputs *)
Example C16_ex_gatherv : valid_dt h_MPI_INT /\ contiguous_ok h_MPI_INT 2 1 /\
  sc_gatherv [1;2;3;4;5;6;7;8] 2 h_MPI_INT (repeat 238 16) 2 1 h_MPI_INT
  = (SUCCESS, Some [238;238;238;238;1;2;3;4;5;6;7;8;238;238;238;238]).
Proof. split; [eexists; vm_compute; reflexivity|]. split; [left; reflexivity|vm_compute; reflexivity]. Qed.

Example C16_ex_pack : sc_pack [1;2;3;4;5;6;7;8] 2 h_MPI_INT (repeat 238 9) 9 1 = (SUCCESS, Some [238;1;2;3;4;5;6;7;8], 9) /\
  sc_pack [1;2;3;4;5;6;7;8] 2 h_MPI_INT (repeat 238 9) 9 2 = (ERR_NO_SPACE, Some (repeat 238 9), 2).
Proof. vm_compute. split; reflexivity. Qed.

(* three items of different types packed at position 3 into 20 bytes and unpacked again *)
Example C16_ex_roundtrip :
  let items := [(h_MPI_BYTE, 2, [1; 2]); (h_MPI_INT, 1, [3; 4; 5; 6]); (h_MPI_SHORT, 2, [7; 8; 9; 10])] in
  Forall item_ok items /\
  pack_seq items (repeat 238 20) 3 = Some ([238;238;238;1;2;3;4;5;6;7;8;9;10;238;238;238;238;238;238;238], 13, [5; 9; 13]) /\
  unpack_seq (shape_of items [[0;0;0]; [0;0;0;0]; [0;0;0;0;0]]) [238;238;238;1;2;3;4;5;6;7;8;9;10;238;238;238;238;238;238;238] 3
  = Some ([[1;2;0]; [3;4;5;6]; [7;8;9;10;0]], 13, [5; 9; 13]) /\
  pack_seq items (repeat 238 12) 3 = None.
Proof.
  split; [repeat (apply Forall_cons || apply Forall_nil); (split; [eexists; vm_compute; reflexivity|vm_compute; repeat split; congruence])|].
  vm_compute. repeat split.
Qed.

Example C16_ex_gen_completion : stub_testall 4 (reqfun [REQUEST_NULL; REQUEST_NULL; REQUEST_NULL]) 3 (-5) = Some (1, 1, 0) /\
  stub_waitsome 4 (reqfun [REQUEST_NULL; 7; REQUEST_NULL]) 3 (-5) = Some (0, 0, 0).
Proof. vm_compute. split; reflexivity. Qed.
