(* C02 - notify delivers every payload intact.  The slot formula is GENERATED from its four copies in sc_notify.c. *)
From Coq Require Import ZArith List Bool Permutation.
From ScV Require Import Base.CInt Gen.NotifyC01 C02.SlotProofs C02.PayloadModel C01.MergeModel C01.MergeProofs C01.MergeCorr Gen.Consts MPI.Prog C01.NotifyProgs C01.NotifyProgProofs.
Import ListNotations.
Local Open Scope Z_scope.

(* every item size >= 1: the reserved int slots hold the item (no truncation, no write beyond the record)
   and are not one more than needed, at all four sites *)
Theorem C02_slots_init_input : forall p sz, p <> 0 -> 0 < sz < 2 ^ 31 -> slots_ok (npay_init_input p sz) sz.
Proof. exact npay_init_input_ok. Qed.
Print Assumptions C02_slots_init_input.
Theorem C02_slots_reset_output : forall p sz, p <> 0 -> 0 < sz < 2 ^ 31 -> slots_ok (npay_reset_output p sz) sz.
Proof. exact npay_reset_output_ok. Qed.
Print Assumptions C02_slots_reset_output.
Theorem C02_slots_nary : forall p sz, p <> 0 -> 0 < sz < 2 ^ 31 -> slots_ok (npay_nary p sz) sz.
Proof. exact npay_nary_ok. Qed.
Print Assumptions C02_slots_nary.
Theorem C02_slots_pex : forall p sz, p <> 0 -> 0 < sz < 2 ^ 31 -> slots_ok (npay_pex p sz) sz.
Proof. exact npay_pex_ok. Qed.
Print Assumptions C02_slots_pex.

(* packer and unpacker use the same stride *)
Theorem C02_slots_agree : forall p sz,
  npay_init_input p sz = npay_reset_output p sz /\ npay_reset_output p sz = npay_nary p sz /\ npay_nary p sz = npay_pex p sz.
Proof. exact npay_sites_agree. Qed.
Print Assumptions C02_slots_agree.

(* an item packed into its slots is unpacked unchanged, whatever the uninitialised padding contains *)
Theorem C02_unpack_pack : forall n sz item junk, Z.of_nat (length item) = sz -> unpack sz (pack n item junk) = item.
Proof. exact unpack_pack. Qed.
Print Assumptions C02_unpack_pack.

(* variable sizes: offsets start at 0, one more entry than senders, consecutive differences = lengths sent *)
Theorem C02_offsets : forall lens,
  nth 0 (out_offsets lens) 0 = 0 /\ length (out_offsets lens) = S (length lens) /\
  forall i, (i < length lens)%nat -> nth (S i) (out_offsets lens) 0 - nth i (out_offsets lens) 0 = nth i lens 0.
Proof. exact out_offsets_spec. Qed.
Print Assumptions C02_offsets.

(* sorting (sender, payload) records with any sorting routine keeps each payload with its sender *)
Theorem C02_sort_keeps_pairs : forall (sort : list (Z * list Z) -> list (Z * list Z)),
  (forall l, Permutation (sort l) l) -> forall l s p, In (s, p) (sort l) <-> In (s, p) l.
Proof. exact sort_keeps_pairs. Qed.
Print Assumptions C02_sort_keeps_pairs.

Example C02_nonvacuous : slots_ok (npay_nary 1 5) 5 /\ npay_nary 1 5 = 2 /\ npay_pex 1 13 = 4 /\ out_offsets [2; 0; 3] = [0; 2; 2; 5].
Proof. repeat split; vm_compute; congruence || reflexivity. Qed.

(* ---- payload ints travel with their sender through sc_notify_merge ----------------------------------------
   (t, (f, pay)) in pairs rs: the record array rs holds the notification of sender f for destination t with the
   payload ints pay.  No hypothesis on the operands. *)
Theorem C02_merge_keeps_payload : forall a b t f pay,
  In (t, (f, pay)) (pairs (rmerge a b)) <-> In (t, (f, pay)) (pairs a) \/ In (t, (f, pay)) (pairs b).
Proof. intros a b t f pay. exact (rmerge_pairs_In a b (t, (f, pay))). Qed.
Print Assumptions C02_merge_keeps_payload.

(* every sender entry keeps its npay slots (the record stride is preserved) *)
Theorem C02_merge_keeps_stride : forall n a b, wfpay n a -> wfpay n b -> wfpay n (rmerge a b).
Proof. exact rmerge_wfpay. Qed.
Print Assumptions C02_merge_keeps_stride.

(* the int-level model of sc_notify_merge (tied to the C function on every run) realises that merge for every
   number of payload ints per sender *)
Theorem C02_merge_model : forall n a b, wfpay n a -> wfpay n b ->
  notify_merge (Z.of_nat n) (encode a) (encode b) = encode (rmerge (live a) b).
Proof. exact notify_merge_encode. Qed.
Print Assumptions C02_merge_model.

Example C02_merge_nonvacuous :
  notify_merge 2 (encode [(4, [(1, [10; 11]); (6, [60; 61])])]) (encode [(4, [(3, [30; 31])]); (5, [(0, [7; 8])])])
  = [4; 3; 1; 10; 11; 3; 30; 31; 6; 60; 61; 5; 1; 0; 7; 8].
Proof. vm_compute. reflexivity. Qed.

(* ---- pcx / rsx with one payload item per receiver (program co-simulated against the real code) ---------------
   For every receiver family R, every payload family pay (pay s r = the bytes s addresses to r, any size), every
   order of arrival: each rank sends pay me r to every r it lists and ends with the senders (ascending if sorted,
   else in arrival order) and, at the position of sender s, exactly pay s me. *)
Theorem C02_census_program : forall (coll : Z -> list payload -> Z -> payload) kind,
  (forall cs r, coll kind cs r = [fold_right Z.add 0 (map (fun c => nth (Z.to_nat r) c 0) cs)]) ->
  forall P (R : Z -> list Z) (pay : Z -> Z -> payload), 0 < P -> forall me (sorted : bool) (order : list Z),
  0 <= me < P -> Permutation order (transpose P R me) ->
  let final := if sorted then transpose P R me else order in
  run (census_replies coll kind P R pay me order)
      (census_core kind P (R me) (Some (map (pay me) (R me))) sorted (fun s g => Ret (result s g)))
  = (census_actions kind P R pay me (length order), Some (result final (map (fun s => pay s me) final))).
Proof. exact census_round. Qed.
Print Assumptions C02_census_program.
