(* C02 - notify delivers every payload intact.  The slot formula is GENERATED from its four copies in sc_notify.c. *)
From Coq Require Import ZArith List Bool Permutation.
From ScV Require Import Base.CInt Gen.NotifyC01 C02.SlotProofs C02.PayloadModel C01.MergeModel C01.MergeProofs C01.MergeCorr Gen.Consts MPI.Prog C01.NotifyProgs C01.NotifyProgProofs C01.NaryArith C01.NaryDelivery C01.RecordOps C01.BinaryRound C01.NaryRound C01.NaryCore C01.PexRound C01.NbxProofs C01.RangesRound C01.SupersetProofs C02.CensusvProofs.
From ScV Require C02.ReusedOutputs.
From ScV Require C15.RangesModel.
Import ListNotations.
Local Open Scope Z_scope.

(* every item size >= 1: the reserved int slots hold the item (no truncation, no write beyond the record)
   and are not one more than needed, at all four sites *)
Theorem C02_slots_init_input : forall p sz, p <> 0 -> 0 < sz < 2 ^ 31 -> slots_ok (npay_init_input p sz) sz.
Proof. exact npay_init_input_ok. Qed.
Print Assumptions C02_slots_init_input.
Theorem C02_slots_reset_output : forall p sz, p <> 0 -> 0 < sz < 2 ^ 31 -> slots_ok (npay_reset_output p sz) sz.
Proof. exact npay_reset_output_ok. Qed.
Print Assumptions C02_slots_reset_output.
Theorem C02_slots_nary : forall p sz, p <> 0 -> 0 < sz < 2 ^ 31 -> slots_ok (npay_nary p sz) sz.
Proof. exact npay_nary_ok. Qed.
Print Assumptions C02_slots_nary.
Theorem C02_slots_pex : forall p sz, p <> 0 -> 0 < sz < 2 ^ 31 -> slots_ok (npay_pex p sz) sz.
Proof. exact npay_pex_ok. Qed.
Print Assumptions C02_slots_pex.

(* packer and unpacker use the same stride *)
Theorem C02_slots_agree : forall p sz,
  npay_init_input p sz = npay_reset_output p sz /\ npay_reset_output p sz = npay_nary p sz /\ npay_nary p sz = npay_pex p sz.
Proof. exact npay_sites_agree. Qed.
Print Assumptions C02_slots_agree.

(* an item packed into its slots is unpacked unchanged, whatever the uninitialised padding contains *)
Theorem C02_unpack_pack : forall n sz item junk, Z.of_nat (length item) = sz -> unpack sz (pack n item junk) = item.
Proof. exact unpack_pack. Qed.
Print Assumptions C02_unpack_pack.

(* variable sizes: offsets start at 0, one more entry than senders, consecutive differences = lengths sent *)
Theorem C02_offsets : forall lens,
  nth 0 (out_offsets lens) 0 = 0 /\ length (out_offsets lens) = S (length lens) /\
  forall i, (i < length lens)%nat -> nth (S i) (out_offsets lens) 0 - nth i (out_offsets lens) 0 = nth i lens 0.
Proof. exact out_offsets_spec. Qed.
Print Assumptions C02_offsets.

(* sorting (sender, payload) records with any sorting routine keeps each payload with its sender *)
Theorem C02_sort_keeps_pairs : forall (sort : list (Z * list Z) -> list (Z * list Z)),
  (forall l, Permutation (sort l) l) -> forall l s p, In (s, p) (sort l) <-> In (s, p) l.
Proof. exact sort_keeps_pairs. Qed.
Print Assumptions C02_sort_keeps_pairs.

Example C02_nonvacuous : slots_ok (npay_nary 1 5) 5 /\ npay_nary 1 5 = 2 /\ npay_pex 1 13 = 4 /\ out_offsets [2; 0; 3] = [0; 2; 2; 5].
Proof. repeat split; vm_compute; congruence || reflexivity. Qed.

(* ---- payload ints travel with their sender through sc_notify_merge ----------------------------------------
   (t, (f, pay)) in pairs rs: the record array rs holds the notification of sender f for destination t with the
   payload ints pay.  No hypothesis on the operands. *)
Theorem C02_merge_keeps_payload : forall a b t f pay,
  In (t, (f, pay)) (pairs (rmerge a b)) <-> In (t, (f, pay)) (pairs a) \/ In (t, (f, pay)) (pairs b).
Proof. intros a b t f pay. exact (rmerge_pairs_In a b (t, (f, pay))). Qed.
Print Assumptions C02_merge_keeps_payload.

(* every sender entry keeps its npay slots (the record stride is preserved) *)
Theorem C02_merge_keeps_stride : forall n a b, wfpay n a -> wfpay n b -> wfpay n (rmerge a b).
Proof. exact rmerge_wfpay. Qed.
Print Assumptions C02_merge_keeps_stride.

(* the int-level model of sc_notify_merge (tied to the C function on every run) realises that merge for every
   number of payload ints per sender *)
Theorem C02_merge_model : forall n a b, wfpay n a -> wfpay n b ->
  notify_merge (Z.of_nat n) (encode a) (encode b) = encode (rmerge (live a) b).
Proof. exact notify_merge_encode. Qed.
Print Assumptions C02_merge_model.

Example C02_merge_nonvacuous :
  notify_merge 2 (encode [(4, [(1, [10; 11]); (6, [60; 61])])]) (encode [(4, [(3, [30; 31])]); (5, [(0, [7; 8])])])
  = [4; 3; 1; 10; 11; 3; 30; 31; 6; 60; 61; 5; 1; 0; 7; 8].
Proof. vm_compute. reflexivity. Qed.

(* ---- pcx / rsx with one payload item per receiver (program co-simulated against the real code) ---------------
   For every receiver family R, every payload family pay (pay s r = the bytes s addresses to r, any size), every
   order of arrival: each rank sends pay me r to every r it lists and ends with the senders (ascending if sorted,
   else in arrival order) and, at the position of sender s, exactly pay s me. *)
Theorem C02_census_program : forall (coll : Z -> list payload -> Z -> payload) kind,
  (forall cs r, coll kind cs r = [fold_right Z.add 0 (map (fun c => nth (Z.to_nat r) c 0) cs)]) ->
  forall P (R : Z -> list Z) (pay : Z -> Z -> payload), 0 < P -> forall me (sorted : bool) (order : list Z),
  0 <= me < P -> Permutation order (transpose P R me) ->
  let final := if sorted then transpose P R me else order in
  run (census_replies coll kind P R pay me order)
      (census_core kind P (R me) (Some (map (pay me) (R me))) sorted (fun s g => Ret (result s g)))
  = (census_actions kind P R pay me (length order), Some (result final (map (fun s => pay s me) final))).
Proof. exact census_round. Qed.
Print Assumptions C02_census_program.

(* ---- binary algorithm with one payload item per receiver (sc_notify_payload_wrapper after sc_notify) ----------------
   Round semantics of the co-simulated program binary_core: after the levels (C01_binary_round_semantics) every rank
   sends pay me r to every listed r and receives, by named receives, pay s me from every rank s that listed it; the
   result carries pay s me at the position of s, for every arrival order at the levels. *)
Theorem C02_binary_round_semantics : forall G (R : Z -> list Z) (pay : Z -> Z -> payload), 0 < G <= BIG ->
  (forall f, 0 <= f < G -> ssorted (fun x => x) (R f) /\ forall t, In t (R f) -> 0 <= t < G) ->
  exists n : nat, binary_pow2length G = 2 ^ Z.of_nat n /\
  forall (first2 : nat -> Z -> bool) me, 0 <= me < G ->
    run (levels_replies G R first2 0 n me ++ repeat [] (length (R me)) ++ map (fun s => s :: pay s me) (transpose G R me))
        (binary_core G me (R me) (Some (map (pay me) (R me))) (fun s g => Ret (result s g)))
    = (levels_acts G R first2 0 n me ++ map (fun r => Send r c_SC_TAG_NOTIFY_WRAPPER (pay me r)) (R me)
                                     ++ map (fun s => Recv s c_SC_TAG_NOTIFY_WRAPPER) (transpose G R me),
       Some (result (transpose G R me) (map (fun s => pay s me) (transpose G R me)))).
Proof. exact binary_round_semantics_payload_all. Qed.
Print Assumptions C02_binary_round_semantics.

(* ---- n-ary recursion with one payload item per receiver inside the records -------------------------------------------
   an item of sz bytes (each 0..255) packed little-endian into m int slots (the code's memcpy into &pint[3]) and
   unpacked again (reset_output's memcpy) is unchanged, whenever sz <= 4 m (guaranteed by C02_slots_nary) *)
Theorem C02_unpack_pack_ints : forall (m : nat) sz bs, Forall isbyte bs -> Z.of_nat (length bs) = sz -> sz <= 4 * Z.of_nat m ->
  unpack_ints sz (pack_ints m bs) = bs.
Proof. exact unpack_pack_ints. Qed.
Print Assumptions C02_unpack_pack_ints.

(* round semantics of the program nary_run with payload: for every receiver family, payload family and all arrival
   orders at all levels every rank ends with the ascending senders and, at the position of sender s, exactly pay s me *)
Theorem C02_nary_round_semantics : forall G (R : Z -> list Z), 0 < G <= BIG ->
  (forall f, 0 <= f < G -> ssorted (fun x => x) (R f) /\ forall t, In t (R f) -> 0 <= t < G) ->
  forall depth ntop nint nbot (ls : list (Z * Z)), G <= prodl (map snd ls) -> prodl (map snd ls) <= BIG ->
  forall orders : Z -> Z -> list Z,
  (forall me, 0 <= me < G -> levels_ok G depth ntop nint nbot me (orders me) 1 ls) ->
  forall (pay : Z -> Z -> payload) sz (m : nat),
  (forall f t, Forall isbyte (pay f t) /\ Z.of_nat (length (pay f t)) = sz) -> sz <= 4 * Z.of_nat m ->
  forall me, 0 <= me < G ->
  let payf := fun f t => pack_ints m (pay f t) in
  run (all_replies G R payf me (orders me) 1 ls h0)
      (nary_run G me (Z.of_nat m) depth ntop nint nbot (mk_lv me 1 ls) (init_input me (R me) (Some (map (pay me) (R me))) m)
                (fun arr => let '(s, p) := reset_output arr m sz true in Ret (result s p)))
  = (all_acts G R payf me 1 ls h0, Some (result (transpose G R me) (map (fun s => pay s me) (transpose G R me)))).
Proof. exact nary_round_semantics_payload. Qed.
Print Assumptions C02_nary_round_semantics.

(* FULL STRENGTH, the entry point nary_core with payload (slot count from the GENERATED npay_nary): every size, all
   widths >= 2, every receiver and payload family (items of sz bytes), every arrival order at every level *)
Theorem C02_nary_core_round_semantics : forall G (R : Z -> list Z) ntop nint nbot,
  0 < G <= BIG -> G <> 1 ->
  (forall f, 0 <= f < G -> ssorted (fun x => x) (R f) /\ forall t, In t (R f) -> 0 <= t < G) ->
  2 <= ntop -> 2 <= nint -> 2 <= nbot -> nbot <= BIG -> nbot * ntop <= BIG -> G * nint <= BIG ->
  forall (pay : Z -> Z -> payload) sz, 0 < sz < 2 ^ 31 ->
  (forall f t, Forall isbyte (pay f t) /\ Z.of_nat (length (pay f t)) = sz) ->
  exists depth prod, nary_depth 64 G nbot ntop nint = Some (depth, prod) /\ G <= prod /\
  forall orders : Z -> Z -> list Z,
  (forall me, 0 <= me < G -> orders_ok G me (orders me) 1 (nary_ls depth ntop nint nbot)) ->
  forall me, 0 <= me < G ->
  let payf := fun f t => pack_ints (Z.to_nat (npay_nary 1 sz)) (pay f t) in
  run (all_replies G R payf me (orders me) 1 (nary_ls depth ntop nint nbot) h0)
      (nary_core G me ntop nint nbot (R me) (Some (map (pay me) (R me))) sz (fun s g => Ret (result s g)))
  = (all_acts G R payf me 1 (nary_ls depth ntop nint nbot) h0,
     Some (result (transpose G R me) (map (fun s => pay s me) (transpose G R me)))).
Proof. exact nary_core_round_semantics_payload_full. Qed.
Print Assumptions C02_nary_core_round_semantics.

(* ---- pex with payload: slots of the generated npay_pex ints behind the flag, one MPI_Alltoall; from the contract of the
   collective every rank ends with the ascending senders and pay s me at the position of sender s (hp = true), for every
   item size 0 < sz < 2^31 *)
Theorem C02_pex_program : forall (coll : Z -> list payload -> Z -> payload),
  (forall (b : nat) cs r, (forall c, In c cs -> length c = (b * length cs)%nat) -> 0 <= r < Z.of_nat (length cs) ->
     coll K_ALLTOALL cs r = flat_map (fun c => firstn b (skipn (Z.to_nat r * b) c)) cs) ->
  forall P (R : Z -> list Z), 0 < P ->
  forall (hp : bool) (pay : Z -> Z -> payload) sz, 0 < sz < 2 ^ 31 ->
  (forall f t, Forall isbyte (pay f t) /\ Z.of_nat (length (pay f t)) = sz) ->
  forall me, 0 <= me < P ->
  run [coll K_ALLTOALL (map (pex_contrib P R hp pay sz) (ranks P)) me]
      (pex_core P (R me) (pex_ep R hp pay me) sz (fun s g => Ret (result s g)))
  = ([Coll K_ALLTOALL (-1) (pex_contrib P R hp pay sz me)],
     Some (result (transpose P R me) (if hp then map (fun s => pay s me) (transpose P R me) else []))).
Proof. exact pex_round. Qed.
Print Assumptions C02_pex_program.

(* ---- nbx with payload: see C01_nbx_round_semantics (same theorem; the payload of sender s ends at the position of s) ---- *)
Theorem C02_nbx_round_semantics : forall P (R : Z -> list Z) (pay : Z -> Z -> payload) (its1 its2 : list (option (Z * payload)))
    (m1 m2 : option (Z * payload)) me (sorted : bool) (order : list Z) (fuel : nat),
  0 <= me < P -> Permutation order (transpose P R me) ->
  received (its1 ++ [m1] ++ its2 ++ [m2]) = map (fun s => (s, pay s me)) order ->
  (length its1 + length its2 + 1 < fuel)%nat ->
  let final := if sorted then transpose P R me else order in
  run (repeat [] (length (R me)) ++ replies1 its1 m1 ++ replies2 its2 m2)
      (nbx_core fuel (R me) (Some (map (pay me) (R me))) sorted (fun s g => Ret (result s g)))
  = (map (fun r => Send r c_SC_TAG_NOTIFY_NBX (pay me r)) (R me)
       ++ acts1 c_SC_TAG_NOTIFY_NBX (length its1) ++ acts2 c_SC_TAG_NOTIFY_NBX (length its2),
     Some (result final (map (fun s => pay s me) final))).
Proof. exact nbx_round. Qed.
Print Assumptions C02_nbx_round_semantics.

(* ---- ranges with payload: see C01_ranges_round_semantics (hp = true: pay s me at the position of sender s; ranks that are
   only inside a range send flag 0 and their (uninitialised) bytes are ignored) *)
Theorem C02_ranges_round_semantics : forall (coll : Z -> list payload -> Z -> payload),
  (forall cs r, coll K_ALLREDUCE_MAX cs r =
     [RangesModel.allreduce_max (map (fun c => nth 0 c 0) cs); RangesModel.allreduce_max (map (fun c => nth 1 c 0) cs)]) ->
  (forall cs r, coll K_ALLGATHER cs r = concat cs) ->
  forall P (R : Z -> list Z) (pay : Z -> Z -> payload) (hp : bool) sz nr, 0 < P -> 1 <= nr ->
  (forall f, 0 <= f < P -> ssorted (fun x => x) (R f) /\ forall t, In t (R f) -> 0 <= t < P) ->
  forall me, 0 <= me < P ->
  let rcv := RangesModel.receivers (gtbl P R nr) me in
  let snds := RangesModel.senders (gtbl P R nr) me in
  run ([coll K_ALLREDUCE_MAX (map (contrib1 P R nr) (ranks P)) me; coll K_ALLGATHER (map (contrib2 P R nr) (ranks P)) me]
         ++ repeat [] (length rcv) ++ map (fun q => q :: rmsg R pay hp sz q me) snds)
      (ranges_core P me nr (R me) (rep R pay hp me) sz (fun s g => Ret (result s g)))
  = (Coll K_ALLREDUCE_MAX (-1) (contrib1 P R nr me) :: Coll K_ALLGATHER (-1) (contrib2 P R nr me)
       :: map (fun q => Send q c_SC_TAG_NOTIFY_RANGES (rmsg R pay hp sz me q)) rcv ++ map (fun q => Recv q c_SC_TAG_NOTIFY_RANGES) snds,
     Some (result (transpose P R me) (if hp then map (fun s => pay s me) (transpose P R me) else []))).
Proof. exact ranges_round. Qed.
Print Assumptions C02_ranges_round_semantics.

(* ---- superset with payload: see C01_superset_round_semantics *)
Theorem C02_superset_round_semantics : forall P (R : Z -> list Z) (pay : Z -> Z -> payload) (extra : Z -> list Z) (supers : list Z) me (xs : list Z),
  Permutation supers (transpose P R me ++ xs) ->
  forall (its : list outcome) (order xorder : list Z) (sorted : bool) (fuel : nat),
  Permutation order (transpose P R me) -> Permutation xorder xs ->
  flat_map o_true its = map (fun s => (s, pay s me)) order -> flat_map o_extra its = xorder ->
  Forall o_nonneg its -> no_trailing_none its -> (length its < fuel)%nat ->
  let final := if sorted then transpose P R me else order in
  run (repeat [] (length (R me)) ++ repeat [] (length (extra me)) ++ flat_map o_replies its)
      (super_core fuel (R me) (Some (map (pay me) (R me))) (extra me) supers sorted (fun s g => Ret (result s g)))
  = (map (fun r => Send r c_SC_TAG_NOTIFY_SUPER_TRUE (pay me r)) (R me)
       ++ map (fun q => Send q c_SC_TAG_NOTIFY_SUPER_EXTRA []) (extra me) ++ flat_map o_acts its,
     Some (result final (map (fun s => pay s me) final))).
Proof. exact superset_round. Qed.
Print Assumptions C02_superset_round_semantics.

(* ---- sc_notify_payloadv for pcx (kind = K_RSB) / rsx (K_RMA), program censusv_core (co-simulated with the real code) --------
   For every receiver family, all slice lengths len s r >= 0 (items of msz bytes), every arrival order: the result is the
   senders (ascending iff sorted), the output offsets out_offsets of the lengths those senders sent (C02_offsets: start
   at 0, consecutive differences = lengths) and the concatenation of exactly their slices in that order *)
Theorem C02_censusv_program : forall (coll : Z -> list payload -> Z -> payload) kind,
  (forall cs r, coll kind cs r =
     [fold_right Z.add 0 (map (fun c => nth (Z.to_nat (2 * r)) c 0) cs); fold_right Z.add 0 (map (fun c => nth (Z.to_nat (2 * r + 1)) c 0) cs)]) ->
  forall P (R : Z -> list Z) (len : Z -> Z -> Z) (slice : Z -> Z -> payload) msz, 0 < P -> 0 < msz ->
  (forall s r, 0 <= len s r /\ Z.of_nat (length (slice s r)) = len s r * msz) ->
  forall me (sorted : bool) (order : list Z), 0 <= me < P -> Permutation order (transpose P R me) ->
  let final := if sorted then transpose P R me else order in
  run (coll kind (map (cv_contrib P R len) (ranks P)) me :: repeat [] (length (R me)) ++ map (fun s => s :: slice s me) order)
      (censusv_core kind P (R me) (map (len me) (R me)) (map (slice me) (R me)) msz sorted)
  = (Coll kind (-1) (cv_contrib P R len me)
       :: map (fun r => Send r c_SC_TAG_NOTIFY_CENSUSV (slice me r)) (R me) ++ repeat (Recv ANY c_SC_TAG_NOTIFY_CENSUSV) (length order),
     Some (resultv final (out_offsets (map (fun s => len s me) final)) (concat (map (fun s => slice s me) final)))).
Proof. exact censusv_round. Qed.
Print Assumptions C02_censusv_program.

(* ==== EVERY SCHEDULE for the payload variants: the round abstraction and the collective contracts discharged ======================
   Interleaving semantics with wildcard receives MPI/SemAny.v (binary, n-ary: no collective) and with synchronising collectives
   MPI/SemColl.v (pcx, rsx, ranges; trusted contract SemColl.coll_reply, spelled out in C01_coll_contract); generic theorems
   MPI/SemRounds.v / SemRoundsOrd.v; instances C02/BinaryPaySched.v, C02/NaryPaySched.v, C01/CensusSched.v, C01/RangesSched.v with
   hp = true.  Documentation: docs/C01_sched2.md.  (No `Import` of the semantics modules: Sem.run would shadow NotifyProgProofs.run.) *)
From ScV Require MPI.Sem MPI.SemAny MPI.SemColl C02.BinaryPaySched C02.NaryPaySched C01.CensusSched C01.RangesSched.

(* BINARY RECURSION WITH PAYLOAD, ONE CALL, EVERY SCHEDULE, every 1 <= G <= 2^29, every family of ascending receiver lists, every
   payload family: system binary_pay_sys (rank r < G runs binary_core G r (R r) (Some items) ..: the levels of the recursion, then
   the wrapper phase - sends of the items to the listed receivers, NAMED receives from the senders found, in ascending order).
   The round property C02_binary_round_semantics is instantiated in the every-schedule theorem of n + 1 levels: no reachable state is
   stuck, a run has at most binary_pay_steps steps and is final exactly after that many, in every final state rank r has the
   transposed list with pay s r at the position of sender s, and all channels are empty *)
Theorem C02_binary_every_schedule : forall G (R : Z -> list Z) (pay : Z -> Z -> payload),
  0 < G <= BIG ->
  (forall f, 0 <= f < G -> ssorted (fun x => x) (R f) /\ forall t, In t (R f) -> 0 <= t < G) ->
  exists n : nat, binary_pow2length G = 2 ^ Z.of_nat n /\
  forall k s, SemAny.run_a k (BinaryPaySched.binary_pay_sys G R pay) s ->
    ~ SemAny.stuck s /\
    (k <= BinaryPaySched.binary_pay_steps G R pay n)%nat /\
    (Sem.final s <-> k = BinaryPaySched.binary_pay_steps G R pay n) /\
    (Sem.final s -> (forall r, 0 <= r < G -> Sem.pr s r = Ret (result (transpose G R r) (map (fun q => pay q r) (transpose G R r)))) /\
                    (forall a b t, Sem.ch s a b t = [])).
Proof. exact BinaryPaySched.binary_pay_every_schedule. Qed.
Print Assumptions C02_binary_every_schedule.
(* at most 3 steps per rank and level, and 2 G per rank in the wrapper phase *)
Theorem C02_binary_steps_le : forall G (R : Z -> list Z) (pay : Z -> Z -> payload) (n : nat), 0 < G <= BIG ->
  (forall f, 0 <= f < G -> ssorted (fun x => x) (R f) /\ forall t, In t (R f) -> 0 <= t < G) ->
  (BinaryPaySched.binary_pay_steps G R pay n <= Z.to_nat G * (3 * n + 2 * Z.to_nat G))%nat.
Proof. exact BinaryPaySched.binary_pay_steps_le. Qed.
Print Assumptions C02_binary_steps_le.

(* N-ARY RECURSION WITH PAYLOAD, ONE CALL, EVERY SCHEDULE, every 1 < G <= 2^29, all widths >= 2 in int range, every family of ascending
   receiver lists, every payload family of items of sz bytes (0 < sz < 2^31; the items travel packed into npay_nary ints inside the
   records): the round property C02_nary_core_round_semantics instantiated; same three statements, final states with pay s r at the
   position of sender s *)
Theorem C02_nary_every_schedule : forall G (R : Z -> list Z) ntop nint nbot,
  0 < G <= BIG -> G <> 1 ->
  (forall f, 0 <= f < G -> ssorted (fun x => x) (R f) /\ forall t, In t (R f) -> 0 <= t < G) ->
  2 <= ntop -> 2 <= nint -> 2 <= nbot -> nbot <= BIG -> nbot * ntop <= BIG -> G * nint <= BIG ->
  forall (pay : Z -> Z -> payload) sz, 0 < sz < 2 ^ 31 ->
  (forall f t, Forall isbyte (pay f t) /\ Z.of_nat (length (pay f t)) = sz) ->
  exists depth prod, nary_depth 64 G nbot ntop nint = Some (depth, prod) /\
  forall n s, SemAny.run_a n (NaryPaySched.nary_sys G R ntop nint nbot sz pay) s ->
    ~ SemAny.stuck s /\
    (n <= NaryPaySched.nary_steps G R (NaryPaySched.payfP pay sz) (NaryPaySched.nary_params G ntop nint nbot depth))%nat /\
    (Sem.final s <-> n = NaryPaySched.nary_steps G R (NaryPaySched.payfP pay sz) (NaryPaySched.nary_params G ntop nint nbot depth)) /\
    (Sem.final s -> (forall r, 0 <= r < G -> Sem.pr s r = Ret (result (transpose G R r) (map (fun q => pay q r) (transpose G R r)))) /\
                    (forall a b t, Sem.ch s a b t = [])).
Proof. exact NaryPaySched.nary_pay_every_schedule. Qed.
Print Assumptions C02_nary_every_schedule.
Theorem C02_nary_steps_le : forall G (R : Z -> list Z) ntop nint nbot,
  0 < G <= BIG -> G <> 1 ->
  (forall f, 0 <= f < G -> ssorted (fun x => x) (R f) /\ forall t, In t (R f) -> 0 <= t < G) ->
  2 <= ntop -> 2 <= nint -> 2 <= nbot -> nbot <= BIG -> nbot * ntop <= BIG -> G * nint <= BIG ->
  forall (pay : Z -> Z -> payload) sz, (forall f t, Forall isbyte (pay f t) /\ Z.of_nat (length (pay f t)) = sz) ->
  forall depth prod, nary_depth 64 G nbot ntop nint = Some (depth, prod) ->
  (NaryPaySched.nary_steps G R (NaryPaySched.payfP pay sz) (NaryPaySched.nary_params G ntop nint nbot depth) <=
   Z.to_nat G * list_sum (map (fun D => 3 * Z.to_nat D) (map snd (nary_ls depth ntop nint nbot))))%nat.
Proof. exact NaryPaySched.nary_pay_steps_le. Qed.
Print Assumptions C02_nary_steps_le.

(* PCX / RSX WITH ONE ITEM PER RECEIVER, EVERY SCHEDULE (cf. C01_census_every_schedule): every payload family (any sizes); in every
   final state rank r has returned result o (items of o) with o a permutation of the transposed list (THE transposed list if sorted,
   the arrival order otherwise) and pay q r at the position of q; channels empty.  Discharges both hypotheses of C02_census_program *)
Theorem C02_census_every_schedule : forall kind, kind = K_RSB \/ kind = K_RMA ->
  forall P (R : Z -> list Z) (pay : Z -> Z -> payload) (sorted : bool), 0 < P ->
  (forall f, 0 <= f < P -> ssorted (fun x => x) (R f) /\ forall t, In t (R f) -> 0 <= t < P) ->
  forall n s, SemColl.run_c P SemColl.coll_reply n (CensusSched.census_sys kind P R true pay sorted) s ->
    (Sem.final s \/ SemColl.can_step_c P SemColl.coll_reply s) /\
    (n <= CensusSched.census_steps P R true pay)%nat /\
    (Sem.final s <-> n = CensusSched.census_steps P R true pay) /\
    (Sem.final s ->
       (forall r, 0 <= r < P -> exists o, Permutation o (transpose P R r) /\ (sorted = true -> o = transpose P R r) /\
                                         Sem.pr s r = Ret (result o (map (fun q => pay q r) o))) /\
       (forall a b t, Sem.ch s a b t = [])).
Proof. intros kind Hk P R pay sorted HP HR. exact (CensusSched.census_every_schedule kind Hk P R true pay sorted HP HR). Qed.
Print Assumptions C02_census_every_schedule.

(* RANGES WITH ONE ITEM PER RECEIVER, EVERY SCHEDULE (cf. C01_ranges_every_schedule): items of any size; the uninitialised bytes behind
   a 0 flag (model: zeros) are received and dropped *)
Theorem C02_ranges_every_schedule : forall P (R : Z -> list Z) (pay : Z -> Z -> payload) sz nr, 0 < P -> 1 <= nr ->
  (forall f, 0 <= f < P -> ssorted (fun x => x) (R f) /\ forall t, In t (R f) -> 0 <= t < P) ->
  forall n s, SemColl.run_c P SemColl.coll_reply n (RangesSched.ranges_sys P R true pay sz nr) s ->
    (Sem.final s \/ SemColl.can_step_c P SemColl.coll_reply s) /\
    (n <= RangesSched.ranges_steps P R true pay sz nr)%nat /\
    (Sem.final s <-> n = RangesSched.ranges_steps P R true pay sz nr) /\
    (Sem.final s -> (forall r, 0 <= r < P -> Sem.pr s r = Ret (result (transpose P R r) (map (fun q => pay q r) (transpose P R r)))) /\
                    (forall a b t, Sem.ch s a b t = [])).
Proof. intros P R pay sz nr HP Hnr HR. exact (RangesSched.ranges_every_schedule P R true pay sz nr HP Hnr HR). Qed.
Print Assumptions C02_ranges_every_schedule.

(* ---- out_payload arrays that are not empty on entry (reused by the caller), sc_notify_payload ------------------------------
   dispatch = the dispatcher since /repo 89355d2 (resets out_payload before the algorithm, like sc_notify_payloadv);
   nbx_unsorted_out / nary_out = the two places that do not empty the array themselves.  The result of a call does not
   depend on the initial content of out_payload and is exactly what was received *)
Theorem C02_out_payload_initial_irrelevant : forall junk got initial,
  ReusedOutputs.dispatch (ReusedOutputs.nbx_unsorted_out junk got) initial = (map fst got, map snd got) /\
  ReusedOutputs.dispatch (ReusedOutputs.nary_out got) initial = (map fst got, map snd got).
Proof. exact ReusedOutputs.out_payload_initial_irrelevant. Qed.
Print Assumptions C02_out_payload_initial_irrelevant.
(* the dispatcher BEFORE the repair (dispatch_old, array passed on as it was): refuted *)
Theorem C02_old_dispatcher_reused_out_payload_refuted :
  (exists junk initial got, nth 0 (snd (ReusedOutputs.dispatch_old (ReusedOutputs.nbx_unsorted_out junk got) initial)) [] <> nth 0 (map snd got) [] /\
                            length (fst (ReusedOutputs.dispatch_old (ReusedOutputs.nbx_unsorted_out junk got) initial)) <> length got) /\
  (exists initial, snd (ReusedOutputs.dispatch_old (ReusedOutputs.nary_out []) initial) <> []).
Proof. exact ReusedOutputs.dispatch_old_refuted. Qed.
Print Assumptions C02_old_dispatcher_reused_out_payload_refuted.

(* NBX WITH ONE ITEM PER RECEIVER in the semantics with polls MPI/SemPoll.v (cf. C01_nbx_every_schedule, C01_nbx_fair_termination): for every
   run of n steps with n + nbx_bound P R < fuel: (a) a final state has on rank r the result o (items of o) with pay q r at the position of
   sender q, o a permutation of the transposed list (equal to it if sorted), every channel empty and every barrier posted; (b) no rank is
   blocked; (c) a final state is reachable by at most nbx_bound further steps; and every run of >= nbx_rounds P R fair segments ends final *)
From ScV Require MPI.SemPoll C01.NbxSched.
Theorem C02_nbx_every_schedule : forall P (R : Z -> list Z) (pay : Z -> Z -> payload) (sorted : bool) (fuel : nat),
  (forall f, 0 <= f < P -> ssorted (fun x => x) (R f) /\ forall t, In t (R f) -> 0 <= t < P) ->
  forall n s, SemPoll.run_p P NbxSched.nbx_poll NbxSched.nbx_stags n (NbxSched.nbx_sys P R true pay sorted fuel) s ->
  (n + NbxSched.nbx_bound P R < fuel)%nat ->
    (SemPoll.pfinal s ->
       (forall r, 0 <= r < P -> exists o, Permutation o (transpose P R r) /\ (sorted = true -> o = transpose P R r) /\
                                         SemPoll.ppr s r = Ret (result o (map (fun q => pay q r) o))) /\
       (forall a b t, SemPoll.pch s a b t = []) /\ (forall r, 0 <= r < P -> SemPoll.pbar s r = true)) /\
    (forall r, 0 <= r < P -> (exists o, SemPoll.ppr s r = Ret o) \/
                             exists s', SemPoll.step_p P NbxSched.nbx_poll NbxSched.nbx_stags s r s') /\
    (exists m s', SemPoll.run_p P NbxSched.nbx_poll NbxSched.nbx_stags m s s' /\ (m <= NbxSched.nbx_bound P R)%nat /\ SemPoll.pfinal s').
Proof. intros P R pay sorted fuel HR. exact (NbxSched.nbx_every_schedule P R true pay sorted fuel HR). Qed.
Print Assumptions C02_nbx_every_schedule.
Theorem C02_nbx_fair_termination : forall P (R : Z -> list Z) (pay : Z -> Z -> payload) (sorted : bool) (fuel : nat),
  (forall f, 0 <= f < P -> ssorted (fun x => x) (R f) /\ forall t, In t (R f) -> 0 <= t < P) ->
  forall k s, NbxSched.fair_segs P k (NbxSched.nbx_sys P R true pay sorted fuel) s ->
  (NbxSched.nbx_rounds P R <= k)%nat -> SemPoll.pfinal s.
Proof. intros P R pay sorted fuel HR. exact (NbxSched.nbx_fair_termination P R true pay sorted fuel HR). Qed.
Print Assumptions C02_nbx_fair_termination.

(* SUPERSET WITH ONE ITEM PER RECEIVER in the semantics with polls (cf. C01_superset_every_schedule, C01_superset_fair_termination): final states
   carry pay q r at the position of sender q *)
From ScV Require C01.SuperSched.
Theorem C02_superset_every_schedule : forall P (R extra supers : Z -> list Z) (pay : Z -> Z -> payload) (sorted : bool) (fuel : nat),
  (forall f, 0 <= f < P -> ssorted (fun x => x) (R f) /\ forall t, In t (R f) -> 0 <= t < P) ->
  (forall f, 0 <= f < P -> NoDup (extra f) /\ forall t, In t (extra f) -> 0 <= t < P) ->
  (forall r, 0 <= r < P -> Permutation (supers r) (transpose P R r ++ SuperSched.X P extra r)) ->
  forall n s, SemPoll.run_p P SuperSched.super_poll SuperSched.super_stags n (SuperSched.super_sys P R true pay extra supers sorted fuel) s ->
  (n + SuperSched.super_bound P R extra < fuel)%nat ->
    (SemPoll.pfinal s ->
       (forall r, 0 <= r < P -> exists o, Permutation o (transpose P R r) /\ (sorted = true -> o = transpose P R r) /\
                                         SemPoll.ppr s r = Ret (result o (map (fun q => pay q r) o))) /\
       (forall a b t, SemPoll.pch s a b t = [])) /\
    (forall r, 0 <= r < P -> (exists o, SemPoll.ppr s r = Ret o) \/
                             exists s', SemPoll.step_p P SuperSched.super_poll SuperSched.super_stags s r s') /\
    (exists m s', SemPoll.run_p P SuperSched.super_poll SuperSched.super_stags m s s' /\ (m <= SuperSched.super_bound P R extra)%nat /\ SemPoll.pfinal s').
Proof.
  intros P R extra supers pay sorted fuel HR HX Hc.
  exact (SuperSched.super_every_schedule P R true pay extra supers sorted fuel HR HX (SuperSched.contract_length P R extra supers Hc)).
Qed.
Print Assumptions C02_superset_every_schedule.
Theorem C02_superset_fair_termination : forall P (R extra supers : Z -> list Z) (pay : Z -> Z -> payload) (sorted : bool) (fuel : nat),
  (forall f, 0 <= f < P -> ssorted (fun x => x) (R f) /\ forall t, In t (R f) -> 0 <= t < P) ->
  (forall f, 0 <= f < P -> NoDup (extra f) /\ forall t, In t (extra f) -> 0 <= t < P) ->
  (forall r, 0 <= r < P -> Permutation (supers r) (transpose P R r ++ SuperSched.X P extra r)) ->
  forall k s, SuperSched.sfair_segs P k (SuperSched.super_sys P R true pay extra supers sorted fuel) s ->
  (SuperSched.super_rounds P R extra <= k)%nat -> SemPoll.pfinal s.
Proof.
  intros P R extra supers pay sorted fuel HR HX Hc.
  exact (SuperSched.super_fair_termination P R true pay extra supers sorted fuel HR HX (SuperSched.contract_length P R extra supers Hc)).
Qed.
Print Assumptions C02_superset_fair_termination.

(* PEX WITH ONE ITEM PER RECEIVER and PAYLOADV FOR PCX / RSX, EVERY SCHEDULE, in the semantics with collectives (C02/CensusvSched.v): the contract
   hypotheses of C02_pex_program / C02_censusv_program and the round abstraction of the latter discharged (Alltoall with 1 + npay_pex ints per
   rank; Reduce_scatter_block / accumulate epoch with TWO ints per rank - SemColl.coll_reply with blk = 2) *)
From ScV Require C02.CensusvSched.
Theorem C02_pex_every_schedule : forall P (R : Z -> list Z) (hp : bool) (pay : Z -> Z -> payload) sz, 0 < P -> 0 < sz < 2 ^ 31 ->
  (forall f t, Forall isbyte (pay f t) /\ Z.of_nat (length (pay f t)) = sz) ->
  forall n s, SemColl.run_c P SemColl.coll_reply n (CensusvSched.pexp_sys P R hp pay sz) s ->
    (Sem.final s \/ SemColl.can_step_c P SemColl.coll_reply s) /\ (n <= 1)%nat /\ (Sem.final s <-> n = 1%nat) /\
    (Sem.final s -> (forall r, 0 <= r < P -> Sem.pr s r = Ret (result (transpose P R r) (if hp then map (fun q => pay q r) (transpose P R r) else []))) /\
                    (forall a b t, Sem.ch s a b t = [])).
Proof. exact CensusvSched.pexp_every_schedule. Qed.
Print Assumptions C02_pex_every_schedule.

Theorem C02_censusv_every_schedule : forall kind, kind = K_RSB \/ kind = K_RMA ->
  forall P (R : Z -> list Z) (len : Z -> Z -> Z) (slice : Z -> Z -> payload) msz (sorted : bool), 0 < P -> 0 < msz ->
  (forall s r, 0 <= len s r /\ Z.of_nat (length (slice s r)) = len s r * msz) ->
  (forall f, 0 <= f < P -> ssorted (fun x => x) (R f) /\ forall t, In t (R f) -> 0 <= t < P) ->
  forall n s, SemColl.run_c P SemColl.coll_reply n (CensusvSched.censusv_sys kind P R len slice msz sorted) s ->
    (Sem.final s \/ SemColl.can_step_c P SemColl.coll_reply s) /\
    (n <= CensusvSched.censusv_steps P R slice)%nat /\
    (Sem.final s <-> n = CensusvSched.censusv_steps P R slice) /\
    (Sem.final s ->
       (forall r, 0 <= r < P -> exists o, Permutation o (transpose P R r) /\ (sorted = true -> o = transpose P R r) /\
          Sem.pr s r = Ret (resultv o (out_offsets (map (fun q => len q r) o)) (concat (map (fun q => slice q r) o)))) /\
       (forall a b t, Sem.ch s a b t = [])).
Proof. exact CensusvSched.censusv_every_schedule. Qed.
Print Assumptions C02_censusv_every_schedule.

(* ---- THE EPILOGUES (sc_notify_payload_cleanup of nbx / superset, the tails of sc_notify_payload_census and of
   sc_notify_payloadv_census, the creation of the receive buffer and the place where an arriving message is stored):
   slices GENERATED from the source (Gen/NotifyC02.v, tools/c2g/groups_C02.py) are EQUAL to the hand model C02/CleanupModel.v,
   for all values of the free variables in their C ranges.  An edit of the sort call, the record size, a source / destination
   offset, a length or a loop bound changes a generated definition: the lemma stops checking (or the slice no longer translates). *)
From ScV Require Import Gen.NotifyC02 C02.CleanupModel.
From ScV Require C02.CleanupGen C02.CleanupProofs.

(* WHICH array is sorted is a function of (sorted, msg_size) only: whole records iff there is a payload *)
Theorem C02_gen_cleanup_sort : forall sorted msz rb snd,
  cleanup_sort sorted msz rb snd =
  (b2z (cl_sort_records sorted msz), (if cl_sort_records sorted msz then rb else 0),
   b2z (cl_sort_senders sorted msz), (if cl_sort_senders sorted msz then snd else 0)) /\
  cleanup_senders_when sorted msz = b2z (cl_sort_records sorted msz).
Proof. intros; split; [exact (CleanupGen.gen_cleanup_sort sorted msz rb snd)|exact (CleanupGen.gen_cleanup_senders_when sorted msz)]. Qed.
Print Assumptions C02_gen_cleanup_sort.

(* sc_array_sort hands the array's own element count and ELEMENT SIZE to qsort; sc_int_compare is the three-way comparison *)
Theorem C02_gen_cleanup_sort_call : forall (cnt esz : Z -> Z) a x y,
  array_sort_call cnt esz a = (cnt a, esz a) /\ int_compare x y = cmp3 x y.
Proof. intros; split; [exact (CleanupGen.gen_array_sort_call cnt esz a)|exact (CleanupGen.gen_int_compare x y)]. Qed.
Print Assumptions C02_gen_cleanup_sort_call.

Theorem C02_gen_cleanup_head : forall (cnt arr esz : Z -> Z) rb snd inp, 0 <= cnt rb < 2 ^ 31 -> 0 <= cnt snd < 2 ^ 31 -> 0 <= esz inp < 2 ^ 31 ->
  cleanup_head cnt arr rb snd = (cl_num_senders rb (cnt rb) (cnt snd), snd, cl_num_senders rb (cnt rb) (cnt snd), arr snd) /\
  cleanup_msg_size esz inp = cl_msg_size inp (esz inp).
Proof. intros cnt arr esz rb snd inp H1 H2 H3; split; [exact (CleanupGen.gen_cleanup_head cnt arr rb snd H1 H2)|exact (CleanupGen.gen_cleanup_msg_size esz inp H3)]. Qed.
Print Assumptions C02_gen_cleanup_head.

(* senders extraction: for i = 0 .. num_senders - 1: senders[i] := the int at the start of record i *)
Theorem C02_gen_cleanup_senders : forall (ld arr esz : Z -> Z) rb i n rec isnd, 0 <= i < 2 ^ 31 - 1 -> 0 <= esz rb < 2 ^ 31 ->
  (cleanup_senders_init = 0 /\ cleanup_senders_cond i n = (i <? n) /\ cleanup_senders_step i = i + 1) /\
  cleanup_senders_body ld rb i rec isnd = (rb, i, elem_addr isnd 4 i, ld rec) /\
  array_index_int arr esz rb i = elem_addr (arr rb) (esz rb) i.
Proof.
  intros ld arr esz rb i n rec isnd H1 H2; split; [exact (CleanupGen.gen_cleanup_senders_loop i n H1)|].
  split; [exact (CleanupGen.gen_cleanup_senders_body ld rb i rec isnd)|exact (CleanupGen.gen_array_index_int arr esz rb i H1 H2)].
Qed.
Print Assumptions C02_gen_cleanup_senders.

(* the per-sender copy loop: when it runs, its bounds, destination cpayload + msg_size * i, source = the LAST msg_size bytes of
   record i, length msg_size - the same for every item size *)
Theorem C02_gen_cleanup_copy : forall (arr esz : Z -> Z) inp outp n rb i rec cpay msz,
  0 <= n < 2 ^ 31 -> 0 <= i < 2 ^ 31 - 1 -> 0 <= msz <= esz rb -> esz rb < 2 ^ 63 -> 0 <= msz * i < 2 ^ 31 ->
  cleanup_guard arr inp outp n rb =
    (if inp =? 0 then (0, 0, 0, 0, 0, 0, 0, outp, 0, 0)
     else (b2z (outp =? 0), (if outp =? 0 then inp else 0), 1, cl_out inp outp, n,
           b2z (cl_copy_runs inp outp rb), (if cl_copy_runs inp outp rb then rb else 0),
           cl_out inp outp, arr (cl_out inp outp), b2z (cl_copy_runs inp outp rb))) /\
  (cleanup_copy_init = 0 /\ cleanup_copy_cond i n = (i <? n) /\ cleanup_copy_step i = i + 1) /\
  cleanup_copy_body esz rb i rec cpay msz = (rb, i, cl_copy_dst cpay msz i, cl_copy_src rec (esz rb) msz, msz).
Proof.
  intros arr esz inp outp n rb i rec cpay msz H1 H2 H3 H4 H5. split; [exact (CleanupGen.gen_cleanup_guard arr inp outp n rb H1)|].
  split; [exact (CleanupGen.gen_cleanup_copy_loop i n H2)|exact (CleanupGen.gen_cleanup_copy_body esz rb i rec cpay msz H3 H4 H5)].
Qed.
Print Assumptions C02_gen_cleanup_copy.

(* nbx and superset: the receive buffer has records of msg_size + sizeof (int) bytes iff the records will be sorted, and an
   arriving message is stored rank first, item directly behind it (sorted) or in its own element (unsorted) *)
Theorem C02_gen_cleanup_recv_nbx : forall src sorted msz rb p1 snd p2 p3 tag ret new1 outp new2, 0 <= msz < 2 ^ 31 ->
  nbx_recv_buf sorted msz new1 outp new2 =
    (if cl_sort_records sorted msz then (1, rb_elem_size sorted msz, 0, 0, new1)
     else if msz =? 0 then (0, 0, 0, 0, 0)
     else if outp =? 0 then (0, 0, 1, rb_elem_size sorted msz, new2) else (0, 0, 0, 0, outp)) /\
  nbx_recv_slot src sorted msz rb p1 snd p2 p3 tag ret = CleanupGen.slot_model src sorted msz rb p1 snd p2 p3 tag.
Proof.
  intros src sorted msz rb p1 snd p2 p3 tag ret new1 outp new2 H. split; [exact (CleanupGen.gen_nbx_recv_buf sorted msz new1 outp new2 H)|].
  exact (CleanupGen.gen_nbx_recv_slot src sorted msz rb p1 snd p2 p3 tag ret).
Qed.
Print Assumptions C02_gen_cleanup_recv_nbx.

Theorem C02_gen_cleanup_recv_superset : forall src sorted msz rb p1 snd p2 p3 tag ret nss newc outp new1, 0 <= msz < 2 ^ 31 -> 0 <= nss < 2 ^ 31 ->
  super_recv_buf msz sorted nss newc outp new1 =
    (if msz =? 0 then (0, 0, 0, 0, 0, 0, 0, 0, 0, 0, 0, 0, 0)
     else if cl_sort_records sorted msz then (1, rb_elem_size sorted msz, nss, 1, newc, 0, 0, 0, 0, 0, 0, 0, newc)
     else if outp =? 0 then (0, 0, 0, 0, 0, 1, rb_elem_size sorted msz, 1, new1, nss, 1, new1, new1)
     else (0, 0, 0, 0, 0, 0, 0, 1, outp, nss, 1, outp, outp)) /\
  super_recv_slot src sorted msz rb p1 snd p2 p3 tag ret = CleanupGen.slot_model src sorted msz rb p1 snd p2 p3 tag.
Proof.
  intros src sorted msz rb p1 snd p2 p3 tag ret nss newc outp new1 H H2. split; [exact (CleanupGen.gen_super_recv_buf msz sorted nss newc outp new1 H H2)|].
  exact (CleanupGen.gen_super_recv_slot src sorted msz rb p1 snd p2 p3 tag ret).
Qed.
Print Assumptions C02_gen_cleanup_recv_superset.

(* pcx / rsx: records of stride sizeof (int) + msg_size; message i is received into the item part of record i, its source stored
   at the start of record i; the epilogue sorts the records (iff sorted) and copies rank and item of record i to position i *)
Theorem C02_gen_cleanup_census : forall (ld : Z -> Z) msz snd n newc crecv i tag ret src sorted rb isnd cpay,
  0 <= msz < 2 ^ 31 -> 0 <= n < 2 ^ 31 -> 0 <= i < 2 ^ 31 - 1 ->
  census_recv_buf msz snd n newc =
    (if (msz =? 0) && negb (snd =? 0) then (census_stride msz, 1, snd, n, 0, 0, 0, snd)
     else (census_stride msz, 0, 0, 0, 1, census_stride msz, n, newc)) /\
  census_recv_body crecv i (census_stride msz) msz tag ret src =
    (cl_copy_src (elem_addr crecv (census_stride msz) i) (census_stride msz) msz, msz, tag, elem_addr crecv (census_stride msz) i, src) /\
  census_sort sorted rb = (b2z (negb (sorted =? 0)), if sorted =? 0 then 0 else rb) /\
  census_copy_body ld isnd i crecv (census_stride msz) cpay msz =
    (elem_addr isnd 4 i, ld (elem_addr crecv (census_stride msz) i), cl_copy_dst cpay msz i,
     cl_copy_src (elem_addr crecv (census_stride msz) i) (census_stride msz) msz, msz) /\
  census_senders_body ld isnd i crecv (census_stride msz) = (elem_addr isnd 4 i, ld (elem_addr crecv (census_stride msz) i)) /\
  (census_recv_cond i n = (i <? n) /\ census_copy_cond i n = (i <? n) /\ census_senders_cond i n = (i <? n) /\
   census_recv_step i = i + 1 /\ census_copy_step i = i + 1 /\ census_senders_step i = i + 1 /\
   census_recv_init = 0 /\ census_copy_init = 0 /\ census_senders_init = 0).
Proof.
  intros ld msz snd n newc crecv i tag ret src sorted rb isnd cpay H1 H2 H3.
  split; [exact (CleanupGen.gen_census_recv_buf msz snd n newc H1 H2)|].
  split; [exact (CleanupGen.gen_census_recv_body crecv i msz tag ret src H3 H1)|].
  split; [exact (CleanupGen.gen_census_sort sorted rb)|].
  split; [exact (CleanupGen.gen_census_copy_body ld isnd i crecv cpay msz H3 H1)|].
  split; [exact (CleanupGen.gen_census_senders_body ld isnd i crecv msz H3 H1)|].
  pose proof (CleanupGen.gen_census_loops i n H3); tauto.
Qed.
Print Assumptions C02_gen_cleanup_census.

(* payloadv for pcx / rsx, sorted: (rank, first, end) triples sorted by rank; slice of record i copied behind the slices before it *)
Theorem C02_gen_cleanup_censusv : forall (ld arr : Z -> Z) outp rb inp rsz sorted fs snd outoff i n rec isnd cout msz crecv,
  0 <= rsz < 2 ^ 31 -> 0 <= i < 2 ^ 31 - 1 -> 0 < msz < 2 ^ 31 ->
  0 <= ld (rec + 4 * 1) <= ld (rec + 4 * 2) -> ld (rec + 4 * 2) * msz < 2 ^ 63 ->
  0 <= ld (outoff + 4 * i) -> (ld (outoff + 4 * i) + ld (rec + 4 * 2)) * msz < 2 ^ 63 -> ld (outoff + 4 * i) + ld (rec + 4 * 2) < 2 ^ 31 ->
  censusv_guard arr outp rb inp rsz sorted fs snd outoff =
    (if outp =? rb then (0, 0, 0, 0, 0, 0, 0, 0, 0, 0, outp, 0, 0, 0)
     else if sorted =? 0
          then (b2z (outp =? 0), (if outp =? 0 then inp else 0), 1, cl_out inp outp, rsz, 1, cl_out inp outp, rb, 0, 0, cl_out inp outp, 0, 0, 0)
          else (b2z (outp =? 0), (if outp =? 0 then inp else 0), 1, cl_out inp outp, rsz, 0, 0, 0, 1, fs, cl_out inp outp, elem_addr outoff 4 0, 0, 1)) /\
  (censusv_copy_init = 0 /\ censusv_copy_cond i n = (i <? n) /\ censusv_copy_step i = i + 1) /\
  censusv_copy_body ld fs i rec isnd cout outoff msz crecv =
    (fs, i, cv_copy_dst cout (ld (outoff + 4 * i)) msz, cv_copy_src crecv (ld (rec + 4 * 1)) msz,
     cv_copy_len (ld (rec + 4 * 1)) (ld (rec + 4 * 2)) msz,
     elem_addr isnd 4 i, ld rec, elem_addr outoff 4 (i + 1), cv_next_off (ld (outoff + 4 * i)) (ld (rec + 4 * 1)) (ld (rec + 4 * 2))).
Proof.
  intros ld arr outp rb inp rsz sorted fs snd outoff i n rec isnd cout msz crecv H1 H2 H3 H4 H5 H6 H7 H8.
  split; [exact (CleanupGen.gen_censusv_guard arr outp rb inp rsz sorted fs snd outoff H1)|].
  split; [exact (CleanupGen.gen_censusv_copy_loop i n H2)|].
  exact (CleanupGen.gen_censusv_copy_body ld fs i rec isnd cout outoff msz crecv H2 H3 H4 H5 H6 H7 H8).
Qed.
Print Assumptions C02_gen_cleanup_censusv.

(* the model of the epilogue on a byte memory, for EVERY item size msz > 0, record size esz >= msz, number of senders n and memory:
   (senders[i], item i of the output) = (rank, item part) of record i - nothing is exchanged between senders *)
Theorem C02_cleanup_delivers_records : forall rank_of m rb esz out msz n,
  0 < msz <= esz -> rb + esz * Z.of_nat n <= out \/ out + msz * Z.of_nat n <= rb ->
  combine (cl_out_senders rank_of rb esz n) (cl_out_items (cl_copy m rb esz out msz n) out msz n) = cl_records rank_of m rb esz msz n.
Proof. exact CleanupProofs.cleanup_delivers_records. Qed.
Print Assumptions C02_cleanup_delivers_records.

(* sorted mode: after ANY sort that leaves the records a rank-ascending permutation of what was received (qsort with the record
   size as element size and sc_int_compare), the epilogue returns exactly `sort_by_src got` - the restatement of the epilogue
   in the per-rank programs nbx_core / super_core / census_core (C01/NotifyProgs.v) that the program theorems are about *)
Theorem C02_cleanup_sorted_is_sort_by_src : forall rank_of m rb esz out msz n (got : list (Z * payload)),
  0 < msz <= esz -> rb + esz * Z.of_nat n <= out \/ out + msz * Z.of_nat n <= rb ->
  NoDup (map fst got) ->
  ssorted fst (cl_records rank_of m rb esz msz n) -> Permutation (cl_records rank_of m rb esz msz n) got ->
  combine (cl_out_senders rank_of rb esz n) (cl_out_items (cl_copy m rb esz out msz n) out msz n) = sort_by_src got.
Proof. exact CleanupProofs.cleanup_sorted_is_sort_by_src. Qed.
Print Assumptions C02_cleanup_sorted_is_sort_by_src.

(* unsorted mode with an own receive buffer: the items stay in the order of arrival *)
Theorem C02_cleanup_unsorted_keeps_order : forall m rb out msz n,
  0 < msz -> rb + msz * Z.of_nat n <= out \/ out + msz * Z.of_nat n <= rb ->
  cl_out_items (cl_copy m rb msz out msz n) out msz n = map (fun i => mbytes m (elem_addr rb msz (Z.of_nat i)) (Z.to_nat msz)) (seq 0 n).
Proof. exact CleanupProofs.cleanup_unsorted_keeps_order. Qed.
Print Assumptions C02_cleanup_unsorted_keeps_order.

Example C02_cleanup_nonvacuous :
  cl_sort_records 1 64 = true /\ cl_sort_records 1 61 = true /\ cl_sort_records 1 4096 = true /\ rb_elem_size 1 64 = 68 /\
  cl_copy_src (elem_addr 1000 68 2) 68 64 = 1140 /\ cl_copy_dst 5000 64 2 = 5128.
Proof. repeat split; reflexivity. Qed.
