(* C01 - notify inverts the communication pattern.
   All functions named nary_* are slices of sc_notify_recursive_nary GENERATED from /repo (Gen/NotifyC01.v). *)
From Coq Require Import ZArith List Bool.
From ScV Require Import Base.CInt Gen.NotifyC01 C01.NaryArith C01.NaryDelivery.
Import ListNotations.
Local Open Scope Z_scope.

(* MATCHING (no hang, no leftover message) for the n-ary algorithm, every communicator size G, part length L and
   width D >= 2: the ranks that send a message to `me` at a level are exactly the nrecv ranks named by the
   indices 0..nrecv except the own part, where nrecv is the count the code waits for. *)
Theorem C01_nary_matching : forall L D G, 0 < L -> 2 <= D -> 0 < G <= BIG -> D * L <= BIG ->
  forall me q, 0 <= me < G -> 0 <= q < G ->
  ((exists j, 0 <= j < D /\ j <> gpart L D q /\ nary_peer q j (gpart L D q) L G (D * L) = me) <->
   (exists k, 0 <= k <= nary_nrecv (gpart L D me) G me L D /\ k <> gpart L D me /\ q = me + (k - gpart L D me) * L)).
Proof. exact nary_matching. Qed.
Print Assumptions C01_nary_matching.

(* each of these indices names an EXISTING rank (so exactly nrecv messages arrive) ... *)
Theorem C01_nary_senders_exist : forall L D G, 0 < L -> 2 <= D -> 0 < G <= BIG -> D * L <= BIG ->
  forall me k, 0 <= me < G -> 0 <= k <= nary_nrecv (gpart L D me) G me L D -> 0 <= me + (k - gpart L D me) * L < G.
Proof. exact nary_senders_exist. Qed.
Print Assumptions C01_nary_senders_exist.

(* ... and the receive slot computed from the message's source is that index: distinct sources use distinct
   slots inside the array of nrecv + 1 buffers, whatever the arrival order *)
Theorem C01_nary_slots : forall L D G, 0 < L -> 2 <= D -> 0 < G <= BIG -> D * L <= BIG ->
  forall me k, 0 <= me < G -> 0 <= k <= nary_nrecv (gpart L D me) G me L D -> k <> gpart L D me ->
  nary_slot (me + (k - gpart L D me) * L) me (gpart L D me) L (gstart L D me) (D * L) D = k.
Proof. exact nary_slots. Qed.
Print Assumptions C01_nary_slots.

(* ROUTING at one level *)
Theorem C01_nary_routing : forall L D G, 0 < L -> 2 <= D -> 0 < G <= BIG -> D * L <= BIG ->
  forall me t, 0 <= me < G -> 0 <= t < G -> t mod L = me mod L ->
  let j := nary_topart t (D * L) L in
  0 <= j < D /\
  (j = gpart L D me -> t mod (D * L) = me mod (D * L)) /\
  (j <> gpart L D me -> let p := nary_peer me j (gpart L D me) L G (D * L) in 0 <= p < G /\ t mod (D * L) = p mod (D * L)).
Proof. exact nary_routing. Qed.
Print Assumptions C01_nary_routing.

(* the part index the code derives from (start, lengthn) is the one used in the statements above *)
Theorem C01_nary_mypart : forall L D me, 0 < L -> 2 <= D -> D * L <= BIG -> 0 <= me <= BIG ->
  nary_part (D * L) D me (gstart L D me) = (L, gpart L D me).
Proof. exact nary_part_gpart. Qed.
Print Assumptions C01_nary_mypart.

(* DELIVERY through all levels, for any widths >= 2 whose product covers the communicator *)
Theorem C01_nary_delivery : forall Ds L G h t,
  Forall (fun D => 2 <= D) Ds -> 0 < L -> 0 < G <= BIG -> prodl Ds * L <= BIG -> G <= prodl Ds * L ->
  0 <= h < G -> 0 <= t < G -> t mod L = h mod L -> deliver Ds L G h t = t.
Proof. exact deliver_correct. Qed.
Print Assumptions C01_nary_delivery.

(* PATTERN INVERSION: rank p ends up with exactly the ranks f that listed p, for every family of receiver
   lists (empty lists and self-notification included) *)
Theorem C01_nary_inverts_pattern : forall Ds G (R : Z -> list Z) p,
  Forall (fun D => 2 <= D) Ds -> 0 < G <= BIG -> prodl Ds <= BIG -> G <= prodl Ds ->
  (forall f t, 0 <= f < G -> In t (R f) -> 0 <= t < G) -> 0 <= p < G ->
  forall f, In f (final_senders Ds G R p) <-> (0 <= f < G /\ In p (R f)).
Proof. exact nary_inverts_pattern. Qed.
Print Assumptions C01_nary_inverts_pattern.

Example C01_nonvacuous :
  (* 11 ranks, widths 3 (bottom), 2, 2 (top): product 12 *)
  deliver [3; 2; 2] 1 11 7 10 = 10 /\ deliver [3; 2; 2] 1 11 10 0 = 0 /\
  final_senders [3; 2; 2] 11 (fun f => if f =? 4 then [0; 9] else if f =? 9 then [9] else if f =? 10 then [9] else []) 9 = [4; 9; 10].
Proof. repeat split; vm_compute; reflexivity. Qed.
