(* C01 - notify inverts the communication pattern.
   All functions named nary_* are slices of sc_notify_recursive_nary GENERATED from /repo (Gen/NotifyC01.v). *)
From Coq Require Import ZArith List Bool.
From Coq Require Import Permutation Lia.
From ScV Require Import Base.CInt Gen.NotifyC01 C01.NaryArith C01.NaryDelivery C01.MergeModel C01.MergeProofs C01.MergeCorr Gen.Consts C18.MacroProofs C01.BinaryArith MPI.Prog C01.NotifyProgs C01.NotifyProgProofs C01.RecordOps C01.BinaryRound C01.NaryRound C01.NaryCore C01.PexRound C01.NbxProofs C01.RangesRound C01.SupersetProofs.
From ScV Require C15.RangesModel C15.RangesDecode.
Import ListNotations.
Local Open Scope Z_scope.

(* MATCHING (no hang, no leftover message) for the n-ary algorithm, every communicator size G, part length L and
   width D >= 2: the ranks that send a message to `me` at a level are exactly the nrecv ranks named by the
   indices 0..nrecv except the own part, where nrecv is the count the code waits for. *)
Theorem C01_nary_matching : forall L D G, 0 < L -> 2 <= D -> 0 < G <= BIG -> D * L <= BIG ->
  forall me q, 0 <= me < G -> 0 <= q < G ->
  ((exists j, 0 <= j < D /\ j <> gpart L D q /\ nary_peer q j (gpart L D q) L G (D * L) = me) <->
   (exists k, 0 <= k <= nary_nrecv (gpart L D me) G me L D /\ k <> gpart L D me /\ q = me + (k - gpart L D me) * L)).
Proof. exact nary_matching. Qed.
Print Assumptions C01_nary_matching.

(* each of these indices names an EXISTING rank (so exactly nrecv messages arrive) ... *)
Theorem C01_nary_senders_exist : forall L D G, 0 < L -> 2 <= D -> 0 < G <= BIG -> D * L <= BIG ->
  forall me k, 0 <= me < G -> 0 <= k <= nary_nrecv (gpart L D me) G me L D -> 0 <= me + (k - gpart L D me) * L < G.
Proof. exact nary_senders_exist. Qed.
Print Assumptions C01_nary_senders_exist.

(* ... and the receive slot computed from the message's source is that index: distinct sources use distinct
   slots inside the array of nrecv + 1 buffers, whatever the arrival order *)
Theorem C01_nary_slots : forall L D G, 0 < L -> 2 <= D -> 0 < G <= BIG -> D * L <= BIG ->
  forall me k, 0 <= me < G -> 0 <= k <= nary_nrecv (gpart L D me) G me L D -> k <> gpart L D me ->
  nary_slot (me + (k - gpart L D me) * L) me (gpart L D me) L (gstart L D me) (D * L) D = k.
Proof. exact nary_slots. Qed.
Print Assumptions C01_nary_slots.

(* ROUTING at one level *)
Theorem C01_nary_routing : forall L D G, 0 < L -> 2 <= D -> 0 < G <= BIG -> D * L <= BIG ->
  forall me t, 0 <= me < G -> 0 <= t < G -> t mod L = me mod L ->
  let j := nary_topart t (D * L) L in
  0 <= j < D /\
  (j = gpart L D me -> t mod (D * L) = me mod (D * L)) /\
  (j <> gpart L D me -> let p := nary_peer me j (gpart L D me) L G (D * L) in 0 <= p < G /\ t mod (D * L) = p mod (D * L)).
Proof. exact nary_routing. Qed.
Print Assumptions C01_nary_routing.

(* the part index the code derives from (start, lengthn) is the one used in the statements above *)
Theorem C01_nary_mypart : forall L D me, 0 < L -> 2 <= D -> D * L <= BIG -> 0 <= me <= BIG ->
  nary_part (D * L) D me (gstart L D me) = (L, gpart L D me).
Proof. exact nary_part_gpart. Qed.
Print Assumptions C01_nary_mypart.

(* DELIVERY through all levels, for any widths >= 2 whose product covers the communicator *)
Theorem C01_nary_delivery : forall Ds L G h t,
  Forall (fun D => 2 <= D) Ds -> 0 < L -> 0 < G <= BIG -> prodl Ds * L <= BIG -> G <= prodl Ds * L ->
  0 <= h < G -> 0 <= t < G -> t mod L = h mod L -> deliver Ds L G h t = t.
Proof. exact deliver_correct. Qed.
Print Assumptions C01_nary_delivery.

(* PATTERN INVERSION: rank p ends up with exactly the ranks f that listed p, for every family of receiver
   lists (empty lists and self-notification included) *)
Theorem C01_nary_inverts_pattern : forall Ds G (R : Z -> list Z) p,
  Forall (fun D => 2 <= D) Ds -> 0 < G <= BIG -> prodl Ds <= BIG -> G <= prodl Ds ->
  (forall f t, 0 <= f < G -> In t (R f) -> 0 <= t < G) -> 0 <= p < G ->
  forall f, In f (final_senders Ds G R p) <-> (0 <= f < G /\ In p (R f)).
Proof. exact nary_inverts_pattern. Qed.
Print Assumptions C01_nary_inverts_pattern.

Example C01_nonvacuous :
  (* 11 ranks, widths 3 (bottom), 2, 2 (top): product 12 *)
  deliver [3; 2; 2] 1 11 7 10 = 10 /\ deliver [3; 2; 2] 1 11 10 0 = 0 /\
  final_senders [3; 2; 2] 11 (fun f => if f =? 4 then [0; 9] else if f =? 9 then [9] else if f =? 10 then [9] else []) 9 = [4; 9; 10].
Proof. repeat split; vm_compute; reflexivity. Qed.

(* ---- the record format and sc_notify_merge --------------------------------------------------------------
   notify_merge is the int-level model that follows the C loop (compared with the static function of the working
   tree on every run); rmerge / imerge are the merge on abstract records (torank, [(fromrank, payload ints)]). *)

(* on encoded arrays the int-level merge computes the encoding of the abstract merge of the records of `input`
   that are not marked as sent (torank -1) with the records of `second`; npay payload ints per sender *)
Theorem C01_merge_model : forall n a b, wfpay n a -> wfpay n b ->
  notify_merge (Z.of_nat n) (encode a) (encode b) = encode (rmerge (live a) b).
Proof. exact notify_merge_encode. Qed.
Print Assumptions C01_merge_model.

(* the merge neither loses nor invents nor duplicates a notification (torank, fromrank, payload) - no hypothesis *)
Theorem C01_merge_union : forall a b, Permutation (pairs (rmerge a b)) (pairs a ++ pairs b).
Proof. exact rmerge_pairs. Qed.
Print Assumptions C01_merge_union.

(* well-formedness (toranks strictly ascending, senders of a record strictly ascending and not empty) is kept,
   provided the operands do not hold the same sender for the same destination (the SC_ASSERT of the sender loop) *)
Theorem C01_merge_wf : forall a b, wfr a -> wfr b -> disj a b -> wfr (rmerge a b).
Proof. exact rmerge_wf. Qed.
Print Assumptions C01_merge_wf.

(* a well-formed record array is determined by the set of notifications it holds *)
Theorem C01_merge_canonical : forall a b, wfr a -> wfr b -> Permutation (pairs a) (pairs b) -> a = b.
Proof. exact wfr_canonical. Qed.
Print Assumptions C01_merge_canonical.

Theorem C01_merge_comm : forall a b, wfr a -> wfr b -> disj a b -> rmerge a b = rmerge b a.
Proof. exact rmerge_comm. Qed.
Print Assumptions C01_merge_comm.

Theorem C01_merge_assoc : forall a b c, wfr a -> wfr b -> wfr c -> disj a b -> disj a c -> disj b c ->
  rmerge (rmerge a b) c = rmerge a (rmerge b c).
Proof. exact rmerge_assoc. Qed.
Print Assumptions C01_merge_assoc.

(* binary recursion, rank with two incoming messages x, y at a level: whichever the wildcard probe matches first *)
Theorem C01_merge_arrival_order : forall a x y, wfr a -> wfr x -> wfr y -> disj a x -> disj a y -> disj x y ->
  rmerge (rmerge a x) y = rmerge (rmerge a y) x.
Proof. exact rmerge_arrival_swap. Qed.
Print Assumptions C01_merge_arrival_order.

(* any merge tree over any arrangement of the same pairwise disjoint well-formed arrays gives the same array *)
Theorem C01_merge_order_irrelevant : forall t1 t2,
  Forall wfr (mleaves t1) -> pairwise_disj (mleaves t1) -> pairwise_disj (mleaves t2) ->
  Permutation (mleaves t1) (mleaves t2) -> meval t1 = meval t2.
Proof. exact merge_order_irrelevant. Qed.
Print Assumptions C01_merge_order_irrelevant.

Example C01_merge_nonvacuous :
  let a := [(-1, [(9, [])]); (1, [(5, [])]); (7, [(2, [])])] in
  let b := [(1, [(3, [])]); (2, [(9, [])])] in
  wfr (live a) /\ wfr b /\ disj (live a) b /\ wfpay 0 a /\ wfpay 0 b /\
  encode a = [-1; 1; 9; 1; 1; 5; 7; 1; 2] /\
  notify_merge 0 (encode a) (encode b) = [1; 2; 3; 5; 2; 1; 9; 7; 1; 2].
Proof.
  cbv zeta. repeat split; try (vm_compute; reflexivity); repeat constructor; try lia; try discriminate.
  intros t x y Hx Hy. vm_compute in Hx, Hy.
  destruct Hx as [Hx|[Hx|[]]]; destruct Hy as [Hy|[Hy|[]]]; inversion Hx; inversion Hy; subst; cbn; congruence.
Qed.

(* ---- the binary recursion sc_notify_recursive, every communicator size (powers of two or not) ---------------
   binary_peers / binary_tag / binary_pow2length are GENERATED slices.  Level j has half length 2^j and groups of
   2 * 2^j ranks; bpeer / bpeer2 are the two components of binary_peers with half = bhalf (the code's test
   `me < start + length2`, theorem C01_binary_half), bstart the first rank of the group. *)
Theorem C01_binary_half : forall h me, 0 < h -> 0 <= me ->
  bhalf h me = if me <? gstart h 2 me + h then 0 else 1.
Proof. exact bhalf_test. Qed.
Print Assumptions C01_binary_half.

(* tag of the level with group length 2^k and its half length *)
Theorem C01_binary_tag : forall k, 1 <= k <= 30 ->
  binary_tag c_SC_TAG_NOTIFY_RECURSIVE (2 ^ k) = (c_SC_TAG_NOTIFY_RECURSIVE + k, 2 ^ (k - 1)).
Proof. exact binary_tag_spec. Qed.
Print Assumptions C01_binary_tag.

(* distinct levels use distinct tags, all below the tags of the n-ary recursion *)
Theorem C01_binary_tags_distinct : forall k1 k2, 1 <= k1 <= 30 -> 1 <= k2 <= 30 -> k1 <> k2 ->
  fst (binary_tag c_SC_TAG_NOTIFY_RECURSIVE (2 ^ k1)) <> fst (binary_tag c_SC_TAG_NOTIFY_RECURSIVE (2 ^ k2)) /\
  fst (binary_tag c_SC_TAG_NOTIFY_RECURSIVE (2 ^ k1)) < c_SC_TAG_NOTIFY_NARY.
Proof. exact binary_tags_distinct. Qed.
Print Assumptions C01_binary_tags_distinct.

(* sc_notify starts with the least power of two >= mpisize *)
Theorem C01_binary_toplength : forall P, 0 < P <= 2 ^ 30 -> is_roundup2 P (binary_pow2length P).
Proof. exact binary_pow2length_spec. Qed.
Print Assumptions C01_binary_toplength.

(* MATCHING: q sends its message of level j to me  iff  me posts a receive for it (guard `peer >= start` resp.
   `peer2 >= 0`): no hang, no message left over, for every G *)
Theorem C01_binary_matching : forall j G me q, 0 <= j -> 0 < G <= BIG -> 2 * 2 ^ j <= BIG -> 0 <= me < G -> 0 <= q < G ->
  (bpeer j G q = me <->
   (q = bpeer j G me /\ bstart j me <= bpeer j G me) \/ (q = bpeer2 j G me /\ 0 <= bpeer2 j G me)).
Proof. exact binary_matching_gen. Qed.
Print Assumptions C01_binary_matching.

(* the (at most) two sources are different ranks and none is the rank itself *)
Theorem C01_binary_sources_distinct : forall j G me, 0 <= j -> 0 < G <= BIG -> 2 * 2 ^ j <= BIG -> 0 <= me < G ->
  0 <= bpeer2 j G me -> bpeer2 j G me <> bpeer j G me /\ bpeer2 j G me <> me /\ bpeer j G me <> me.
Proof. exact binary_sources_distinct_gen. Qed.
Print Assumptions C01_binary_sources_distinct.

(* ROUTING at one level: a record for t held by me (t = me mod 2^j) stays iff t = me mod 2^(j+1) (the code's
   test), otherwise the peer exists and is congruent to t modulo the group length *)
Theorem C01_binary_routing : forall j G me t, 0 <= j -> 0 < G <= BIG -> 2 * 2 ^ j <= BIG -> 0 <= me < G -> 0 <= t < G ->
  t mod 2 ^ j = me mod 2 ^ j ->
  (t mod (2 * 2 ^ j) = me mod (2 * 2 ^ j)) \/
  (t mod (2 * 2 ^ j) <> me mod (2 * 2 ^ j) /\ 0 <= bpeer j G me < G /\ t mod (2 * 2 ^ j) = bpeer j G me mod (2 * 2 ^ j)).
Proof. exact binary_routing_gen. Qed.
Print Assumptions C01_binary_routing.

(* DELIVERY through the levels j .. j+n-1 *)
Theorem C01_binary_delivery : forall n j G holder t,
  0 <= j -> 0 < G <= BIG -> 2 ^ (j + Z.of_nat n) <= BIG -> G <= 2 ^ (j + Z.of_nat n) ->
  0 <= holder < G -> 0 <= t < G -> t mod 2 ^ j = holder mod 2 ^ j -> bdeliver n j G holder t = t.
Proof. exact bdeliver_correct. Qed.
Print Assumptions C01_binary_delivery.

(* PATTERN INVERSION for every G >= 1 and every family of receiver lists *)
Theorem C01_binary_inverts_pattern : forall n G (R : Z -> list Z) p,
  0 < G <= BIG -> 2 ^ Z.of_nat n <= BIG -> G <= 2 ^ Z.of_nat n ->
  (forall f t, 0 <= f < G -> In t (R f) -> 0 <= t < G) -> 0 <= p < G ->
  forall f, In f (bfinal_senders n G R p) <-> (0 <= f < G /\ In p (R f)).
Proof. exact binary_inverts_pattern. Qed.
Print Assumptions C01_binary_inverts_pattern.

Example C01_binary_nonvacuous :
  (* 11 ranks, 4 levels; rank 10 (no peer at the top level: 10 ^ 8 = 2) and rank 9 whose peer 13 does not exist *)
  bdeliver 4 0 11 10 5 = 5 /\ bdeliver 4 0 11 9 7 = 7 /\ bpeer 2 11 9 = 5 /\ bpeer2 2 11 5 = 9 /\ bpeer 3 11 3 = -5 /\
  bfinal_senders 4 11 (fun f => if f =? 4 then [0; 9] else if f =? 9 then [9] else if f =? 10 then [9] else []) 9 = [4; 9; 10].
Proof. repeat split; vm_compute; reflexivity. Qed.

(* ---- per-rank programs (NotifyProgs.v: the programs co-simulated against the traces of the real code) --------
   run rs p: the actions program p issues and its result when the MPI library answers with the replies rs.
   `coll kind contributions rank` is what a collective returns; its specification is a hypothesis (MPI contract). *)

(* allgather: proved outright from the contract of MPI_Allgather / MPI_Allgatherv (no point-to-point message):
   the history in which the collectives return the concatenation of what the ranks really contribute ends on
   every rank with the ascending list of the ranks that listed it *)
Theorem C01_allgather_program : forall (coll : Z -> list payload -> Z -> payload),
  (forall cs r, coll K_ALLGATHER cs r = concat cs) -> (forall cs r, coll K_ALLGATHERV cs r = concat cs) ->
  forall P (R : Z -> list Z) me,
  run [coll K_ALLGATHER (map (fun s => [Z.of_nat (length (R s))]) (ranks P)) me; coll K_ALLGATHERV (map R (ranks P)) me]
      (allgather_core me (R me) None (fun s g => Ret (result s g)))
  = ([Coll K_ALLGATHER (-1) [Z.of_nat (length (R me))]; Coll K_ALLGATHERV (-1) (R me)], Some (result (transpose P R me) [])).
Proof. exact allgather_round. Qed.
Print Assumptions C01_allgather_program.

(* pcx (kind = K_RSB) and rsx (kind = K_RMA), round abstraction for the wildcard receives: whatever the order in
   which the messages addressed to `me` are matched - any permutation `order` of the ranks that listed me - the
   program returns that list, ascending when sorted output is requested; the census it waits for equals the number
   of messages the other programs send to it *)
Theorem C01_census_program : forall (coll : Z -> list payload -> Z -> payload) kind,
  (forall cs r, coll kind cs r = [fold_right Z.add 0 (map (fun c => nth (Z.to_nat r) c 0) cs)]) ->
  forall P (R : Z -> list Z), 0 < P -> forall me (sorted : bool) (order : list Z),
  0 <= me < P -> Permutation order (transpose P R me) ->
  let final := if sorted then transpose P R me else order in
  run (coll kind (map (fun s => indicator P (R s)) (ranks P)) me :: repeat [] (length (R me)) ++ map (fun s => [s]) order)
      (census_core kind P (R me) None sorted (fun s g => Ret (result s g)))
  = (Coll kind (-1) (indicator P (R me))
       :: map (fun r => Send r c_SC_TAG_NOTIFY_CENSUS []) (R me) ++ repeat (Recv ANY c_SC_TAG_NOTIFY_CENSUS) (length order),
     Some (result final [])).
Proof. intros coll kind H P R HP. exact (census_round_nopay coll kind H P R (fun _ _ => []) HP). Qed.
Print Assumptions C01_census_program.

(* transpose is the specification: ascending, duplicate free, exactly the ranks that listed me *)
Theorem C01_transpose_spec : forall P (R : Z -> list Z) me,
  ssorted (fun x => x) (transpose P R me) /\ forall f, In f (transpose P R me) <-> 0 <= f < P /\ In me (R f).
Proof. intros P R me. split; [exact (transpose_ssorted P R me)|exact (transpose_In P R me)]. Qed.
Print Assumptions C01_transpose_spec.

Example C01_programs_nonvacuous :
  let R := fun f : Z => if f =? 0 then [1; 2] else if f =? 2 then [1] else [] in
  transpose 3 R 1 = [0; 2] /\
  (* rank 0: census 0, two sends, nothing to receive; rank 1: census 2, messages arrive from 2 then from 0 *)
  snd (run [[0]; []; []] (census_core K_RSB 3 (R 0) None true (fun s g => Ret (result s g)))) = Some [0] /\
  snd (run [[2]; [2]; [0]] (census_core K_RSB 3 (R 1) None true (fun s g => Ret (result s g)))) = Some [2; 0; 2] /\
  snd (run [[2]; [2]; [0]] (census_core K_RSB 3 (R 1) None false (fun s g => Ret (result s g)))) = Some [2; 2; 0].
Proof. repeat split; vm_compute; reflexivity. Qed.

(* ---- RECORD-LEVEL ROUND SEMANTICS of the binary algorithm, about the co-simulated program binary_core ----------
   spec G R j q    the canonical record array of the notifications (t, f) whose holder after j levels is q
                   (holder = BinaryArith.bdeliver, built from the generated slice binary_peers);
   msg / wire      the records rank q sends at level j (destination not congruent to q modulo 2 * 2^j) / their ints;
   lvl_replies     what MPI hands back to `me` at level j: [] for its send, then (source :: wire j source) for its
                   sources - the messages the OTHER ranks' programs send (lvl_acts) - first2 = true: the wildcard
                   probe matches peer2's message first.  Round abstraction: a wildcard receive on a level's tag
                   returns one of that level's messages addressed to the rank, each once, in either order. *)

(* one level, merge algebra + matching + routing composed: merging the kept records with the messages of the
   sources in ANY order (srcs: any duplicate-free enumeration of the ranks whose peer is me) gives spec (j+1) *)
Theorem C01_binary_level_merge : forall G (R : Z -> list Z), 0 < G <= BIG ->
  forall (j : nat) me (srcs : list Z), 2 * 2 ^ Z.of_nat j <= BIG -> 0 <= me < G -> NoDup srcs -> ~ In me srcs ->
  (forall q, 0 <= q < G -> (bpeer (Z.of_nat j) G q = me <-> In q srcs)) ->
  fold_left rmerge (map (msg G R j) srcs) (bkeep j me (spec G R j me)) = spec G R (S j) me.
Proof. exact level_merge. Qed.
Print Assumptions C01_binary_level_merge.

(* one level of the PROGRAM: fed with the messages of its sources in either arrival order it issues exactly the
   send / receives of lvl_acts and continues with the array spec (j+1) *)
Theorem C01_binary_level_program : forall G (R : Z -> list Z), 0 < G <= BIG ->
  forall (j : nat) me (first2 : bool) (k : list Z -> prog) rest, 2 * 2 ^ Z.of_nat j <= BIG -> 0 <= me < G ->
  run (lvl_replies G R j me first2 ++ rest) (binary_level G me (2 * 2 ^ Z.of_nat j) (encode (spec G R j me)) k) =
  let '(a, o) := run rest (k (encode (spec G R (S j) me))) in (lvl_acts G R j me first2 ++ a, o).
Proof. exact run_binary_level. Qed.
Print Assumptions C01_binary_level_program.

(* the whole call: for every communicator size, every family of ascending receiver lists and every choice of
   arrival orders at all levels and ranks, the program of every rank returns the ascending list of the ranks that
   listed it *)
Theorem C01_binary_round_semantics : forall G (R : Z -> list Z), 0 < G <= BIG ->
  (forall f, 0 <= f < G -> ssorted (fun x => x) (R f) /\ forall t, In t (R f) -> 0 <= t < G) ->
  exists n : nat, binary_pow2length G = 2 ^ Z.of_nat n /\
  forall (first2 : nat -> Z -> bool) me, 0 <= me < G ->
    run (levels_replies G R first2 0 n me) (binary_core G me (R me) None (fun s g => Ret (result s g)))
    = (levels_acts G R first2 0 n me, Some (result (transpose G R me) [])).
Proof. exact binary_round_semantics_all. Qed.
Print Assumptions C01_binary_round_semantics.

Example C01_binary_round_nonvacuous :
  let R := fun f : Z => if f =? 0 then [1; 2] else if f =? 2 then [1] else [] in
  binary_pow2length 3 = 2 ^ Z.of_nat 2 /\
  (* rank 1 of 3 is listed by 0 and 2; both arrival orders at every level *)
  snd (run (levels_replies 3 R (fun _ _ => true) 0 2 1) (binary_core 3 1 (R 1) None (fun s g => Ret (result s g)))) = Some [2; 0; 2] /\
  snd (run (levels_replies 3 R (fun _ _ => false) 0 2 1) (binary_core 3 1 (R 1) None (fun s g => Ret (result s g)))) = Some [2; 0; 2] /\
  levels_acts 3 R (fun _ _ => false) 0 2 0 = [Send 1 229 [1; 1; 0]; Recv ANY 229; Send 2 230 [2; 1; 0]; Recv ANY 230].
Proof. cbv zeta. repeat split; vm_compute; reflexivity. Qed.

(* ---- RECORD-LEVEL ROUND SEMANTICS of the n-ary recursion, about the co-simulated programs nary_level / nary_run ----
   specH G R payf hold q   canonical array of the notifications whose holder (hold f t) is q; payf = payload ints;
   a level with part length L and width D: rank q sends partj j (records of destination part j = nary_topart) to
   nary_peer q j, receives nary_nrecv wildcard messages, files them by nary_slot and merges the slots pairwise.
   senders G L D me = the ranks me + (k - mypart) * L, k = 0..nrecv, k <> mypart (C01_nary_matching).
   Round abstraction = hypothesis `Permutation order (senders ..)` / levels_ok: the wildcard receives of a level
   return the messages of the level's sources, each once, in the order `order`. *)

(* matching + routing + merge algebra: an array holding exactly my own part and the parts addressed to me is the
   canonical array of the next level *)
Theorem C01_nary_level_union : forall G L D (R : Z -> list Z) (payf : Z -> Z -> list Z),
  0 < L -> 2 <= D -> 0 < G <= BIG -> D * L <= BIG ->
  forall hold : Z -> Z -> Z,
  (forall f t, 0 <= f < G -> 0 <= t < G -> 0 <= hold f t < G /\ t mod L = hold f t mod L) ->
  forall me (x : list rcd), 0 <= me < G -> wfr x ->
  (forall p, In p (pairs x) <->
             In p (pairs (partj L D (npart L D me) (specH G R payf hold me))) \/
             exists q, In q (senders G L D me) /\ In p (pairs (partj L D (npart L D me) (specH G R payf hold q)))) ->
  x = specH G R payf (hold' G L D hold) me.
Proof. exact nary_level_union. Qed.
Print Assumptions C01_nary_level_union.

(* one level of the PROGRAM, any arrival order of the nrecv messages: sends, wildcard receives, slots, merge tree *)
Theorem C01_nary_level_program : forall G L D (R : Z -> list Z) (payf : Z -> Z -> list Z),
  0 < L -> 2 <= D -> 0 < G <= BIG -> D * L <= BIG ->
  forall hold : Z -> Z -> Z,
  (forall f t, 0 <= f < G -> 0 <= t < G -> 0 <= hold f t < G /\ t mod L = hold f t mod L) ->
  forall n : nat, (forall f t, length (payf f t) = n) ->
  forall level depth ntop nint nbot, nary_divn level depth nbot ntop nint = D ->
  forall me (order : list Z) (k : list Z -> prog) rest, 0 <= me < G -> Permutation order (senders G L D me) ->
  run (nlvl_replies G L D R payf hold level me order ++ rest)
      (nary_level G me (Z.of_nat n) level depth ntop nint nbot (gstart L D me) (D * L) (encode (specH G R payf hold me)) k) =
  let '(a, o) := run rest (k (encode (specH G R payf (hold' G L D hold) me))) in (nlvl_acts G L D R payf hold level me ++ a, o).
Proof. exact run_nary_level. Qed.
Print Assumptions C01_nary_level_program.

(* all levels (ls = (level index, width) from the deepest level to the top, widths >= 2, product >= G): every rank
   ends with the ascending list of the ranks that listed it, for every receiver family and all arrival orders *)
Theorem C01_nary_round_semantics : forall G (R : Z -> list Z), 0 < G <= BIG ->
  (forall f, 0 <= f < G -> ssorted (fun x => x) (R f) /\ forall t, In t (R f) -> 0 <= t < G) ->
  forall depth ntop nint nbot (ls : list (Z * Z)), G <= prodl (map snd ls) -> prodl (map snd ls) <= BIG ->
  forall orders : Z -> Z -> list Z,
  (forall me, 0 <= me < G -> levels_ok G depth ntop nint nbot me (orders me) 1 ls) ->
  forall me sz0, 0 <= me < G ->
  run (all_replies G R (fun _ _ => []) me (orders me) 1 ls h0)
      (nary_run G me 0 depth ntop nint nbot (mk_lv me 1 ls) (init_input me (R me) None 0)
                (fun arr => let '(s, p) := reset_output arr 0 sz0 false in Ret (result s p)))
  = (all_acts G R (fun _ _ => []) me 1 ls h0, Some (result (transpose G R me) [])).
Proof. exact nary_round_semantics. Qed.
Print Assumptions C01_nary_round_semantics.

(* the GENERATED depth loop terminates (fuel 64) for all widths >= 2 and every size in the range without int overflow;
   it returns the number of levels and the product of their widths, which covers the size, and (for more than two
   levels) one level less would not cover it *)
Theorem C01_nary_depth_spec : forall G ntop nint nbot,
  0 < G <= BIG -> 2 <= ntop -> 2 <= nint -> 2 <= nbot -> nbot <= BIG -> nbot * ntop <= BIG -> G * nint <= BIG ->
  exists depth prod, nary_depth 64 G nbot ntop nint = Some (depth, prod) /\ 1 <= depth < 60 /\
    prod = prodl (map snd (nary_dt depth ntop nint nbot)) /\ G <= prod <= BIG /\
    (depth = 1 \/ depth = 2 \/ prod < G * nint).
Proof. exact nary_depth_spec. Qed.
Print Assumptions C01_nary_depth_spec.

(* the descent of the recursion of rank me visits, from the deepest level to the top, the levels nary_ls with
   start = first rank of me's group and length = width * part length *)
Theorem C01_nary_descent_spec : forall me depth ntop nint nbot,
  0 <= me <= BIG -> 2 <= ntop -> 2 <= nint -> 2 <= nbot -> 1 <= depth < 60 ->
  prodl (map snd (nary_dt depth ntop nint nbot)) <= BIG -> me < prodl (map snd (nary_dt depth ntop nint nbot)) ->
  rev (nary_descent 64 me 0 depth ntop nint nbot 0 (prodl (map snd (nary_dt depth ntop nint nbot)))) = mk_lv me 1 (nary_ls depth ntop nint nbot).
Proof. exact nary_descent_spec. Qed.
Print Assumptions C01_nary_descent_spec.

(* FULL STRENGTH, the entry point nary_core (sc_notify_payload_nary): for every size 1 < G <= 2^29, all widths >= 2
   (products in int range), every family of ascending receiver lists and every arrival order at every level
   (orders_ok: at each level the wildcard receives return the messages of that level's sources, each once) every rank
   returns the ascending list of the ranks that listed it *)
Theorem C01_nary_core_round_semantics : forall G (R : Z -> list Z) ntop nint nbot,
  0 < G <= BIG -> G <> 1 ->
  (forall f, 0 <= f < G -> ssorted (fun x => x) (R f) /\ forall t, In t (R f) -> 0 <= t < G) ->
  2 <= ntop -> 2 <= nint -> 2 <= nbot -> nbot <= BIG -> nbot * ntop <= BIG -> G * nint <= BIG ->
  forall sz0,
  exists depth prod, nary_depth 64 G nbot ntop nint = Some (depth, prod) /\ G <= prod /\
  forall orders : Z -> Z -> list Z,
  (forall me, 0 <= me < G -> orders_ok G me (orders me) 1 (nary_ls depth ntop nint nbot)) ->
  forall me, 0 <= me < G ->
  run (all_replies G R (fun _ _ => []) me (orders me) 1 (nary_ls depth ntop nint nbot) h0)
      (nary_core G me ntop nint nbot (R me) None sz0 (fun s g => Ret (result s g)))
  = (all_acts G R (fun _ _ => []) me 1 (nary_ls depth ntop nint nbot) h0, Some (result (transpose G R me) [])).
Proof. exact nary_core_round_semantics_full. Qed.
Print Assumptions C01_nary_core_round_semantics.

Example C01_nary_round_nonvacuous :
  (* 5 ranks, widths ntop = nint = nbot = 2: depth 3, product 8; levels from the deepest: (2,2) (1,2) (0,2) *)
  let ls := [(2, 2); (1, 2); (0, 2)] in
  let orders := fun me lev => senders 5 (if lev =? 2 then 1 else if lev =? 1 then 2 else 4) 2 me in
  nary_depth 64 5 2 2 2 = Some (3, 8) /\
  (forall me, 0 <= me < 5 -> rev (nary_descent 64 me 0 3 2 2 2 0 8) = mk_lv me 1 ls) /\
  (forall me, 0 <= me < 5 -> levels_ok 5 3 2 2 2 me (orders me) 1 ls) /\
  senders 5 1 2 3 = [2; 4] /\ senders 5 2 2 1 = [3] /\ senders 5 4 2 0 = [4].
Proof.
  cbv zeta. split; [vm_compute; reflexivity|]. split; [|split].
  - intros me H. assert (E : me = 0 \/ me = 1 \/ me = 2 \/ me = 3 \/ me = 4) by lia.
    destruct E as [-> | [-> | [-> | [-> | ->]]]]; vm_compute; reflexivity.
  - intros me H. assert (E : me = 0 \/ me = 1 \/ me = 2 \/ me = 3 \/ me = 4) by lia.
    destruct E as [-> | [-> | [-> | [-> | ->]]]]; cbn [levels_ok]; repeat match goal with |- _ /\ _ => split end; try (unfold BIG; lia); try reflexivity; try exact I; apply Permutation_refl.
  - repeat split; vm_compute; reflexivity.
Qed.

(* ---- pex (one MPI_Alltoall): proved outright from the contract of the collective, about the co-simulated pex_core ---- *)
Theorem C01_pex_program : forall (coll : Z -> list payload -> Z -> payload),
  (forall (b : nat) cs r, (forall c, In c cs -> length c = (b * length cs)%nat) -> 0 <= r < Z.of_nat (length cs) ->
     coll K_ALLTOALL cs r = flat_map (fun c => firstn b (skipn (Z.to_nat r * b) c)) cs) ->
  forall P (R : Z -> list Z) sz0 me, 0 < P -> 0 <= me < P ->
  run [coll K_ALLTOALL (map (fun s => flat_map (pex_slot (R s) None 0) (ranks P)) (ranks P)) me]
      (pex_core P (R me) None sz0 (fun s g => Ret (result s g)))
  = ([Coll K_ALLTOALL (-1) (flat_map (pex_slot (R me) None 0) (ranks P))], Some (result (transpose P R me) [])).
Proof. exact pex_round_nopay. Qed.
Print Assumptions C01_pex_program.

(* ---- nbx (Issend / Iprobe / Ibarrier loop), about the co-simulated program nbx_core / nbx_loop ---------------------------
   TERMINATION SKELETON: whatever the MPI library answers (any reply stream rs), a loop that returns has consumed replies
   of the shape `exits`: polls with Testall = 0, then a Testall <> 0 (all own synchronous sends matched) followed by the
   Ibarrier call, then polls with Test = 0, then a Test <> 0 (barrier complete) - or the model's loop bound was hit
   (fuel_mark, an action the code never issues; the co-simulation would report it) *)
Theorem C01_nbx_exit_skeleton : forall (g : list (Z * payload) -> payload) tag fuel rs barr acc out,
  snd (run rs (nbx_loop fuel tag barr acc (fun got => Ret (g got)))) = Some out ->
  exits barr rs \/ In fuel_mark (fst (run rs (nbx_loop fuel tag barr acc (fun got => Ret (g got))))).
Proof. exact nbx_exit_skeleton. Qed.
Print Assumptions C01_nbx_exit_skeleton.

(* PATTERN INVERSION under the round abstraction: for every schedule of the loop (its1 / m1: polls before the barrier,
   its2 / m2: after it; each poll finds nothing or one message) in which the messages found are those addressed to me,
   each once, in the order `order`, the program returns them - ascending iff sorted - with pay s me behind sender s *)
Theorem C01_nbx_round_semantics : forall P (R : Z -> list Z) (pay : Z -> Z -> payload) (its1 its2 : list (option (Z * payload)))
    (m1 m2 : option (Z * payload)) me (sorted : bool) (order : list Z) (fuel : nat),
  0 <= me < P -> Permutation order (transpose P R me) ->
  received (its1 ++ [m1] ++ its2 ++ [m2]) = map (fun s => (s, pay s me)) order ->
  (length its1 + length its2 + 1 < fuel)%nat ->
  let final := if sorted then transpose P R me else order in
  run (repeat [] (length (R me)) ++ replies1 its1 m1 ++ replies2 its2 m2)
      (nbx_core fuel (R me) (Some (map (pay me) (R me))) sorted (fun s g => Ret (result s g)))
  = (map (fun r => Send r c_SC_TAG_NOTIFY_NBX (pay me r)) (R me)
       ++ acts1 c_SC_TAG_NOTIFY_NBX (length its1) ++ acts2 c_SC_TAG_NOTIFY_NBX (length its2),
     Some (result final (map (fun s => pay s me) final))).
Proof. exact nbx_round. Qed.
Print Assumptions C01_nbx_round_semantics.

Example C01_nbx_nonvacuous :
  (* rank 1 of 3, listed by 0 and 2: first poll finds nothing, then the message of 2, sends matched, barrier, message of 0 *)
  let R := fun f : Z => if f =? 0 then [1] else if f =? 2 then [1] else [] in
  snd (run (replies1 [None] (Some (2, [7])) ++ replies2 [Some (0, [9])] None)
           (nbx_core 10 (R 1) (Some []) true (fun s g => Ret (result s g)))) = Some [2; 0; 2; 9; 7] /\
  exits false (replies1 [None] (Some (2, [7])) ++ replies2 [Some (0, [9])] None).
Proof.
  cbv zeta. split; [vm_compute; reflexivity|]. unfold replies1, replies2. cbn [flat_map app poll_reply].
  apply ex_testall_more; [reflexivity|]. apply ex_testall_sent; [discriminate|]. apply ex_test_more; [reflexivity|]. apply ex_test_done. discriminate.
Qed.

(* ---- ranges (sc_ranges_adaptive + sc_ranges_decode + point-to-point), about the co-simulated program ranges_core --------------
   Composition with the C15 development: gtbl P R nr is C15's adaptive_all table for the vectors procs of all ranks
   (procs[q] = position + 1 of q in the receiver list), rcv / snds its decoded receivers / senders (C15 model functions,
   used as such by the program).  All receives name their source; by C15's decode symmetry (C15_decode_symmetric) rank q
   sends to me iff me receives from q.  The ranges may contain ranks that are not listed (over-approximation): they get
   flag 0 and are dropped; the result is exactly the transposed pattern (hp: with the items). *)
Theorem C01_ranges_round_semantics : forall (coll : Z -> list payload -> Z -> payload),
  (forall cs r, coll K_ALLREDUCE_MAX cs r =
     [RangesModel.allreduce_max (map (fun c => nth 0 c 0) cs); RangesModel.allreduce_max (map (fun c => nth 1 c 0) cs)]) ->
  (forall cs r, coll K_ALLGATHER cs r = concat cs) ->
  forall P (R : Z -> list Z) (pay : Z -> Z -> payload) (hp : bool) sz nr, 0 < P -> 1 <= nr ->
  (forall f, 0 <= f < P -> ssorted (fun x => x) (R f) /\ forall t, In t (R f) -> 0 <= t < P) ->
  forall me, 0 <= me < P ->
  let rcv := RangesModel.receivers (gtbl P R nr) me in
  let snds := RangesModel.senders (gtbl P R nr) me in
  run ([coll K_ALLREDUCE_MAX (map (contrib1 P R nr) (ranks P)) me; coll K_ALLGATHER (map (contrib2 P R nr) (ranks P)) me]
         ++ repeat [] (length rcv) ++ map (fun q => q :: rmsg R pay hp sz q me) snds)
      (ranges_core P me nr (R me) (rep R pay hp me) sz (fun s g => Ret (result s g)))
  = (Coll K_ALLREDUCE_MAX (-1) (contrib1 P R nr me) :: Coll K_ALLGATHER (-1) (contrib2 P R nr me)
       :: map (fun q => Send q c_SC_TAG_NOTIFY_RANGES (rmsg R pay hp sz me q)) rcv ++ map (fun q => Recv q c_SC_TAG_NOTIFY_RANGES) snds,
     Some (result (transpose P R me) (if hp then map (fun s => pay s me) (transpose P R me) else []))).
Proof. exact ranges_round. Qed.
Print Assumptions C01_ranges_round_semantics.

(* matching for the point-to-point part: q is a decoded sender of me iff me is a decoded receiver of q *)
Theorem C01_ranges_matching : forall P (R : Z -> list Z) nr, 0 < P -> 1 <= nr -> forall p q, 0 <= p < P -> p <> q ->
  (In q (RangesModel.receivers (gtbl P R nr) p) <-> In p (RangesModel.senders (gtbl P R nr) q)).
Proof. exact ranges_matching. Qed.
Print Assumptions C01_ranges_matching.

(* ---- superset, about the co-simulated program super_core / super_loop; the callback compute_superset is a parameter ----------
   EXIT CONDITION: for any reply stream, a loop that returns has seen as many successful polls (TRUE or EXTRA tag) as the
   callback announced super senders (sexits queue rs), or the model's loop bound was hit *)
Theorem C01_superset_exit_skeleton : forall (g : list (Z * payload) -> payload) fuel rs queue acc out,
  snd (run rs (super_loop fuel queue acc (fun got => Ret (g got)))) = Some out ->
  sexits queue rs \/ In fuel_mark (fst (run rs (super_loop fuel queue acc (fun got => Ret (g got))))).
Proof. exact super_exit_skeleton. Qed.
Print Assumptions C01_superset_exit_skeleton.

(* PATTERN INVERSION under the contract of the callback (its super senders = the ranks that list me ++ the ranks xs that
   contact me only as extra receivers, each once) and the round abstraction (the polls deliver the TRUE messages of the
   former and the EXTRA messages of the latter, each once, in any order, with any number of empty polls): the result is
   the transposed pattern - the extra contacts are not reported - with the items behind their senders *)
Theorem C01_superset_round_semantics : forall P (R : Z -> list Z) (pay : Z -> Z -> payload) (extra : Z -> list Z) (supers : list Z) me (xs : list Z),
  Permutation supers (transpose P R me ++ xs) ->
  forall (its : list outcome) (order xorder : list Z) (sorted : bool) (fuel : nat),
  Permutation order (transpose P R me) -> Permutation xorder xs ->
  flat_map o_true its = map (fun s => (s, pay s me)) order -> flat_map o_extra its = xorder ->
  Forall o_nonneg its -> no_trailing_none its -> (length its < fuel)%nat ->
  let final := if sorted then transpose P R me else order in
  run (repeat [] (length (R me)) ++ repeat [] (length (extra me)) ++ flat_map o_replies its)
      (super_core fuel (R me) (Some (map (pay me) (R me))) (extra me) supers sorted (fun s g => Ret (result s g)))
  = (map (fun r => Send r c_SC_TAG_NOTIFY_SUPER_TRUE (pay me r)) (R me)
       ++ map (fun q => Send q c_SC_TAG_NOTIFY_SUPER_EXTRA []) (extra me) ++ flat_map o_acts its,
     Some (result final (map (fun s => pay s me) final))).
Proof. exact superset_round. Qed.
Print Assumptions C01_superset_round_semantics.

(* ==== EVERY SCHEDULE: the round abstraction discharged in an interleaving semantics with wildcard receives ==========================
   MPI/SemAny.v: Sem.v's step relation + the rule "Recv ANY t takes the head of ANY non-empty channel (src, r, t)" (FIFO per
   (source, destination, tag)); MPI/SemRounds.v: every schedule of a level-structured protocol; C01/NarySched.v, BinarySched.v:
   the instances for the co-simulated programs nary_core / binary_core; C01/BackToBack.v, BinaryTwice.v: two calls in sequence.
   (No `Import` of these modules here: MPI.Sem.run would shadow NotifyProgProofs.run for theorems appended later.) *)
From ScV Require MPI.Sem MPI.SemAny MPI.SemRounds C01.NarySched C01.BinarySched C01.BackToBack C01.BinaryTwice.

(* every step of the named-source semantics (Sem.v) is a step of the semantics with wildcards *)
Theorem C01_semany_embedding : forall s r s', Sem.step s r s' -> SemAny.step_a s r s'.
Proof. exact SemAny.step_in_step_a. Qed.
Print Assumptions C01_semany_embedding.

(* the executable scheduler (a choice = rank that moves, source matched by a wildcard) is sound for the step relation ... *)
Theorem C01_semany_exec_sound : forall (l : list SemAny.choice) s s', SemAny.exec l s = Some s' -> SemAny.run_a (length l) s s'.
Proof. exact SemAny.exec_sound. Qed.
Print Assumptions C01_semany_exec_sound.
(* ... and complete: every step is executed by some choice *)
Theorem C01_semany_exec_complete : forall s r s', SemAny.step_a s r s' -> exists src, SemAny.exec_step s (r, src) = Some s'.
Proof. exact SemAny.exec_step_complete. Qed.
Print Assumptions C01_semany_exec_complete.

(* EVERY SCHEDULE OF A LEVEL-STRUCTURED PROTOCOL (generic; the two notify recursions and the two binary calls in sequence are
   instances).  NL levels in sequence; at level l rank r sends `sends r l` (at most one message per destination), then receives one
   message from every rank of `srcs r l` by wildcard or named receives (`named`); q sends to r iff r expects q (matching), the
   contents are `wire l q r`; levels that share a tag: the later one has no new source and the earlier one uses a wildcard only
   for its first receive.  If each program, fed with the replies of ANY arrival order of its levels' messages, issues the
   script's actions and returns out r (round property), then in the interleaving semantics with wildcard receives: no reachable
   state is stuck, a run has at most total_len steps and is final exactly after total_len steps, and every final state has all
   results `out r` and empty channels. *)
Theorem C01_rounds_every_schedule : forall (NL : nat) (tagof : nat -> Z) (sends : Z -> nat -> list (Z * payload)) (srcs : Z -> nat -> list Z)
    (wire : nat -> Z -> Z -> payload) (named : Z -> nat -> nat -> bool) (P : Z -> prog) (out : Z -> payload) (rks : list Z),
  NoDup rks ->
  (forall r l, ~ In r rks -> sends r l = [] /\ srcs r l = []) ->
  (forall r p p', (p < p')%nat -> (p' < NL)%nat -> tagof p = tagof p' ->
     (forall q, In q (srcs r p') -> In q (srcs r p)) /\ (forall i, named r p i = false -> i = 0%nat)) ->
  (forall r l, (l < NL)%nat -> NoDup (map fst (sends r l))) ->
  (forall r l, (l < NL)%nat -> NoDup (srcs r l)) ->
  (forall r l q, (l < NL)%nat -> In q (srcs r l) -> 0 <= q) ->
  (forall q l d m, (l < NL)%nat -> In (d, m) (sends q l) -> In q (srcs d l) /\ m = wire l q d) ->
  (forall r l q, (l < NL)%nat -> In q (srcs r l) -> In (r, wire l q r) (sends q l)) ->
  (forall r ord, SemRounds.valid NL srcs r ord ->
     SemRounds.feed (map (SemRounds.reply_of wire r) (SemRounds.script NL sends named r ord)) (P r) =
     (map (SemRounds.act_of tagof) (SemRounds.script NL sends named r ord), Some (out r))) ->
  forall n s, SemAny.run_a n (SemRounds.init P) s ->
    ~ SemAny.stuck s /\ (n <= SemRounds.total_len NL sends srcs rks)%nat /\
    (Sem.final s <-> n = SemRounds.total_len NL sends srcs rks) /\
    (Sem.final s -> (forall r, Sem.pr s r = Ret (out r)) /\ (forall a b t, Sem.ch s a b t = [])).
Proof. exact SemRounds.all_schedules. Qed.
Print Assumptions C01_rounds_every_schedule.
(* the reply-feeding function of SemRounds is NotifyProgProofs.run *)
Theorem C01_rounds_feed_is_run : forall p rs, SemRounds.feed rs p = run rs p.
Proof. exact NarySched.feed_run. Qed.
Print Assumptions C01_rounds_feed_is_run.

(* N-ARY RECURSION, ONE CALL, EVERY SCHEDULE.  System nary_sys: rank r < G runs nary_core G r ntop nint nbot (R r) None sz0 (the
   program notify_prog gives for typ = 2 without payload), channels empty.  For every communicator size 1 < G <= 2^29, all widths
   >= 2 inside the int range and every family of ascending receiver lists: in EVERY run of the interleaving semantics with
   wildcard receives (i) no state is stuck (no deadlock); (ii) a run has at most nary_steps G R (nary_params ..) steps - the
   number of sends and receives of all ranks at all levels, computable - and a state is final exactly if it was reached by that
   many steps, so every maximal run is finite and ends in a final state; (iii) in every final state every rank has returned the
   transposed list and NO message is left in any channel. *)
Theorem C01_nary_every_schedule : forall G (R : Z -> list Z) ntop nint nbot,
  0 < G <= BIG -> G <> 1 ->
  (forall f, 0 <= f < G -> ssorted (fun x => x) (R f) /\ forall t, In t (R f) -> 0 <= t < G) ->
  2 <= ntop -> 2 <= nint -> 2 <= nbot -> nbot <= BIG -> nbot * ntop <= BIG -> G * nint <= BIG ->
  forall sz0,
  exists depth prod, nary_depth 64 G nbot ntop nint = Some (depth, prod) /\
  forall n s, SemAny.run_a n (NarySched.nary_sys G R ntop nint nbot sz0) s ->
    ~ SemAny.stuck s /\
    (n <= NarySched.nary_steps G R (NarySched.nary_params G ntop nint nbot depth))%nat /\
    (Sem.final s <-> n = NarySched.nary_steps G R (NarySched.nary_params G ntop nint nbot depth)) /\
    (Sem.final s -> (forall r, 0 <= r < G -> Sem.pr s r = Ret (result (transpose G R r) [])) /\
                    (forall a b t, Sem.ch s a b t = [])).
Proof. exact NarySched.nary_every_schedule. Qed.
Print Assumptions C01_nary_every_schedule.

(* the bound in closed form: per rank at most 3 * (sum of the widths of the levels) steps *)
Theorem C01_nary_steps_le : forall G (R : Z -> list Z) ntop nint nbot,
  0 < G <= BIG -> G <> 1 ->
  (forall f, 0 <= f < G -> ssorted (fun x => x) (R f) /\ forall t, In t (R f) -> 0 <= t < G) ->
  2 <= ntop -> 2 <= nint -> 2 <= nbot -> nbot <= BIG -> nbot * ntop <= BIG -> G * nint <= BIG ->
  forall depth prod, nary_depth 64 G nbot ntop nint = Some (depth, prod) ->
  (NarySched.nary_steps G R (NarySched.nary_params G ntop nint nbot depth) <=
   Z.to_nat G * list_sum (map (fun D => 3 * Z.to_nat D) (map snd (nary_ls depth ntop nint nbot))))%nat.
Proof. exact NarySched.nary_steps_le. Qed.
Print Assumptions C01_nary_steps_le.

(* BINARY RECURSION, ONE CALL, EVERY SCHEDULE, every 1 <= G <= 2^29 (powers of two or not): the same three statements for
   binary_sys (rank r < G runs binary_core G r (R r) None ..); the first receive of a level is a wildcard, the second names its source *)
Theorem C01_binary_every_schedule : forall G (R : Z -> list Z),
  0 < G <= BIG ->
  (forall f, 0 <= f < G -> ssorted (fun x => x) (R f) /\ forall t, In t (R f) -> 0 <= t < G) ->
  exists n : nat, binary_pow2length G = 2 ^ Z.of_nat n /\
  forall k s, SemAny.run_a k (BinarySched.binary_sys G R) s ->
    ~ SemAny.stuck s /\
    (k <= BinarySched.binary_steps G R n)%nat /\
    (Sem.final s <-> k = BinarySched.binary_steps G R n) /\
    (Sem.final s -> (forall r, 0 <= r < G -> Sem.pr s r = Ret (result (transpose G R r) [])) /\
                    (forall a b t, Sem.ch s a b t = [])).
Proof. exact BinarySched.binary_every_schedule. Qed.
Print Assumptions C01_binary_every_schedule.

(* at most 3 steps (one send, two receives) per rank and level *)
Theorem C01_binary_steps_le : forall G (R : Z -> list Z) (n : nat), (BinarySched.binary_steps G R n <= Z.to_nat G * (3 * n))%nat.
Proof. exact BinarySched.binary_steps_le. Qed.
Print Assumptions C01_binary_steps_le.

(* BACK-TO-BACK CALLS OF THE N-ARY RECURSION ARE REFUTED (finding back-to-back:nary): 3 ranks, widths (2, 2, 2), every rank runs
   the n-ary program twice in sequence with the same tags; call 1: rank 2 lists rank 1, call 2: rank 0 lists rank 1.  There is a
   legal schedule (20 steps, executed by SemAny.exec) that ends in a final state in which rank 1 has returned "one sender: rank 0"
   for call 1 and "no sender" for call 2 - correct is "one sender: rank 2" and "one sender: rank 0": rank 1, still in call 1,
   matched the deepest-level message of call 2 of the faster rank 0 with a wildcard of call 1. *)
Theorem C01_nary_back_to_back_refuted :
  exists (sched : list SemAny.choice) (s' : Sem.gs),
    SemAny.exec sched (BackToBack.nary_sys2 3 2 2 2 BackToBack.b2b_R1 BackToBack.b2b_R2) = Some s' /\
    SemAny.run_a (length sched) (BackToBack.nary_sys2 3 2 2 2 BackToBack.b2b_R1 BackToBack.b2b_R2) s' /\
    Sem.final s' /\
    Sem.pr s' 1 = Ret ([1; 0] ++ [0]) /\
    result (transpose 3 BackToBack.b2b_R1 1) [] ++ result (transpose 3 BackToBack.b2b_R2 1) [] = [1; 2] ++ [1; 0].
Proof. exact BackToBack.nary_back_to_back_refuted. Qed.
Print Assumptions C01_nary_back_to_back_refuted.

(* BACK-TO-BACK CALLS OF THE BINARY RECURSION ARE CORRECT UNDER EVERY SCHEDULE, every 1 <= G <= 2^29, any two patterns R1, R2: every
   rank runs binary_core twice in sequence with the same tags (binary_sys2); no reachable state is stuck, a run has at most
   twice_steps <= 6 n G steps and is final exactly after twice_steps steps, every final state has the transposed list of R1 followed
   by that of R2 on every rank and empty channels.  (The second receive of a level names its source; when the wildcard of a
   level is posted nothing of the level has been received, so the head of either source's FIFO channel is of the current call.) *)
Theorem C01_binary_back_to_back : forall G (R1 R2 : Z -> list Z),
  0 < G <= BIG ->
  (forall f, 0 <= f < G -> ssorted (fun x => x) (R1 f) /\ forall t, In t (R1 f) -> 0 <= t < G) ->
  (forall f, 0 <= f < G -> ssorted (fun x => x) (R2 f) /\ forall t, In t (R2 f) -> 0 <= t < G) ->
  exists n : nat, binary_pow2length G = 2 ^ Z.of_nat n /\
  forall k s, SemAny.run_a k (BackToBack.binary_sys2 G R1 R2) s ->
    ~ SemAny.stuck s /\
    (k <= BinaryTwice.twice_steps G R1 R2 n)%nat /\
    (Sem.final s <-> k = BinaryTwice.twice_steps G R1 R2 n) /\
    (Sem.final s -> (forall r, 0 <= r < G -> Sem.pr s r = Ret (result (transpose G R1 r) [] ++ result (transpose G R2 r) [])) /\
                    (forall a b t, Sem.ch s a b t = [])).
Proof. exact BinaryTwice.binary_back_to_back. Qed.
Print Assumptions C01_binary_back_to_back.
Theorem C01_binary_twice_steps_le : forall G (R1 R2 : Z -> list Z) (n : nat), (BinaryTwice.twice_steps G R1 R2 n <= Z.to_nat G * (3 * (n + n)))%nat.
Proof. exact BinaryTwice.twice_steps_le. Qed.
Print Assumptions C01_binary_twice_steps_le.

(* ==== EVERY SCHEDULE, WITH COLLECTIVES: the collective contracts and the round abstraction of allgather, pex, pcx, rsx, ranges discharged ====
   MPI/SemColl.v: SemAny.v's step relation (buffered sends, named and wildcard receives on FIFO channels) + the rule "when ALL ranks
   0 .. P-1 are at a collective of the same kind and root, it fires: every rank continues with creply kind root contributions rank".
   The contract used for the notify programs is SemColl.coll_reply (C01_coll_contract below spells it out): THIS is the MPI contract
   that is trusted.  MPI/SemRoundsOrd.v: SemRounds.v's every-schedule theorem for results that may depend on the arrival order and
   for levels whose receives all name their source in a fixed order.  C01/CollSched.v, CensusSched.v, RangesSched.v: the instances for
   the co-simulated programs.  Progress is stated positively (a reachable state is final or can step), which implies "not stuck".
   Documentation: docs/C01_sched2.md. *)
From ScV Require MPI.SemColl MPI.SemRoundsOrd C01.CollSched C01.CensusSched C01.RangesSched.

(* every run of SemAny.v is a run of the semantics with collectives; "final or can step" excludes a stuck state *)
Theorem C01_semcoll_embedding : forall P creply n s s', SemAny.run_a n s s' -> SemColl.run_c P creply n s s'.
Proof. exact SemColl.run_a_in_run_c. Qed.
Print Assumptions C01_semcoll_embedding.
Theorem C01_semcoll_progress_not_stuck : forall P creply s, Sem.final s \/ SemColl.can_step_c P creply s -> ~ SemColl.stuck_c P creply s.
Proof. exact SemColl.progress_not_stuck. Qed.
Print Assumptions C01_semcoll_progress_not_stuck.
(* the executable scheduler (a choice of SemAny.v, or "the collective fires") is sound and complete for the step relation *)
Theorem C01_semcoll_exec_sound : forall P creply (l : list SemColl.cchoice) s s',
  SemColl.exec_c P creply l s = Some s' -> SemColl.run_c P creply (length l) s s'.
Proof. exact SemColl.exec_c_sound. Qed.
Print Assumptions C01_semcoll_exec_sound.
Theorem C01_semcoll_exec_complete : forall P creply s l s', SemColl.step_c P creply s l s' ->
  exists c, SemColl.label c = l /\ SemColl.exec_step_c P creply s c = Some s'.
Proof. exact SemColl.exec_step_c_complete. Qed.
Print Assumptions C01_semcoll_exec_complete.

(* THE TRUSTED CONTRACT of the collectives, spelled out (cs = contributions in rank order, r = the rank that asks; blk cs = ints per
   rank = |first contribution| / number of ranks): Allgather(v) = concatenation; Alltoall = the r-th block of every contribution;
   Reduce_scatter_block (SUM) / accumulate epoch = sums of the entries of block r; Allreduce (MAX) = entry-wise maximum *)
Theorem C01_coll_contract : forall root cs r,
  SemColl.coll_reply K_ALLGATHER root cs r = concat cs /\
  SemColl.coll_reply K_ALLGATHERV root cs r = concat cs /\
  SemColl.coll_reply K_ALLTOALL root cs r = flat_map (fun c => firstn (SemColl.blk cs) (skipn (Z.to_nat r * SemColl.blk cs) c)) cs /\
  SemColl.coll_reply K_RSB root cs r =
    map (fun i => SemColl.sumz (map (fun c => nth (Z.to_nat r * SemColl.blk cs + i) c 0) cs)) (seq 0 (SemColl.blk cs)) /\
  SemColl.coll_reply K_RMA root cs r = SemColl.coll_reply K_RSB root cs r /\
  SemColl.coll_reply K_ALLREDUCE_MAX root cs r = map (fun i => SemColl.maxz (map (fun c => nth i c 0) cs)) (seq 0 (length (hd [] cs))).
Proof. intros root cs r. repeat split; reflexivity. Qed.
Print Assumptions C01_coll_contract.

(* GENERIC: a level-structured point-to-point protocol (hypotheses of C01_rounds_every_schedule, with two generalisations: the result
   out r ord may depend on the arrival orders; a level of a rank may be `fixedord` - all its receives name their source, in the order
   srcs r l) as a phase of the semantics with collectives, for any communicator size Pc > 0 and any contract: no reachable state has
   all ranks at a collective, and every run satisfies SemColl.every_schedule (progress, length bound, final iff total_len steps, in
   final states every rank has returned out r ord for a valid order family and all channels are empty) *)
Theorem C01_roundsord_every_schedule : forall (Pc : Z) (creply : Z -> Z -> list payload -> Z -> payload)
    (NL : nat) (tagof : nat -> Z) (sends : Z -> nat -> list (Z * payload)) (srcs : Z -> nat -> list Z)
    (wire : nat -> Z -> Z -> payload) (named : Z -> nat -> nat -> bool) (fixedord : Z -> nat -> bool)
    (P : Z -> prog) (out : Z -> (nat -> list Z) -> payload) (rks : list Z),
  0 < Pc -> NoDup rks ->
  (forall r l, ~ In r rks -> sends r l = [] /\ srcs r l = []) ->
  (forall r p p', (p < p')%nat -> (p' < NL)%nat -> tagof p = tagof p' ->
     (forall q, In q (srcs r p') -> In q (srcs r p)) /\ (forall i, named r p i = false -> i = 0%nat)) ->
  (forall r l i, (l < NL)%nat -> fixedord r l = true -> named r l i = true) ->
  (forall r l, (l < NL)%nat -> NoDup (map fst (sends r l))) ->
  (forall r l, (l < NL)%nat -> NoDup (srcs r l)) ->
  (forall r l q, (l < NL)%nat -> In q (srcs r l) -> 0 <= q) ->
  (forall q l d m, (l < NL)%nat -> In (d, m) (sends q l) -> In q (srcs d l) /\ m = wire l q d) ->
  (forall r l q, (l < NL)%nat -> In q (srcs r l) -> In (r, wire l q r) (sends q l)) ->
  (forall r ord, SemRoundsOrd.valid NL srcs fixedord r ord ->
     SemRounds.feed (map (SemRoundsOrd.reply_of wire r) (SemRoundsOrd.script NL sends named r ord)) (P r) =
     (map (SemRoundsOrd.act_of tagof) (SemRoundsOrd.script NL sends named r ord), Some (out r ord))) ->
  forall n s, SemColl.run_c Pc creply n (SemRoundsOrd.init P) s ->
    (Sem.final s \/ SemColl.can_step_c Pc creply s) /\ (n <= SemRoundsOrd.total_len NL sends srcs rks)%nat /\
    (Sem.final s <-> n = SemRoundsOrd.total_len NL sends srcs rks) /\
    (Sem.final s -> (forall r, exists ord, SemRoundsOrd.valid NL srcs fixedord r ord /\ Sem.pr s r = Ret (out r ord)) /\
                    (forall a b t, Sem.ch s a b t = [])).
Proof. exact SemRoundsOrd.es_rounds. Qed.
Print Assumptions C01_roundsord_every_schedule.

(* ALLGATHER, EVERY SCHEDULE, every P >= 1, every receiver family: system allgather_sys (rank r < P runs allgather_core r (R r) None ..):
   every run fires MPI_Allgather, then MPI_Allgatherv, once each (2 steps), no reachable state is stuck, and in the final state every
   rank has returned the transposed list.  The contract hypothesis of C01_allgather_program is discharged: the reply IS computed from
   the contributions of all ranks' programs *)
Theorem C01_allgather_every_schedule : forall P (R : Z -> list Z), 0 < P ->
  forall n s, SemColl.run_c P SemColl.coll_reply n (CollSched.allgather_sys P R) s ->
    (Sem.final s \/ SemColl.can_step_c P SemColl.coll_reply s) /\ (n <= 2)%nat /\ (Sem.final s <-> n = 2%nat) /\
    (Sem.final s -> (forall r, 0 <= r < P -> Sem.pr s r = Ret (result (transpose P R r) [])) /\ (forall a b t, Sem.ch s a b t = [])).
Proof. exact CollSched.allgather_every_schedule. Qed.
Print Assumptions C01_allgather_every_schedule.

(* PEX, EVERY SCHEDULE: one MPI_Alltoall (1 step) *)
Theorem C01_pex_every_schedule : forall P (R : Z -> list Z) sz0, 0 < P ->
  forall n s, SemColl.run_c P SemColl.coll_reply n (CollSched.pex_sys P R sz0) s ->
    (Sem.final s \/ SemColl.can_step_c P SemColl.coll_reply s) /\ (n <= 1)%nat /\ (Sem.final s <-> n = 1%nat) /\
    (Sem.final s -> (forall r, 0 <= r < P -> Sem.pr s r = Ret (result (transpose P R r) [])) /\ (forall a b t, Sem.ch s a b t = [])).
Proof. exact CollSched.pex_every_schedule. Qed.
Print Assumptions C01_pex_every_schedule.

(* PCX (kind = K_RSB: MPI_Reduce_scatter_block) AND RSX (kind = K_RMA: accumulate epoch), EVERY SCHEDULE, every P >= 1, every family of
   ascending receiver lists, sorted or unsorted output: system census_sys (rank r < P runs census_core kind P (R r) None sorted ..).
   In EVERY run: (i) a reachable state is final or can step (no deadlock); (ii) a run has at most census_steps = 1 + all sends + all
   receives steps and is final exactly after that many (every maximal run is finite and ends final: the `count` wildcard receives are
   all served); (iii) in every final state rank r has returned result o [] with o a permutation of the transposed list - THE transposed
   (ascending) list if sorted, the arrival order otherwise (C01/CollTests.v: different schedules give different orders) - and every
   channel is empty (no unreceived message).  Both hypotheses of C01_census_program (census contract, round abstraction) discharged. *)
Theorem C01_census_every_schedule : forall kind, kind = K_RSB \/ kind = K_RMA ->
  forall P (R : Z -> list Z) (sorted : bool), 0 < P ->
  (forall f, 0 <= f < P -> ssorted (fun x => x) (R f) /\ forall t, In t (R f) -> 0 <= t < P) ->
  forall n s, SemColl.run_c P SemColl.coll_reply n (CensusSched.census_sys kind P R false (fun _ _ => []) sorted) s ->
    (Sem.final s \/ SemColl.can_step_c P SemColl.coll_reply s) /\
    (n <= CensusSched.census_steps P R false (fun _ _ => []))%nat /\
    (Sem.final s <-> n = CensusSched.census_steps P R false (fun _ _ => [])) /\
    (Sem.final s ->
       (forall r, 0 <= r < P -> exists o, Permutation o (transpose P R r) /\ (sorted = true -> o = transpose P R r) /\
                                         Sem.pr s r = Ret (result o [])) /\
       (forall a b t, Sem.ch s a b t = [])).
Proof. intros kind Hk P R sorted HP HR. exact (CensusSched.census_every_schedule kind Hk P R false (fun _ _ => []) sorted HP HR). Qed.
Print Assumptions C01_census_every_schedule.
Theorem C01_census_steps_le : forall P (R : Z -> list Z), 0 < P ->
  (forall f, 0 <= f < P -> ssorted (fun x => x) (R f) /\ forall t, In t (R f) -> 0 <= t < P) ->
  (CensusSched.census_steps P R false (fun _ _ => []) <= 1 + Z.to_nat P * (2 * Z.to_nat P))%nat.
Proof. intros P R HP HR. exact (CensusSched.census_steps_le P R false (fun _ _ => []) HP HR). Qed.
Print Assumptions C01_census_steps_le.

(* RANGES, EVERY SCHEDULE, every P >= 1, every budget nr >= 1 of ranges, every family of ascending receiver lists: system ranges_sys
   (rank r < P runs ranges_core P r nr (R r) None ..): MPI_Allreduce (MAX), MPI_Allgather, then sends to the decoded receivers and named
   receives from the decoded senders of C15's table.  (i) final or can step, (ii) at most ranges_steps = 2 + sends + receives steps,
   final exactly after that many, (iii) final states: transposed lists, empty channels (the flag-0 messages to ranks that are only
   inside a range are all received).  Both contract hypotheses of C01_ranges_round_semantics are discharged *)
Theorem C01_ranges_every_schedule : forall P (R : Z -> list Z) nr, 0 < P -> 1 <= nr ->
  (forall f, 0 <= f < P -> ssorted (fun x => x) (R f) /\ forall t, In t (R f) -> 0 <= t < P) ->
  forall n s, SemColl.run_c P SemColl.coll_reply n (RangesSched.ranges_sys P R false (fun _ _ => []) 0 nr) s ->
    (Sem.final s \/ SemColl.can_step_c P SemColl.coll_reply s) /\
    (n <= RangesSched.ranges_steps P R false (fun _ _ => []) 0 nr)%nat /\
    (Sem.final s <-> n = RangesSched.ranges_steps P R false (fun _ _ => []) 0 nr) /\
    (Sem.final s -> (forall r, 0 <= r < P -> Sem.pr s r = Ret (result (transpose P R r) [])) /\ (forall a b t, Sem.ch s a b t = [])).
Proof. intros P R nr HP Hnr HR. exact (RangesSched.ranges_every_schedule P R false (fun _ _ => []) 0 nr HP Hnr HR). Qed.
Print Assumptions C01_ranges_every_schedule.
Theorem C01_ranges_steps_le : forall P (R : Z -> list Z) nr, 0 < P -> 1 <= nr ->
  (forall f, 0 <= f < P -> ssorted (fun x => x) (R f) /\ forall t, In t (R f) -> 0 <= t < P) ->
  (RangesSched.ranges_steps P R false (fun _ _ => []) 0 nr <= 2 + Z.to_nat P * (2 * Z.to_nat P))%nat.
Proof. intros P R nr HP Hnr HR. exact (RangesSched.ranges_steps_le P R false (fun _ _ => []) 0 nr HP Hnr HR). Qed.
Print Assumptions C01_ranges_steps_le.

(* every run of these systems can be continued to a final state (generic consequence of the every-schedule statement) *)
Theorem C01_semcoll_completes : forall P creply s0 T (good : Sem.gs -> Prop), SemColl.every_schedule P creply s0 T good ->
  forall n s, SemColl.run_c P creply n s0 s -> exists s', SemColl.run_c P creply (T - n) s s' /\ Sem.final s'.
Proof. exact SemColl.es_completes. Qed.
Print Assumptions C01_semcoll_completes.

(* ---- NBX in a semantics with polls (MPI/SemPoll.v): a wildcard receive on a polling tag is MPI_Iprobe (+ MPI_Recv on success) and reports
   exactly whether a message is available (reply with negative source otherwise); a send on a tag of `stags` is synchronous: it is
   complete when its message has been taken out of the channel; Coll 6 = MPI_Testall over the rank's synchronous sends, Coll 7 posts
   MPI_Ibarrier, Coll 8 = MPI_Test of the barrier (complete when every rank 0 .. P-1 has posted it).  C01/NbxSched.v: the system
   nbx_sys P R hp pay sorted fuel (rank r < P runs nbx_core fuel (R r) ep sorted ..; fuel = the model's bound on the loop iterations) *)
From ScV Require MPI.SemPoll C01.NbxSched.

(* the executable scheduler of SemPoll.v is sound for the step relation (complete: SemPoll.exec_step_p_complete) *)
Theorem C01_sempoll_exec_sound : forall P polltag stags (l : list SemPoll.pchoice) s s',
  SemPoll.exec_p P polltag stags l s = Some s' -> SemPoll.run_p P polltag stags (length l) s s'.
Proof. exact SemPoll.exec_p_sound. Qed.
Print Assumptions C01_sempoll_exec_sound.

(* the program of the system is the one notify_prog gives for typ = 6 (nbx) *)
Theorem C01_nbx_is_notify_prog : forall fuel P me ntop nint nbot sorted (R : list Z) sz eager extra supers,
  notify_prog fuel 6 P me ntop nint nbot sorted R None sz eager extra supers = nbx_core fuel R None sorted (fun s g => Ret (result s g)).
Proof. exact NbxSched.nbx_is_notify_prog. Qed.
Print Assumptions C01_nbx_is_notify_prog.

(* the two bounds, as functions of P and the pattern (N = number of notifications: nbx_bound = 6 N + 8 P, nbx_rounds = 2 N + 3 P) *)
Theorem C01_nbx_bounds : forall P (R : Z -> list Z),
  NbxSched.nbx_bound P R = list_sum (map (fun r => 3 * length (R r) + 3 * length (transpose P R r) + 8)%nat (ranks P)) /\
  NbxSched.nbx_rounds P R = list_sum (map (fun r => length (R r) + length (transpose P R r) + 3)%nat (ranks P)).
Proof. intros P R. split; reflexivity. Qed.
Print Assumptions C01_nbx_bounds.

(* NBX, EVERY SCHEDULE (no fairness assumed), every P, every family of ascending receiver lists, sorted or not.  `fuel` is the model's
   bound on the loop iterations (notify_prog's first argument; the C loop has none): the statement covers every run of n steps with
   n + nbx_bound P R < fuel, i.e. - fuel being arbitrary - every finite run of the unbounded program.  In the state s reached:
   (a) if s is final, every rank r has returned result o [], o a permutation of the transposed list (equal to it if sorted), every
       channel is empty (no unreceived message, no pending synchronous send) and every rank has posted the barrier;
   (b) no rank is blocked: every rank of the communicator has returned or can step (the fuel mark is NOT reached);
   (c) a FINAL state is reachable from s by at most nbx_bound P R further steps.
   (a) rests on the invariant NbxSched.NInv (NbxSched.nbx_safety): a rank posts the barrier only after all its synchronous sends were
   matched and returns only after all ranks posted the barrier, hence after it has itself received every message addressed to it - the
   argument behind the round abstraction of C01_nbx_round_semantics, now derived from a global semantics. *)
Theorem C01_nbx_every_schedule : forall P (R : Z -> list Z) (sorted : bool) (fuel : nat),
  (forall f, 0 <= f < P -> ssorted (fun x => x) (R f) /\ forall t, In t (R f) -> 0 <= t < P) ->
  forall n s, SemPoll.run_p P NbxSched.nbx_poll NbxSched.nbx_stags n (NbxSched.nbx_sys P R false (fun _ _ => []) sorted fuel) s ->
  (n + NbxSched.nbx_bound P R < fuel)%nat ->
    (SemPoll.pfinal s ->
       (forall r, 0 <= r < P -> exists o, Permutation o (transpose P R r) /\ (sorted = true -> o = transpose P R r) /\
                                         SemPoll.ppr s r = Ret (result o [])) /\
       (forall a b t, SemPoll.pch s a b t = []) /\ (forall r, 0 <= r < P -> SemPoll.pbar s r = true)) /\
    (forall r, 0 <= r < P -> (exists o, SemPoll.ppr s r = Ret o) \/
                             exists s', SemPoll.step_p P NbxSched.nbx_poll NbxSched.nbx_stags s r s') /\
    (exists m s', SemPoll.run_p P NbxSched.nbx_poll NbxSched.nbx_stags m s s' /\ (m <= NbxSched.nbx_bound P R)%nat /\ SemPoll.pfinal s').
Proof. intros P R sorted fuel HR. exact (NbxSched.nbx_every_schedule P R false (fun _ _ => []) sorted fuel HR). Qed.
Print Assumptions C01_nbx_every_schedule.

(* NO ENDLESS POLLING UNDER WEAK FAIRNESS.  runl ls s s': a run with the list ls of the ranks that move.  A FAIR SEGMENT is a piece of a
   run at whose end every rank of the communicator has returned or has moved at least twice in it; fair_segs P k s s': k fair segments in
   sequence (spelled out by C01_nbx_fair_segs_def).  THEOREM: a run from the initial state that consists of k >= nbx_rounds P R fair
   segments ends in a FINAL state - whatever the interleaving inside the segments, for every fuel.  Hence every weakly fair run of the
   unbounded loop terminates: as long as a rank has not returned it can step (C01_nbx_every_schedule (b)), so an infinite run in which
   every such rank moves again and again contains arbitrarily many fair segments.  Proof: NbxSched.Rho counts the productive steps still
   to come (sends, successful polls, Testall = 1, Ibarrier, Test = 1); an unproductive step (empty poll, Testall = 0, Test = 0) leaves
   it unchanged, every other step decreases it by 1 (so a run has at most nbx_rounds productive steps: NbxSched.nbx_productive_bound);
   in every non-final reachable state some rank is CRITICAL (NbxSched.crit): its next step, or the one after it, is productive as long
   as the others make only unproductive steps - so every fair segment contains a productive step (NbxSched.segment_productive). *)
Theorem C01_nbx_fair_segs_def : forall P k s s2,
  NbxSched.fair_segs P (S k) s s2 <->
  exists ls s1, NbxSched.runl P ls s s1 /\
                (forall r, 0 <= r < P -> (exists o, SemPoll.ppr s1 r = Ret o) \/ (2 <= NbxSched.cnt r ls)%nat) /\
                NbxSched.fair_segs P k s1 s2.
Proof.
  intros P k s s2. split.
  - intros H. inversion H; subst. eauto.
  - intros [ls [s1 [H1 [H2 H3]]]]. econstructor; eassumption.
Qed.
Print Assumptions C01_nbx_fair_segs_def.
Theorem C01_nbx_fair_termination : forall P (R : Z -> list Z) (sorted : bool) (fuel : nat),
  (forall f, 0 <= f < P -> ssorted (fun x => x) (R f) /\ forall t, In t (R f) -> 0 <= t < P) ->
  forall k s, NbxSched.fair_segs P k (NbxSched.nbx_sys P R false (fun _ _ => []) sorted fuel) s ->
  (NbxSched.nbx_rounds P R <= k)%nat -> SemPoll.pfinal s.
Proof. intros P R sorted fuel HR. exact (NbxSched.nbx_fair_termination P R false (fun _ _ => []) sorted fuel HR). Qed.
Print Assumptions C01_nbx_fair_termination.

(* ---- SUPERSET in the semantics with polls (C01/SuperSched.v).  The callback compute_superset is a parameter, as in C01_superset_round_semantics:
   extra q = the extra receivers it gives rank q (distinct ranks of the communicator), supers r = the ranks it announces to r; CONTRACT: supers r
   is a permutation of (the ranks that list r) ++ (the ranks whose extra receivers contain r) - SuperSched.X P extra r.  System super_sys: rank
   r < P runs super_core fuel (R r) None (extra r) (supers r) sorted .. (what notify_prog gives for typ = 8).  Polls: Iprobe on the TRUE tag,
   then on the EXTRA tag; no synchronous sends, no barrier. *)
From ScV Require C01.SuperSched.
Theorem C01_superset_is_notify_prog : forall fuel P me ntop nint nbot sorted (R : list Z) sz eager extra supers,
  notify_prog fuel 8 P me ntop nint nbot sorted R None sz eager extra supers = super_core fuel R None extra supers sorted (fun s g => Ret (result s g)).
Proof. exact SuperSched.super_is_notify_prog. Qed.
Print Assumptions C01_superset_is_notify_prog.

Theorem C01_superset_bounds : forall P (R extra : Z -> list Z),
  SuperSched.X P extra = (fun r => filter (fun q => memz r (extra q)) (ranks P)) /\
  SuperSched.super_bound P R extra =
    list_sum (map (fun r => 3 * length (R r) + 3 * length (extra r) + 2 * (length (transpose P R r) + length (SuperSched.X P extra r)) + 2)%nat (ranks P)) /\
  SuperSched.super_rounds P R extra =
    list_sum (map (fun r => length (R r) + length (extra r) + length (transpose P R r) + length (SuperSched.X P extra r) + 1)%nat (ranks P)).
Proof. intros P R extra. repeat split; reflexivity. Qed.
Print Assumptions C01_superset_bounds.

(* SUPERSET, EVERY SCHEDULE (no fairness assumed): under the contract of the callback, for every run of n steps with n + super_bound < fuel
   (fuel = the model's bound on the loop iterations; the C loop has none): (a) a final state has on every rank r the result `result o []`,
   o a permutation of the transposed list (equal to it if sorted; the extra contacts are not reported), and every channel - of both tags -
   is empty; (b) no rank is blocked; (c) a final state is reachable by at most super_bound further steps.  Invariant: SuperSched.SInv
   (SuperSched.super_safety); a rank in the loop still waits for queue = |supers| - received > 0 messages, and exactly that many messages
   are in flight to it or still to be sent to it.  The round abstraction of C01_superset_round_semantics is discharged. *)
Theorem C01_superset_every_schedule : forall P (R extra supers : Z -> list Z) (sorted : bool) (fuel : nat),
  (forall f, 0 <= f < P -> ssorted (fun x => x) (R f) /\ forall t, In t (R f) -> 0 <= t < P) ->
  (forall f, 0 <= f < P -> NoDup (extra f) /\ forall t, In t (extra f) -> 0 <= t < P) ->
  (forall r, 0 <= r < P -> Permutation (supers r) (transpose P R r ++ SuperSched.X P extra r)) ->
  forall n s, SemPoll.run_p P SuperSched.super_poll SuperSched.super_stags n (SuperSched.super_sys P R false (fun _ _ => []) extra supers sorted fuel) s ->
  (n + SuperSched.super_bound P R extra < fuel)%nat ->
    (SemPoll.pfinal s ->
       (forall r, 0 <= r < P -> exists o, Permutation o (transpose P R r) /\ (sorted = true -> o = transpose P R r) /\
                                         SemPoll.ppr s r = Ret (result o [])) /\
       (forall a b t, SemPoll.pch s a b t = [])) /\
    (forall r, 0 <= r < P -> (exists o, SemPoll.ppr s r = Ret o) \/
                             exists s', SemPoll.step_p P SuperSched.super_poll SuperSched.super_stags s r s') /\
    (exists m s', SemPoll.run_p P SuperSched.super_poll SuperSched.super_stags m s s' /\ (m <= SuperSched.super_bound P R extra)%nat /\ SemPoll.pfinal s').
Proof.
  intros P R extra supers sorted fuel HR HX Hc.
  exact (SuperSched.super_every_schedule P R false (fun _ _ => []) extra supers sorted fuel HR HX (SuperSched.contract_length P R extra supers Hc)).
Qed.
Print Assumptions C01_superset_every_schedule.

(* NO ENDLESS POLLING UNDER WEAK FAIRNESS (cf. C01_nbx_fair_termination): sfair_segs P k s s' = k fair segments in sequence (at the end of a
   segment every rank has returned or has moved at least twice in it; same definition as NbxSched.fair_segs, for superset's polling tags);
   a run from the initial state of k >= super_rounds fair segments ends in a final state *)
Theorem C01_superset_fair_segs_def : forall P k s s2,
  SuperSched.sfair_segs P (S k) s s2 <->
  exists ls s1, SuperSched.srunl P ls s s1 /\
                (forall r, 0 <= r < P -> (exists o, SemPoll.ppr s1 r = Ret o) \/ (2 <= SuperSched.scnt r ls)%nat) /\
                SuperSched.sfair_segs P k s1 s2.
Proof.
  intros P k s s2. split.
  - intros H. inversion H; subst. eauto.
  - intros [ls [s1 [H1 [H2 H3]]]]. econstructor; eassumption.
Qed.
Print Assumptions C01_superset_fair_segs_def.
Theorem C01_superset_fair_termination : forall P (R extra supers : Z -> list Z) (sorted : bool) (fuel : nat),
  (forall f, 0 <= f < P -> ssorted (fun x => x) (R f) /\ forall t, In t (R f) -> 0 <= t < P) ->
  (forall f, 0 <= f < P -> NoDup (extra f) /\ forall t, In t (extra f) -> 0 <= t < P) ->
  (forall r, 0 <= r < P -> Permutation (supers r) (transpose P R r ++ SuperSched.X P extra r)) ->
  forall k s, SuperSched.sfair_segs P k (SuperSched.super_sys P R false (fun _ _ => []) extra supers sorted fuel) s ->
  (SuperSched.super_rounds P R extra <= k)%nat -> SemPoll.pfinal s.
Proof.
  intros P R extra supers sorted fuel HR HX Hc.
  exact (SuperSched.super_fair_termination P R false (fun _ _ => []) extra supers sorted fuel HR HX (SuperSched.contract_length P R extra supers Hc)).
Qed.
Print Assumptions C01_superset_fair_termination.

(* ======================================================================================================================
   HISTORIES ON ONE NOTIFY OBJECT (C01/Reconfig.v).  The cfg_* definitions are GENERATED from sc_notify.c (Gen/NotifyCfgC01.v:
   whole bodies of sc_notify_nary_set_widths, sc_notify_ranges_set_num_ranges, sc_notify_set_eager_threshold,
   sc_notify_superset_set_callback, sc_notify_set_type, sc_notify_nary_init, sc_notify_ranges_init; the parameter reads of
   sc_notify_payload_nary; the eager test of sc_notify_payload; the field footprint of the round functions).  The state
   model obj_step / obj_run / obj_round is built from them, extracted, compared with the getters of the real object after
   every prefix of every generated history and co-simulated against every round (checks/notify_common.py history_tie).
   ====================================================================================================================== *)
From Coq Require Import String.
From ScV Require Import Gen.NotifyCfgC01 C01.Reconfig.

(* the generated setters assign exactly the fields they name, with the values passed *)
Theorem C01_gen_cfg_setters : forall a b c n f x,
  cfg_set_widths a b c = (a, b, c) /\ cfg_set_num_ranges n = n /\ cfg_set_eager_threshold n = n /\ cfg_set_callback f x = (f, x).
Proof. intros. repeat split. Qed.
Print Assumptions C01_gen_cfg_setters.

(* the generated sc_notify_set_type (outputs: new type, "sc_notify_nary_init was called", "sc_notify_ranges_init was called",
   "aborted"): nothing happens when the type stays; a change stores the type and runs exactly the initialisation of the new type;
   SC_NOTIFY_DEFAULT (-1) stands for the global default d *)
Theorem C01_gen_cfg_set_type : forall cur t d,
  (0 <= t < 9 -> cfg_set_type cur t d = if cur =? t then (cur, 0, 0, 0) else (t, b2z (t =? 2), b2z (t =? 7), 0)) /\
  (cfg_set_type cur (-1) d = cfg_set_type cur d d \/ d = -1).
Proof. intros. split; [apply gen_set_type|apply gen_set_type_default]. Qed.
Print Assumptions C01_gen_cfg_set_type.

(* the generated initialisations: n-ary = communicator, size, rank, then set_widths (called = 1) with the three defaults;
   ranges = the default number of ranges and the package id *)
Theorem C01_gen_cfg_init : forall comm P me a b c d pk,
  cfg_nary_init comm P me a b c = (comm, P, me, 1, a, b, c) /\ cfg_ranges_init d pk = (d, pk).
Proof. intros. split; reflexivity. Qed.
Print Assumptions C01_gen_cfg_init.

(* where a round reads its parameters: the n-ary round takes size, rank and the three widths from (its copy of) the object's
   n-ary data, unchanged; the dispatcher's eager test is `payload present and item size <= eager_threshold`; the enumerators of
   sc_notify_type_t have the values the programs' type numbers assume *)
Theorem C01_gen_cfg_round_reads : forall ms mr a b c p sz thr,
  cfg_nary_read ms mr a b c = (ms, mr, a, b, c) /\ cfg_eager p sz thr = b2z (z2b p && (sz <=? thr)) /\
  [cfg_SC_NOTIFY_DEFAULT; cfg_SC_NOTIFY_ALLGATHER; cfg_SC_NOTIFY_BINARY; cfg_SC_NOTIFY_NARY; cfg_SC_NOTIFY_PEX; cfg_SC_NOTIFY_PCX;
   cfg_SC_NOTIFY_RSX; cfg_SC_NOTIFY_NBX; cfg_SC_NOTIFY_RANGES; cfg_SC_NOTIFY_SUPERSET; cfg_SC_NOTIFY_NUM_TYPES] = [-1; 0; 1; 2; 3; 4; 5; 6; 7; 8; 9].
Proof. intros. repeat split. Qed.
Print Assumptions C01_gen_cfg_round_reads.

(* FRAME (generated footprint, transitive over the functions of sc_notify.c): sc_notify_payload and sc_notify_payloadv READ the
   listed fields of the notify object, WRITE NONE, take the address of none, and hand the object only to the user's callbacks;
   the n-ary round keeps depth and npay in its local copy of the n-ary data.  So no round can leave anything behind in the
   object for a later round (stats / flop excluded). *)
Theorem C01_gen_round_frame : cfg_footprints = footprint_expected /\
  forall n r w x, In (n, (r, w, x)) footprint_expected -> n <> "sc_notify_payload_nary (local copy)"%string -> w = [].
Proof.
  split; [exact footprint_frame|]. intros n r w x H N. unfold footprint_expected in H. cbn [In] in H.
  destruct H as [H|[H|[H|[]]]]; inversion H; subst; try reflexivity. exfalso. apply N. reflexivity.
Qed.
Print Assumptions C01_gen_round_frame.

(* one reconfiguration step in closed form (what the oracle's state model applies): for a legal op *)
Theorem C01_reconfig_step_spec : forall e o op, legal_op o op ->
  obj_step e o op =
  match op with
  | OpType t => mset_type e o t
  | OpWidths a b c => mk_nobj (o_type o) (o_thresh o) (o_mpisize o) (o_mpirank o) a b c (o_nranges o) (o_cb o) (o_ctx o)
  | OpRanges n => mk_nobj (o_type o) (o_thresh o) (o_mpisize o) (o_mpirank o) (o_ntop o) (o_nint o) (o_nbot o) n (o_cb o) (o_ctx o)
  | OpThresh n => mk_nobj (o_type o) n (o_mpisize o) (o_mpirank o) (o_ntop o) (o_nint o) (o_nbot o) (o_nranges o) (o_cb o) (o_ctx o)
  | OpCallback f c => mk_nobj (o_type o) (o_thresh o) (o_mpisize o) (o_mpirank o) (o_ntop o) (o_nint o) (o_nbot o) (o_nranges o) f c
  | OpNew => obj_new e
  end.
Proof. exact step_spec. Qed.
Print Assumptions C01_reconfig_step_spec.

(* set_type to the type the object already has keeps every parameter; a CHANGE keeps the threshold and puts the defaults of the
   new type in force (n-ary: size and rank of the communicator, default widths; ranges: default number of ranges) *)
Theorem C01_reconfig_set_type : forall e o t, 0 <= t < 9 ->
  (o_type o = t -> obj_step e o (OpType t) = o) /\
  (o_type o <> t ->
   let o' := obj_step e o (OpType t) in
   o_type o' = t /\ o_thresh o' = o_thresh o /\
   (t = 2 -> (o_mpisize o', o_mpirank o', o_ntop o', o_nint o', o_nbot o') = (e_P e, e_me e, e_ntop_default e, e_nint_default e, e_nbot_default e)) /\
   (t = 7 -> o_nranges o' = e_nranges_default e)).
Proof. intros e o t Ht. split; [intros <-; apply set_type_same; exact Ht|intros N; apply set_type_change_defaults; assumption]. Qed.
Print Assumptions C01_reconfig_set_type.

(* A ROUND DEPENDS ONLY ON THE PARAMETERS IN FORCE (type, threshold, data of the current type) *)
Theorem C01_reconfig_round_depends_on_params : forall fuel e o1 o2 sorted R pays sz extra supers,
  params o1 = params o2 -> obj_round fuel e o1 sorted R pays sz extra supers = obj_round fuel e o2 sorted R pays sz extra supers.
Proof. exact round_depends_on_params. Qed.
Print Assumptions C01_reconfig_round_depends_on_params.

(* RECONFIGURATION THEN ROUND = ROUND OF A FRESH OBJECT WITH THESE PARAMETERS, for EVERY legal history h on one object (any
   number of rounds before are irrelevant by C01_gen_round_frame: a round does not write the object): setup o = new; set_type;
   the setter of that type; set_eager_threshold *)
Theorem C01_reconfig_round_fresh : forall fuel e h sorted R pays sz extra supers, legal e h ->
  legal e (setup (obj_run e h)) /\
  obj_round_hist fuel e h sorted R pays sz extra supers = obj_round_hist fuel e (setup (obj_run e h)) sorted R pays sz extra supers.
Proof. exact reconfig_round_fresh. Qed.
Print Assumptions C01_reconfig_round_fresh.

(* ... and it IS the single call (notify_prog, the program of all other C01 theorems) with the parameters the object shows *)
Theorem C01_reconfig_round_is_single_call : forall fuel e h sorted R pays sz extra supers, legal e h ->
  let o := obj_run e h in
  let eager := match pays with None => false | Some _ => sz <=? o_thresh o end in
  obj_round_hist fuel e h sorted R pays sz extra supers =
  notify_prog fuel (o_type o) (e_P e) (e_me e) (if o_type o =? 2 then o_ntop o else if o_type o =? 7 then o_nranges o else 0)
              (if o_type o =? 2 then o_nint o else 0) (if o_type o =? 2 then o_nbot o else 0) sorted R pays sz eager extra supers.
Proof. exact round_is_single_call. Qed.
Print Assumptions C01_reconfig_round_is_single_call.

(* the hypotheses are satisfiable: widths (8,8,8), then (3,3,3), a switch to pex and back (defaults 2,2,2 in force), on 5 ranks *)
Example C01_reconfig_example :
  let e := mk_nenv 5 0 3 1024 2 2 2 25 in
  legal e [OpType 2; OpWidths 8 8 8; OpWidths 3 3 3] /\ obj_obs (obj_run e [OpType 2; OpWidths 8 8 8; OpWidths 3 3 3]) = [2; 1024; 3; 3; 3; -1] /\
  obj_obs (obj_run e [OpType 2; OpWidths 8 8 8; OpType 3; OpType 2]) = [2; 1024; 2; 2; 2; -1].
Proof. cbv zeta. split; [|split; reflexivity]. unfold legal. cbn [legal_from legal_op e_type_default]. repeat split; try lia; reflexivity. Qed.
