(* C08 - theorems about the definitions GENERATED from sc_containers.c / sc_containers.h (Gen/Array.v):
   under the size bound 2^62 the fixed-width arithmetic does not wrap and every function takes the
   decision its documentation states.  These lemmas are re-checked against the current source on every run. *)
From Coq Require Import ZArith Lia List Bool ZifyBool.
From ScV Require Import Base.CInt Gen.Macros Gen.Array C18.MacroProofs C08.ArrayModel.
Import ListNotations.
Local Open Scope Z_scope.
Ltac Zify.zify_post_hook ::= Z.div_mod_to_equations.

Lemma MAXB_val : MAXB = 4611686018427387904.
Proof. reflexivity. Qed.

Ltac u64s := repeat (rewrite u64_id by (unfold M64; lia)).
Ltac s64s := repeat (rewrite s64_id by (unfold in_s64, M64; lia)).

(* the round-up expression inside sc_array_resize is SC_ROUNDUP2_64 on a size_t argument *)
Definition roundup_u64 (x : Z) : Z := u64 (if x <=? 0 then 0 else s64 (shl 1 (s32 (w_sc_log2_64u (u64 (x - 1)) + 1)))).

Lemma roundup_u64_correct x : 0 < x <= MAXB -> is_roundup2 x (roundup_u64 x) /\ roundup_u64 x <= MAXB.
Proof.
  intros Hx. rewrite MAXB_val in *. unfold roundup_u64.
  destruct (x <=? 0) eqn:E; [lia|].
  rewrite (u64_id (x - 1)) by (unfold M64; lia).
  destruct (Z.eq_dec x 1) as [->|Hx1].
  { replace (u64 (s64 (shl 1 (s32 (w_sc_log2_64u (1 - 1) + 1))))) with 1 by (vm_compute; reflexivity).
    split; [|lia]. split; [lia|]. split; [exists 0; split; [lia|reflexivity]|]. intros k Hk Hle. exact Hle. }
  rewrite log2_64u_correct by (change (2 ^ 64) with 18446744073709551616; lia).
  assert (Hk : 0 <= Z.log2 (x - 1) < 62).
  { split; [apply Z.log2_nonneg|]. apply Z.log2_lt_pow2; [lia|]. change (2 ^ 62) with 4611686018427387904. lia. }
  rewrite (s32_id (Z.log2 (x - 1) + 1)) by (unfold in_s32, M32; lia).
  unfold shl. rewrite Z.mul_1_l.
  assert (Hp : 0 < 2 ^ (Z.log2 (x - 1) + 1) <= 2 ^ 62).
  { split; [apply pow2_pos; lia|apply Z.pow_le_mono_r; lia]. }
  change (2 ^ 62) with 4611686018427387904 in Hp.
  rewrite s64_id by (unfold in_s64, M64; lia).
  rewrite u64_id by (unfold M64; lia).
  split; [|lia]. apply roundup2_spec; [lia|reflexivity].
Qed.

Lemma resize_unfold e c b n :
  sc_array_resize e c b n =
  if negb (0 <=? b) then (n, b, 0, 0)
  else if n =? 0 then (c, b, 1, 0)
  else let newoffs := u64 (n * e) in
       let r := roundup_u64 newoffs in
       if (u64 b <? newoffs) || (r <? u64 b) then (n, s64 r, 2, u64 (u64 (s64 r) * 1)) else (n, b, 0, 0).
Proof. reflexivity. Qed.

(* sc_array_resize on a view: only the count changes *)
Lemma resize_view e c b n : b < 0 -> sc_array_resize e c b n = (n, b, 0, 0).
Proof. intros. rewrite resize_unfold. destruct (0 <=? b) eqn:E; [lia|reflexivity]. Qed.

(* on an owner: reset at count 0; otherwise keep the allocation iff newoffs <= byte_alloc <= roundup (newoffs),
   else reallocate to exactly roundup (newoffs), the least power of two >= newoffs *)
Lemma resize_owner e c b n : 0 < e -> 0 <= n -> n * e <= MAXB -> 0 <= b <= MAXB ->
  sc_array_resize e c b n =
  if n =? 0 then (c, b, 1, 0)
  else let r := roundup_u64 (n * e) in
       if (b <? n * e) || (r <? b) then (n, r, 2, r) else (n, b, 0, 0).
Proof.
  intros He Hn Hne Hb. rewrite resize_unfold. rewrite MAXB_val in *.
  destruct (0 <=? b) eqn:E; [|lia]. simpl negb. cbv iota.
  destruct (n =? 0) eqn:En; [reflexivity|]. cbv zeta.
  rewrite (u64_id (n * e)) by (unfold M64; lia).
  rewrite (u64_id b) by (unfold M64; lia).
  assert (Hpos : 0 < n * e) by nia.
  destruct (roundup_u64_correct (n * e)) as [[Hr1 _] Hr2]; [rewrite MAXB_val; lia|]. rewrite MAXB_val in Hr2.
  destruct ((b <? n * e) || (roundup_u64 (n * e) <? b)) eqn:Ec; [|reflexivity].
  rewrite (s64_id (roundup_u64 (n * e))) by (unfold in_s64, M64; lia).
  rewrite Z.mul_1_r. rewrite (u64_id (roundup_u64 (n * e))) by (unfold M64; lia).
  rewrite (u64_id (roundup_u64 (n * e))) by (unfold M64; lia). reflexivity.
Qed.

Lemma push_count_owner e c b off k : 0 < e -> 0 <= c -> 0 <= k -> (c + k) * e <= MAXB -> 0 <= b <= MAXB ->
  sc_array_push_count e c b off k =
  if b <? e * (c + k) then (c, 3, c + k, off + e * c) else (c + k, 0, 0, off + e * c).
Proof.
  intros He Hc Hk Hb Hbb. unfold sc_array_push_count. rewrite MAXB_val in *.
  rewrite (u64_id (c + k)) by (unfold M64; nia).
  rewrite (u64_id b) by (unfold M64; lia).
  rewrite (u64_id (e * (c + k))) by (unfold M64; nia).
  rewrite (u64_id (e * c)) by (unfold M64; nia).
  destruct (b <? e * (c + k)); reflexivity.
Qed.

Lemma pop_owner e c b off : 0 < e -> 0 < c -> c * e <= MAXB ->
  sc_array_pop e c b off = (c - 1, off + e * (c - 1)).
Proof.
  intros He Hc Hb. unfold sc_array_pop. rewrite MAXB_val in *.
  rewrite (u64_id (c - 1)) by (unfold M64; nia).
  rewrite (u64_id (e * (c - 1))) by (unfold M64; nia). reflexivity.
Qed.

Lemma index_val e c b off i : 0 < e -> 0 <= i -> i * e <= MAXB -> sc_array_index e c b off i = off + e * i.
Proof.
  intros. unfold sc_array_index. rewrite MAXB_val in *. rewrite u64_id by (unfold M64; nia). reflexivity.
Qed.

Lemma init_val e : sc_array_init e = (e, 0, 0, 0).
Proof. reflexivity. Qed.

Lemma init_count_val e n : 0 < e -> 0 <= n -> n * e <= MAXB -> sc_array_init_count e n = (e, n, e * n, 4, e * n).
Proof.
  intros. unfold sc_array_init_count. rewrite MAXB_val in *.
  rewrite (u64_id (e * n)) by (unfold M64; nia).
  rewrite (s64_id (e * n)) by (unfold in_s64, M64; nia).
  rewrite (u64_id (e * n)) by (unfold M64; nia). rewrite Z.mul_1_r.
  rewrite (u64_id (e * n)) by (unfold M64; nia). reflexivity.
Qed.

Lemma view_balloc l e : 0 <= l * e <= MAXB -> s64 (- s64 (u64 (u64 (l * e) + 1))) = - (l * e + 1).
Proof.
  intros. rewrite MAXB_val in *.
  rewrite (u64_id (l * e)) by (unfold M64; lia).
  rewrite (u64_id (l * e + 1)) by (unfold M64; lia).
  rewrite (s64_id (l * e + 1)) by (unfold in_s64, M64; lia).
  rewrite s64_id by (unfold in_s64, M64; lia). reflexivity.
Qed.

Lemma init_view_val e c b off o l : 0 < e -> 0 <= o -> 0 <= l -> (o + l) * e <= MAXB ->
  sc_array_init_view e c b off o l = (e, l, - (l * e + 1), off + o * e).
Proof.
  intros. unfold sc_array_init_view. rewrite view_balloc by nia. rewrite MAXB_val in *.
  rewrite (u64_id (o * e)) by (unfold M64; nia). reflexivity.
Qed.

Lemma init_data_val base e n : 0 < e -> 0 <= n -> n * e <= MAXB ->
  sc_array_init_data base e n = (e, n, - (n * e + 1), base).
Proof. intros. unfold sc_array_init_data. rewrite view_balloc by nia. reflexivity. Qed.

Lemma reset_val e c b off : sc_array_reset e c b off = (0, 0, 0, if 0 <=? b then 5 else 0).
Proof. unfold sc_array_reset. destruct (0 <=? b); reflexivity. Qed.

Lemma truncate_val e c b off : sc_array_truncate e c b off = 0.
Proof. reflexivity. Qed.

Lemma rewind_val e c b off n : sc_array_rewind e c b off n = if (n =? 0) && (0 <=? b) then (c, 1) else (n, 0).
Proof. reflexivity. Qed.

Lemma destroy_val e c b off : sc_array_destroy e c b off = (if 0 <=? b then 5 else 0, 1).
Proof. unfold sc_array_destroy. destruct (0 <=? b); reflexivity. Qed.
