(* C08 - every legal operation preserves the simulation relation and yields the reference result. *)
From Coq Require Import ZArith Lia List Bool ZifyBool Permutation.
From ScV Require Import Base.CInt Gen.Array C08.ArrayModel C08.ArrayLists C08.ArrayGen C08.ArrayRefine.
Import ListNotations.
Local Open Scope Z_scope.

Lemma len_concat_forall (l : list (list Z)) e : Forall (fun x => len x = e) l -> len (concat l) = Z.of_nat (length l) * e.
Proof.
  induction 1 as [|x r Hx Hr IH]; [reflexivity|]. cbn [concat length]. rewrite len_app, IH, Hx. lia.
Qed.

Lemma elems_forall e n l : 0 <= e -> 0 <= n -> n * e <= len l -> Forall (fun x => len x = e) (elems e n l).
Proof.
  intros He Hn Hl. unfold elems. apply Forall_forall. intros x Hx. apply in_map_iff in Hx. destruct Hx as [i [<- Hi]].
  apply in_seq in Hi. apply len_sub; nia.
Qed.

Lemma perm_forall {A} (P : A -> Prop) l l' : Permutation l l' -> Forall P l' -> Forall P l.
Proof. intros Hp Hf. apply Forall_forall. intros x Hx. rewrite Forall_forall in Hf. apply Hf. eapply Permutation_in; eassumption. Qed.

Section Step.
  Variable junk : nat -> Z -> Z.
  Variable cmp : list Z -> list Z -> Z.
  Variable sort : list (list Z) -> list (list Z).
  Variable find : list Z -> list (list Z) -> Z.
  Variable adler_init : Z.
  Variable adler_upd : Z -> list Z -> Z.
  Variable tyf : list Z -> Z.
  (* contract of qsort *)
  Hypothesis sort_perm : forall l, Permutation (sort l) l.
  (* facts about the loop models, proved in ArrayAlgo.v and supplied when the section is closed *)
  Hypothesis uniq_ok : forall l, uniq_model cmp l = uniq_spec cmp l.
  Hypothesis split_ok : forall types T, 0 <= T -> sorted_z types = true ->
    forallb (fun t => (0 <=? t) && (t <? T)) types = true -> split_model types T = Some (split_spec types T).
  Hypothesis permute_ok : forall (l : list (list Z)) ni, length ni = length l -> is_perm ni = 1 ->
    permute_model l ni = Some (permute_spec l ni, map Z.of_nat (seq 0 (length l))) /\ Permutation (permute_spec l ni) l.

  Notation c_exec := (c_exec junk cmp sort find adler_init adler_upd tyf).
  Notation s_exec := (s_exec cmp sort find adler_init adler_upd tyf).
  Notation legal_step := (legal_step tyf).

  Definition sim (c : cstate) (s : sstate) (o : op) : Prop :=
    R (fst (c_exec c o)) (fst (s_exec s o)) /\ snd (c_exec c o) = snd (s_exec s o).

  Ltac live1 h HR HL sa Hs a Ha :=
    unfold lwith1 in HL; destruct (sget _ h) as [sa|] eqn:Hs; [|discriminate HL];
    destruct (entry_some _ _ _ _ HR Hs) as [a Ha].

  Lemma free_none s h : is_free s h = true -> sget s h = None.
  Proof. unfold is_free. destruct (sget s h); [discriminate|reflexivity]. Qed.

  Lemma sim_init c s dyn h e : R c s -> legal_step s (OInit dyn h e) = true -> sim c s (OInit dyn h e).
  Proof.
    intros HR HL. simpl in HL. apply andb_prop in HL. destruct HL as [HL He2]. apply andb_prop in HL. destruct HL as [Hf He1].
    apply free_none in Hf. unfold sim. simpl. split; [|reflexivity].
    destruct (create_own_R junk c s h dyn e 0 false HR Hf ltac:(lia) ltac:(lia) ltac:(rewrite MAXB_val; lia) ltac:(auto)) as [X HX].
    cbv zeta in HX. simpl in HX.
    pose proof (entry_own _ _ _ _ _ _ _ _ HX (lget_lset_same _ _ _) (sget_set_same _ _ _)) as (_ & _ & _ & _ & _ & _ & _ & _ & _ & _ & _ & HXe).
    simpl in HXe. subst X. exact HX.
  Qed.

  Ltac expose := unfold sim, ArrayModel.c_exec, ArrayModel.s_exec; cbv beta iota.
  Ltac bools HL := repeat (apply andb_prop in HL; let H := fresh "L" in destruct HL as [HL H]).

  Lemma own_X_len c s h a dy e n X : R c s -> lget (c_arrs c) h = Some a -> sget s h = Some (SOwn dy e n X) -> len X = n * e.
  Proof.
    intros HR Ha Hs. pose proof (entry_own _ _ _ _ _ _ _ _ HR Ha Hs) as (_ & _ & _ & _ & He & Hn & _ & Hb & Hl & _ & _ & HX).
    rewrite HX. apply len_sub; nia.
  Qed.

  Lemma len0_nil (l : list Z) : len l = 0 -> l = [].
  Proof. destruct l; [reflexivity|]. unfold len. simpl. lia. Qed.

  Lemma sim_initc c s dyn h e n d : R c s -> legal_step s (OInitCount dyn h e n d) = true -> sim c s (OInitCount dyn h e n d).
  Proof.
    intros HR HL. cbn [ArrayModel.legal_step] in HL. bools HL. apply free_none in HL.
    expose. rewrite init_count_val by lia. cbv beta iota. rewrite Z.eqb_refl.
    destruct (create_own_R junk c s h dyn e n true HR HL ltac:(lia) ltac:(lia) ltac:(lia) ltac:(discriminate)) as [X HX].
    cbv zeta in HX. unfold c_malloc in *. cbv zeta in *. cbv beta iota in *.
    split; [|reflexivity]. cbn [fst].
    match type of HX with R (set_arr ?c2 h ?a) _ => set (c3 := set_arr c2 h a) in *; set (a0 := a) in * end.
    assert (Ha0 : lget (c_arrs c3) h = Some a0) by (subst c3; unfold set_arr, set_arrs; simpl; apply lget_lset_same).
    pose proof (own_X_len _ _ _ _ _ _ _ _ HX Ha0 (sget_set_same _ _ _)) as HlX.
    pose proof (write_R c3 _ h a0 _ 0 d HX Ha0 (sget_set_same _ _ _) ltac:(lia) ltac:(simpl; lia)) as HW.
    replace (s_set s h (Some (SOwn dyn e n d))) with (s_wr' (s_set s h (Some (SOwn dyn e n X))) h (SOwn dyn e n X) 0 d); [exact HW|].
    unfold s_wr'. destruct d as [|x d'].
    - change (len []) with 0 in L0. rewrite (len0_nil X) by lia. reflexivity.
    - unfold s_wr, s_root. rewrite sget_set_same, s_set_set. f_equal. f_equal. f_equal.
      rewrite upd_app_tail by lia. reflexivity.
  Qed.

  Lemma sim_view c s dyn h src o l : R c s -> legal_step s (OInitView dyn h src o l) = true -> sim c s (OInitView dyn h src o l).
  Proof.
    intros HR HL. cbn [ArrayModel.legal_step] in HL. apply andb_prop in HL. destruct HL as [Hf HL]. apply free_none in Hf.
    live1 src HR HL sa Hs a Ha. bools HL.
    destruct (esz_cnt _ _ _ _ _ HR Ha Hs) as (E1 & E2 & E3 & E4 & E5 & E6 & E7).
    expose. unfold with1, swith1, cget. rewrite Ha, Hs. rewrite E1, E2.
    rewrite init_view_val by nia. cbv beta iota. split; [|reflexivity]. cbn [fst].
    replace (- (l * s_esz sa + 1)) with (- (l * s_esz sa + 1)) by reflexivity.
    apply (create_view_R c s h dyn src a sa (o * s_esz sa) (s_esz sa) l HR Hf Ha Hs); nia.
  Qed.

  Lemma sim_reshape c s h src e n : R c s -> legal_step s (OInitReshape h src e n) = true -> sim c s (OInitReshape h src e n).
  Proof.
    intros HR HL. cbn [ArrayModel.legal_step] in HL. apply andb_prop in HL. destruct HL as [Hf HL]. apply free_none in Hf.
    live1 src HR HL sa Hs a Ha. bools HL.
    destruct (esz_cnt _ _ _ _ _ HR Ha Hs) as (E1 & E2 & E3 & E4 & E5 & E6 & E7).
    expose. unfold with1, swith1, cget. rewrite Ha, Hs.
    rewrite init_data_val by nia. cbv beta iota. split; [|reflexivity]. cbn [fst].
    pose proof (create_view_R c s h false src a sa 0 e n HR Hf Ha Hs) as HV. rewrite Z.add_0_r in HV. apply HV; nia.
  Qed.

  Lemma sim_data c s dyn h src bo e n : R c s -> legal_step s (OInitData dyn h src bo e n) = true -> sim c s (OInitData dyn h src bo e n).
  Proof.
    intros HR HL. cbn [ArrayModel.legal_step] in HL. apply andb_prop in HL. destruct HL as [Hf HL]. apply free_none in Hf.
    live1 src HR HL sa Hs a Ha. bools HL.
    destruct (esz_cnt _ _ _ _ _ HR Ha Hs) as (E1 & E2 & E3 & E4 & E5 & E6 & E7).
    expose. unfold with1, swith1, cget. rewrite Ha, Hs.
    rewrite init_data_val by nia. cbv beta iota. split; [|reflexivity]. cbn [fst].
    apply (create_view_R c s h dyn src a sa bo e n HR Hf Ha Hs); nia.
  Qed.

  Lemma R_ext c c' s : R c s -> c_arrs c' = c_arrs c -> c_heap c' = c_heap c -> c_outs c' = c_outs c -> c_bad c' = c_bad c ->
    c_mallocs c' - c_frees c' = c_mallocs c - c_frees c -> R c' s.
  Proof.
    intros HR A1 A2 A3 A4 A5. destruct HR as [G1 G2 G3 G4 G5 G6 G7].
    constructor; rewrite ?A1, ?A2, ?A3, ?A4, ?A5; try assumption.
    intros h. specialize (G1 h). unfold entry_ok in *. rewrite A1, A2. exact G1.
  Qed.

  Lemma legal_unrooted c s h sa : R c s -> sget s h = Some sa -> (if s_isown sa then negb (rooted s h) else true) = true -> rooted s h = false.
  Proof.
    intros HR Hs HL. destruct sa as [dy e n b|dy r boff e n cap]; simpl in HL.
    - destruct (rooted s h); [discriminate|reflexivity].
    - apply (rooted_not_owner c s h HR). intros; congruence.
  Qed.

  Lemma sim_reset c s h : R c s -> legal_step s (OReset h) = true -> sim c s (OReset h).
  Proof.
    intros HR HL. cbn [ArrayModel.legal_step] in HL. live1 h HR HL sa Hs a Ha.
    expose. unfold with1, swith1, cget. rewrite Ha, Hs. split; [|reflexivity]. cbn [fst].
    apply reset_R; try assumption. intros _. eapply legal_unrooted; eassumption.
  Qed.

  (* reset, then forget the handle and possibly free the struct *)
  Lemma reset_remove c s h a sa k : R c s -> lget (c_arrs c) h = Some a -> sget s h = Some sa -> rooted s h = false ->
    k = b2z (s_dyn sa) -> R (add_counts (del_arr (c_reset c h a) h) 0 k) (s_set s h None).
  Proof.
    intros HR Ha Hs Hnr ->.
    pose proof (reset_R c s h a sa HR Ha Hs (fun _ => Hnr)) as HR1.
    rewrite <- (s_set_set s h (Some (SOwn (s_dyn sa) (s_esz sa) 0 [])) None).
    unfold c_reset in *. rewrite reset_val in *.
    match type of HR1 with R (set_arr ?c1 h ?a0) _ =>
      apply (remove_R (set_arr c1 h a0) (s_reset s h sa) h a0 (s_dyn sa) (s_esz sa) HR1) end.
    - unfold set_arr, set_arrs. simpl. apply lget_lset_same.
    - unfold s_reset. apply sget_set_same.
    - reflexivity.
    - unfold s_reset. apply rooted_set; [exact Hnr|]. intros; discriminate.
  Qed.

  Lemma sim_destroy c s h : R c s -> legal_step s (ODestroy h) = true -> sim c s (ODestroy h).
  Proof.
    intros HR HL. cbn [ArrayModel.legal_step] in HL. live1 h HR HL sa Hs a Ha. apply andb_prop in HL. destruct HL as [Hd HL].
    pose proof (legal_unrooted _ _ _ _ HR Hs HL) as Hnr.
    expose. unfold with1, swith1, cget. rewrite Ha. rewrite destroy_val. cbv beta iota. split; [|reflexivity]. cbn [fst].
    pose proof (reset_remove c s h a sa 1 HR Ha Hs Hnr ltac:(rewrite Hd; reflexivity)) as HX.
    eapply R_ext; [exact HX| | | | |]; unfold c_reset; rewrite reset_val; unfold del_arr, set_arr, set_arrs, add_counts; simpl;
      rewrite ?lset_lset; try reflexivity.
  Qed.

  Lemma sim_drop c s h : R c s -> legal_step s (ODrop h) = true -> sim c s (ODrop h).
  Proof.
    intros HR HL. cbn [ArrayModel.legal_step] in HL. live1 h HR HL sa Hs a Ha. apply andb_prop in HL. destruct HL as [Hd HL].
    pose proof (legal_unrooted _ _ _ _ HR Hs HL) as Hnr.
    expose. unfold with1, swith1, cget. rewrite Ha. split; [|reflexivity]. cbn [fst].
    pose proof (reset_remove c s h a sa 0 HR Ha Hs Hnr ltac:(destruct (s_dyn sa); [discriminate|reflexivity])) as HX.
    eapply R_ext; [exact HX| | | | |]; unfold add_counts; simpl; try reflexivity; lia.
  Qed.

  Lemma owner_free_own s h sa : owner_free s h sa = true -> exists dy e n b, sa = SOwn dy e n b /\ rooted s h = false.
  Proof.
    unfold owner_free. intros H. apply andb_prop in H. destruct H as [H1 H2].
    destruct sa as [dy e n b|]; [|discriminate]. exists dy, e, n, b. split; [reflexivity|]. destruct (rooted s h); [discriminate|reflexivity].
  Qed.

  Lemma c_wr_nil c a p : c_wr c a p [] = c.
  Proof. reflexivity. Qed.

  (* owner: count change in place, nothing written *)
  Lemma setcnt_R c s h a dy e n b n' :
    R c s -> lget (c_arrs c) h = Some a -> sget s h = Some (SOwn dy e n b) -> rooted s h = false ->
    0 <= n' <= n -> R (set_arr c h (with_cnt a n')) (s_resize_wr s h (SOwn dy e n b) n' (n' * e) []).
  Proof.
    intros HR Ha Hs Hnr Hn.
    pose proof (entry_own _ _ _ _ _ _ _ _ HR Ha Hs) as (H1 & H2 & H3 & H4 & H5 & H6 & H7 & H8 & _).
    pose proof (setcnt_resized c s h a dy e n b n' HR Ha Hs Hnr ltac:(lia) ltac:(nia)) as Hres.
    destruct (resized_wr _ s h dy e n b n' (n' * e) [] Hres ltac:(lia) ltac:(lia) H5 ltac:(nia) ltac:(rewrite len_nil; lia)) as (a1 & _ & HW).
    exact HW.
  Qed.

  Lemma sim_truncate c s h : R c s -> legal_step s (OTruncate h) = true -> sim c s (OTruncate h).
  Proof.
    intros HR HL. cbn [ArrayModel.legal_step] in HL. live1 h HR HL sa Hs a Ha.
    destruct (owner_free_own _ _ _ HL) as (dy & e & n & b & -> & Hnr).
    pose proof (entry_own _ _ _ _ _ _ _ _ HR Ha Hs) as (H1 & H2 & H3 & H4 & H5 & H6 & H7 & H8 & _).
    expose. unfold with1, swith1, cget. rewrite Ha, Hs. rewrite truncate_val. split; [|reflexivity]. cbn [fst].
    pose proof (setcnt_R c s h a dy e n b 0 HR Ha Hs Hnr ltac:(lia)) as HX. rewrite Z.mul_0_l in HX. exact HX.
  Qed.

  Lemma c_resize_view_eq c h a n' : a_balloc a < 0 -> c_resize junk c h a n' = set_arr c h (with_cnt a n').
  Proof. intros. unfold c_resize. rewrite resize_view by assumption. reflexivity. Qed.

  Lemma sim_rewind c s h n : R c s -> legal_step s (ORewind h n) = true -> sim c s (ORewind h n).
  Proof.
    intros HR HL. cbn [ArrayModel.legal_step] in HL. live1 h HR HL sa Hs a Ha. bools HL.
    pose proof (legal_unrooted _ _ _ _ HR Hs L) as Hnr.
    expose. unfold with1, swith1, cget. rewrite Ha, Hs. rewrite rewind_val.
    destruct sa as [dy e n0 b|dy r boff e n0 cap]; simpl in L0.
    - pose proof (entry_own _ _ _ _ _ _ _ _ HR Ha Hs) as (H1 & H2 & H3 & H4 & H5 & H6 & H7 & H8 & _).
      replace (0 <=? a_balloc a) with true by lia. rewrite andb_true_r.
      destruct (n =? 0) eqn:En; cbv beta iota.
      + assert (n = 0) by lia. subst n. split; [|reflexivity]. cbn [fst Z.eqb].
        pose proof (reset_R c s h a _ HR Ha Hs (fun _ => Hnr)) as HX. exact HX.
      + split; [|reflexivity]. cbn [fst]. replace (0 =? 1) with false by reflexivity.
        apply (setcnt_R c s h a dy e n0 b n HR Ha Hs Hnr). lia.
    - pose proof (entry_view _ _ _ _ _ _ _ _ _ _ HR Ha Hs) as Hv.
      destruct (view_is_view _ _ _ _ _ _ _ _ _ Hv) as (Hio & Hcapa & Hc0).
      destruct Hv as (H1 & H2 & H3 & H4 & H5 & H6 & H7 & H8 & _).
      replace (0 <=? a_balloc a) with false by lia. rewrite andb_false_r. cbv beta iota.
      split; [|reflexivity]. cbn [fst]. replace (0 =? 1) with false by reflexivity.
      rewrite <- (c_resize_view_eq c h a n) by lia.
      cbn [s_resize_wr s_wr']. apply (resize_view_R junk c s h a dy r boff e n0 cap n HR Ha Hs); nia.
  Qed.

  Lemma can_resize_own s h dy e n b n' : can_resize s h (SOwn dy e n b) n' = true -> 0 <= n' /\ n' * e <= MAXB /\ rooted s h = false.
  Proof. unfold can_resize. simpl. intros H. bools H. destruct (rooted s h); [discriminate|]. repeat split; lia. Qed.
  Lemma can_resize_view s h dy r boff e n cap n' : can_resize s h (SView dy r boff e n cap) n' = true -> 0 <= n' /\ n' * e <= cap.
  Proof. unfold can_resize. simpl. intros H. bools H. split; lia. Qed.

  (* resize followed by a write at position p *)
  Lemma resize_wr_R c s h a sa n' p d :
    R c s -> lget (c_arrs c) h = Some a -> sget s h = Some sa -> can_resize s h sa n' = true ->
    0 <= p <= Z.min (s_cnt sa) n' * s_esz sa -> p + len d = n' * s_esz sa ->
    exists a1, lget (c_arrs (c_resize junk c h a n')) h = Some a1 /\
               R (c_wr (c_resize junk c h a n') a1 p d) (s_resize_wr s h sa n' p d).
  Proof.
    intros HR Ha Hs Hcr Hp Hpd. destruct sa as [dy e n b|dy r boff e n cap]; simpl in Hp, Hpd.
    - destruct (can_resize_own _ _ _ _ _ _ _ Hcr) as (G1 & G2 & G3).
      pose proof (entry_own _ _ _ _ _ _ _ _ HR Ha Hs) as (H1 & H2 & H3 & H4 & H5 & H6 & _).
      apply (resized_wr _ s h dy e n b n' p d); try assumption; try lia.
      apply resize_resized; assumption.
    - destruct (can_resize_view _ _ _ _ _ _ _ _ _ Hcr) as (G1 & G2).
      pose proof (resize_view_R junk c s h a dy r boff e n cap n' HR Ha Hs G1 G2) as HR1.
      destruct (entry_some _ _ h _ HR1 (sget_set_same _ _ _)) as [a1 Ha1]. exists a1. split; [exact Ha1|].
      cbn [s_resize_wr]. apply (write_R _ _ h a1 _ p d HR1 Ha1 (sget_set_same _ _ _)); simpl; lia.
  Qed.

  Lemma sim_resize c s h n d : R c s -> legal_step s (OResize h n d) = true -> sim c s (OResize h n d).
  Proof.
    intros HR HL. cbn [ArrayModel.legal_step] in HL. live1 h HR HL sa Hs a Ha.
    apply andb_prop in HL. destruct HL as [HL Lb]. apply andb_prop in HL. destruct HL as [HL L0].
    destruct (esz_cnt _ _ _ _ _ HR Ha Hs) as (E1 & E2 & E3 & E4 & E5 & E6 & E7).
    assert (Hn0 : 0 <= n) by (pose proof HL as HL'; unfold can_resize in HL'; bools HL'; lia).
    expose. unfold with1, swith1, cget. rewrite Ha, Hs. rewrite E1, E2.
    destruct (Z.le_gt_cases n (s_cnt sa)) as [Hle|Hgt].
    - (* no new elements: nothing is written *)
      assert (d = []) by (apply len0_nil; nia). subst d.
      destruct (resize_wr_R c s h a sa n (Z.min (s_cnt sa) n * s_esz sa) [] HR Ha Hs HL ltac:(nia) ltac:(rewrite len_nil; nia)) as (a1 & Ha1 & HW).
      unfold cget. rewrite Ha1. split; [|reflexivity]. exact HW.
    - replace (Z.min (s_cnt sa) n) with (s_cnt sa) by lia.
      destruct (resize_wr_R c s h a sa n (s_cnt sa * s_esz sa) d HR Ha Hs HL ltac:(nia) ltac:(nia)) as (a1 & Ha1 & HW).
      unfold cget. rewrite Ha1. split; [|reflexivity]. exact HW.
  Qed.

  Lemma push_count_R c s h a dy e n b k d :
    R c s -> lget (c_arrs c) h = Some a -> sget s h = Some (SOwn dy e n b) -> rooted s h = false ->
    0 <= k -> (n + k) * e <= MAXB -> len d = k * e ->
    R (c_push_count junk c h a k d) (s_resize_wr s h (SOwn dy e n b) (n + k) (n * e) d).
  Proof.
    intros HR Ha Hs Hnr Hk Hmax Hd.
    pose proof (entry_own _ _ _ _ _ _ _ _ HR Ha Hs) as (H1 & H2 & H3 & H4 & H5 & H6 & H7 & H8 & _).
    unfold c_push_count. rewrite H2, H3. rewrite push_count_owner by lia.
    set (c1 := if a_balloc a <? e * (n + k) then c_resize junk c h a (n + k) else set_arr c h (with_cnt a (n + k))).
    assert (Hres : resized s h dy e n b (n + k) c1).
    { subst c1. destruct (a_balloc a <? e * (n + k)) eqn:Ec.
      - apply resize_resized; try assumption; lia.
      - apply setcnt_resized; try assumption; lia. }
    destruct (resized_wr c1 s h dy e n b (n + k) (n * e) d Hres ltac:(lia) ltac:(lia) H5 ltac:(nia) ltac:(nia)) as (a1 & Ha1 & HW).
    destruct (a_balloc a <? e * (n + k)) eqn:Ec; cbv beta iota; cbn [Z.eqb Pos.eqb]; fold c1; unfold cget; rewrite Ha1;
      replace (a_off a + e * n - a_off a) with (n * e) by lia; exact HW.
  Qed.

  Lemma sim_pushc c s h k d : R c s -> legal_step s (OPushCount h k d) = true -> sim c s (OPushCount h k d).
  Proof.
    intros HR HL. cbn [ArrayModel.legal_step] in HL. live1 h HR HL sa Hs a Ha. bools HL.
    destruct sa as [dy e n b|]; [|discriminate HL].
    assert (Hnr : rooted s h = false) by (destruct (rooted s h); [discriminate|reflexivity]). simpl in *.
    expose. unfold with1, swith1, cget. rewrite Ha, Hs. split; [|reflexivity]. cbn [fst s_cnt s_esz].
    apply push_count_R; try assumption; lia.
  Qed.

  Lemma sim_push c s h d : R c s -> legal_step s (OPush h d) = true -> sim c s (OPush h d).
  Proof.
    intros HR HL. cbn [ArrayModel.legal_step] in HL. live1 h HR HL sa Hs a Ha. bools HL.
    destruct sa as [dy e n b|]; [|discriminate HL].
    assert (Hnr : rooted s h = false) by (destruct (rooted s h); [discriminate|reflexivity]). simpl in *.
    expose. unfold with1, swith1, cget. rewrite Ha, Hs. split; [|reflexivity]. cbn [fst s_cnt s_esz].
    apply push_count_R; try assumption; lia.
  Qed.

  Lemma sim_pop c s h : R c s -> legal_step s (OPop h) = true -> sim c s (OPop h).
  Proof.
    intros HR HL. cbn [ArrayModel.legal_step] in HL. live1 h HR HL sa Hs a Ha. bools HL.
    destruct sa as [dy e n b|]; [|discriminate HL].
    assert (Hnr : rooted s h = false) by (destruct (rooted s h); [discriminate|reflexivity]). simpl in L.
    pose proof (entry_own _ _ _ _ _ _ _ _ HR Ha Hs) as Ho. destruct (own_is_owner _ _ _ _ _ _ Ho) as [Hio Hcapa].
    destruct Ho as (H1 & H2 & H3 & H4 & H5 & H6 & H7 & H8 & H9 & _).
    expose. unfold with1, swith1, cget. rewrite Ha, Hs. rewrite H2, H3. rewrite pop_owner by lia. cbv beta iota.
    cbn [fst snd s_cnt s_esz].
    replace (a_off a + e * (n - 1) - a_off a) with ((n - 1) * e) by lia.
    destruct (acc_rd c s h a _ ((n - 1) * e) e HR Ha Hs ltac:(nia) ltac:(lia) ltac:(simpl; nia)) as [Hacc Hrd].
    split.
    - unfold c_chk.
      replace (acc_ok (set_arr c h (with_cnt a (n - 1))) (with_cnt a (n - 1)) ((n - 1) * e) e) with (acc_ok c a ((n - 1) * e) e) by reflexivity.
      rewrite Hacc. apply (setcnt_R c s h a dy e n b (n - 1) HR Ha Hs Hnr). lia.
    - exact Hrd.
  Qed.
End Step.
