(* C08 - every legal operation preserves the simulation relation and yields the reference result. *)
From Coq Require Import ZArith Lia List Bool ZifyBool Permutation.
From ScV Require Import Base.CInt Gen.Array C08.ArrayModel C08.ArrayLists C08.ArrayGen C08.ArrayRefine.
Import ListNotations.
Local Open Scope Z_scope.

Lemma len_concat_forall (l : list (list Z)) e : Forall (fun x => len x = e) l -> len (concat l) = Z.of_nat (length l) * e.
Proof.
  induction 1 as [|x r Hx Hr IH]; [reflexivity|]. cbn [concat length]. rewrite len_app, IH, Hx. lia.
Qed.

Lemma elems_forall e n l : 0 <= e -> 0 <= n -> n * e <= len l -> Forall (fun x => len x = e) (elems e n l).
Proof.
  intros He Hn Hl. unfold elems. apply Forall_forall. intros x Hx. apply in_map_iff in Hx. destruct Hx as [i [<- Hi]].
  apply in_seq in Hi. apply len_sub; nia.
Qed.

Lemma perm_forall {A} (P : A -> Prop) l l' : Permutation l l' -> Forall P l' -> Forall P l.
Proof. intros Hp Hf. apply Forall_forall. intros x Hx. rewrite Forall_forall in Hf. apply Hf. eapply Permutation_in; eassumption. Qed.

Section Step.
  Variable junk : nat -> Z -> Z.
  Variable cmp : list Z -> list Z -> Z.
  Variable sort : list (list Z) -> list (list Z).
  Variable find : list Z -> list (list Z) -> Z.
  Variable adler_init : Z.
  Variable adler_upd : Z -> list Z -> Z.
  Variable tyf : list Z -> Z.
  (* contract of qsort *)
  Hypothesis sort_perm : forall l, Permutation (sort l) l.
  (* facts about the loop models, proved in ArrayAlgo.v and supplied when the section is closed *)
  Hypothesis uniq_ok : forall l, uniq_model cmp l = uniq_spec cmp l.
  Hypothesis split_ok : forall types T, 0 <= T -> sorted_z types = true ->
    forallb (fun t => (0 <=? t) && (t <? T)) types = true -> split_model types T = Some (split_spec types T).
  Hypothesis permute_ok : forall (l : list (list Z)) ni, length ni = length l -> is_perm ni = 1 ->
    permute_model l ni = Some (permute_spec l ni, map Z.of_nat (seq 0 (length l))) /\ Permutation (permute_spec l ni) l.

  Notation c_exec := (c_exec junk cmp sort find adler_init adler_upd tyf).
  Notation s_exec := (s_exec cmp sort find adler_init adler_upd tyf).
  Notation legal_step := (legal_step tyf).

  Definition sim (c : cstate) (s : sstate) (o : op) : Prop :=
    R (fst (c_exec c o)) (fst (s_exec s o)) /\ snd (c_exec c o) = snd (s_exec s o).

  Ltac live1 h HR HL sa Hs a Ha :=
    unfold lwith1 in HL; destruct (sget _ h) as [sa|] eqn:Hs; [|discriminate HL];
    destruct (entry_some _ _ _ _ HR Hs) as [a Ha].

  Lemma free_none s h : is_free s h = true -> sget s h = None.
  Proof. unfold is_free. destruct (sget s h); [discriminate|reflexivity]. Qed.

  Lemma sim_init c s dyn h e : R c s -> legal_step s (OInit dyn h e) = true -> sim c s (OInit dyn h e).
  Proof.
    intros HR HL. simpl in HL. apply andb_prop in HL. destruct HL as [HL He2]. apply andb_prop in HL. destruct HL as [Hf He1].
    apply free_none in Hf. unfold sim. simpl. split; [|reflexivity].
    destruct (create_own_R junk c s h dyn e 0 false HR Hf ltac:(lia) ltac:(lia) ltac:(rewrite MAXB_val; lia) ltac:(auto)) as [X HX].
    cbv zeta in HX. simpl in HX.
    pose proof (entry_own _ _ _ _ _ _ _ _ HX (lget_lset_same _ _ _) (sget_set_same _ _ _)) as (_ & _ & _ & _ & _ & _ & _ & _ & _ & _ & _ & HXe).
    simpl in HXe. subst X. exact HX.
  Qed.

  Ltac expose := unfold sim, ArrayModel.c_exec, ArrayModel.s_exec; cbv beta iota.
  Ltac bools HL := repeat (apply andb_prop in HL; let H := fresh "L" in destruct HL as [HL H]).

  Lemma own_X_len c s h a dy e n X : R c s -> lget (c_arrs c) h = Some a -> sget s h = Some (SOwn dy e n X) -> len X = n * e.
  Proof.
    intros HR Ha Hs. pose proof (entry_own _ _ _ _ _ _ _ _ HR Ha Hs) as (_ & _ & _ & _ & He & Hn & _ & Hb & Hl & _ & _ & HX).
    rewrite HX. apply len_sub; nia.
  Qed.

  Lemma len0_nil (l : list Z) : len l = 0 -> l = [].
  Proof. destruct l; [reflexivity|]. unfold len. simpl. lia. Qed.

  Lemma sim_initc c s dyn h e n d : R c s -> legal_step s (OInitCount dyn h e n d) = true -> sim c s (OInitCount dyn h e n d).
  Proof.
    intros HR HL. cbn [ArrayModel.legal_step] in HL. bools HL. apply free_none in HL.
    expose. rewrite init_count_val by lia. cbv beta iota. rewrite Z.eqb_refl.
    destruct (create_own_R junk c s h dyn e n true HR HL ltac:(lia) ltac:(lia) ltac:(lia) ltac:(discriminate)) as [X HX].
    cbv zeta in HX. unfold c_malloc in *. cbv zeta in *. cbv beta iota in *.
    split; [|reflexivity]. cbn [fst].
    match type of HX with R (set_arr ?c2 h ?a) _ => set (c3 := set_arr c2 h a) in *; set (a0 := a) in * end.
    assert (Ha0 : lget (c_arrs c3) h = Some a0) by (subst c3; unfold set_arr, set_arrs; simpl; apply lget_lset_same).
    pose proof (own_X_len _ _ _ _ _ _ _ _ HX Ha0 (sget_set_same _ _ _)) as HlX.
    pose proof (write_R c3 _ h a0 _ 0 d HX Ha0 (sget_set_same _ _ _) ltac:(lia) ltac:(simpl; lia)) as HW.
    replace (s_set s h (Some (SOwn dyn e n d))) with (s_wr' (s_set s h (Some (SOwn dyn e n X))) h (SOwn dyn e n X) 0 d); [exact HW|].
    unfold s_wr'. destruct d as [|x d'].
    - change (len []) with 0 in L0. rewrite (len0_nil X) by lia. reflexivity.
    - unfold s_wr, s_root. rewrite sget_set_same, s_set_set. f_equal. f_equal. f_equal.
      rewrite upd_app_tail by lia. reflexivity.
  Qed.

  Lemma sim_view c s dyn h src o l : R c s -> legal_step s (OInitView dyn h src o l) = true -> sim c s (OInitView dyn h src o l).
  Proof.
    intros HR HL. cbn [ArrayModel.legal_step] in HL. apply andb_prop in HL. destruct HL as [Hf HL]. apply free_none in Hf.
    live1 src HR HL sa Hs a Ha. bools HL.
    destruct (esz_cnt _ _ _ _ _ HR Ha Hs) as (E1 & E2 & E3 & E4 & E5 & E6 & E7).
    expose. unfold with1, swith1, cget. rewrite Ha, Hs. rewrite E1, E2.
    rewrite init_view_val by nia. cbv beta iota. split; [|reflexivity]. cbn [fst].
    replace (- (l * s_esz sa + 1)) with (- (l * s_esz sa + 1)) by reflexivity.
    apply (create_view_R c s h dyn src a sa (o * s_esz sa) (s_esz sa) l HR Hf Ha Hs); nia.
  Qed.

  Lemma sim_reshape c s h src e n : R c s -> legal_step s (OInitReshape h src e n) = true -> sim c s (OInitReshape h src e n).
  Proof.
    intros HR HL. cbn [ArrayModel.legal_step] in HL. apply andb_prop in HL. destruct HL as [Hf HL]. apply free_none in Hf.
    live1 src HR HL sa Hs a Ha. bools HL.
    destruct (esz_cnt _ _ _ _ _ HR Ha Hs) as (E1 & E2 & E3 & E4 & E5 & E6 & E7).
    expose. unfold with1, swith1, cget. rewrite Ha, Hs.
    rewrite init_data_val by nia. cbv beta iota. split; [|reflexivity]. cbn [fst].
    pose proof (create_view_R c s h false src a sa 0 e n HR Hf Ha Hs) as HV. rewrite Z.add_0_r in HV. apply HV; nia.
  Qed.

  Lemma sim_data c s dyn h src bo e n : R c s -> legal_step s (OInitData dyn h src bo e n) = true -> sim c s (OInitData dyn h src bo e n).
  Proof.
    intros HR HL. cbn [ArrayModel.legal_step] in HL. apply andb_prop in HL. destruct HL as [Hf HL]. apply free_none in Hf.
    live1 src HR HL sa Hs a Ha. bools HL.
    destruct (esz_cnt _ _ _ _ _ HR Ha Hs) as (E1 & E2 & E3 & E4 & E5 & E6 & E7).
    expose. unfold with1, swith1, cget. rewrite Ha, Hs.
    rewrite init_data_val by nia. cbv beta iota. split; [|reflexivity]. cbn [fst].
    apply (create_view_R c s h dyn src a sa bo e n HR Hf Ha Hs); nia.
  Qed.

  Lemma R_ext c c' s : R c s -> c_arrs c' = c_arrs c -> c_heap c' = c_heap c -> c_outs c' = c_outs c -> c_bad c' = c_bad c ->
    c_mallocs c' - c_frees c' = c_mallocs c - c_frees c -> R c' s.
  Proof.
    intros HR A1 A2 A3 A4 A5. destruct HR as [G1 G2 G3 G4 G5 G6 G7].
    constructor; rewrite ?A1, ?A2, ?A3, ?A4, ?A5; try assumption.
    intros h. specialize (G1 h). unfold entry_ok in *. rewrite A1, A2. exact G1.
  Qed.

  Lemma legal_unrooted c s h sa : R c s -> sget s h = Some sa -> (if s_isown sa then negb (rooted s h) else true) = true -> rooted s h = false.
  Proof.
    intros HR Hs HL. destruct sa as [dy e n b|dy r boff e n cap]; simpl in HL.
    - destruct (rooted s h); [discriminate|reflexivity].
    - apply (rooted_not_owner c s h HR). intros; congruence.
  Qed.

  Lemma sim_reset c s h : R c s -> legal_step s (OReset h) = true -> sim c s (OReset h).
  Proof.
    intros HR HL. cbn [ArrayModel.legal_step] in HL. live1 h HR HL sa Hs a Ha.
    expose. unfold with1, swith1, cget. rewrite Ha, Hs. split; [|reflexivity]. cbn [fst].
    apply reset_R; try assumption. intros _. eapply legal_unrooted; eassumption.
  Qed.

  (* reset, then forget the handle and possibly free the struct *)
  Lemma reset_remove c s h a sa k : R c s -> lget (c_arrs c) h = Some a -> sget s h = Some sa -> rooted s h = false ->
    k = b2z (s_dyn sa) -> R (add_counts (del_arr (c_reset c h a) h) 0 k) (s_set s h None).
  Proof.
    intros HR Ha Hs Hnr ->.
    pose proof (reset_R c s h a sa HR Ha Hs (fun _ => Hnr)) as HR1.
    rewrite <- (s_set_set s h (Some (SOwn (s_dyn sa) (s_esz sa) 0 [])) None).
    unfold c_reset in *. rewrite reset_val in *.
    match type of HR1 with R (set_arr ?c1 h ?a0) _ =>
      apply (remove_R (set_arr c1 h a0) (s_reset s h sa) h a0 (s_dyn sa) (s_esz sa) HR1) end.
    - unfold set_arr, set_arrs. simpl. apply lget_lset_same.
    - unfold s_reset. apply sget_set_same.
    - reflexivity.
    - unfold s_reset. apply rooted_set; [exact Hnr|]. intros; discriminate.
  Qed.

  Lemma sim_destroy c s h : R c s -> legal_step s (ODestroy h) = true -> sim c s (ODestroy h).
  Proof.
    intros HR HL. cbn [ArrayModel.legal_step] in HL. live1 h HR HL sa Hs a Ha. apply andb_prop in HL. destruct HL as [Hd HL].
    pose proof (legal_unrooted _ _ _ _ HR Hs HL) as Hnr.
    expose. unfold with1, swith1, cget. rewrite Ha. rewrite destroy_val. cbv beta iota. split; [|reflexivity]. cbn [fst].
    pose proof (reset_remove c s h a sa 1 HR Ha Hs Hnr ltac:(rewrite Hd; reflexivity)) as HX.
    eapply R_ext; [exact HX| | | | |]; unfold c_reset; rewrite reset_val; unfold del_arr, set_arr, set_arrs, add_counts; simpl;
      rewrite ?lset_lset; try reflexivity.
  Qed.

  Lemma sim_drop c s h : R c s -> legal_step s (ODrop h) = true -> sim c s (ODrop h).
  Proof.
    intros HR HL. cbn [ArrayModel.legal_step] in HL. live1 h HR HL sa Hs a Ha. apply andb_prop in HL. destruct HL as [Hd HL].
    pose proof (legal_unrooted _ _ _ _ HR Hs HL) as Hnr.
    expose. unfold with1, swith1, cget. rewrite Ha. split; [|reflexivity]. cbn [fst].
    pose proof (reset_remove c s h a sa 0 HR Ha Hs Hnr ltac:(destruct (s_dyn sa); [discriminate|reflexivity])) as HX.
    eapply R_ext; [exact HX| | | | |]; unfold add_counts; simpl; try reflexivity; lia.
  Qed.

  Lemma owner_free_own s h sa : owner_free s h sa = true -> exists dy e n b, sa = SOwn dy e n b /\ rooted s h = false.
  Proof.
    unfold owner_free. intros H. apply andb_prop in H. destruct H as [H1 H2].
    destruct sa as [dy e n b|]; [|discriminate]. exists dy, e, n, b. split; [reflexivity|]. destruct (rooted s h); [discriminate|reflexivity].
  Qed.

  Lemma c_wr_nil c a p : c_wr c a p [] = c.
  Proof. reflexivity. Qed.

  (* owner: count change in place, nothing written *)
  Lemma setcnt_R c s h a dy e n b n' :
    R c s -> lget (c_arrs c) h = Some a -> sget s h = Some (SOwn dy e n b) -> rooted s h = false ->
    0 <= n' <= n -> R (set_arr c h (with_cnt a n')) (s_resize_wr s h (SOwn dy e n b) n' (n' * e) []).
  Proof.
    intros HR Ha Hs Hnr Hn.
    pose proof (entry_own _ _ _ _ _ _ _ _ HR Ha Hs) as (H1 & H2 & H3 & H4 & H5 & H6 & H7 & H8 & _).
    pose proof (setcnt_resized c s h a dy e n b n' HR Ha Hs Hnr ltac:(lia) ltac:(nia)) as Hres.
    destruct (resized_wr _ s h dy e n b n' (n' * e) [] Hres ltac:(lia) ltac:(lia) H5 ltac:(nia) ltac:(rewrite len_nil; lia)) as (a1 & _ & HW).
    exact HW.
  Qed.

  Lemma sim_truncate c s h : R c s -> legal_step s (OTruncate h) = true -> sim c s (OTruncate h).
  Proof.
    intros HR HL. cbn [ArrayModel.legal_step] in HL. live1 h HR HL sa Hs a Ha.
    destruct (owner_free_own _ _ _ HL) as (dy & e & n & b & -> & Hnr).
    pose proof (entry_own _ _ _ _ _ _ _ _ HR Ha Hs) as (H1 & H2 & H3 & H4 & H5 & H6 & H7 & H8 & _).
    expose. unfold with1, swith1, cget. rewrite Ha, Hs. rewrite truncate_val. split; [|reflexivity]. cbn [fst].
    pose proof (setcnt_R c s h a dy e n b 0 HR Ha Hs Hnr ltac:(lia)) as HX. rewrite Z.mul_0_l in HX. exact HX.
  Qed.

  Lemma c_resize_view_eq c h a n' : a_balloc a < 0 -> c_resize junk c h a n' = set_arr c h (with_cnt a n').
  Proof. intros. unfold c_resize. rewrite resize_view by assumption. reflexivity. Qed.

  Lemma sim_rewind c s h n : R c s -> legal_step s (ORewind h n) = true -> sim c s (ORewind h n).
  Proof.
    intros HR HL. cbn [ArrayModel.legal_step] in HL. live1 h HR HL sa Hs a Ha. bools HL.
    pose proof (legal_unrooted _ _ _ _ HR Hs L) as Hnr.
    expose. unfold with1, swith1, cget. rewrite Ha, Hs. rewrite rewind_val.
    destruct sa as [dy e n0 b|dy r boff e n0 cap]; simpl in L0.
    - pose proof (entry_own _ _ _ _ _ _ _ _ HR Ha Hs) as (H1 & H2 & H3 & H4 & H5 & H6 & H7 & H8 & _).
      replace (0 <=? a_balloc a) with true by lia. rewrite andb_true_r.
      destruct (n =? 0) eqn:En; cbv beta iota.
      + assert (n = 0) by lia. subst n. split; [|reflexivity]. cbn [fst Z.eqb].
        pose proof (reset_R c s h a _ HR Ha Hs (fun _ => Hnr)) as HX. exact HX.
      + split; [|reflexivity]. cbn [fst]. replace (0 =? 1) with false by reflexivity.
        apply (setcnt_R c s h a dy e n0 b n HR Ha Hs Hnr). lia.
    - pose proof (entry_view _ _ _ _ _ _ _ _ _ _ HR Ha Hs) as Hv.
      destruct (view_is_view _ _ _ _ _ _ _ _ _ Hv) as (Hio & Hcapa & Hc0).
      destruct Hv as (H1 & H2 & H3 & H4 & H5 & H6 & H7 & H8 & _).
      replace (0 <=? a_balloc a) with false by lia. rewrite andb_false_r. cbv beta iota.
      split; [|reflexivity]. cbn [fst]. replace (0 =? 1) with false by reflexivity.
      rewrite <- (c_resize_view_eq c h a n) by lia.
      cbn [s_resize_wr s_wr']. apply (resize_view_R junk c s h a dy r boff e n0 cap n HR Ha Hs); nia.
  Qed.

  Lemma can_resize_own s h dy e n b n' : can_resize s h (SOwn dy e n b) n' = true -> 0 <= n' /\ n' * e <= MAXB /\ rooted s h = false.
  Proof. unfold can_resize. simpl. intros H. bools H. destruct (rooted s h); [discriminate|]. repeat split; lia. Qed.
  Lemma can_resize_view s h dy r boff e n cap n' : can_resize s h (SView dy r boff e n cap) n' = true -> 0 <= n' /\ n' * e <= cap.
  Proof. unfold can_resize. simpl. intros H. bools H. split; lia. Qed.

  (* resize followed by a write at position p *)
  Lemma resize_wr_R c s h a sa n' p d :
    R c s -> lget (c_arrs c) h = Some a -> sget s h = Some sa -> can_resize s h sa n' = true ->
    0 <= p <= Z.min (s_cnt sa) n' * s_esz sa -> p + len d = n' * s_esz sa ->
    exists a1, lget (c_arrs (c_resize junk c h a n')) h = Some a1 /\
               R (c_wr (c_resize junk c h a n') a1 p d) (s_resize_wr s h sa n' p d).
  Proof.
    intros HR Ha Hs Hcr Hp Hpd. destruct sa as [dy e n b|dy r boff e n cap]; simpl in Hp, Hpd.
    - destruct (can_resize_own _ _ _ _ _ _ _ Hcr) as (G1 & G2 & G3).
      pose proof (entry_own _ _ _ _ _ _ _ _ HR Ha Hs) as (H1 & H2 & H3 & H4 & H5 & H6 & _).
      apply (resized_wr _ s h dy e n b n' p d); try assumption; try lia.
      apply resize_resized; assumption.
    - destruct (can_resize_view _ _ _ _ _ _ _ _ _ Hcr) as (G1 & G2).
      pose proof (resize_view_R junk c s h a dy r boff e n cap n' HR Ha Hs G1 G2) as HR1.
      destruct (entry_some _ _ h _ HR1 (sget_set_same _ _ _)) as [a1 Ha1]. exists a1. split; [exact Ha1|].
      cbn [s_resize_wr]. apply (write_R _ _ h a1 _ p d HR1 Ha1 (sget_set_same _ _ _)); simpl; lia.
  Qed.

  Lemma sim_resize c s h n d : R c s -> legal_step s (OResize h n d) = true -> sim c s (OResize h n d).
  Proof.
    intros HR HL. cbn [ArrayModel.legal_step] in HL. live1 h HR HL sa Hs a Ha.
    apply andb_prop in HL. destruct HL as [HL Lb]. apply andb_prop in HL. destruct HL as [HL L0].
    destruct (esz_cnt _ _ _ _ _ HR Ha Hs) as (E1 & E2 & E3 & E4 & E5 & E6 & E7).
    assert (Hn0 : 0 <= n) by (pose proof HL as HL'; unfold can_resize in HL'; bools HL'; lia).
    expose. unfold with1, swith1, cget. rewrite Ha, Hs. rewrite E1, E2.
    destruct (Z.le_gt_cases n (s_cnt sa)) as [Hle|Hgt].
    - (* no new elements: nothing is written *)
      assert (d = []) by (apply len0_nil; nia). subst d.
      destruct (resize_wr_R c s h a sa n (Z.min (s_cnt sa) n * s_esz sa) [] HR Ha Hs HL ltac:(nia) ltac:(rewrite len_nil; nia)) as (a1 & Ha1 & HW).
      unfold cget. rewrite Ha1. split; [|reflexivity]. exact HW.
    - replace (Z.min (s_cnt sa) n) with (s_cnt sa) by lia.
      destruct (resize_wr_R c s h a sa n (s_cnt sa * s_esz sa) d HR Ha Hs HL ltac:(nia) ltac:(nia)) as (a1 & Ha1 & HW).
      unfold cget. rewrite Ha1. split; [|reflexivity]. exact HW.
  Qed.

  Lemma push_count_R c s h a dy e n b k d :
    R c s -> lget (c_arrs c) h = Some a -> sget s h = Some (SOwn dy e n b) -> rooted s h = false ->
    0 <= k -> (n + k) * e <= MAXB -> len d = k * e ->
    R (c_push_count junk c h a k d) (s_resize_wr s h (SOwn dy e n b) (n + k) (n * e) d).
  Proof.
    intros HR Ha Hs Hnr Hk Hmax Hd.
    pose proof (entry_own _ _ _ _ _ _ _ _ HR Ha Hs) as (H1 & H2 & H3 & H4 & H5 & H6 & H7 & H8 & _).
    unfold c_push_count. rewrite H2, H3. rewrite push_count_owner by lia.
    set (c1 := if a_balloc a <? e * (n + k) then c_resize junk c h a (n + k) else set_arr c h (with_cnt a (n + k))).
    assert (Hres : resized s h dy e n b (n + k) c1).
    { subst c1. destruct (a_balloc a <? e * (n + k)) eqn:Ec.
      - apply resize_resized; try assumption; lia.
      - apply setcnt_resized; try assumption; lia. }
    destruct (resized_wr c1 s h dy e n b (n + k) (n * e) d Hres ltac:(lia) ltac:(lia) H5 ltac:(nia) ltac:(nia)) as (a1 & Ha1 & HW).
    destruct (a_balloc a <? e * (n + k)) eqn:Ec; cbv beta iota; cbn [Z.eqb Pos.eqb]; fold c1; unfold cget; rewrite Ha1;
      replace (a_off a + e * n - a_off a) with (n * e) by lia; exact HW.
  Qed.

  Lemma sim_pushc c s h k d : R c s -> legal_step s (OPushCount h k d) = true -> sim c s (OPushCount h k d).
  Proof.
    intros HR HL. cbn [ArrayModel.legal_step] in HL. live1 h HR HL sa Hs a Ha. bools HL.
    destruct sa as [dy e n b|]; [|discriminate HL].
    assert (Hnr : rooted s h = false) by (destruct (rooted s h); [discriminate|reflexivity]). simpl in *.
    expose. unfold with1, swith1, cget. rewrite Ha, Hs. split; [|reflexivity]. cbn [fst s_cnt s_esz].
    apply push_count_R; try assumption; lia.
  Qed.

  Lemma sim_push c s h d : R c s -> legal_step s (OPush h d) = true -> sim c s (OPush h d).
  Proof.
    intros HR HL. cbn [ArrayModel.legal_step] in HL. live1 h HR HL sa Hs a Ha. bools HL.
    destruct sa as [dy e n b|]; [|discriminate HL].
    assert (Hnr : rooted s h = false) by (destruct (rooted s h); [discriminate|reflexivity]). simpl in *.
    expose. unfold with1, swith1, cget. rewrite Ha, Hs. split; [|reflexivity]. cbn [fst s_cnt s_esz].
    apply push_count_R; try assumption; lia.
  Qed.

  Lemma sim_pop c s h : R c s -> legal_step s (OPop h) = true -> sim c s (OPop h).
  Proof.
    intros HR HL. cbn [ArrayModel.legal_step] in HL. live1 h HR HL sa Hs a Ha. bools HL.
    destruct sa as [dy e n b|]; [|discriminate HL].
    assert (Hnr : rooted s h = false) by (destruct (rooted s h); [discriminate|reflexivity]). simpl in L.
    pose proof (entry_own _ _ _ _ _ _ _ _ HR Ha Hs) as Ho. destruct (own_is_owner _ _ _ _ _ _ Ho) as [Hio Hcapa].
    destruct Ho as (H1 & H2 & H3 & H4 & H5 & H6 & H7 & H8 & H9 & _).
    expose. unfold with1, swith1, cget. rewrite Ha, Hs. rewrite H2, H3. rewrite pop_owner by lia. cbv beta iota.
    cbn [fst snd s_cnt s_esz].
    replace (a_off a + e * (n - 1) - a_off a) with ((n - 1) * e) by lia.
    destruct (acc_rd c s h a _ ((n - 1) * e) e HR Ha Hs ltac:(nia) ltac:(lia) ltac:(simpl; nia)) as [Hacc Hrd].
    split.
    - unfold c_chk.
      replace (acc_ok (set_arr c h (with_cnt a (n - 1))) (with_cnt a (n - 1)) ((n - 1) * e) e) with (acc_ok c a ((n - 1) * e) e) by reflexivity.
      rewrite Hacc. apply (setcnt_R c s h a dy e n b (n - 1) HR Ha Hs Hnr). lia.
    - exact Hrd.
  Qed.

  Ltac live2 h1 h2 HR HL sa Hsa a Ha sb Hsb b Hb :=
    unfold lwith2 in HL; destruct (sget _ h1) as [sa|] eqn:Hsa; [|discriminate HL];
    destruct (sget _ h2) as [sb|] eqn:Hsb; [|discriminate HL];
    destruct (entry_some _ _ _ _ HR Hsa) as [a Ha]; destruct (entry_some _ _ _ _ HR Hsb) as [b Hb].

  Lemma len_content c s h a sa : R c s -> lget (c_arrs c) h = Some a -> sget s h = Some sa ->
    len (s_content s h sa) = s_cnt sa * s_esz sa.
  Proof.
    intros HR Ha Hs. destruct (content_eq _ _ _ _ _ HR Ha Hs) as [_ <-].
    destruct (esz_cnt _ _ _ _ _ HR Ha Hs) as (E1 & E2 & E3 & E4 & E5 & E6 & E7).
    destruct (acc_rd c s h a sa 0 (s_cnt sa * s_esz sa) HR Ha Hs ltac:(lia) ltac:(nia) ltac:(lia)) as [Hacc _].
    unfold acc_ok in Hacc. unfold c_content, c_rd. rewrite E1, E2. apply len_sub; first [nia|lia].
  Qed.

  Lemma c_resize_arrs c h a n : exists v, c_arrs (c_resize junk c h a n) = lset (c_arrs c) h v.
  Proof.
    unfold c_resize. destruct (sc_array_resize (a_esz a) (a_cnt a) (a_balloc a) n) as [[[cnt' balloc'] act] arg].
    destruct (act =? 1).
    - unfold c_reset. destruct (sc_array_reset (a_esz a) (a_cnt a) (a_balloc a) (a_off a)) as [[[x1 x2] x3] x4].
      eexists. unfold set_arr, set_arrs. simpl. destruct (x4 =? 5); [rewrite c_free_arrs|]; reflexivity.
    - destruct (act =? 2).
      + unfold c_realloc. destruct (a_blk a) as [|bk].
        * unfold c_malloc. cbv zeta. eexists. reflexivity.
        * destruct (arg =? 0).
          -- eexists. unfold set_arr, set_arrs. simpl. reflexivity.
          -- eexists. reflexivity.
      + eexists. reflexivity.
  Qed.

  Lemma s_content_frame s h v src sb : fst (s_root src sb) <> h -> s_content (s_set s h v) src sb = s_content s src sb.
  Proof.
    intros Hne. unfold s_content, s_rd. destruct (s_root src sb) as [r base]. simpl in Hne.
    unfold s_rbytes. rewrite sget_set_other by congruence. reflexivity.
  Qed.

  Lemma sim_copy c s dst src : R c s -> legal_step s (OCopy dst src) = true -> sim c s (OCopy dst src).
  Proof.
    intros HR HL. cbn [ArrayModel.legal_step] in HL. live2 dst src HR HL sa Hsa a Ha sb Hsb b Hb.
    apply andb_prop in HL. destruct HL as [HL Le]. apply andb_prop in HL. destruct HL as [Hof Lne].
    destruct (owner_free_own _ _ _ Hof) as (dy & e & n & bb & -> & Hnr). simpl in Le.
    assert (Hne : dst <> src) by (intros ->; rewrite Nat.eqb_refl in Lne; discriminate).
    destruct (esz_cnt _ _ _ _ _ HR Hb Hsb) as (E1 & E2 & E3 & E4 & E5 & E6 & E7).
    pose proof (entry_own _ _ _ _ _ _ _ _ HR Ha Hsa) as (H1 & H2 & H3 & H4 & H5 & H6 & _).
    assert (Hrt : fst (s_root src sb) <> dst).
    { destruct sb as [|dy' r boff e' n' cap]; simpl; [congruence|]. eapply (rooted_false _ _ Hnr); exact Hsb. }
    pose proof (len_content _ _ _ _ _ HR Hb Hsb) as Hlc.
    pose proof (resize_resized junk c s dst a dy e n bb (s_cnt sb) HR Ha Hsa Hnr ltac:(lia) ltac:(nia)) as Hres.
    destruct (resized_wr _ s dst dy e n bb (s_cnt sb) 0 (s_content s src sb) Hres ltac:(lia) ltac:(lia) H5 ltac:(nia) ltac:(nia)) as (a1 & Ha1 & HW).
    destruct Hres as (X & HR1 & _).
    destruct (c_resize_arrs c dst a (s_cnt sb)) as [v Hv].
    assert (Hb1 : lget (c_arrs (c_resize junk c dst a (s_cnt sb))) src = Some b).
    { rewrite Hv. rewrite lget_lset_other by exact Hne. exact Hb. }
    assert (Hsb1 : sget (s_set s dst (Some (SOwn dy e (s_cnt sb) X))) src = Some sb) by (rewrite sget_set_other by exact Hne; exact Hsb).
    destruct (content_eq _ _ _ _ _ HR1 Hb1 Hsb1) as [Hchk Hcont].
    rewrite s_content_frame in Hcont by exact Hrt.
    expose. unfold with2, swith2, cget. rewrite Ha, Hb, Hsa, Hsb. rewrite E1, E2.
    destruct ((s_cnt sb =? 0) || (s_esz sb =? 0)) eqn:Ez.
    - split; [|reflexivity]. cbn [fst]. assert (s_cnt sb = 0) by lia.
      rewrite (len0_nil (s_content s src sb)) in HW by nia. rewrite (len0_nil (s_content s src sb)) by nia. exact HW.
    - unfold cget. rewrite Ha1. split; [|reflexivity]. cbn [fst]. rewrite Hchk, Hcont. exact HW.
  Qed.

  Lemma sim_copyinto c s dst o src : R c s -> legal_step s (OCopyInto dst o src) = true -> sim c s (OCopyInto dst o src).
  Proof.
    intros HR HL. cbn [ArrayModel.legal_step] in HL. live2 dst src HR HL sa Hsa a Ha sb Hsb b Hb. bools HL.
    destruct (esz_cnt _ _ _ _ _ HR Ha Hsa) as (A1 & A2 & A3 & A4 & A5 & A6 & A7).
    destruct (esz_cnt _ _ _ _ _ HR Hb Hsb) as (E1 & E2 & E3 & E4 & E5 & E6 & E7).
    pose proof (len_content _ _ _ _ _ HR Hb Hsb) as Hlc.
    destruct (content_eq _ _ _ _ _ HR Hb Hsb) as [Hchk Hcont].
    expose. unfold with2, swith2, cget. rewrite Ha, Hb, Hsa, Hsb. rewrite E1, E2, A1.
    destruct ((s_cnt sb =? 0) || (s_esz sb =? 0)) eqn:Ez.
    - split; [|reflexivity]. cbn [fst]. rewrite (len0_nil (s_content s src sb)) by nia. exact HR.
    - split; [|reflexivity]. cbn [fst]. rewrite Hchk, Hcont.
      apply (write_R c s dst a sa _ _ HR Ha Hsa); nia.
  Qed.

  Lemma sim_move c s dst od src os n : R c s -> legal_step s (OMovePart dst od src os n) = true -> sim c s (OMovePart dst od src os n).
  Proof.
    intros HR HL. cbn [ArrayModel.legal_step] in HL. live2 dst src HR HL sa Hsa a Ha sb Hsb b Hb. bools HL.
    destruct (esz_cnt _ _ _ _ _ HR Ha Hsa) as (A1 & A2 & A3 & A4 & A5 & A6 & A7).
    destruct (esz_cnt _ _ _ _ _ HR Hb Hsb) as (E1 & E2 & E3 & E4 & E5 & E6 & E7).
    destruct (acc_rd c s src b sb (os * s_esz sb) (n * s_esz sb) HR Hb Hsb ltac:(nia) ltac:(nia) ltac:(nia)) as [Hacc Hrd].
    expose. unfold with2, swith2, cget. rewrite Ha, Hb, Hsa, Hsb. rewrite E1, A1.
    destruct ((n =? 0) || (s_esz sb =? 0)) eqn:Ez.
    - split; [|reflexivity]. cbn [fst]. assert (n = 0) by lia. subst n. rewrite Z.mul_0_l. unfold s_rd.
      destruct (s_root src sb). rewrite sub_nil_n. exact HR.
    - split; [|reflexivity]. cbn [fst]. unfold c_chk. rewrite Hacc, Hrd.
      assert (Hl : len (s_rd s src sb (os * s_esz sb) (n * s_esz sb)) = n * s_esz sb).
      { rewrite <- Hrd. unfold acc_ok in Hacc. unfold c_rd. apply len_sub; first [nia|lia]. }
      apply (write_R c s dst a sa _ _ HR Ha Hsa); nia.
  Qed.

  Lemma sim_memset c s h v : R c s -> legal_step s (OMemset h v) = true -> sim c s (OMemset h v).
  Proof.
    intros HR HL. cbn [ArrayModel.legal_step] in HL. live1 h HR HL sa Hs a Ha.
    destruct (esz_cnt _ _ _ _ _ HR Ha Hs) as (E1 & E2 & E3 & E4 & E5 & E6 & E7).
    expose. unfold with1, swith1, cget. rewrite Ha, Hs. rewrite E1, E2. split; [|reflexivity]. cbn [fst].
    apply (write_R c s h a sa _ _ HR Ha Hs); [lia|]. rewrite len_repeat. nia.
  Qed.

  Lemma sim_set c s h i d : R c s -> legal_step s (OSet h i d) = true -> sim c s (OSet h i d).
  Proof.
    intros HR HL. cbn [ArrayModel.legal_step] in HL. live1 h HR HL sa Hs a Ha. bools HL.
    destruct (esz_cnt _ _ _ _ _ HR Ha Hs) as (E1 & E2 & E3 & E4 & E5 & E6 & E7).
    expose. unfold with1, swith1, cget. rewrite Ha, Hs. rewrite E1, E2. rewrite index_val by nia.
    replace (a_off a + s_esz sa * i - a_off a) with (i * s_esz sa) by lia.
    split; [|reflexivity]. cbn [fst]. apply (write_R c s h a sa _ _ HR Ha Hs); nia.
  Qed.

  Lemma sim_index c s h i : R c s -> legal_step s (OIndex h i) = true -> sim c s (OIndex h i).
  Proof.
    intros HR HL. cbn [ArrayModel.legal_step] in HL. live1 h HR HL sa Hs a Ha. bools HL.
    destruct (esz_cnt _ _ _ _ _ HR Ha Hs) as (E1 & E2 & E3 & E4 & E5 & E6 & E7).
    expose. unfold with1, swith1, cget. rewrite Ha, Hs. rewrite E1, E2. rewrite index_val by nia. cbv zeta.
    replace (a_off a + s_esz sa * i - a_off a) with (i * s_esz sa) by lia.
    destruct (acc_rd c s h a sa (i * s_esz sa) (s_esz sa) HR Ha Hs ltac:(nia) ltac:(lia) ltac:(nia)) as [Hacc Hrd].
    unfold c_chk. rewrite Hacc. split; [exact HR|exact Hrd].
  Qed.

  (* ---------- element-level facts ------------------------------------------------------------------------------------ *)
  Lemma s_elems_forall c s h a sa : R c s -> lget (c_arrs c) h = Some a -> sget s h = Some sa ->
    Forall (fun x => len x = s_esz sa) (s_elems s h sa) /\ length (s_elems s h sa) = Z.to_nat (s_cnt sa).
  Proof.
    intros HR Ha Hs. destruct (esz_cnt _ _ _ _ _ HR Ha Hs) as (E1 & E2 & E3 & E4 & E5 & E6 & E7).
    pose proof (len_content _ _ _ _ _ HR Ha Hs) as Hl. unfold s_elems. split; [|apply elems_length].
    apply elems_forall; lia.
  Qed.

  Lemma perm_concat_len (l l' : list (list Z)) : Permutation l l' -> len (concat l) = len (concat l').
  Proof.
    induction 1; simpl; rewrite ?len_app; lia.
  Qed.

  Lemma concat_elems_len c s h a sa : R c s -> lget (c_arrs c) h = Some a -> sget s h = Some sa ->
    len (concat (s_elems s h sa)) = s_cnt sa * s_esz sa.
  Proof.
    intros HR Ha Hs. destruct (s_elems_forall _ _ _ _ _ HR Ha Hs) as [Hf Hlen].
    destruct (esz_cnt _ _ _ _ _ HR Ha Hs) as (E1 & E2 & E3 & E4 & E5 & E6 & E7).
    rewrite (len_concat_forall _ _ Hf). rewrite Hlen. lia.
  Qed.

  Lemma sim_sort c s h : R c s -> legal_step s (OSort h) = true -> sim c s (OSort h).
  Proof.
    intros HR HL. cbn [ArrayModel.legal_step] in HL. live1 h HR HL sa Hs a Ha.
    destruct (content_eq _ _ _ _ _ HR Ha Hs) as [Hchk _]. pose proof (elems_eq _ _ _ _ _ HR Ha Hs) as Hel.
    expose. unfold with1, swith1, cget. rewrite Ha, Hs. rewrite Hchk, Hel. split; [|reflexivity]. cbn [fst].
    apply (write_R c s h a sa _ _ HR Ha Hs); [lia|].
    rewrite (perm_concat_len _ _ (sort_perm _)). rewrite (concat_elems_len _ _ _ _ _ HR Ha Hs). lia.
  Qed.

  Lemma uniq_spec_incl l x : In x (uniq_spec cmp l) -> In x l.
  Proof.
    induction l as [|y r IH]; simpl; [auto|]. destruct r as [|z r'].
    - auto.
    - destruct (cmp y z =? 0).
      + intros H. right. apply IH. exact H.
      + intros [H|H]; [left; exact H|right; apply IH; exact H].
  Qed.

  Lemma uniq_spec_length l : (length (uniq_spec cmp l) <= length l)%nat.
  Proof.
    induction l as [|y r IH]; simpl; [lia|]. destruct r as [|z r'].
    - simpl. lia.
    - destruct (cmp y z =? 0); simpl in *; lia.
  Qed.

  Lemma lset_same {A} (l : list (option A)) h x : lget l h = Some x -> lset l h (Some x) = l.
  Proof.
    revert l; induction h as [|h IH]; intros [|y r]; unfold lget; simpl; try discriminate.
    - intros ->. reflexivity.
    - intros H. f_equal. apply IH. exact H.
  Qed.

  Lemma s_set_same s h x : sget s h = Some x -> s_set s h (Some x) = s.
  Proof. intros H. unfold s_set. rewrite (lset_same _ _ _ H). destruct s; reflexivity. Qed.

  Lemma c_wr_arrs c a p d : c_arrs (c_wr c a p d) = c_arrs c.
  Proof. unfold c_wr. destruct d; [reflexivity|]. unfold c_chk. destruct (acc_ok c a p (len (z :: d))); reflexivity. Qed.

  Lemma s_wr'_own s h dy e n b d : sget s h = Some (SOwn dy e n b) -> len d <= len b ->
    exists b1, s_wr' s h (SOwn dy e n b) 0 d = s_set s h (Some (SOwn dy e n b1)) /\ sub b1 0 (len d) = d.
  Proof.
    intros Hs Hl. unfold s_wr'. destruct d as [|x d'].
    - exists b. rewrite (s_set_same _ _ _ Hs). split; reflexivity.
    - unfold s_wr, s_root. rewrite Hs. eexists. split; [reflexivity|]. apply sub_upd_same; lia.
  Qed.

  Lemma sim_uniq c s h : R c s -> legal_step s (OUniq h) = true -> sim c s (OUniq h).
  Proof.
    intros HR HL. cbn [ArrayModel.legal_step] in HL. live1 h HR HL sa Hs a Ha.
    destruct (owner_free_own _ _ _ HL) as (dy & e & n & b & -> & Hnr).
    destruct (content_eq _ _ _ _ _ HR Ha Hs) as [Hchk _]. pose proof (elems_eq _ _ _ _ _ HR Ha Hs) as Hel.
    destruct (s_elems_forall _ _ _ _ _ HR Ha Hs) as [Hf Hlen]. simpl in Hf, Hlen.
    pose proof (entry_own _ _ _ _ _ _ _ _ HR Ha Hs) as (H1 & H2 & H3 & H4 & H5 & H6 & H7 & H8 & _).
    pose proof (own_X_len _ _ _ _ _ _ _ _ HR Ha Hs) as Hlb.
    expose. unfold with1, swith1, cget. rewrite Ha, Hs. rewrite H3. rewrite uniq_ok, Hel, Hchk.
    set (l := s_elems s h (SOwn dy e n b)) in *. set (l' := uniq_spec cmp l).
    assert (Hf' : Forall (fun x => len x = e) l').
    { apply Forall_forall. intros x Hx. rewrite Forall_forall in Hf. apply Hf. eapply uniq_spec_incl. exact Hx. }
    pose proof (uniq_spec_length l) as Hll. fold l' in Hll.
    pose proof (len_concat_forall _ _ Hf') as Hlc.
    destruct (n =? 0) eqn:En.
    - assert (Hn0 : n = 0) by lia. split; [|reflexivity]. cbn [fst].
      assert (Hl0 : l = []) by (destruct l; [reflexivity|simpl in Hlen; lia]).
      subst l'. rewrite Hl0. cbn [uniq_spec length concat s_resize_wr Z.of_nat Z.to_nat firstn app].
      rewrite (len0_nil b) in Hs by lia. rewrite Hn0 in Hs. rewrite (s_set_same _ _ _ Hs). exact HR.
    - split; [|reflexivity]. cbn [fst].
      set (d := concat l') in *. set (n' := Z.of_nat (length l')) in *.
      pose proof (write_R c s h a _ 0 d HR Ha Hs ltac:(lia) ltac:(simpl; nia)) as HW.
      set (c1 := c_wr c a 0 d) in *.
      assert (Ha1 : lget (c_arrs c1) h = Some a) by (subst c1; rewrite c_wr_arrs; exact Ha).
      assert (Hs1 : exists b1, s_wr' s h (SOwn dy e n b) 0 d = s_set s h (Some (SOwn dy e n b1)) /\ sub b1 0 (len d) = d).
      { apply s_wr'_own; [exact Hs|]. rewrite Hlb. nia. }
      destruct Hs1 as (b1 & Es1 & Hb1). rewrite Es1 in HW.
      assert (Hnr1 : rooted (s_set s h (Some (SOwn dy e n b1))) h = false) by (apply rooted_set; [exact Hnr|intros; discriminate]).
      assert (Hcr : can_resize (s_set s h (Some (SOwn dy e n b1))) h (SOwn dy e n b1) n' = true).
      { unfold can_resize. simpl. rewrite Hnr1. simpl. rewrite MAXB_val in *. nia. }
      destruct (resize_wr_R c1 _ h a _ n' (n' * e) [] HW Ha1 (sget_set_same _ _ _) Hcr ltac:(simpl; nia) ltac:(simpl; rewrite len_nil; lia)) as (a2 & Ha2 & HW2).
      rewrite c_wr_nil in HW2.
      replace (s_resize_wr s h (SOwn dy e n b) n' 0 d) with
          (s_resize_wr (s_set s h (Some (SOwn dy e n b1))) h (SOwn dy e n b1) n' (n' * e) []); [exact HW2|].
      unfold s_resize_wr. rewrite s_set_set. f_equal. f_equal. f_equal. rewrite app_nil_r. simpl.
      rewrite <- sub_0_firstn. replace (n' * e) with (len d) by lia. exact Hb1.
  Qed.

  Lemma sim_issorted c s h : R c s -> legal_step s (OIsSorted h) = true -> sim c s (OIsSorted h).
  Proof.
    intros HR HL. cbn [ArrayModel.legal_step] in HL. live1 h HR HL sa Hs a Ha.
    destruct (content_eq _ _ _ _ _ HR Ha Hs) as [Hchk _]. pose proof (elems_eq _ _ _ _ _ HR Ha Hs) as Hel.
    expose. unfold with1, swith1, cget. rewrite Ha, Hs, Hchk, Hel. split; [exact HR|reflexivity].
  Qed.

  Lemma sim_bsearch c s h key : R c s -> legal_step s (OBsearch h key) = true -> sim c s (OBsearch h key).
  Proof.
    intros HR HL. cbn [ArrayModel.legal_step] in HL. live1 h HR HL sa Hs a Ha.
    destruct (content_eq _ _ _ _ _ HR Ha Hs) as [Hchk _]. pose proof (elems_eq _ _ _ _ _ HR Ha Hs) as Hel.
    expose. unfold with1, swith1, cget. rewrite Ha, Hs, Hchk, Hel. split; [exact HR|reflexivity].
  Qed.

  Lemma sim_checksum c s h : R c s -> legal_step s (OChecksum h) = true -> sim c s (OChecksum h).
  Proof.
    intros HR HL. cbn [ArrayModel.legal_step] in HL. live1 h HR HL sa Hs a Ha.
    destruct (content_eq _ _ _ _ _ HR Ha Hs) as [Hchk Hc].
    destruct (esz_cnt _ _ _ _ _ HR Ha Hs) as (E1 & E2 & _).
    expose. unfold with1, swith1, cget. rewrite Ha, Hs, E2. destruct (s_cnt sa =? 0).
    - split; [exact HR|reflexivity].
    - rewrite Hchk, Hc. split; [exact HR|reflexivity].
  Qed.

  Lemma sim_isperm c s h : R c s -> legal_step s (OIsPerm h) = true -> sim c s (OIsPerm h).
  Proof.
    intros HR HL. cbn [ArrayModel.legal_step] in HL. live1 h HR HL sa Hs a Ha.
    destruct (content_eq _ _ _ _ _ HR Ha Hs) as [Hchk _]. pose proof (elems_eq _ _ _ _ _ HR Ha Hs) as Hel.
    expose. unfold with1, swith1, cget. rewrite Ha, Hs, Hchk, Hel. split; [|reflexivity]. cbn [fst].
    eapply R_ext; [exact HR| | | | |]; unfold add_counts; simpl; try reflexivity; lia.
  Qed.

  Lemma sim_isequal c s h1 h2 : R c s -> legal_step s (OIsEqual h1 h2) = true -> sim c s (OIsEqual h1 h2).
  Proof.
    intros HR HL. cbn [ArrayModel.legal_step] in HL. live2 h1 h2 HR HL sa Hsa a Ha sb Hsb b Hb.
    destruct (content_eq _ _ _ _ _ HR Ha Hsa) as [Hchka Hca]. destruct (content_eq _ _ _ _ _ HR Hb Hsb) as [Hchkb Hcb].
    destruct (esz_cnt _ _ _ _ _ HR Ha Hsa) as (A1 & A2 & _). destruct (esz_cnt _ _ _ _ _ HR Hb Hsb) as (E1 & E2 & _).
    expose. unfold with2, swith2, cget. rewrite Ha, Hb, Hsa, Hsb. rewrite A1, A2, E1, E2.
    destruct (s_esz sa =? s_esz sb); cbn [negb orb andb]; [|split; [exact HR|reflexivity]].
    destruct (s_cnt sa =? s_cnt sb); cbn [negb orb andb]; [|split; [exact HR|reflexivity]].
    rewrite Hchka, Hchkb, Hca, Hcb. split; [exact HR|reflexivity].
  Qed.

  (* ---------- two-array operations: split and permute --------------------------------------------------------------------- *)
  Lemma resize_mid c s h a sa n' : R c s -> lget (c_arrs c) h = Some a -> sget s h = Some sa -> can_resize s h sa n' = true ->
    exists v, R (c_resize junk c h a n') (s_set s h v).
  Proof.
    intros HR Ha Hs Hcr. destruct sa as [dy e n b|dy r boff e n cap].
    - destruct (can_resize_own _ _ _ _ _ _ _ Hcr) as (G1 & G2 & G3).
      destruct (resize_resized junk c s h a dy e n b n' HR Ha Hs G3 G1 G2) as (X & HX & _). eexists. exact HX.
    - destruct (can_resize_view _ _ _ _ _ _ _ _ _ Hcr) as (G1 & G2).
      eexists. eapply resize_view_R; eassumption.
  Qed.

  Lemma root_is_owner c s h sa : R c s -> sget s h = Some sa -> exists dy e n b, sget s (fst (s_root h sa)) = Some (SOwn dy e n b).
  Proof.
    intros HR Hs. destruct sa as [dy e n b|dy r boff e n cap]; simpl.
    - eauto.
    - destruct (entry_some _ _ _ _ HR Hs) as [a Ha].
      pose proof (entry_view _ _ _ _ _ _ _ _ _ _ HR Ha Hs) as (_ & _ & _ & _ & _ & _ & _ & _ & _ & _ & ra & rdyn & re & rn & rb & _ & Hrs & _).
      unfold sget. eauto.
  Qed.

  Lemma root_ne_other c s h sa p sp : R c s -> sget s h = Some sa -> sget s p = Some sp -> root_ne h sa p sp = true ->
    fst (s_root h sa) <> p.
  Proof.
    intros HR Hs Hp Hne E. destruct (root_is_owner _ _ _ _ HR Hs) as (dy & e & n & b & Ho). rewrite E in Ho.
    rewrite Hp in Ho. inversion Ho; subst sp. unfold root_ne in Hne. simpl in Hne. rewrite E, Nat.eqb_refl in Hne. discriminate.
  Qed.

  Lemma s_wr'_sget_other s h sa q d p : fst (s_root h sa) <> p -> sget (s_wr' s h sa q d) p = sget s p.
  Proof.
    intros Hne. unfold s_wr'. destruct d; [reflexivity|]. unfold s_wr. destruct (s_root h sa) as [r base]. simpl in Hne.
    destruct (sget s r) as [[dy e n b|]|]; try reflexivity. apply sget_set_other. exact Hne.
  Qed.

  Lemma len_le_enc n v : len (le_enc n v) = Z.of_nat n.
  Proof. revert v; induction n as [|n IH]; intros v; [reflexivity|]. cbn [le_enc]. specialize (IH (v / 256)). unfold len in *. cbn [length]. lia. Qed.

  Lemma len_concat_le64 (l : list Z) : len (concat (map le64_enc l)) = 8 * Z.of_nat (length l).
  Proof.
    induction l as [|x r IH]; [reflexivity|]. cbn [map concat length]. rewrite len_app, IH. unfold le64_enc. rewrite len_le_enc. lia.
  Qed.

  Lemma split_spec_length types T : length (split_spec types T) = S (Z.to_nat T).
  Proof. unfold split_spec. rewrite map_length, seq_length. reflexivity. Qed.

  Lemma sim_split c s h offs T : R c s -> legal_step s (OSplit h offs T) = true -> sim c s (OSplit h offs T).
  Proof.
    intros HR HL. cbn [ArrayModel.legal_step] in HL. live2 h offs HR HL sa Hsa a Ha sao Hsao ao Hao.
    apply andb_prop in HL. destruct HL as [HL Lt]. apply andb_prop in Lt. destruct Lt as [Lsorted Lrange].
    apply andb_prop in HL. destruct HL as [HL Lne]. apply andb_prop in HL. destruct HL as [HL Lcr].
    apply andb_prop in HL. destruct HL as [L8 LT].
    destruct (esz_cnt _ _ _ _ _ HR Hao Hsao) as (O1 & O2 & O3 & O4 & O5 & O6 & O7).
    assert (Hho : h <> offs).
    { intros ->. rewrite Hsa in Hsao. inversion Hsao; subst sao. unfold root_ne in Lne. rewrite Nat.eqb_refl in Lne. discriminate. }
    pose proof (root_ne_other _ _ _ _ _ _ HR Hsa Hsao Lne) as Hrt.
    destruct (resize_mid c s offs ao sao (T + 1) HR Hao Hsao Lcr) as [v HR1].
    destruct (c_resize_arrs c offs ao (T + 1)) as [w Hw].
    assert (Ha1 : lget (c_arrs (c_resize junk c offs ao (T + 1))) h = Some a).
    { rewrite Hw. rewrite lget_lset_other by congruence. exact Ha. }
    assert (Hsa1 : sget (s_set s offs v) h = Some sa) by (rewrite sget_set_other by congruence; exact Hsa).
    destruct (content_eq _ _ _ _ _ HR1 Ha1 Hsa1) as [Hchk _].
    pose proof (elems_eq _ _ _ _ _ HR1 Ha1 Hsa1) as Hel.
    assert (Hel2 : s_elems (s_set s offs v) h sa = s_elems s h sa) by (unfold s_elems; rewrite s_content_frame by exact Hrt; reflexivity).
    rewrite Hel2 in Hel.
    set (types := map tyf (s_elems s h sa)) in *.
    pose proof (split_ok types T ltac:(lia) Lsorted Lrange) as Hsp.
    set (d := concat (map le64_enc (split_spec types T))).
    assert (Hld : len d = (T + 1) * s_esz sao).
    { subst d. rewrite len_concat_le64, split_spec_length. lia. }
    destruct (resize_wr_R c s offs ao sao (T + 1) 0 d HR Hao Hsao Lcr ltac:(nia) ltac:(lia)) as (a1 & Hao1 & HW).
    expose. unfold with2, swith2, cget. rewrite Ha, Hao, Hsa, Hsao. unfold cget. rewrite Hao1, Hel. fold types. rewrite Hsp.
    split; [|reflexivity]. cbn [fst]. rewrite Hchk. exact HW.
  Qed.

  Lemma permute_spec_length (l : list (list Z)) ni : length (permute_spec l ni) = length l.
  Proof. unfold permute_spec. rewrite map_length, seq_length. reflexivity. Qed.

  Lemma sim_permute c s h p keep : R c s -> legal_step s (OPermute h p keep) = true -> sim c s (OPermute h p keep).
  Proof.
    intros HR HL. cbn [ArrayModel.legal_step] in HL. live2 h p HR HL sa Hsa a Ha sp Hsp ap Hap. bools HL.
    destruct (esz_cnt _ _ _ _ _ HR Ha Hsa) as (A1 & A2 & A3 & A4 & A5 & A6 & A7).
    destruct (esz_cnt _ _ _ _ _ HR Hap Hsp) as (P1 & P2 & P3 & P4 & P5 & P6 & P7).
    pose proof (root_ne_other _ _ _ _ _ _ HR Hsa Hsp L0) as Hrt.
    destruct (content_eq _ _ _ _ _ HR Ha Hsa) as [Hchka _]. destruct (content_eq _ _ _ _ _ HR Hap Hsp) as [Hchkp _].
    pose proof (elems_eq _ _ _ _ _ HR Ha Hsa) as Hela. pose proof (elems_eq _ _ _ _ _ HR Hap Hsp) as Help.
    destruct (s_elems_forall _ _ _ _ _ HR Ha Hsa) as [Hfa Hlena]. destruct (s_elems_forall _ _ _ _ _ HR Hap Hsp) as [Hfp Hlenp].
    set (l := s_elems s h sa) in *. set (ni := map le_dec (s_elems s p sp)) in *.
    assert (Hlni : length ni = length l) by (subst ni; rewrite map_length, Hlenp, Hlena; f_equal; lia).
    destruct (permute_ok l ni Hlni ltac:(lia)) as [Hpm Hpp].
    expose. unfold with2, swith2, cget. rewrite Ha, Hap, Hsa, Hsp. rewrite A2, Hela, Help. fold l ni.
    destruct (s_cnt sa =? 0) eqn:En.
    - (* empty: only the temporary allocation *)
      split; [|reflexivity]. cbn [fst].
      assert (Hl0 : l = []) by (destruct l; [reflexivity|simpl in Hlena; lia]).
      rewrite Hl0. cbn [permute_spec length seq map concat s_wr'].
      replace (if keep then s else match sget s p with Some _ | _ => s end) with s by (destruct keep; [reflexivity|rewrite Hsp; reflexivity]).
      eapply R_ext; [exact HR| | | | |]; unfold add_counts; simpl; try reflexivity; lia.
    - rewrite Hpm. split; [|reflexivity]. cbn [fst]. rewrite Hchka, Hchkp.
      set (l' := permute_spec l ni) in *.
      assert (Hld : len (concat l') = s_cnt sa * s_esz sa).
      { rewrite (perm_concat_len _ _ Hpp). subst l. apply (concat_elems_len _ _ _ _ _ HR Ha Hsa). }
      pose proof (write_R c s h a sa 0 (concat l') HR Ha Hsa ltac:(lia) ltac:(lia)) as HW1.
      set (c1 := c_wr c a 0 (concat l')) in *. set (s1 := s_wr' s h sa 0 (concat l')) in *.
      assert (Hap1 : lget (c_arrs c1) p = Some ap) by (subst c1; rewrite c_wr_arrs; exact Hap).
      assert (Hsp1 : sget s1 p = Some sp) by (subst s1; rewrite s_wr'_sget_other by exact Hrt; exact Hsp).
      destruct keep.
      + eapply R_ext; [exact HW1| | | | |]; unfold add_counts; simpl; try reflexivity; lia.
      + rewrite Hsp1.
        assert (Hl' : length l' = length l) by apply permute_spec_length.
        rewrite Hl'. rewrite <- (map_map Z.of_nat le64_enc).
        set (d2 := concat (map le64_enc (map Z.of_nat (seq 0 (length l))))).
        assert (Hld2 : len d2 = s_cnt sp * s_esz sp).
        { subst d2. rewrite len_concat_le64, map_length, seq_length, Hlena. lia. }
        pose proof (write_R c1 s1 p ap sp 0 d2 HW1 Hap1 Hsp1 ltac:(lia) ltac:(lia)) as HW2.
        eapply R_ext; [exact HW2| | | | |]; unfold add_counts; simpl; try reflexivity; lia.
  Qed.

  (* ---------- every legal step, every legal history ------------------------------------------------------------------------- *)
  Lemma exec_sim c s o : R c s -> legal_step s o = true -> sim c s o.
  Proof.
    intros HR HL. destruct o.
    - apply sim_init; assumption.
    - apply sim_initc; assumption.
    - apply sim_view; assumption.
    - apply sim_reshape; assumption.
    - apply sim_data; assumption.
    - apply sim_reset; assumption.
    - apply sim_destroy; assumption.
    - apply sim_drop; assumption.
    - apply sim_truncate; assumption.
    - apply sim_rewind; assumption.
    - apply sim_resize; assumption.
    - apply sim_pushc; assumption.
    - apply sim_push; assumption.
    - apply sim_pop; assumption.
    - apply sim_copy; assumption.
    - apply sim_copyinto; assumption.
    - apply sim_move; assumption.
    - apply sim_memset; assumption.
    - apply sim_set; assumption.
    - apply sim_index; assumption.
    - apply sim_sort; assumption.
    - apply sim_uniq; assumption.
    - apply sim_issorted; assumption.
    - apply sim_isequal; assumption.
    - apply sim_bsearch; assumption.
    - apply sim_checksum; assumption.
    - apply sim_isperm; assumption.
    - apply sim_split; assumption.
    - apply sim_permute; assumption.
  Qed.

  Lemma push_R c s x : R c s -> R (push_out c x) (s_out s x).
  Proof.
    intros [G1 G2 G3 G4 G5 G6 G7]. constructor; simpl; try assumption.
    rewrite G3. reflexivity.
  Qed.

  Notation c_step := (c_step junk cmp sort find adler_init adler_upd tyf).
  Notation s_step := (s_step cmp sort find adler_init adler_upd tyf).

  Lemma step_R c s o : R c s -> legal_step s o = true -> R (c_step c o) (s_step s o).
  Proof.
    intros HR HL. destruct (exec_sim c s o HR HL) as [H1 H2].
    unfold ArrayModel.c_step, ArrayModel.s_step. destruct (c_exec c o) as [c' x]. destruct (s_exec s o) as [s' y].
    simpl in *. subst y. apply push_R. exact H1.
  Qed.

  Lemma run_R ops : forall c s, R c s -> legal_from cmp sort find adler_init adler_upd tyf s ops = true -> R (fold_left c_step ops c) (fold_left s_step ops s).
  Proof.
    induction ops as [|o r IH]; intros c s HR HL; simpl in *; [exact HR|].
    apply andb_prop in HL. destruct HL as [H1 H2]. apply IH; [apply step_R; assumption|exact H2].
  Qed.

  (* observables agree *)
  Lemma R_obs c s h : R c s -> cobs c h = sobs s h.
  Proof.
    intros HR. unfold cobs, sobs, cget.
    destruct (sget s h) as [sa|] eqn:Hs.
    - destruct (entry_some _ _ _ _ HR Hs) as [a Ha]. rewrite Ha.
      destruct (esz_cnt _ _ _ _ _ HR Ha Hs) as (E1 & _). rewrite E1. f_equal. f_equal.
      apply (elems_eq _ _ _ _ _ HR Ha Hs).
    - rewrite (entry_none _ _ _ HR Hs). reflexivity.
  Qed.

  (* the concrete invariant, stated without reference to the abstract machine *)
  Definition Inv (c : cstate) : Prop :=
    (forall h a, lget (c_arrs c) h = Some a ->
       0 < a_esz a /\ 0 <= a_cnt a /\ 0 <= a_off a /\
       a_cnt a * a_esz a <= a_cap a /\                                     (* count * size <= allocation | view length *)
       a_off a + a_cap a <= len (hget (c_heap c) (a_blk a)) /\               (* and that lies inside the block *)
       (is_owner a = true -> a_off a = 0 /\ len (hget (c_heap c) (a_blk a)) = a_balloc a)) /\
    uniq_blk (c_arrs c) /\                                                   (* no block has two owners *)
    c_mallocs c - c_frees c = ledger (c_arrs c) /\                           (* exact allocation ledger *)
    c_bad c = false.                                                         (* no access outside an allocation or a view *)

  Lemma R_Inv c s : R c s -> Inv c.
  Proof.
    intros HR. split; [|split; [exact (R_uniq _ _ HR)|split; [exact (R_ledger _ _ HR)|exact (R_bad _ _ HR)]]].
    intros h a Ha. pose proof (R_entry _ _ HR h) as He. unfold entry_ok in He. rewrite Ha in He.
    destruct (sget s h) as [[dy e n b|dy r boff e n cap]|] eqn:Hs; try contradiction.
    - destruct (own_is_owner _ _ _ _ _ _ He) as [Hio Hcap].
      destruct He as (H1 & H2 & H3 & H4 & H5 & H6 & H7 & H8 & H9 & H10 & H11 & H12).
      rewrite Hcap, H2, H3, H4, H9. repeat split; try lia.
    - destruct (view_is_view _ _ _ _ _ _ _ _ _ He) as (Hio & Hcap & Hc0).
      destruct He as (H1 & H2 & H3 & H4 & H5 & H6 & H7 & H8 & H9 & H10 & ra & rdyn & re & rn & rb & Hra & Hrs & Hblk & Hrc).
      pose proof (entry_own _ _ _ _ _ _ _ _ HR Hra Hrs) as (G1 & G2 & G3 & G4 & G5 & G6 & G7 & G8 & G9 & _).
      rewrite Hcap, H2, H3, H5, Hblk, G9. repeat split; try lia; congruence.
  Qed.

  Theorem refinement ops : legal cmp sort find adler_init adler_upd tyf ops = true ->
    let c := run junk cmp sort find adler_init adler_upd tyf ops in
    let s := run_spec cmp sort find adler_init adler_upd tyf ops in
    (forall h, cobs c h = sobs s h) /\ c_outs c = s_outs s /\ Inv c.
  Proof.
    intros HL c s. assert (HR : R c s) by (apply run_R; [apply R_init|exact HL]).
    split; [intros h; apply R_obs; exact HR|]. split; [exact (R_outs _ _ HR)|]. eapply R_Inv; exact HR.
  Qed.
End Step.
