(* C08 - sc_array_permute: the slices GENERATED from the function body (Gen/ArrayPermC08.v, regenerated from
   sc_containers.c on every run) against the loop model of ArrayModel.v (permute_outer / permute_inner / swapn).
   * one unfolding of the inner loop of the model = generated condition + generated iteration (zj, zk, the store into newind),
   * the three generated memcpy calls (destination, source, byte count), executed on a byte memory in which the
     elements lie at carray + esize * i and the temporary element lies elsewhere, produce exactly `swapn l zi zk`
     - every byte of both elements is exchanged, for EVERY element size - and write nothing outside the two
     elements and the temporary, which is as large as the set-up slice allocates it,
   * one unfolding of the outer loop = generated condition + `zk = newind[zj]` + inner loop + generated tail,
   * set-up, empty test, choice of newind (in place / private copy of count * 8 bytes) as documented.
   Any edit of those lines changes a generated definition, and these lemmas no longer check. *)
From Coq Require Import ZArith Lia List Bool.
From ScV Require Import Base.CInt Gen.ArrayPermC08 C08.ArrayModel C08.ArrayLists C08.ArrayGen C08.ArrayAlgo.
Import ListNotations.
Local Open Scope Z_scope.

(* ---------- a byte memory: addresses -> bytes; memcpy reads the memory as it was before the call ------------------- *)
Definition mcpy (m : Z -> Z) (dst src n : Z) : Z -> Z :=
  fun a => if (dst <=? a) && (a <? dst + n) then m (src + (a - dst)) else m a.

(* the elements of l (each esz bytes) lie at base, base + esz, ... *)
Definition holds (m : Z -> Z) (base esz : Z) (l : list (list Z)) : Prop :=
  forall i j, (i < length l)%nat -> 0 <= j < esz -> m (base + esz * Z.of_nat i + j) = nth (Z.to_nat j) (nth i l []) 0.

(* ---------- the scalar slices --------------------------------------------------------------------------------- *)
Lemma gen_permute_setup e ret arr cnt : 0 <= e <= MAXB ->
  c8_permute_setup e ret arr cnt = (e, cnt, arr, ret, e).
Proof.
  intros H. rewrite MAXB_val in H. unfold c8_permute_setup. rewrite Z.mul_1_r.
  rewrite u64_id by (unfold M64; lia). reflexivity.
Qed.

Lemma gen_permute_empty count : c8_permute_empty count = (count =? 0).
Proof. unfold c8_permute_empty, z2b. rewrite negb_involutive. reflexivity. Qed.

Lemma gen_permute_newind keep p0 count ret p1 : 0 <= count -> count * 8 <= MAXB ->
  c8_permute_newind keep p0 count ret p1 =
  if keep =? 0 then (p0, 0, 0, 0, 0, 0, 0) else (ret, 1, count * 8, 1, ret, p1, count * 8).
Proof.
  intros H0 H. rewrite MAXB_val in H. unfold c8_permute_newind, z2b. rewrite negb_involutive.
  destruct (keep =? 0); [reflexivity|]. rewrite u64_id by (unfold M64; lia). reflexivity.
Qed.

Lemma gen_permute_init : c8_permute_init = (0, 0).
Proof. reflexivity. Qed.

Lemma gen_permute_outer_cond zi count : c8_permute_outer_cond zi count = (zi <? count).
Proof. reflexivity. Qed.

Lemma gen_permute_inner_cond zk zi : c8_permute_inner_cond zk zi = negb (zk =? zi).
Proof. reflexivity. Qed.

Lemma gen_permute_outer_pre v : c8_permute_outer_pre v = v.
Proof. reflexivity. Qed.

Lemma gen_permute_outer_post zi : 0 <= zi <= MAXB -> c8_permute_outer_post zi = (zi, zi + 1, zi + 1).
Proof.
  intros H. rewrite MAXB_val in H. unfold c8_permute_outer_post. rewrite u64_id by (unfold M64; lia). reflexivity.
Qed.

Lemma gen_permute_inner_step temp carray esize zk zi nzk :
  0 <= esize -> 0 <= zk -> 0 <= zi -> esize * zk <= MAXB -> esize * zi <= MAXB ->
  c8_permute_inner_step temp carray esize zk zi nzk =
  (zk, nzk, zk, temp, carray + esize * zk, esize, carray + esize * zk, carray + esize * zi, esize, carray + esize * zi, temp, esize).
Proof.
  intros He Hk Hi Bk Bi. rewrite MAXB_val in *. unfold c8_permute_inner_step.
  rewrite (u64_id (esize * zk)) by (unfold M64; nia).
  rewrite (u64_id (esize * zi)) by (unfold M64; nia). reflexivity.
Qed.

(* ---------- the model's loops, one unfolding each, in terms of the generated slices ------------------------------ *)
Theorem gen_permute_inner_eq f (l : list (list Z)) ni zi zj zk temp carray esize :
  0 <= esize -> 0 <= zi -> 0 <= zk -> esize * zi <= MAXB -> esize * zk <= MAXB ->
  permute_inner (S f) l ni zi zj zk =
  if c8_permute_inner_cond zk zi then
    let '(zj1, zk1, nzj, _, _, _, _, _, _, _, _, _) := c8_permute_inner_step temp carray esize zk zi (nthz ni zk) in
    permute_inner f (swapn l zi zk) (setn ni (Z.to_nat zj1) nzj) zi zj1 zk1
  else Some (l, ni, zj).
Proof.
  intros. rewrite gen_permute_inner_step by assumption. rewrite gen_permute_inner_cond.
  cbn [permute_inner]. destruct (zk =? zi); reflexivity.
Qed.

Theorem gen_permute_outer_eq f (l : list (list Z)) ni zi zj count :
  0 <= zi <= MAXB ->
  permute_outer (S f) l ni zi zj count =
  if c8_permute_outer_cond zi count then
    match permute_inner (S (Z.to_nat count)) l ni zi zj (c8_permute_outer_pre (nthz ni zj)) with
    | None => None
    | Some (l1, ni1, _) =>
      let '(nzi, zi1, zj1) := c8_permute_outer_post zi in permute_outer f l1 (setn ni1 (Z.to_nat zi) nzi) zi1 zj1 count
    end
  else Some (l, ni).
Proof.
  intros. rewrite gen_permute_outer_post by assumption. rewrite gen_permute_outer_cond, gen_permute_outer_pre.
  cbn [permute_outer]. reflexivity.
Qed.

Theorem gen_permute_model_eq (l : list (list Z)) ni :
  permute_model l ni = let '(zi, zj) := c8_permute_init in permute_outer (S (length l)) l ni zi zj (Z.of_nat (length l)).
Proof. reflexivity. Qed.

(* ---------- the three memcpy calls exchange the two elements, whole ------------------------------------------------ *)
Lemma swapn_length (l : list (list Z)) i k : length (swapn l i k) = length l.
Proof. unfold swapn. rewrite !setn_length. reflexivity. Qed.

Lemma elem_addr_inj esz i k j : 0 < esz -> 0 <= j < esz -> esz * k <= esz * i + j < esz * k + esz -> i = k.
Proof. intros. nia. Qed.

Theorem gen_permute_exchange m (l : list (list Z)) temp carray esize zi zk nzk :
  0 < esize -> (zi < length l)%nat -> (zk < length l)%nat -> zi <> zk ->
  esize * Z.of_nat (length l) <= MAXB ->
  (temp + esize <= carray \/ carray + esize * Z.of_nat (length l) <= temp) ->
  holds m carray esize l ->
  let '(_, _, _, d1, s1, n1, d2, s2, n2, d3, s3, n3) :=
    c8_permute_inner_step temp carray esize (Z.of_nat zk) (Z.of_nat zi) nzk in
  let m' := mcpy (mcpy (mcpy m d1 s1 n1) d2 s2 n2) d3 s3 n3 in
  holds m' carray esize (swapn l (Z.of_nat zi) (Z.of_nat zk)) /\
  (forall a, ~ (temp <= a < temp + esize) ->
             ~ (carray + esize * Z.of_nat zi <= a < carray + esize * Z.of_nat zi + esize) ->
             ~ (carray + esize * Z.of_nat zk <= a < carray + esize * Z.of_nat zk + esize) -> m' a = m a) /\
  d1 = temp /\ n1 = esize /\ s3 = temp /\ n3 = esize.
Proof.
  intros He Hi Hk Hne Hb Hd Hm.
  rewrite gen_permute_inner_step by nia.
  split; [|split; [|repeat split]].
  - intros i j Hil Hj. rewrite swapn_length in Hil.
    rewrite nth_swapn by assumption.
    unfold mcpy.
    destruct (Nat.eqb i zi) eqn:E1.
    + apply Nat.eqb_eq in E1. subst i.
      replace ((carray + esize * Z.of_nat zi <=? carray + esize * Z.of_nat zi + j) &&
               (carray + esize * Z.of_nat zi + j <? carray + esize * Z.of_nat zi + esize)) with true
        by (symmetry; apply andb_true_iff; split; [apply Z.leb_le|apply Z.ltb_lt]; lia).
      replace (temp + (carray + esize * Z.of_nat zi + j - (carray + esize * Z.of_nat zi))) with (temp + j) by lia.
      replace ((carray + esize * Z.of_nat zk <=? temp + j) && (temp + j <? carray + esize * Z.of_nat zk + esize)) with false
        by (symmetry; apply andb_false_iff; rewrite Z.leb_gt, Z.ltb_ge; nia).
      replace ((temp <=? temp + j) && (temp + j <? temp + esize)) with true
        by (symmetry; apply andb_true_iff; split; [apply Z.leb_le|apply Z.ltb_lt]; lia).
      replace (carray + esize * Z.of_nat zk + (temp + j - temp)) with (carray + esize * Z.of_nat zk + j) by lia.
      apply Hm; assumption.
    + apply Nat.eqb_neq in E1.
      replace ((carray + esize * Z.of_nat zi <=? carray + esize * Z.of_nat i + j) &&
               (carray + esize * Z.of_nat i + j <? carray + esize * Z.of_nat zi + esize)) with false
        by (symmetry; apply andb_false_iff; rewrite Z.leb_gt, Z.ltb_ge;
            destruct (Z_lt_le_dec (carray + esize * Z.of_nat i + j) (carray + esize * Z.of_nat zi)) as [|G1]; [left; assumption|];
            destruct (Z_lt_le_dec (carray + esize * Z.of_nat i + j) (carray + esize * Z.of_nat zi + esize)) as [G2|]; [|right; assumption];
            exfalso; apply E1; apply Nat2Z.inj; apply (elem_addr_inj esize _ _ j); lia).
      destruct (Nat.eqb i zk) eqn:E2.
      * apply Nat.eqb_eq in E2. subst i.
        replace ((carray + esize * Z.of_nat zk <=? carray + esize * Z.of_nat zk + j) &&
                 (carray + esize * Z.of_nat zk + j <? carray + esize * Z.of_nat zk + esize)) with true
          by (symmetry; apply andb_true_iff; split; [apply Z.leb_le|apply Z.ltb_lt]; lia).
        replace (carray + esize * Z.of_nat zi + (carray + esize * Z.of_nat zk + j - (carray + esize * Z.of_nat zk)))
          with (carray + esize * Z.of_nat zi + j) by lia.
        replace ((temp <=? carray + esize * Z.of_nat zi + j) && (carray + esize * Z.of_nat zi + j <? temp + esize)) with false
          by (symmetry; apply andb_false_iff; rewrite Z.leb_gt, Z.ltb_ge; nia).
        apply Hm; assumption.
      * apply Nat.eqb_neq in E2.
        replace ((carray + esize * Z.of_nat zk <=? carray + esize * Z.of_nat i + j) &&
                 (carray + esize * Z.of_nat i + j <? carray + esize * Z.of_nat zk + esize)) with false
          by (symmetry; apply andb_false_iff; rewrite Z.leb_gt, Z.ltb_ge;
              destruct (Z_lt_le_dec (carray + esize * Z.of_nat i + j) (carray + esize * Z.of_nat zk)) as [|G1]; [left; assumption|];
              destruct (Z_lt_le_dec (carray + esize * Z.of_nat i + j) (carray + esize * Z.of_nat zk + esize)) as [G2|]; [|right; assumption];
              exfalso; apply E2; apply Nat2Z.inj; apply (elem_addr_inj esize _ _ j); lia).
        replace ((temp <=? carray + esize * Z.of_nat i + j) && (carray + esize * Z.of_nat i + j <? temp + esize)) with false
          by (symmetry; apply andb_false_iff; rewrite Z.leb_gt, Z.ltb_ge; nia).
        apply Hm; assumption.
  - intros a Ht Hzi Hzk. unfold mcpy.
    replace ((carray + esize * Z.of_nat zi <=? a) && (a <? carray + esize * Z.of_nat zi + esize)) with false
      by (symmetry; apply andb_false_iff; rewrite Z.leb_gt, Z.ltb_ge; lia).
    replace ((carray + esize * Z.of_nat zk <=? a) && (a <? carray + esize * Z.of_nat zk + esize)) with false
      by (symmetry; apply andb_false_iff; rewrite Z.leb_gt, Z.ltb_ge; lia).
    replace ((temp <=? a) && (a <? temp + esize)) with false
      by (symmetry; apply andb_false_iff; rewrite Z.leb_gt, Z.ltb_ge; lia).
    reflexivity.
Qed.

(* the hypotheses of gen_permute_exchange are satisfiable and the conclusion is not vacuous: two elements of 128 bytes *)
Example gen_permute_exchange_128 :
  let l := [repeat 1 128; repeat 2 128] in
  let m := fun a => if a <? 1000 then 0 else if a <? 1128 then 1 else if a <? 1256 then 2 else 0 in
  let '(_, _, _, d1, s1, n1, d2, s2, n2, d3, s3, n3) := c8_permute_inner_step 0 1000 128 1 0 0 in
  let m' := mcpy (mcpy (mcpy m d1 s1 n1) d2 s2 n2) d3 s3 n3 in
  map m' [1000; 1127; 1128; 1255] = [2; 2; 1; 1].
Proof. vm_compute. reflexivity. Qed.
