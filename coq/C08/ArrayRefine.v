(* C08 - refinement: the concrete machine (heap of blocks, power-of-two reallocation, junk tails)
   simulates the reference machine (plain byte sequences and windows) on every legal history. *)
From Coq Require Import ZArith Lia List Bool ZifyBool Permutation.
From ScV Require Import Base.CInt Gen.Array C08.ArrayModel C08.ArrayLists C08.ArrayGen.
Import ListNotations.
Local Open Scope Z_scope.

(* ---------- the allocation ledger as seen from the array table ------------------------------------------ *)
Definition weight (x : option arr) : Z :=
  match x with
  | Some a => b2z (a_dyn a) + b2z (is_owner a && negb (Nat.eqb (a_blk a) 0))
  | None => 0
  end.
Fixpoint ledger (l : list (option arr)) : Z := match l with [] => 0 | x :: r => weight x + ledger r end.

Lemma ledger_lset l h v : ledger (lset l h v) = ledger l - weight (lget l h) + weight v.
Proof.
  revert l; induction h as [|h IH]; intros [|x r]; simpl; unfold lget; simpl; try lia.
  - specialize (IH []). rewrite IH. rewrite lget_nil. simpl. lia.
  - specialize (IH r). rewrite IH. unfold lget. lia.
Qed.

(* ---------- simulation relation ----------------------------------------------------------------------------- *)
Definition own_ok (H : list (option (list Z))) (a : arr) (dyn : bool) (e n : Z) (b : list Z) : Prop :=
  a_dyn a = dyn /\ a_esz a = e /\ a_cnt a = n /\ a_off a = 0 /\ 0 < e /\ 0 <= n /\
  0 <= a_balloc a <= MAXB /\ n * e <= a_balloc a /\ len (hget H (a_blk a)) = a_balloc a /\
  (a_blk a = O -> a_balloc a = 0) /\ (a_blk a < length H)%nat /\ b = sub (hget H (a_blk a)) 0 (n * e).

Definition view_ok (ca : list (option arr)) (sa : list (option sarr)) (a : arr) (dyn : bool) (r : nat) (boff e n cap : Z) : Prop :=
  a_dyn a = dyn /\ a_esz a = e /\ a_cnt a = n /\ a_balloc a = - (cap + 1) /\ a_off a = boff /\
  0 < e /\ 0 <= n /\ n * e <= cap /\ 0 <= boff /\ cap <= MAXB /\
  exists ra rdyn re rn rb, lget ca r = Some ra /\ lget sa r = Some (SOwn rdyn re rn rb) /\ a_blk a = a_blk ra /\ boff + cap <= rn * re.

Definition entry_ok (c : cstate) (s : sstate) (h : nat) : Prop :=
  match lget (c_arrs c) h, sget s h with
  | None, None => True
  | Some a, Some (SOwn dyn e n b) => own_ok (c_heap c) a dyn e n b
  | Some a, Some (SView dyn r boff e n cap) => view_ok (c_arrs c) (s_arrs s) a dyn r boff e n cap
  | _, _ => False
  end.

Definition uniq_blk (ca : list (option arr)) : Prop :=
  forall h1 h2 a1 a2, h1 <> h2 -> lget ca h1 = Some a1 -> lget ca h2 = Some a2 ->
    is_owner a1 = true -> is_owner a2 = true -> a_blk a1 <> O -> a_blk a1 <> a_blk a2.

Record R (c : cstate) (s : sstate) : Prop := mkR {
  R_entry : forall h, entry_ok c s h;
  R_uniq : uniq_blk (c_arrs c);
  R_outs : c_outs c = s_outs s;
  R_bad : c_bad c = false;
  R_ledger : c_mallocs c - c_frees c = ledger (c_arrs c);
  R_null : lget (c_heap c) 0 = None;
  R_heap1 : (1 <= length (c_heap c))%nat
}.

Lemma R_init : R c_init s_init.
Proof.
  constructor; simpl; try reflexivity; try lia.
  - intros h. unfold entry_ok, sget. simpl. rewrite !lget_nil. exact I.
  - intros h1 h2 a1 a2 _ H. rewrite lget_nil in H. discriminate.
Qed.

(* ---------- rooted ---------------------------------------------------------------------------------------------- *)
Lemma rooted_false s r : rooted s r = false ->
  forall h dy r' boff e n cap, sget s h = Some (SView dy r' boff e n cap) -> r' <> r.
Proof.
  unfold rooted. intros H h dy r' boff e n cap Hg Heq. subst r'.
  assert (Hex : existsb (fun x => match x with Some (SView _ r' _ _ _ _) => Nat.eqb r' r | _ => false end) (s_arrs s) = true).
  { apply existsb_exists. exists (Some (SView dy r boff e n cap)). split; [eapply lget_In; exact Hg|]. apply Nat.eqb_refl. }
  congruence.
Qed.

Lemma rooted_of_free c s h : R c s -> sget s h = None -> rooted s h = false.
Proof.
  intros HR Hf. destruct (rooted s h) eqn:E; [|reflexivity]. exfalso.
  unfold rooted in E. apply existsb_exists in E. destruct E as [x [Hin Hx]].
  destruct x as [[|dy r boff e n cap]|]; try discriminate.
  apply Nat.eqb_eq in Hx. subst r.
  destruct (In_lget _ _ Hin) as [k Hk].
  pose proof (R_entry _ _ HR k) as He. unfold entry_ok in He. unfold sget in He. rewrite Hk in He.
  destruct (lget (c_arrs c) k); [|contradiction].
  destruct He as (_ & _ & _ & _ & _ & _ & _ & _ & _ & _ & ra & rdyn & re & rn & rb & _ & Hs & _).
  unfold sget in Hf. congruence.
Qed.

(* ---------- frame lemma: only handle h changes its records; the heap grows and keeps the blocks of other owners -- *)
Lemma R_frame c s c' s' h :
  R c s ->
  (forall h', h' <> h -> lget (c_arrs c') h' = lget (c_arrs c) h') ->
  (forall h', h' <> h -> sget s' h' = sget s h') ->
  (forall h' a', h' <> h -> lget (c_arrs c) h' = Some a' -> is_owner a' = true ->
     hget (c_heap c') (a_blk a') = hget (c_heap c) (a_blk a')) ->
  (length (c_heap c) <= length (c_heap c'))%nat ->
  (rooted s h = false \/
   exists ra ra' dy dy' e n e' n' b b',
     lget (c_arrs c) h = Some ra /\ lget (c_arrs c') h = Some ra' /\ a_blk ra' = a_blk ra /\
     sget s h = Some (SOwn dy e n b) /\ sget s' h = Some (SOwn dy' e' n' b') /\ n' * e' = n * e) ->
  entry_ok c' s' h ->
  (forall h2 a1 a2, h2 <> h -> lget (c_arrs c') h = Some a1 -> lget (c_arrs c') h2 = Some a2 ->
     is_owner a1 = true -> is_owner a2 = true ->
     (a_blk a1 <> O -> a_blk a1 <> a_blk a2) /\ (a_blk a2 <> O -> a_blk a2 <> a_blk a1)) ->
  c_outs c' = s_outs s' -> c_bad c' = false -> c_mallocs c' - c_frees c' = ledger (c_arrs c') ->
  lget (c_heap c') 0 = None ->
  R c' s'.
Proof.
  intros HR Hc Hs Hheap Hlen Hroot Hh Hu Ho Hb Hl Hn.
  pose proof (R_heap1 _ _ HR) as Hh1.
  constructor; try assumption; [| |lia].
  - intros k. destruct (Nat.eq_dec k h) as [->|Hk]; [exact Hh|].
    pose proof (R_entry _ _ HR k) as He. unfold entry_ok in *. rewrite (Hc k Hk), (Hs k Hk).
    destruct (lget (c_arrs c) k) as [a|] eqn:Ea; destruct (sget s k) as [[dy e n b|dy r boff e n cap]|] eqn:Es; try exact He.
    + (* owner *)
      destruct He as (H1 & H2 & H3 & H4 & H5 & H6 & H7 & H8 & H9 & H10 & H11 & H12).
      assert (Hown : is_owner a = true) by (unfold is_owner; lia).
      rewrite <- (Hheap k a Hk Ea Hown) in H9, H12.
      repeat split; try assumption; try lia.
    + (* view *)
      destruct He as (H1 & H2 & H3 & H4 & H5 & H6 & H7 & H8 & H9 & H10 & ra & rdyn & re & rn & rb & Hra & Hrs & Hblk & Hcap).
      repeat split; try assumption.
      destruct (Nat.eq_dec r h) as [->|Hr].
      * destruct Hroot as [Hnr|(ra0 & ra' & dy0 & dy' & e0 & n0 & e' & n' & b0 & b' & G1 & G2 & G3 & G4 & G5 & G6)].
        { exfalso. eapply (rooted_false _ _ Hnr); [exact Es|reflexivity]. }
        unfold sget in G4. rewrite Hrs in G4. inversion G4; subst. rewrite Hra in G1. inversion G1; subst.
        exists ra', dy', e', n', b'. unfold sget in G5. repeat split; try assumption; try congruence; try lia.
      * exists ra, rdyn, re, rn, rb. rewrite (Hc r Hr). pose proof (Hs r Hr) as Hs2. unfold sget in Hs2. rewrite Hs2.
        repeat split; assumption.
  - intros h1 h2 a1 a2 Hne G1 G2 O1 O2 Hb1.
    destruct (Nat.eq_dec h1 h) as [->|H1]; [|destruct (Nat.eq_dec h2 h) as [->|H2]].
    + apply (Hu h2 a1 a2); try assumption. congruence.
    + intros Heq. destruct (Hu h1 a2 a1 H1 G2 G1 O2 O1) as [_ Hx]. apply (Hx Hb1). exact Heq.
    + rewrite (Hc h1 H1) in G1. rewrite (Hc h2 H2) in G2. exact (R_uniq _ _ HR h1 h2 a1 a2 Hne G1 G2 O1 O2 Hb1).
Qed.

(* ---------- reading through an array: in bounds, and equal to the reference ------------------------------------ *)
Lemma entry_own c s h a dy e n b : R c s -> lget (c_arrs c) h = Some a -> sget s h = Some (SOwn dy e n b) ->
  own_ok (c_heap c) a dy e n b.
Proof. intros HR Ha Hs. pose proof (R_entry _ _ HR h) as He. unfold entry_ok in He. rewrite Ha, Hs in He. exact He. Qed.

Lemma entry_view c s h a dy r boff e n cap : R c s -> lget (c_arrs c) h = Some a -> sget s h = Some (SView dy r boff e n cap) ->
  view_ok (c_arrs c) (s_arrs s) a dy r boff e n cap.
Proof. intros HR Ha Hs. pose proof (R_entry _ _ HR h) as He. unfold entry_ok in He. rewrite Ha, Hs in He. exact He. Qed.

Lemma entry_some c s h sa : R c s -> sget s h = Some sa -> exists a, lget (c_arrs c) h = Some a.
Proof.
  intros HR Hs. pose proof (R_entry _ _ HR h) as He. unfold entry_ok in He. rewrite Hs in He.
  destruct (lget (c_arrs c) h) as [a|]; [exists a; reflexivity|contradiction].
Qed.

Lemma entry_none c s h : R c s -> sget s h = None -> lget (c_arrs c) h = None.
Proof.
  intros HR Hs. pose proof (R_entry _ _ HR h) as He. unfold entry_ok in He. rewrite Hs in He.
  destruct (lget (c_arrs c) h) as [a|]; [contradiction|reflexivity].
Qed.

Lemma own_is_owner H a dy e n b : own_ok H a dy e n b -> is_owner a = true /\ a_cap a = a_balloc a.
Proof. intros (_ & _ & _ & _ & _ & _ & Hb & _). unfold a_cap, is_owner. destruct (0 <=? a_balloc a) eqn:E; [auto|lia]. Qed.

Lemma view_is_view ca sa a dy r boff e n cap : view_ok ca sa a dy r boff e n cap -> is_owner a = false /\ a_cap a = cap /\ 0 <= cap.
Proof.
  intros (_ & _ & _ & Hb & _ & He & Hn & Hc & _). assert (0 <= cap) by nia.
  unfold a_cap, is_owner. destruct (0 <=? a_balloc a) eqn:E; [lia|]. repeat split; lia.
Qed.

Lemma acc_rd c s h a sa p n : R c s -> lget (c_arrs c) h = Some a -> sget s h = Some sa ->
  0 <= p -> 0 <= n -> p + n <= s_cnt sa * s_esz sa ->
  acc_ok c a p n = true /\ c_rd c a p n = s_rd s h sa p n.
Proof.
  intros HR Ha Hs Hp Hn Hpn. destruct sa as [dy e n0 b|dy r boff e n0 cap]; simpl in Hpn.
  - pose proof (entry_own _ _ _ _ _ _ _ _ HR Ha Hs) as Ho.
    destruct (own_is_owner _ _ _ _ _ _ Ho) as [Hio Hcap].
    destruct Ho as (H1 & H2 & H3 & H4 & H5 & H6 & H7 & H8 & H9 & H10 & H11 & H12).
    split.
    + unfold acc_ok. rewrite Hcap, H4, H9. lia.
    + unfold c_rd, s_rd, s_root, s_rbytes. rewrite Hs, H4, H12. rewrite sub_sub by lia. reflexivity.
  - pose proof (entry_view _ _ _ _ _ _ _ _ _ _ HR Ha Hs) as Hv.
    destruct (view_is_view _ _ _ _ _ _ _ _ _ Hv) as (Hio & Hcap & Hc0).
    destruct Hv as (H1 & H2 & H3 & H4 & H5 & H6 & H7 & H8 & H9 & H10 & ra & rdyn & re & rn & rb & Hra & Hrs & Hblk & Hrc).
    pose proof (entry_own _ _ _ _ _ _ _ _ HR Hra Hrs) as (G1 & G2 & G3 & G4 & G5 & G6 & G7 & G8 & G9 & G10 & G11 & G12).
    split.
    + unfold acc_ok. rewrite Hcap, H5, Hblk, G9. lia.
    + unfold c_rd, s_rd, s_root, s_rbytes. unfold sget. rewrite Hrs, H5, Hblk, G12. rewrite sub_sub by lia. reflexivity.
Qed.

Lemma chk_ok c s h a sa p n : R c s -> lget (c_arrs c) h = Some a -> sget s h = Some sa ->
  0 <= p -> 0 <= n -> p + n <= s_cnt sa * s_esz sa -> c_chk c a p n = c.
Proof. intros. unfold c_chk. destruct (acc_rd c s h a sa p n) as [-> _]; auto. Qed.

Lemma esz_cnt c s h a sa : R c s -> lget (c_arrs c) h = Some a -> sget s h = Some sa ->
  a_esz a = s_esz sa /\ a_cnt a = s_cnt sa /\ a_dyn a = s_dyn sa /\ 0 < s_esz sa /\ 0 <= s_cnt sa /\ s_cnt sa * s_esz sa <= MAXB /\
  is_owner a = s_isown sa.
Proof.
  intros HR Ha Hs. destruct sa as [dy e n0 b|dy r boff e n0 cap]; simpl.
  - pose proof (entry_own _ _ _ _ _ _ _ _ HR Ha Hs) as Ho. destruct (own_is_owner _ _ _ _ _ _ Ho) as [Hio _].
    destruct Ho as (H1 & H2 & H3 & H4 & H5 & H6 & H7 & H8 & _). repeat split; try assumption; lia.
  - pose proof (entry_view _ _ _ _ _ _ _ _ _ _ HR Ha Hs) as Hv. destruct (view_is_view _ _ _ _ _ _ _ _ _ Hv) as (Hio & _ & _).
    destruct Hv as (H1 & H2 & H3 & H4 & H5 & H6 & H7 & H8 & H9 & H10 & _). repeat split; try assumption; lia.
Qed.

Lemma content_eq c s h a sa : R c s -> lget (c_arrs c) h = Some a -> sget s h = Some sa ->
  c_chk_all c a = c /\ c_content c a = s_content s h sa.
Proof.
  intros HR Ha Hs. destruct (esz_cnt _ _ _ _ _ HR Ha Hs) as (E1 & E2 & _ & E3 & E4 & _).
  unfold c_chk_all, c_content, s_content. rewrite E1, E2. split.
  - eapply chk_ok; eauto; nia.
  - eapply acc_rd; eauto; nia.
Qed.

Lemma elems_eq c s h a sa : R c s -> lget (c_arrs c) h = Some a -> sget s h = Some sa ->
  c_elems c a = s_elems s h sa.
Proof.
  intros HR Ha Hs. destruct (esz_cnt _ _ _ _ _ HR Ha Hs) as (E1 & E2 & _). destruct (content_eq _ _ _ _ _ HR Ha Hs) as [_ Hc].
  unfold c_elems, s_elems. rewrite E1, E2, Hc. reflexivity.
Qed.

(* ---------- writing ------------------------------------------------------------------------------------------------ *)
Lemma hget_lset_same H b v : hget (lset H b (Some v)) b = v.
Proof. unfold hget. rewrite lget_lset_same. reflexivity. Qed.
Lemma hget_lset_other H b b' v : b <> b' -> hget (lset H b v) b' = hget H b'.
Proof. intros. unfold hget. rewrite lget_lset_other by assumption. reflexivity. Qed.

(* a write into the valid prefix of root r's block *)
Lemma root_write c s r ra dy e n b q d :
  R c s -> lget (c_arrs c) r = Some ra -> sget s r = Some (SOwn dy e n b) ->
  0 <= q -> q + len d <= n * e -> d <> [] ->
  R (set_heap c (lset (c_heap c) (a_blk ra) (Some (upd (hget (c_heap c) (a_blk ra)) q d))))
    (s_set s r (Some (SOwn dy e n (upd b q d)))).
Proof.
  intros HR Ha Hs Hq Hqd Hd.
  pose proof (entry_own _ _ _ _ _ _ _ _ HR Ha Hs) as Ho. destruct (own_is_owner _ _ _ _ _ _ Ho) as [Hio _].
  destruct Ho as (H1 & H2 & H3 & H4 & H5 & H6 & H7 & H8 & H9 & H10 & H11 & H12).
  assert (Hld : 0 < len d) by (destruct d; [congruence|unfold len; simpl; lia]).
  assert (Hblk : a_blk ra <> O) by (intros E; specialize (H10 E); lia).
  apply (R_frame c s _ _ r HR); simpl.
  - intros; reflexivity.
  - intros h' Hh'. unfold sget, s_set. simpl. apply lget_lset_other. congruence.
  - intros h' a' Hh' Ha' Ho'. apply hget_lset_other. intros E.
    apply (R_uniq _ _ HR r h' ra a'); auto.
  - rewrite length_lset by exact H11. lia.
  - right. exists ra, ra, dy, dy, e, n, e, n, b, (upd b q d). unfold sget, s_set. simpl. rewrite lget_lset_same.
    repeat split; auto.
  - unfold entry_ok, sget, s_set. simpl. rewrite Ha, lget_lset_same.
    unfold own_ok. rewrite hget_lset_same. rewrite length_lset by exact H11.
    repeat split; try assumption; try lia.
    + rewrite len_upd by lia. exact H9.
    + rewrite sub_upd_prefix by lia. rewrite <- H12. reflexivity.
  - intros h2 a1 a2 Hne G1 G2 O1 O2. rewrite Ha in G1. inversion G1; subst a1. split.
    + intros Hb. apply (R_uniq _ _ HR r h2 ra a2); auto.
    + intros Hb E. apply (R_uniq _ _ HR h2 r a2 ra); auto.
  - exact (R_outs _ _ HR).
  - exact (R_bad _ _ HR).
  - exact (R_ledger _ _ HR).
  - rewrite lget_lset_other by exact Hblk. exact (R_null _ _ HR).
Qed.

Lemma write_R c s h a sa p d :
  R c s -> lget (c_arrs c) h = Some a -> sget s h = Some sa ->
  0 <= p -> p + len d <= s_cnt sa * s_esz sa ->
  R (c_wr c a p d) (s_wr' s h sa p d).
Proof.
  intros HR Ha Hs Hp Hpd. unfold c_wr, s_wr'. destruct d as [|x d']; [exact HR|]. set (d := x :: d') in *.
  assert (Hd : d <> []) by (subst d; congruence).
  rewrite (chk_ok c s h a sa p (len d) HR Ha Hs Hp (len_nonneg d) Hpd).
  destruct sa as [dy e n0 b|dy r boff e n0 cap]; simpl in Hpd.
  - pose proof (entry_own _ _ _ _ _ _ _ _ HR Ha Hs) as (H1 & H2 & H3 & H4 & _).
    unfold s_wr, s_root. rewrite Hs, H4.
    apply (root_write c s h a dy e n0 b (0 + p) d HR Ha Hs); auto; lia.
  - pose proof (entry_view _ _ _ _ _ _ _ _ _ _ HR Ha Hs) as
        (H1 & H2 & H3 & H4 & H5 & H6 & H7 & H8 & H9 & H10 & ra & rdyn & re & rn & rb & Hra & Hrs & Hblk & Hrc).
    unfold s_wr, s_root. unfold sget. rewrite Hrs, H5, Hblk.
    apply (root_write c s r ra rdyn re rn rb (boff + p) d HR Hra Hrs); auto; lia.
Qed.

(* ---------- allocation primitives ------------------------------------------------------------------------------------ *)
Lemma rooted_not_owner c s h : R c s -> (forall dy e n b, sget s h <> Some (SOwn dy e n b)) -> rooted s h = false.
Proof.
  intros HR Hf. destruct (rooted s h) eqn:E; [|reflexivity]. exfalso.
  unfold rooted in E. apply existsb_exists in E. destruct E as [x [Hin Hx]].
  destruct x as [[|dy r boff e n cap]|]; try discriminate.
  apply Nat.eqb_eq in Hx. subst r.
  destruct (In_lget _ _ Hin) as [k Hk].
  pose proof (R_entry _ _ HR k) as He. unfold entry_ok in He. unfold sget in He. rewrite Hk in He.
  destruct (lget (c_arrs c) k); [|contradiction].
  destruct He as (_ & _ & _ & _ & _ & _ & _ & _ & _ & _ & ra & rdyn & re & rn & rb & _ & Hs & _).
  eapply Hf. unfold sget. exact Hs.
Qed.

Lemma c_free_arrs c b : c_arrs (c_free c b) = c_arrs c.  Proof. destruct b; reflexivity. Qed.
Lemma c_free_outs c b : c_outs (c_free c b) = c_outs c.  Proof. destruct b; reflexivity. Qed.
Lemma c_free_bad c b : c_bad (c_free c b) = c_bad c.  Proof. destruct b; reflexivity. Qed.
Lemma c_free_mallocs c b : c_mallocs (c_free c b) = c_mallocs c.  Proof. destruct b; simpl; lia. Qed.
Lemma c_free_frees c b : c_frees (c_free c b) = c_frees c + b2z (negb (Nat.eqb b 0)).
Proof. destruct b; simpl; lia. Qed.
Lemma c_free_heap c b : c_heap (c_free c b) = match b with O => c_heap c | S _ => lset (c_heap c) b None end.
Proof. destruct b; reflexivity. Qed.
Lemma c_free_heap_other c b b' : b' <> b -> hget (c_heap (c_free c b)) b' = hget (c_heap c) b'.
Proof. intros. rewrite c_free_heap. destruct b; [reflexivity|]. apply hget_lset_other. congruence. Qed.
Lemma c_free_heap_len c b : (b < length (c_heap c))%nat -> length (c_heap (c_free c b)) = length (c_heap c).
Proof. intros. rewrite c_free_heap. destruct b; [reflexivity|]. apply length_lset. assumption. Qed.
Lemma c_free_null c b : lget (c_heap c) 0 = None -> lget (c_heap (c_free c b)) 0 = None.
Proof. intros. rewrite c_free_heap. destruct b; [assumption|]. rewrite lget_lset_other by congruence. assumption. Qed.

Lemma hget_null H : lget H 0 = None -> hget H 0 = [].
Proof. unfold hget. intros ->. reflexivity. Qed.

Lemma reset_R c s h a sa :
  R c s -> lget (c_arrs c) h = Some a -> sget s h = Some sa -> (s_isown sa = true -> rooted s h = false) ->
  R (c_reset c h a) (s_reset s h sa).
Proof.
  intros HR Ha Hs Hroot.
  destruct (esz_cnt _ _ _ _ _ HR Ha Hs) as (E1 & E2 & E3 & E4 & E5 & E6 & E7).
  unfold c_reset. rewrite reset_val. fold (is_owner a).
  assert (Hnr : rooted s h = false).
  { destruct sa as [dy e n b|dy r boff e n cap]; [apply Hroot; reflexivity|].
    apply (rooted_not_owner c s h HR). intros; congruence. }
  assert (Hblk : is_owner a = true -> (a_blk a < length (c_heap c))%nat /\
                 forall h' a', h' <> h -> lget (c_arrs c) h' = Some a' -> is_owner a' = true -> a_blk a <> O -> a_blk a' <> a_blk a).
  { intros Hio. destruct sa as [dy e n b|dy r boff e n cap]; [|simpl in E7; congruence].
    pose proof (entry_own _ _ _ _ _ _ _ _ HR Ha Hs) as (H1 & H2 & H3 & H4 & H5 & H6 & H7 & H8 & H9 & H10 & H11 & H12).
    split; [exact H11|]. intros h' a' Hne Ha' Ho' Hb E.
    apply (R_uniq _ _ HR h h' a a'); auto. }
  set (c1 := if (if is_owner a then 5 else 0) =? 5 then c_free c (a_blk a) else c).
  assert (Harrs : c_arrs c1 = c_arrs c) by (subst c1; destruct (is_owner a); simpl; [apply c_free_arrs|reflexivity]).
  apply (R_frame c s _ _ h HR); unfold set_arr, set_arrs, s_reset, s_set, sget; simpl.
  - intros h' Hh'. rewrite Harrs. apply lget_lset_other. congruence.
  - intros h' Hh'. apply lget_lset_other. congruence.
  - intros h' a' Hh' Ha' Ho'. subst c1. destruct (is_owner a) eqn:Eo; simpl; [|reflexivity].
    destruct (Hblk eq_refl) as [_ Hu]. destruct (Nat.eq_dec (a_blk a) 0) as [Ez|Ez]; [rewrite Ez; reflexivity|].
    apply c_free_heap_other. apply (Hu h' a'); auto.
  - subst c1. destruct (is_owner a) eqn:Eo; simpl; [|lia]. destruct (Hblk eq_refl) as [Hl _].
    rewrite c_free_heap_len by exact Hl. lia.
  - left. exact Hnr.
  - unfold entry_ok, sget. simpl. rewrite !lget_lset_same. unfold own_ok. simpl.
    assert (Hn0 : lget (c_heap c1) 0 = None).
    { subst c1. destruct (is_owner a); simpl; [apply c_free_null|]; exact (R_null _ _ HR). }
    rewrite (hget_null _ Hn0).
    assert (Hl1 : (1 <= length (c_heap c1))%nat).
    { subst c1. pose proof (R_heap1 _ _ HR). destruct (is_owner a) eqn:Eo; simpl; [|lia].
      destruct (Hblk eq_refl) as [Hl _]. rewrite c_free_heap_len by exact Hl. lia. }
    rewrite MAXB_val. repeat split; try assumption; try lia; try reflexivity.
  - intros h2 a1 a2 Hne G1 G2 O1 O2. rewrite lget_lset_same in G1. inversion G1; subst a1. simpl. split; congruence.
  - subst c1. destruct (is_owner a); simpl; [rewrite c_free_outs|]; exact (R_outs _ _ HR).
  - subst c1. destruct (is_owner a); simpl; [rewrite c_free_bad|]; exact (R_bad _ _ HR).
  - rewrite Harrs, ledger_lset, Ha. pose proof (R_ledger _ _ HR) as HL. unfold weight. simpl. rewrite E3.
    subst c1. destruct (is_owner a) eqn:Eo; simpl.
    + rewrite c_free_mallocs, c_free_frees. unfold is_owner. simpl. lia.
    + unfold is_owner. simpl. lia.
  - subst c1. destruct (is_owner a); simpl; [apply c_free_null|]; exact (R_null _ _ HR).
Qed.

Section Sim.
  Variable junk : nat -> Z -> Z.

  Lemma mkjunk_from_length b i n : length (mkjunk_from junk b i n) = n.
  Proof. revert i; induction n as [|n IH]; intros i; simpl; [reflexivity|]. rewrite IH. reflexivity. Qed.
  Lemma mkjunk_length b f n : length (mkjunk junk b f n) = n.
  Proof. apply mkjunk_from_length. Qed.

  (* ---------- sc_array_resize ---------------------------------------------------------------------------------------- *)
  Lemma resize_view_R c s h a dy r boff e n cap n' :
    R c s -> lget (c_arrs c) h = Some a -> sget s h = Some (SView dy r boff e n cap) ->
    0 <= n' -> n' * e <= cap ->
    R (c_resize junk c h a n') (s_set s h (Some (SView dy r boff e n' cap))).
  Proof.
    intros HR Ha Hs Hn Hcap.
    pose proof (entry_view _ _ _ _ _ _ _ _ _ _ HR Ha Hs) as Hv.
    destruct (view_is_view _ _ _ _ _ _ _ _ _ Hv) as (Hio & Hcapa & Hc0).
    destruct Hv as (H1 & H2 & H3 & H4 & H5 & H6 & H7 & H8 & H9 & H10 & ra & rdyn & re & rn & rb & Hra & Hrs & Hblk & Hrc).
    unfold c_resize. rewrite resize_view by lia. simpl.
    assert (Hrh : r <> h) by (intros ->; unfold sget in Hs; congruence).
    apply (R_frame c s _ _ h HR); unfold set_arr, set_arrs, s_set, sget; simpl.
    - intros h' Hh'. apply lget_lset_other. congruence.
    - intros h' Hh'. apply lget_lset_other. congruence.
    - reflexivity.
    - lia.
    - left. apply (rooted_not_owner c s h HR). intros; congruence.
    - unfold entry_ok, sget. simpl. rewrite !lget_lset_same. unfold view_ok. simpl.
      repeat split; try assumption; try lia.
      exists ra, rdyn, re, rn, rb. rewrite !lget_lset_other by congruence. repeat split; assumption.
    - intros h2 a1 a2 Hne G1 G2 O1 O2. rewrite lget_lset_same in G1. inversion G1; subst a1.
      unfold is_owner in O1. simpl in O1. lia.
    - exact (R_outs _ _ HR).
    - exact (R_bad _ _ HR).
    - rewrite ledger_lset, Ha. pose proof (R_ledger _ _ HR). unfold weight, is_owner in *. simpl.
      destruct (0 <=? a_balloc a) eqn:E; [lia|]. simpl. lia.
    - exact (R_null _ _ HR).
  Qed.

  Lemma resize_own_R c s h a dy e n b n' :
    R c s -> lget (c_arrs c) h = Some a -> sget s h = Some (SOwn dy e n b) -> rooted s h = false ->
    0 <= n' -> n' * e <= MAXB ->
    exists X, R (c_resize junk c h a n') (s_set s h (Some (SOwn dy e n' X))) /\
              (forall p, 0 <= p <= Z.min n n' * e -> firstn (Z.to_nat p) X = firstn (Z.to_nat p) b).
  Proof.
    intros HR Ha Hs Hnr Hn Hmax.
    pose proof (entry_own _ _ _ _ _ _ _ _ HR Ha Hs) as Ho. destruct (own_is_owner _ _ _ _ _ _ Ho) as [Hio Hcapa].
    destruct Ho as (H1 & H2 & H3 & H4 & H5 & H6 & H7 & H8 & H9 & H10 & H11 & H12).
    unfold c_resize. rewrite H2, H3. rewrite resize_owner by lia.
    destruct (n' =? 0) eqn:En.
    { (* reset *)
      simpl. exists []. assert (n' = 0) by lia. subst n'. split.
      - apply (reset_R c s h a (SOwn dy e n b) HR Ha Hs). intros _. exact Hnr.
      - intros p Hp. replace p with 0 by lia. reflexivity. }
    cbv zeta. assert (Hpos : 0 < n' * e) by nia.
    destruct (roundup_u64_correct (n' * e)) as [[Hr1 _] Hr2]; [lia|].
    set (r := roundup_u64 (n' * e)) in *.
    assert (Hu : forall h' a', h' <> h -> lget (c_arrs c) h' = Some a' -> is_owner a' = true -> a_blk a <> O -> a_blk a' <> a_blk a).
    { intros h' a' Hne Ha' Ho' Hb E. apply (R_uniq _ _ HR h h' a a'); auto. }
    destruct ((a_balloc a <? n' * e) || (r <? a_balloc a)) eqn:Ec.
    - (* reallocation to r bytes *)
      simpl. unfold c_realloc.
      destruct (a_blk a) as [|bk] eqn:Eb.
      + (* first allocation *)
        assert (Hb0 : a_balloc a = 0) by (apply H10; reflexivity).
        unfold c_malloc. cbv zeta.
        set (nb := length (c_heap c)).
        set (blk := mkjunk junk nb 0 (Z.to_nat r)).
        exists (sub blk 0 (n' * e)). split.
        * apply (R_frame c s _ _ h HR); unfold set_arr, set_arrs, add_counts, set_heap, s_set, sget; simpl.
          -- intros h' Hh'. apply lget_lset_other. congruence.
          -- intros h' Hh'. apply lget_lset_other. congruence.
          -- intros h' a' Hh' Ha' Ho'. unfold hget. rewrite lget_app_l; [reflexivity|].
             pose proof (R_entry _ _ HR h') as He. unfold entry_ok in He. rewrite Ha' in He.
             destruct (sget s h') as [[dy' e' n0' b'|]|]; try contradiction.
             ++ destruct He as (_ & _ & _ & _ & _ & _ & _ & _ & _ & _ & G & _). exact G.
             ++ destruct (view_is_view _ _ _ _ _ _ _ _ _ He) as (G & _). congruence.
          -- rewrite app_length. lia.
          -- left. exact Hnr.
          -- unfold entry_ok, sget. simpl. rewrite !lget_lset_same. unfold own_ok. simpl.
             unfold hget. subst nb. rewrite lget_app_len.
             assert (Hlb : len blk = r) by (unfold len; subst blk; rewrite mkjunk_length; lia).
             rewrite app_length. simpl.
             pose proof (R_heap1 _ _ HR). repeat split; try assumption; try lia.
          -- intros h2 a1 a2 Hne G1 G2 O1 O2. rewrite lget_lset_same in G1. inversion G1; subst a1. simpl.
             rewrite lget_lset_other in G2 by congruence.
             assert (Hlt : (a_blk a2 < nb)%nat).
             { pose proof (R_entry _ _ HR h2) as He. unfold entry_ok in He. rewrite G2 in He.
               destruct (sget s h2) as [[dy' e' n0' b'|]|]; try contradiction.
               ++ destruct He as (_ & _ & _ & _ & _ & _ & _ & _ & _ & _ & G & _). exact G.
               ++ destruct (view_is_view _ _ _ _ _ _ _ _ _ He) as (G & _). congruence. }
             split; intros; lia.
          -- exact (R_outs _ _ HR).
          -- exact (R_bad _ _ HR).
          -- rewrite ledger_lset, Ha. pose proof (R_ledger _ _ HR) as HL. unfold weight, is_owner in *. simpl. rewrite Eb.
             subst nb. pose proof (R_heap1 _ _ HR).
             destruct (0 <=? a_balloc a) eqn:E1; [|lia]. destruct (0 <=? r) eqn:E2; [|lia].
             destruct (length (c_heap c)) eqn:E3; [lia|]. simpl. lia.
          -- pose proof (R_heap1 _ _ HR). rewrite lget_app_l by lia. exact (R_null _ _ HR).
        * intros p Hp. assert (n * e = 0) by lia. assert (p = 0) by nia. subst p. reflexivity.
      + (* true reallocation: fresh block, min (old, new) bytes kept *)
        rewrite <- Eb in *.
        assert (Hr0 : (r =? 0) = false) by lia. rewrite Hr0.
        set (old := hget (c_heap c) (a_blk a)).
        set (keep := firstn (Z.to_nat r) old).
        set (nb := length (c_heap c)).
        set (blk := keep ++ mkjunk junk nb (length keep) (Z.to_nat r - length keep)).
        assert (Hlk : len keep = Z.min r (a_balloc a)).
        { unfold len. subst keep. rewrite firstn_length. fold old in H9. unfold len in H9. lia. }
        assert (Hlb : len blk = r).
        { unfold len. subst blk. rewrite app_length, mkjunk_length. unfold len in Hlk. lia. }
        exists (sub blk 0 (n' * e)). split.
        * apply (R_frame c s _ _ h HR); unfold set_arr, set_arrs, add_counts, set_heap, s_set, sget; simpl.
          -- intros h' Hh'. apply lget_lset_other. congruence.
          -- intros h' Hh'. apply lget_lset_other. congruence.
          -- intros h' a' Hh' Ha' Ho'. unfold hget.
             assert (Hlt : (a_blk a' < length (c_heap c))%nat).
             { pose proof (R_entry _ _ HR h') as He. unfold entry_ok in He. rewrite Ha' in He.
               destruct (sget s h') as [[dy' e' n0' b'|]|]; try contradiction.
               ++ destruct He as (_ & _ & _ & _ & _ & _ & _ & _ & _ & _ & G & _). exact G.
               ++ destruct (view_is_view _ _ _ _ _ _ _ _ _ He) as (G & _). congruence. }
             rewrite lget_app_l by (rewrite length_lset by exact H11; exact Hlt).
             rewrite lget_lset_other; [reflexivity|]. intros E. apply (Hu h' a'); auto. congruence.
          -- rewrite app_length, length_lset by exact H11. lia.
          -- left. exact Hnr.
          -- unfold entry_ok, sget. simpl. rewrite !lget_lset_same. unfold own_ok. simpl.
             assert (Hget : lget (lset (c_heap c) (a_blk a) None ++ [Some blk]) nb = Some blk).
             { subst nb. rewrite <- (length_lset (c_heap c) (a_blk a) None H11). apply lget_app_len. }
             unfold hget. rewrite Hget. rewrite app_length, length_lset by exact H11. simpl. fold nb.
             pose proof (R_heap1 _ _ HR). repeat split; try assumption; try lia.
          -- intros h2 a1 a2 Hne G1 G2 O1 O2. rewrite lget_lset_same in G1. inversion G1; subst a1. simpl.
             rewrite lget_lset_other in G2 by congruence.
             assert (Hlt : (a_blk a2 < nb)%nat).
             { pose proof (R_entry _ _ HR h2) as He. unfold entry_ok in He. rewrite G2 in He.
               destruct (sget s h2) as [[dy' e' n0' b'|]|]; try contradiction.
               ++ destruct He as (_ & _ & _ & _ & _ & _ & _ & _ & _ & _ & G & _). exact G.
               ++ destruct (view_is_view _ _ _ _ _ _ _ _ _ He) as (G & _). congruence. }
             fold nb. split; intros; lia.
          -- exact (R_outs _ _ HR).
          -- exact (R_bad _ _ HR).
          -- rewrite ledger_lset, Ha. pose proof (R_ledger _ _ HR) as HL. unfold weight, is_owner in *. simpl.
             pose proof (R_heap1 _ _ HR).
             destruct (0 <=? a_balloc a) eqn:E1; [|lia]. destruct (0 <=? r) eqn:E2; [|lia].
             destruct (length (c_heap c)) eqn:E3; [lia|]. rewrite Eb. simpl. lia.
          -- pose proof (R_heap1 _ _ HR). rewrite lget_app_l by (rewrite length_lset by exact H11; lia).
             rewrite lget_lset_other by (rewrite Eb; congruence). exact (R_null _ _ HR).
        * intros p Hp. rewrite H12. fold old. assert (p <= n * e /\ p <= n' * e) as [Hp1 Hp2] by nia.
          rewrite !firstn_sub_prefix by nia. subst blk.
          rewrite sub_app_l by lia. subst keep. rewrite <- sub_0_firstn. rewrite sub_sub by lia. reflexivity.
    - (* the allocation is kept *)
      simpl. exists (sub (hget (c_heap c) (a_blk a)) 0 (n' * e)). split.
      + apply (R_frame c s _ _ h HR); unfold set_arr, set_arrs, s_set, sget; simpl.
        * intros h' Hh'. apply lget_lset_other. congruence.
        * intros h' Hh'. apply lget_lset_other. congruence.
        * reflexivity.
        * lia.
        * left. exact Hnr.
        * unfold entry_ok, sget. simpl. rewrite !lget_lset_same. unfold own_ok. simpl.
          repeat split; try assumption; try lia.
        * intros h2 a1 a2 Hne G1 G2 O1 O2. rewrite lget_lset_same in G1. inversion G1; subst a1. simpl.
          rewrite lget_lset_other in G2 by congruence. split.
          -- intros Hb. apply (R_uniq _ _ HR h h2 a a2); auto.
          -- intros Hb E. apply (R_uniq _ _ HR h2 h a2 a); auto.
        * exact (R_outs _ _ HR).
        * exact (R_bad _ _ HR).
        * rewrite ledger_lset, Ha. pose proof (R_ledger _ _ HR) as HL. unfold weight, is_owner in *. simpl. rewrite H1. lia.
        * exact (R_null _ _ HR).
      + intros p Hp. rewrite H12. rewrite !firstn_sub_prefix by nia. reflexivity.
  Qed.

End Sim.

  (* the reference state after a count change of an owner: some X that agrees with the old bytes on the surviving prefix *)
  Definition resized (s : sstate) (h : nat) (dy : bool) (e n : Z) (b : list Z) (n' : Z) (c1 : cstate) : Prop :=
    exists X, R c1 (s_set s h (Some (SOwn dy e n' X))) /\
              (forall p, 0 <= p <= Z.min n n' * e -> firstn (Z.to_nat p) X = firstn (Z.to_nat p) b).

  Lemma s_set_set s h v v' : s_set (s_set s h v) h v' = s_set s h v'.
  Proof.
    unfold s_set. simpl. f_equal.
    generalize (s_arrs s). induction h as [|h IH]; intros [|x r]; simpl; try reflexivity; rewrite IH; reflexivity.
  Qed.

  Lemma sget_set_same s h v : sget (s_set s h v) h = v.
  Proof. unfold sget, s_set. simpl. apply lget_lset_same. Qed.
  Lemma sget_set_other s h h' v : h <> h' -> sget (s_set s h v) h' = sget s h'.
  Proof. intros. unfold sget, s_set. simpl. apply lget_lset_other. assumption. Qed.

  Lemma resized_wr c1 s h dy e n b n' p d :
    resized s h dy e n b n' c1 -> 0 <= n -> 0 <= n' -> 0 < e -> 0 <= p <= Z.min n n' * e -> p + len d = n' * e ->
    exists a1, lget (c_arrs c1) h = Some a1 /\ R (c_wr c1 a1 p d) (s_resize_wr s h (SOwn dy e n b) n' p d).
  Proof.
    intros (X & HR1 & Hpre) Hn Hn' He Hp Hpd.
    destruct (entry_some c1 _ h _ HR1 (sget_set_same _ _ _)) as [a1 Ha1]. exists a1. split; [exact Ha1|].
    pose proof (entry_own _ _ _ _ _ _ _ _ HR1 Ha1 (sget_set_same _ _ _)) as (_ & _ & _ & _ & _ & _ & _ & Hb & Hl & _ & _ & HX).
    assert (HlX : len X = n' * e) by (rewrite HX; apply len_sub; lia).
    pose proof (write_R c1 _ h a1 _ p d HR1 Ha1 (sget_set_same _ _ _) ltac:(lia) ltac:(simpl; lia)) as HW.
    replace (s_resize_wr s h (SOwn dy e n b) n' p d) with (s_wr' (s_set s h (Some (SOwn dy e n' X))) h (SOwn dy e n' X) p d); [exact HW|].
    unfold s_resize_wr, s_wr'. destruct d as [|x d'].
    - rewrite app_nil_r. f_equal. f_equal. f_equal. rewrite <- (Hpre p ltac:(lia)).
      symmetry. apply firstn_len_le. unfold len in *. simpl in Hpd. lia.
    - unfold s_wr, s_root. rewrite sget_set_same. rewrite s_set_set. f_equal. f_equal. f_equal.
      rewrite Z.add_0_l. rewrite upd_app_tail by lia. rewrite (Hpre p ltac:(lia)). reflexivity.
  Qed.

  Lemma resize_resized junk c s h a dy e n b n' :
    R c s -> lget (c_arrs c) h = Some a -> sget s h = Some (SOwn dy e n b) -> rooted s h = false ->
    0 <= n' -> n' * e <= MAXB -> resized s h dy e n b n' (c_resize junk c h a n').
  Proof. intros. unfold resized. eapply resize_own_R; eassumption. Qed.

  (* count change without touching the allocation (pop, truncate, rewind, fast path of push_count) *)
  Lemma setcnt_resized c s h a dy e n b n' :
    R c s -> lget (c_arrs c) h = Some a -> sget s h = Some (SOwn dy e n b) -> rooted s h = false ->
    0 <= n' -> n' * e <= a_balloc a -> resized s h dy e n b n' (set_arr c h (with_cnt a n')).
  Proof.
    intros HR Ha Hs Hnr Hn Hfit.
    pose proof (entry_own _ _ _ _ _ _ _ _ HR Ha Hs) as Ho. destruct (own_is_owner _ _ _ _ _ _ Ho) as [Hio Hcapa].
    destruct Ho as (H1 & H2 & H3 & H4 & H5 & H6 & H7 & H8 & H9 & H10 & H11 & H12).
    exists (sub (hget (c_heap c) (a_blk a)) 0 (n' * e)). split.
    - apply (R_frame c s _ _ h HR); unfold set_arr, set_arrs, s_set, sget, with_cnt; simpl.
      + intros h' Hh'. apply lget_lset_other. congruence.
      + intros h' Hh'. apply lget_lset_other. congruence.
      + reflexivity.
      + lia.
      + left. exact Hnr.
      + unfold entry_ok, sget. simpl. rewrite !lget_lset_same. unfold own_ok. simpl.
        repeat split; try assumption; try lia.
      + intros h2 a1 a2 Hne G1 G2 O1 O2. rewrite lget_lset_same in G1. inversion G1; subst a1. simpl.
        rewrite lget_lset_other in G2 by congruence. split.
        * intros Hb. apply (R_uniq _ _ HR h h2 a a2); auto.
        * intros Hb E. apply (R_uniq _ _ HR h2 h a2 a); auto.
      + exact (R_outs _ _ HR).
      + exact (R_bad _ _ HR).
      + rewrite ledger_lset, Ha. pose proof (R_ledger _ _ HR) as HL. unfold weight, is_owner in *. simpl. lia.
      + exact (R_null _ _ HR).
    - intros p Hp. rewrite H12. assert (p <= n * e /\ p <= n' * e) as [Hp1 Hp2] by nia.
      rewrite !firstn_sub_prefix by nia. reflexivity.
  Qed.

  (* ---------- creation and removal of handles ---------------------------------------------------------------------------- *)
  Lemma In_lset {A} (l : list (option A)) h v y : In (Some y) (lset l h v) -> Some y = v \/ In (Some y) l.
  Proof.
    revert l; induction h as [|h IH]; intros [|x r]; simpl.
    - intros [E|[]]; auto.
    - intros [E|E]; auto.
    - intros [E|E]; [discriminate|]. destruct (IH [] E) as [G|G]; auto.
    - intros [E|E]; auto. destruct (IH r E) as [G|G]; auto.
  Qed.

  Lemma rooted_set s h v r : rooted s r = false ->
    (forall dy r' boff e n cap, v = Some (SView dy r' boff e n cap) -> r' <> r) -> rooted (s_set s h v) r = false.
  Proof.
    intros Hr Hv. destruct (rooted (s_set s h v) r) eqn:E; [|reflexivity]. exfalso.
    unfold rooted in E. apply existsb_exists in E. destruct E as [x [Hin Hx]].
    destruct x as [[|dy r' boff e n cap]|]; try discriminate.
    apply Nat.eqb_eq in Hx. subst r'. unfold s_set in Hin. simpl in Hin.
    destruct (In_lset _ _ _ _ Hin) as [G|G].
    - eapply Hv; [symmetry; exact G|reflexivity].
    - unfold rooted in Hr. assert (Hex : existsb (fun x => match x with Some (SView _ r' _ _ _ _) => Nat.eqb r' r | _ => false end) (s_arrs s) = true).
      { apply existsb_exists. eexists. split; [exact G|]. apply Nat.eqb_refl. }
      congruence.
  Qed.

  Lemma lset_lset {A} (l : list (option A)) h v v' : lset (lset l h v) h v' = lset l h v'.
  Proof. revert l; induction h as [|h IH]; intros [|x r]; simpl; try reflexivity; rewrite IH; reflexivity. Qed.

  Lemma blk_lt c s h a : R c s -> lget (c_arrs c) h = Some a -> is_owner a = true -> (a_blk a < length (c_heap c))%nat.
  Proof.
    intros HR Ha Ho. pose proof (R_entry _ _ HR h) as He. unfold entry_ok in He. rewrite Ha in He.
    destruct (sget s h) as [[dy' e' n0' b'|]|]; try contradiction.
    - destruct He as (_ & _ & _ & _ & _ & _ & _ & _ & _ & _ & G & _). exact G.
    - destruct (view_is_view _ _ _ _ _ _ _ _ _ He) as (G & _). congruence.
  Qed.

  Lemma create_own_R junk c s h dyn e n (m : bool) :
    R c s -> sget s h = None -> 0 < e -> 0 <= n -> n * e <= MAXB -> (m = false -> n = 0) ->
    exists X, R (let c1 := alloc_struct c dyn in
                 let '(c2, blk) := if m then c_malloc junk c1 (e * n) else (c1, O) in
                 set_arr c2 h (mkarr dyn e n (if m then e * n else 0) blk 0))
                (s_set s h (Some (SOwn dyn e n X))).
  Proof.
    intros HR Hf He Hn Hmax Hm.
    pose proof (entry_none _ _ _ HR Hf) as Hc. pose proof (R_heap1 _ _ HR) as Hh1.
    set (c1 := alloc_struct c dyn).
    assert (A1 : c_arrs c1 = c_arrs c) by (subst c1; unfold alloc_struct; destruct dyn; reflexivity).
    assert (A2 : c_heap c1 = c_heap c) by (subst c1; unfold alloc_struct; destruct dyn; reflexivity).
    assert (A3 : c_outs c1 = c_outs c) by (subst c1; unfold alloc_struct; destruct dyn; reflexivity).
    assert (A4 : c_bad c1 = c_bad c) by (subst c1; unfold alloc_struct; destruct dyn; reflexivity).
    assert (A5 : c_mallocs c1 - c_frees c1 = c_mallocs c - c_frees c + b2z dyn) by (subst c1; unfold alloc_struct; destruct dyn; simpl; lia).
    destruct m; cbv zeta.
    - unfold c_malloc. cbv zeta. rewrite A2.
      set (nb := length (c_heap c)). set (blk := mkjunk junk nb 0 (Z.to_nat (e * n))).
      exists (sub blk 0 (n * e)).
      apply (R_frame c s _ _ h HR); unfold set_arr, set_arrs, add_counts, set_heap, s_set, sget; simpl; rewrite ?A1, ?A2, ?A3, ?A4.
      + intros h' Hh'. apply lget_lset_other. congruence.
      + intros h' Hh'. apply lget_lset_other. congruence.
      + intros h' a' Hh' Ha' Ho'. unfold hget. rewrite lget_app_l; [reflexivity|]. eapply blk_lt; eassumption.
      + rewrite app_length. lia.
      + left. eapply rooted_of_free; eassumption.
      + unfold entry_ok, sget. simpl. rewrite !lget_lset_same. unfold own_ok. simpl.
        unfold hget. subst nb. rewrite lget_app_len.
        assert (Hlb : len blk = e * n) by (unfold len; subst blk; rewrite mkjunk_length; nia).
        rewrite app_length. simpl. repeat split; try assumption; try lia; try nia.
      + intros h2 a1 a2 Hne G1 G2 O1 O2. rewrite lget_lset_same in G1. inversion G1; subst a1. simpl.
        rewrite lget_lset_other in G2 by congruence.
        pose proof (blk_lt _ _ _ _ HR G2 O2). fold nb in H. split; intros; lia.
      + exact (R_outs _ _ HR).
      + exact (R_bad _ _ HR).
      + rewrite ledger_lset, Hc. pose proof (R_ledger _ _ HR) as HL. unfold weight, is_owner. simpl.
        destruct (0 <=? e * n) eqn:E1; [|nia]. subst nb. destruct (length (c_heap c)) eqn:E3; [lia|]. simpl. lia.
      + rewrite lget_app_l by lia. exact (R_null _ _ HR).
    - specialize (Hm eq_refl). subst n. exists [].
      apply (R_frame c s _ _ h HR); unfold set_arr, set_arrs, s_set, sget; simpl; rewrite ?A1, ?A2, ?A3, ?A4.
      + intros h' Hh'. apply lget_lset_other. congruence.
      + intros h' Hh'. apply lget_lset_other. congruence.
      + reflexivity.
      + lia.
      + left. eapply rooted_of_free; eassumption.
      + unfold entry_ok, sget. simpl. rewrite !lget_lset_same. unfold own_ok. simpl.
        rewrite (hget_null _ (R_null _ _ HR)). rewrite MAXB_val. repeat split; try assumption; try lia; try reflexivity.
      + intros h2 a1 a2 Hne G1 G2 O1 O2. rewrite lget_lset_same in G1. inversion G1; subst a1. simpl. split; congruence.
      + exact (R_outs _ _ HR).
      + exact (R_bad _ _ HR).
      + rewrite ledger_lset, Hc. pose proof (R_ledger _ _ HR) as HL. unfold weight, is_owner. simpl. lia.
      + exact (R_null _ _ HR).
  Qed.

  Lemma create_view_R c s h dyn src a sa bo e n :
    R c s -> sget s h = None -> lget (c_arrs c) src = Some a -> sget s src = Some sa ->
    0 <= bo -> 0 < e -> 0 <= n -> bo + n * e <= s_cnt sa * s_esz sa ->
    R (set_arr (alloc_struct c dyn) h (mkarr dyn e n (- (n * e + 1)) (a_blk a) (a_off a + bo)))
      (s_mkview s dyn h src sa bo e n).
  Proof.
    intros HR Hf Ha Hs Hbo He Hn Hfit.
    pose proof (entry_none _ _ _ HR Hf) as Hc.
    assert (Hsrc : src <> h) by (intros ->; congruence).
    set (c1 := alloc_struct c dyn).
    assert (A1 : c_arrs c1 = c_arrs c) by (subst c1; unfold alloc_struct; destruct dyn; reflexivity).
    assert (A2 : c_heap c1 = c_heap c) by (subst c1; unfold alloc_struct; destruct dyn; reflexivity).
    assert (A3 : c_outs c1 = c_outs c) by (subst c1; unfold alloc_struct; destruct dyn; reflexivity).
    assert (A4 : c_bad c1 = c_bad c) by (subst c1; unfold alloc_struct; destruct dyn; reflexivity).
    assert (A5 : c_mallocs c1 - c_frees c1 = c_mallocs c - c_frees c + b2z dyn) by (subst c1; unfold alloc_struct; destruct dyn; simpl; lia).
    assert (Hview : exists r base, s_root src sa = (r, base) /\ a_off a = base /\ r <> h /\
              view_ok (lset (c_arrs c) h (Some (mkarr dyn e n (- (n * e + 1)) (a_blk a) (a_off a + bo))))
                      (lset (s_arrs s) h (Some (SView dyn r (base + bo) e n (n * e))))
                      (mkarr dyn e n (- (n * e + 1)) (a_blk a) (a_off a + bo)) dyn r (base + bo) e n (n * e)).
    { destruct sa as [dy0 e0 n0 b0|dy0 r boff0 e0 n0 cap0]; simpl in Hfit.
      - pose proof (entry_own _ _ _ _ _ _ _ _ HR Ha Hs) as (H1 & H2 & H3 & H4 & H5 & H6 & H7 & H8 & H9 & H10 & H11 & H12).
        exists src, 0. simpl. repeat split; try assumption; try lia; try (rewrite H4; reflexivity).
        exists a, dy0, e0, n0, b0. rewrite !lget_lset_other by congruence. unfold sget in Hs. repeat split; try assumption; lia.
      - pose proof (entry_view _ _ _ _ _ _ _ _ _ _ HR Ha Hs) as
            (H1 & H2 & H3 & H4 & H5 & H6 & H7 & H8 & H9 & H10 & ra & rdyn & re & rn & rb & Hra & Hrs & Hblk & Hrc).
        assert (Hrh : r <> h) by (intros ->; unfold sget in Hf; congruence).
        exists r, boff0. simpl. repeat split; try assumption; try lia; try (rewrite H5; reflexivity).
        exists ra, rdyn, re, rn, rb. rewrite !lget_lset_other by congruence. repeat split; try assumption; lia. }
    destruct Hview as (r & base & Hroot & Hoff & Hrh & Hvok).
    unfold s_mkview. rewrite Hroot.
    apply (R_frame c s _ _ h HR); unfold set_arr, set_arrs, s_set, sget; simpl; rewrite ?A1, ?A2, ?A3, ?A4.
    - intros h' Hh'. apply lget_lset_other. congruence.
    - intros h' Hh'. apply lget_lset_other. congruence.
    - reflexivity.
    - lia.
    - left. eapply rooted_of_free; eassumption.
    - unfold entry_ok, sget. simpl. rewrite ?A1. rewrite !lget_lset_same. exact Hvok.
    - intros h2 a1 a2 Hne G1 G2 O1 O2. rewrite lget_lset_same in G1. inversion G1; subst a1.
      unfold is_owner in O1. simpl in O1. nia.
    - exact (R_outs _ _ HR).
    - exact (R_bad _ _ HR).
    - rewrite ledger_lset, Hc. pose proof (R_ledger _ _ HR) as HL. unfold weight, is_owner. simpl.
      destruct (0 <=? - (n * e + 1)) eqn:E1; [nia|]. simpl. lia.
    - exact (R_null _ _ HR).
  Qed.

  (* a handle whose array holds no storage disappears *)
  Lemma remove_R c s h a dy e :
    R c s -> lget (c_arrs c) h = Some a -> sget s h = Some (SOwn dy e 0 []) -> a_blk a = O -> rooted s h = false ->
    R (add_counts (del_arr c h) 0 (b2z dy)) (s_set s h None).
  Proof.
    intros HR Ha Hs Hb Hnr.
    pose proof (entry_own _ _ _ _ _ _ _ _ HR Ha Hs) as (H1 & _).
    apply (R_frame c s _ _ h HR); unfold add_counts, del_arr, set_arrs, s_set, sget; simpl.
    - intros h' Hh'. apply lget_lset_other. congruence.
    - intros h' Hh'. apply lget_lset_other. congruence.
    - reflexivity.
    - lia.
    - left. exact Hnr.
    - unfold entry_ok, sget. simpl. rewrite !lget_lset_same. exact I.
    - intros h2 a1 a2 Hne G1. rewrite lget_lset_same in G1. discriminate.
    - exact (R_outs _ _ HR).
    - exact (R_bad _ _ HR).
    - rewrite ledger_lset, Ha. pose proof (R_ledger _ _ HR) as HL. unfold weight. rewrite Hb, H1. simpl.
      rewrite andb_false_r. simpl. lia.
    - exact (R_null _ _ HR).
  Qed.
