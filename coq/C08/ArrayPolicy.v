(* C08 - consequences of the allocation policy of the GENERATED sc_array_resize (Gen/Array.v) over HISTORIES of
   resize calls on an owning array: capacity always covers the elements, never exceeds twice the need after a
   resize to a positive count, a repeated resize never reallocates.  Derived from ArrayGen.resize_owner and
   roundup_u64_correct only. *)
From Coq Require Import ZArith Lia List Bool ZifyBool.
From ScV Require Import Base.CInt Gen.Macros Gen.Array C18.MacroProofs C08.ArrayModel C08.ArrayGen.
Import ListNotations.
Local Open Scope Z_scope.

Lemma roundup2_lt_double x r : 0 < x -> is_roundup2 x r -> r < 2 * x.
Proof.
  intros Hx [L [[k [K E]] M]].
  destruct (Z.eq_dec k 0) as [->|Hk]; [rewrite E; change (2 ^ 0) with 1; lia|].
  destruct (Z_lt_le_dec (2 ^ (k - 1)) x) as [Hlt|Hle].
  - rewrite E. replace k with (k - 1 + 1) by lia. rewrite Z.pow_add_r by lia. change (2 ^ 1) with 2. lia.
  - exfalso. pose proof (M (k - 1) ltac:(lia) Hle) as Hc. rewrite E in Hc.
    assert (2 ^ (k - 1) < 2 ^ k) by (apply Z.pow_lt_mono_r; lia). lia.
Qed.

(* the (elem_count, byte_alloc) part of the result *)
Definition pol_step (e : Z) (st : Z * Z) (n : Z) : Z * Z :=
  let '(c', b', _, _) := sc_array_resize e (fst st) (snd st) n in (c', b').

Lemma resize_bounds e c b n : 0 < e -> 0 < n -> n * e <= MAXB -> 0 <= b <= MAXB ->
  let st := pol_step e (c, b) n in
  fst st = n /\ n * e <= snd st <= MAXB /\ snd st < 2 * (n * e).
Proof.
  intros He Hn Hne Hb. unfold pol_step. simpl fst; simpl snd.
  rewrite (resize_owner e c b n He ltac:(lia) Hne Hb).
  replace (n =? 0) with false by lia. cbv zeta.
  assert (Hx : 0 < n * e <= MAXB) by (split; [apply Z.mul_pos_pos; lia | assumption]).
  destruct (roundup_u64_correct (n * e) Hx) as [Hr Hm].
  pose proof (roundup2_lt_double (n * e) _ (proj1 Hx) Hr) as Hd.
  destruct Hr as [L _].
  destruct ((b <? n * e) || (roundup_u64 (n * e) <? b)) eqn:E; simpl fst; simpl snd; lia.
Qed.

Lemma resize_keeps_range e c b n : 0 < e -> 0 <= n -> n * e <= MAXB -> 0 <= b <= MAXB ->
  0 <= snd (pol_step e (c, b) n) <= MAXB.
Proof.
  intros He Hn Hne Hb. destruct (Z.eq_dec n 0) as [->|Hnz].
  - unfold pol_step. simpl fst; simpl snd. rewrite (resize_owner e c b 0 He ltac:(lia) Hne Hb). simpl. exact Hb.
  - pose proof (resize_bounds e c b n He ltac:(lia) Hne Hb) as [_ [H1 _]].
    assert (0 < n * e) by (apply Z.mul_pos_pos; lia). lia.
Qed.

(* a second resize to the same count takes no action and keeps the allocation *)
Lemma resize_stable e c b n : 0 < e -> 0 < n -> n * e <= MAXB -> 0 <= b <= MAXB ->
  let st := pol_step e (c, b) n in
  sc_array_resize e (fst st) (snd st) n = (n, snd st, 0, 0).
Proof.
  intros He Hn Hne Hb st.
  pose proof (resize_bounds e c b n He Hn Hne Hb) as [_ [H1 _]]. fold st in H1.
  assert (Hx : 0 < n * e <= MAXB) by (split; [apply Z.mul_pos_pos; lia | assumption]).
  assert (Hu : snd st <= roundup_u64 (n * e)).
  { unfold st, pol_step. simpl fst; simpl snd. rewrite (resize_owner e c b n He ltac:(lia) Hne Hb).
    replace (n =? 0) with false by lia. cbv zeta.
    destruct ((b <? n * e) || (roundup_u64 (n * e) <? b)) eqn:E; simpl snd; lia. }
  rewrite (resize_owner e (fst st) (snd st) n He ltac:(lia) Hne ltac:(lia)).
  replace (n =? 0) with false by lia. cbv zeta.
  replace ((snd st <? n * e) || (roundup_u64 (n * e) <? snd st)) with false by lia. reflexivity.
Qed.

(* every history of resize calls on an owner (counts >= 0 within the size bound), from any state *)
Lemma resize_history_range e ns : 0 < e -> Forall (fun n => 0 <= n /\ n * e <= MAXB) ns ->
  forall c b, 0 <= b <= MAXB -> 0 <= snd (fold_left (pol_step e) ns (c, b)) <= MAXB.
Proof.
  intros He Hns. induction Hns as [|n ns [Hn Hne] _ IH]; intros c b Hb; cbn [fold_left]; [exact Hb|].
  pose proof (resize_keeps_range e c b n He Hn Hne Hb) as R.
  destruct (pol_step e (c, b) n) as [c' b'] eqn:E. apply IH. exact R.
Qed.

Lemma resize_history_last e ns n : 0 < e -> Forall (fun n => 0 <= n /\ n * e <= MAXB) ns ->
  0 < n -> n * e <= MAXB ->
  forall c b, 0 <= b <= MAXB ->
  let st := fold_left (pol_step e) (ns ++ [n]) (c, b) in
  fst st = n /\ n * e <= snd st <= MAXB /\ snd st < 2 * (n * e).
Proof.
  intros He Hns Hn Hne c b Hb. rewrite fold_left_app. cbn [fold_left].
  pose proof (resize_history_range e ns He Hns c b Hb) as R.
  destruct (fold_left (pol_step e) ns (c, b)) as [c' b'] eqn:E. simpl snd in R.
  exact (resize_bounds e c' b' n He Hn Hne R).
Qed.

(* non-vacuity: element size 12, counts crossing the boundaries 64/128 bytes in both directions *)
Example resize_history_example :
  fold_left (pol_step 12) [5; 6; 11; 5; 2; 0; 3] (0, 0) = (3, 64) /\
  fold_left (pol_step 12) [5; 6; 11; 5] (0, 0) = (5, 64) /\ fold_left (pol_step 12) [5; 6; 11] (0, 0) = (11, 256).
Proof. vm_compute. repeat split. Qed.
