(* C08 - consequences of the simulation: allocation balance of create ... destroy histories, and what the
   reference machine itself guarantees (views alias exactly their window, surviving elements keep their
   bytes, sortedness test). *)
From Coq Require Import ZArith Lia List Bool ZifyBool Permutation.
From ScV Require Import Base.CInt Gen.Array C08.ArrayModel C08.ArrayLists C08.ArrayGen C08.ArrayRefine C08.ArrayStep.
Import ListNotations.
Local Open Scope Z_scope.

(* ---------- every handle gone => every block returned ----------------------------------------------------- *)
Lemma ledger_none l : (forall h, lget l h = None) -> ledger l = 0.
Proof.
  induction l as [|x r IH]; intros H; [reflexivity|]. cbn [ledger].
  pose proof (H O) as H0. unfold lget in H0. simpl in H0. subst x.
  rewrite IH; [reflexivity|]. intros h. specialize (H (S h)). unfold lget in *. simpl in H. exact H.
Qed.

Definition none_live (s : sstate) : bool := forallb (fun x => match x with None => true | Some _ => false end) (s_arrs s).

Lemma none_live_sget s : none_live s = true -> forall h, sget s h = None.
Proof.
  unfold none_live, sget. intros H h. rewrite forallb_forall in H.
  destruct (lget (s_arrs s) h) as [x|] eqn:E; [|reflexivity].
  specialize (H _ (lget_In _ _ _ E)). discriminate.
Qed.

Lemma R_balanced c s : R c s -> none_live s = true -> c_mallocs c - c_frees c = 0.
Proof.
  intros HR Hn. rewrite (R_ledger _ _ HR). apply ledger_none. intros h.
  apply (entry_none _ _ _ HR). apply none_live_sget. exact Hn.
Qed.

(* ---------- the reference machine: a write through a view changes exactly its window of the root ------------ *)
Lemma s_wr_view_root s h dy r boff e n cap rdy re rn b p d :
  sget s r = Some (SOwn rdy re rn b) ->
  s_rbytes (s_wr s h (SView dy r boff e n cap) p d) r = upd b (boff + p) d.
Proof.
  intros Hr. unfold s_wr, s_root. rewrite Hr. unfold s_rbytes. rewrite sget_set_same. reflexivity.
Qed.

Lemma view_write_exact s h dy r boff e n cap rdy re rn b p d :
  sget s r = Some (SOwn rdy re rn b) -> 0 <= boff -> 0 <= p -> boff + p + len d <= len b ->
  let b' := s_rbytes (s_wr s h (SView dy r boff e n cap) p d) r in
  len b' = len b /\
  sub b' (boff + p) (len d) = d /\
  (forall q m, 0 <= q -> 0 <= m -> q + m <= boff + p -> sub b' q m = sub b q m) /\
  (forall q m, boff + p + len d <= q -> sub b' q m = sub b q m).
Proof.
  intros Hr Hb Hp Hfit. pose proof (len_nonneg d) as Hd0. cbv zeta. rewrite (s_wr_view_root s h dy r boff e n cap rdy re rn b p d Hr).
  split; [apply len_upd; lia|]. split; [apply sub_upd_same; lia|]. split.
  - intros q m Hq Hm Hqm. apply sub_upd_before; lia.
  - intros q m Hq. apply sub_upd_after; lia.
Qed.

(* ---------- the reference machine: a size change keeps the surviving elements ------------------------------- *)
Lemma firstn_seq' k : forall s n, firstn k (seq s n) = seq s (Nat.min k n).
Proof. induction k as [|k IH]; intros s [|n]; simpl; try reflexivity. rewrite IH. reflexivity. Qed.

Lemma elems_prefix e n n' l l' : 0 <= e -> 0 <= n' <= n ->
  sub l' 0 (n' * e) = sub l 0 (n' * e) -> elems e n' l' = firstn (Z.to_nat n') (elems e n l).
Proof.
  intros He Hn Hs. unfold elems.
  rewrite firstn_map. rewrite firstn_seq'. replace (Nat.min (Z.to_nat n') (Z.to_nat n)) with (Z.to_nat n') by lia.
  apply map_ext_in. intros i Hi. apply in_seq in Hi.
  assert (Hr : forall x, sub x (Z.of_nat i * e) e = sub (sub x 0 (n' * e)) (Z.of_nat i * e) e).
  { intros x. rewrite sub_sub by nia. f_equal. }
  rewrite (Hr l'), (Hr l), Hs. reflexivity.
Qed.

Lemma spec_resize_keeps e n b n' p d : 0 < e -> 0 <= n -> 0 <= n' -> len b = n * e -> p = Z.min n n' * e ->
  let b' := firstn (Z.to_nat p) b ++ d in
  firstn (Z.to_nat (Z.min n n')) (elems e n' b') = firstn (Z.to_nat (Z.min n n')) (elems e n b).
Proof.
  intros He Hn Hn' Hl -> b'.
  set (m := Z.min n n').
  rewrite <- (elems_prefix e n' m b' b') by (try reflexivity; lia).
  rewrite <- (elems_prefix e n m b b') ; try lia; [reflexivity|].
  subst b'. rewrite sub_app_l; [| lia | nia | rewrite len_firstn by nia; lia].
  rewrite sub_0_firstn, firstn_firstn. rewrite Nat.min_id. reflexivity.
Qed.

(* ---------- sortedness test ------------------------------------------------------------------------------------ *)
Section Sorted.
  Variable cmp : list Z -> list Z -> Z.
  Fixpoint chain (x : list Z) (l : list (list Z)) : Prop :=
    match l with [] => True | y :: r => cmp x y <= 0 /\ chain y r end.
  Definition ordered (l : list (list Z)) : Prop := match l with [] => True | x :: r => chain x r end.

  Lemma is_sorted_loop_spec x l : is_sorted_loop cmp x l = 1 <-> chain x l.
  Proof.
    revert x; induction l as [|y r IH]; intros x; cbn [is_sorted_loop chain]; [tauto|].
    destruct (0 <? cmp x y) eqn:E.
    - split; [discriminate|]. intros [H _]. lia.
    - rewrite IH. split; [intros H; split; [lia|exact H]|intros [_ H]; exact H].
  Qed.

  Lemma is_sorted_spec l : is_sorted cmp l = 1 <-> ordered l.
  Proof. destruct l as [|x r]; [simpl; tauto|]. apply is_sorted_loop_spec. Qed.

  Lemma is_sorted_01 l : is_sorted cmp l = 0 \/ is_sorted cmp l = 1.
  Proof.
    destruct l as [|x r]; [right; reflexivity|]. cbn [is_sorted]. revert x.
    induction r as [|y r IH]; intros x; cbn [is_sorted_loop]; [right; reflexivity|].
    destruct (0 <? cmp x y); [left; reflexivity|apply IH].
  Qed.
End Sorted.

(* ---------- the three loop models (uniq, split, permute) against their definitions ---------------------------- *)
Definition loops_ok (cmp : list Z -> list Z -> Z) : Prop :=
  (forall l, uniq_model cmp l = uniq_spec cmp l) /\
  (forall types T, 0 <= T -> sorted_z types = true ->
     forallb (fun t => (0 <=? t) && (t <? T)) types = true -> split_model types T = Some (split_spec types T)) /\
  (forall (l : list (list Z)) ni, length ni = length l -> is_perm ni = 1 ->
     permute_model l ni = Some (permute_spec l ni, map Z.of_nat (seq 0 (length l))) /\ Permutation (permute_spec l ni) l).

Section Top.
  Variable junk : nat -> Z -> Z.
  Variable cmp : list Z -> list Z -> Z.
  Variable sort : list (list Z) -> list (list Z).
  Variable find : list Z -> list (list Z) -> Z.
  Variable adler_init : Z.
  Variable adler_upd : Z -> list Z -> Z.
  Variable tyf : list Z -> Z.
  Hypothesis sort_perm : forall l, Permutation (sort l) l.
  Hypothesis loops : loops_ok cmp.

  Notation run := (run junk cmp sort find adler_init adler_upd tyf).
  Notation run_spec := (run_spec cmp sort find adler_init adler_upd tyf).
  Notation legal := (legal cmp sort find adler_init adler_upd tyf).

  Theorem refines ops : legal ops = true ->
    (forall h, cobs (run ops) h = sobs (run_spec ops) h) /\ c_outs (run ops) = s_outs (run_spec ops) /\ Inv (run ops).
  Proof.
    destruct loops as (L1 & L2 & L3). intros HL.
    exact (refinement junk cmp sort find adler_init adler_upd tyf sort_perm L1 L2 L3 ops HL).
  Qed.

  Theorem ledger_balanced ops : legal ops = true -> none_live (run_spec ops) = true ->
    c_mallocs (run ops) - c_frees (run ops) = 0.
  Proof.
    destruct loops as (L1 & L2 & L3). intros HL Hn.
    apply (R_balanced (run ops) (run_spec ops)); [|exact Hn].
    apply (run_R junk cmp sort find adler_init adler_upd tyf sort_perm L1 L2 L3); [apply R_init|exact HL].
  Qed.
End Top.
