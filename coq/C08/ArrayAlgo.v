(* C08 - the loop models of sc_array_uniq, sc_array_permute, sc_array_split (ArrayModel.v, Section Algo)
   compute their definitions: uniq_model = uniq_spec, permute_model = permute_spec (+ identity newind),
   split_model = split_spec on type-sorted input; hence loops_ok holds for every comparison function. *)
From Coq Require Import ZArith Lia List Bool Permutation FinFun.
From ScV Require Import Base.CInt C08.ArrayModel C08.ArrayLists C08.ArrayTop.
Import ListNotations.
Local Open Scope Z_scope.

(* ---------- setn ------------------------------------------------------------------------------------- *)
Lemma setn_length {A} (l : list A) i v : length (setn l i v) = length l.
Proof. revert i; induction l as [|x r IH]; intros [|i]; cbn; auto. Qed.

Lemma setn_beyond {A} (l : list A) i v : (length l <= i)%nat -> setn l i v = l.
Proof. revert i; induction l as [|x r IH]; intros [|i] H; cbn in *; auto; try lia. f_equal. apply IH. lia. Qed.

Lemma setn_split {A} (l : list A) i v : (i < length l)%nat -> setn l i v = firstn i l ++ v :: skipn (S i) l.
Proof. revert i; induction l as [|x r IH]; intros [|i] H; cbn in *; try lia; auto. f_equal. apply IH. lia. Qed.

Lemma nth_setn {A} (l : list A) i k v d : nth k (setn l i v) d = if (Nat.eqb i k && Nat.ltb i (length l))%bool then v else nth k l d.
Proof.
  revert i k; induction l as [|x r IH]; intros i k.
  - cbn. rewrite andb_false_r. destruct i; reflexivity.
  - destruct i as [|i], k as [|k]; cbn; auto. rewrite IH. reflexivity.
Qed.

Lemma nth_setn_same {A} (l : list A) i v d : (i < length l)%nat -> nth i (setn l i v) d = v.
Proof. intros H. rewrite nth_setn, Nat.eqb_refl. apply Nat.ltb_lt in H. rewrite H. reflexivity. Qed.

Lemma nth_setn_other {A} (l : list A) i k v d : i <> k -> nth k (setn l i v) d = nth k l d.
Proof. intros H. rewrite nth_setn. apply Nat.eqb_neq in H. rewrite H. reflexivity. Qed.

Lemma firstn_setn_S {A} (l : list A) j v : (j < length l)%nat -> firstn (S j) (setn l j v) = firstn j l ++ [v].
Proof.
  revert j; induction l as [|x r IH]; intros [|j] H; cbn in *; try lia; auto. f_equal. apply IH. lia.
Qed.

Lemma skipn_setn {A} (l : list A) j k v : (j < k)%nat -> skipn k (setn l j v) = skipn k l.
Proof.
  revert j k; induction l as [|x r IH]; intros [|j] [|k] H; cbn in *; try lia; auto. apply IH. lia.
Qed.

Lemma firstn_S_nth {A} (l : list A) i d : (i < length l)%nat -> firstn (S i) l = firstn i l ++ [nth i l d].
Proof.
  revert i; induction l as [|x r IH]; intros [|i] H; cbn in *; try lia; auto. f_equal. apply IH. lia.
Qed.

Lemma skipn_nth_cons {A} (l : list A) i d : (i < length l)%nat -> skipn i l = nth i l d :: skipn (S i) l.
Proof.
  revert i; induction l as [|x r IH]; intros [|i] H; cbn in *; try lia; auto. apply IH. lia.
Qed.

(* ---------- sc_array_uniq ------------------------------------------------------------------------------ *)
Section Uniq.
  Variable cmp : list Z -> list Z -> Z.

  Lemma uniq_loop_inv fuel : forall l i j,
    (j <= i)%nat -> (i <= length l)%nat -> (length l - i <= fuel)%nat ->
    firstn (snd (uniq_loop cmp fuel l i j (length l))) (fst (uniq_loop cmp fuel l i j (length l)))
    = firstn j l ++ uniq_spec cmp (skipn i l).
  Proof.
    induction fuel as [|f IH]; intros l i j Hji Hin Hf.
    - cbn [uniq_loop fst snd]. assert (i = length l) by lia. subst i. rewrite skipn_all. cbn. rewrite app_nil_r. reflexivity.
    - cbn [uniq_loop]. destruct (i <? length l)%nat eqn:Ei.
      2:{ apply Nat.ltb_ge in Ei. assert (i = length l) by lia. subst i. cbn [fst snd]. rewrite skipn_all. cbn. rewrite app_nil_r. reflexivity. }
      apply Nat.ltb_lt in Ei.
      rewrite (skipn_nth_cons l i [] Ei). cbn [uniq_spec]. fold (nthe l i).
      destruct (i <? length l - 1)%nat eqn:Ei1.
      + apply Nat.ltb_lt in Ei1.
        assert (Ei2 : (S i < length l)%nat) by lia.
        rewrite (skipn_nth_cons l (S i) [] Ei2). fold (nthe l (S i)).
        replace (i + 1)%nat with (S i) by lia. cbn [andb].
        destruct (cmp (nthe l i) (nthe l (S i)) =? 0) eqn:Ec.
        * rewrite IH by lia. rewrite (skipn_nth_cons l (S i) [] Ei2). reflexivity.
        * set (l2 := if (j <? i)%nat then setn l j (nthe l i) else l).
          assert (Hl2 : length l2 = length l). { unfold l2. destruct (j <? i)%nat; [apply setn_length|reflexivity]. }
          rewrite <- Hl2. rewrite IH by lia.
          replace (j + 1)%nat with (S j) by lia.
          assert (Hs : skipn (S i) l2 = skipn (S i) l). { unfold l2. destruct (j <? i)%nat; [apply skipn_setn; lia|reflexivity]. }
          assert (Hfst : firstn (S j) l2 = firstn j l ++ [nthe l i]).
          { unfold l2. destruct (j <? i)%nat eqn:Ej.
            - apply firstn_setn_S. apply Nat.ltb_lt in Ej. lia.
            - apply Nat.ltb_ge in Ej. assert (j = i) by lia. subst j. apply firstn_S_nth. exact Ei. }
          rewrite Hs, Hfst, <- app_assoc. rewrite (skipn_nth_cons l (S i) [] Ei2). reflexivity.
      + apply Nat.ltb_ge in Ei1. assert (Hi : S i = length l) by lia.
        cbn [andb].
        set (l2 := if (j <? i)%nat then setn l j (nthe l i) else l).
        assert (Hl2 : length l2 = length l). { unfold l2. destruct (j <? i)%nat; [apply setn_length|reflexivity]. }
        rewrite <- Hl2. rewrite IH by lia.
        replace (i + 1)%nat with (S i) by lia. replace (j + 1)%nat with (S j) by lia.
        assert (Hfst : firstn (S j) l2 = firstn j l ++ [nthe l i]).
        { unfold l2. destruct (j <? i)%nat eqn:Ej.
          - apply firstn_setn_S. apply Nat.ltb_lt in Ej. lia.
          - apply Nat.ltb_ge in Ej. assert (j = i) by lia. subst j. apply firstn_S_nth. exact Ei. }
        rewrite Hfst. rewrite (skipn_all2 l2) by lia. rewrite (skipn_all2 l) by lia. cbn. rewrite <- app_assoc. reflexivity.
  Qed.

  Lemma uniq_ok l : uniq_model cmp l = uniq_spec cmp l.
  Proof.
    unfold uniq_model. pose proof (uniq_loop_inv (length l) l 0 0 ltac:(lia) ltac:(lia) ltac:(lia)) as H.
    destruct (uniq_loop cmp (length l) l 0 0 (length l)) as [l' j]. cbn [fst snd] in H. exact H.
  Qed.
End Uniq.

(* ---------- counting ----------------------------------------------------------------------------------- *)
Fixpoint cnt (g : nat -> bool) (n : nat) : nat := match n with O => O | S k => (cnt g k + (if g k then 1 else 0))%nat end.

Lemma cnt_le g n : (cnt g n <= n)%nat.
Proof. induction n; cbn; [lia|]. destruct (g n); lia. Qed.

Lemma cnt_mono f g n : (forall p, (p < n)%nat -> f p = true -> g p = true) -> (cnt f n <= cnt g n)%nat.
Proof.
  induction n; intros H; cbn; [lia|]. specialize (IHn ltac:(intros; apply H; [lia|assumption])).
  destruct (f n) eqn:E; [rewrite (H n ltac:(lia) E); lia|destruct (g n); lia].
Qed.

Lemma cnt_strict f g n q : (forall p, (p < n)%nat -> f p = true -> g p = true) ->
  (q < n)%nat -> f q = false -> g q = true -> (cnt f n < cnt g n)%nat.
Proof.
  induction n; intros H Hq Hf Hg; [lia|]. cbn.
  assert (Hm : forall p, (p < n)%nat -> f p = true -> g p = true) by (intros; apply H; [lia|assumption]).
  destruct (Nat.eq_dec q n) as [->|Hne].
  - rewrite Hf, Hg. pose proof (cnt_mono f g n Hm). lia.
  - specialize (IHn Hm ltac:(lia) Hf Hg).
    destruct (f n) eqn:E; [rewrite (H n ltac:(lia) E); lia|destruct (g n); lia].
Qed.

Lemma nth_map_seq {A} (h : nat -> A) n k d : (k < n)%nat -> nth k (map h (seq 0 n)) d = h k.
Proof.
  intros H. rewrite (nth_indep _ d (h O)) by (rewrite map_length, seq_length; exact H).
  rewrite map_nth, seq_nth by exact H. reflexivity.
Qed.

Lemma map_nth_seq {A} (l : list A) d : map (fun i => nth i l d) (seq 0 (length l)) = l.
Proof.
  apply (nth_ext _ _ d d); [rewrite map_length, seq_length; reflexivity|].
  intros k Hk. rewrite map_length, seq_length in Hk. apply (nth_map_seq (fun i => nth i l d)). exact Hk.
Qed.

(* ---------- sc_array_permute: the cycle-leader loop -------------------------------------------------------- *)
Lemma nth_swapn (l : list (list Z)) (i k p : nat) : (i < length l)%nat -> (k < length l)%nat ->
  nth p (swapn l (Z.of_nat i) (Z.of_nat k)) [] = nth (if Nat.eqb p i then k else if Nat.eqb p k then i else p) l [].
Proof.
  intros Hi Hk. unfold swapn, nthe. rewrite !Nat2Z.id. rewrite !nth_setn, !setn_length.
  apply Nat.ltb_lt in Hi as Hi', Hk as Hk'. rewrite Hi', Hk', !andb_true_r.
  rewrite (Nat.eqb_sym i p), (Nat.eqb_sym k p).
  destruct (Nat.eqb p i) eqn:E1; [reflexivity|]. destruct (Nat.eqb p k) eqn:E2; reflexivity.
Qed.

Section Permute.
  Variable spec : list (list Z).
  Variable n : nat.

  Definition PInv (l : list (list Z)) (f : nat -> Z) : Prop :=
    length l = n /\
    (forall p, (p < n)%nat -> 0 <= f p < Z.of_nat n) /\
    (forall p q, (p < n)%nat -> (q < n)%nat -> f p = f q -> p = q) /\
    (forall p, (p < n)%nat -> nth (Z.to_nat (f p)) spec [] = nth p l []).

  Lemma PInv_ext l f g : (forall p, (p < n)%nat -> f p = g p) -> PInv l f -> PInv l g.
  Proof.
    intros E (Hl & Hr & Hi & Hd). split; [exact Hl|]. split; [|split].
    - intros p Hp. rewrite <- E by exact Hp. apply Hr. exact Hp.
    - intros p q Hp Hq. rewrite <- !E by assumption. apply Hi; assumption.
    - intros p Hp. rewrite <- E by exact Hp. apply Hd. exact Hp.
  Qed.

  Definition vf (ni : list Z) (zi : nat) (zk : Z) (p : nat) : Z := if Nat.eqb p zi then zk else nth p ni 0.
  Definition fixb (f : nat -> Z) (p : nat) : bool := f p =? Z.of_nat p.

  Lemma vf_same ni zi zk : vf ni zi zk zi = zk.
  Proof. unfold vf. rewrite Nat.eqb_refl. reflexivity. Qed.
  Lemma vf_other ni zi zk p : p <> zi -> vf ni zi zk p = nth p ni 0.
  Proof. unfold vf. intros H. apply Nat.eqb_neq in H. rewrite H. reflexivity. Qed.

  Lemma inner_ok fuel : forall l ni zi zj zk,
    length ni = n -> (zi < n)%nat -> PInv l (vf ni zi zk) -> (n < fuel + cnt (fixb (vf ni zi zk)) n)%nat ->
    exists l' ni' zj', permute_inner fuel l ni (Z.of_nat zi) zj zk = Some (l', ni', zj') /\ length ni' = n /\
      PInv l' (vf ni' zi (Z.of_nat zi)) /\
      (forall p, (p < n)%nat -> vf ni zi zk p = Z.of_nat p -> vf ni' zi (Z.of_nat zi) p = Z.of_nat p).
  Proof.
    induction fuel as [|f IH]; intros l ni zi zj zk Hni Hzi HP Hm.
    - pose proof (cnt_le (fixb (vf ni zi zk)) n). lia.
    - cbn [permute_inner]. destruct (zk =? Z.of_nat zi) eqn:E.
      + apply Z.eqb_eq in E. subst zk. exists l, ni, zj. split; [reflexivity|]. split; [exact Hni|]. split; [exact HP|]. auto.
      + apply Z.eqb_neq in E. destruct HP as (Hl & Hr & Hi & Hd).
        pose proof (Hr zi Hzi) as Hzk. rewrite vf_same in Hzk.
        remember (Z.to_nat zk) as k eqn:Ek.
        assert (Hk : (k < n)%nat) by lia. assert (Hkz : zk = Z.of_nat k) by lia. assert (Hki : k <> zi) by lia.
        unfold nthz. rewrite <- Ek. subst zk.
        set (ni1 := setn ni k (Z.of_nat k)). set (zk1 := nth k ni 0).
        set (sg := fun p => if Nat.eqb p zi then k else if Nat.eqb p k then zi else p).
        assert (Hsg : forall p, (p < n)%nat -> (sg p < n)%nat).
        { intros p Hp. unfold sg. destruct (Nat.eqb p zi); [exact Hk|]. destruct (Nat.eqb p k); assumption. }
        assert (Hsgi : forall p q, sg p = sg q -> p = q).
        { intros p q. unfold sg. destruct (Nat.eqb_spec p zi), (Nat.eqb_spec q zi), (Nat.eqb_spec p k), (Nat.eqb_spec q k); lia. }
        assert (Hf' : forall p, (p < n)%nat -> vf ni1 zi zk1 p = vf ni zi (Z.of_nat k) (sg p)).
        { intros p Hp. unfold sg, vf, ni1, zk1. rewrite nth_setn, Hni.
          apply Nat.ltb_lt in Hk as Hk'. rewrite Hk', andb_true_r. rewrite (Nat.eqb_sym k p).
          destruct (Nat.eqb_spec p zi) as [->|Hpz].
          - apply Nat.eqb_neq in Hki. rewrite Hki. reflexivity.
          - destruct (Nat.eqb_spec p k) as [->|Hpk].
            + rewrite Nat.eqb_refl. reflexivity.
            + apply Nat.eqb_neq in Hpz. rewrite Hpz. reflexivity. }
        assert (HP1 : PInv (swapn l (Z.of_nat zi) (Z.of_nat k)) (vf ni1 zi zk1)).
        { split; [unfold swapn; rewrite !setn_length; exact Hl|]. split; [|split].
          - intros p Hp. rewrite Hf' by exact Hp. apply Hr, Hsg, Hp.
          - intros p q Hp Hq. rewrite !Hf' by assumption. intros Heq. apply Hsgi. apply Hi; auto.
          - intros p Hp. rewrite Hf' by exact Hp. rewrite Hd by (apply Hsg, Hp).
            rewrite nth_swapn by lia. reflexivity. }
        assert (Hnk : vf ni zi (Z.of_nat k) k <> Z.of_nat k).
        { intros Hc. apply Hki. apply Hi; [exact Hk|exact Hzi|]. rewrite vf_same. exact Hc. }
        assert (Hfx : forall p, (p < n)%nat -> vf ni zi (Z.of_nat k) p = Z.of_nat p -> vf ni1 zi zk1 p = Z.of_nat p).
        { intros p Hp Hfp. rewrite Hf' by exact Hp. unfold sg.
          destruct (Nat.eqb_spec p zi) as [->|Hpz]; [rewrite vf_same in Hfp; lia|].
          destruct (Nat.eqb_spec p k) as [->|Hpk]; [contradiction|exact Hfp]. }
        assert (Hc : (cnt (fixb (vf ni zi (Z.of_nat k))) n < cnt (fixb (vf ni1 zi zk1)) n)%nat).
        { apply (cnt_strict _ _ n k).
          - intros p Hp. unfold fixb. rewrite !Z.eqb_eq. apply Hfx, Hp.
          - exact Hk.
          - unfold fixb. apply Z.eqb_neq. exact Hnk.
          - unfold fixb. apply Z.eqb_eq. rewrite Hf' by exact Hk. unfold sg.
            apply Nat.eqb_neq in Hki. rewrite Hki, Nat.eqb_refl. apply vf_same. }
        destruct (IH (swapn l (Z.of_nat zi) (Z.of_nat k)) ni1 zi (Z.of_nat k) zk1) as (l' & ni' & zj' & Hrun & Hn' & HP' & Hfx').
        * unfold ni1. rewrite setn_length. exact Hni.
        * exact Hzi.
        * exact HP1.
        * lia.
        * exists l', ni', zj'. split; [exact Hrun|]. split; [exact Hn'|]. split; [exact HP'|].
          intros p Hp Hfp. apply Hfx'; [exact Hp|]. apply Hfx; assumption.
  Qed.

  Hypothesis Hspec : length spec = n.

  Lemma outer_ok fuel : forall zi l ni,
    (zi <= n)%nat -> (n - zi < fuel)%nat -> length ni = n -> PInv l (fun p => nth p ni 0) ->
    (forall p, (p < zi)%nat -> nth p ni 0 = Z.of_nat p) ->
    permute_outer fuel l ni (Z.of_nat zi) (Z.of_nat zi) (Z.of_nat n) = Some (spec, map Z.of_nat (seq 0 n)).
  Proof.
    induction fuel as [|f IH]; intros zi l ni Hzi Hf Hni HP Hfix; [lia|].
    cbn [permute_outer]. destruct (Z.of_nat zi <? Z.of_nat n) eqn:E.
    - apply Z.ltb_lt in E. assert (Hzi' : (zi < n)%nat) by lia.
      rewrite Nat2Z.id. unfold nthz. rewrite Nat2Z.id.
      assert (Hext : forall p, (p < n)%nat -> nth p ni 0 = vf ni zi (nth zi ni 0) p).
      { intros p Hp. unfold vf. destruct (Nat.eqb_spec p zi) as [->|]; reflexivity. }
      destruct (inner_ok (S n) l ni zi (Z.of_nat zi) (nth zi ni 0) Hni Hzi') as (l' & ni' & zj' & Hrun & Hn' & HP' & Hfx').
      + eapply PInv_ext; [exact Hext|exact HP].
      + pose proof (cnt_le (fixb (vf ni zi (nth zi ni 0))) n). lia.
      + rewrite Hrun. replace (Z.of_nat zi + 1) with (Z.of_nat (S zi)) by lia.
        assert (Hext2 : forall p, (p < n)%nat -> vf ni' zi (Z.of_nat zi) p = nth p (setn ni' zi (Z.of_nat zi)) 0).
        { intros p Hp. unfold vf. rewrite nth_setn, Hn'. apply Nat.ltb_lt in Hzi' as Hz. rewrite Hz, andb_true_r.
          rewrite (Nat.eqb_sym zi p). reflexivity. }
        apply IH; [lia|lia|rewrite setn_length; exact Hn'| |].
        * eapply PInv_ext; [exact Hext2|exact HP'].
        * intros p Hp. rewrite <- Hext2 by lia.
          destruct (Nat.eq_dec p zi) as [->|Hne]; [apply vf_same|].
          apply Hfx'; [lia|]. rewrite <- Hext by lia. apply Hfix. lia.
    - apply Z.ltb_ge in E. assert (zi = n) by lia. subst zi.
      destruct HP as (Hl & Hr & Hi & Hd). f_equal. f_equal.
      + apply (nth_ext _ _ [] []); [lia|]. intros p Hp. rewrite <- Hd by lia. rewrite Hfix by lia. rewrite Nat2Z.id. reflexivity.
      + apply (nth_ext _ _ 0 0); [rewrite map_length, seq_length; exact Hni|].
        intros p Hp. rewrite nth_map_seq by lia. apply Hfix. lia.
  Qed.
End Permute.

(* ---------- sc_array_is_permutation ----------------------------------------------------------------------- *)
Lemma perm_count_spec vals count : forall c c', perm_count vals count c = Some c' -> Z.of_nat (length c) = count ->
  (forall z, In z vals -> 0 <= z < count) /\ length c' = length c /\
  (forall k, nth k c' 0 = nth k c 0 + Z.of_nat (count_occ Nat.eq_dec (map Z.to_nat vals) k)).
Proof.
  induction vals as [|zj r IH]; intros c c' H Hc.
  - cbn in H. injection H as <-. split; [intros z []|]. split; [reflexivity|]. intros k. cbn. lia.
  - cbn [perm_count] in H. destruct ((zj <? 0) || (count <=? zj)) eqn:E; [discriminate|].
    apply orb_false_iff in E. destruct E as [E1 E2]. apply Z.ltb_ge in E1. apply Z.leb_gt in E2.
    apply IH in H; [|rewrite setn_length; exact Hc]. destruct H as (Hr & Hl & Hn).
    split; [intros z [<-|Hz]; [lia|apply Hr, Hz]|]. split; [rewrite Hl; apply setn_length|].
    intros k. rewrite Hn, nth_setn. cbn [map].
    assert (Hj : (Z.to_nat zj <? length c)%nat = true) by (apply Nat.ltb_lt; lia). rewrite Hj, andb_true_r.
    destruct (Nat.eqb_spec (Z.to_nat zj) k) as [->|Hne].
    + rewrite count_occ_cons_eq by reflexivity. lia.
    + rewrite count_occ_cons_neq by exact Hne. lia.
Qed.

Lemma is_perm_facts ni : is_perm ni = 1 ->
  (forall z, In z ni -> 0 <= z < Z.of_nat (length ni)) /\ NoDup ni /\ (forall k, (k < length ni)%nat -> In (Z.of_nat k) ni).
Proof.
  unfold is_perm, len. intros H. destruct (Z.of_nat (length ni) =? 0) eqn:E0.
  { apply Z.eqb_eq in E0. destruct ni; [|cbn in E0; lia]. split; [intros z []|]. split; [constructor|]. cbn. intros; lia. }
  destruct (perm_count ni (Z.of_nat (length ni)) (repeat 0 (length ni))) as [c'|] eqn:Ep; [|discriminate].
  destruct (forallb (fun c => c =? 1) c') eqn:Ef; [|discriminate].
  apply perm_count_spec in Ep; [|rewrite repeat_length; reflexivity].
  destruct Ep as (Hr & Hl & Hn). rewrite repeat_length in Hl.
  assert (Hocc : forall k, (k < length ni)%nat -> count_occ Nat.eq_dec (map Z.to_nat ni) k = 1%nat).
  { intros k Hk. rewrite forallb_forall in Ef. specialize (Ef (nth k c' 0) ltac:(apply nth_In; lia)).
    apply Z.eqb_eq in Ef. rewrite Hn in Ef.
    assert (nth k (repeat 0 (length ni)) 0 = 0). { destruct (nth_in_or_default k (repeat 0 (length ni)) 0) as [Hi|Hd]; [apply repeat_spec in Hi; exact Hi|exact Hd]. }
    lia. }
  assert (Hin : forall x, In x (map Z.to_nat ni) -> (x < length ni)%nat).
  { intros x Hx. apply in_map_iff in Hx. destruct Hx as (z & <- & Hz). specialize (Hr z Hz). lia. }
  split; [exact Hr|]. split.
  - apply (NoDup_map_inv Z.to_nat). apply (NoDup_count_occ Nat.eq_dec). intros x.
    destruct (Nat.lt_ge_cases x (length ni)) as [Hx|Hx]; [rewrite Hocc by exact Hx; lia|].
    rewrite (proj1 (count_occ_not_In Nat.eq_dec _ x)); [lia|]. intros Hc. apply Hin in Hc. lia.
  - intros k Hk. assert (Hi : In k (map Z.to_nat ni)). { apply (count_occ_In Nat.eq_dec). rewrite Hocc by exact Hk. lia. }
    apply in_map_iff in Hi. destruct Hi as (z & Hz & Hzi). specialize (Hr z Hzi).
    replace (Z.of_nat k) with z by lia. exact Hzi.
Qed.

(* ---------- pos_of ------------------------------------------------------------------------------------------ *)
Lemma pos_of_In ni v : In v ni -> (pos_of ni v < length ni)%nat /\ nth (pos_of ni v) ni 0 = v.
Proof.
  induction ni as [|x r IH]; intros H; [destruct H|]. cbn [pos_of]. destruct (x =? v) eqn:E.
  - apply Z.eqb_eq in E. cbn. split; [lia|exact E].
  - apply Z.eqb_neq in E. destruct H as [H|H]; [contradiction|]. destruct (IH H) as [H1 H2]. cbn. split; [lia|exact H2].
Qed.

Lemma pos_of_nth ni p : NoDup ni -> (p < length ni)%nat -> pos_of ni (nth p ni 0) = p.
Proof.
  intros Hnd Hp. destruct (pos_of_In ni (nth p ni 0) (nth_In _ _ Hp)) as [H1 H2].
  exact (proj1 (NoDup_nth ni 0) Hnd _ _ H1 Hp H2).
Qed.

(* ---------- sc_array_permute --------------------------------------------------------------------------------- *)
Lemma permute_spec_length l ni : length (permute_spec l ni) = length l.
Proof. unfold permute_spec. rewrite map_length, seq_length. reflexivity. Qed.

(* the data at index i moves to index newind[i] *)
Lemma permute_spec_nth (l : list (list Z)) ni : length ni = length l -> is_perm ni = 1 ->
  forall i, (i < length l)%nat -> nth (Z.to_nat (nth i ni 0)) (permute_spec l ni) [] = nth i l [].
Proof.
  intros Hlen Hp i Hi. destruct (is_perm_facts ni Hp) as (Hr & Hnd & _).
  specialize (Hr (nth i ni 0) ltac:(apply nth_In; lia)).
  unfold permute_spec. rewrite nth_map_seq by lia. rewrite Z2Nat.id by lia. rewrite pos_of_nth by (assumption || lia). reflexivity.
Qed.

Lemma permute_spec_perm (l : list (list Z)) ni : length ni = length l -> is_perm ni = 1 -> Permutation (permute_spec l ni) l.
Proof.
  intros Hlen Hp. destruct (is_perm_facts ni Hp) as (Hr & Hnd & Hs).
  set (P := map (fun k => pos_of ni (Z.of_nat k)) (seq 0 (length l))).
  assert (HP : Permutation P (seq 0 (length l))).
  { apply NoDup_Permutation_bis.
    - apply (NoDup_map_inv (fun q => nth q ni 0)). unfold P. rewrite map_map.
      rewrite (map_ext_in _ Z.of_nat).
      + apply Injective_map_NoDup; [intros x y; apply Nat2Z.inj|apply seq_NoDup].
      + intros k Hk. apply in_seq in Hk. apply pos_of_In. apply Hs. lia.
    - unfold P. rewrite map_length. reflexivity.
    - intros q Hq. unfold P in Hq. apply in_map_iff in Hq. destruct Hq as (k & <- & Hk). apply in_seq in Hk.
      apply in_seq. destruct (pos_of_In ni (Z.of_nat k) ltac:(apply Hs; lia)). lia. }
  replace (permute_spec l ni) with (map (fun i => nth i l []) P) by (unfold P, permute_spec, nthe; rewrite map_map; reflexivity).
  apply (Permutation_map (fun i => nth i l [])) in HP. rewrite map_nth_seq in HP. exact HP.
Qed.

Lemma permute_ok (l : list (list Z)) ni : length ni = length l -> is_perm ni = 1 ->
  permute_model l ni = Some (permute_spec l ni, map Z.of_nat (seq 0 (length l))) /\ Permutation (permute_spec l ni) l.
Proof.
  intros Hlen Hp. split; [|apply permute_spec_perm; assumption].
  destruct (is_perm_facts ni Hp) as (Hr & Hnd & _).
  unfold permute_model. change 0 with (Z.of_nat 0).
  apply outer_ok; [apply permute_spec_length|lia|lia|exact Hlen| |intros; lia].
  split; [reflexivity|]. split; [|split].
  - intros p Hp'. rewrite <- Hlen. apply Hr. apply nth_In. lia.
  - intros p q Hp' Hq Heq. apply (proj1 (NoDup_nth ni 0) Hnd); (lia || assumption).
  - intros p Hp'. apply permute_spec_nth; assumption.
Qed.

(* ---------- sc_array_split: offsets[k] = number of elements of type < k ------------------------------------ *)
Definition fin (types : list Z) (k : Z) : Z := len (filter (fun t => t <? k) types).

Lemma split_spec_fin types T : split_spec types T = map (fun k => fin types (Z.of_nat k)) (seq 0 (S (Z.to_nat T))).
Proof. reflexivity. Qed.

Lemma fin_range types k : 0 <= fin types k <= len types.
Proof.
  unfold fin, len. induction types as [|x r IH]; cbn [filter length]; [lia|].
  destruct (x <? k); cbn [length]; lia.
Qed.

Lemma fin_mono types k k' : k <= k' -> fin types k <= fin types k'.
Proof.
  intros H. unfold fin, len. induction types as [|x r IH]; cbn [filter]; [lia|].
  destruct (Z.ltb_spec x k), (Z.ltb_spec x k'); cbn [length]; lia.
Qed.

Lemma sorted_z_cons x r : sorted_z (x :: r) = true -> sorted_z r = true /\ forall y, In y r -> x <= y.
Proof.
  revert x. induction r as [|y r IH]; intros x H.
  - split; [reflexivity|intros y []].
  - cbn [sorted_z] in H. apply andb_true_iff in H. destruct H as [H1 H2]. apply Z.leb_le in H1.
    split; [exact H2|]. intros z [<-|Hz]; [exact H1|]. destruct (IH y H2) as [_ H3]. specialize (H3 z Hz). lia.
Qed.

Lemma fin_char types : sorted_z types = true -> forall g k, (g < length types)%nat ->
  (nth g types 0 < k <-> Z.of_nat g < fin types k).
Proof.
  induction types as [|x r IH]; intros Hs g k Hg; [cbn in Hg; lia|].
  destruct (sorted_z_cons x r Hs) as [Hs' Hle]. unfold fin, len in *. cbn [filter].
  destruct (Z.ltb_spec x k) as [Hx|Hx].
  - cbn [length]. destruct g as [|g]; [cbn; lia|]. cbn [nth]. cbn [length] in Hg.
    rewrite (IH Hs' g k ltac:(lia)). lia.
  - assert (Hnil : filter (fun t => t <? k) r = []).
    { clear IH Hs Hs' Hg. induction r as [|y r IHr]; [reflexivity|]. cbn [filter].
      destruct (Z.ltb_spec y k) as [Hy|Hy]; [specialize (Hle y (or_introl eq_refl)); lia|].
      apply IHr. intros z Hz. apply Hle. right. exact Hz. }
    rewrite Hnil. cbn [length].
    assert (x <= nth g (x :: r) 0). { destruct g as [|g]; [cbn; lia|]. cbn [nth]. apply Hle. apply nth_In. cbn [length] in Hg. lia. }
    lia.
Qed.

Lemma fin_low types k : forallb (fun t => (0 <=? t)) types = true -> k <= 0 -> fin types k = 0.
Proof.
  intros H Hk. unfold fin, len. induction types as [|x r IH]; [reflexivity|]. cbn [forallb] in H.
  apply andb_true_iff in H. destruct H as [H1 H2]. apply Z.leb_le in H1. cbn [filter].
  destruct (Z.ltb_spec x k); [lia|]. apply IH. exact H2.
Qed.

Lemma fin_high types k T : forallb (fun t => (t <? T)) types = true -> T <= k -> fin types k = len types.
Proof.
  intros H Hk. unfold fin, len. induction types as [|x r IH]; [reflexivity|]. cbn [forallb] in H.
  apply andb_true_iff in H. destruct H as [H1 H2]. apply Z.ltb_lt in H1. cbn [filter].
  destruct (Z.ltb_spec x k); [|lia]. cbn [length]. specialize (IH H2). lia.
Qed.

Lemma fill_range_length k : forall offs a v, length (fill_range offs a k v) = length offs.
Proof. induction k as [|k IH]; intros offs a v; cbn [fill_range]; [reflexivity|]. rewrite IH. apply setn_length. Qed.

Lemma fill_range_nth k : forall offs a v i (d : Z),
  nth i (fill_range offs a k v) d = if ((a <=? i) && (i <? a + k) && (i <? length offs))%nat then v else nth i offs d.
Proof.
  induction k as [|k IH]; intros offs a v i d; cbn [fill_range].
  - destruct (Nat.leb_spec a i), (Nat.ltb_spec i (a + 0)); cbn; try reflexivity; lia.
  - rewrite IH, nth_setn, setn_length.
    destruct (Nat.leb_spec (S a) i), (Nat.ltb_spec i (S a + k)), (Nat.ltb_spec i (length offs)),
      (Nat.leb_spec a i), (Nat.ltb_spec i (a + S k)), (Nat.eqb_spec a i), (Nat.ltb_spec a (length offs)); cbn; try reflexivity; lia.
Qed.

Lemma nth_repeat_lt (c d : Z) m k : (k < m)%nat -> nth k (repeat c m) d = c.
Proof. revert k; induction m as [|m IH]; intros [|k] H; cbn; try lia; auto. apply IH. lia. Qed.

Section Split.
  Variable types : list Z.
  Variable T : Z.
  Hypothesis HT : 0 <= T.
  Hypothesis Hsorted : sorted_z types = true.
  Hypothesis Hrange : forallb (fun t => (0 <=? t) && (t <? T)) types = true.

  Let count := len types.
  Let F := fin types.

  Lemma types_range g : 0 <= g < count -> 0 <= nthz types g < T.
  Proof.
    intros Hg. unfold nthz. rewrite forallb_forall in Hrange.
    specialize (Hrange (nth (Z.to_nat g) types 0) ltac:(apply nth_In; unfold count, len in Hg; lia)).
    apply andb_true_iff in Hrange. destruct Hrange as [H1 H2]. apply Z.leb_le in H1. apply Z.ltb_lt in H2. lia.
  Qed.

  Lemma F_char g k : 0 <= g < count -> (nthz types g < k <-> g < F k).
  Proof.
    intros Hg. unfold nthz, F. rewrite (fin_char types Hsorted (Z.to_nat g) k) by (unfold count, len in Hg; lia).
    rewrite Z2Nat.id by lia. reflexivity.
  Qed.

  Lemma F_0 k : k <= 0 -> F k = 0.
  Proof.
    apply fin_low. rewrite forallb_forall in *. intros x Hx. specialize (Hrange x Hx).
    apply andb_true_iff in Hrange. tauto.
  Qed.

  Lemma F_T k : T <= k -> F k = count.
  Proof.
    apply fin_high. rewrite forallb_forall in *. intros x Hx. specialize (Hrange x Hx).
    apply andb_true_iff in Hrange. tauto.
  Qed.

  Lemma F_mono k k' : k <= k' -> F k <= F k'.
  Proof. apply fin_mono. Qed.

  Lemma F_range k : 0 <= F k <= count.
  Proof. apply fin_range. Qed.

  (* invariants (1)-(6) of the C comment, expressed with the final values F *)
  Definition SInv (offs : list Z) (low step : Z) : Prop :=
    length offs = S (Z.to_nat T) /\ 1 <= step /\ 0 <= low /\
    (forall i, 0 <= i < step -> nthz offs i = F i) /\
    low <= F step /\
    (forall i, 0 <= i <= T -> F i <= nthz offs i <= count) /\
    nthz offs T = count.

  Lemma final_spec offs : length offs = S (Z.to_nat T) -> (forall i, 0 <= i < T -> nthz offs i = F i) -> nthz offs T = count ->
    offs = split_spec types T.
  Proof.
    intros Hl Hf Hc. rewrite split_spec_fin. apply (nth_ext _ _ 0 0); [rewrite map_length, seq_length; exact Hl|].
    intros k Hk. rewrite nth_map_seq by lia. fold F.
    destruct (Z.eq_dec (Z.of_nat k) T) as [E|E].
    - rewrite E, F_T by lia. rewrite <- Hc. unfold nthz. rewrite <- E, Nat2Z.id. reflexivity.
    - rewrite <- Hf by lia. unfold nthz. rewrite Nat2Z.id. reflexivity.
  Qed.

  Lemma advance_ok fuel : forall offs low high step,
    SInv offs low step -> step < T -> high = nthz offs step -> (Z.to_nat (T - step) < fuel)%nat ->
    exists b step' high', split_advance fuel offs low high step T = Some (b, step', high') /\
      if b then (forall i, 0 <= i < T -> nthz offs i = F i)
      else SInv offs low step' /\ step <= step' < T /\ high' = nthz offs step' /\ low < high' /\ (low = high -> step < step').
  Proof.
    induction fuel as [|f IH]; intros offs low high step HI Hst Hh Hf; [lia|].
    cbn [split_advance]. destruct HI as (Hl & H1 & H0 & Hfin & Hlow & Hub & HcT).
    pose proof (Hub step ltac:(lia)) as Hs.
    destruct (Z.eqb_spec low high) as [E|E].
    - assert (Hfs : nthz offs step = F step) by lia.
      assert (Hfin' : forall i, 0 <= i < step + 1 -> nthz offs i = F i).
      { intros i Hi. destruct (Z.eq_dec i step) as [->|]; [exact Hfs|apply Hfin; lia]. }
      destruct (Z.eqb_spec (step + 1) T) as [E2|E2].
      + exists true, (step + 1), (nthz offs (step + 1)). split; [reflexivity|]. intros i Hi. apply Hfin'. lia.
      + destruct (IH offs low (nthz offs (step + 1)) (step + 1)) as (b & s' & h' & Hrun & Hres); [|lia|reflexivity|lia|].
        * pose proof (F_mono step (step + 1) ltac:(lia)).
          split; [exact Hl|]. split; [lia|]. split; [lia|]. split; [exact Hfin'|]. split; [lia|]. split; [exact Hub|exact HcT].
        * exists b, s', h'. split; [exact Hrun|]. destruct b; [exact Hres|].
          destruct Hres as (R1 & R2 & R3 & R4 & R5). split; [exact R1|]. split; [lia|]. split; [exact R3|]. split; [exact R4|]. lia.
    - exists false, step, high. split; [reflexivity|].
      split; [split; [exact Hl|]; split; [lia|]; split; [lia|]; split; [exact Hfin|]; split; [lia|]; split; [exact Hub|exact HcT]|].
      split; [lia|]. split; [exact Hh|]. split; [lia|]. intros; contradiction.
  Qed.

  Lemma nthz_fill offs step type guess i : 0 <= step -> step <= type -> type < T -> length offs = S (Z.to_nat T) -> 0 <= i ->
    nthz (fill_range offs (Z.to_nat step) (Z.to_nat (type - step + 1)) guess) i =
    if (step <=? i) && (i <=? type) then guess else nthz offs i.
  Proof.
    intros H0 H1 H2 Hl Hi. unfold nthz. rewrite fill_range_nth.
    destruct (Nat.leb_spec (Z.to_nat step) (Z.to_nat i)), (Nat.ltb_spec (Z.to_nat i) (Z.to_nat step + Z.to_nat (type - step + 1))),
      (Nat.ltb_spec (Z.to_nat i) (length offs)), (Z.leb_spec step i), (Z.leb_spec i type); cbn; try reflexivity; lia.
  Qed.

  (* one pass through the body of the for (;;) loop, before the inner while *)
  Definition body (offs : list Z) (low high step : Z) : list Z * Z * Z :=
    let guess := low + (high - low) / 2 in
    let type := nthz types guess in
    if type <? step then (offs, guess + 1, high)
    else (fill_range offs (Z.to_nat step) (Z.to_nat (type - step + 1)) guess, low, guess).

  Lemma body_ok offs low high step : SInv offs low step -> step < T -> high = nthz offs step -> low < high ->
    let '(offs1, low1, high1) := body offs low high step in
    SInv offs1 low1 step /\ high1 = nthz offs1 step /\ low1 <= high1.
  Proof.
    intros HI Hst Hh Hlh. destruct HI as (Hl & H1 & H0 & Hfin & Hlow & Hub & HcT).
    pose proof (Hub step ltac:(lia)) as Hs. unfold body.
    assert (Hg : low <= low + (high - low) / 2 < high) by (Z.div_mod_to_equations; lia).
    set (guess := low + (high - low) / 2) in *.
    pose proof (types_range guess ltac:(lia)) as Hty.
    destruct (Z.ltb_spec (nthz types guess) step) as [Hc|Hc].
    - apply (F_char guess step) in Hc; [|lia].
      split; [|split; [exact Hh|lia]].
      split; [exact Hl|]. split; [lia|]. split; [lia|]. split; [exact Hfin|]. split; [lia|]. split; [exact Hub|exact HcT].
    - set (type := nthz types guess) in *.
      assert (Hnth : forall i, 0 <= i -> nthz (fill_range offs (Z.to_nat step) (Z.to_nat (type - step + 1)) guess) i =
                                       if (step <=? i) && (i <=? type) then guess else nthz offs i).
      { intros i Hi. apply nthz_fill; lia. }
      split; [|split; [|lia]].
      + split; [rewrite fill_range_length; exact Hl|]. split; [lia|]. split; [lia|]. split; [|split; [lia|split]].
        * intros i Hi. rewrite Hnth by lia. destruct (Z.leb_spec step i); [lia|]. cbn. apply Hfin. lia.
        * intros i Hi. rewrite Hnth by lia. destruct (Z.leb_spec step i), (Z.leb_spec i type); cbn; try (apply Hub; lia).
          assert (~ guess < F i). { intros Hc'. apply (F_char guess i) in Hc'; [|lia]. fold type in Hc'. lia. }
          lia.
        * rewrite Hnth by lia. destruct (Z.leb_spec step T), (Z.leb_spec T type); cbn; try exact HcT. lia.
      + rewrite Hnth by lia. destruct (Z.leb_spec step step), (Z.leb_spec step type); cbn; try reflexivity; lia.
  Qed.

  Lemma split_loop_body fuel offs low high step :
    split_loop (S fuel) types offs low high step T =
    let '(offs1, low1, high1) := body offs low high step in
    match split_advance (S (Z.to_nat T)) offs1 low1 high1 step T with
    | None => None
    | Some (true, _, _) => Some offs1
    | Some (false, step2, high2) => split_loop fuel types offs1 low1 high2 step2 T
    end.
  Proof. reflexivity. Qed.

  (* partial correctness: whenever the loop returns, it returns the definition *)
  Lemma split_loop_sound fuel : forall offs low high step o,
    SInv offs low step -> step < T -> high = nthz offs step -> low < high ->
    split_loop fuel types offs low high step T = Some o -> o = split_spec types T.
  Proof.
    induction fuel as [|f IH]; intros offs low high step o HI Hst Hh Hlh Hrun; [discriminate|].
    rewrite split_loop_body in Hrun.
    pose proof (body_ok offs low high step HI Hst Hh Hlh) as Hb.
    destruct (body offs low high step) as [[offs1 low1] high1]. destruct Hb as (HI1 & Hh1 & Hle1).
    destruct (advance_ok (S (Z.to_nat T)) offs1 low1 high1 step HI1 Hst Hh1 ltac:(destruct HI1 as (_ & ? & _); lia))
      as (b & s' & h' & Hadv & Hres).
    rewrite Hadv in Hrun. destruct b.
    - injection Hrun as <-. destruct HI1 as (Hl & _ & _ & _ & _ & _ & HcT). apply final_spec; assumption.
    - destruct Hres as (R1 & R2 & R3 & R4 & _). eapply IH; [exact R1|lia|exact R3|exact R4|exact Hrun].
  Qed.

  Lemma nthz_offs0 i : 0 <= i <= T -> nthz (0 :: repeat count (Z.to_nat T)) i = if i =? 0 then 0 else count.
  Proof.
    intros Hi. unfold nthz. destruct (Z.eqb_spec i 0) as [->|Hne]; [reflexivity|].
    replace (Z.to_nat i) with (S (Z.to_nat (i - 1))) by lia. cbn [nth].
    apply nth_repeat_lt. lia.
  Qed.

  Lemma offs0_length : length (0 :: repeat count (Z.to_nat T)) = S (Z.to_nat T).
  Proof. cbn [length]. rewrite repeat_length. reflexivity. Qed.

  Lemma offs0_inv : 2 <= T -> SInv (0 :: repeat count (Z.to_nat T)) 0 1.
  Proof.
    intros H2. split; [exact offs0_length|]. split; [lia|]. split; [lia|]. split; [|split; [|split]].
    - intros i Hi. assert (i = 0) by lia. subst i. rewrite nthz_offs0 by lia. cbn. symmetry. apply F_0. lia.
    - apply F_range.
    - intros i Hi. rewrite nthz_offs0 by lia. pose proof (F_range i). destruct (Z.eqb_spec i 0) as [->|]; [rewrite F_0; lia|lia].
    - rewrite nthz_offs0 by lia. destruct (Z.eqb_spec T 0); lia.
  Qed.

  Lemma split_trivial : count = 0 \/ T <= 1 -> 0 :: repeat count (Z.to_nat T) = split_spec types T.
  Proof.
    intros H. apply final_spec; [exact offs0_length| |].
    - intros i Hi. rewrite nthz_offs0 by lia. destruct (Z.eqb_spec i 0) as [->|Hne]; [rewrite F_0; lia|].
      destruct H as [H|H]; [|lia]. pose proof (F_range i). lia.
    - rewrite nthz_offs0 by lia. destruct (Z.eqb_spec T 0) as [E|E]; [|reflexivity].
      pose proof (F_T T ltac:(lia)). pose proof (F_0 T ltac:(lia)). lia.
  Qed.


  (* ----- termination: a simple measure.  Every "type < step" guess raises low; every other guess is made at an index
     g with g < offsets[type g], and removes g from that set.  Hence at most (count - low) + #{such g} <= 2 count passes.
     (Remark: the true worst case seems to be count + T - 1 passes - exhaustive up to count = 10, T = 7, adversarial search
     up to count = 42; witness types [1,1,1,2,2,2,3,4,4,4], T = 6: 15 passes - but that bound needs an amortisation
     across type blocks: one block of size B can cost B + 2 guesses, e.g. block {3,4,5} of the witness.  The fuel of
     split_model, S (2 * length types + T), is chosen so that the simple measure suffices.) *)
  Definition Mono (offs : list Z) (step : Z) : Prop :=
    forall i j, step <= i -> i <= j -> j <= T -> nthz offs i <= nthz offs j.
  Definition guessable (offs : list Z) (step : Z) (x : nat) : bool :=
    (step <=? nth x types 0) && (Z.of_nat x <? nthz offs (nth x types 0)).
  Definition measure (offs : list Z) (low step : Z) : nat :=
    (Z.to_nat (count - low) + cnt (guessable offs step) (length types))%nat.

  Lemma Mono_step offs step step' : step <= step' -> Mono offs step -> Mono offs step'.
  Proof. intros H HM i j Hi Hij Hj. apply HM; lia. Qed.

  Lemma guessable_step offs step step' : step <= step' ->
    (cnt (guessable offs step') (length types) <= cnt (guessable offs step) (length types))%nat.
  Proof.
    intros H. apply cnt_mono. intros p Hp. unfold guessable. rewrite !andb_true_iff, !Z.leb_le. intros [H1 H2]. split; [lia|exact H2].
  Qed.

  Lemma body_measure offs low high step : SInv offs low step -> Mono offs step -> step < T -> high = nthz offs step -> low < high ->
    let '(offs1, low1, high1) := body offs low high step in
    Mono offs1 step /\ (measure offs1 low1 step < measure offs low step)%nat.
  Proof.
    intros HI HM Hst Hh Hlh. destruct HI as (Hl & H1 & H0 & Hfin & Hlow & Hub & HcT).
    pose proof (Hub step ltac:(lia)) as Hs. unfold body.
    assert (Hg : low <= low + (high - low) / 2 < high) by (Z.div_mod_to_equations; lia).
    set (guess := low + (high - low) / 2) in *.
    pose proof (types_range guess ltac:(lia)) as Hty.
    destruct (Z.ltb_spec (nthz types guess) step) as [Hc|Hc].
    - split; [exact HM|]. unfold measure. lia.
    - set (type := nthz types guess) in *.
      assert (Hnth : forall i, 0 <= i -> nthz (fill_range offs (Z.to_nat step) (Z.to_nat (type - step + 1)) guess) i =
                                       if (step <=? i) && (i <=? type) then guess else nthz offs i).
      { intros i Hi. apply nthz_fill; lia. }
      assert (HgF : guess < F (type + 1)). { apply (F_char guess (type + 1)); [lia|]. fold type. lia. }
      split.
      + intros i j Hi Hij Hj. rewrite !Hnth by lia.
        assert (Hbig : forall j', type < j' -> j' <= T -> guess <= nthz offs j').
        { intros j' Hj1 Hj2. pose proof (Hub j' ltac:(lia)). pose proof (F_mono (type + 1) j' ltac:(lia)). lia. }
        destruct (Z.leb_spec step i), (Z.leb_spec i type), (Z.leb_spec step j), (Z.leb_spec j type); cbn;
          try lia; try (apply HM; lia); try (apply Hbig; lia).
      + unfold measure. apply Nat.add_lt_mono_l.
        apply (cnt_strict _ _ _ (Z.to_nat guess)).
        * intros p Hp. unfold guessable. rewrite !andb_true_iff, !Z.leb_le, !Z.ltb_lt. intros [Hp1 Hp2]. split; [exact Hp1|].
          pose proof (types_range (Z.of_nat p) ltac:(unfold count, len; lia)) as Htp. unfold nthz in Htp. rewrite Nat2Z.id in Htp.
          rewrite Hnth in Hp2 by lia.
          destruct (Z.leb_spec step (nth p types 0)), (Z.leb_spec (nth p types 0) type); cbn in Hp2; try lia.
          pose proof (HM step (nth p types 0) ltac:(lia) ltac:(lia) ltac:(lia)). lia.
        * unfold count, len in *. lia.
        * unfold guessable. fold (nthz types guess). fold type. rewrite Z2Nat.id by lia. rewrite Hnth by lia.
          destruct (Z.leb_spec step type), (Z.leb_spec type type); cbn; try lia; try apply Z.ltb_irrefl.
        * unfold guessable. fold (nthz types guess). fold type. rewrite Z2Nat.id by lia.
          rewrite andb_true_iff, Z.leb_le, Z.ltb_lt. split; [lia|].
          pose proof (HM step type ltac:(lia) ltac:(lia) ltac:(lia)). lia.
  Qed.

  (* total correctness for every fuel above the measure *)
  Lemma split_loop_total fuel : forall offs low high step,
    SInv offs low step -> Mono offs step -> step < T -> high = nthz offs step -> low < high ->
    (measure offs low step < fuel)%nat ->
    split_loop fuel types offs low high step T = Some (split_spec types T).
  Proof.
    induction fuel as [|f IH]; intros offs low high step HI HM Hst Hh Hlh Hm; [lia|].
    rewrite split_loop_body.
    pose proof (body_ok offs low high step HI Hst Hh Hlh) as Hb.
    pose proof (body_measure offs low high step HI HM Hst Hh Hlh) as Hb2.
    destruct (body offs low high step) as [[offs1 low1] high1]. destruct Hb as (HI1 & Hh1 & Hle1). destruct Hb2 as (HM1 & Hlt).
    destruct (advance_ok (S (Z.to_nat T)) offs1 low1 high1 step HI1 Hst Hh1 ltac:(destruct HI1 as (_ & ? & _); lia))
      as (b & s' & h' & Hadv & Hres).
    rewrite Hadv. destruct b.
    - f_equal. destruct HI1 as (Hl & _ & _ & _ & _ & _ & HcT). apply final_spec; assumption.
    - destruct Hres as (R1 & R2 & R3 & R4 & _). apply IH; [exact R1|eapply Mono_step; [|exact HM1]; lia|lia|exact R3|exact R4|].
      pose proof (guessable_step offs1 step s' ltac:(lia)). unfold measure in *. lia.
  Qed.

  Lemma offs0_mono : Mono (0 :: repeat count (Z.to_nat T)) 1.
  Proof.
    intros i j Hi Hij Hj. rewrite !nthz_offs0 by lia. destruct (Z.eqb_spec i 0), (Z.eqb_spec j 0); lia.
  Qed.

  Lemma measure0_le : (measure (0%Z :: repeat count (Z.to_nat T)) 0%Z 1%Z <= 2 * length types)%nat.
  Proof.
    unfold measure. pose proof (cnt_le (guessable (0 :: repeat count (Z.to_nat T)) 1) (length types)) as Hc.
    replace (Z.to_nat (count - 0)) with (length types) by (unfold count, len; lia). lia.
  Qed.

  (* the model with an arbitrary amount of fuel *)
  Definition split_model_fuel (fuel : nat) : option (list Z) :=
    let offs0 := 0 :: repeat count (Z.to_nat T) in
    if (count =? 0) || (T <=? 1) then Some offs0 else split_loop fuel types offs0 0 count 1 T.

  Lemma split_model_fuel_ok fuel : (2 * length types < fuel)%nat -> split_model_fuel fuel = Some (split_spec types T).
  Proof.
    intros Hf. unfold split_model_fuel. destruct ((count =? 0) || (T <=? 1)) eqn:E.
    - f_equal. apply split_trivial. apply orb_true_iff in E. destruct E as [E|E]; [left; lia|right; lia].
    - apply orb_false_iff in E. destruct E as [E1 E2]. apply Z.eqb_neq in E1. apply Z.leb_gt in E2.
      pose proof (len_nonneg types). fold count in H.
      apply split_loop_total; [apply offs0_inv; lia|exact offs0_mono|lia|rewrite nthz_offs0 by lia; reflexivity|lia|].
      pose proof measure0_le. lia.
  Qed.

  (* the model itself: the measure is at most 2 * length types, its fuel is what split_model says *)
  Lemma split_ok : split_model types T = Some (split_spec types T).
  Proof.
    unfold split_model. fold count. destruct ((count =? 0) || (T <=? 1)) eqn:E.
    - f_equal. apply split_trivial. apply orb_true_iff in E. destruct E as [E|E]; [left; lia|right; lia].
    - apply orb_false_iff in E. destruct E as [E1 E2]. apply Z.eqb_neq in E1. apply Z.leb_gt in E2.
      pose proof (len_nonneg types). fold count in H.
      apply split_loop_total; [apply offs0_inv; lia|exact offs0_mono|lia|rewrite nthz_offs0 by lia; reflexivity|lia|].
      pose proof measure0_le. lia.
  Qed.

  (* partial correctness of the model *)
  Lemma split_sound o : split_model types T = Some o -> o = split_spec types T.
  Proof.
    unfold split_model. fold count. destruct ((count =? 0) || (T <=? 1)) eqn:E.
    - intros H. injection H as <-. apply split_trivial. apply orb_true_iff in E. destruct E as [E|E]; [left; lia|right; lia].
    - apply orb_false_iff in E. destruct E as [E1 E2]. apply Z.eqb_neq in E1. apply Z.leb_gt in E2.
      pose proof (len_nonneg types). fold count in H.
      apply split_loop_sound; [apply offs0_inv; lia|lia|rewrite nthz_offs0 by lia; reflexivity|lia].
  Qed.
End Split.

(* ---------- the definitions themselves -------------------------------------------------------------------------- *)
(* split_spec: on type-sorted input, [offsets[k], offsets[k+1]) is exactly the set of positions holding type k *)
Lemma nthz_split_spec types T k : 0 <= k <= T -> nthz (split_spec types T) k = fin types k.
Proof.
  intros Hk. rewrite split_spec_fin. unfold nthz. rewrite nth_map_seq by lia. rewrite Z2Nat.id by lia. reflexivity.
Qed.

Lemma split_spec_boundaries types T : sorted_z types = true ->
  forallb (fun t => (0 <=? t) && (t <? T)) types = true ->
  forall k i, 0 <= k < T -> (i < length types)%nat ->
  (nthz (split_spec types T) k <= Z.of_nat i < nthz (split_spec types T) (k + 1) <-> nth i types 0 = k).
Proof.
  intros Hs _ k i Hk Hi. rewrite !nthz_split_spec by lia.
  pose proof (fin_char types Hs i k Hi) as H1. pose proof (fin_char types Hs i (k + 1) Hi) as H2. lia.
Qed.

(* uniq_spec: a subsequence of the input *)
Inductive subseq {A} : list A -> list A -> Prop :=
| subseq_nil : subseq [] []
| subseq_skip x l1 l2 : subseq l1 l2 -> subseq l1 (x :: l2)
| subseq_keep x l1 l2 : subseq l1 l2 -> subseq (x :: l1) (x :: l2).

Section UniqSpec.
  Variable cmp : list Z -> list Z -> Z.

  Lemma uniq_spec_subseq l : subseq (uniq_spec cmp l) l.
  Proof.
    induction l as [|x r IH]; [constructor|]. cbn [uniq_spec]. destruct r as [|y r'].
    - apply subseq_keep, subseq_nil.
    - destruct (cmp x y =? 0); [apply subseq_skip, IH|apply subseq_keep, IH].
  Qed.

  (* cmp x y = 0 is an equivalence *)
  Hypothesis cmp_refl : forall x, cmp x x = 0.
  Hypothesis cmp_sym : forall x y, cmp x y = 0 -> cmp y x = 0.
  Hypothesis cmp_trans : forall x y z, cmp x y = 0 -> cmp y z = 0 -> cmp x z = 0.

  Fixpoint adjdiff (l : list (list Z)) : Prop :=
    match l with
    | x :: r => match r with y :: _ => cmp x y <> 0 /\ adjdiff r | [] => True end
    | [] => True
    end.

  Lemma uniq_spec_head y r : exists h t, uniq_spec cmp (y :: r) = h :: t /\ cmp y h = 0.
  Proof.
    revert y. induction r as [|z r IH]; intros y.
    - exists y, []. split; [reflexivity|apply cmp_refl].
    - cbn [uniq_spec]. destruct (cmp y z =? 0) eqn:E.
      + apply Z.eqb_eq in E. destruct (IH z) as (h & t & Hh & Hc). exists h, t. split; [exact Hh|]. eapply cmp_trans; eassumption.
      + exists y, (uniq_spec cmp (z :: r)). split; [reflexivity|apply cmp_refl].
  Qed.

  (* adjacent elements of the result are different *)
  Lemma uniq_spec_adjdiff l : adjdiff (uniq_spec cmp l).
  Proof.
    induction l as [|x r IH]; [exact I|]. cbn [uniq_spec]. destruct r as [|y r'].
    - cbn. exact I.
    - destruct (cmp x y =? 0) eqn:E; [exact IH|]. apply Z.eqb_neq in E.
      destruct (uniq_spec_head y r') as (h & t & Hh & Hc). rewrite Hh in *. cbn [adjdiff]. split; [|exact IH].
      intros Hx. apply E. eapply cmp_trans; [exact Hx|]. apply cmp_sym. exact Hc.
  Qed.
End UniqSpec.

(* is_perm decides "is a permutation of 0 .. count-1" *)
Lemma perm_count_total vals count : forall c, (forall z, In z vals -> 0 <= z < count) -> exists c', perm_count vals count c = Some c'.
Proof.
  induction vals as [|zj r IH]; intros c H; [exists c; reflexivity|]. cbn [perm_count].
  pose proof (H zj (or_introl eq_refl)) as Hz.
  destruct (Z.ltb_spec zj 0); [lia|]. destruct (Z.leb_spec count zj); [lia|]. cbn [orb]. apply IH. intros z Hzr. apply H. right. exact Hzr.
Qed.

Lemma is_perm_iff ni : is_perm ni = 1 <-> Permutation ni (map Z.of_nat (seq 0 (length ni))).
Proof.
  split.
  - intros H. destruct (is_perm_facts ni H) as (Hr & Hnd & _).
    apply NoDup_Permutation_bis; [exact Hnd|rewrite map_length, seq_length; lia|].
    intros z Hz. specialize (Hr z Hz). apply in_map_iff. exists (Z.to_nat z). split; [lia|]. apply in_seq. lia.
  - intros HP. unfold is_perm, len. destruct (Z.of_nat (length ni) =? 0) eqn:E0; [reflexivity|].
    assert (Hr : forall z, In z ni -> 0 <= z < Z.of_nat (length ni)).
    { intros z Hz. apply (Permutation_in _ HP) in Hz. apply in_map_iff in Hz. destruct Hz as (k & <- & Hk). apply in_seq in Hk. lia. }
    destruct (perm_count_total ni (Z.of_nat (length ni)) (repeat 0 (length ni)) Hr) as [c' Hc]. rewrite Hc.
    apply perm_count_spec in Hc; [|rewrite repeat_length; reflexivity]. destruct Hc as (_ & Hl & Hn). rewrite repeat_length in Hl.
    assert (Hf : forallb (fun c => c =? 1) c' = true).
    { apply forallb_forall. intros x Hx. apply (In_nth _ _ 0) in Hx. destruct Hx as (k & Hk & <-). rewrite Hn.
      rewrite nth_repeat_lt by lia.
      assert (HP2 : Permutation (map Z.to_nat ni) (seq 0 (length ni))).
      { apply (Permutation_map Z.to_nat) in HP. rewrite map_map in HP. rewrite (map_ext _ (fun x => x)) in HP by (intros; apply Nat2Z.id).
        rewrite map_id in HP. exact HP. }
      rewrite (Permutation_count_occ Nat.eq_dec) in HP2. rewrite HP2.
      assert (count_occ Nat.eq_dec (seq 0 (length ni)) k = 1%nat).
      { pose proof (proj1 (NoDup_count_occ' Nat.eq_dec (seq 0 (length ni))) (seq_NoDup _ _) k) as Hc1. apply Hc1. apply in_seq. lia. }
      apply Z.eqb_eq. lia. }
    rewrite Hf. reflexivity.
Qed.

(* ---------- loops_ok ---------------------------------------------------------------------------------------------- *)
Theorem loops_ok_all : forall cmp, loops_ok cmp.
Proof. intros cmp. split; [apply uniq_ok|]. split; [apply split_ok|apply permute_ok]. Qed.
