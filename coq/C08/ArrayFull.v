(* C08 - the refinement with the loop models discharged (ArrayAlgo.loops_ok_all): only the contract of qsort remains. *)
From Coq Require Import ZArith List Bool Permutation.
From ScV Require Import Base.CInt C08.ArrayModel C08.ArrayStep C08.ArrayTop C08.ArrayAlgo.
Import ListNotations.
Local Open Scope Z_scope.

Section Full.
  Variable junk : nat -> Z -> Z.
  Variable cmp : list Z -> list Z -> Z.
  Variable sort : list (list Z) -> list (list Z).
  Variable find : list Z -> list (list Z) -> Z.
  Variable adler_init : Z.
  Variable adler_upd : Z -> list Z -> Z.
  Variable tyf : list Z -> Z.
  Hypothesis sort_perm : forall l, Permutation (sort l) l.

  Theorem refines_full ops : legal cmp sort find adler_init adler_upd tyf ops = true ->
    (forall h, cobs (run junk cmp sort find adler_init adler_upd tyf ops) h = sobs (run_spec cmp sort find adler_init adler_upd tyf ops) h) /\
    c_outs (run junk cmp sort find adler_init adler_upd tyf ops) = s_outs (run_spec cmp sort find adler_init adler_upd tyf ops) /\
    Inv (run junk cmp sort find adler_init adler_upd tyf ops).
  Proof. exact (refines junk cmp sort find adler_init adler_upd tyf sort_perm (loops_ok_all cmp) ops). Qed.

  Theorem ledger_balanced_full ops : legal cmp sort find adler_init adler_upd tyf ops = true ->
    none_live (run_spec cmp sort find adler_init adler_upd tyf ops) = true ->
    c_mallocs (run junk cmp sort find adler_init adler_upd tyf ops) - c_frees (run junk cmp sort find adler_init adler_upd tyf ops) = 0.
  Proof. exact (ledger_balanced junk cmp sort find adler_init adler_upd tyf sort_perm (loops_ok_all cmp) ops). Qed.
End Full.
