(* C08 - executable model of sc_array (src/sc_containers.c, inline functions of sc_containers.h).

   Concrete side: an explicit heap of blocks (block 0 is NULL), arrays are the four C fields
   (elem_size, elem_count, byte_alloc, array) with the pointer split into (block, byte offset);
   ownership is decided exactly as SC_ARRAY_IS_OWNER does (byte_alloc >= 0), a view's capacity is
   -(byte_alloc + 1).  Every integer-level decision (view test, reset at count 0, power-of-two
   round-up, grow/shrink test, fast path of push_count, byte_alloc of views, returned pointers) is taken
   from the functions GENERATED from the C source (Gen/Array.v); this file only performs the memory
   effect those functions name.  sc_malloc/sc_realloc/sc_free follow src/sc.c in the pinned
   configuration (padding allocator: malloc (0) is a live block; realloc (NULL, n) = malloc;
   realloc copies min (old, new) bytes into a FRESH block whose tail is the arbitrary function `junk`).
   Every memory access is checked against the block and against the array's capacity; a failed check
   sets the flag c_bad (safety is then a theorem, not an artefact of total list functions).

   Abstract side: an owner is a plain byte sequence cut into elements of elem_size bytes; a view is a
   window (root, byte offset, elem_size, count, capacity) into the sequence of its root owner.
   No blocks, no allocation sizes, no junk.  `legal_step` is the documented precondition of each call,
   decided on the abstract state.

   No proofs in this file. *)
From Coq Require Import ZArith List Bool.
From ScV Require Import Base.CInt Gen.Array.
Import ListNotations.
Local Open Scope Z_scope.

(* ---------- positional maps: list of options ---------------------------------------------------- *)
Section LMap.
  Context {A : Type}.
  Definition lget (l : list (option A)) (k : nat) : option A := nth k l None.
  Fixpoint lset (l : list (option A)) (k : nat) (v : option A) : list (option A) :=
    match k, l with
    | O, [] => [v]
    | O, _ :: r => v :: r
    | S k', [] => None :: lset [] k' v
    | S k', x :: r => x :: lset r k' v
    end.
End LMap.

(* ---------- byte strings ------------------------------------------------------------------------ *)
Definition len (l : list Z) : Z := Z.of_nat (length l).
Definition sub (l : list Z) (pos n : Z) : list Z := firstn (Z.to_nat n) (skipn (Z.to_nat pos) l).
Definition upd (l : list Z) (pos : Z) (d : list Z) : list Z :=
  firstn (Z.to_nat pos) l ++ d ++ skipn (Z.to_nat pos + length d) l.
(* the n elements of e bytes each stored in l *)
Definition elems (e n : Z) (l : list Z) : list (list Z) :=
  map (fun i => sub l (Z.of_nat i * e) e) (seq 0 (Z.to_nat n)).
Definition bytes_ok (d : list Z) : bool := forallb (fun b => (0 <=? b) && (b <? 256)) d.
Fixpoint list_eqb (a b : list Z) : bool :=
  match a, b with
  | [], [] => true
  | x :: a', y :: b' => (x =? y) && list_eqb a' b'
  | _, _ => false
  end.

(* size_t values are stored little endian in 8 bytes (x86-64) *)
Fixpoint le_dec (l : list Z) : Z := match l with [] => 0 | b :: r => b + 256 * le_dec r end.
Fixpoint le_enc (n : nat) (v : Z) : list Z := match n with O => [] | S k => (v mod 256) :: le_enc k (v / 256) end.
Definition le64_enc (v : Z) : list Z := le_enc 8 v.

Definition MAXB : Z := 2 ^ 62.     (* largest byte size whose power-of-two round-up fits ssize_t *)

(* ---------- operations (the API calls of the property) ------------------------------------------ *)
Inductive op :=
| OInit (dyn : bool) (h : nat) (e : Z)                       (* sc_array_init | sc_array_new *)
| OInitCount (dyn : bool) (h : nat) (e n : Z) (d : list Z)   (* sc_array_init_count (= init_size) | sc_array_new_count; d is written into the new elements *)
| OInitView (dyn : bool) (h src : nat) (o l : Z)             (* sc_array_init_view | sc_array_new_view *)
| OInitReshape (h src : nat) (e n : Z)                       (* sc_array_init_reshape *)
| OInitData (dyn : bool) (h src : nat) (bo e n : Z)          (* sc_array_init_data | sc_array_new_data with base = src->array + bo *)
| OReset (h : nat)                                           (* sc_array_reset *)
| ODestroy (h : nat)                                         (* sc_array_destroy (= destroy_null) *)
| ODrop (h : nat)                                            (* sc_array_reset on a static struct which is then abandoned *)
| OTruncate (h : nat)
| ORewind (h : nat) (n : Z)
| OResize (h : nat) (n : Z) (d : list Z)                     (* d is written into the elements beyond the old count *)
| OPushCount (h : nat) (k : Z) (d : list Z)                  (* d is written through the returned pointer *)
| OPush (h : nat) (d : list Z)
| OPop (h : nat)                                             (* output: the bytes behind the returned pointer *)
| OCopy (dst src : nat)
| OCopyInto (dst : nat) (o : Z) (src : nat)
| OMovePart (dst : nat) (od : Z) (src : nat) (os n : Z)
| OMemset (h : nat) (c : Z)
| OSet (h : nat) (i : Z) (d : list Z)                        (* memcpy (sc_array_index (a, i), d, elem_size) *)
| OIndex (h : nat) (i : Z)                                   (* output: bytes at sc_array_index (a, i) *)
| OSort (h : nat)
| OUniq (h : nat)
| OIsSorted (h : nat)
| OIsEqual (a b : nat)
| OBsearch (h : nat) (key : list Z)
| OChecksum (h : nat)
| OIsPerm (h : nat)
| OSplit (h offs : nat) (T : Z)
| OPermute (h p : nat) (keep : bool).

(* ---------- concrete state ---------------------------------------------------------------------- *)
Record arr := mkarr { a_dyn : bool; a_esz : Z; a_cnt : Z; a_balloc : Z; a_blk : nat; a_off : Z }.
Record cstate := mkc { c_arrs : list (option arr); c_heap : list (option (list Z));
                       c_mallocs : Z; c_frees : Z; c_outs : list (list Z); c_bad : bool }.
Definition c_init : cstate := mkc [] [None] 0 0 [] false.

Definition hget (H : list (option (list Z))) (b : nat) : list Z := match lget H b with Some l => l | None => [] end.
Definition is_owner (a : arr) : bool := 0 <=? a_balloc a.                                  (* SC_ARRAY_IS_OWNER *)
Definition a_cap (a : arr) : Z := if is_owner a then a_balloc a else - (a_balloc a + 1).    (* SC_ARRAY_BYTE_ALLOC *)

Definition set_arrs (st : cstate) (l : list (option arr)) := mkc l (c_heap st) (c_mallocs st) (c_frees st) (c_outs st) (c_bad st).
Definition set_arr (st : cstate) (h : nat) (a : arr) := set_arrs st (lset (c_arrs st) h (Some a)).
Definition del_arr (st : cstate) (h : nat) := set_arrs st (lset (c_arrs st) h None).
Definition set_heap (st : cstate) (H : list (option (list Z))) := mkc (c_arrs st) H (c_mallocs st) (c_frees st) (c_outs st) (c_bad st).
Definition add_counts (st : cstate) (m f : Z) := mkc (c_arrs st) (c_heap st) (c_mallocs st + m) (c_frees st + f) (c_outs st) (c_bad st).
Definition push_out (st : cstate) (o : list Z) := mkc (c_arrs st) (c_heap st) (c_mallocs st) (c_frees st) (o :: c_outs st) (c_bad st).
Definition set_bad (st : cstate) := mkc (c_arrs st) (c_heap st) (c_mallocs st) (c_frees st) (c_outs st) true.
Definition with_cnt (a : arr) (n : Z) := mkarr (a_dyn a) (a_esz a) n (a_balloc a) (a_blk a) (a_off a).

(* ---------- abstract state ---------------------------------------------------------------------- *)
Inductive sarr :=
| SOwn (dyn : bool) (e n : Z) (bytes : list Z)             (* n elements of e bytes: bytes has n * e entries *)
| SView (dyn : bool) (root : nat) (boff e n cap : Z).      (* window [boff, boff + cap) of root's bytes, n * e <= cap *)
Record sstate := mks { s_arrs : list (option sarr); s_outs : list (list Z) }.
Definition s_init : sstate := mks [] [].

Definition s_dyn (a : sarr) := match a with SOwn d _ _ _ => d | SView d _ _ _ _ _ => d end.
Definition s_esz (a : sarr) := match a with SOwn _ e _ _ => e | SView _ _ _ e _ _ => e end.
Definition s_cnt (a : sarr) := match a with SOwn _ _ n _ => n | SView _ _ _ _ n _ => n end.
Definition s_isown (a : sarr) := match a with SOwn _ _ _ _ => true | _ => false end.
Definition sget (s : sstate) (h : nat) := lget (s_arrs s) h.
Definition s_set (s : sstate) (h : nat) (v : option sarr) := mks (lset (s_arrs s) h v) (s_outs s).
Definition s_out (s : sstate) (o : list Z) := mks (s_arrs s) (o :: s_outs s).
(* root handle and base offset of the storage an array designates *)
Definition s_root (h : nat) (a : sarr) : nat * Z := match a with SOwn _ _ _ _ => (h, 0) | SView _ r boff _ _ _ => (r, boff) end.
Definition s_rbytes (s : sstate) (r : nat) : list Z := match sget s r with Some (SOwn _ _ _ b) => b | _ => [] end.
(* read / write n bytes at byte position p of array h *)
Definition s_rd (s : sstate) (h : nat) (a : sarr) (p n : Z) : list Z :=
  let '(r, base) := s_root h a in sub (s_rbytes s r) (base + p) n.
Definition s_wr (s : sstate) (h : nat) (a : sarr) (p : Z) (d : list Z) : sstate :=
  let '(r, base) := s_root h a in
  match sget s r with
  | Some (SOwn dy e n b) => s_set s r (Some (SOwn dy e n (upd b (base + p) d)))
  | _ => s
  end.
Definition s_content (s : sstate) (h : nat) (a : sarr) : list Z := s_rd s h a 0 (s_cnt a * s_esz a).
(* is some live view rooted at r ? *)
Definition rooted (s : sstate) (r : nat) : bool :=
  existsb (fun x => match x with Some (SView _ r' _ _ _ _) => Nat.eqb r' r | _ => false end) (s_arrs s).
Definition is_free (s : sstate) (h : nat) : bool := match sget s h with None => true | _ => false end.

(* the observable of the property: element size and the sequence of elements *)
Definition sobs (s : sstate) (h : nat) : option (Z * list (list Z)) :=
  match sget s h with Some a => Some (s_esz a, elems (s_esz a) (s_cnt a) (s_content s h a)) | None => None end.

(* ---------- pure algorithms, written along the C loops ------------------------------------------- *)
Section Algo.
  Variable cmp : list Z -> list Z -> Z.
  Variable tyf : list Z -> Z.

  Definition nthe (l : list (list Z)) (i : nat) : list Z := nth i l [].
  Fixpoint setn {A} (l : list A) (i : nat) (v : A) : list A :=
    match l, i with [] , _ => [] | _ :: r, O => v :: r | x :: r, S k => x :: setn r k v end.

  (* sc_array_is_sorted *)
  Fixpoint is_sorted_loop (vold : list Z) (l : list (list Z)) : Z :=
    match l with [] => 1 | vnew :: r => if 0 <? cmp vold vnew then 0 else is_sorted_loop vnew r end.
  Definition is_sorted (l : list (list Z)) : Z :=
    match l with [] => 1 | x :: r => is_sorted_loop x r end.

  (* sc_array_uniq: read counter i, write counter j on the element array; returns (array, j) *)
  Fixpoint uniq_loop (fuel : nat) (l : list (list Z)) (i j n : nat) : list (list Z) * nat :=
    match fuel with
    | O => (l, j)
    | S f =>
      if (i <? n)%nat then
        if ((i <? n - 1)%nat && (cmp (nthe l i) (nthe l (i + 1)) =? 0))%bool then uniq_loop f l (i + 1) j n
        else uniq_loop f (if (j <? i)%nat then setn l j (nthe l i) else l) (i + 1) (j + 1) n
      else (l, j)
    end.
  Definition uniq_model (l : list (list Z)) : list (list Z) :=
    let n := length l in let '(l', j) := uniq_loop n l 0 0 n in firstn j l'.
  (* its definition: keep an element iff it is the last one or differs from its successor *)
  Fixpoint uniq_spec (l : list (list Z)) : list (list Z) :=
    match l with
    | [] => []
    | x :: r => match r with [] => [x] | y :: _ => if cmp x y =? 0 then uniq_spec r else x :: uniq_spec r end
    end.

  (* sc_array_is_permutation on the decoded size_t values *)
  Fixpoint perm_count (vals : list Z) (count : Z) (counted : list Z) : option (list Z) :=
    match vals with
    | [] => Some counted
    | zj :: r => if (zj <? 0) || (count <=? zj) then None     (* zj is a size_t: never negative in C *)
                 else perm_count r count (setn counted (Z.to_nat zj) (nth (Z.to_nat zj) counted 0 + 1))
    end.
  Definition is_perm (vals : list Z) : Z :=
    let count := len vals in
    if count =? 0 then 1 else
    match perm_count vals count (repeat 0 (length vals)) with
    | None => 0
    | Some counted => if forallb (fun c => c =? 1) counted then 1 else 0
    end.

  (* sc_array_permute: pivot loop; newind as a list of integers; None = out of fuel *)
  Definition nthz (l : list Z) (i : Z) : Z := nth (Z.to_nat i) l 0.
  Definition swapn (l : list (list Z)) (i k : Z) : list (list Z) :=
    let vi := nthe l (Z.to_nat i) in let vk := nthe l (Z.to_nat k) in
    setn (setn l (Z.to_nat k) vi) (Z.to_nat i) vk.
  Fixpoint permute_inner (fuel : nat) (l : list (list Z)) (ni : list Z) (zi zj zk : Z) : option (list (list Z) * list Z * Z) :=
    match fuel with
    | O => None
    | S f =>
      if zk =? zi then Some (l, ni, zj)
      else let l1 := swapn l zi zk in
           let zj1 := zk in
           let zk1 := nthz ni zk in
           let ni1 := setn ni (Z.to_nat zj1) zj1 in
           permute_inner f l1 ni1 zi zj1 zk1
    end.
  Fixpoint permute_outer (fuel : nat) (l : list (list Z)) (ni : list Z) (zi zj count : Z) : option (list (list Z) * list Z) :=
    match fuel with
    | O => None
    | S f =>
      if zi <? count then
        match permute_inner (S (Z.to_nat count)) l ni zi zj (nthz ni zj) with
        | None => None
        | Some (l1, ni1, _) => let ni2 := setn ni1 (Z.to_nat zi) zi in permute_outer f l1 ni2 (zi + 1) (zi + 1) count
        end
      else Some (l, ni)
    end.
  Definition permute_model (l : list (list Z)) (ni : list Z) : option (list (list Z) * list Z) :=
    permute_outer (S (length l)) l ni 0 0 (Z.of_nat (length l)).
  (* its definition: the data at index i moves to index newind[i]; newind becomes the identity *)
  Fixpoint pos_of (ni : list Z) (v : Z) : nat :=
    match ni with [] => O | x :: r => if x =? v then O else S (pos_of r v) end.
  Definition permute_spec (l : list (list Z)) (ni : list Z) : list (list Z) :=
    map (fun k => nthe l (pos_of ni (Z.of_nat k))) (seq 0 (length l)).

  (* sc_array_split on the list of types of the elements; offsets as integers.  None = out of fuel *)
  Fixpoint fill_range (offs : list Z) (zi : nat) (k : nat) (v : Z) : list Z :=     (* offsets[zi .. zi + k - 1] = v *)
    match k with O => offs | S k' => fill_range (setn offs zi v) (S zi) k' v end.
  Fixpoint split_advance (fuel : nat) (offs : list Z) (low high step T : Z) : option (bool * Z * Z) :=
    (* while (low == high) { ++step; high = offsets[step]; if (step == num_types) return; }   result (returned?, step, high) *)
    match fuel with
    | O => None
    | S f => if low =? high then
               let step1 := step + 1 in let high1 := nthz offs step1 in
               if step1 =? T then Some (true, step1, high1) else split_advance f offs low high1 step1 T
             else Some (false, step, high)
    end.
  Fixpoint split_loop (fuel : nat) (types : list Z) (offs : list Z) (low high step T : Z) : option (list Z) :=
    match fuel with
    | O => None
    | S f =>
      let guess := low + (high - low) / 2 in
      let type := nthz types guess in
      let '(offs1, low1, high1) :=
        if type <? step then (offs, guess + 1, high)
        else (fill_range offs (Z.to_nat step) (Z.to_nat (type - step + 1)) guess, low, guess) in
      match split_advance (S (Z.to_nat T)) offs1 low1 high1 step T with
      | None => None
      | Some (true, _, _) => Some offs1
      | Some (false, step2, high2) => split_loop f types offs1 low1 high2 step2 T
      end
    end.
  Definition split_model (types : list Z) (T : Z) : option (list Z) :=
    let count := len types in
    let offs0 := 0 :: repeat count (Z.to_nat T) in
    if (count =? 0) || (T <=? 1) then Some offs0
    else split_loop (S (2 * length types + Z.to_nat T)) types offs0 0 count 1 T.
  (* its definition: offsets[k] = number of elements of type < k *)
  Definition split_spec (types : list Z) (T : Z) : list Z :=
    map (fun k => len (filter (fun t => t <? Z.of_nat k) types)) (seq 0 (S (Z.to_nat T))).
  Fixpoint sorted_z (l : list Z) : bool :=
    match l with [] => true | x :: r => match r with [] => true | y :: _ => (x <=? y) && sorted_z r end end.
End Algo.

(* ---------- the two machines ---------------------------------------------------------------------- *)
Section Model.
  Variable junk : nat -> Z -> Z.                          (* content of never-written memory: block id, offset *)
  Variable cmp : list Z -> list Z -> Z.                   (* the comparison callback *)
  Variable sort : list (list Z) -> list (list Z).         (* libc qsort with cmp *)
  Variable find : list Z -> list (list Z) -> Z.           (* libc bsearch with cmp: index or -1 *)
  Variable adler_init : Z.                                (* zlib adler32 (0, Z_NULL, 0) *)
  Variable adler_upd : Z -> list Z -> Z.                  (* zlib adler32 (crc, buf, len) *)
  Variable tyf : list Z -> Z.                             (* the type callback of sc_array_split *)

  Fixpoint mkjunk_from (b : nat) (i : Z) (n : nat) : list Z :=
    match n with O => [] | S k => junk b i :: mkjunk_from b (i + 1) k end.
  Definition mkjunk (b from n : nat) : list Z := mkjunk_from b (Z.of_nat from) n.

  (* --- src/sc.c, pinned configuration ------------------------------------------------------------ *)
  Definition c_malloc (st : cstate) (n : Z) : cstate * nat :=
    let b := length (c_heap st) in
    (add_counts (set_heap st (c_heap st ++ [Some (mkjunk b 0 (Z.to_nat n))])) 1 0, b).
  Definition c_free (st : cstate) (b : nat) : cstate :=
    match b with O => st | S _ => add_counts (set_heap st (lset (c_heap st) b None)) 0 1 end.
  Definition c_realloc (st : cstate) (b : nat) (n : Z) : cstate * nat :=
    match b with
    | O => c_malloc st n
    | S _ => if n =? 0 then (c_free st b, O) else
             let old := hget (c_heap st) b in
             let keep := firstn (Z.to_nat n) old in
             let b' := length (c_heap st) in
             (set_heap st (lset (c_heap st) b None ++ [Some (keep ++ mkjunk b' (length keep) (Z.to_nat n - length keep))]), b')
    end.

  (* --- checked memory access through an array ---------------------------------------------------- *)
  Definition acc_ok (st : cstate) (a : arr) (p n : Z) : bool :=
    (0 <=? p) && (0 <=? n) && (p + n <=? a_cap a) && (0 <=? a_off a) &&
    (a_off a + p + n <=? len (hget (c_heap st) (a_blk a))).
  Definition c_chk (st : cstate) (a : arr) (p n : Z) : cstate := if acc_ok st a p n then st else set_bad st.
  Definition c_rd (st : cstate) (a : arr) (p n : Z) : list Z := sub (hget (c_heap st) (a_blk a)) (a_off a + p) n.
  Definition c_wr (st : cstate) (a : arr) (p : Z) (d : list Z) : cstate :=
    match d with
    | [] => st
    | _ => let st1 := c_chk st a p (len d) in
           set_heap st1 (lset (c_heap st1) (a_blk a) (Some (upd (hget (c_heap st1) (a_blk a)) (a_off a + p) d)))
    end.
  Definition c_content (st : cstate) (a : arr) : list Z := c_rd st a 0 (a_cnt a * a_esz a).
  Definition c_chk_all (st : cstate) (a : arr) : cstate := c_chk st a 0 (a_cnt a * a_esz a).
  Definition c_elems (st : cstate) (a : arr) : list (list Z) := elems (a_esz a) (a_cnt a) (c_content st a).
  Definition cget (st : cstate) (h : nat) := lget (c_arrs st) h.

  Definition cobs (st : cstate) (h : nat) : option (Z * list (list Z)) :=
    match cget st h with Some a => Some (a_esz a, c_elems st a) | None => None end.

  (* --- array functions: decisions from Gen.Array, effects here ------------------------------------- *)
  Definition c_reset (st : cstate) (h : nat) (a : arr) : cstate :=
    let '(cnt', balloc', ptr', act) := sc_array_reset (a_esz a) (a_cnt a) (a_balloc a) (a_off a) in
    let st1 := if act =? 5 then c_free st (a_blk a) else st in
    set_arr st1 h (mkarr (a_dyn a) (a_esz a) cnt' balloc' O ptr').

  Definition c_resize (st : cstate) (h : nat) (a : arr) (n : Z) : cstate :=
    let '(cnt', balloc', act, arg) := sc_array_resize (a_esz a) (a_cnt a) (a_balloc a) n in
    if act =? 1 then c_reset st h a
    else if act =? 2 then
      let '(st1, b') := c_realloc st (a_blk a) arg in
      set_arr st1 h (mkarr (a_dyn a) (a_esz a) cnt' balloc' b' 0)
    else set_arr st h (mkarr (a_dyn a) (a_esz a) cnt' balloc' (a_blk a) (a_off a)).

  Definition c_push_count (st : cstate) (h : nat) (a : arr) (k : Z) (d : list Z) : cstate :=
    let '(cnt', act, arg, ret) := sc_array_push_count (a_esz a) (a_cnt a) (a_balloc a) (a_off a) k in
    let st1 := if act =? 3 then c_resize st h a arg else set_arr st h (with_cnt a cnt') in
    match cget st1 h with
    | Some a1 => c_wr st1 a1 (ret - a_off a) d
    | None => set_bad st1
    end.

  Definition alloc_struct (st : cstate) (dyn : bool) : cstate := if dyn then add_counts st 1 0 else st.

  Definition with2 (st : cstate) (h1 h2 : nat) (f : arr -> arr -> cstate * list Z) : cstate * list Z :=
    match cget st h1, cget st h2 with Some a, Some b => f a b | _, _ => (set_bad st, []) end.
  Definition with1 (st : cstate) (h : nat) (f : arr -> cstate * list Z) : cstate * list Z :=
    match cget st h with Some a => f a | None => (set_bad st, []) end.

  Definition c_exec (st : cstate) (o : op) : cstate * list Z :=
    match o with
    | OInit dyn h e =>
      let '(e', c', b', p') := sc_array_init e in
      (set_arr (alloc_struct st dyn) h (mkarr dyn e' c' b' O p'), [])
    | OInitCount dyn h e n d =>
      let '(e', c', b', act, arg) := sc_array_init_count e n in
      let st1 := alloc_struct st dyn in
      let '(st2, blk) := if act =? 4 then c_malloc st1 arg else (st1, O) in
      let a := mkarr dyn e' c' b' blk 0 in
      (c_wr (set_arr st2 h a) a 0 d, [])
    | OInitView dyn h src o l =>
      with1 st src (fun a =>
        let '(e', c', b', p') := sc_array_init_view (a_esz a) (a_cnt a) (a_balloc a) (a_off a) o l in
        (set_arr (alloc_struct st dyn) h (mkarr dyn e' c' b' (a_blk a) p'), []))
    | OInitReshape h src e n =>
      with1 st src (fun a =>
        let '(e', c', b', p') := sc_array_init_data (a_off a) e n in
        (set_arr st h (mkarr false e' c' b' (a_blk a) p'), []))
    | OInitData dyn h src bo e n =>
      with1 st src (fun a =>
        let '(e', c', b', p') := sc_array_init_data (a_off a + bo) e n in
        (set_arr (alloc_struct st dyn) h (mkarr dyn e' c' b' (a_blk a) p'), []))
    | OReset h => with1 st h (fun a => (c_reset st h a, []))
    | ODestroy h =>
      with1 st h (fun a =>
        let '(act, self) := sc_array_destroy (a_esz a) (a_cnt a) (a_balloc a) (a_off a) in
        let st1 := if act =? 5 then c_free st (a_blk a) else st in
        let st2 := if self =? 1 then add_counts st1 0 1 else st1 in
        (del_arr st2 h, []))
    | ODrop h => with1 st h (fun a => (del_arr (c_reset st h a) h, []))
    | OTruncate h =>
      with1 st h (fun a => (set_arr st h (with_cnt a (sc_array_truncate (a_esz a) (a_cnt a) (a_balloc a) (a_off a))), []))
    | ORewind h n =>
      with1 st h (fun a =>
        let '(c', act) := sc_array_rewind (a_esz a) (a_cnt a) (a_balloc a) (a_off a) n in
        ((if act =? 1 then c_reset st h a else set_arr st h (with_cnt a c')), []))
    | OResize h n d =>
      with1 st h (fun a =>
        let st1 := c_resize st h a n in
        match cget st1 h with
        | Some a1 => (c_wr st1 a1 (a_cnt a * a_esz a) d, [])
        | None => (set_bad st1, [])
        end)
    | OPushCount h k d => with1 st h (fun a => (c_push_count st h a k d, []))
    | OPush h d => with1 st h (fun a => (c_push_count st h a 1 d, []))
    | OPop h =>
      with1 st h (fun a =>
        let '(c', ret) := sc_array_pop (a_esz a) (a_cnt a) (a_balloc a) (a_off a) in
        let a1 := with_cnt a c' in
        let st1 := set_arr st h a1 in
        (c_chk st1 a1 (ret - a_off a) (a_esz a), c_rd st1 a1 (ret - a_off a) (a_esz a)))
    | OCopy dst src =>
      with2 st dst src (fun a b =>
        let st1 := c_resize st dst a (a_cnt b) in
        if (a_cnt b =? 0) || (a_esz b =? 0) then (st1, []) else
        match cget st1 dst with
        | Some a1 => (c_wr (c_chk_all st1 b) a1 0 (c_content st1 b), [])
        | None => (set_bad st1, [])
        end)
    | OCopyInto dst o src =>
      with2 st dst src (fun a b =>
        if (a_cnt b =? 0) || (a_esz b =? 0) then (st, []) else
        (c_wr (c_chk_all st b) a (o * a_esz a) (c_content st b), []))
    | OMovePart dst od src os n =>
      with2 st dst src (fun a b =>
        if (n =? 0) || (a_esz b =? 0) then (st, []) else
        (c_wr (c_chk st b (os * a_esz b) (n * a_esz b)) a (od * a_esz a) (c_rd st b (os * a_esz b) (n * a_esz b)), []))
    | OMemset h c =>
      with1 st h (fun a => (c_wr st a 0 (repeat (c mod 256) (Z.to_nat (a_cnt a * a_esz a))), []))
    | OSet h i d =>
      with1 st h (fun a =>
        (c_wr st a (sc_array_index (a_esz a) (a_cnt a) (a_balloc a) (a_off a) i - a_off a) d, []))
    | OIndex h i =>
      with1 st h (fun a =>
        let p := sc_array_index (a_esz a) (a_cnt a) (a_balloc a) (a_off a) i - a_off a in
        (c_chk st a p (a_esz a), c_rd st a p (a_esz a)))
    | OSort h =>
      with1 st h (fun a => (c_wr (c_chk_all st a) a 0 (concat (sort (c_elems st a))), []))
    | OUniq h =>
      with1 st h (fun a =>
        if a_cnt a =? 0 then (st, []) else
        let l' := uniq_model cmp (c_elems st a) in
        let st1 := c_wr (c_chk_all st a) a 0 (concat l') in
        (c_resize st1 h a (Z.of_nat (length l')), []))
    | OIsSorted h => with1 st h (fun a => (c_chk_all st a, [is_sorted cmp (c_elems st a)]))
    | OIsEqual h1 h2 =>
      with2 st h1 h2 (fun a b =>
        if negb (a_esz a =? a_esz b) || negb (a_cnt a =? a_cnt b) then (st, [0])
        else (c_chk_all (c_chk_all st a) b, [b2z (list_eqb (c_content st a) (c_content st b))]))
    | OBsearch h key => with1 st h (fun a => (c_chk_all st a, [find key (c_elems st a)]))
    | OChecksum h =>
      with1 st h (fun a =>
        if a_cnt a =? 0 then (st, [adler_init]) else (c_chk_all st a, [adler_upd adler_init (c_content st a)]))
    | OIsPerm h =>
      with1 st h (fun a => (add_counts (c_chk_all st a) 1 1, [is_perm (map le_dec (c_elems st a))]))
    | OSplit h offs T =>
      with2 st h offs (fun a ao =>
        let st1 := c_resize st offs ao (T + 1) in
        match cget st1 offs, split_model (map tyf (c_elems st1 a)) T with
        | Some ao1, Some ol => (c_wr (c_chk_all st1 a) ao1 0 (concat (map le64_enc ol)), [])
        | _, _ => (set_bad st1, [])
        end)
    | OPermute h p keep =>
      with2 st h p (fun a ap =>
        if a_cnt a =? 0 then (add_counts st 1 1, []) else
        let k := if keep then 2 else 1 in
        match permute_model (c_elems st a) (map le_dec (c_elems st ap)) with
        | Some (l', ni') =>
          let st1 := c_wr (c_chk_all (c_chk_all st a) ap) a 0 (concat l') in
          let st2 := if keep then st1 else c_wr st1 ap 0 (concat (map le64_enc ni')) in
          (add_counts st2 k k, [])
        | None => (set_bad st, [])
        end)
    end.

  Definition c_step (st : cstate) (o : op) : cstate := let '(st', out) := c_exec st o in push_out st' out.
  Definition run (ops : list op) : cstate := fold_left c_step ops c_init.

  (* --- the reference: plain sequences ---------------------------------------------------------------- *)
  Definition s_wr' (s : sstate) (h : nat) (a : sarr) (p : Z) (d : list Z) : sstate :=
    match d with [] => s | _ => s_wr s h a p d end.
  Definition s_elems (s : sstate) (h : nat) (a : sarr) : list (list Z) := elems (s_esz a) (s_cnt a) (s_content s h a).
  (* set the count to n and replace the bytes from position p on by d *)
  Definition s_resize_wr (s : sstate) (h : nat) (a : sarr) (n p : Z) (d : list Z) : sstate :=
    match a with
    | SOwn dy e _ b => s_set s h (Some (SOwn dy e n (firstn (Z.to_nat p) b ++ d)))
    | SView dy r boff e _ cap =>
      let a1 := SView dy r boff e n cap in s_wr' (s_set s h (Some a1)) h a1 p d
    end.
  Definition s_reset (s : sstate) (h : nat) (a : sarr) : sstate := s_set s h (Some (SOwn (s_dyn a) (s_esz a) 0 [])).
  Definition s_mkview (s : sstate) (dyn : bool) (h src : nat) (a : sarr) (bo e n : Z) : sstate :=
    let '(r, base) := s_root src a in s_set s h (Some (SView dyn r (base + bo) e n (n * e))).

  Definition swith1 (s : sstate) (h : nat) (f : sarr -> sstate * list Z) : sstate * list Z :=
    match sget s h with Some a => f a | None => (s, []) end.
  Definition swith2 (s : sstate) (h1 h2 : nat) (f : sarr -> sarr -> sstate * list Z) : sstate * list Z :=
    match sget s h1, sget s h2 with Some a, Some b => f a b | _, _ => (s, []) end.

  Definition s_exec (s : sstate) (o : op) : sstate * list Z :=
    match o with
    | OInit dyn h e => (s_set s h (Some (SOwn dyn e 0 [])), [])
    | OInitCount dyn h e n d => (s_set s h (Some (SOwn dyn e n d)), [])
    | OInitView dyn h src o l => swith1 s src (fun a => (s_mkview s dyn h src a (o * s_esz a) (s_esz a) l, []))
    | OInitReshape h src e n => swith1 s src (fun a => (s_mkview s false h src a 0 e n, []))
    | OInitData dyn h src bo e n => swith1 s src (fun a => (s_mkview s dyn h src a bo e n, []))
    | OReset h => swith1 s h (fun a => (s_reset s h a, []))
    | ODestroy h => (s_set s h None, [])
    | ODrop h => (s_set s h None, [])
    | OTruncate h => swith1 s h (fun a => (s_resize_wr s h a 0 0 [], []))
    | ORewind h n => swith1 s h (fun a => (s_resize_wr s h a n (n * s_esz a) [], []))
    | OResize h n d => swith1 s h (fun a => (s_resize_wr s h a n (Z.min (s_cnt a) n * s_esz a) d, []))
    | OPushCount h k d => swith1 s h (fun a => (s_resize_wr s h a (s_cnt a + k) (s_cnt a * s_esz a) d, []))
    | OPush h d => swith1 s h (fun a => (s_resize_wr s h a (s_cnt a + 1) (s_cnt a * s_esz a) d, []))
    | OPop h =>
      swith1 s h (fun a => (s_resize_wr s h a (s_cnt a - 1) ((s_cnt a - 1) * s_esz a) [],
                            s_rd s h a ((s_cnt a - 1) * s_esz a) (s_esz a)))
    | OCopy dst src => swith2 s dst src (fun a b => (s_resize_wr s dst a (s_cnt b) 0 (s_content s src b), []))
    | OCopyInto dst o src => swith2 s dst src (fun a b => (s_wr' s dst a (o * s_esz a) (s_content s src b), []))
    | OMovePart dst od src os n =>
      swith2 s dst src (fun a b => (s_wr' s dst a (od * s_esz a) (s_rd s src b (os * s_esz b) (n * s_esz b)), []))
    | OMemset h c => swith1 s h (fun a => (s_wr' s h a 0 (repeat (c mod 256) (Z.to_nat (s_cnt a * s_esz a))), []))
    | OSet h i d => swith1 s h (fun a => (s_wr' s h a (i * s_esz a) d, []))
    | OIndex h i => swith1 s h (fun a => (s, s_rd s h a (i * s_esz a) (s_esz a)))
    | OSort h => swith1 s h (fun a => (s_wr' s h a 0 (concat (sort (s_elems s h a))), []))
    | OUniq h =>
      swith1 s h (fun a =>
        let l' := uniq_spec cmp (s_elems s h a) in
        (s_resize_wr s h a (Z.of_nat (length l')) 0 (concat l'), []))
    | OIsSorted h => swith1 s h (fun a => (s, [is_sorted cmp (s_elems s h a)]))
    | OIsEqual h1 h2 =>
      swith2 s h1 h2 (fun a b =>
        (s, [b2z ((s_esz a =? s_esz b) && (s_cnt a =? s_cnt b) && list_eqb (s_content s h1 a) (s_content s h2 b))]))
    | OBsearch h key => swith1 s h (fun a => (s, [find key (s_elems s h a)]))
    | OChecksum h => swith1 s h (fun a => (s, [if s_cnt a =? 0 then adler_init else adler_upd adler_init (s_content s h a)]))
    | OIsPerm h => swith1 s h (fun a => (s, [is_perm (map le_dec (s_elems s h a))]))
    | OSplit h offs T =>
      swith2 s h offs (fun a ao =>
        (s_resize_wr s offs ao (T + 1) 0 (concat (map le64_enc (split_spec (map tyf (s_elems s h a)) T))), []))
    | OPermute h p keep =>
      swith2 s h p (fun a ap =>
        let l' := permute_spec (s_elems s h a) (map le_dec (s_elems s p ap)) in
        let s1 := s_wr' s h a 0 (concat l') in
        ((if keep then s1 else
          match sget s1 p with
          | Some ap1 => s_wr' s1 p ap1 0 (concat (map (fun k => le64_enc (Z.of_nat k)) (seq 0 (length l'))))
          | None => s1
          end), []))
    end.
  Definition s_step (s : sstate) (o : op) : sstate := let '(s', out) := s_exec s o in s_out s' out.
  Definition run_spec (ops : list op) : sstate := fold_left s_step ops s_init.

  (* --- documented preconditions, decided on the reference state ----------------------------------- *)
  Definition s_cap (a : sarr) : Z := match a with SOwn _ _ _ _ => MAXB | SView _ _ _ _ _ cap => cap end.
  Definition can_resize (s : sstate) (h : nat) (a : sarr) (n : Z) : bool :=      (* sc_array_resize (a, n) is allowed *)
    (0 <=? n) && (n * s_esz a <=? s_cap a) && (if s_isown a then negb (rooted s h) else true).
  Definition owner_free (s : sstate) (h : nat) (a : sarr) : bool := s_isown a && negb (rooted s h).
  Definition root_ne (h1 : nat) (a : sarr) (h2 : nat) (b : sarr) : bool := negb (Nat.eqb (fst (s_root h1 a)) (fst (s_root h2 b))).
  Definition disjoint (h1 : nat) (a : sarr) (p1 n1 : Z) (h2 : nat) (b : sarr) (p2 n2 : Z) : bool :=
    root_ne h1 a h2 b || (snd (s_root h1 a) + p1 + n1 <=? snd (s_root h2 b) + p2) || (snd (s_root h2 b) + p2 + n2 <=? snd (s_root h1 a) + p1).
  Definition lwith1 (s : sstate) (h : nat) (f : sarr -> bool) : bool := match sget s h with Some a => f a | None => false end.
  Definition lwith2 (s : sstate) (h1 h2 : nat) (f : sarr -> sarr -> bool) : bool :=
    match sget s h1, sget s h2 with Some a, Some b => f a b | _, _ => false end.

  Definition legal_step (s : sstate) (o : op) : bool :=
    match o with
    | OInit dyn h e => is_free s h && (1 <=? e) && (e <=? MAXB)
    | OInitCount dyn h e n d => is_free s h && (1 <=? e) && (0 <=? n) && (n * e <=? MAXB) && (len d =? n * e) && bytes_ok d
    | OInitView dyn h src o l => is_free s h && lwith1 s src (fun a => (0 <=? o) && (0 <=? l) && (o + l <=? s_cnt a))
    | OInitReshape h src e n => is_free s h && lwith1 s src (fun a => (1 <=? e) && (0 <=? n) && (e * n =? s_esz a * s_cnt a))
    | OInitData dyn h src bo e n =>
      is_free s h && lwith1 s src (fun a => (0 <=? bo) && (1 <=? e) && (0 <=? n) && (bo + n * e <=? s_cnt a * s_esz a))
    | OReset h => lwith1 s h (fun a => if s_isown a then negb (rooted s h) else true)
    | ODestroy h => lwith1 s h (fun a => s_dyn a && (if s_isown a then negb (rooted s h) else true))
    | ODrop h => lwith1 s h (fun a => negb (s_dyn a) && (if s_isown a then negb (rooted s h) else true))
    | OTruncate h => lwith1 s h (fun a => owner_free s h a)
    | ORewind h n => lwith1 s h (fun a => (0 <=? n) && (n <=? s_cnt a) && (if s_isown a then negb (rooted s h) else true))
    | OResize h n d =>
      lwith1 s h (fun a => can_resize s h a n && (len d =? Z.max 0 (n - s_cnt a) * s_esz a) && bytes_ok d)
    | OPushCount h k d =>
      lwith1 s h (fun a => owner_free s h a && (0 <=? k) && ((s_cnt a + k) * s_esz a <=? MAXB) && (len d =? k * s_esz a) && bytes_ok d)
    | OPush h d =>
      lwith1 s h (fun a => owner_free s h a && ((s_cnt a + 1) * s_esz a <=? MAXB) && (len d =? s_esz a) && bytes_ok d)
    | OPop h => lwith1 s h (fun a => owner_free s h a && (0 <? s_cnt a))
    | OCopy dst src =>
      lwith2 s dst src (fun a b => owner_free s dst a && negb (Nat.eqb dst src) && (s_esz a =? s_esz b))
    | OCopyInto dst o src =>
      lwith2 s dst src (fun a b => (s_esz a =? s_esz b) && (0 <=? o) && (o + s_cnt b <=? s_cnt a) &&
                                   ((s_cnt b =? 0) || disjoint dst a (o * s_esz a) (s_cnt b * s_esz b) src b 0 (s_cnt b * s_esz b)))
    | OMovePart dst od src os n =>
      lwith2 s dst src (fun a b => (s_esz a =? s_esz b) && (0 <=? od) && (0 <=? os) && (0 <=? n) &&
                                   (od + n <=? s_cnt a) && (os + n <=? s_cnt b))
    | OMemset h c => lwith1 s h (fun a => (0 <=? c) && (c <? 256))
    | OSet h i d => lwith1 s h (fun a => (0 <=? i) && (i <? s_cnt a) && (len d =? s_esz a) && bytes_ok d)
    | OIndex h i => lwith1 s h (fun a => (0 <=? i) && (i <? s_cnt a))
    | OSort h => lwith1 s h (fun _ => true)
    | OUniq h => lwith1 s h (fun a => owner_free s h a)
    | OIsSorted h => lwith1 s h (fun _ => true)
    | OIsEqual h1 h2 => lwith2 s h1 h2 (fun _ _ => true)
    | OBsearch h key => lwith1 s h (fun a => len key =? s_esz a)
    | OChecksum h => lwith1 s h (fun _ => true)
    | OIsPerm h => lwith1 s h (fun a => s_esz a =? 8)
    | OSplit h offs T =>
      lwith2 s h offs (fun a ao =>
        (s_esz ao =? 8) && (0 <=? T) && can_resize s offs ao (T + 1) && root_ne h a offs ao &&
        let types := map tyf (s_elems s h a) in
        sorted_z types && forallb (fun t => (0 <=? t) && (t <? T)) types)
    | OPermute h p keep =>
      lwith2 s h p (fun a ap =>
        (s_esz ap =? 8) && (s_cnt ap =? s_cnt a) && root_ne h a p ap &&
        (is_perm (map le_dec (s_elems s p ap)) =? 1))
    end.
  Fixpoint legal_from (s : sstate) (ops : list op) : bool :=
    match ops with [] => true | o :: r => legal_step s o && legal_from (s_step s o) r end.
  Definition legal (ops : list op) : bool := legal_from s_init ops.
End Model.

(* ---------- concrete instances used by the extracted driver (correspondence run) ---------------------- *)
Fixpoint bcmp (a b : list Z) : Z :=                         (* memcmp *)
  match a, b with
  | [], [] => 0 | [], _ => -1 | _, [] => 1
  | x :: a', y :: b' => if x <? y then -1 else if y <? x then 1 else bcmp a' b'
  end.
Fixpoint insert_sorted (x : list Z) (l : list (list Z)) : list (list Z) :=
  match l with [] => [x] | y :: r => if 0 <? bcmp x y then y :: insert_sorted x r else x :: l end.
Definition isort (l : list (list Z)) : list (list Z) := fold_right insert_sorted [] l.
Fixpoint lfind_from (key : list Z) (l : list (list Z)) (i : Z) : Z :=
  match l with [] => -1 | x :: r => if bcmp key x =? 0 then i else lfind_from key r (i + 1) end.
Definition lfind (key : list Z) (l : list (list Z)) : Z := lfind_from key l 0.
Definition adler_step (ab : Z * Z) (x : Z) : Z * Z := let a := (fst ab + x) mod 65521 in (a, (snd ab + a) mod 65521).
Definition adler32 (crc : Z) (buf : list Z) : Z :=
  let '(a, b) := fold_left adler_step buf (crc mod 65536, crc / 65536) in b * 65536 + a.
Definition first_byte (x : list Z) : Z := match x with [] => 0 | b :: _ => b end.
Definition junk0 (b : nat) (i : Z) : Z := (Z.of_nat b * 37 + i * 11 + 165) mod 256.

Definition c_step0 := c_step junk0 bcmp isort lfind 1 adler32 first_byte.
Definition s_step0 := s_step bcmp isort lfind 1 adler32 first_byte.
Definition legal_step0 := legal_step first_byte.
Definition cobs0 (st : cstate) (h : nat) := cobs st h.
