(* C08 - the SC_ENABLE_DEBUG configuration of sc_array_truncate / _rewind / _reset / _resize, GENERATED as whole functions
   (Gen/ArrayDebugC08.v, regenerated from sc_containers.c on every run): which bytes the Debug build fills with -1.
   Every fill lies inside the array's OWN allocation, at or above the bytes of the elements that survive the call
   (min (old count, new count) * elem_size), and only for an OWNER: a view (byte_alloc < 0) is never filled;
   sc_array_rewind and sc_array_reset fill nothing at all.
   sc_array_resize has three fills: the dropped elements when it shrinks inside the allocation, the elements that become
   visible when it grows inside the allocation (the repair of F-C08g: before, an assertion required 0xff there and aborted
   after sc_array_pop / sc_array_rewind, see old_assert_refuted at the end), the tail of a reallocated block. *)
From Coq Require Import ZArith Lia List Bool ZifyBool.
From ScV Require Import Base.CInt Gen.Macros Gen.ArrayDebugC08 C18.MacroProofs C08.ArrayModel C08.ArrayGen.
Import ListNotations.
Local Open Scope Z_scope.

Lemma dbg_truncate_val a b : 0 <= b <= MAXB -> c8d_truncate a b = (0, 1, a, -1, b).
Proof. intros H. rewrite MAXB_val in H. unfold c8d_truncate. rewrite u64_id by (unfold M64; lia). reflexivity. Qed.

Lemma dbg_rewind_val n b arr c : c8d_rewind n b arr c = if (n =? 0) && (0 <=? b) then (c, 1, arr) else (n, 0, 0).
Proof. reflexivity. Qed.

Lemma dbg_reset_val b a : c8d_reset b a = (0, 0, 0, (if 0 <=? b then 1 else 0), (if 0 <=? b then a else 0)).
Proof. unfold c8d_reset. destruct (0 <=? b); reflexivity. Qed.

Lemma dbg_resize_unfold b n arr c e a ret :
  c8d_resize b n arr c e a ret =
  if negb (0 <=? b) then (n, b, 0, 0, 0, 0, 0, 0, 0, 0, 0, 0, 0, 0, 0, 0, 0, 0, 0)
  else if n =? 0 then (c, b, 1, arr, 0, 0, 0, 0, 0, 0, 0, 0, 0, 0, 0, 0, 0, 0, 0)
  else let newoffs := u64 (n * e) in
       let oldoffs := u64 (c * e) in
       let minoffs := if oldoffs <? newoffs then oldoffs else newoffs in
       let r := roundup_u64 newoffs in
       if (u64 b <? newoffs) || (r <? u64 b)
       then (n, s64 r, 0, 0, 0, 0, 0, 0, 0, 0, 0, 0, 1, a, u64 (u64 (s64 r) * 1), 1, ret + minoffs, -1, u64 (u64 (s64 r) - minoffs))
       else if newoffs <? oldoffs then (n, b, 0, 0, 1, a + newoffs, -1, u64 (oldoffs - newoffs), 0, 0, 0, 0, 0, 0, 0, 0, 0, 0, 0)
       else if oldoffs <? newoffs then (n, b, 0, 0, 0, 0, 0, 0, 1, a + oldoffs, -1, u64 (newoffs - oldoffs), 0, 0, 0, 0, 0, 0, 0)
       else (n, b, 0, 0, 0, 0, 0, 0, 0, 0, 0, 0, 0, 0, 0, 0, 0, 0, 0).
Proof.
  transitivity (
    if negb (0 <=? b) then (n, b, 0, 0, 0, 0, 0, 0, 0, 0, 0, 0, 0, 0, 0, 0, 0, 0, 0)
    else if n =? 0 then (c, b, 1, arr, 0, 0, 0, 0, 0, 0, 0, 0, 0, 0, 0, 0, 0, 0, 0)
    else let newoffs := u64 (n * e) in
         let oldoffs := u64 (c * e) in
         let minoffs := if oldoffs <? newoffs then oldoffs else newoffs in
         let r := roundup_u64 newoffs in
         if (u64 b <? newoffs) || (r <? u64 b)
         then (n, s64 r, 0, 0, 0, 0, 0, 0, 0, 0, 0, 0, 1, a, u64 (u64 (s64 r) * 1), 1, ret + minoffs, -1, u64 (u64 (s64 r) - minoffs))
         else let '(d2, v2, l2, c2, d1, v1, l1, c1) :=
                if newoffs <? oldoffs then (0, 0, 0, 0, a + newoffs, -1, u64 (oldoffs - newoffs), 1)
                else if oldoffs <? newoffs then (a + oldoffs, -1, u64 (newoffs - oldoffs), 1, 0, 0, 0, 0)
                else (0, 0, 0, 0, 0, 0, 0, 0) in
              (n, b, 0, 0, c1, d1, v1, l1, c2, d2, v2, l2, 0, 0, 0, 0, 0, 0, 0)); [reflexivity|].
  destruct (negb (0 <=? b)); [reflexivity|]. destruct (n =? 0); [reflexivity|]. cbv zeta.
  destruct ((u64 b <? u64 (n * e)) || (roundup_u64 (u64 (n * e)) <? u64 b)); [reflexivity|].
  destruct (u64 (n * e) <? u64 (c * e)); [reflexivity|]. destruct (u64 (c * e) <? u64 (n * e)); reflexivity.
Qed.

(* a view: only the count changes, nothing is called, nothing is filled *)
Lemma dbg_resize_view b n arr c e a ret : b < 0 ->
  c8d_resize b n arr c e a ret = (n, b, 0, 0, 0, 0, 0, 0, 0, 0, 0, 0, 0, 0, 0, 0, 0, 0, 0).
Proof. intros. rewrite dbg_resize_unfold. destruct (0 <=? b) eqn:E; [lia|reflexivity]. Qed.

(* an owner.  m1 = fill of the dropped elements (shrink, allocation kept): exactly [n * e, c * e);
   m2 = fill of the elements that become visible (growth, allocation kept): exactly [c * e, n * e), inside the kept allocation;
   m3 = fill of the tail of the reallocated block of exactly b' bytes: [min (c, n) * e, b').
   At most one of them happens; none touches a byte below min (c, n) * e or outside the allocation. *)
Lemma dbg_resize_owner b n arr c e a ret c' b' rc ra m1c m1d m1v m1n m2c m2d m2v m2n rlc rlp rls m3c m3d m3v m3n :
  0 < e -> 0 <= c -> 0 <= n -> c * e <= b -> n * e <= MAXB -> 0 <= b <= MAXB ->
  c8d_resize b n arr c e a ret = (c', b', rc, ra, m1c, m1d, m1v, m1n, m2c, m2d, m2v, m2n, rlc, rlp, rls, m3c, m3d, m3v, m3n) ->
  (m1c = 0 \/ m1c = 1) /\ (m2c = 0 \/ m2c = 1) /\ (m3c = 0 \/ m3c = 1) /\ m1c + m2c + m3c <= 1 /\
  (m1c = 1 -> rlc = 0 /\ b' = b /\ n < c /\ m1v = -1 /\ m1d = a + n * e /\ m1n = c * e - n * e /\ m1d + m1n <= a + b) /\
  (m2c = 1 -> rlc = 0 /\ b' = b /\ c < n /\ m2v = -1 /\ m2d = a + c * e /\ m2n = n * e - c * e /\ m2d + m2n <= a + b) /\
  (m3c = 1 -> rlc = 1 /\ rlp = a /\ rls = b' /\ m3v = -1 /\ 0 <= m3n /\ m3d = ret + Z.min c n * e /\ m3d + m3n = ret + b' /\ n * e <= b') /\
  (rc = 1 -> n = 0 /\ m1c = 0 /\ m2c = 0 /\ m3c = 0).
Proof.
  intros He Hc Hn Hinv Hne Hb. rewrite dbg_resize_unfold. rewrite MAXB_val in *.
  destruct (0 <=? b) eqn:E; [|lia]. cbn [negb].
  destruct (n =? 0) eqn:En.
  { intros [= <- <- <- <- <- <- <- <- <- <- <- <- <- <- <- <- <- <- <-]. repeat split; try (intros; discriminate); auto; lia. }
  cbv zeta.
  assert (Hpos : 0 < n * e) by nia.
  rewrite (u64_id (n * e)) by (unfold M64; lia).
  rewrite (u64_id (c * e)) by (unfold M64; nia).
  rewrite (u64_id b) by (unfold M64; lia).
  destruct (roundup_u64_correct (n * e)) as [[Hr1 _] Hr2]; [rewrite MAXB_val; lia|]. rewrite MAXB_val in Hr2.
  set (r := roundup_u64 (n * e)) in *.
  set (mo := if c * e <? n * e then c * e else n * e).
  assert (Hmo : mo = Z.min c n * e) by (unfold mo; destruct (c * e <? n * e) eqn:Em; nia).
  destruct ((b <? n * e) || (r <? b)) eqn:Ec.
  - rewrite (s64_id r) by (unfold in_s64, M64; lia).
    rewrite (u64_id r) by (unfold M64; lia). rewrite Z.mul_1_r.
    rewrite (u64_id r) by (unfold M64; lia).
    rewrite (u64_id (r - mo)) by (unfold M64; nia).
    intros [= <- <- <- <- <- <- <- <- <- <- <- <- <- <- <- <- <- <- <-].
    repeat split; try (intros; discriminate); auto; try lia; nia.
  - apply orb_false_iff in Ec. destruct Ec as [E1 E2].
    destruct (n * e <? c * e) eqn:Es.
    + rewrite (u64_id (c * e - n * e)) by (unfold M64; nia).
      intros [= <- <- <- <- <- <- <- <- <- <- <- <- <- <- <- <- <- <- <-].
      repeat split; try (intros; discriminate); auto; try lia; nia.
    + destruct (c * e <? n * e) eqn:Eg.
      * rewrite (u64_id (n * e - c * e)) by (unfold M64; nia).
        intros [= <- <- <- <- <- <- <- <- <- <- <- <- <- <- <- <- <- <- <-].
        repeat split; try (intros; discriminate); auto; try lia; nia.
      * intros [= <- <- <- <- <- <- <- <- <- <- <- <- <- <- <- <- <- <- <-].
        repeat split; try (intros; discriminate); auto; lia.
Qed.

(* ---------- regression guard for F-C08g --------------------------------------------------------------------------------
   The Debug build used to CHECK, instead of fill, the bytes [oldoffs, newoffs) when an owner grows inside its allocation:
   for (i = oldoffs; i < newoffs; ++i) SC_ASSERT (array->array[i] == (char) -1).  As a predicate on the bytes of the block: *)
Definition old_debug_assert (blk : list Z) (oldoffs newoffs : Z) : bool :=
  forallb (fun x => x =? 255) (sub blk oldoffs (newoffs - oldoffs)).

(* push; push; pop leaves the popped element in the block of the concrete machine (whatever junk fresh memory holds); the
   following sc_array_resize (a, 2) is legal, keeps the allocation and makes exactly these bytes visible (the generated
   function fills them, m2) - the old assertion is false on them: the Debug build aborted on a legal history. *)
Definition guard_ops : list op := [OInit false 0 4; OPush 0 [1; 2; 3; 4]; OPush 0 [5; 6; 7; 8]; OPop 0].

Lemma old_assert_refuted : forall junk : nat -> Z -> Z,
  let st := run junk bcmp isort lfind 1 adler32 first_byte guard_ops in
  legal bcmp isort lfind 1 adler32 first_byte (guard_ops ++ [OResize 0 2 [9; 9; 9; 9]]) = true /\
  exists a, cget st 0 = Some a /\ a_esz a = 4 /\ a_cnt a = 1 /\ a_balloc a = 8 /\ a_off a = 0 /\
    hget (c_heap st) (a_blk a) = [1; 2; 3; 4; 5; 6; 7; 8] /\
    (forall p ret arr, c8d_resize (a_balloc a) 2 arr (a_cnt a) (a_esz a) p ret =
                       (2, 8, 0, 0, 0, 0, 0, 0, 1, p + 4, -1, 4, 0, 0, 0, 0, 0, 0, 0)) /\
    old_debug_assert (hget (c_heap st) (a_blk a)) (a_cnt a * a_esz a) (2 * a_esz a) = false.
Proof.
  intros junk. split; [vm_compute; reflexivity|].
  eexists. split; [vm_compute; reflexivity|]. cbn [a_esz a_cnt a_balloc a_off a_blk].
  repeat split; reflexivity.
Qed.

(* the statements are not vacuous: a shrink and a growth inside the allocation, a reallocation *)
Example dbg_resize_examples :
  c8d_resize 16 3 0 4 4 1000 2000 = (3, 16, 0, 0, 1, 1012, -1, 4, 0, 0, 0, 0, 0, 0, 0, 0, 0, 0, 0) /\
  c8d_resize 16 4 0 3 4 1000 2000 = (4, 16, 0, 0, 0, 0, 0, 0, 1, 1012, -1, 4, 0, 0, 0, 0, 0, 0, 0) /\
  c8d_resize 16 9 0 4 4 1000 2000 = (9, 64, 0, 0, 0, 0, 0, 0, 0, 0, 0, 0, 1, 1000, 64, 1, 2016, -1, 48).
Proof. repeat split; vm_compute; reflexivity. Qed.
