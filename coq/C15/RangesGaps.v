(* C15 - peers in ascending order and the empty ranges (gaps) between them *)
From Coq Require Import ZArith List Bool Lia Sorting.Sorted.
From ScV Require Import Base.CInt C15.RangesModel.
Import ListNotations.
Local Open Scope Z_scope.

(* --- ascending lists ---------------------------------------------------------------------------- *)
Lemma seq_sorted a n : StronglySorted lt (seq a n).
Proof.
  revert a; induction n as [|n IH]; intros a; cbn [seq]; constructor; [apply IH|].
  apply Forall_forall. intros x Hx. apply in_seq in Hx. lia.
Qed.

Lemma zseq_sorted n : StronglySorted Z.lt (zseq n).
Proof.
  unfold zseq. generalize (seq_sorted 0 n). generalize (seq 0 n). intros l H.
  induction H as [|a l Hs IH Hf]; cbn [map]; constructor; [exact IH|].
  apply Forall_forall. intros x Hx. apply in_map_iff in Hx. destruct Hx as [y [<- Hy]].
  rewrite Forall_forall in Hf. specialize (Hf _ Hy). lia.
Qed.

Lemma zseq_In n j : In j (zseq n) <-> 0 <= j < Z.of_nat n.
Proof.
  unfold zseq. rewrite in_map_iff. split.
  - intros [x [<- Hx]]. apply in_seq in Hx. lia.
  - intros H. exists (Z.to_nat j). split; [lia|apply in_seq; lia].
Qed.

Lemma filter_sorted {A} (R : A -> A -> Prop) f l : StronglySorted R l -> StronglySorted R (filter f l).
Proof.
  induction 1 as [|a l Hs IH Hf]; cbn [filter]; [constructor|].
  destruct (f a); [|exact IH]. constructor; [exact IH|].
  apply Forall_forall. intros x Hx. apply filter_In in Hx. rewrite Forall_forall in Hf. apply Hf. tauto.
Qed.

Lemma peers_sorted procs rank : StronglySorted Z.lt (peers procs rank).
Proof. unfold peers. apply filter_sorted. apply zseq_sorted. Qed.

Lemma peers_In procs rank j :
  In j (peers procs rank) <-> 0 <= j < Z.of_nat (length procs) /\ is_peer procs rank j = true.
Proof. unfold peers. rewrite filter_In, zseq_In. tauto. Qed.

Lemma sorted_hd_le l d x : StronglySorted Z.lt l -> In x l -> hd d l <= x.
Proof.
  intros H Hx. destruct l as [|a r]; [contradiction|]. cbn [hd].
  destruct Hx as [->|Hx]; [lia|]. apply StronglySorted_inv in H. destruct H as [_ H].
  rewrite Forall_forall in H. specialize (H _ Hx). lia.
Qed.

Lemma sorted_last_ge l : StronglySorted Z.lt l -> forall d x, In x l -> x <= last l d.
Proof.
  induction 1 as [|a r Hs IH Hf]; intros d x Hx; [contradiction|].
  destruct r as [|b r']; [destruct Hx as [->|[]]; cbn; lia|].
  change (last (a :: b :: r') d) with (last (b :: r') d).
  destruct Hx as [->|Hx]; [|apply IH; exact Hx].
  rewrite Forall_forall in Hf. specialize (IH d b (or_introl eq_refl)). specialize (Hf b (or_introl eq_refl)). lia.
Qed.

Lemma last_In {A} (l : list A) d : l <> [] -> In (last l d) l.
Proof.
  induction l as [|a r IH]; [congruence|]. intros _. destruct r as [|b r']; [left; reflexivity|].
  right. apply IH. discriminate.
Qed.

(* --- gaps ----------------------------------------------------------------------------------------- *)
(* a gap of the ascending list l: a maximal run of non-members between two members *)
Definition is_gap (l : list Z) (g : pair) : Prop :=
  fst g <= snd g /\ In (fst g - 1) l /\ In (snd g + 1) l /\ forall j, fst g <= j <= snd g -> ~ In j l.

(* every gap starts above f, ends at or after its start, and the next one starts at least two later *)
Fixpoint chain (f : Z) (G : list pair) : Prop :=
  match G with
  | [] => True
  | g :: r => f < fst g /\ fst g <= snd g /\ chain (snd g + 1) r
  end.

Lemma chain_weaken G : forall f f', f' <= f -> chain f G -> chain f' G.
Proof. destruct G as [|g r]; intros f f' H C; [exact I|]. cbn [chain] in *. intuition lia. Qed.

Lemma gaps_of_chain l : StronglySorted Z.lt l -> forall p r, l = p :: r -> chain p (gaps_of l).
Proof.
  induction 1 as [|a l' Hs IH Hf]; intros p r E; [discriminate|]. injection E as -> ->.
  destruct r as [|q r']; [exact I|].
  change (gaps_of (p :: q :: r')) with ((if p <? q - 1 then [(p + 1, q - 1)] else []) ++ gaps_of (q :: r')).
  specialize (IH q r' eq_refl).
  rewrite Forall_forall in Hf. pose proof (Hf q (or_introl eq_refl)) as Hpq.
  destruct (p <? q - 1) eqn:E; cbn [app].
  - apply Z.ltb_lt in E. cbn [chain fst snd]. split; [lia|]. split; [lia|].
    replace (q - 1 + 1) with q by lia. exact IH.
  - eapply chain_weaken; [|exact IH]. lia.
Qed.

Lemma chain_In G : forall f g, chain f G -> In g G -> f < fst g /\ fst g <= snd g.
Proof.
  induction G as [|h r IH]; intros f g C Hg; [contradiction|]. cbn [chain] in C. destruct C as (C1 & C2 & C3).
  destruct Hg as [->|Hg]; [split; assumption|]. specialize (IH _ _ C3 Hg). lia.
Qed.

Definition sep (a b : pair) : Prop := snd a + 1 < fst b.

Lemma chain_pairs G : forall f, chain f G -> ForallOrdPairs sep G.
Proof.
  induction G as [|h r IH]; intros f C; [constructor|]. cbn [chain] in C. destruct C as (C1 & C2 & C3).
  constructor; [|eapply IH; exact C3]. apply Forall_forall. intros b Hb. unfold sep.
  pose proof (chain_In _ _ _ C3 Hb). lia.
Qed.

Lemma gaps_of_is_gap l : StronglySorted Z.lt l -> forall g, In g (gaps_of l) -> is_gap l g.
Proof.
  induction 1 as [|p l' Hs IH Hf]; intros g Hg; [contradiction|].
  destruct l' as [|q r']; [contradiction|].
  change (gaps_of (p :: q :: r')) with ((if p <? q - 1 then [(p + 1, q - 1)] else []) ++ gaps_of (q :: r')) in Hg.
  rewrite Forall_forall in Hf. pose proof (Hf q (or_introl eq_refl)) as Hpq.
  apply in_app_or in Hg. destruct Hg as [Hg|Hg].
  - destruct (p <? q - 1) eqn:E; [|contradiction]. apply Z.ltb_lt in E. destruct Hg as [<-|[]].
    unfold is_gap; cbn [fst snd]. split; [lia|]. split; [left; lia|]. split; [right; left; lia|].
    intros j Hj [X|[X|X]]; try lia.
    apply StronglySorted_inv in Hs. destruct Hs as [_ Hq]. rewrite Forall_forall in Hq. specialize (Hq _ X). lia.
  - specialize (IH g Hg). destruct IH as (G1 & G2 & G3 & G4).
    split; [exact G1|]. split; [right; exact G2|]. split; [right; exact G3|].
    intros j Hj [X|X]; [|exact (G4 j Hj X)]. subst j.
    assert (q <= fst g - 1) by (apply (sorted_hd_le (q :: r') 0); assumption). lia.
Qed.

(* completeness: two members without a member in between, more than one apart, delimit a gap of the list *)
Lemma gaps_of_complete l : StronglySorted Z.lt l -> forall p q, In p l -> In q l -> p < q - 1 ->
  (forall j, p < j < q -> ~ In j l) -> In (p + 1, q - 1) (gaps_of l).
Proof.
  induction 1 as [|a l' Hs IH Hf]; intros p q Hp Hq Hlt Hno; [contradiction|].
  destruct l' as [|b r']; [destruct Hp as [<-|[]]; destruct Hq as [<-|[]]; lia|].
  change (gaps_of (a :: b :: r')) with ((if a <? b - 1 then [(a + 1, b - 1)] else []) ++ gaps_of (b :: r')).
  rewrite Forall_forall in Hf. pose proof (Hf b (or_introl eq_refl)) as Hab.
  apply in_or_app.
  destruct Hp as [<-|Hp].
  - (* p is the head: q must be b *)
    destruct Hq as [<-|Hq]; [lia|].
    assert (b <= q) by (apply (sorted_hd_le (b :: r') 0); assumption).
    assert (q = b). { destruct (Z.eq_dec q b) as [->|N]; [reflexivity|]. exfalso. apply (Hno b); [lia|right; left; reflexivity]. }
    subst q. left. replace (a <? b - 1) with true by (symmetry; apply Z.ltb_lt; lia). left; reflexivity.
  - right. destruct Hq as [<-|Hq].
    + specialize (Hf _ Hp). lia.
    + apply IH; try assumption. intros j Hj X. apply (Hno j Hj). right; exact X.
Qed.

Lemma chain_NoDup G : forall f, chain f G -> NoDup G.
Proof.
  induction G as [|g G IH]; intros f C; [constructor|].
  pose proof (chain_pairs _ _ C) as FP. inversion FP as [|? ? Hg FP']; subst.
  cbn [chain] in C. destruct C as (C1 & C2 & C3).
  constructor; [|eapply IH; exact C3].
  intros X. rewrite Forall_forall in Hg. specialize (Hg _ X). unfold sep in Hg. lia.
Qed.

Lemma gaps_of_NoDup l : StronglySorted Z.lt l -> NoDup (gaps_of l).
Proof.
  intros H. destruct l as [|p r]; [constructor|].
  eapply chain_NoDup. eapply gaps_of_chain; [exact H|reflexivity].
Qed.

Lemma gaps_of_pairs l : StronglySorted Z.lt l -> ForallOrdPairs sep (gaps_of l).
Proof.
  intros H. destruct l as [|p r]; [constructor|].
  eapply chain_pairs. eapply gaps_of_chain; [exact H|reflexivity].
Qed.
