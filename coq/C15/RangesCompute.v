(* C15 - sc_ranges_compute: the main theorem *)
From Coq Require Import ZArith List Bool Lia Permutation Sorting.Sorted.
From ScV Require Import Base.CInt C15.RangesModel C15.RangesGaps C15.RangesSelect C15.RangesInvert.
Import ListNotations.
Local Open Scope Z_scope.

Section Compute.
  Variables (procs : list Z) (rank nr : Z).
  Hypothesis Hnr : 1 <= nr.
  Let P : Z := Z.of_nat (length procs).
  Let L : list Z := peers procs rank.
  Let G : list pair := gaps_of L.
  Let m : nat := Z.to_nat (nr - 1).
  Let kept : list pair := kept_gaps procs rank nr.
  Let S : list pair := isort kept.

  Lemma L_sorted : StronglySorted Z.lt L.
  Proof. apply peers_sorted. Qed.

  Lemma L_range j : In j L -> 0 <= j < P.
  Proof. intros H. apply peers_In in H. tauto. Qed.

  Lemma G_gap g : In g G -> is_gap L g.
  Proof. apply gaps_of_is_gap. apply L_sorted. Qed.

  Lemma G_len : Forall (fun g => glen g <= P) G.
  Proof.
    apply Forall_forall. intros g Hg. destruct (G_gap g Hg) as (A & B & C & _).
    apply L_range in B, C. unfold glen. lia.
  Qed.

  Lemma kept_inv : Inv m G kept.
  Proof.
    unfold kept, kept_gaps. fold L G P.
    replace nr with (Z.of_nat m + 1) by (unfold m; lia).
    apply (Inv_fold P m G [] []); [apply Inv_nil|apply gaps_of_NoDup; apply L_sorted|apply G_len].
  Qed.

  Lemma S_perm : Permutation S kept.
  Proof. apply isort_perm. Qed.

  Lemma S_incl : incl S G.
  Proof. intros x Hx. destruct kept_inv as (_ & I & _). apply I. apply (Permutation_in _ S_perm). exact Hx. Qed.

  Lemma S_sep : StronglySorted sep S.
  Proof.
    apply (sorted_sep S G); [apply isort_sorted| |apply S_incl|apply gaps_of_pairs; apply L_sorted|].
    - destruct kept_inv as (N & _). apply (Permutation_NoDup (Permutation_sym S_perm)). exact N.
    - intros g Hg. destruct (G_gap g Hg) as (A & _). exact A.
  Qed.

  Lemma S_length : length S = Nat.min (length G) m.
  Proof. rewrite (Permutation_length S_perm). destruct kept_inv as (_ & _ & E & _). exact E. Qed.

  Hypothesis Lne : L <> [].
  Let fp : Z := hd 0 L.
  Let lp : Z := last L 0.

  Lemma fp_lp : fp <= lp /\ In fp L /\ In lp L.
  Proof.
    assert (In lp L) by (apply last_In; exact Lne).
    assert (In fp L) by (unfold fp; destruct L; [congruence|left; reflexivity]).
    split; [apply (sorted_hd_le L 0); [apply L_sorted|assumption]|split; assumption].
  Qed.

  Lemma S_gwf : gwf fp lp S.
  Proof.
    apply gwf_of_sorted; [|apply fp_lp|apply S_sep].
    intros a Ha. destruct (G_gap a (S_incl a Ha)) as (A & B & C & _).
    pose proof (sorted_hd_le L 0 _ L_sorted B) as X1. pose proof (sorted_last_ge L L_sorted 0 _ C) as X2.
    unfold fp, lp. lia.
  Qed.

  Definition R : list pair := invert fp lp S.

  Lemma R_length : length R = Datatypes.S (Nat.min (length G) m).
  Proof. unfold R. rewrite invert_length, S_length. reflexivity. Qed.

  Lemma R_member r : In r R -> fst r <= snd r /\ In (fst r) L /\ In (snd r) L.
  Proof.
    intros Hr. pose proof (invert_bounds _ _ _ S_gwf r Hr) as B.
    destruct (invert_ends _ _ _ _ Hr) as [E1 E2]. split; [lia|]. split.
    - destruct E1 as [->|[g [G1 ->]]]; [apply fp_lp|]. destruct (G_gap g (S_incl g G1)) as (_ & _ & C & _). exact C.
    - destruct E2 as [->|[g [G1 ->]]]; [apply fp_lp|]. destruct (G_gap g (S_incl g G1)) as (_ & B' & _). exact B'.
  Qed.

  Lemma R_cover p : In p L -> exists r, In r R /\ fst r <= p <= snd r.
  Proof.
    intros Hp.
    pose proof (sorted_hd_le L 0 _ L_sorted Hp) as X1. pose proof (sorted_last_ge L L_sorted 0 _ Hp) as X2.
    assert (Hb : fp <= p <= lp) by (unfold fp, lp; lia).
    destruct (invert_cover _ _ _ S_gwf p Hb) as [X|[g [G1 G2]]]; [exact X|].
    exfalso. destruct (G_gap g (S_incl g G1)) as (_ & _ & _ & D). exact (D p G2 Hp).
  Qed.

  Lemma R_between : between R = S.
  Proof. apply between_invert. Qed.

  (* omitted gaps are at least as long as absorbed ones *)
  Lemma R_optimal o a : In o (between R) -> is_gap L a ->
    (exists r, In r R /\ fst r <= fst a /\ snd a <= snd r) -> glen a <= glen o.
  Proof.
    rewrite R_between. intros Ho Ga [r (R1 & R2 & R3)].
    assert (Ha : In a G).
    { destruct Ga as (A & B & C & D). destruct a as [s e]; cbn [fst snd] in *.
      replace (s, e) with ((s - 1) + 1, (e + 1) - 1) by (f_equal; lia).
      apply gaps_of_complete; [apply L_sorted|exact B|exact C|lia|]. intros j Hj. apply D. lia. }
    assert (Hna : ~ In a kept).
    { intros X. apply (Permutation_in _ (Permutation_sym S_perm)) in X.
      destruct Ga as (A & _). apply (invert_disjoint _ _ _ S_gwf r a (fst a) R1 X); lia. }
    destruct kept_inv as (_ & _ & _ & _ & I5). apply (I5 a Ha Hna). apply (Permutation_in _ S_perm). exact Ho.
  Qed.
End Compute.

(* --- the statement about the function as called ----------------------------------------------------------- *)
Lemma first_last_peers procs rank :
  first_last procs rank = match peers procs rank with [] => (Z.of_nat (length procs), -1) | _ => (hd 0 (peers procs rank), last (peers procs rank) 0) end.
Proof.
  unfold first_last. destruct (peers procs rank) as [|p r] eqn:E; [reflexivity|]. cbn [hd]. f_equal.
  destruct r as [|q r']; [reflexivity|]. cbn [last]. clear. revert q. induction r' as [|x r IH]; intros q; [reflexivity|].
  cbn [last] in *. apply IH.
Qed.

Theorem compute_correct procs rank nr : 1 <= nr ->
  let L := peers procs rank in
  let fl := first_last procs rank in
  let res := ranges_compute procs rank (fst fl) (snd fl) nr in
  let n := fst res in let rs := snd res in
  let filled := firstn (Z.to_nat n) rs in
  length rs = Z.to_nat nr /\ 0 <= n <= nr
  /\ skipn (Z.to_nat n) rs = repeat UNUSED (Z.to_nat nr - Z.to_nat n)
  /\ (L = [] -> n = 0)
  /\ (L <> [] -> n = Z.min (Z.of_nat (length (gaps_of L)) + 1) nr
                 /\ fst (hd UNUSED filled) = hd 0 L /\ snd (last filled UNUSED) = last L 0)
  /\ (forall r, In r filled -> fst r <= snd r /\ In (fst r) L /\ In (snd r) L)
  /\ StronglySorted sep filled
  /\ (forall p, In p L -> exists r, In r filled /\ fst r <= p <= snd r)
  /\ (forall g, In g (between filled) -> is_gap L g)
  /\ (forall o a, In o (between filled) -> is_gap L a ->
                  (exists r, In r filled /\ fst r <= fst a /\ snd a <= snd r) -> glen a <= glen o).
Proof.
  intros Hnr. cbv zeta. rewrite first_last_peers.
  destruct (peers procs rank) as [|p0 l0] eqn:EL.
  - (* no peers *)
    cbn [fst snd]. unfold ranges_compute.
    replace (-1 <? Z.of_nat (length procs)) with true by (symmetry; apply Z.ltb_lt; lia).
    cbn [fst snd Z.to_nat firstn skipn]. rewrite repeat_length, Nat.sub_0_r.
    split; [reflexivity|]. split; [lia|]. split; [reflexivity|]. split; [reflexivity|]. split; [congruence|].
    split; [intros r []|]. split; [constructor|]. split; [intros p []|]. split; [intros g []|intros o a []].
  - assert (Lne : peers procs rank <> []) by (rewrite EL; discriminate).
    rewrite <- EL. cbn [fst snd].
    pose proof (fp_lp procs rank Lne) as (F1 & F2 & F3).
    unfold ranges_compute.
    replace (last (peers procs rank) 0 <? hd 0 (peers procs rank)) with false by (symmetry; apply Z.ltb_ge; exact F1).
    change (invert (hd 0 (peers procs rank)) (last (peers procs rank) 0) (isort (kept_gaps procs rank nr))) with (R procs rank nr).
    cbn [fst snd].
    pose proof (R_length procs rank nr Hnr) as RL.
    set (RR := R procs rank nr) in *.
    assert (Hm : (length RR <= Z.to_nat nr)%nat) by (rewrite RL; lia).
    rewrite Nat2Z.id.
    assert (Ef : firstn (length RR) (RR ++ repeat UNUSED (Z.to_nat nr - length RR)) = RR).
    { rewrite firstn_app, Nat.sub_diag, firstn_all. cbn [firstn]. apply app_nil_r. }
    assert (Es : skipn (length RR) (RR ++ repeat UNUSED (Z.to_nat nr - length RR)) = repeat UNUSED (Z.to_nat nr - length RR)).
    { rewrite skipn_app, Nat.sub_diag, skipn_all. reflexivity. }
    rewrite Ef, Es.
    split; [rewrite app_length, repeat_length; lia|]. split; [lia|]. split; [reflexivity|].
    split; [intros X; congruence|].
    split. { intros _. split; [rewrite RL; lia|]. split; [apply invert_hd|apply invert_last]. }
    split; [intros r Hr; apply (R_member procs rank nr Hnr Lne r Hr)|].
    split; [apply invert_sep; apply (S_gwf procs rank nr Hnr Lne)|].
    split; [intros p Hp; apply (R_cover procs rank nr Hnr Lne p Hp)|].
    split. { intros g Hg. unfold RR in Hg. rewrite (R_between procs rank nr) in Hg. apply (G_gap procs rank). apply (S_incl procs rank nr Hnr). exact Hg. }
    intros o a Ho Ga Hin. apply (R_optimal procs rank nr Hnr Lne o a Ho Ga Hin).
Qed.
