(* C15 - the statements of Props/Properties_C15.v, clause by clause, derived from compute_correct (RangesCompute.v),
   decode_symmetric / decode_outputs (RangesDecode.v) and the adaptive composition (RangesAdaptive.v). *)
From Coq Require Import ZArith List Bool Lia Sorting.Sorted.
From ScV Require Import Base.CInt C15.RangesModel C15.RangesGaps C15.RangesInvert C15.RangesCompute C15.RangesDecode
  C15.RangesAdaptive.
Import ListNotations.
Local Open Scope Z_scope.

(* --- vocabulary of the statements ----------------------------------------------------------------------- *)
(* sc_ranges_compute as its caller (sc_ranges_adaptive, sc_notify.c) invokes it: first_peer / last_peer are the
   extreme peers, or (num_procs, -1) without peers *)
Definition compute_call (procs : list Z) (rank nr : Z) : Z * list pair :=
  ranges_compute procs rank (fst (first_last procs rank)) (snd (first_last procs rank)) nr.
Definition nranges (procs : list Z) (rank nr : Z) : Z := fst (compute_call procs rank nr).
Definition ranges_array (procs : list Z) (rank nr : Z) : list pair := snd (compute_call procs rank nr).
(* the entries the return value announces *)
Definition filled (procs : list Z) (rank nr : Z) : list pair :=
  firstn (Z.to_nat (nranges procs rank nr)) (ranges_array procs rank nr).

Definition covered (rs : list pair) (j : Z) : Prop := exists r, In r rs /\ fst r <= j <= snd r.
(* a gap of the peer list lies inside one range *)
Definition absorbed (rs : list pair) (a : pair) : Prop := exists r, In r rs /\ fst r <= fst a /\ snd a <= snd r.
(* the runs of indices left out between consecutive ranges *)
Definition omitted (rs : list pair) : list pair := between rs.

Lemma is_peer_spec procs rank j : is_peer procs rank j = true <-> proc procs j <> 0 /\ j <> rank.
Proof. unfold is_peer. rewrite andb_true_iff, !negb_true_iff, !Z.eqb_neq. tauto. Qed.

Lemma peers_spec procs rank j :
  In j (peers procs rank) <-> 0 <= j < Z.of_nat (length procs) /\ proc procs j <> 0 /\ j <> rank.
Proof. rewrite peers_In, is_peer_spec. tauto. Qed.

Lemma peers_ascending procs rank : StronglySorted Z.lt (peers procs rank).
Proof. apply peers_sorted. Qed.

(* --- sc_ranges_compute ------------------------------------------------------------------------------------- *)
Section Clauses.
  Variables (procs : list Z) (rank nr : Z).
  Hypothesis Hnr : 1 <= nr.
  Let L := peers procs rank.
  Let C := compute_correct procs rank nr Hnr.

  Lemma compute_shape :
    length (ranges_array procs rank nr) = Z.to_nat nr /\ 0 <= nranges procs rank nr <= nr
    /\ skipn (Z.to_nat (nranges procs rank nr)) (ranges_array procs rank nr)
       = repeat UNUSED (Z.to_nat nr - Z.to_nat (nranges procs rank nr)).
  Proof. destruct C as (C1 & C2 & C3 & _). split; [exact C1|]. split; [exact C2|exact C3]. Qed.

  Lemma compute_count :
    nranges procs rank nr = match L with [] => 0 | _ => Z.min (Z.of_nat (length (gaps_of L)) + 1) nr end.
  Proof.
    destruct C as (_ & _ & _ & C4 & C5 & _). fold L in C4, C5. destruct L as [|p l]; [apply C4; reflexivity|].
    apply C5. discriminate.
  Qed.

  Lemma compute_ends : L <> [] ->
    filled procs rank nr <> [] /\ fst (hd UNUSED (filled procs rank nr)) = hd 0 L
    /\ snd (last (filled procs rank nr) UNUSED) = last L 0.
  Proof.
    intros N. destruct C as (_ & _ & _ & _ & C5 & _). destruct (C5 N) as (_ & F1 & F2).
    split; [|split; [exact F1|exact F2]].
    destruct compute_shape as (S1 & S2 & _). pose proof compute_count as E.
    intros X. apply (f_equal (@length pair)) in X. unfold filled in X. rewrite firstn_length, S1 in X. cbn [length] in X.
    destruct L as [|p l]; [congruence|]. lia.
  Qed.

  Lemma compute_members r : In r (filled procs rank nr) -> fst r <= snd r /\ In (fst r) L /\ In (snd r) L.
  Proof. destruct C as (_ & _ & _ & _ & _ & C6 & _). apply C6. Qed.

  Lemma compute_separated :
    StronglySorted sep (filled procs rank nr) /\ forall g, In g (omitted (filled procs rank nr)) -> is_gap L g.
  Proof. destruct C as (_ & _ & _ & _ & _ & _ & C7 & _ & C9 & _). split; [exact C7|exact C9]. Qed.

  Lemma compute_covers p : In p L -> covered (filled procs rank nr) p.
  Proof. destruct C as (_ & _ & _ & _ & _ & _ & _ & C8 & _). apply C8. Qed.

  Lemma compute_longest_omitted o a :
    In o (omitted (filled procs rank nr)) -> is_gap L a -> absorbed (filled procs rank nr) a -> glen a <= glen o.
  Proof. destruct C as (_ & _ & _ & _ & _ & _ & _ & _ & _ & C10). apply C10. Qed.
End Clauses.

(* consecutive ranges in array order: the earlier one ends at least two before the later one starts *)
Lemma sorted_sep_nth rs : StronglySorted sep rs -> forall i j, (i < j < length rs)%nat ->
  snd (nth i rs UNUSED) + 1 < fst (nth j rs UNUSED).
Proof.
  induction 1 as [|a r Hs IH Hf]; intros i j H; [cbn in H; lia|].
  destruct j as [|j]; [lia|]. destruct i as [|i]; cbn [nth].
  - rewrite Forall_forall in Hf. apply (Hf (nth j r UNUSED)). apply nth_In. cbn in H; lia.
  - apply IH. cbn in H; lia.
Qed.

Lemma compute_sorted_nth procs rank nr : 1 <= nr -> forall i j, (i < j < length (filled procs rank nr))%nat ->
  snd (nth i (filled procs rank nr) UNUSED) + 1 < fst (nth j (filled procs rank nr) UNUSED).
Proof. intros H. apply sorted_sep_nth. apply (compute_separated procs rank nr H). Qed.

(* --- sc_ranges_adaptive ------------------------------------------------------------------------------------- *)
(* what rank r holds after the call: (return value, own ranges array), *inout1, *inout2, *global_ranges *)
Definition adaptive_at (vecs : list (list Z)) (nr : Z) (r : nat) : (Z * list pair) * Z * Z * list (list pair) :=
  let '(locals, maxpeers, maxwin, tbl) := adaptive_all vecs nr in (nth r locals (0, []), maxpeers, maxwin, tbl).

Definition shared_part {A B C D} (x : A * B * C * D) : B * C * D := (snd (fst (fst x)), snd (fst x), snd x).

Lemma adaptive_agree vecs nr r r' : shared_part (adaptive_at vecs nr r) = shared_part (adaptive_at vecs nr r').
Proof. unfold adaptive_at. destruct (adaptive_all vecs nr) as [[[locals mp] mw] tbl]. reflexivity. Qed.

Lemma adaptive_own vecs nr r : (r < length vecs)%nat ->
  fst (fst (fst (adaptive_at vecs nr r))) = compute_call (nth r vecs []) (Z.of_nat r) nr.
Proof.
  intros H. unfold adaptive_at. destruct (adaptive_all vecs nr) as [[[locals mp] mw] tbl] eqn:E. cbn [fst].
  assert (locals = fst (fst (fst (adaptive_all vecs nr)))) as -> by (rewrite E; reflexivity).
  apply (locals_at vecs nr r H).
Qed.

Section AdaptiveClauses.
  Variables (vecs : list (list Z)) (nr : Z).
  Hypothesis Hnr : 1 <= nr.
  Hypothesis Hlen : forall v, In v vecs -> length v = length vecs.
  Let P : nat := length vecs.
  Let maxpeers := snd (fst (fst (adaptive_all vecs nr))).
  Let maxwin := snd (fst (adaptive_all vecs nr)).
  Let tbl := snd (adaptive_all vecs nr).

  (* the maxima are maxima: upper bounds that are attained (or 0 without ranks) *)
  Lemma adaptive_maxima_exact :
    (forall r, (r < P)%nat -> nranges (nth r vecs []) (Z.of_nat r) nr <= maxwin)
    /\ (maxwin = 0 \/ exists r, (r < P)%nat /\ nranges (nth r vecs []) (Z.of_nat r) nr = maxwin)
    /\ (forall r, (r < P)%nat -> peer_count (nth r vecs []) (Z.of_nat r) <= maxpeers)
    /\ (maxpeers = 0 \/ exists r, (r < P)%nat /\ peer_count (nth r vecs []) (Z.of_nat r) = maxpeers)
    /\ 0 <= maxwin <= nr.
  Proof.
    destruct (adaptive_maxima vecs nr Hnr Hlen) as (M1 & M2 & M3 & M4).
    split. { intros r Hr. specialize (M1 r Hr). rewrite (locals_at vecs nr r Hr) in M1. exact M1. }
    split. { destruct M3 as [M3|[r [Hr M3]]]; [left; exact M3|right]. exists r. split; [exact Hr|].
             rewrite (locals_at vecs nr r Hr) in M3. exact M3. }
    split; [exact M4|]. split; [|exact M2].
    unfold maxpeers, adaptive_all. cbn [fst snd]. unfold allreduce_max.
    match goal with |- fold_left Z.max ?LL 0 = 0 \/ _ => destruct (fold_max_spec LL 0) as (_ & _ & [F|F]) end; [left; exact F|right].
    apply in_map_iff in F. destruct F as [[j v] [E Hin]]. cbn [fst snd] in E.
    apply In_nth with (d := (0, [])) in Hin. destruct Hin as [r [Hr Er]].
    rewrite combine_length, zseq_length, Nat.min_id in Hr.
    rewrite combine_nth, zseq_nth in Er by (rewrite ?zseq_length; lia). injection Er as <- <-.
    exists r. split; [exact Hr|exact E].
  Qed.

  (* the gathered table: row r = the first maxwin entries of rank r's array (all rows equally long) *)
  Lemma adaptive_table_rows :
    length tbl = P /\ forall r, (r < P)%nat ->
      nth r tbl [] = firstn (Z.to_nat maxwin) (ranges_array (nth r vecs []) (Z.of_nat r) nr)
      /\ length (nth r tbl []) = Z.to_nat maxwin.
  Proof.
    split; [apply (tbl_length vecs nr)|]. intros r Hr.
    pose proof (tbl_row vecs nr r Hr) as T. unfold row_of in T. rewrite Nat2Z.id in T.
    rewrite (locals_at vecs nr r Hr) in T. split; [exact T|].
    fold tbl in T. rewrite T, firstn_length.
    pose proof (compute_shape (nth r vecs []) (Z.of_nat r) nr Hnr) as (S1 & _).
    unfold ranges_array, compute_call in S1. unfold local_of. rewrite S1.
    destruct (adaptive_maxima vecs nr Hnr Hlen) as (_ & M2 & _). fold maxwin in M2 |- *. lia.
  Qed.
End AdaptiveClauses.
