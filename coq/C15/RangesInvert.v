(* C15 - sorting the kept gaps by their start and inverting them into the covering ranges *)
From Coq Require Import ZArith List Bool Lia Permutation Sorting.Sorted.
From ScV Require Import Base.CInt C15.RangesModel C15.RangesGaps.
Import ListNotations.
Local Open Scope Z_scope.

(* --- insertion sort by the start ------------------------------------------------------------------- *)
Definition le_start (a b : pair) : Prop := fst a <= fst b.

Lemma insert_perm g l : Permutation (insert_by_start g l) (g :: l).
Proof.
  induction l as [|h r IH]; [reflexivity|]. cbn [insert_by_start].
  destruct (fst g <=? fst h); [reflexivity|]. rewrite IH. apply perm_swap.
Qed.

Lemma isort_perm l : Permutation (isort l) l.
Proof. induction l as [|g r IH]; [reflexivity|]. cbn [isort]. rewrite insert_perm. constructor. exact IH. Qed.

Lemma insert_sorted g l : StronglySorted le_start l -> StronglySorted le_start (insert_by_start g l).
Proof.
  induction 1 as [|h r Hs IH Hf]; cbn [insert_by_start]; [constructor; constructor|].
  destruct (fst g <=? fst h) eqn:E; [apply Z.leb_le in E|apply Z.leb_gt in E].
  - constructor; [constructor; assumption|]. constructor; [exact E|].
    apply Forall_forall. intros x Hx. rewrite Forall_forall in Hf. specialize (Hf _ Hx). unfold le_start in *. lia.
  - constructor; [exact IH|]. apply Forall_forall. intros x Hx.
    apply (Permutation_in _ (insert_perm g r)) in Hx. destruct Hx as [<-|Hx]; [unfold le_start; lia|].
    rewrite Forall_forall in Hf. apply Hf. exact Hx.
Qed.

Lemma isort_sorted l : StronglySorted le_start (isort l).
Proof. induction l as [|g r IH]; [constructor|]. cbn [isort]. apply insert_sorted. exact IH. Qed.

(* sorted by start + pairwise different members of a separated family = strictly separated in order *)
Lemma sorted_sep S (G : list pair) :
  StronglySorted le_start S -> NoDup S -> incl S G -> ForallOrdPairs sep G ->
  (forall g, In g G -> fst g <= snd g) -> StronglySorted sep S.
Proof.
  intros Hs. induction Hs as [|a r Hs IH Hf]; intros N I FP W; [constructor|].
  inversion N as [|? ? Na Nr]; subst.
  constructor; [apply IH; try assumption; intros x Hx; apply I; right; exact Hx|].
  apply Forall_forall. intros b Hb. rewrite Forall_forall in Hf. specialize (Hf _ Hb).
  destruct (ForallOrdPairs_In FP a b) as [E|[E|E]]; [apply I; left; reflexivity|apply I; right; exact Hb| | |].
  - subst b. contradiction.
  - exact E.
  - exfalso. unfold sep, le_start in *. pose proof (W b (I b (or_intror Hb))). lia.
Qed.

(* --- inversion ----------------------------------------------------------------------------------------- *)
(* well-formed input of invert: gaps strictly inside (f, l), ascending, separated *)
Fixpoint gwf (f l : Z) (G : list pair) : Prop :=
  match G with
  | [] => f <= l
  | g :: r => f < fst g /\ fst g <= snd g /\ gwf (snd g + 1) l r
  end.

Lemma gwf_of_sorted l S : forall f,
  (forall a, In a S -> f < fst a /\ fst a <= snd a /\ snd a + 1 <= l) -> f <= l ->
  StronglySorted sep S -> gwf f l S.
Proof.
  induction S as [|a r IH]; intros f B Hfl Hs; [exact Hfl|].
  apply StronglySorted_inv in Hs. destruct Hs as [Hs Hf].
  destruct (B a (or_introl eq_refl)) as (B1 & B2 & B3).
  cbn [gwf]. split; [exact B1|]. split; [exact B2|].
  apply IH; [|exact B3|exact Hs].
  intros b Hb. destruct (B b (or_intror Hb)) as (C1 & C2 & C3).
  rewrite Forall_forall in Hf. specialize (Hf _ Hb). unfold sep in Hf. lia.
Qed.

Lemma invert_length G : forall f l, length (invert f l G) = S (length G).
Proof. induction G as [|[s e] r IH]; intros f l; [reflexivity|]. cbn [invert length]. rewrite IH. reflexivity. Qed.

Lemma invert_bounds G : forall f l, gwf f l G -> forall r, In r (invert f l G) -> f <= fst r /\ fst r <= snd r /\ snd r <= l.
Proof.
  induction G as [|[s e] G IH]; intros f l W r Hr.
  - cbn in W, Hr. destruct Hr as [<-|[]]. cbn [fst snd]. lia.
  - cbn [gwf fst snd] in W. destruct W as (W1 & W2 & W3). cbn [invert] in Hr. destruct Hr as [<-|Hr].
    + cbn [fst snd]. assert (e + 1 <= l). { destruct G as [|[s' e'] G']; cbn [gwf fst snd] in W3; [lia|].
        destruct W3 as (X1 & X2 & X3). specialize (IH (e + 1) l). cbn [gwf fst snd] in IH.
        specialize (IH (conj X1 (conj X2 X3)) (e + 1, s' - 1) (or_introl eq_refl)). cbn [fst snd] in IH. lia. }
      lia.
    + specialize (IH _ _ W3 r Hr). lia.
Qed.

Lemma invert_sep G : forall f l, gwf f l G -> StronglySorted sep (invert f l G).
Proof.
  induction G as [|[s e] G IH]; intros f l W; [cbn; constructor; constructor|].
  cbn [gwf fst snd] in W. destruct W as (W1 & W2 & W3). cbn [invert].
  constructor; [apply IH; exact W3|]. apply Forall_forall. intros r Hr.
  pose proof (invert_bounds _ _ _ W3 r Hr). unfold sep; cbn [fst snd]. lia.
Qed.

Lemma invert_hd G f l : fst (hd UNUSED (invert f l G)) = f.
Proof. destruct G as [|[s e] G]; reflexivity. Qed.

Lemma invert_last G : forall f l, snd (last (invert f l G) UNUSED) = l.
Proof.
  induction G as [|[s e] G IH]; intros f l; [reflexivity|]. cbn [invert].
  specialize (IH (e + 1) l). destruct (invert (e + 1) l G) eqn:E; [destruct G as [|[? ?] ?]; discriminate|exact IH].
Qed.

(* every position of [f, l] lies in a range or in one of the gaps *)
Lemma invert_cover G : forall f l, gwf f l G -> forall j, f <= j <= l ->
  (exists r, In r (invert f l G) /\ fst r <= j <= snd r) \/ (exists g, In g G /\ fst g <= j <= snd g).
Proof.
  induction G as [|[s e] G IH]; intros f l W j Hj.
  - left. exists (f, l). split; [left; reflexivity|exact Hj].
  - cbn [gwf fst snd] in W. destruct W as (W1 & W2 & W3). cbn [invert].
    destruct (Z_lt_le_dec j s) as [L|L]; [left; exists (f, s - 1); split; [left; reflexivity|cbn; lia]|].
    destruct (Z_le_gt_dec j e) as [L2|L2]; [right; exists (s, e); split; [left; reflexivity|cbn; lia]|].
    destruct (IH _ _ W3 j ltac:(lia)) as [[r [R1 R2]]|[g [G1 G2]]].
    + left. exists r. split; [right; exact R1|exact R2].
    + right. exists g. split; [right; exact G1|exact G2].
Qed.

(* ... and never in both *)
Lemma invert_disjoint G : forall f l, gwf f l G -> forall r g j, In r (invert f l G) -> In g G ->
  fst r <= j <= snd r -> fst g <= j <= snd g -> False.
Proof.
  induction G as [|[s e] G IH]; intros f l W r g j Hr Hg Jr Jg; [contradiction|].
  cbn [gwf fst snd] in W. destruct W as (W1 & W2 & W3). cbn [invert] in Hr.
  destruct Hr as [<-|Hr]; destruct Hg as [<-|Hg]; cbn [fst snd] in *.
  - lia.
  - assert (Cg : e + 1 < fst g).
    { clear - W3 Hg. revert W3. generalize (e + 1). induction G as [|h G IH]; intros f W; [contradiction|].
      cbn [gwf] in W. destruct W as (X1 & X2 & X3). destruct Hg as [->|Hg]; [exact X1|].
      specialize (IH Hg _ X3). lia. }
    lia.
  - pose proof (invert_bounds _ _ _ W3 r Hr). lia.
  - exact (IH _ _ W3 r g j Hr Hg Jr Jg).
Qed.

(* the gaps between consecutive ranges *)
Fixpoint between (rs : list pair) : list pair :=
  match rs with
  | a :: ((b :: _) as r) => (snd a + 1, fst b - 1) :: between r
  | _ => []
  end.

Lemma between_invert G : forall f l, between (invert f l G) = G.
Proof.
  induction G as [|[s e] G IH]; intros f l; [reflexivity|]. cbn [invert].
  specialize (IH (e + 1) l). destruct (invert (e + 1) l G) as [|b r] eqn:E; [destruct G as [|[? ?] ?]; discriminate|].
  change (between ((f, s - 1) :: b :: r)) with ((snd (f, s - 1) + 1, fst b - 1) :: between (b :: r)).
  rewrite IH. f_equal.
  assert (fst b = e + 1) by (pose proof (invert_hd G (e + 1) l) as X; rewrite E in X; exact X).
  cbn [fst snd]. f_equal; lia.
Qed.

(* the first entry of every range is f or one after a gap, the last entry l or one before a gap *)
Lemma invert_ends G : forall f l r, In r (invert f l G) ->
  (fst r = f \/ exists g, In g G /\ fst r = snd g + 1) /\ (snd r = l \/ exists g, In g G /\ snd r = fst g - 1).
Proof.
  induction G as [|[s e] G IH]; intros f l r Hr.
  - destruct Hr as [<-|[]]. split; left; reflexivity.
  - cbn [invert] in Hr. destruct Hr as [<-|Hr].
    + split; [left; reflexivity|right; exists (s, e); split; [left; reflexivity|reflexivity]].
    + destruct (IH _ _ _ Hr) as [[A|[g [A1 A2]]] [B|[g' [B1 B2]]]]; split.
      * right. exists (s, e). split; [left; reflexivity|exact A].
      * left; exact B.
      * right. exists (s, e). split; [left; reflexivity|exact A].
      * right. exists g'. split; [right; exact B1|exact B2].
      * right. exists g. split; [right; exact A1|exact A2].
      * left; exact B.
      * right. exists g. split; [right; exact A1|exact A2].
      * right. exists g'. split; [right; exact B1|exact B2].
Qed.
