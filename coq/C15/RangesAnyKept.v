(* C15 - the decode theorems for EVERY choice of kept gaps.
   sc_ranges_compute keeps at most num_ranges - 1 of the gaps between consecutive peers; which ones it keeps depends
   on the eviction order and on how ties between equally long gaps are broken.  Nothing that sc_ranges_decode relies
   on depends on that choice: here the row of a rank is built from ANY duplicate-free sublist K of the gaps
   (sub_gaps), for arbitrary procs vectors (procs[rank] may be non-zero: the own rank is never a peer), and
   - the ranges are sorted, separated, begin and end at peers, cover all peers, and their omitted runs are exactly
     the chosen gaps in ascending order (ranges_of_shape); no range begins or ends at the own rank
     (rank_not_in_own_ends);
   - the row, padded with unused entries or cut to any width, is a well formed row (any_kept_row_wf);
   - the table of a whole communicator (any choice per rank) is well formed, decoding it is symmetric, excludes the
     own rank, finds every peer, and senders of q = the ranks whose ranges contain q (the any_kept_ theorems);
   - the model's sc_ranges_compute is the instance K = kept_gaps (ranges_of_kept_gaps), and decoding the table that
     sc_ranges_adaptive gathers (width = the maximal number of ranges) gives the same lists as decoding the
     full-width table of that instance (adaptive_is_any_kept): sc_ranges_decode reads only the filled prefix. *)
From Coq Require Import ZArith List Bool Lia Permutation Sorting.Sorted.
From ScV Require Import Base.CInt C15.RangesModel C15.RangesGaps C15.RangesSelect C15.RangesInvert C15.RangesCompute
  C15.RangesDecode C15.RangesAdaptive C15.RangesProps.
Import ListNotations.
Local Open Scope Z_scope.

(* --- vocabulary ------------------------------------------------------------------------------------------- *)
Definition ranges_of (procs : list Z) (rank : Z) (K : list pair) : list pair :=
  match peers procs rank with
  | [] => []
  | p :: r => invert p (last r p) (isort K)
  end.

(* a row of width w: the ranges, padded with unused entries / cut to w entries *)
Definition row_of_kept (procs : list Z) (rank : Z) (K : list pair) (w : nat) : list pair :=
  firstn w (ranges_of procs rank K ++ repeat UNUSED w).

Definition sub_gaps (procs : list Z) (rank : Z) (K : list pair) : Prop :=
  NoDup K /\ incl K (gaps_of (peers procs rank)).

(* the table of a whole communicator: vecs = the procs vector of every rank, Ks = the kept gaps of every rank
   (ANY choice), w = the common width *)
Definition table_of (vecs : list (list Z)) (Ks : list (list pair)) (w : nat) : list (list pair) :=
  map (fun rvk : Z * (list Z * list pair) => row_of_kept (fst (snd rvk)) (fst rvk) (snd (snd rvk)) w)
      (combine (zseq (length vecs)) (combine vecs Ks)).

Definition good_family (vecs : list (list Z)) (Ks : list (list pair)) (w : nat) : Prop :=
  length Ks = length vecs /\ (forall v, In v vecs -> length v = length vecs)
  /\ forall r, (r < length vecs)%nat ->
       sub_gaps (nth r vecs []) (Z.of_nat r) (nth r Ks []) /\ (length (nth r Ks []) < w)%nat.

(* --- small list facts ------------------------------------------------------------------------------------- *)
Lemma last_cons_default (r : list Z) : forall p d, last (p :: r) d = last r p.
Proof.
  induction r as [|x r IH]; intros p d; [reflexivity|].
  change (last (p :: x :: r) d) with (last (x :: r) d). rewrite (IH x d), (IH x p). reflexivity.
Qed.

Lemma firstn_In_in {A} n (l : list A) x : In x (firstn n l) -> In x l.
Proof. intros H. rewrite <- (firstn_skipn n l). apply in_or_app. left; exact H. Qed.

Lemma firstn_sorted {A} (R : A -> A -> Prop) l : StronglySorted R l -> forall n, StronglySorted R (firstn n l).
Proof.
  induction 1 as [|a l Hs IH Hf]; intros [|n]; cbn [firstn]; try constructor; [apply IH|].
  apply Forall_forall. intros x Hx. rewrite Forall_forall in Hf. apply Hf. eapply firstn_In_in. exact Hx.
Qed.

Lemma ranges_of_nil procs rank K : peers procs rank = [] -> ranges_of procs rank K = [].
Proof. intros E. unfold ranges_of. rewrite E. reflexivity. Qed.

Lemma ranges_of_cons procs rank K p r :
  peers procs rank = p :: r -> ranges_of procs rank K = invert p (last r p) (isort K).
Proof. intros E. unfold ranges_of. rewrite E. reflexivity. Qed.

(* --- the lemmas of Section Compute (RangesCompute.v), for any K with sub_gaps ------------------------------ *)
Lemma sub_gaps_sorted procs rank K : sub_gaps procs rank K ->
  StronglySorted sep (isort K) /\ incl (isort K) (gaps_of (peers procs rank)).
Proof.
  intros [N I].
  assert (I' : incl (isort K) (gaps_of (peers procs rank))).
  { intros x Hx. apply I. apply (Permutation_in _ (isort_perm K)). exact Hx. }
  split; [|exact I'].
  apply (sorted_sep (isort K) (gaps_of (peers procs rank))).
  - apply isort_sorted.
  - apply (Permutation_NoDup (Permutation_sym (isort_perm K))). exact N.
  - exact I'.
  - apply gaps_of_pairs. apply peers_sorted.
  - intros g Hg. destruct (gaps_of_is_gap _ (peers_sorted procs rank) g Hg) as (A & _). exact A.
Qed.

Lemma sub_gaps_gwf procs rank K p r : sub_gaps procs rank K -> peers procs rank = p :: r ->
  gwf p (last r p) (isort K) /\ p <= last r p /\ In p (peers procs rank) /\ In (last r p) (peers procs rank).
Proof.
  intros HK EL. destruct (sub_gaps_sorted _ _ _ HK) as [Ss Si].
  pose proof (peers_sorted procs rank) as Hs.
  assert (E1 : hd 0 (peers procs rank) = p) by (rewrite EL; reflexivity).
  assert (E2 : last (peers procs rank) 0 = last r p) by (rewrite EL; apply last_cons_default).
  assert (Hp : In p (peers procs rank)) by (rewrite EL; left; reflexivity).
  assert (Hl : In (last r p) (peers procs rank)).
  { rewrite <- E2. apply last_In. rewrite EL. discriminate. }
  assert (Hpl : p <= last r p).
  { rewrite <- E2. apply sorted_last_ge; assumption. }
  split; [|split; [exact Hpl|split; assumption]].
  apply gwf_of_sorted; [|exact Hpl|exact Ss].
  intros a Ha. destruct (gaps_of_is_gap _ Hs a (Si a Ha)) as (A & B & C & _).
  pose proof (sorted_hd_le _ 0 _ Hs B) as X1. pose proof (sorted_last_ge _ Hs 0 _ C) as X2.
  rewrite E1 in X1. rewrite E2 in X2. lia.
Qed.

Theorem ranges_of_shape : forall procs rank K, sub_gaps procs rank K ->
  StronglySorted sep (ranges_of procs rank K)
  /\ (forall x, In x (ranges_of procs rank K) ->
        fst x <= snd x /\ In (fst x) (peers procs rank) /\ In (snd x) (peers procs rank))
  /\ (forall p, In p (peers procs rank) -> exists x, In x (ranges_of procs rank K) /\ fst x <= p <= snd x)
  /\ between (ranges_of procs rank K) = (match peers procs rank with [] => [] | _ => isort K end)
  /\ (peers procs rank <> [] -> length (ranges_of procs rank K) = S (length K)).
Proof.
  intros procs rank K HK.
  destruct (peers procs rank) as [|p r] eqn:EL.
  - rewrite (ranges_of_nil _ _ K EL). split; [constructor|]. split; [intros x []|]. split; [intros q []|].
    split; [reflexivity|]. intros X. congruence.
  - rewrite (ranges_of_cons _ _ K p r EL).
    destruct (sub_gaps_gwf _ _ _ p r HK EL) as (W & F1 & F2 & F3).
    destruct (sub_gaps_sorted _ _ _ HK) as [Ss Si].
    pose proof (peers_sorted procs rank) as Hs.
    assert (E1 : hd 0 (peers procs rank) = p) by (rewrite EL; reflexivity).
    assert (E2 : last (peers procs rank) 0 = last r p) by (rewrite EL; apply last_cons_default).
    split; [apply invert_sep; exact W|].
    split.
    { intros x Hx. rewrite <- EL. pose proof (invert_bounds _ _ _ W x Hx) as B.
      destruct (invert_ends _ _ _ _ Hx) as [X1 X2]. split; [lia|]. split.
      - destruct X1 as [->|[g [G1 ->]]]; [exact F2|].
        destruct (gaps_of_is_gap _ Hs g (Si g G1)) as (_ & _ & C & _). exact C.
      - destruct X2 as [->|[g [G1 ->]]]; [exact F3|].
        destruct (gaps_of_is_gap _ Hs g (Si g G1)) as (_ & B' & _). exact B'. }
    split.
    { intros q Hq. rewrite <- EL in Hq.
      pose proof (sorted_hd_le _ 0 _ Hs Hq) as X1. pose proof (sorted_last_ge _ Hs 0 _ Hq) as X2.
      rewrite E1 in X1. rewrite E2 in X2.
      destruct (invert_cover _ _ _ W q (conj X1 X2)) as [X|[g [G1 G2]]]; [exact X|].
      exfalso. destruct (gaps_of_is_gap _ Hs g (Si g G1)) as (_ & _ & _ & D). exact (D q G2 Hq). }
    split; [apply between_invert|].
    intros _. rewrite invert_length, (Permutation_length (isort_perm K)). reflexivity.
Qed.

(* a range never begins or ends at the own rank, even when procs[rank] <> 0 *)
Theorem rank_not_in_own_ends : forall procs rank K x, sub_gaps procs rank K -> In x (ranges_of procs rank K) ->
  fst x <> rank /\ snd x <> rank.
Proof.
  intros procs rank K x HK Hx. destruct (ranges_of_shape _ _ _ HK) as (_ & M & _).
  destruct (M x Hx) as (_ & M1 & M2). apply peers_spec in M1, M2. tauto.
Qed.

Lemma ranges_of_bounds procs rank K x : sub_gaps procs rank K -> In x (ranges_of procs rank K) ->
  0 <= fst x /\ fst x <= snd x /\ snd x < Z.of_nat (length procs).
Proof.
  intros HK Hx. destruct (ranges_of_shape _ _ _ HK) as (_ & M & _).
  destruct (M x Hx) as (M0 & M1 & M2). apply peers_In in M1, M2. lia.
Qed.

(* --- the model's sc_ranges_compute is the instance K = kept_gaps ------------------------------------------ *)
Theorem kept_gaps_sub_gaps : forall procs rank nr, 1 <= nr -> sub_gaps procs rank (kept_gaps procs rank nr).
Proof.
  intros procs rank nr Hnr. pose proof (kept_inv procs rank nr Hnr) as KI. cbv zeta in KI.
  destruct KI as (N & I & _). split; assumption.
Qed.

Lemma kept_gaps_length procs rank nr : 1 <= nr -> (length (kept_gaps procs rank nr) < Z.to_nat nr)%nat.
Proof.
  intros Hnr. pose proof (kept_inv procs rank nr Hnr) as KI. cbv zeta in KI.
  destruct KI as (_ & _ & E & _). rewrite E. lia.
Qed.

Lemma compute_call_eq procs rank nr :
  compute_call procs rank nr =
  (Z.of_nat (length (ranges_of procs rank (kept_gaps procs rank nr))),
   ranges_of procs rank (kept_gaps procs rank nr)
   ++ repeat UNUSED (Z.to_nat nr - length (ranges_of procs rank (kept_gaps procs rank nr)))).
Proof.
  pose proof (peers_sorted procs rank) as Hs.
  unfold compute_call, first_last, ranges_of. destruct (peers procs rank) as [|p r] eqn:EL; cbn [fst snd].
  - unfold ranges_compute.
    replace (-1 <? Z.of_nat (length procs)) with true by (symmetry; apply Z.ltb_lt; lia).
    cbn [length app]. rewrite Nat.sub_0_r. reflexivity.
  - unfold ranges_compute.
    replace (last r p <? p) with false; [reflexivity|]. symmetry. apply Z.ltb_ge.
    rewrite <- (last_cons_default r p 0). apply sorted_last_ge; [exact Hs|left; reflexivity].
Qed.

Theorem ranges_of_kept_gaps : forall procs rank nr, 1 <= nr -> peers procs rank <> [] ->
  ranges_of procs rank (kept_gaps procs rank nr)
  = firstn (Z.to_nat (fst (compute_call procs rank nr))) (snd (compute_call procs rank nr)).
Proof.
  intros procs rank nr _ _. rewrite compute_call_eq. cbn [fst snd].
  rewrite Nat2Z.id, firstn_app, Nat.sub_diag, firstn_all. cbn [firstn]. rewrite app_nil_r. reflexivity.
Qed.

(* --- one row ------------------------------------------------------------------------------------------------ *)
Lemma row_of_kept_split procs rank K w :
  row_of_kept procs rank K w
  = firstn w (ranges_of procs rank K) ++ firstn (w - length (ranges_of procs rank K)) (repeat UNUSED w).
Proof. unfold row_of_kept. apply firstn_app. Qed.

Lemma unused_tail j k : match firstn j (repeat UNUSED k) with [] => True | t :: _ => fst t < 0 end.
Proof.
  pose proof (firstn_repeat_head UNUSED j k) as X.
  destruct (firstn j (repeat UNUSED k)); [exact I|]. subst p. cbn. lia.
Qed.

(* no hypothesis on the width: a row cut to fewer entries than there are ranges is a filled prefix of sorted
   separated ranges, which wf_row accepts (the row may end after filled entries) *)
Theorem any_kept_row_wf : forall procs rank K w, sub_gaps procs rank K ->
  wf_row (Z.of_nat (length procs)) (-1) (row_of_kept procs rank K w).
Proof.
  intros procs rank K w HK. rewrite row_of_kept_split.
  destruct (ranges_of_shape _ _ _ HK) as (S1 & _).
  apply wf_row_app; [|apply firstn_sorted; exact S1|apply unused_tail].
  intros x Hx. apply firstn_In_in in Hx. pose proof (ranges_of_bounds _ _ _ x HK Hx). lia.
Qed.

(* the statement as first given (with the width hypothesis) is an instance:
   forall procs rank K w, sub_gaps procs rank K -> (length K < w)%nat \/ peers procs rank = [] ->
     wf_row (Z.of_nat (length procs)) (-1) (row_of_kept procs rank K w) *)
Corollary any_kept_row_wf_fits : forall procs rank K w, sub_gaps procs rank K ->
  (length K < w)%nat \/ peers procs rank = [] ->
  wf_row (Z.of_nat (length procs)) (-1) (row_of_kept procs rank K w).
Proof. intros procs rank K w HK _. apply any_kept_row_wf. exact HK. Qed.

Lemma ranges_of_fits procs rank K w : sub_gaps procs rank K ->
  (length K < w)%nat \/ peers procs rank = [] -> (length (ranges_of procs rank K) <= w)%nat.
Proof.
  intros HK H. destruct (ranges_of_shape _ _ _ HK) as (_ & _ & _ & _ & LN).
  destruct (peers procs rank) as [|p r] eqn:EL.
  - rewrite (ranges_of_nil _ _ K EL). cbn. lia.
  - destruct H as [H|H]; [|discriminate]. rewrite LN by discriminate. lia.
Qed.

(* when all ranges fit, sc_ranges_decode reads exactly the ranges *)
Theorem row_of_kept_prefix : forall procs rank K w, sub_gaps procs rank K ->
  (length K < w)%nat \/ peers procs rank = [] ->
  prefix (row_of_kept procs rank K w) = ranges_of procs rank K.
Proof.
  intros procs rank K w HK H. rewrite row_of_kept_split.
  rewrite firstn_all2 by (apply ranges_of_fits; assumption).
  apply prefix_app; [|apply unused_tail].
  intros x Hx. pose proof (ranges_of_bounds _ _ _ x HK Hx). lia.
Qed.

(* --- the table ------------------------------------------------------------------------------------------------ *)
Lemma table_of_length vecs Ks w : length Ks = length vecs -> length (table_of vecs Ks w) = length vecs.
Proof. intros E. unfold table_of. rewrite map_length, !combine_length, zseq_length. lia. Qed.

Lemma table_of_nth vecs Ks w r : length Ks = length vecs -> (r < length vecs)%nat ->
  nth r (table_of vecs Ks w) [] = row_of_kept (nth r vecs []) (Z.of_nat r) (nth r Ks []) w.
Proof.
  intros E H. unfold table_of.
  rewrite (nth_map_lt _ _ r (0, ([], []))) by (rewrite !combine_length, zseq_length; lia).
  rewrite combine_nth by (rewrite combine_length, zseq_length; lia).
  rewrite combine_nth by lia. rewrite zseq_nth by exact H. reflexivity.
Qed.

Lemma table_of_row vecs Ks w p : length Ks = length vecs -> 0 <= p < Z.of_nat (length vecs) ->
  row_of (table_of vecs Ks w) p = row_of_kept (nth (Z.to_nat p) vecs []) p (nth (Z.to_nat p) Ks []) w.
Proof.
  intros E H. unfold row_of. rewrite table_of_nth by (try exact E; lia). rewrite Z2Nat.id by lia. reflexivity.
Qed.

Theorem any_kept_table_wf : forall vecs Ks w, good_family vecs Ks w ->
  wf_table (table_of vecs Ks w) /\ length (table_of vecs Ks w) = length vecs.
Proof.
  intros vecs Ks w (E & Hl & Hr). split; [|apply table_of_length; exact E].
  intros row Hrow. rewrite (table_of_length _ _ w E).
  apply In_nth with (d := []) in Hrow. destruct Hrow as [r [Hr' <-]]. rewrite (table_of_length _ _ w E) in Hr'.
  rewrite (table_of_nth _ _ w r E Hr'). destruct (Hr r Hr') as [SG _].
  rewrite <- (Hl (nth r vecs [])) by (apply nth_In; exact Hr').
  apply any_kept_row_wf. exact SG.
Qed.

Lemma table_of_row_mem vecs Ks w p q : good_family vecs Ks w -> 0 <= p < Z.of_nat (length vecs) ->
  (row_mem (row_of (table_of vecs Ks w) p) q <->
   exists x, In x (ranges_of (nth (Z.to_nat p) vecs []) p (nth (Z.to_nat p) Ks [])) /\ fst x <= q <= snd x).
Proof.
  intros (E & Hl & Hr) Hp. unfold row_mem. rewrite (table_of_row _ _ w p E Hp).
  destruct (Hr (Z.to_nat p) ltac:(lia)) as [SG LK]. rewrite Z2Nat.id in SG by lia.
  rewrite (row_of_kept_prefix _ _ _ w SG (or_introl LK)). reflexivity.
Qed.

Theorem any_kept_decode_symmetric : forall vecs Ks w p q, good_family vecs Ks w ->
  0 <= p < Z.of_nat (length vecs) -> p <> q ->
  (In q (receivers (table_of vecs Ks w) p) <-> In p (senders (table_of vecs Ks w) q)).
Proof.
  intros vecs Ks w p q GF Hp N. destruct (any_kept_table_wf _ _ _ GF) as [W L].
  apply decode_symmetric; [exact W|rewrite L; exact Hp|exact N].
Qed.

Theorem any_kept_self_excluded : forall vecs Ks w p, good_family vecs Ks w ->
  ~ In p (receivers (table_of vecs Ks w) p) /\ ~ In p (senders (table_of vecs Ks w) p).
Proof.
  intros vecs Ks w p GF. destruct (any_kept_table_wf _ _ _ GF) as [W _].
  destruct (decode_outputs _ p W) as (A & B & _). split; assumption.
Qed.

Theorem any_kept_peers_are_receivers : forall vecs Ks w p q, good_family vecs Ks w ->
  0 <= p < Z.of_nat (length vecs) ->
  In q (peers (nth (Z.to_nat p) vecs []) p) -> In q (receivers (table_of vecs Ks w) p).
Proof.
  intros vecs Ks w p q GF Hp Hq. apply receivers_spec.
  split; [apply peers_spec in Hq; tauto|].
  apply (table_of_row_mem _ _ _ p q GF Hp).
  destruct GF as (E & Hl & Hr). destruct (Hr (Z.to_nat p) ltac:(lia)) as [SG _]. rewrite Z2Nat.id in SG by lia.
  destruct (ranges_of_shape _ _ _ SG) as (_ & _ & Cv & _). apply Cv. exact Hq.
Qed.

(* senders of q = the ranks whose ranges contain q *)
Theorem any_kept_senders_spec : forall vecs Ks w p q, good_family vecs Ks w -> 0 <= q < Z.of_nat (length vecs) ->
  (In p (senders (table_of vecs Ks w) q) <-> 0 <= p < Z.of_nat (length vecs) /\ p <> q /\
      exists x, In x (ranges_of (nth (Z.to_nat p) vecs []) p (nth (Z.to_nat p) Ks [])) /\ fst x <= q <= snd x).
Proof.
  intros vecs Ks w p q GF _. destruct (any_kept_table_wf _ _ _ GF) as [W L].
  unfold senders. rewrite filter_In, zseq_In, andb_true_iff, negb_true_iff, Z.eqb_neq, L.
  rewrite (row_has_spec _ _ (-1) q (row_of_wf _ p W)).
  split.
  - intros (Hp & N & M). split; [exact Hp|]. split; [exact N|]. apply (table_of_row_mem _ _ _ p q GF Hp). exact M.
  - intros (Hp & N & M). split; [exact Hp|]. split; [exact N|]. apply (table_of_row_mem _ _ _ p q GF Hp). exact M.
Qed.

(* both readings for every pair of ranks, in terms of the ranges alone *)
Corollary any_kept_receivers_spec : forall vecs Ks w p q, good_family vecs Ks w -> 0 <= p < Z.of_nat (length vecs) ->
  (In q (receivers (table_of vecs Ks w) p) <-> q <> p /\
      exists x, In x (ranges_of (nth (Z.to_nat p) vecs []) p (nth (Z.to_nat p) Ks [])) /\ fst x <= q <= snd x).
Proof.
  intros vecs Ks w p q GF Hp. rewrite receivers_spec, (table_of_row_mem _ _ _ p q GF Hp). reflexivity.
Qed.

(* --- sc_ranges_decode reads only the filled prefix of every row --------------------------------------------- *)
Lemma row_receivers_prefix row p : row_receivers (prefix row) p = row_receivers row p.
Proof.
  induction row as [|[lo hi] r IH]; [reflexivity|]. cbn [prefix fst row_receivers].
  destruct (lo <? 0) eqn:E; [reflexivity|]. cbn [row_receivers]. rewrite E, IH. reflexivity.
Qed.

Lemma row_has_prefix row q : row_has (prefix row) q = row_has row q.
Proof.
  induction row as [|[lo hi] r IH]; [reflexivity|]. cbn [prefix fst row_has].
  destruct (lo <? 0) eqn:E; [reflexivity|]. cbn [row_has]. rewrite E, IH. reflexivity.
Qed.

Theorem receivers_prefix_ext : forall tbl tbl' p,
  prefix (row_of tbl p) = prefix (row_of tbl' p) -> receivers tbl p = receivers tbl' p.
Proof.
  intros tbl tbl' p H. unfold receivers. rewrite <- (row_receivers_prefix (row_of tbl p)), H.
  apply row_receivers_prefix.
Qed.

Theorem senders_prefix_ext : forall tbl tbl' q, length tbl = length tbl' ->
  (forall j, 0 <= j < Z.of_nat (length tbl) -> prefix (row_of tbl j) = prefix (row_of tbl' j)) ->
  senders tbl q = senders tbl' q.
Proof.
  intros tbl tbl' q E H. unfold senders. rewrite <- E. apply filter_ext_in. intros j Hj. apply zseq_In in Hj.
  f_equal. rewrite <- (row_has_prefix (row_of tbl j)), (H j Hj). apply row_has_prefix.
Qed.

(* --- sc_ranges_adaptive is the instance K = kept_gaps, read through a narrower table ------------------------ *)
Lemma adaptive_row_prefix vecs nr r : 1 <= nr -> (forall v, In v vecs -> length v = length vecs) ->
  (r < length vecs)%nat ->
  prefix (row_of (snd (adaptive_all vecs nr)) (Z.of_nat r))
  = ranges_of (nth r vecs []) (Z.of_nat r) (kept_gaps (nth r vecs []) (Z.of_nat r) nr).
Proof.
  intros Hnr Hlen Hr.
  pose proof (tbl_row vecs nr r Hr) as T. cbv zeta in T. rewrite T. clear T.
  destruct (adaptive_maxima vecs nr Hnr Hlen) as (M1 & M2 & _). specialize (M1 r Hr).
  pose proof (locals_at vecs nr r Hr) as LA. cbv zeta in LA. rewrite LA in M1 |- *. clear LA.
  change (local_of (nth r vecs []) (Z.of_nat r) nr) with (compute_call (nth r vecs []) (Z.of_nat r) nr) in M1 |- *.
  rewrite compute_call_eq in M1 |- *. cbn [fst snd] in M1 |- *.
  set (rs := ranges_of (nth r vecs []) (Z.of_nat r) (kept_gaps (nth r vecs []) (Z.of_nat r) nr)) in *.
  rewrite firstn_app, firstn_all2 by lia.
  apply prefix_app; [|apply unused_tail].
  intros x Hx. pose proof (ranges_of_bounds _ _ _ x (kept_gaps_sub_gaps _ _ nr Hnr) Hx). lia.
Qed.

Theorem adaptive_is_any_kept : forall vecs nr, 1 <= nr -> (forall v, In v vecs -> length v = length vecs) ->
  let Ks := map (fun rv : Z * list Z => kept_gaps (snd rv) (fst rv) nr) (combine (zseq (length vecs)) vecs) in
  good_family vecs Ks (Z.to_nat nr) /\
  forall p, 0 <= p < Z.of_nat (length vecs) ->
    receivers (snd (adaptive_all vecs nr)) p = receivers (table_of vecs Ks (Z.to_nat nr)) p
    /\ senders (snd (adaptive_all vecs nr)) p = senders (table_of vecs Ks (Z.to_nat nr)) p.
Proof.
  intros vecs nr Hnr Hlen Ks.
  assert (LK : length Ks = length vecs).
  { unfold Ks. rewrite map_length, combine_length, zseq_length. lia. }
  assert (NK : forall r, (r < length vecs)%nat -> nth r Ks [] = kept_gaps (nth r vecs []) (Z.of_nat r) nr).
  { intros r Hr. unfold Ks. rewrite (nth_map_lt _ _ r (0, [])) by (rewrite combine_length, zseq_length; lia).
    rewrite combine_nth by (rewrite zseq_length; reflexivity). rewrite zseq_nth by exact Hr. reflexivity. }
  assert (GF : good_family vecs Ks (Z.to_nat nr)).
  { split; [exact LK|]. split; [exact Hlen|]. intros r Hr. rewrite (NK r Hr).
    split; [apply kept_gaps_sub_gaps; exact Hnr|apply kept_gaps_length; exact Hnr]. }
  split; [exact GF|].
  assert (PR : forall j, 0 <= j < Z.of_nat (length vecs) ->
     prefix (row_of (snd (adaptive_all vecs nr)) j) = prefix (row_of (table_of vecs Ks (Z.to_nat nr)) j)).
  { intros j Hj. rewrite <- (Z2Nat.id j) at 1 by lia.
    rewrite (adaptive_row_prefix vecs nr (Z.to_nat j) Hnr Hlen) by lia.
    rewrite (table_of_row _ _ _ j LK Hj), (NK (Z.to_nat j)) by lia.
    destruct GF as (_ & _ & Hr). destruct (Hr (Z.to_nat j) ltac:(lia)) as [SG LN].
    rewrite (NK (Z.to_nat j)) in SG, LN by lia.
    rewrite Z2Nat.id in * by lia.
    rewrite (row_of_kept_prefix _ _ _ _ SG (or_introl LN)). reflexivity. }
  intros p Hp. split.
  - apply receivers_prefix_ext. apply PR. exact Hp.
  - pose proof (tbl_length vecs nr) as TL. cbv zeta in TL.
    apply senders_prefix_ext; [rewrite TL, (table_of_length _ _ _ LK); reflexivity|].
    intros j Hj. rewrite TL in Hj. apply PR. exact Hj.
Qed.

(* --- non-vacuity: a communicator of 5 ranks, width 2 ---------------------------------------------------------
   rank 0 has procs[0] = 1 (the own rank is no peer), rank 2 has no peers, rank 1 has two gaps of length 1 and
   keeps the FIRST one (sc_ranges_compute with num_ranges = 2 keeps the second), rank 0 keeps none of its gaps
   (sc_ranges_compute keeps it) *)
Definition ex_vecs : list (list Z) :=
  [[1; 0; 1; 0; 1]; [1; 0; 1; 0; 1]; [0; 0; 0; 0; 0]; [1; 0; 0; 0; 1]; [0; 1; 0; 0; 0]].
Definition ex_Ks : list (list pair) := [[]; [(1, 1)]; []; [(1, 3)]; []].

Example ex_good_family :
  good_family ex_vecs ex_Ks 2
  /\ nth 0 ex_Ks [] <> kept_gaps (nth 0 ex_vecs []) 0 2
  /\ nth 1 ex_Ks [] <> kept_gaps (nth 1 ex_vecs []) 1 2
  /\ proc (nth 0 ex_vecs []) 0 = 1 /\ peers (nth 2 ex_vecs []) 2 = [].
Proof.
  split.
  { split; [reflexivity|]. split.
    { intros v Hv. cbn in Hv. repeat (destruct Hv as [<-|Hv]; [reflexivity|]). contradiction. }
    intros r Hr. cbn [length ex_vecs] in Hr.
    do 5 (destruct r as [|r];
          [split; [split; [repeat constructor; cbn; tauto|vm_compute; tauto]|cbn; lia]|]).
    lia. }
  split; [vm_compute; discriminate|]. split; [vm_compute; discriminate|]. split; reflexivity.
Qed.

Example ex_decode :
  table_of ex_vecs ex_Ks 2
    = [[(2, 4); (-1, -2)]; [(0, 0); (2, 4)]; [(-1, -2); (-1, -2)]; [(0, 0); (4, 4)]; [(1, 1); (-1, -2)]]
  /\ map (receivers (table_of ex_vecs ex_Ks 2)) [0; 1; 2; 3; 4] = [[2; 3; 4]; [0; 2; 3; 4]; []; [0; 4]; [1]]
  /\ map (senders (table_of ex_vecs ex_Ks 2)) [0; 1; 2; 3; 4] = [[1; 3]; [4]; [0; 1]; [0; 1]; [0; 1; 3]]
  /\ map (fun r => peers (nth (Z.to_nat r) ex_vecs []) r) [0; 1; 2; 3; 4] = [[2; 4]; [0; 2; 4]; []; [0; 4]; [1]].
Proof. vm_compute. repeat split. Qed.
