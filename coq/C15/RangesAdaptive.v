(* C15 - sc_ranges_adaptive as compute + allreduce(max) + allgather: the gathered table is well formed,
   so decoding it is symmetric, and every peer is among the decoded receivers *)
From Coq Require Import ZArith List Bool Lia Sorting.Sorted.
From ScV Require Import Base.CInt C15.RangesModel C15.RangesGaps C15.RangesInvert C15.RangesCompute C15.RangesDecode.
Import ListNotations.
Local Open Scope Z_scope.

Definition local_of (v : list Z) (r nr : Z) : Z * list pair :=
  ranges_compute v r (fst (first_last v r)) (snd (first_last v r)) nr.

Lemma fold_max_spec l : forall a,
  a <= fold_left Z.max l a /\ (forall x, In x l -> x <= fold_left Z.max l a)
  /\ (fold_left Z.max l a = a \/ In (fold_left Z.max l a) l).
Proof.
  induction l as [|h r IH]; intros a; cbn [fold_left]; [split; [lia|split; [intros x []|left; reflexivity]]|].
  destruct (IH (Z.max a h)) as (I1 & I2 & I3). split; [lia|]. split.
  - intros x [<-|Hx]; [lia|apply I2; exact Hx].
  - destruct I3 as [I3|I3]; [|right; right; exact I3].
    destruct (Z.max_spec a h) as [[_ E]|[_ E]]; [right; left|left]; rewrite I3, E; reflexivity.
Qed.

Lemma zseq_nth n r : (r < n)%nat -> nth r (zseq n) 0 = Z.of_nat r.
Proof.
  intros H. unfold zseq. change 0 with (Z.of_nat 0). rewrite map_nth, seq_nth by exact H. reflexivity.
Qed.

Lemma zseq_length n : length (zseq n) = n.
Proof. unfold zseq. rewrite map_length, seq_length. reflexivity. Qed.

Lemma nth_map_lt {A B} (f : A -> B) l n d d' : (n < length l)%nat -> nth n (map f l) d' = f (nth n l d).
Proof.
  revert n; induction l as [|a r IH]; intros n H; [cbn in H; lia|].
  destruct n as [|n]; [reflexivity|]. cbn [map nth]. apply IH. cbn in H; lia.
Qed.

Lemma locals_nth (vecs : list (list Z)) nr r : (r < length vecs)%nat ->
  nth r (map (fun rv : Z * list Z => let '(r, v) := rv in let '(fp, lp) := first_last v r in ranges_compute v r fp lp nr)
             (combine (zseq (length vecs)) vecs)) (0, []) = local_of (nth r vecs []) (Z.of_nat r) nr.
Proof.
  intros H.
  rewrite (nth_map_lt _ _ r (0, [])) by (rewrite combine_length, zseq_length; lia).
  rewrite combine_nth, zseq_nth by (rewrite ?zseq_length; lia).
  unfold local_of. destruct (first_last (nth r vecs []) (Z.of_nat r)). reflexivity.
Qed.

(* rows: the filled ranges followed by a tail that is empty or starts with a negative entry *)
Lemma wf_row_app P F : forall lb, (forall r, In r F -> lb < fst r /\ fst r <= snd r /\ snd r < P) -> StronglySorted sep F ->
  forall T, match T with [] => True | t :: _ => fst t < 0 end -> wf_row P lb (F ++ T).
Proof.
  induction F as [|a r IH]; intros lb B S T HT; cbn [app].
  - destruct T as [|t T']; [exact I|]. cbn [wf_row]. left; exact HT.
  - apply StronglySorted_inv in S. destruct S as [S Hf]. cbn [wf_row]. right.
    destruct (B a (or_introl eq_refl)) as (B1 & B2 & B3). split; [exact B1|]. split; [exact B2|]. split; [exact B3|].
    apply IH; [|exact S|exact HT]. intros x Hx. destruct (B x (or_intror Hx)) as (C1 & C2 & C3).
    rewrite Forall_forall in Hf. specialize (Hf _ Hx). unfold sep in Hf. lia.
Qed.

Lemma prefix_app F T : (forall r, In r F -> 0 <= fst r) -> match T with [] => True | t :: _ => fst t < 0 end -> prefix (F ++ T) = F.
Proof.
  intros B HT. induction F as [|a r IH]; cbn [app prefix].
  - destruct T as [|t T']; [reflexivity|]. cbn [prefix]. replace (fst t <? 0) with true by (symmetry; apply Z.ltb_lt; exact HT). reflexivity.
  - replace (fst a <? 0) with false by (symmetry; apply Z.ltb_ge; apply B; left; reflexivity).
    f_equal. apply IH. intros x Hx. apply B. right; exact Hx.
Qed.

Lemma firstn_repeat_head {A} (x : A) j k : match firstn j (repeat x k) with [] => True | t :: _ => t = x end.
Proof. destruct j, k; cbn; auto. Qed.

Section Adaptive.
  Variables (vecs : list (list Z)) (nr : Z).
  Hypothesis Hnr : 1 <= nr.
  Hypothesis Hlen : forall v, In v vecs -> length v = length vecs.
  Let P : nat := length vecs.
  Let res := adaptive_all vecs nr.
  Let locals := fst (fst (fst res)).
  Let maxpeers := snd (fst (fst res)).
  Let maxwin := snd (fst res).
  Let tbl := snd res.

  Lemma locals_length : length locals = P.
  Proof. unfold locals, res, adaptive_all. cbn [fst snd]. rewrite map_length, combine_length, zseq_length. unfold P. lia. Qed.

  Lemma locals_at r : (r < P)%nat -> nth r locals (0, []) = local_of (nth r vecs []) (Z.of_nat r) nr.
  Proof. intros H. unfold locals, res, adaptive_all. cbn [fst snd]. apply locals_nth. exact H. Qed.

  Lemma maxwin_spec : (forall l, In l locals -> fst l <= maxwin) /\ 0 <= maxwin
                      /\ (maxwin = 0 \/ exists l, In l locals /\ fst l = maxwin).
  Proof.
    unfold maxwin, locals, res, adaptive_all. cbn [fst snd]. unfold allreduce_max.
    match goal with |- context [fold_left Z.max (map fst ?L) 0] => set (LL := L) end.
    destruct (fold_max_spec (map fst LL) 0) as (F1 & F2 & F3).
    split; [intros l Hl; apply F2; apply in_map; exact Hl|]. split; [exact F1|].
    destruct F3 as [F3|F3]; [left; exact F3|right]. apply in_map_iff in F3. destruct F3 as [l [E Hl]]. exists l. split; [exact Hl|exact E].
  Qed.

  Lemma local_facts r : (r < P)%nat ->
    let v := nth r vecs [] in let l := nth r locals (0, []) in
    length v = P /\ In l locals /\ 0 <= fst l <= nr /\ fst l <= maxwin.
  Proof.
    intros H v l. assert (Hv : In v vecs) by (apply nth_In; exact H).
    assert (Hl : In l locals) by (apply nth_In; rewrite locals_length; exact H).
    split; [apply Hlen; exact Hv|]. split; [exact Hl|].
    split; [|apply maxwin_spec; exact Hl].
    unfold l. rewrite (locals_at r H). unfold local_of. fold v.
    pose proof (compute_correct v (Z.of_nat r) nr Hnr) as C. cbv zeta in C. destruct C as (_ & C & _). exact C.
  Qed.

  Lemma maxwin_le : maxwin <= nr.
  Proof.
    destruct maxwin_spec as (_ & M0 & [M|[l [Hl E]]]); [lia|].
    apply In_nth with (d := (0, [])) in Hl. destruct Hl as [r [Hr <-]]. rewrite locals_length in Hr.
    destruct (local_facts r Hr) as (_ & _ & X & _). lia.
  Qed.

  Lemma tbl_length : length tbl = P.
  Proof. unfold tbl, res, adaptive_all. cbn [fst snd]. rewrite map_length. apply locals_length. Qed.

  Lemma tbl_row r : (r < P)%nat -> row_of tbl (Z.of_nat r) = firstn (Z.to_nat maxwin) (snd (nth r locals (0, []))).
  Proof.
    intros H. unfold row_of. rewrite Nat2Z.id.
    change tbl with (map (fun l : Z * list pair => firstn (Z.to_nat maxwin) (snd l)) locals).
    rewrite (nth_map_lt _ _ r (0, [])) by (rewrite locals_length; exact H). reflexivity.
  Qed.

  (* the row of rank r: its filled ranges, then nothing or unused entries *)
  Lemma row_shape r : (r < P)%nat ->
    let v := nth r vecs [] in
    exists F T, row_of tbl (Z.of_nat r) = F ++ T
      /\ match T with [] => True | t :: _ => fst t < 0 end
      /\ StronglySorted sep F
      /\ (forall x, In x F -> fst x <= snd x /\ In (fst x) (peers v (Z.of_nat r)) /\ In (snd x) (peers v (Z.of_nat r)))
      /\ (forall p, In p (peers v (Z.of_nat r)) -> exists x, In x F /\ fst x <= p <= snd x).
  Proof.
    intros H v. rewrite (tbl_row r H).
    destruct (local_facts r H) as (Lv & Ll & Ln & Lm). fold v in Lv.
    rewrite (locals_at r H) in *. unfold local_of in *. fold v in Ln, Lm |- *.
    pose proof (compute_correct v (Z.of_nat r) nr Hnr) as C. cbv zeta in C.
    set (rc := ranges_compute v (Z.of_nat r) (fst (first_last v (Z.of_nat r))) (snd (first_last v (Z.of_nat r))) nr) in *.
    destruct C as (C1 & C2 & C3 & _ & _ & C6 & C7 & C8 & _).
    set (n := Z.to_nat (fst rc)) in *.
    exists (firstn n (snd rc)), (firstn (Z.to_nat maxwin - n) (repeat UNUSED (Z.to_nat nr - n))).
    split.
    - rewrite <- (firstn_skipn n (snd rc)) at 1. rewrite C3, firstn_app, firstn_length, firstn_firstn.
      replace (Nat.min (Z.to_nat maxwin) n) with n by (unfold n; lia).
      replace (Nat.min n (length (snd rc))) with n by (rewrite C1; unfold n; lia). reflexivity.
    - split.
      + pose proof (firstn_repeat_head UNUSED (Z.to_nat maxwin - n) (Z.to_nat nr - n)) as X.
        destruct (firstn (Z.to_nat maxwin - n) (repeat UNUSED (Z.to_nat nr - n))); [exact I|]. subst p. cbn. lia.
      + split; [exact C7|]. split; [exact C6|exact C8].
  Qed.

  Theorem adaptive_table_wf : wf_table tbl.
  Proof.
    intros row Hrow. rewrite tbl_length.
    apply In_nth with (d := []) in Hrow. destruct Hrow as [r [Hr <-]]. rewrite tbl_length in Hr.
    change (nth r tbl []) with (nth (Z.to_nat (Z.of_nat r)) tbl []) || idtac.
    replace (nth r tbl []) with (row_of tbl (Z.of_nat r)) by (unfold row_of; rewrite Nat2Z.id; reflexivity).
    destruct (row_shape r Hr) as (F & T & E & HT & S & M & _). rewrite E.
    apply wf_row_app; [|exact S|exact HT].
    intros x Hx. destruct (M x Hx) as (M1 & M2 & M3).
    apply peers_In in M2, M3. destruct (local_facts r Hr) as (Lv & _). rewrite Lv in M2, M3. lia.
  Qed.

  Theorem adaptive_peers_are_receivers p q : 0 <= p < Z.of_nat P ->
    In q (peers (nth (Z.to_nat p) vecs []) p) -> In q (receivers tbl p).
  Proof.
    intros Hp Hq. apply receivers_spec.
    assert (Hr : (Z.to_nat p < P)%nat) by lia.
    destruct (row_shape (Z.to_nat p) Hr) as (F & T & E & HT & S & M & Cv). rewrite Z2Nat.id in * by lia.
    split; [apply peers_In in Hq; destruct Hq as [_ Hq]; unfold is_peer in Hq; apply andb_true_iff in Hq; destruct Hq as [_ Hq];
            apply negb_true_iff, Z.eqb_neq in Hq; exact Hq|].
    destruct (Cv q Hq) as [x [X1 X2]]. exists x. split; [|exact X2].
    rewrite E, prefix_app; [exact X1| |exact HT].
    intros y Hy. destruct (M y Hy) as (_ & M2 & _). apply peers_In in M2. lia.
  Qed.

  Theorem adaptive_maxima :
    (forall r, (r < P)%nat -> fst (nth r locals (0, [])) <= maxwin) /\ 0 <= maxwin <= nr
    /\ (maxwin = 0 \/ exists r, (r < P)%nat /\ fst (nth r locals (0, [])) = maxwin)
    /\ (forall r, (r < P)%nat -> peer_count (nth r vecs []) (Z.of_nat r) <= maxpeers).
  Proof.
    split; [intros r Hr; apply (local_facts r Hr)|]. split; [split; [apply maxwin_spec|apply maxwin_le]|]. split.
    - destruct maxwin_spec as (_ & _ & [M|[l [Hl E]]]); [left; exact M|right].
      apply In_nth with (d := (0, [])) in Hl. destruct Hl as [r [Hr Er]]. rewrite locals_length in Hr.
      exists r. split; [exact Hr|rewrite Er; exact E].
    - intros r Hr. unfold maxpeers, res, adaptive_all. cbn [fst snd]. unfold allreduce_max.
      match goal with |- _ <= fold_left Z.max ?L 0 => destruct (fold_max_spec L 0) as (_ & F2 & _) end.
      apply F2. apply in_map_iff. exists (Z.of_nat r, nth r vecs []). split; [reflexivity|].
      replace (Z.of_nat r, nth r vecs []) with (nth r (combine (zseq (length vecs)) vecs) (0, [])).
      + apply nth_In. rewrite combine_length, zseq_length. unfold P in Hr. lia.
      + rewrite combine_nth, zseq_nth by (rewrite ?zseq_length; unfold P in Hr; lia). reflexivity.
  Qed.
End Adaptive.
