(* C15 - tie T1: the hand-written model of src/sc_ranges.c (RangesModel.v) computes exactly what the definitions GENERATED
   from /repo/src/sc_ranges.c (Gen/RangesC15.v, regenerated on every run) compute: the unused-entry constants, the test for
   "no peers", the peer test, the gap test / length / claimed empty range, the scan that decides which slot is the shortest
   (length of a slot, strict comparison, start values), the move of the last slot and its clearing, the inversion of empty
   ranges into ranges, and the membership tests of sc_ranges_decode (receivers of a row, is-a-sender test).
   Ranks and counts are C ints: the lemmas are for entries in [-2^29, 2^29] (no overflow in hi - lo + 1).
   An edit of that arithmetic in sc_ranges.c changes a generated definition and one of these lemmas stops checking. *)
From Coq Require Import ZArith Lia List Bool.
From ScV Require Import Base.CInt Gen.RangesC15 C15.RangesModel.
Import ListNotations.
Local Open Scope Z_scope.
Local Open Scope bool_scope.

Definition RB : Z := 2 ^ 29.
Definition ok_z (x : Z) : Prop := - RB <= x <= RB.
Definition ok_pair (g : pair) : Prop := ok_z (fst g) /\ ok_z (snd g).

Ltac s32s := repeat match goal with
  | |- context [s32 ?x] => rewrite (s32_id x) by (unfold in_s32, M32; unfold ok_z, RB in *; change (2 ^ 29) with 536870912 in *; lia)
  end.

(* ---------- constants and tests of sc_ranges_compute ------------------------------------------------------------------- *)
Lemma gen_unused : compute_unused = UNUSED /\ compute_evict_clear = UNUSED.
Proof. split; reflexivity. Qed.

Lemma gen_empty fp lp : compute_empty fp lp = (lp <? fp).
Proof. reflexivity. Qed.

Lemma gen_skip procs rank j : compute_skip (proc procs j) j rank = negb (is_peer procs rank j).
Proof. unfold compute_skip, is_peer, z2b. destruct (proc procs j =? 0); destruct (j =? rank); reflexivity. Qed.

(* the peers the model walks over are the j the generated test does not skip *)
Lemma gen_peers procs rank :
  peers procs rank = filter (fun j => negb (compute_skip (proc procs j) j rank)) (zseq (length procs)).
Proof. unfold peers. apply filter_ext. intros j. rewrite gen_skip. rewrite negb_involutive. reflexivity. Qed.

Lemma gen_init nr : ok_z nr -> compute_init nr = (nr - 1, -1).
Proof. intros H. unfold compute_init. cbv zeta. s32s. reflexivity. Qed.

Lemma gen_first prev : compute_first prev = (prev =? -1).
Proof. reflexivity. Qed.

(* ---------- gaps ----------------------------------------------------------------------------------------------------------- *)
Lemma gen_gap_test p q : ok_z p -> ok_z q -> compute_gap_test p q = (p <? q - 1).
Proof. intros. unfold compute_gap_test. s32s. reflexivity. Qed.

Lemma gen_gap_claim p q : ok_z p -> ok_z q -> compute_gap_claim p q = (p + 1, q - 1).
Proof. intros. unfold compute_gap_claim. cbv zeta. s32s. reflexivity. Qed.

Lemma gen_gap_length p q : ok_z p -> ok_z q -> compute_gap_length p q = glen (p + 1, q - 1).
Proof. intros. unfold compute_gap_length, glen. cbv zeta. cbn [fst snd]. s32s. lia. Qed.

(* one step of the model's gaps_of is the generated test and the generated claimed range *)
Lemma gen_gaps_of_step p q r : ok_z p -> ok_z q ->
  gaps_of (p :: q :: r) = (if compute_gap_test p q then [compute_gap_claim p q] else []) ++ gaps_of (q :: r).
Proof. intros. rewrite gen_gap_test, gen_gap_claim by assumption. reflexivity. Qed.

Lemma gen_slot_unused lo : compute_slot_unused lo = (lo =? fst UNUSED).
Proof. reflexivity. Qed.

Lemma gen_nwin i : ok_z i -> compute_nwin i = i + 1.
Proof. intros. unfold compute_nwin. cbv zeta. s32s. reflexivity. Qed.

(* ---------- the scan for the shortest slot --------------------------------------------------------------------------------- *)
(* the comparison that decides: length of the slot = hi - lo + 1, STRICTLY less than the shortest so far *)
Lemma gen_evict_step lo hi i best bl : ok_z lo -> ok_z hi ->
  compute_evict_step lo hi i best bl = if glen (lo, hi) <? bl then (i, glen (lo, hi)) else (best, bl).
Proof. intros. unfold compute_evict_step, glen. cbv zeta. cbn [fst snd]. s32s. reflexivity. Qed.

Lemma gen_evict_init lastw np : ok_z np -> compute_evict_init lastw np = (lastw, -1, np + 1).
Proof. intros. unfold compute_evict_init. cbv zeta. s32s. reflexivity. Qed.

(* the scan written with the generated step *)
Fixpoint shortest_gen (l : list pair) (i best bl : Z) : Z :=
  match l with
  | [] => best
  | g :: r => let '(b', bl') := compute_evict_step (fst g) (snd g) i best bl in shortest_gen r (i + 1) b' bl'
  end.

Lemma gen_shortest_from l : Forall ok_pair l -> forall i best bl, shortest_from l i best bl = shortest_gen l i best bl.
Proof.
  induction 1 as [|g r [Hg1 Hg2] Hr IH]; intros i best bl; [reflexivity|].
  cbn [shortest_from shortest_gen]. rewrite gen_evict_step by assumption.
  replace (fst g, snd g) with g by (destruct g; reflexivity).
  destruct (glen g <? bl); apply IH.
Qed.

(* the model's `shortest` = the generated start values + the generated step over all slots, for EVERY slot list *)
Lemma gen_shortest np l lastw : ok_z np -> Forall ok_pair l ->
  shortest np l = let '(_, b0, bl0) := compute_evict_init lastw np in shortest_gen l 0 b0 bl0.
Proof. intros Hn Hl. rewrite gen_evict_init by assumption. unfold shortest. apply gen_shortest_from. exact Hl. Qed.

Lemma gen_evict_move g : compute_evict_move (fst g) (snd g) = g.
Proof. destruct g; reflexivity. Qed.

Lemma gen_evict_move_test s lastw : compute_evict_move_test s lastw = (s <? lastw).
Proof. reflexivity. Qed.

(* the model's eviction written with the generated definitions *)
Lemma gen_evict np l : ok_z np -> Forall ok_pair l -> ok_z (Z.of_nat (length l)) ->
  evict np l =
  let '(lastw, _) := compute_init (Z.of_nat (length l)) in
  let '(_, b0, bl0) := compute_evict_init lastw np in
  let s := shortest_gen l 0 b0 bl0 in
  if compute_evict_move_test s lastw
  then removelast (set_nth (Z.to_nat s) (compute_evict_move (fst (last l compute_evict_clear)) (snd (last l compute_evict_clear))) l)
  else removelast l.
Proof.
  intros Hn Hl Hlen. rewrite gen_init by assumption. rewrite gen_evict_init by assumption.
  rewrite gen_evict_move. unfold evict. cbv zeta. unfold shortest. rewrite gen_shortest_from by assumption.
  reflexivity.
Qed.

Lemma gen_full nwin nr : compute_full nwin nr = (nwin =? nr).
Proof. reflexivity. Qed.

(* a new gap goes into slot |slots| (nwin = i + 1); when nwin == num_ranges one slot is evicted *)
Lemma gen_add_gap np nr slots g : ok_z (Z.of_nat (length slots)) ->
  add_gap np nr slots g =
  let l := slots ++ [g] in if compute_full (compute_nwin (Z.of_nat (length slots))) nr then evict np l else l.
Proof.
  intros H. unfold add_gap. cbv zeta. rewrite gen_nwin by assumption. unfold compute_full.
  rewrite app_length. cbn [length]. replace (Z.of_nat (length slots + 1)) with (Z.of_nat (length slots) + 1) by lia. reflexivity.
Qed.

(* ---------- empty ranges -> ranges -------------------------------------------------------------------------------------------- *)
Lemma gen_invert_step s e : ok_z s -> ok_z e -> compute_invert_step s e = (e + 1, s - 1).
Proof. intros. unfold compute_invert_step. cbv zeta. s32s. reflexivity. Qed.

Lemma gen_invert_cons first last s e r : ok_z s -> ok_z e ->
  invert first last ((s, e) :: r) = let '(lo_i, hi_im1) := compute_invert_step s e in (first, hi_im1) :: invert lo_i last r.
Proof. intros. rewrite gen_invert_step by assumption. reflexivity. Qed.

Lemma gen_invert_nil first last nwin : ok_z nwin ->
  invert first last [] = [(fst (compute_invert_first first nwin), compute_invert_last last)] /\
  snd (compute_invert_first first nwin) = nwin + 1.
Proof. intros. unfold compute_invert_first, compute_invert_last. cbv zeta. cbn [fst snd]. s32s. split; reflexivity. Qed.

(* sc_ranges_compute's early exit and its result for "no peers", with the generated test and constants *)
Lemma gen_ranges_compute procs rank fp lp nr :
  ranges_compute procs rank fp lp nr =
  let n := Z.to_nat nr in
  if compute_empty fp lp then (0, repeat compute_unused n)
  else let rs := invert fp lp (isort (kept_gaps procs rank nr)) in
       (Z.of_nat (length rs), rs ++ repeat compute_evict_clear (n - length rs)).
Proof. reflexivity. Qed.

(* ---------- sc_ranges_decode: receivers ------------------------------------------------------------------------------------------- *)
Lemma gen_row_offset mr j : 0 <= mr <= RB -> 0 <= j -> 2 * mr * j <= RB ->
  decode_row_recv mr j = 2 * mr * j /\ decode_row_send mr j = 2 * mr * j.
Proof.
  intros. unfold decode_row_recv, decode_row_send.
  rewrite !(s32_id (2 * mr)) by (unfold in_s32, M32; unfold RB in *; change (2 ^ 29) with 536870912 in *; lia).
  rewrite !s32_id by (unfold in_s32, M32; unfold RB in *; change (2 ^ 29) with 536870912 in *; lia).
  split; reflexivity.
Qed.

Lemma gen_recv_body j rank nr : ok_z nr ->
  decode_recv_body j rank nr = if j =? rank then (0, 0, nr, 0) else (1, j, nr + 1, 0).
Proof. intros. unfold decode_recv_body. cbv zeta. s32s. reflexivity. Qed.

(* the ranks appended for the candidates js, with the generated body *)
Definition recv_scan_gen (js : list Z) (rank : Z) : list Z :=
  flat_map (fun j => let '(hit, v, _, _) := decode_recv_body j rank 0 in if hit =? 1 then [v] else []) js.

Lemma gen_recv_scan js rank : filter (fun j => negb (j =? rank)) js = recv_scan_gen js rank.
Proof.
  unfold recv_scan_gen. induction js as [|j r IH]; [reflexivity|].
  cbn [filter flat_map]. unfold decode_recv_body at 1. cbv zeta. destruct (j =? rank); cbn; rewrite IH; reflexivity.
Qed.

(* the candidates of a range are the j from the generated start value for which the generated loop condition holds *)
Lemma gen_recv_range lo hi j : In j (zrange lo hi) <-> decode_recv_first lo <= j /\ decode_recv_cond j hi = true.
Proof.
  unfold zrange, decode_recv_first, decode_recv_cond. rewrite in_map_iff. split.
  - intros [k [<- Hk]]. apply in_seq in Hk. split; [lia|]. apply Z.leb_le. lia.
  - intros [H1 H2]. apply Z.leb_le in H2. exists (Z.to_nat (j - lo)). split; [lia|]. apply in_seq. lia.
Qed.

(* one row entry of the model's receiver list, with the generated end-of-row test, range bounds and body *)
Lemma gen_row_receivers lo hi r rank :
  row_receivers ((lo, hi) :: r) rank =
  if decode_recv_stop lo then [] else recv_scan_gen (zrange (decode_recv_first lo) hi) rank ++ row_receivers r rank.
Proof. cbn [row_receivers]. rewrite gen_recv_scan. reflexivity. Qed.

(* ---------- sc_ranges_decode: senders --------------------------------------------------------------------------------------------- *)
(* the membership test: end of row / rank <= hi / rank >= lo, in this order; the first range that ends at or after rank decides *)
Lemma gen_send_body lo hi q j ns : ok_z ns ->
  decode_send_body lo hi q j ns =
  if lo <? 0 then (0, 0, ns, 1)
  else if q <=? hi then (if lo <=? q then (1, j, ns + 1, 1) else (0, 0, ns, 1))
  else (0, 0, ns, 0).
Proof.
  intros. unfold decode_send_body. cbv zeta. s32s.
  destruct (lo <? 0); [reflexivity|]. destruct (q <=? hi); [|reflexivity]. destruct (lo <=? q); reflexivity.
Qed.

(* the scan of one row with the generated body: does rank j's row contain q *)
Fixpoint row_has_gen (row : list pair) (q j : Z) : bool :=
  match row with
  | [] => false
  | (lo, hi) :: r => let '(hit, _, _, stop) := decode_send_body lo hi q j 0 in
                     if stop =? 1 then hit =? 1 else row_has_gen r q j
  end.

Lemma gen_row_has row q j : row_has row q = row_has_gen row q j.
Proof.
  induction row as [|[lo hi] r IH]; [reflexivity|].
  cbn [row_has row_has_gen]. unfold decode_send_body. cbv zeta.
  destruct (lo <? 0); [reflexivity|]. destruct (q <=? hi); [|exact IH]. destruct (lo <=? q); reflexivity.
Qed.

(* the model's sender list with the generated self-exclusion and membership test *)
Lemma gen_senders tbl rank :
  senders tbl rank = filter (fun j => negb (decode_send_self j rank) && row_has_gen (row_of tbl j) rank j) (zseq (length tbl)).
Proof. unfold senders. apply filter_ext. intros j. rewrite (gen_row_has _ rank j). reflexivity. Qed.
