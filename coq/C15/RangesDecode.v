(* C15 - sc_ranges_decode: receivers and senders are two readings of the same membership relation *)
From Coq Require Import ZArith List Bool Lia Sorting.Sorted.
From ScV Require Import Base.CInt C15.RangesModel C15.RangesGaps.
Import ListNotations.
Local Open Scope Z_scope.

Lemma zrange_In lo hi j : In j (zrange lo hi) <-> lo <= j <= hi.
Proof.
  unfold zrange. rewrite in_map_iff. split.
  - intros [k [<- Hk]]. apply in_seq in Hk. lia.
  - intros H. exists (Z.to_nat (j - lo)). split; [lia|apply in_seq; lia].
Qed.

Lemma zrange_sorted lo hi : StronglySorted Z.lt (zrange lo hi).
Proof.
  unfold zrange. generalize (seq_sorted 0 (Z.to_nat (hi - lo + 1))). generalize (seq 0 (Z.to_nat (hi - lo + 1))).
  intros l H. induction H as [|a l Hs IH Hf]; cbn [map]; constructor; [exact IH|].
  apply Forall_forall. intros x Hx. apply in_map_iff in Hx. destruct Hx as [y [<- Hy]].
  rewrite Forall_forall in Hf. specialize (Hf _ Hy). lia.
Qed.

Lemma sorted_app {A} (R : A -> A -> Prop) l1 l2 :
  StronglySorted R l1 -> StronglySorted R l2 -> (forall x y, In x l1 -> In y l2 -> R x y) -> StronglySorted R (l1 ++ l2).
Proof.
  induction 1 as [|a l Hs IH Hf]; intros H2 Hc; [exact H2|]. cbn [app]. constructor.
  - apply IH; [exact H2|]. intros x y Hx Hy. apply Hc; [right; exact Hx|exact Hy].
  - apply Forall_forall. intros x Hx. apply in_app_or in Hx. destruct Hx as [Hx|Hx].
    + rewrite Forall_forall in Hf. apply Hf. exact Hx.
    + apply Hc; [left; reflexivity|exact Hx].
Qed.

(* the part of a row that sc_ranges_decode reads: up to the first negative start *)
Fixpoint prefix (row : list pair) : list pair :=
  match row with
  | [] => []
  | g :: r => if fst g <? 0 then [] else g :: prefix r
  end.

(* a row as produced by sc_ranges_compute / sc_ranges_adaptive: ascending separated ranges inside [0, P),
   then (anything after) a negative start *)
Fixpoint wf_row (P lb : Z) (row : list pair) : Prop :=
  match row with
  | [] => True
  | g :: r => fst g < 0 \/ (lb < fst g /\ fst g <= snd g /\ snd g < P /\ wf_row P (snd g + 1) r)
  end.

Definition row_mem (row : list pair) (q : Z) : Prop := exists g, In g (prefix row) /\ fst g <= q <= snd g.

Lemma wf_row_prefix_lb P row : forall lb, wf_row P lb row -> forall g, In g (prefix row) -> lb < fst g /\ fst g <= snd g /\ snd g < P.
Proof.
  induction row as [|h r IH]; intros lb W g Hg; [contradiction|]. cbn [prefix] in Hg. cbn [wf_row] in W.
  destruct (fst h <? 0) eqn:E; [contradiction|]. apply Z.ltb_ge in E.
  destruct W as [W|(W1 & W2 & W3 & W4)]; [lia|].
  destruct Hg as [<-|Hg]; [lia|]. specialize (IH _ W4 g Hg). lia.
Qed.

Lemma row_receivers_In row p q : In q (row_receivers row p) <-> q <> p /\ row_mem row q.
Proof.
  induction row as [|[lo hi] r IH]; cbn [row_receivers].
  - split; [intros []|intros [_ [g [[] _]]]].
  - unfold row_mem. cbn [prefix fst]. destruct (lo <? 0); [split; [intros []|intros [_ [g [[] _]]]]|].
    rewrite in_app_iff, filter_In, zrange_In, IH, negb_true_iff, Z.eqb_neq. unfold row_mem. split.
    + intros [[H1 H2]|[H1 [g [G1 G2]]]].
      * split; [exact H2|]. exists (lo, hi). split; [left; reflexivity|exact H1].
      * split; [exact H1|]. exists g. split; [right; exact G1|exact G2].
    + intros [H1 [g [[<-|G1] G2]]]; [left; split; [exact G2|exact H1]|right; split; [exact H1|exists g; split; assumption]].
Qed.

Lemma row_has_spec P row : forall lb q, wf_row P lb row -> (row_has row q = true <-> row_mem row q).
Proof.
  induction row as [|[lo hi] r IH]; intros lb q W; cbn [row_has].
  - split; [discriminate|intros [g [[] _]]].
  - unfold row_mem. cbn [prefix fst]. cbn [wf_row fst snd] in W.
    destruct (lo <? 0) eqn:E; [split; [discriminate|intros [g [[] _]]]|]. apply Z.ltb_ge in E.
    destruct W as [W|(W1 & W2 & W3 & W4)]; [lia|].
    destruct (q <=? hi) eqn:Q; [apply Z.leb_le in Q|apply Z.leb_gt in Q].
    + rewrite Z.leb_le. split.
      * intros H. exists (lo, hi). split; [left; reflexivity|cbn; lia].
      * intros [g [[<-|G1] G2]]; [cbn in G2; lia|].
        pose proof (wf_row_prefix_lb P r _ W4 g G1). lia.
    + rewrite (IH _ q W4). unfold row_mem. split.
      * intros [g [G1 G2]]. exists g. split; [right; exact G1|exact G2].
      * intros [g [[<-|G1] G2]]; [cbn in G2; lia|]. exists g. split; assumption.
Qed.

Lemma row_receivers_sorted P row p : forall lb, wf_row P lb row ->
  StronglySorted Z.lt (row_receivers row p) /\ forall x, In x (row_receivers row p) -> lb < x < P.
Proof.
  induction row as [|[lo hi] r IH]; intros lb W; cbn [row_receivers]; [split; [constructor|intros x []]|].
  cbn [wf_row fst snd] in W. destruct (lo <? 0) eqn:E; [split; [constructor|intros x []]|]. apply Z.ltb_ge in E.
  destruct W as [W|(W1 & W2 & W3 & W4)]; [lia|]. destruct (IH _ W4) as [S1 S2]. split.
  - apply sorted_app; [apply filter_sorted; apply zrange_sorted|exact S1|].
    intros x y Hx Hy. apply filter_In in Hx. destruct Hx as [Hx _]. apply zrange_In in Hx. specialize (S2 _ Hy). lia.
  - intros x Hx. apply in_app_or in Hx. destruct Hx as [Hx|Hx].
    + apply filter_In in Hx. destruct Hx as [Hx _]. apply zrange_In in Hx. lia.
    + specialize (S2 _ Hx). lia.
Qed.

(* --- the table ---------------------------------------------------------------------------------------- *)
Definition wf_table (tbl : list (list pair)) : Prop :=
  forall row, In row tbl -> wf_row (Z.of_nat (length tbl)) (-1) row.

Lemma row_of_wf tbl p : wf_table tbl -> wf_row (Z.of_nat (length tbl)) (-1) (row_of tbl p).
Proof.
  intros W. unfold row_of. destruct (Nat.lt_ge_cases (Z.to_nat p) (length tbl)) as [H|H].
  - apply W. apply nth_In. exact H.
  - rewrite nth_overflow by exact H. exact I.
Qed.

Theorem decode_symmetric tbl p q : wf_table tbl -> 0 <= p < Z.of_nat (length tbl) -> p <> q ->
  (In q (receivers tbl p) <-> In p (senders tbl q)).
Proof.
  intros W Hp N. unfold receivers, senders.
  rewrite row_receivers_In, filter_In, zseq_In, andb_true_iff, negb_true_iff, Z.eqb_neq.
  rewrite (row_has_spec _ _ (-1) q (row_of_wf tbl p W)). intuition congruence.
Qed.

Theorem decode_outputs tbl p : wf_table tbl ->
  ~ In p (receivers tbl p) /\ ~ In p (senders tbl p)
  /\ StronglySorted Z.lt (receivers tbl p) /\ StronglySorted Z.lt (senders tbl p)
  /\ (forall x, In x (receivers tbl p) -> 0 <= x < Z.of_nat (length tbl))
  /\ (forall x, In x (senders tbl p) -> 0 <= x < Z.of_nat (length tbl)).
Proof.
  intros W. unfold receivers, senders.
  destruct (row_receivers_sorted _ (row_of tbl p) p (-1) (row_of_wf tbl p W)) as [S1 S2].
  split; [rewrite row_receivers_In; intros [X _]; congruence|].
  split; [rewrite filter_In, andb_true_iff, negb_true_iff, Z.eqb_neq; intros [_ [X _]]; congruence|].
  split; [exact S1|]. split; [apply filter_sorted; apply zseq_sorted|].
  split; [intros x Hx; specialize (S2 _ Hx); lia|].
  intros x Hx. apply filter_In in Hx. destruct Hx as [Hx _]. apply zseq_In in Hx. exact Hx.
Qed.

(* what the receivers are: the members of the own ranges *)
Theorem receivers_spec tbl p q : In q (receivers tbl p) <-> q <> p /\ row_mem (row_of tbl p) q.
Proof. apply row_receivers_In. Qed.
