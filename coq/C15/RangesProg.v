(* C15 - sc_ranges_adaptive as a PER-RANK PROGRAM over the collective contracts (MPI/Prog.v, MPI/SemColl.v):
     rank r:  local := (peer count, sc_ranges_compute of its own vector)
              Coll ALLREDUCE_MAX [peer count; nwin]            -> (maxpeers, maxwin)          = *inout1, *inout2
              Coll ALLGATHER (the first 2 * maxwin ints of its ranges array)    -> the table  = *global_ranges
              return [nwin; maxpeers; maxwin] ++ own ranges array ++ table
   under the interleaving semantics with synchronising collectives (SemColl.step_c, contract SemColl.coll_reply: Allreduce (MAX)
   gives every rank the entry-wise maximum of all contributions, Allgather the concatenation of all contributions in rank order).
   Theorem adaptive_every_schedule: every run of the P programs has exactly 2 steps, never gets stuck, leaves no message, and ends
   with every rank r holding adaptive_result vecs nr r, i.e. (RangesModel.adaptive_all, the composition the other theorems of C15 are
   about): the same maxima and the same table on all ranks, the table = the ranks' first maxwin ranges in rank order.
   This DISCHARGES the "collective specification" that RangesModel.adaptive_all builds in: adaptive_all is what the programs compute. *)
From Coq Require Import ZArith Lia List Bool.
From ScV Require Import Base.CInt MPI.Prog MPI.Sem MPI.SemAny MPI.SemColl
  C15.RangesModel C15.RangesGaps C15.RangesCompute C15.RangesDecode C15.RangesAdaptive C15.RangesProps.
Import ListNotations.
Local Open Scope Z_scope.

Definition KIND_ALLGATHER : Z := 1.          (* SemColl.coll_reply: MPI_Allgather *)
Definition KIND_ALLREDUCE_MAX : Z := 10.     (* SemColl.coll_reply: MPI_Allreduce (MPI_MAX) *)

Definition flatten_pairs (l : list pair) : list Z := flat_map (fun g => [fst g; snd g]) l.

Definition adaptive_prog (procs : list Z) (me nr : Z) : prog :=
  let own := local_of procs me nr in
  Do (Coll KIND_ALLREDUCE_MAX (-1) [peer_count procs me; fst own]) (fun g =>
    let maxpeers := nth 0 g 0 in
    let maxwin := nth 1 g 0 in
    Do (Coll KIND_ALLGATHER (-1) (flatten_pairs (firstn (Z.to_nat maxwin) (snd own)))) (fun all =>
      Ret ([fst own; maxpeers; maxwin] ++ flatten_pairs (snd own) ++ all))).

Definition adaptive_sys (vecs : list (list Z)) (nr : Z) : gs :=
  mkgs (fun r => if inP (Z.of_nat (length vecs)) r then adaptive_prog (nth (Z.to_nat r) vecs []) r nr else Ret [])
       (fun _ _ _ => []).

(* what rank r holds afterwards, read off RangesModel.adaptive_all *)
Definition adaptive_result (vecs : list (list Z)) (nr : Z) (r : nat) : payload :=
  let res := adaptive_all vecs nr in
  let own := nth r (fst (fst (fst res))) (0, []) in
  [fst own; snd (fst (fst res)); snd (fst res)] ++ flatten_pairs (snd own) ++ concat (map flatten_pairs (snd res)).

Lemma cranks_zseq n : cranks (Z.of_nat n) = zseq n.
Proof. unfold cranks, zseq. rewrite Nat2Z.id. reflexivity. Qed.

Lemma map_combine_zseq {A B} (f : Z * A -> B) (l : list A) (d : A) :
  map f (combine (zseq (length l)) l) = map (fun r => f (r, nth (Z.to_nat r) l d)) (zseq (length l)).
Proof.
  apply (nth_ext _ _ (f (0, d)) (f (0, d))).
  - rewrite !map_length, combine_length, zseq_length. lia.
  - intros k Hk. rewrite map_length, combine_length, zseq_length, Nat.min_id in Hk.
    rewrite (nth_map_lt f _ k (0, d)) by (rewrite combine_length, zseq_length; lia).
    rewrite (nth_map_lt (fun r => f (r, nth (Z.to_nat r) l d)) _ k 0) by (rewrite zseq_length; exact Hk).
    rewrite combine_nth by (rewrite zseq_length; reflexivity). rewrite zseq_nth by exact Hk. rewrite Nat2Z.id. reflexivity.
Qed.

Lemma maxz_fold0 l : Forall (fun x => 0 <= x) l -> maxz l = allreduce_max l.
Proof. intros H. unfold allreduce_max. apply maxz_fold. exact H. Qed.

Lemma compute_fst_nonneg procs rank fp lp nr : 0 <= fst (ranges_compute procs rank fp lp nr).
Proof. unfold ranges_compute. destruct (lp <? fp); cbn [fst]; lia. Qed.

Lemma peer_count_nonneg procs rank : 0 <= peer_count procs rank.
Proof. unfold peer_count. lia. Qed.

Section Prog.
  Variables (vecs : list (list Z)) (nr : Z).
  Hypothesis Hne : vecs <> [].
  Let n : nat := length vecs.
  Let P : Z := Z.of_nat n.
  Let res := adaptive_all vecs nr.
  Let locals := fst (fst (fst res)).
  Let maxpeers := snd (fst (fst res)).
  Let maxwin := snd (fst res).
  Let tbl := snd res.
  Let vec (r : Z) : list Z := nth (Z.to_nat r) vecs [].
  Let s0 := adaptive_sys vecs nr.

  Lemma HP : 0 < P.
  Proof. unfold P, n. destruct vecs; [congruence|cbn [length]; lia]. Qed.

  Definition contrib_max (r : Z) : payload := [peer_count (vec r) r; fst (local_of (vec r) r nr)].
  Definition contrib_gather (r : Z) : payload := flatten_pairs (firstn (Z.to_nat maxwin) (snd (local_of (vec r) r nr))).

  Lemma locals_map : locals = map (fun r => local_of (vec r) r nr) (zseq n).
  Proof.
    unfold locals, res, adaptive_all. cbn [fst snd]. rewrite (map_combine_zseq _ vecs []). apply map_ext. intros r.
    unfold local_of, vec. destruct (first_last (nth (Z.to_nat r) vecs []) r). reflexivity.
  Qed.

  Lemma maxpeers_eq : maxpeers = allreduce_max (map (fun c => nth 0 c 0) (map contrib_max (zseq n))).
  Proof.
    unfold maxpeers, res, adaptive_all. cbn [fst snd]. rewrite (map_combine_zseq _ vecs []), map_map. reflexivity.
  Qed.

  Lemma maxwin_eq : maxwin = allreduce_max (map (fun c => nth 1 c 0) (map contrib_max (zseq n))).
  Proof.
    change maxwin with (allreduce_max (map fst locals)). rewrite locals_map, !map_map. reflexivity.
  Qed.

  Lemma tbl_eq : tbl = map (fun r => firstn (Z.to_nat maxwin) (snd (local_of (vec r) r nr))) (zseq n).
  Proof.
    change tbl with (map (fun l : Z * list pair => firstn (Z.to_nat maxwin) (snd l)) locals). rewrite locals_map, map_map. reflexivity.
  Qed.

  Lemma table_concat : concat (map contrib_gather (zseq n)) = concat (map flatten_pairs tbl).
  Proof. rewrite tbl_eq, map_map. reflexivity. Qed.

  (* the first collective: all ranks at Allreduce (MAX) with their two contributions *)
  Lemma s0_pr r : 0 <= r < P -> pr s0 r = adaptive_prog (vec r) r nr.
  Proof. intros Hr. unfold s0, adaptive_sys. cbn [pr]. fold n. fold P. rewrite (proj2 (inP_spec P r) Hr). reflexivity. Qed.

  Lemma s0_out r : ~ (0 <= r < P) -> pr s0 r = Ret [].
  Proof.
    intros Hr. unfold s0, adaptive_sys. cbn [pr]. fold n. fold P. destruct (inP P r) eqn:E; [|reflexivity].
    apply inP_spec in E. contradiction.
  Qed.

  Lemma contribs_s0 : contribs P s0 = map contrib_max (zseq n).
  Proof.
    unfold contribs, P. rewrite cranks_zseq. apply map_ext_in. intros r Hr. apply zseq_In in Hr. fold P in Hr.
    rewrite s0_pr by exact Hr. reflexivity.
  Qed.

  Lemma reply_max r : coll_reply KIND_ALLREDUCE_MAX (-1) (contribs P s0) r = [maxpeers; maxwin].
  Proof.
    rewrite contribs_s0. unfold coll_reply. cbn [KIND_ALLREDUCE_MAX Z.eqb Pos.eqb orb].
    assert (Hl : length (hd [] (map contrib_max (zseq n))) = 2%nat).
    { pose proof HP as H. unfold P in H. destruct n as [|k]; [lia|]. reflexivity. }
    rewrite Hl. cbn [seq map]. rewrite maxpeers_eq, maxwin_eq. f_equal; [|f_equal]; apply maxz_fold0; apply Forall_forall; intros x Hx;
      rewrite map_map in Hx; apply in_map_iff in Hx; destruct Hx as [r' [<- _]]; cbn [contrib_max nth].
    - apply peer_count_nonneg.
    - unfold local_of. apply compute_fst_nonneg.
  Qed.

  Let s1 := mkgs (advance P coll_reply s0 KIND_ALLREDUCE_MAX (-1)) (ch s0).

  Lemma s1_pr r : 0 <= r < P -> pr s1 r =
    Do (Coll KIND_ALLGATHER (-1) (contrib_gather r)) (fun all =>
      Ret ([fst (local_of (vec r) r nr); maxpeers; maxwin] ++ flatten_pairs (snd (local_of (vec r) r nr)) ++ all)).
  Proof.
    intros Hr. unfold s1. cbn [pr]. unfold advance. rewrite (proj2 (inP_spec P r) Hr), s0_pr by exact Hr.
    unfold adaptive_prog. cbv zeta. rewrite reply_max. reflexivity.
  Qed.

  Lemma s1_out r : ~ (0 <= r < P) -> pr s1 r = Ret [].
  Proof.
    intros Hr. unfold s1. cbn [pr]. unfold advance. destruct (inP P r) eqn:E; [apply inP_spec in E; contradiction|]. apply s0_out. exact Hr.
  Qed.

  Lemma contribs_s1 : contribs P s1 = map contrib_gather (zseq n).
  Proof.
    unfold contribs, P. rewrite cranks_zseq. apply map_ext_in. intros r Hr. apply zseq_In in Hr. fold P in Hr.
    rewrite s1_pr by exact Hr. reflexivity.
  Qed.

  Let s2 := mkgs (advance P coll_reply s1 KIND_ALLGATHER (-1)) (ch s1).

  Lemma s2_pr r : (r < n)%nat -> pr s2 (Z.of_nat r) = Ret (adaptive_result vecs nr r).
  Proof.
    intros Hr. assert (Hr' : 0 <= Z.of_nat r < P) by (unfold P; lia).
    unfold s2. cbn [pr]. unfold advance. rewrite (proj2 (inP_spec P _) Hr'), s1_pr by exact Hr'.
    rewrite contribs_s1. unfold coll_reply. cbn [KIND_ALLGATHER Z.eqb Pos.eqb orb]. rewrite table_concat.
    unfold adaptive_result. fold res. fold locals. fold maxpeers. fold maxwin. fold tbl.
    rewrite locals_map. rewrite (nth_map_lt (fun r0 => local_of (vec r0) r0 nr) _ r 0) by (rewrite zseq_length; exact Hr).
    rewrite zseq_nth by exact Hr. reflexivity.
  Qed.

  Lemma s2_final : final s2.
  Proof.
    intros r. destruct (Z_le_dec 0 r) as [H0|H0]; [destruct (Z_lt_dec r P) as [H1|H1]|].
    - exists (adaptive_result vecs nr (Z.to_nat r)). rewrite <- (Z2Nat.id r) at 1 by exact H0. apply s2_pr. unfold P in H1. lia.
    - exists []. unfold s2. cbn [pr]. unfold advance. destruct (inP P r) eqn:E; [apply inP_spec in E; lia|]. apply s1_out. lia.
    - exists []. unfold s2. cbn [pr]. unfold advance. destruct (inP P r) eqn:E; [apply inP_spec in E; lia|]. apply s1_out. lia.
  Qed.

  Definition adaptive_good (s : gs) : Prop :=
    (forall r, (r < length vecs)%nat -> pr s (Z.of_nat r) = Ret (adaptive_result vecs nr r)) /\ (forall a b t, ch s a b t = []).

  Theorem adaptive_every_schedule : every_schedule P coll_reply (adaptive_sys vecs nr) 2 adaptive_good.
  Proof.
    fold s0. apply (es_coll P coll_reply s0 KIND_ALLREDUCE_MAX (-1) 1 adaptive_good HP).
    - intros r Hr. rewrite s0_pr by exact Hr. unfold adaptive_prog. eexists _, _. reflexivity.
    - intros r Hr. exists []. apply s0_out. exact Hr.
    - fold s1. apply (es_coll P coll_reply s1 KIND_ALLGATHER (-1) 0 adaptive_good HP).
      + intros r Hr. rewrite s1_pr by exact Hr. eexists _, _. reflexivity.
      + intros r Hr. exists []. apply s1_out. exact Hr.
      + fold s2. apply es_final; [apply s2_final|]. split; [intros r Hr; apply s2_pr; exact Hr|reflexivity].
  Qed.
End Prog.

(* ---- what the result says (with the theorems about adaptive_all) ------------------------------------------------------------------ *)
(* the shared part of the result - both maxima and the table - does not depend on the rank *)
Lemma adaptive_result_shared vecs nr r r' :
  firstn 2 (skipn 1 (adaptive_result vecs nr r)) = firstn 2 (skipn 1 (adaptive_result vecs nr r')).
Proof. reflexivity. Qed.

Lemma flatten_pairs_length l : length (flatten_pairs l) = (2 * length l)%nat.
Proof. induction l as [|g r IH]; [reflexivity|]. unfold flatten_pairs in *. cbn [flat_map length app]. rewrite IH. lia. Qed.

(* the layout: [nwin; maxpeers; maxwin], then the own array of num_ranges pairs, then the table *)
Theorem adaptive_result_layout vecs nr r : 1 <= nr -> (forall v, In v vecs -> length v = length vecs) -> (r < length vecs)%nat ->
  let res := adaptive_all vecs nr in
  let maxwin := snd (fst res) in
  adaptive_result vecs nr r =
    [nranges (nth r vecs []) (Z.of_nat r) nr; snd (fst (fst res)); maxwin]
    ++ flatten_pairs (ranges_array (nth r vecs []) (Z.of_nat r) nr)
    ++ concat (map (fun q => flatten_pairs (firstn (Z.to_nat maxwin) (ranges_array (nth q vecs []) (Z.of_nat q) nr))) (seq 0 (length vecs)))
  /\ length (flatten_pairs (ranges_array (nth r vecs []) (Z.of_nat r) nr)) = (2 * Z.to_nat nr)%nat
  /\ length (concat (map flatten_pairs (snd res))) = (2 * Z.to_nat maxwin * length vecs)%nat.
Proof.
  intros Hnr Hlen Hr res maxwin. unfold adaptive_result. fold res.
  pose proof (locals_at vecs nr r Hr) as L. cbv zeta in L. fold res in L. rewrite L.
  destruct (adaptive_table_rows vecs nr Hnr Hlen) as [T1 T2]. fold res in T1, T2. fold maxwin in T2.
  split; [|split].
  - f_equal. f_equal. f_equal. apply (nth_ext _ _ [] []).
    + rewrite !map_length, seq_length. exact T1.
    + intros k Hk. rewrite map_length, T1 in Hk.
      rewrite (nth_map_lt flatten_pairs _ k []) by (rewrite T1; exact Hk).
      rewrite (nth_map_lt _ (seq 0 (length vecs)) k 0%nat) by (rewrite seq_length; exact Hk).
      rewrite seq_nth by exact Hk. cbn [Nat.add]. destruct (T2 k Hk) as [E _]. rewrite E. reflexivity.
  - rewrite flatten_pairs_length. destruct (compute_shape (nth r vecs []) (Z.of_nat r) nr Hnr) as [S1 _]. rewrite S1. reflexivity.
  - assert (H : forall rows : list (list pair), (forall row, In row rows -> length row = Z.to_nat maxwin) ->
               length (concat (map flatten_pairs rows)) = (2 * Z.to_nat maxwin * length rows)%nat).
    { induction rows as [|row rows IH]; intros Hrows; [cbn; lia|]. cbn [map concat length]. rewrite app_length, flatten_pairs_length, IH.
      - rewrite (Hrows row (or_introl eq_refl)). lia.
      - intros row' Hin. apply Hrows. right; exact Hin. }
    rewrite H, T1; [reflexivity|]. intros row Hin. apply In_nth with (d := []) in Hin. destruct Hin as [k [Hk <-]]. rewrite T1 in Hk. apply (T2 k Hk).
Qed.
