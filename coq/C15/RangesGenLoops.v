(* C15 - tie T1, loops and whole bodies: the definitions GENERATED from /repo/src/sc_ranges.c with `ranges[e]` / `procs[e]` as memory
   reads (Gen/RangesC15.v: compute_claim_scan, compute_evict_scan, compute_sort, ranges_compare, adaptive_body, statistics_body;
   regenerated on every run) compute what the hand-written model (RangesModel.v) computes:
     - the loop that claims a slot stops at the FIRST unused slot, i.e. at index |slots| (the model appends: slots ++ [g]);
     - the scan `nwin = lastw; shortest_range = -1; shortest_length = num_procs + 1; for (i = 0; i < num_ranges; ++i) ..` with its
       bounds returns the model's `shortest` (and nwin = lastw);
     - qsort is called unconditionally on the first nwin pairs of 2 * sizeof (int) bytes; its comparator orders by the start exactly
       like the model's insertion sort does;
     - the whole body of sc_ranges_adaptive: contributions (peer_count, return value of sc_ranges_compute) to an Allreduce of 2 ints
       with MAX, *inout1 / *inout2 = its results, an Allgather of 2 * maxwin ints per rank from `ranges` into a buffer of
       2 * maxwin * num_procs ints, return value = that of sc_ranges_compute;
     - the whole body of sc_ranges_statistics hands the model's `empties` to sc_stats_set1.
   The memory view of an array of pairs: mem_of l k = the k-th int of the flattened list (0 outside). *)
From Coq Require Import ZArith Lia List Bool.
From ScV Require Import Base.CInt Gen.RangesC15 C15.RangesModel C15.RangesGen.
Import ListNotations.
Local Open Scope Z_scope.
Local Open Scope bool_scope.

Definition flat (l : list pair) : list Z := flat_map (fun g => [fst g; snd g]) l.
Definition mem_of (l : list pair) (k : Z) : Z := nth (Z.to_nat k) (flat l) 0.

Lemma flat_nth l : forall i, (i < length l)%nat ->
  nth (2 * i) (flat l) 0 = fst (nth i l UNUSED) /\ nth (2 * i + 1) (flat l) 0 = snd (nth i l UNUSED).
Proof.
  induction l as [|g r IH]; intros i H; [cbn in H; lia|].
  destruct i as [|i]; [split; reflexivity|].
  replace (2 * S i)%nat with (S (S (2 * i))) by lia. replace (S (S (2 * i)) + 1)%nat with (S (S (2 * i + 1))) by lia.
  cbn [flat flat_map app nth]. apply IH. cbn in H; lia.
Qed.

Lemma mem_lo l i : (i < length l)%nat -> mem_of l (2 * Z.of_nat i) = fst (nth i l UNUSED).
Proof. intros H. unfold mem_of. replace (Z.to_nat (2 * Z.of_nat i)) with (2 * i)%nat by lia. apply (flat_nth l i H). Qed.
Lemma mem_hi l i : (i < length l)%nat -> mem_of l (2 * Z.of_nat i + 1) = snd (nth i l UNUSED).
Proof. intros H. unfold mem_of. replace (Z.to_nat (2 * Z.of_nat i + 1)) with (2 * i + 1)%nat by lia. apply (flat_nth l i H). Qed.

Ltac s32b := repeat match goal with
  | |- context [s32 ?x] => rewrite (s32_id x) by (unfold in_s32, M32; unfold ok_z, RB in *; change (2 ^ 29) with 536870912 in *; lia)
  end.

(* ---------- which slot a new gap is put into: the first one whose start is -1 ------------------------------------------------- *)
Lemma claim_loop arr nr prev j st : forall fuel i, (i <= nr)%nat -> (nr - i < fuel)%nat -> Z.of_nat nr <= RB ->
  forall first, (i <= first <= nr)%nat ->
  (forall k, (i <= k < first)%nat -> fst (nth k arr UNUSED) <> -1) -> ((first < nr)%nat -> fst (nth first arr UNUSED) = -1) ->
  length arr = nr ->
  exists st', compute_claim_scan_loop1 fuel (mem_of arr) j (Z.of_nat nr) prev (Z.of_nat i) st = Some (inl (Z.of_nat first, st')).
Proof.
  induction fuel as [|fuel IH]; intros i Hi Hf Hb first Hfi Hne Hun Hlen; [lia|].
  cbn [compute_claim_scan_loop1].
  destruct (Z.of_nat i <? Z.of_nat nr) eqn:E; [apply Z.ltb_lt in E|apply Z.ltb_ge in E].
  - s32b. rewrite mem_lo by lia.
    destruct (Nat.eq_dec i first) as [->|N].
    + rewrite Hun by lia. cbn [Z.eqb Pos.eqb]. eexists; reflexivity.
    + replace (fst (nth i arr UNUSED) =? -1) with false by (symmetry; apply Z.eqb_neq; apply Hne; lia).
      replace (Z.of_nat i + 1) with (Z.of_nat (S i)) by lia.
      apply IH; try lia; try assumption. intros k Hk. apply Hne. lia.
  - assert (i = nr) by lia. assert (first = nr) by lia. subst. eexists; reflexivity.
Qed.

(* the slot array holds the filled slots (none starts with -1: starts are ranks >= 0) followed by unused entries; a free slot exists *)
Lemma gen_claim_scan slots nr prev j st fuel : (length slots < nr)%nat -> (nr < fuel)%nat -> Z.of_nat nr <= RB ->
  Forall (fun g => fst g <> -1) slots ->
  exists st', compute_claim_scan fuel (mem_of (slots ++ repeat compute_unused (nr - length slots))) (Z.of_nat nr) prev j st
              = Some (Z.of_nat (length slots), st').
Proof.
  intros Hn Hf Hb Hs. unfold compute_claim_scan.
  destruct (claim_loop (slots ++ repeat compute_unused (nr - length slots)) nr prev j st fuel 0 ltac:(lia) ltac:(lia) Hb (length slots)) as [st' E].
  - lia.
  - intros k Hk. rewrite app_nth1 by lia. rewrite Forall_forall in Hs. apply Hs. apply nth_In. lia.
  - intros _. rewrite app_nth2, Nat.sub_diag by lia. destruct (nr - length slots)%nat eqn:X; [lia|reflexivity].
  - rewrite app_length, repeat_length. lia.
  - change (Z.of_nat 0) with 0 in E. rewrite E. eexists; reflexivity.
Qed.

(* ---------- the scan for the shortest slot, as a loop ----------------------------------------------------------------------------- *)
Lemma evict_loop arr nr : forall fuel rest i len best bl, (length rest < fuel)%nat -> Z.of_nat nr <= RB ->
  length arr = nr -> Forall ok_pair arr -> rest = skipn i arr -> (i <= nr)%nat ->
  exists len' bl', compute_evict_scan_loop1 fuel (mem_of arr) (Z.of_nat nr) (Z.of_nat i) len bl best
                   = Some (inl (Z.of_nat nr, len', bl', shortest_from rest (Z.of_nat i) best bl)).
Proof.
  induction fuel as [|fuel IH]; intros rest i len best bl Hf Hb Hlen Hok Hr Hi; [lia|].
  cbn [compute_evict_scan_loop1].
  destruct (Z.of_nat i <? Z.of_nat nr) eqn:E; [apply Z.ltb_lt in E|apply Z.ltb_ge in E].
  - assert (Hi' : (i < length arr)%nat) by lia.
    assert (Hg : ok_pair (nth i arr UNUSED)) by (rewrite Forall_forall in Hok; apply Hok; apply nth_In; exact Hi').
    destruct Hg as [Hg1 Hg2].
    assert (Hrest : rest = nth i arr UNUSED :: skipn (S i) arr).
    { subst rest. clear -Hi'. revert i Hi'. induction arr as [|a r IH]; intros i H; [cbn in H; lia|].
      destruct i as [|i]; [reflexivity|]. cbn [skipn nth]. apply IH. cbn in H; lia. }
    rewrite Hrest. cbn [shortest_from]. s32b. rewrite mem_lo, mem_hi by lia.
    set (g := nth i arr UNUSED) in *. unfold glen.
    replace (s32 (s32 (snd g - fst g) + 1)) with (snd g - fst g + 1)
      by (rewrite (s32_id (snd g - fst g)) by (unfold in_s32, M32; unfold ok_z, RB in *; change (2 ^ 29) with 536870912 in *; lia);
          rewrite s32_id by (unfold in_s32, M32; unfold ok_z, RB in *; change (2 ^ 29) with 536870912 in *; lia); reflexivity).
    replace (Z.of_nat i + 1) with (Z.of_nat (S i)) by lia.
    destruct (snd g - fst g + 1 <? bl); (apply IH; [rewrite Hrest in Hf; cbn [length] in Hf; lia|assumption|assumption|assumption|reflexivity|lia]).
  - assert (i = nr) by lia. subst i. rewrite <- Hlen, skipn_all in Hr. subst rest. cbn [shortest_from]. eexists _, _; reflexivity.
Qed.

Lemma gen_evict_scan l lastw np len0 fuel : (length l < fuel)%nat -> Z.of_nat (length l) <= RB -> ok_z np -> Forall ok_pair l ->
  exists bl, compute_evict_scan fuel (mem_of l) lastw np (Z.of_nat (length l)) len0 = Some (lastw, shortest np l, bl).
Proof.
  intros Hf Hb Hn Hok. unfold compute_evict_scan.
  destruct (evict_loop l (length l) fuel l 0 len0 (-1) (s32 (np + 1)) Hf Hb eq_refl Hok eq_refl ltac:(lia)) as [len' [bl' E]].
  change (Z.of_nat 0) with 0 in E. rewrite E. exists bl'. unfold shortest. s32b. reflexivity.
Qed.

(* ---------- the final sort ---------------------------------------------------------------------------------------------------------- *)
(* qsort (ranges, nwin, 2 * sizeof (int), sc_ranges_compare) is called on every path (no condition), on nwin elements of 8 bytes *)
Lemma gen_sort ranges nwin : 0 <= nwin <= RB -> compute_sort ranges nwin = (1, ranges, nwin, 8).
Proof.
  intros H. unfold compute_sort. cbv zeta. rewrite !u64_id by (unfold M64; unfold RB in *; change (2 ^ 29) with 536870912 in *; lia). reflexivity.
Qed.

Lemma gen_compare a b : ok_z a -> ok_z b -> ranges_compare a b = a - b.
Proof. intros. unfold ranges_compare. s32b. reflexivity. Qed.

(* insertion by the start, written with the generated comparator (<= 0: the new element goes in front) *)
Fixpoint insert_gen (g : pair) (l : list pair) : list pair :=
  match l with
  | [] => [g]
  | h :: r => if ranges_compare (fst g) (fst h) <=? 0 then g :: l else h :: insert_gen g r
  end.

Lemma gen_insert_by_start g l : ok_pair g -> Forall ok_pair l -> insert_by_start g l = insert_gen g l.
Proof.
  intros [Hg _] Hl. induction Hl as [|h r [Hh _] Hr IH]; [reflexivity|]. cbn [insert_by_start insert_gen].
  rewrite gen_compare by assumption. replace (fst g - fst h <=? 0) with (fst g <=? fst h)
    by (destruct (Z.leb_spec (fst g) (fst h)); symmetry; [apply Z.leb_le|apply Z.leb_gt]; lia).
  rewrite IH. reflexivity.
Qed.

(* the comparator is a strict order on the starts: negative / zero / positive exactly for < / = / > *)
Lemma gen_compare_sign a b : ok_z a -> ok_z b ->
  (ranges_compare a b <? 0) = (a <? b) /\ (ranges_compare a b =? 0) = (a =? b) /\ (0 <? ranges_compare a b) = (b <? a).
Proof.
  intros. rewrite gen_compare by assumption. repeat split.
  - destruct (Z.ltb_spec a b); [apply Z.ltb_lt|apply Z.ltb_ge]; lia.
  - destruct (Z.eqb_spec a b); [apply Z.eqb_eq|apply Z.eqb_neq]; lia.
  - destruct (Z.ltb_spec b a); [apply Z.ltb_lt|apply Z.ltb_ge]; lia.
Qed.

(* ---------- sc_ranges_adaptive: the whole body -------------------------------------------------------------------------------------- *)
Definition counted (procs : list Z) (rank : Z) (j : Z) : bool := (0 <? proc procs j) && negb (j =? rank).

Lemma count_loop procs rank np : forall n fuel a acc, (n < fuel)%nat -> Z.of_nat (a + n) = np -> np <= RB -> 0 <= acc <= Z.of_nat a ->
  adaptive_body_loop1 fuel (proc procs) np rank (Z.of_nat a) acc
  = Some (inl (np, acc + Z.of_nat (length (filter (counted procs rank) (map Z.of_nat (seq a n)))))).
Proof.
  induction n as [|n IH]; intros fuel a acc Hf Hn Hb Ha; (destruct fuel as [|fuel]; [lia|]); cbn [adaptive_body_loop1].
  - replace (Z.of_nat a <? np) with false by (symmetry; apply Z.ltb_ge; lia). cbn [seq map filter length]. do 3 f_equal; lia.
  - replace (Z.of_nat a <? np) with true by (symmetry; apply Z.ltb_lt; lia). cbn [seq map filter]. fold (counted procs rank (Z.of_nat a)).
    assert (Hc : 0 <= b2z (counted procs rank (Z.of_nat a)) <= 1) by (destruct (counted procs rank (Z.of_nat a)); cbn; lia).
    s32b. replace (Z.of_nat a + 1) with (Z.of_nat (S a)) by lia.
    rewrite IH by lia. do 3 f_equal. destruct (counted procs rank (Z.of_nat a)); cbn [b2z length]; lia.
Qed.

Lemma gen_peer_count procs rank fuel : (length procs < fuel)%nat -> Z.of_nat (length procs) <= RB ->
  adaptive_body_loop1 fuel (proc procs) (Z.of_nat (length procs)) rank 0 0 = Some (inl (Z.of_nat (length procs), peer_count procs rank)).
Proof.
  intros Hf Hb. change 0 with (Z.of_nat 0) at 1. rewrite (count_loop procs rank (Z.of_nat (length procs)) (length procs)) by lia.
  unfold peer_count, zseq. reflexivity.
Qed.

(* what the body does, for every value of every input: P = num_procs as stored by sc_MPI_Comm_size, rank as stored by sc_MPI_Comm_rank,
   cret = what sc_ranges_compute returns, (g0, g1) = what sc_MPI_Allreduce stores into global[], mret = what sc_malloc returns *)
Lemma gen_adaptive_body procs fuel comm szret rkret io1 io2 rank loc1 grd pkg nr ranges cret INT MAX arret g0 g1 gr scpkg mret agret :
  (length procs < fuel)%nat -> Z.of_nat (length procs) <= RB -> 0 <= g1 <= RB -> 2 * g1 * Z.of_nat (length procs) <= RB ->
  let P := Z.of_nat (length procs) in
  adaptive_body fuel (proc procs) comm szret rkret io1 io2 P rank loc1 grd pkg nr ranges cret INT MAX arret g0 g1 gr scpkg mret agret =
  Some (if gr =? 0
        then (1, comm, 1, comm,                                     (* sc_MPI_Comm_size (mpicomm, ..), sc_MPI_Comm_rank (mpicomm, ..) *)
              1, pkg, P, rank, io1, io2, nr, ranges,                (* sc_ranges_compute (package_id, num_procs, procs, rank, *inout1, *inout2, num_ranges, ranges) *)
              1, 2, u32 INT, u32 MAX, comm,                         (* sc_MPI_Allreduce (local, global, 2, sc_MPI_INT, sc_MPI_MAX, mpicomm) *)
              0, 0, 0, 0, 0, 0, 0, 0, 0, 0, 0,                      (* global_ranges == NULL: no allocation, no Allgather *)
              peer_count procs rank, cret, g0, g1, grd, cret)
        else (1, comm, 1, comm,
              1, pkg, P, rank, io1, io2, nr, ranges,
              1, 2, u32 INT, u32 MAX, comm,
              1, scpkg, 2 * g1 * P * 4,                             (* SC_ALLOC (int, twomaxwin * num_procs) *)
              1, ranges, 2 * g1, u32 INT, mret, 2 * g1, u32 INT, comm,   (* sc_MPI_Allgather (ranges, twomaxwin, sc_MPI_INT, *global_ranges, twomaxwin, sc_MPI_INT, mpicomm) *)
              peer_count procs rank, cret, g0, g1, mret, cret)).    (* local[0], local[1], *inout1, *inout2, *global_ranges, return value *)
Proof.
  intros Hf Hb Hg Hm P. unfold adaptive_body. cbv zeta. fold P. unfold P at 1. rewrite gen_peer_count by assumption.
  destruct (gr =? 0); cbn [negb]; [reflexivity|].
  assert (HP : 0 <= P) by (unfold P; lia).
  rewrite (s32_id (2 * g1)) by (unfold in_s32, M32; unfold RB in *; change (2 ^ 29) with 536870912 in *; lia).
  rewrite (s32_id (2 * g1 * P)) by (unfold in_s32, M32; unfold RB in *; change (2 ^ 29) with 536870912 in *; lia).
  assert (0 <= 2 * g1 * P) by nia.
  rewrite (u64_id (2 * g1 * P)) by (unfold M64; unfold RB in *; change (2 ^ 29) with 536870912 in *; lia).
  rewrite (u64_id (2 * g1 * P * 4)) by (unfold M64; unfold RB in *; change (2 ^ 29) with 536870912 in *; lia).
  reflexivity.
Qed.

(* ---------- sc_ranges_statistics: the whole body ------------------------------------------------------------------------------------ *)
Definition empty_at (procs : list Z) (rank : Z) (j : Z) : bool := negb (j =? rank) && (proc procs j =? 0).

Lemma stat_inner arr procs i rank hi : mem_of arr (2 * i + 1) = hi -> 0 <= i <= RB -> - RB <= hi <= RB ->
  forall n fuel j acc, (n < fuel)%nat -> Z.to_nat (hi - j + 1) = n -> - RB <= j -> 0 <= acc -> acc + Z.of_nat n <= RB ->
  exists j', statistics_body_loop2 fuel (mem_of arr) (proc procs) i rank acc j
             = Some (inl (acc + Z.of_nat (length (filter (empty_at procs rank) (zrange j hi))), j')).
Proof.
  intros Hm Hi Hh. induction n as [|n IH]; intros fuel j acc Hf Hn Hj Ha Hs; (destruct fuel as [|fuel]; [lia|]); cbn [statistics_body_loop2]; s32b; rewrite Hm.
  - replace (j <=? hi) with false by (symmetry; apply Z.leb_gt; lia). unfold zrange. rewrite Hn. cbn. eexists; do 3 f_equal; lia.
  - replace (j <=? hi) with true by (symmetry; apply Z.leb_le; lia). fold (empty_at procs rank j).
    assert (Hc : 0 <= b2z (empty_at procs rank j) <= 1) by (destruct (empty_at procs rank j); cbn; lia).
    s32b. destruct (IH fuel (j + 1) (acc + b2z (empty_at procs rank j))) as [j' E]; try lia.
    rewrite E. exists j'. do 3 f_equal.
    unfold zrange. rewrite Hn. replace (Z.to_nat (hi - (j + 1) + 1)) with n by lia. cbn [seq map filter].
    replace (j + Z.of_nat 0) with j by lia. rewrite <- seq_shift, map_map.
    replace (map (fun x : nat => j + Z.of_nat (S x)) (seq 0 n)) with (map (fun k : nat => j + 1 + Z.of_nat k) (seq 0 n))
      by (apply map_ext; intros; lia).
    destruct (empty_at procs rank j); cbn [b2z length]; lia.
Qed.

Lemma filter_len_le {A} (f : A -> bool) l : (length (filter f l) <= length l)%nat.
Proof. induction l as [|a r IH]; [apply le_n|]. cbn [filter]. destruct (f a); cbn [length]; lia. Qed.

Definition count_empties (procs : list Z) (rank : Z) (rs : list pair) : Z :=
  Z.of_nat (length (filter (empty_at procs rank) (flat_map (fun r => zrange (fst r) (snd r)) rs))).

Lemma count_empties_eq procs rank rs : count_empties procs rank rs = empties procs rank rs.
Proof. reflexivity. Qed.

Lemma stat_outer arr procs rank (B : nat) : Forall (fun g => ok_pair g /\ glen g <= Z.of_nat B) arr ->
  Z.of_nat (length arr) <= RB -> Z.of_nat (length arr) * Z.of_nat B <= RB ->
  forall fuel rest i acc j0, rest = skipn i arr -> (i <= length arr)%nat -> (length rest + B + 1 < fuel)%nat ->
  0 <= acc <= Z.of_nat i * Z.of_nat B ->
  exists i' j', statistics_body_loop1 fuel (mem_of arr) (proc procs) (Z.of_nat (length arr)) rank acc (Z.of_nat i) j0
                = Some (inl (acc + count_empties procs rank rest, i', j')).
Proof.
  intros Hok Hb Hbb. induction fuel as [|fuel IH]; intros rest i acc j0 Hr Hi Hf Ha; [lia|].
  cbn [statistics_body_loop1].
  destruct (Z.of_nat i <? Z.of_nat (length arr)) eqn:E; [apply Z.ltb_lt in E|apply Z.ltb_ge in E].
  - assert (Hi' : (i < length arr)%nat) by lia.
    assert (Hg : ok_pair (nth i arr UNUSED) /\ glen (nth i arr UNUSED) <= Z.of_nat B) by (rewrite Forall_forall in Hok; apply Hok; apply nth_In; exact Hi').
    destruct Hg as [[Hg1 Hg2] Hg3].
    assert (Hrest : rest = nth i arr UNUSED :: skipn (S i) arr).
    { subst rest. clear -Hi'. revert i Hi'. induction arr as [|a r IH']; intros i H; [cbn in H; lia|].
      destruct i as [|i]; [reflexivity|]. cbn [skipn nth]. apply IH'. cbn in H; lia. }
    s32b. rewrite mem_lo by lia. set (g := nth i arr UNUSED) in *. unfold glen in Hg3.
    assert (Hn : (Z.to_nat (snd g - fst g + 1) <= B)%nat) by lia.
    destruct (stat_inner arr procs (Z.of_nat i) rank (snd g) (mem_hi arr i Hi') ltac:(lia) ltac:(unfold ok_z in Hg2; lia)
                (Z.to_nat (snd g - fst g + 1)) (S fuel) (fst g) acc) as [j' E1]; try lia.
    { unfold ok_z in Hg1; lia. } { nia. }
    rewrite E1. replace (Z.of_nat i + 1) with (Z.of_nat (S i)) by lia.
    set (c := Z.of_nat (length (filter (empty_at procs rank) (zrange (fst g) (snd g))))).
    assert (Hc : 0 <= c <= Z.of_nat B).
    { unfold c. split; [lia|]. pose proof (filter_len_le (empty_at procs rank) (zrange (fst g) (snd g))) as X.
      unfold zrange in X at 2. rewrite map_length, seq_length in X. lia. }
    destruct (IH (skipn (S i) arr) (S i) (acc + c) j') as [i' [j'' E2]]; try reflexivity; try lia.
    { rewrite Hrest in Hf. cbn [length] in Hf. lia. }
    rewrite E2. exists i', j''. do 4 f_equal. rewrite Hrest. unfold count_empties. cbn [flat_map]. rewrite filter_app, app_length. fold g. unfold c. lia.
  - assert (i = length arr) by lia. subst i. rewrite skipn_all in Hr. subst rest. unfold count_empties. cbn. eexists _, _. do 4 f_equal. lia.
Qed.

(* every entry of the array is a range or unused; no entry is longer than B; the loops are given enough fuel *)
Lemma gen_statistics_body rs procs rank comm j0 (B fuel : nat) : Forall (fun g => ok_pair g /\ glen g <= Z.of_nat B) rs ->
  Z.of_nat (length rs) <= RB -> Z.of_nat (length rs) * Z.of_nat B <= RB -> (length rs + B + 1 < fuel)%nat ->
  statistics_body fuel (mem_of rs) (proc procs) j0 (Z.of_nat (length rs)) rank comm = Some (1, empties procs rank rs, 0, 1, comm, 1).
Proof.
  intros Hok Hb Hbb Hf. unfold statistics_body.
  destruct (stat_outer rs procs rank B Hok Hb Hbb fuel rs 0 0 j0 eq_refl ltac:(lia) Hf ltac:(lia)) as [i' [j' E]].
  change (Z.of_nat 0) with 0 in E. rewrite E. cbn [Z.add]. rewrite count_empties_eq. reflexivity.
Qed.
