(* C15 - sc_ranges_compute: what does NOT depend on the order of the slots and on the tie-breaking of the eviction.
   (1) sel_step / sel_run: a slot process that may evict ANY slot of minimal length (and may keep its slots in any
       order).  Every such run keeps "some choice of the m longest gaps" (top_sel); the code's step add_gap is one
       of the allowed steps, so kept_gaps is one of the allowed runs.
   (2) top_sel determines the multiset of the kept LENGTHS completely, and the kept gaps themselves as soon as no
       two gaps have the same length; a gap longer than a kept one is kept, a gap shorter than a dropped one is
       dropped.
   (3) the final sort by the start: every correct sorting algorithm returns what the model's insertion sort returns
       (the starts are pairwise different), the result does not depend on the slot order, and it is the list of the
       kept gaps in their original ascending order; so the computed ranges do not depend on the slot order either.
   (4) small examples: with a tie two different selections are reachable, and the code takes one of them. *)
From Coq Require Import ZArith List Bool Lia Permutation Sorting.Sorted.
From ScV Require Import Base.CInt C15.RangesModel C15.RangesGaps C15.RangesSelect C15.RangesInvert C15.RangesCompute.
Import ListNotations.
Local Open Scope Z_scope.

(* ===================================================================================================== *)
(* (1) eviction in any order, with any tie-breaking                                                        *)
(* ===================================================================================================== *)

(* one gap arrives; m slots can be kept *)
Inductive sel_step (m : nat) : list pair -> pair -> list pair -> Prop :=
| sel_free kept g kept' : (length kept < m)%nat -> Permutation kept' (kept ++ [g]) -> sel_step m kept g kept'
| sel_evict kept g v kept' : length kept = m -> In v (kept ++ [g]) ->
    (forall x, In x (kept ++ [g]) -> glen v <= glen x) ->
    Permutation (v :: kept') (kept ++ [g]) -> sel_step m kept g kept'.

(* slots so far, gaps still to come, final slots *)
Inductive sel_run (m : nat) : list pair -> list pair -> list pair -> Prop :=
| sel_nil kept : sel_run m kept [] kept
| sel_cons kept g todo kept1 kept' : sel_step m kept g kept1 -> sel_run m kept1 todo kept' ->
    sel_run m kept (g :: todo) kept'.

(* kept = some choice of the m longest of G *)
Definition top_sel (m : nat) (G kept : list pair) : Prop :=
  NoDup kept /\ incl kept G /\ length kept = Nat.min (length G) m
  /\ (forall a, In a G -> ~ In a kept -> forall k, In k kept -> glen a <= glen k).

Lemma sel_step_incl m kept g kept' : sel_step m kept g kept' -> incl kept' (kept ++ [g]).
Proof.
  intros St x Hx. destruct St as [kept g kept' _ Hp|kept g v kept' _ _ _ Hp].
  - apply (Permutation_in _ Hp). exact Hx.
  - apply (Permutation_in _ Hp). right; exact Hx.
Qed.

Lemma sel_step_length m kept g kept' : sel_step m kept g kept' -> (length kept <= m)%nat -> (length kept' <= m)%nat.
Proof.
  intros St. destruct St as [kept g kept' Hlt Hp|kept g v kept' Hlen _ _ Hp]; intros Hl.
  - rewrite (Permutation_length Hp), app_length. cbn [length]. lia.
  - pose proof (Permutation_length Hp) as E. rewrite app_length in E. cbn [length] in E. lia.
Qed.

Lemma top_sel_nil m : top_sel m [] [].
Proof.
  split; [constructor|]. split; [apply incl_refl|]. split; [reflexivity|]. intros a [].
Qed.

Lemma sel_step_top m done kept g kept' :
  sel_step m kept g kept' -> top_sel m done kept -> ~ In g done -> top_sel m (done ++ [g]) kept'.
Proof.
  intros St. destruct St as [kept g kept' Hlt Hp|kept g v kept' Hlen Hv Hmin Hp]; intros (T1 & T2 & T3 & T4) Hg.
  - (* a slot is free: so far nothing was dropped *)
    assert (Hgk : ~ In g kept) by (intro X; apply Hg, T2, X).
    assert (Nk : NoDup (kept ++ [g])).
    { apply (Permutation_NoDup (l := g :: kept)); [apply Permutation_cons_append|constructor; assumption]. }
    assert (Hall : incl done kept) by (apply NoDup_length_incl; [exact T1|lia|exact T2]).
    split; [apply (Permutation_NoDup (Permutation_sym Hp)); exact Nk|].
    split.
    { intros x Hx. apply (Permutation_in _ Hp) in Hx. apply in_app_or in Hx; apply in_or_app.
      destruct Hx as [Hx|Hx]; [left; apply T2; exact Hx|right; exact Hx]. }
    split; [rewrite (Permutation_length Hp), !app_length; cbn [length]; lia|].
    intros a Ha Hna. exfalso. apply Hna. apply (Permutation_in _ (Permutation_sym Hp)).
    apply in_app_or in Ha; apply in_or_app. destruct Ha as [Ha|Ha]; [left; apply Hall; exact Ha|right; exact Ha].
  - (* all slots in use: some shortest v of the slots and the new gap is dropped *)
    assert (Hgk : ~ In g kept) by (intro X; apply Hg, T2, X).
    assert (Nk : NoDup (kept ++ [g])).
    { apply (Permutation_NoDup (l := g :: kept)); [apply Permutation_cons_append|constructor; assumption]. }
    assert (Nv : NoDup (v :: kept')) by (apply (Permutation_NoDup (Permutation_sym Hp)); exact Nk).
    inversion Nv as [|? ? Nv1 Nv2]; subst.
    assert (Hin : forall x, In x kept' -> In x (kept ++ [g])).
    { intros x Hx. apply (Permutation_in _ Hp). right; exact Hx. }
    split; [exact Nv2|].
    split.
    { intros x Hx. apply Hin in Hx. apply in_app_or in Hx; apply in_or_app.
      destruct Hx as [Hx|Hx]; [left; apply T2; exact Hx|right; exact Hx]. }
    split.
    { pose proof (Permutation_length Hp) as HL. rewrite !app_length in *. cbn [length] in *. lia. }
    intros a Ha Hna k Hk.
    destruct (in_dec pair_eq_dec a (kept ++ [g])) as [Hak|Hak].
    + apply (Permutation_in _ (Permutation_sym Hp)) in Hak. destruct Hak as [<-|Hak]; [|contradiction].
      apply Hmin. apply Hin; exact Hk.
    + assert (Had : In a done).
      { apply in_app_or in Ha. destruct Ha as [Ha|[<-|[]]]; [exact Ha|].
        exfalso; apply Hak; apply in_or_app; right; left; reflexivity. }
      assert (Hnk : ~ In a kept) by (intro X; apply Hak; apply in_or_app; left; exact X).
      apply in_app_or in Hv. destruct Hv as [Hv|[Hv|[]]].
      * transitivity (glen v); [apply T4; assumption|apply Hmin, Hin, Hk].
      * subst v.
        assert (Pk : Permutation kept' kept).
        { apply Permutation_cons_inv with (a := g). rewrite Hp. symmetry. apply Permutation_cons_append. }
        apply T4; try assumption. apply (Permutation_in _ Pk); exact Hk.
Qed.

(* the invariant version *)
Lemma sel_run_top_gen m kept todo kept' : sel_run m kept todo kept' ->
  forall done, top_sel m done kept -> NoDup (done ++ todo) -> top_sel m (done ++ todo) kept'.
Proof.
  induction 1 as [kept|kept g todo kept1 kept' St _ IH]; intros done T N; [rewrite app_nil_r; exact T|].
  replace (done ++ g :: todo) with ((done ++ [g]) ++ todo) in * by (rewrite <- app_assoc; reflexivity).
  apply IH; [|exact N].
  apply (sel_step_top m done kept g kept1 St T).
  rewrite <- app_assoc in N. cbn [app] in N. apply NoDup_remove_2 in N. intro X. apply N. apply in_or_app; left; exact X.
Qed.

Theorem sel_run_top : forall m G kept, NoDup G -> sel_run m [] G kept -> top_sel m G kept.
Proof.
  intros m G kept N R. apply (sel_run_top_gen m [] G kept R [] (top_sel_nil m)). exact N.
Qed.

(* --- the code's step is one of the allowed steps ------------------------------------------------------- *)
Lemma set_nth_perm (l : list pair) k x d : (k < length l)%nat -> Permutation (nth k l d :: set_nth k x l) (l ++ [x]).
Proof.
  intros H. apply Permutation_trans with (x :: l); [|apply Permutation_cons_append].
  unfold set_nth. remember (firstn k l) as F. remember (skipn (S k) l) as S. remember (nth k l d) as v.
  assert (E : l = F ++ v :: S) by (subst F S v; apply set_nth_split; exact H).
  rewrite E. clear.
  apply Permutation_trans with (v :: x :: F ++ S); [constructor; symmetry; apply Permutation_middle|].
  apply Permutation_trans with (x :: v :: F ++ S); [apply perm_swap|]. constructor. apply Permutation_middle.
Qed.

Theorem add_gap_is_sel_step : forall (P : Z) (m : nat) kept g, (length kept <= m)%nat ->
  Forall (fun x => glen x <= P) (kept ++ [g]) ->
  sel_step m kept g (add_gap P (Z.of_nat m + 1) kept g).
Proof.
  intros P m kept g Hl F. unfold add_gap. rewrite app_length. cbn [length].
  destruct (Z.of_nat (length kept + 1) =? Z.of_nat m + 1) eqn:E; [apply Z.eqb_eq in E|apply Z.eqb_neq in E].
  - assert (Lk : length kept = m) by lia.
    destruct (shortest_spec P (kept ++ [g])) as [k (K1 & K2 & K3)]; [destruct kept; discriminate|exact F|].
    rewrite app_length in K1; cbn [length] in K1.
    rewrite (evict_char P kept g k K2) by lia.
    destruct (k <? length kept)%nat eqn:Ek; [apply Nat.ltb_lt in Ek|apply Nat.ltb_ge in Ek].
    + assert (Hm : nth k (kept ++ [g]) UNUSED = nth k kept UNUSED) by (apply app_nth1; exact Ek).
      apply sel_evict with (v := nth k kept UNUSED);
        [exact Lk|apply in_or_app; left; apply nth_In; exact Ek| |apply set_nth_perm; exact Ek].
      intros x Hx. rewrite <- Hm. apply K3; exact Hx.
    + assert (k = length kept) by lia. subst k.
      assert (Hm : nth (length kept) (kept ++ [g]) UNUSED = g) by (rewrite app_nth2, Nat.sub_diag by lia; reflexivity).
      apply sel_evict with (v := g); [exact Lk|apply in_or_app; right; left; reflexivity| |apply Permutation_cons_append].
      intros x Hx. rewrite <- Hm at 1. apply K3; exact Hx.
  - apply sel_free; [lia|reflexivity].
Qed.

Lemma fold_add_gap_sel_run P m : forall todo kept, (length kept <= m)%nat ->
  Forall (fun x => glen x <= P) kept -> Forall (fun x => glen x <= P) todo ->
  sel_run m kept todo (fold_left (add_gap P (Z.of_nat m + 1)) todo kept).
Proof.
  induction todo as [|g todo IH]; intros kept Hl Fk Ft; cbn [fold_left]; [constructor|].
  inversion Ft as [|? ? Fg Ft']; subst.
  assert (Fkg : Forall (fun x => glen x <= P) (kept ++ [g])).
  { apply Forall_app. split; [exact Fk|constructor; [exact Fg|constructor]]. }
  pose proof (add_gap_is_sel_step P m kept g Hl Fkg) as St.
  apply sel_cons with (kept1 := add_gap P (Z.of_nat m + 1) kept g); [exact St|].
  apply IH; [apply (sel_step_length _ _ _ _ St Hl)| |exact Ft'].
  apply Forall_forall. intros x Hx. apply (sel_step_incl _ _ _ _ St) in Hx.
  rewrite Forall_forall in Fkg. apply Fkg; exact Hx.
Qed.

Theorem kept_gaps_is_sel_run : forall procs rank nr, 1 <= nr ->
  sel_run (Z.to_nat (nr - 1)) [] (gaps_of (peers procs rank)) (kept_gaps procs rank nr).
Proof.
  intros procs rank nr Hnr. remember (Z.to_nat (nr - 1)) as m.
  assert (E : nr = Z.of_nat m + 1) by lia. clear Heqm. subst nr. unfold kept_gaps.
  apply fold_add_gap_sel_run; [cbn [length]; lia|constructor|apply (G_len procs rank 1)].
Qed.

(* hence (again, now as a consequence of the order-free statement): the code keeps some choice of the longest *)
Corollary kept_gaps_top_sel : forall procs rank nr, 1 <= nr ->
  top_sel (Z.to_nat (nr - 1)) (gaps_of (peers procs rank)) (kept_gaps procs rank nr).
Proof.
  intros procs rank nr Hnr. apply sel_run_top; [apply gaps_of_NoDup, peers_sorted|apply kept_gaps_is_sel_run; exact Hnr].
Qed.

(* ===================================================================================================== *)
(* (2) what is determined: the lengths always, the gaps themselves without ties                             *)
(* ===================================================================================================== *)
Definition inb (l : list pair) (x : pair) : bool := if in_dec pair_eq_dec x l then true else false.

Lemma inb_true l x : inb l x = true <-> In x l.
Proof. unfold inb. destruct (in_dec pair_eq_dec x l); split; intros; try assumption; try reflexivity; try discriminate; contradiction. Qed.

Lemma inb_false l x : inb l x = false <-> ~ In x l.
Proof. unfold inb. destruct (in_dec pair_eq_dec x l); split; intros; try assumption; try reflexivity; try discriminate; contradiction. Qed.

Lemma filter_split_perm {A} (f : A -> bool) l : Permutation l (filter f l ++ filter (fun x => negb (f x)) l).
Proof.
  induction l as [|a l IH]; [constructor|]. cbn [filter]. destruct (f a); cbn [negb app].
  - constructor; exact IH.
  - apply Permutation_trans with (a :: filter f l ++ filter (fun x => negb (f x)) l); [constructor; exact IH|].
    apply Permutation_middle.
Qed.

Lemma map_all_eq {A B} (f : A -> B) l1 : forall l2, length l1 = length l2 ->
  (forall x y, In x l1 -> In y l2 -> f x = f y) -> map f l1 = map f l2.
Proof.
  induction l1 as [|a l1 IH]; intros [|b l2] L H; try discriminate; [reflexivity|].
  cbn [map]. f_equal; [apply H; left; reflexivity|].
  apply IH; [cbn [length] in L; lia|]. intros x y Hx Hy. apply H; right; assumption.
Qed.

Lemma NoDup_map_inj {A B} (f : A -> B) l : NoDup (map f l) -> forall x y, In x l -> In y l -> f x = f y -> x = y.
Proof.
  induction l as [|a l IH]; intros N x y Hx Hy E; [contradiction|].
  cbn [map] in N. inversion N as [|? ? N1 N2]; subst.
  destruct Hx as [Hx|Hx], Hy as [Hy|Hy].
  - congruence.
  - subst a. exfalso. apply N1. rewrite E. apply in_map; exact Hy.
  - subst a. exfalso. apply N1. rewrite <- E. apply in_map; exact Hx.
  - apply IH; assumption.
Qed.

(* two selections: the common part, and the two private parts, which have the same size and one common length *)
Lemma top_sel_diff m G k1 k2 : top_sel m G k1 -> top_sel m G k2 ->
  Permutation (filter (inb k2) k1) (filter (inb k1) k2)
  /\ length (filter (fun x => negb (inb k2 x)) k1) = length (filter (fun x => negb (inb k1 x)) k2)
  /\ (forall b1 b2, In b1 (filter (fun x => negb (inb k2 x)) k1) -> In b2 (filter (fun x => negb (inb k1 x)) k2) ->
        glen b1 = glen b2).
Proof.
  intros (N1 & I1 & L1 & M1) (N2 & I2 & L2 & M2).
  assert (PA : Permutation (filter (inb k2) k1) (filter (inb k1) k2)).
  { apply NoDup_Permutation; [apply NoDup_filter; exact N1|apply NoDup_filter; exact N2|].
    intros x. rewrite !filter_In, !inb_true. tauto. }
  split; [exact PA|]. split.
  - pose proof (Permutation_length (filter_split_perm (inb k2) k1)) as E1.
    pose proof (Permutation_length (filter_split_perm (inb k1) k2)) as E2.
    rewrite app_length in E1, E2. pose proof (Permutation_length PA). lia.
  - intros b1 b2 H1 H2. apply filter_In in H1, H2. destruct H1 as [H1 X1], H2 as [H2 X2].
    apply negb_true_iff in X1, X2. apply inb_false in X1, X2.
    apply Z.le_antisymm; [apply (M2 b1 (I1 _ H1) X1 b2 H2)|apply (M1 b2 (I2 _ H2) X2 b1 H1)].
Qed.

Theorem top_sel_lengths_unique : forall m G k1 k2, top_sel m G k1 -> top_sel m G k2 ->
  Permutation (map glen k1) (map glen k2).
Proof.
  intros m G k1 k2 T1 T2. destruct (top_sel_diff m G k1 k2 T1 T2) as (PA & LB & EB).
  apply Permutation_trans with (map glen (filter (inb k2) k1 ++ filter (fun x => negb (inb k2 x)) k1));
    [apply Permutation_map, filter_split_perm|].
  apply Permutation_trans with (map glen (filter (inb k1) k2 ++ filter (fun x => negb (inb k1 x)) k2));
    [|apply Permutation_map, Permutation_sym, filter_split_perm].
  rewrite !map_app. apply Permutation_app; [apply Permutation_map; exact PA|].
  rewrite (map_all_eq glen _ _ LB EB). reflexivity.
Qed.

Theorem top_sel_unique_without_ties : forall m G k1 k2, NoDup (map glen G) -> top_sel m G k1 -> top_sel m G k2 ->
  Permutation k1 k2.
Proof.
  intros m G k1 k2 NG T1 T2. destruct (top_sel_diff m G k1 k2 T1 T2) as (PA & LB & EB).
  assert (B1 : filter (fun x => negb (inb k2 x)) k1 = []).
  { destruct (filter (fun x => negb (inb k2 x)) k1) as [|b1 r1] eqn:E1; [reflexivity|].
    destruct (filter (fun x => negb (inb k1 x)) k2) as [|b2 r2] eqn:E2; [discriminate|].
    exfalso.
    assert (H1 : In b1 (filter (fun x => negb (inb k2 x)) k1)) by (rewrite E1; left; reflexivity).
    assert (H2 : In b2 (filter (fun x => negb (inb k1 x)) k2)) by (rewrite E2; left; reflexivity).
    pose proof (EB b1 b2 (or_introl eq_refl) (or_introl eq_refl)) as EL.
    apply filter_In in H1, H2. destruct H1 as [H1 X1], H2 as [H2 X2].
    apply negb_true_iff in X1. apply inb_false in X1.
    destruct T1 as (_ & I1 & _), T2 as (_ & I2 & _).
    assert (b1 = b2) by (apply (NoDup_map_inj glen G NG); [apply I1; exact H1|apply I2; exact H2|exact EL]).
    subst b2. contradiction. }
  assert (B2 : filter (fun x => negb (inb k1 x)) k2 = []).
  { rewrite B1 in LB. destruct (filter (fun x => negb (inb k1 x)) k2); [reflexivity|discriminate]. }
  apply Permutation_trans with (filter (inb k2) k1 ++ filter (fun x => negb (inb k2 x)) k1); [apply filter_split_perm|].
  apply Permutation_trans with (filter (inb k1) k2 ++ filter (fun x => negb (inb k1 x)) k2);
    [|apply Permutation_sym, filter_split_perm].
  rewrite B1, B2, !app_nil_r. exact PA.
Qed.

Corollary any_order_same_lengths : forall m G k1 k2, NoDup G -> sel_run m [] G k1 -> sel_run m [] G k2 ->
  Permutation (map glen k1) (map glen k2).
Proof.
  intros m G k1 k2 N R1 R2. apply (top_sel_lengths_unique m G); apply sel_run_top; assumption.
Qed.

(* the gaps may even arrive in a different order *)
Lemma top_sel_perm m G G' kept : Permutation G G' -> top_sel m G kept -> top_sel m G' kept.
Proof.
  intros Pm (T1 & T2 & T3 & T4). split; [exact T1|].
  split; [intros x Hx; apply (Permutation_in _ Pm); apply T2; exact Hx|].
  split; [rewrite <- (Permutation_length Pm); exact T3|].
  intros a Ha. apply T4. apply (Permutation_in _ (Permutation_sym Pm)). exact Ha.
Qed.

Corollary any_arrival_order_same_lengths : forall m G G' k1 k2, NoDup G -> Permutation G G' ->
  sel_run m [] G k1 -> sel_run m [] G' k2 -> Permutation (map glen k1) (map glen k2).
Proof.
  intros m G G' k1 k2 N Pm R1 R2. apply (top_sel_lengths_unique m G').
  - apply (top_sel_perm m G G' k1 Pm). apply sel_run_top; assumption.
  - apply sel_run_top; [apply (Permutation_NoDup Pm N)|exact R2].
Qed.

Corollary any_order_same_gaps_without_ties : forall m G k1 k2, NoDup (map glen G) ->
  sel_run m [] G k1 -> sel_run m [] G k2 -> Permutation k1 k2.
Proof.
  intros m G k1 k2 N R1 R2. pose proof (NoDup_map_inv glen G N) as NG.
  apply (top_sel_unique_without_ties m G); [exact N| |]; apply sel_run_top; assumption.
Qed.

(* The statement first proposed,
     top_sel_threshold : forall m G kept a, top_sel m G kept -> In a G ->
                           (forall k, In k kept -> glen k < glen a) -> False,
   is false as written: when nothing is kept (m = 0, e.g. top_sel 0 [a] [] holds) the premise about kept is
   vacuous.  It holds as soon as something is kept; the two useful directions follow below. *)
Theorem top_sel_threshold : forall m G kept a, top_sel m G kept -> In a G -> kept <> [] ->
  (forall k, In k kept -> glen k < glen a) -> False.
Proof.
  intros m G kept a (T1 & T2 & T3 & T4) Ha Ne Hlt.
  destruct kept as [|k0 r]; [congruence|].
  destruct (in_dec pair_eq_dec a (k0 :: r)) as [Hin|Hin].
  - specialize (Hlt a Hin). lia.
  - specialize (T4 a Ha Hin k0 (or_introl eq_refl)). specialize (Hlt k0 (or_introl eq_refl)). lia.
Qed.

(* (a) a gap of G strictly longer than some kept gap is kept *)
Theorem top_sel_longer_kept : forall m G kept a k, top_sel m G kept ->
  In a G -> In k kept -> glen k < glen a -> In a kept.
Proof.
  intros m G kept a k (T1 & T2 & T3 & T4) Ha Hk Hlt.
  destruct (in_dec pair_eq_dec a kept) as [Hin|Hin]; [exact Hin|].
  specialize (T4 a Ha Hin k Hk). lia.
Qed.

(* (b) a gap of G strictly shorter than some dropped gap is dropped *)
Theorem top_sel_shorter_dropped : forall m G kept a d, top_sel m G kept ->
  In a G -> In d G -> ~ In d kept -> glen a < glen d -> ~ In a kept.
Proof.
  intros m G kept a d (T1 & T2 & T3 & T4) Ha Hd Hnd Hlt Hin.
  specialize (T4 d Hd Hnd a Hin). lia.
Qed.

(* ===================================================================================================== *)
(* (3) the final sort makes the result independent of the slot order                                       *)
(* ===================================================================================================== *)
Definition lt_start (a b : pair) : Prop := fst a < fst b.

Lemma lt_sorted_NoDup_fst l : StronglySorted lt_start l -> NoDup (map fst l).
Proof.
  induction 1 as [|a l Hs IH Hf]; cbn [map]; constructor; [|exact IH].
  intro X. apply in_map_iff in X. destruct X as [y [E Hy]].
  rewrite Forall_forall in Hf. specialize (Hf _ Hy). unfold lt_start in Hf. lia.
Qed.

Lemma le_sorted_strict l : StronglySorted le_start l -> NoDup (map fst l) -> StronglySorted lt_start l.
Proof.
  induction 1 as [|a l Hs IH Hf]; intros N; [constructor|].
  cbn [map] in N. inversion N as [|? ? N1 N2]; subst.
  constructor; [apply IH; exact N2|]. apply Forall_forall. intros x Hx.
  rewrite Forall_forall in Hf. specialize (Hf _ Hx). unfold le_start in Hf. unfold lt_start.
  assert (fst a <> fst x) by (intro E; apply N1; rewrite E; apply in_map; exact Hx). lia.
Qed.

Lemma lt_sorted_perm_eq : forall l1 l2, StronglySorted lt_start l1 -> StronglySorted lt_start l2 ->
  Permutation l1 l2 -> l1 = l2.
Proof.
  induction l1 as [|a r1 IH]; intros l2 S1 S2 Pm.
  - apply Permutation_nil in Pm. symmetry; exact Pm.
  - destruct l2 as [|b r2]; [apply Permutation_sym, Permutation_nil in Pm; discriminate|].
    apply StronglySorted_inv in S1, S2. destruct S1 as [S1 F1], S2 as [S2 F2]. rewrite Forall_forall in F1, F2.
    assert (a = b).
    { pose proof (Permutation_in a Pm (or_introl eq_refl)) as Ha.
      pose proof (Permutation_in b (Permutation_sym Pm) (or_introl eq_refl)) as Hb.
      destruct Ha as [Ha|Ha]; [symmetry; exact Ha|]. destruct Hb as [Hb|Hb]; [exact Hb|].
      specialize (F1 _ Hb). specialize (F2 _ Ha). unfold lt_start in *. lia. }
    subst b. f_equal. apply IH; try assumption. apply Permutation_cons_inv with (a := a). exact Pm.
Qed.

Lemma isort_strict l : NoDup (map fst l) -> StronglySorted lt_start (isort l).
Proof.
  intros N. apply le_sorted_strict; [apply isort_sorted|].
  apply (Permutation_NoDup (l := map fst l)); [|exact N].
  apply Permutation_map, Permutation_sym, isort_perm.
Qed.

(* any correct sorting algorithm (e.g. qsort with sc_ranges_compare) returns what the model's insertion sort returns *)
Theorem sort_unique : forall l l', Permutation l' l -> StronglySorted lt_start l' -> l' = isort l.
Proof.
  intros l l' Pm Hs. apply lt_sorted_perm_eq; [exact Hs| |].
  - apply isort_strict. apply (Permutation_NoDup (l := map fst l')); [apply Permutation_map; exact Pm|].
    apply lt_sorted_NoDup_fst; exact Hs.
  - apply Permutation_trans with l; [exact Pm|apply Permutation_sym, isort_perm].
Qed.

Theorem isort_perm_eq : forall k1 k2, Permutation k1 k2 -> NoDup (map fst k1) -> isort k1 = isort k2.
Proof.
  intros k1 k2 Pm N. apply sort_unique; [|apply isort_strict; exact N].
  apply Permutation_trans with k1; [apply isort_perm|exact Pm].
Qed.

(* the sorted slots are the kept gaps in their original ascending order *)
Theorem isort_kept_is_filter : forall G kept, StronglySorted lt_start G -> NoDup kept -> incl kept G ->
  isort kept = filter (fun g => if in_dec pair_eq_dec g kept then true else false) G.
Proof.
  intros G kept Hs N I. symmetry. apply sort_unique; [|apply filter_sorted; exact Hs].
  apply NoDup_Permutation; [apply NoDup_filter|exact N|].
  - apply (NoDup_map_inv fst). apply lt_sorted_NoDup_fst; exact Hs.
  - intros x. rewrite filter_In. destruct (in_dec pair_eq_dec x kept) as [H|H]; split.
    + intros _; exact H.
    + intros _. split; [apply I; exact H|reflexivity].
    + intros [_ X]; discriminate.
    + intros X; contradiction.
Qed.

Corollary ranges_independent_of_slot_order : forall k1 k2 first last, Permutation k1 k2 -> NoDup (map fst k1) ->
  invert first last (isort k1) = invert first last (isort k2).
Proof. intros k1 k2 first last Pm N. rewrite (isort_perm_eq k1 k2 Pm N). reflexivity. Qed.

(* --- for the gaps of sc_ranges_compute ------------------------------------------------------------------- *)
Lemma sep_pairs_lt_sorted G : ForallOrdPairs sep G -> (forall g, In g G -> fst g <= snd g) -> StronglySorted lt_start G.
Proof.
  induction 1 as [|a l Hf _ IH]; intros W; [constructor|].
  constructor; [apply IH; intros g Hg; apply W; right; exact Hg|].
  apply Forall_forall. intros x Hx. rewrite Forall_forall in Hf. specialize (Hf _ Hx).
  pose proof (W a (or_introl eq_refl)). unfold sep in Hf. unfold lt_start. lia.
Qed.

Lemma gaps_of_lt_sorted l : StronglySorted Z.lt l -> StronglySorted lt_start (gaps_of l).
Proof.
  intros H. apply sep_pairs_lt_sorted; [apply gaps_of_pairs; exact H|].
  intros g Hg. destruct (gaps_of_is_gap l H g Hg) as (A & _). exact A.
Qed.

(* what the code sorts out of its slots = the kept gaps in the order in which they were found *)
Theorem compute_sorted_is_filter : forall procs rank nr, 1 <= nr ->
  isort (kept_gaps procs rank nr)
  = filter (fun g => if in_dec pair_eq_dec g (kept_gaps procs rank nr) then true else false) (gaps_of (peers procs rank)).
Proof.
  intros procs rank nr Hnr. destruct (kept_gaps_top_sel procs rank nr Hnr) as (T1 & T2 & _).
  apply isort_kept_is_filter; [apply gaps_of_lt_sorted, peers_sorted|exact T1|exact T2].
Qed.

(* any slot process that ends with the same set of gaps as the code yields the code's ranges *)
Lemma NoDup_map_incl {A B} (f : A -> B) l G : NoDup (map f G) -> NoDup l -> incl l G -> NoDup (map f l).
Proof.
  intros NG. induction l as [|a l IH]; intros N I; cbn [map]; [constructor|].
  inversion N as [|? ? N1 N2]; subst.
  constructor; [|apply IH; [exact N2|intros x Hx; apply I; right; exact Hx]].
  intro X. apply in_map_iff in X. destruct X as [y [E Hy]].
  assert (y = a) by (apply (NoDup_map_inj f G NG); [apply I; right; exact Hy|apply I; left; reflexivity|exact E]).
  subst y. contradiction.
Qed.

Lemma kept_gaps_starts_NoDup procs rank nr : 1 <= nr -> NoDup (map fst (kept_gaps procs rank nr)).
Proof.
  intros Hnr. destruct (kept_gaps_top_sel procs rank nr Hnr) as (T1 & T2 & _).
  apply (NoDup_map_incl fst _ (gaps_of (peers procs rank))); [|exact T1|exact T2].
  apply lt_sorted_NoDup_fst, gaps_of_lt_sorted, peers_sorted.
Qed.

Theorem compute_ranges_any_slot_order : forall procs rank nr k first last, 1 <= nr ->
  Permutation k (kept_gaps procs rank nr) ->
  invert first last (isort k) = invert first last (isort (kept_gaps procs rank nr)).
Proof.
  intros procs rank nr k first last Hnr Pm. apply ranges_independent_of_slot_order; [exact Pm|].
  apply (Permutation_NoDup (l := map fst (kept_gaps procs rank nr))); [apply Permutation_map, Permutation_sym, Pm|].
  apply kept_gaps_starts_NoDup; exact Hnr.
Qed.

(* ===================================================================================================== *)
(* (4) examples: lengths 1, 3, 1, 4 and three slots - the two gaps of length 1 tie                        *)
(* ===================================================================================================== *)
Definition ex_procs : list Z := [1;0;1;0;0;0;1;0;1;0;0;0;0;1].     (* peers 0, 2, 6, 8, 13; rank 1 *)
Definition ex_gaps : list pair := [(1,1);(3,5);(7,7);(9,12)].

Example ex_gaps_of : gaps_of (peers ex_procs 1) = ex_gaps.
Proof. vm_compute. reflexivity. Qed.

Lemma ex_three_free : sel_run 3 [(1,1);(3,5);(7,7)] [(9,12)] [(3,5);(7,7);(9,12)] ->
  sel_run 3 [] ex_gaps [(3,5);(7,7);(9,12)].
Proof.
  intros H. unfold ex_gaps.
  apply sel_cons with (kept1 := [(1,1)]); [apply sel_free; [cbn; lia|reflexivity]|].
  apply sel_cons with (kept1 := [(1,1);(3,5)]); [apply sel_free; [cbn; lia|reflexivity]|].
  apply sel_cons with (kept1 := [(1,1);(3,5);(7,7)]); [apply sel_free; [cbn; lia|reflexivity]|].
  exact H.
Qed.

(* the first of the two shortest is evicted (what the code does, up to the slot order) *)
Example ex_run_first : sel_run 3 [] ex_gaps [(3,5);(7,7);(9,12)].
Proof.
  apply ex_three_free.
  apply sel_cons with (kept1 := [(3,5);(7,7);(9,12)]); [|apply sel_nil].
  apply sel_evict with (v := (1,1)); [reflexivity|left; reflexivity| |reflexivity].
  intros x Hx. cbn in Hx. repeat destruct Hx as [<-|Hx]; try contradiction; vm_compute; discriminate.
Qed.

(* the other one of the two shortest is evicted: an allowed run, too, with a different result *)
Example ex_run_second : sel_run 3 [] ex_gaps [(1,1);(3,5);(9,12)].
Proof.
  unfold ex_gaps.
  apply sel_cons with (kept1 := [(1,1)]); [apply sel_free; [cbn; lia|reflexivity]|].
  apply sel_cons with (kept1 := [(1,1);(3,5)]); [apply sel_free; [cbn; lia|reflexivity]|].
  apply sel_cons with (kept1 := [(1,1);(3,5);(7,7)]); [apply sel_free; [cbn; lia|reflexivity]|].
  apply sel_cons with (kept1 := [(1,1);(3,5);(9,12)]); [|apply sel_nil].
  apply sel_evict with (v := (7,7)); [reflexivity|right; right; left; reflexivity| |].
  - intros x Hx. cbn in Hx. repeat destruct Hx as [<-|Hx]; try contradiction; vm_compute; discriminate.
  - exact (Permutation_middle [(1,1);(3,5)] [(9,12)] (7,7)).
Qed.

Example ex_runs_differ : ~ Permutation [(3,5);(7,7);(9,12)] [(1,1);(3,5);(9,12)].
Proof.
  intros Pm. pose proof (Permutation_in (7,7) Pm) as H. cbn in H.
  destruct H as [H|[H|[H|[]]]]; [right; left; reflexivity|discriminate H..].
Qed.

(* ... but the same lengths (here checked directly; in general any_order_same_lengths) *)
Example ex_same_lengths : Permutation (map glen [(3,5);(7,7);(9,12)]) (map glen [(1,1);(3,5);(9,12)]).
Proof. exact (any_order_same_lengths 3 ex_gaps _ _ ltac:(repeat constructor; cbn; intuition discriminate) ex_run_first ex_run_second). Qed.

(* the code: slot 0 is the first shortest, the last slot moves into it *)
Example ex_kept_gaps : kept_gaps ex_procs 1 4 = [(9,12);(3,5);(7,7)].
Proof. vm_compute. reflexivity. Qed.

Example ex_code_run : sel_run 3 [] ex_gaps [(9,12);(3,5);(7,7)].
Proof.
  pose proof (kept_gaps_is_sel_run ex_procs 1 4 ltac:(lia)) as H.
  rewrite ex_gaps_of, ex_kept_gaps in H. exact H.
Qed.

Example ex_code_is_first : Permutation (kept_gaps ex_procs 1 4) [(3,5);(7,7);(9,12)].
Proof. rewrite ex_kept_gaps. exact (Permutation_middle [(3,5);(7,7)] [] (9,12)). Qed.

(* after the sort the slot order is gone; the tie-breaking is visible in the ranges *)
Example ex_code_ranges : invert 0 13 (isort (kept_gaps ex_procs 1 4)) = [(0,2);(6,6);(8,8);(13,13)].
Proof. vm_compute. reflexivity. Qed.

Example ex_first_ranges : invert 0 13 (isort [(3,5);(7,7);(9,12)]) = [(0,2);(6,6);(8,8);(13,13)].
Proof. vm_compute. reflexivity. Qed.

Example ex_second_ranges : invert 0 13 (isort [(1,1);(3,5);(9,12)]) = [(0,0);(2,2);(6,8);(13,13)].
Proof. vm_compute. reflexivity. Qed.
