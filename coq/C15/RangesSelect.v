(* C15 - which gaps are kept: the slot process of sc_ranges_compute (claim a slot, evict the first shortest) *)
From Coq Require Import ZArith List Bool Lia Permutation.
From ScV Require Import Base.CInt C15.RangesModel.
Import ListNotations.
Local Open Scope Z_scope.

(* --- the scan for the shortest slot ----------------------------------------------------------------- *)
Lemma shortest_from_spec l : forall i best bl,
  (shortest_from l i best bl = best /\ Forall (fun g => bl <= glen g) l) \/
  (exists k, (k < length l)%nat /\ shortest_from l i best bl = i + Z.of_nat k
             /\ glen (nth k l UNUSED) < bl /\ Forall (fun g => glen (nth k l UNUSED) <= glen g) l).
Proof.
  induction l as [|g r IH]; intros i best bl; [left; split; [reflexivity|constructor]|].
  cbn [shortest_from]. destruct (glen g <? bl) eqn:E.
  - apply Z.ltb_lt in E. right. destruct (IH (i + 1) i (glen g)) as [[H1 H2]|[k (K1 & K2 & K3 & K4)]].
    + exists 0%nat. cbn [length nth]. split; [lia|]. split; [lia|]. split; [exact E|].
      constructor; [lia|exact H2].
    + exists (S k). cbn [length nth]. split; [lia|]. split; [lia|]. split; [lia|].
      constructor; [lia|exact K4].
  - apply Z.ltb_ge in E. destruct (IH (i + 1) best bl) as [[H1 H2]|[k (K1 & K2 & K3 & K4)]].
    + left. split; [exact H1|]. constructor; [exact E|exact H2].
    + right. exists (S k). cbn [length nth]. split; [lia|]. split; [lia|]. split; [exact K3|].
      constructor; [lia|exact K4].
Qed.

Lemma shortest_spec P l : l <> [] -> Forall (fun g => glen g <= P) l ->
  exists k, (k < length l)%nat /\ shortest P l = Z.of_nat k /\ forall g, In g l -> glen (nth k l UNUSED) <= glen g.
Proof.
  intros N F. unfold shortest. destruct (shortest_from_spec l 0 (-1) (P + 1)) as [[_ H]|[k (K1 & K2 & _ & K4)]].
  - exfalso. destruct l as [|g r]; [congruence|]. inversion H; subst. inversion F; subst. lia.
  - exists k. split; [exact K1|]. split; [lia|]. rewrite Forall_forall in K4. exact K4.
Qed.

(* --- replacing one slot ----------------------------------------------------------------------------- *)
Section SetNth.
  Context {A : Type}.
  Lemma set_nth_length (l : list A) k x : (k < length l)%nat -> length (set_nth k x l) = length l.
  Proof.
    intros H. unfold set_nth. rewrite app_length. cbn [length]. rewrite firstn_length, skipn_length. lia.
  Qed.

  Lemma set_nth_split (l : list A) k (d : A) : (k < length l)%nat -> l = firstn k l ++ nth k l d :: skipn (S k) l.
  Proof.
    revert k; induction l as [|a r IH]; intros k H; [cbn in H; lia|].
    destruct k as [|k]; [reflexivity|]. cbn [firstn nth skipn app]. f_equal. apply IH. cbn in H; lia.
  Qed.

  Lemma set_nth_In (l : list A) k x y : In y (set_nth k x l) -> y = x \/ In y l.
  Proof.
    unfold set_nth. intros H. apply in_app_or in H. destruct H as [H|[H|H]].
    - right. rewrite <- (firstn_skipn k l). apply in_or_app; left; exact H.
    - left; symmetry; exact H.
    - right. rewrite <- (firstn_skipn (S k) l). apply in_or_app; right; exact H.
  Qed.

  Lemma set_nth_In_new (l : list A) k x : In x (set_nth k x l).
  Proof. unfold set_nth. apply in_or_app. right; left; reflexivity. Qed.

  Lemma set_nth_In_old (l : list A) k x (d : A) y : (k < length l)%nat -> In y l -> y = nth k l d \/ In y (set_nth k x l).
  Proof.
    intros H Hy. rewrite (set_nth_split l k d H) in Hy. unfold set_nth.
    apply in_app_or in Hy. destruct Hy as [Hy|[Hy|Hy]].
    - right. apply in_or_app; left; exact Hy.
    - left; symmetry; exact Hy.
    - right. apply in_or_app; right; right; exact Hy.
  Qed.

  Lemma set_nth_NoDup (l : list A) k x (d : A) : (k < length l)%nat -> NoDup l -> ~ In x l -> NoDup (set_nth k x l).
  Proof.
    intros H N X. unfold set_nth. rewrite (set_nth_split l k d H) in N, X.
    apply NoDup_remove_1 in N.
    apply (Permutation_NoDup (l := x :: firstn k l ++ skipn (S k) l)); [apply Permutation_middle|].
    constructor; [|exact N]. intros Y. apply X. apply in_app_or in Y. apply in_or_app.
    destruct Y as [Y|Y]; [left; exact Y|right; right; exact Y].
  Qed.

  Lemma set_nth_app (l l' : list A) k x : (k < length l)%nat -> set_nth k x (l ++ l') = set_nth k x l ++ l'.
  Proof.
    intros H. unfold set_nth. rewrite firstn_app, skipn_app.
    replace (k - length l)%nat with 0%nat by lia. replace (S k - length l)%nat with 0%nat by lia.
    cbn [firstn skipn]. rewrite app_nil_r, <- app_assoc. reflexivity.
  Qed.
End SetNth.

(* --- eviction on slots ++ [new gap] ------------------------------------------------------------------ *)
Lemma evict_char P kept g k : shortest P (kept ++ [g]) = Z.of_nat k -> (k <= length kept)%nat ->
  evict P (kept ++ [g]) = if (k <? length kept)%nat then set_nth k g kept else kept.
Proof.
  intros S K. unfold evict. rewrite S, app_length. cbn [length]. rewrite last_last.
  destruct (k <? length kept)%nat eqn:E.
  - apply Nat.ltb_lt in E. replace (Z.of_nat k <? Z.of_nat (length kept + 1) - 1) with true by (symmetry; apply Z.ltb_lt; lia).
    rewrite Nat2Z.id, set_nth_app by exact E. apply removelast_last.
  - apply Nat.ltb_ge in E. replace (Z.of_nat k <? Z.of_nat (length kept + 1) - 1) with false by (symmetry; apply Z.ltb_ge; lia).
    apply removelast_last.
Qed.

(* --- the invariant of the slot process ---------------------------------------------------------------- *)
Section Select.
  Variables (P : Z) (m : nat).          (* m = num_ranges - 1 gaps can be kept *)
  Let nr : Z := Z.of_nat m + 1.

  Definition pair_eq_dec (a b : pair) : {a = b} + {a <> b}.
  Proof. decide equality; apply Z.eq_dec. Defined.

  Definition Inv (done kept : list pair) : Prop :=
    NoDup kept /\ incl kept done /\ length kept = Nat.min (length done) m
    /\ ((length done <= m)%nat -> kept = done)
    /\ (forall a, In a done -> ~ In a kept -> forall k, In k kept -> glen a <= glen k).

  Lemma Inv_nil : Inv [] [].
  Proof.
    split; [constructor|]. split; [apply incl_refl|]. split; [reflexivity|]. split; [reflexivity|].
    intros a Ha; contradiction.
  Qed.

  Lemma Inv_step done kept g : Inv done kept -> ~ In g done -> Forall (fun x => glen x <= P) (done ++ [g]) ->
    Inv (done ++ [g]) (add_gap P nr kept g).
  Proof.
    intros (I1 & I2 & I3 & I4 & I5) Hg F. unfold add_gap.
    assert (Hgk : ~ In g kept) by (intro X; apply Hg; apply I2; exact X).
    rewrite app_length. cbn [length].
    destruct (Z.of_nat (length kept + 1) =? nr) eqn:E; [apply Z.eqb_eq in E|apply Z.eqb_neq in E]; unfold nr in E.
    - (* all slots in use: evict *)
      assert (Lk : length kept = m) by lia.
      assert (Ld : (m <= length done)%nat) by lia.
      assert (Fl : Forall (fun x => glen x <= P) (kept ++ [g])).
      { apply Forall_forall. intros x Hx. rewrite Forall_forall in F. apply F. apply in_app_or in Hx. apply in_or_app.
        destruct Hx as [Hx|Hx]; [left; apply I2; exact Hx|right; exact Hx]. }
      destruct (shortest_spec P (kept ++ [g])) as [k (K1 & K2 & K3)]; [destruct kept; discriminate|exact Fl|].
      rewrite app_length in K1; cbn [length] in K1.
      rewrite (evict_char P kept g k K2) by lia.
      destruct (k <? length kept)%nat eqn:Ek; [apply Nat.ltb_lt in Ek|apply Nat.ltb_ge in Ek].
      + (* an older slot is the shortest: the new gap takes its place *)
        assert (Hm : nth k (kept ++ [g]) UNUSED = nth k kept UNUSED) by (apply app_nth1; exact Ek).
        assert (Hmk : In (nth k kept UNUSED) kept) by (apply nth_In; exact Ek).
        split; [apply (set_nth_NoDup kept k g UNUSED); assumption|].
        split. { intros x Hx. apply set_nth_In in Hx. apply in_or_app. destruct Hx as [->|Hx]; [right; left; reflexivity|left; apply I2; exact Hx]. }
        split; [rewrite set_nth_length, app_length by exact Ek; cbn [length]; lia|].
        split; [rewrite app_length; cbn [length]; lia|].
        intros a Ha Hna x Hx.
        assert (Hxl : In x (kept ++ [g])).
        { apply set_nth_In in Hx. apply in_or_app. destruct Hx as [->|Hx]; [right; left; reflexivity|left; exact Hx]. }
        destruct (in_dec pair_eq_dec a kept) as [Hak|Hak].
        * destruct (set_nth_In_old kept k g UNUSED a Ek Hak) as [->|X]; [|contradiction].
          rewrite <- Hm. apply K3. exact Hxl.
        * apply in_app_or in Ha. destruct Ha as [Ha|[<-|[]]]; [|exfalso; apply Hna; apply set_nth_In_new].
          apply set_nth_In in Hx. destruct Hx as [->|Hx]; [|apply I5; assumption].
          transitivity (glen (nth k kept UNUSED)); [apply I5; assumption|].
          rewrite <- Hm. apply K3. apply in_or_app; right; left; reflexivity.
      + (* the new gap itself is the shortest *)
        assert (k = length kept) by lia. subst k.
        assert (Hm : nth (length kept) (kept ++ [g]) UNUSED = g) by (rewrite app_nth2, Nat.sub_diag by lia; reflexivity).
        split; [exact I1|]. split; [intros x Hx; apply in_or_app; left; apply I2; exact Hx|].
        split; [rewrite app_length; cbn [length]; lia|].
        split; [rewrite app_length; cbn [length]; lia|].
        intros a Ha Hna x Hx. apply in_app_or in Ha. destruct Ha as [Ha|[<-|[]]]; [apply I5; assumption|].
        rewrite <- Hm at 1. apply K3. apply in_or_app; left; exact Hx.
    - (* a slot is still free *)
      assert (Ld : (length done < m)%nat) by lia.
      rewrite (I4 ltac:(lia)) in *.
      split. { apply (Permutation_NoDup (l := g :: done)); [apply Permutation_cons_append|]. constructor; assumption. }
      split; [apply incl_refl|]. split; [rewrite app_length; cbn [length]; lia|]. split; [reflexivity|].
      intros a Ha Hna. contradiction.
  Qed.

  Lemma Inv_fold todo : forall done kept, Inv done kept -> NoDup (done ++ todo) ->
    Forall (fun x => glen x <= P) (done ++ todo) ->
    Inv (done ++ todo) (fold_left (add_gap P nr) todo kept).
  Proof.
    induction todo as [|g todo IH]; intros done kept I N F; [rewrite app_nil_r; exact I|].
    cbn [fold_left]. replace (done ++ g :: todo) with ((done ++ [g]) ++ todo) in * by (rewrite <- app_assoc; reflexivity).
    apply IH; [|exact N|exact F].
    apply Inv_step; [exact I| |].
    - rewrite <- app_assoc in N. cbn [app] in N. apply NoDup_remove_2 in N. intro X. apply N. apply in_or_app; left; exact X.
    - apply Forall_forall. intros x Hx. rewrite Forall_forall in F. apply F. apply in_or_app; left; exact Hx.
  Qed.
End Select.
