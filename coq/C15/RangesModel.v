(* C15 - model of src/sc_ranges.c: sc_ranges_compute, sc_ranges_decode, sc_ranges_adaptive (as a composition
   with the allreduce(max) / allgather specifications), sc_ranges_statistics (its count).
   Executable definitions only; follows the code's loop structure:
   - the peers (procs[j] != 0, j != rank) are visited in ascending order; every run of non-peers between two
     consecutive peers is an "empty range" (gap) and is stored in the first unused slot;
   - when all num_ranges slots are in use the first shortest one is overwritten by the last one, which is cleared;
   - the kept gaps are sorted by their start and inverted into the covering ranges.
   The filled slots always form a prefix of the array, so the slot array is modelled by the list of its filled
   entries (the rest is (-1, -2)). *)
From Coq Require Import ZArith List Bool.
From ScV Require Import Base.CInt.
Import ListNotations.
Local Open Scope Z_scope.
Local Open Scope bool_scope.

Definition pair := (Z * Z)%type.
Definition UNUSED : pair := (-1, -2).

Definition zseq (n : nat) : list Z := map Z.of_nat (seq 0 n).
(* [lo, hi] ascending; empty if hi < lo *)
Definition zrange (lo hi : Z) : list Z := map (fun k => lo + Z.of_nat k) (seq 0 (Z.to_nat (hi - lo + 1))).

Definition proc (procs : list Z) (j : Z) : Z := nth (Z.to_nat j) procs 0.
Definition is_peer (procs : list Z) (rank j : Z) : bool := negb (proc procs j =? 0) && negb (j =? rank).
Definition peers (procs : list Z) (rank : Z) : list Z := filter (is_peer procs rank) (zseq (length procs)).

(* what the caller passes as first_peer / last_peer: the extreme peers, or (num_procs, -1) without peers *)
Definition first_last (procs : list Z) (rank : Z) : Z * Z :=
  match peers procs rank with
  | [] => (Z.of_nat (length procs), -1)
  | p :: r => (p, last r p)
  end.

(* empty ranges between consecutive peers, in ascending order *)
Fixpoint gaps_of (l : list Z) : list pair :=
  match l with
  | p :: ((q :: _) as r) => (if p <? q - 1 then [(p + 1, q - 1)] else []) ++ gaps_of r
  | _ => []
  end.

Definition glen (g : pair) : Z := snd g - fst g + 1.

(* the scan for the shortest slot: strict <, so the first of several shortest wins; -1 if nothing is below the start value *)
Fixpoint shortest_from (l : list pair) (i : Z) (best : Z) (bestlen : Z) : Z :=
  match l with
  | [] => best
  | g :: r => if glen g <? bestlen then shortest_from r (i + 1) i (glen g) else shortest_from r (i + 1) best bestlen
  end.
Definition shortest (num_procs : Z) (l : list pair) : Z := shortest_from l 0 (-1) (num_procs + 1).

Definition set_nth {A} (i : nat) (x : A) (l : list A) : list A := firstn i l ++ x :: skipn (S i) l.

(* all num_ranges slots are in use (l): drop the shortest; the last slot moves into its place *)
Definition evict (num_procs : Z) (l : list pair) : list pair :=
  let s := shortest num_procs l in
  let lastw := Z.of_nat (length l) - 1 in
  if s <? lastw then removelast (set_nth (Z.to_nat s) (last l UNUSED) l) else removelast l.

Definition add_gap (num_procs num_ranges : Z) (slots : list pair) (g : pair) : list pair :=
  let l := slots ++ [g] in
  if Z.of_nat (length l) =? num_ranges then evict num_procs l else l.

(* qsort by the start of the ranges (all starts are different, so every sorting algorithm gives this result) *)
Fixpoint insert_by_start (g : pair) (l : list pair) : list pair :=
  match l with
  | [] => [g]
  | h :: r => if fst g <=? fst h then g :: l else h :: insert_by_start g r
  end.
Fixpoint isort (l : list pair) : list pair :=
  match l with [] => [] | g :: r => insert_by_start g (isort r) end.

(* real ranges from the sorted empty ranges *)
Fixpoint invert (first last : Z) (gaps : list pair) : list pair :=
  match gaps with
  | [] => [(first, last)]
  | (s, e) :: r => (first, s - 1) :: invert (e + 1) last r
  end.

Definition kept_gaps (procs : list Z) (rank num_ranges : Z) : list pair :=
  fold_left (add_gap (Z.of_nat (length procs)) num_ranges) (gaps_of (peers procs rank)) [].

(* sc_ranges_compute: (return value, the ranges array as num_ranges pairs) *)
Definition ranges_compute (procs : list Z) (rank first_peer last_peer num_ranges : Z) : Z * list pair :=
  let n := Z.to_nat num_ranges in
  if last_peer <? first_peer then (0, repeat UNUSED n)
  else
    let rs := invert first_peer last_peer (isort (kept_gaps procs rank num_ranges)) in
    (Z.of_nat (length rs), rs ++ repeat UNUSED (n - length rs)).

(* --- sc_ranges_decode --------------------------------------------------------------------------- *)
Fixpoint row_receivers (row : list pair) (rank : Z) : list Z :=
  match row with
  | [] => []
  | (lo, hi) :: r => if lo <? 0 then [] else filter (fun j => negb (j =? rank)) (zrange lo hi) ++ row_receivers r rank
  end.

(* the sender test: the first range that ends at or after q decides *)
Fixpoint row_has (row : list pair) (q : Z) : bool :=
  match row with
  | [] => false
  | (lo, hi) :: r => if lo <? 0 then false else if q <=? hi then lo <=? q else row_has r q
  end.

Definition row_of (tbl : list (list pair)) (j : Z) : list pair := nth (Z.to_nat j) tbl [].

Definition receivers (tbl : list (list pair)) (rank : Z) : list Z := row_receivers (row_of tbl rank) rank.
Definition senders (tbl : list (list pair)) (rank : Z) : list Z :=
  filter (fun j => negb (j =? rank) && row_has (row_of tbl j) rank) (zseq (length tbl)).

(* --- sc_ranges_adaptive as a composition with the collective specifications ------------------------ *)
(* contribution to the first maximum: procs[j] > 0 (sic) and j != rank *)
Definition peer_count (procs : list Z) (rank : Z) : Z :=
  Z.of_nat (length (filter (fun j => (0 <? proc procs j) && negb (j =? rank)) (zseq (length procs)))).

Definition allreduce_max (contrib : list Z) : Z := fold_left Z.max contrib 0.      (* all contributions are >= 0 *)

(* per rank: (own return value, own ranges array); shared: maximum peer count, maximum number of ranges, and the
   table of everybody's first max_ranges entries (allgather) *)
Definition adaptive_all (vecs : list (list Z)) (num_ranges : Z) : list (Z * list pair) * Z * Z * list (list pair) :=
  let locals := map (fun rv => let '(r, v) := rv in
                               let '(fp, lp) := first_last v r in ranges_compute v r fp lp num_ranges)
                    (combine (zseq (length vecs)) vecs) in
  let maxpeers := allreduce_max (map (fun rv => peer_count (snd rv) (fst rv)) (combine (zseq (length vecs)) vecs)) in
  let maxwin := allreduce_max (map fst locals) in
  (locals, maxpeers, maxwin, map (fun l => firstn (Z.to_nat maxwin) (snd l)) locals).

(* --- sc_ranges_statistics: the number it feeds into the statistics ----------------------------------- *)
Definition empties (procs : list Z) (rank : Z) (ranges : list pair) : Z :=
  Z.of_nat (length (filter (fun j => negb (j =? rank) && (proc procs j =? 0))
                           (flat_map (fun r => zrange (fst r) (snd r)) ranges))).
