(* C03 - from the per-rank programs of sc_reduce / sc_allreduce to the global tree model under EVERY schedule. *)
From Coq Require Import ZArith Lia List Bool ZifyBool.
From ScV Require Import Base.CInt Gen.Search Gen.Consts MPI.Prog MPI.Sem MPI.SemFrame C03.ReduceModel.
Import ListNotations.
Local Open Scope Z_scope.
Ltac Zify.zify_post_hook ::= Z.div_mod_to_equations.

(* ---- sc_search_bias (generated definition): the member of the interval closest to the target ---------- *)
Definition clamp (lo hi t : Z) : Z := if t <? lo then lo else if hi <=? t then hi - 1 else t.

Lemma pow2_le a b : 0 <= a <= b -> 2 ^ a <= 2 ^ b.
Proof. intros H. apply Z.pow_le_mono_r; lia. Qed.

Lemma bias_spec m l br t : 0 <= l <= m -> m <= 30 -> 0 <= br < 2 ^ l -> 0 <= t < 2 ^ m ->
  sc_search_bias m l br t = clamp (br * 2 ^ (m - l)) (br * 2 ^ (m - l) + 2 ^ (m - l)) t.
Proof.
  intros Hl Hm Hbr Ht. unfold sc_search_bias, clamp, shl. cbv zeta.
  assert (Hw : 0 < 2 ^ (m - l)) by (apply pow2_pos; lia).
  assert (Hsplit : 2 ^ m = 2 ^ l * 2 ^ (m - l)) by (rewrite <- pow2_split by lia; f_equal; lia).
  assert (H30 : 2 ^ m <= 2 ^ 30) by (apply pow2_le; lia).
  assert (Hml : in_s32 (m - l)) by (unfold in_s32, M32; lia).
  rewrite (s32_id (m - l)) by exact Hml.
  set (w := 2 ^ (m - l)) in *.
  assert (Hlw : 0 <= br * w /\ br * w + w <= 2 ^ m) by nia.
  change (2 ^ 30) with 1073741824 in H30.
  rewrite (s32_id (br * w)) by (unfold in_s32, M32; lia).
  replace (1 * w) with w by lia.
  rewrite (s32_id w) by (unfold in_s32, M32; lia).
  rewrite (s32_id (br * w + w)) by (unfold in_s32, M32; lia).
  rewrite (s32_id (br * w + w - 1)) by (unfold in_s32, M32; lia).
  rewrite (s32_id (w - 1)) by (unfold in_s32, M32; lia).
  destruct (t <? br * w) eqn:E1; [reflexivity|].
  destruct (br * w + w <=? t) eqn:E2; [reflexivity|].
  unfold w. rewrite land_ones_mod by lia. fold w.
  assert (Hmod : t mod w = t - br * w).
  { replace t with ((t - br * w) + br * w) at 1 by lia. rewrite Z.mod_add by lia. apply Z.mod_small. lia. }
  rewrite Hmod. rewrite s32_id by (unfold in_s32, M32; lia). lia.
Qed.

Lemma lxor1_even b : 0 <= b -> Z.lxor (2 * b) 1 = 2 * b + 1.
Proof. intros H. destruct b as [|p|p]; [reflexivity|reflexivity|lia]. Qed.
Lemma lxor1_odd b : 0 <= b -> Z.lxor (2 * b + 1) 1 = 2 * b.
Proof. intros H. destruct b as [|p|p]; [reflexivity|reflexivity|lia]. Qed.

(* ---- the recursive routine with the all-to-all stage as a parameter ----------------------------------
   rec_prog (C03/ReduceModel.v) is rec_gen instantiated with a2a_prog - by conversion (rec_gen_eq). *)
Section Gen.
  Variable P m : Z. Variable doall : bool. Variable target : Z.
  Variable A2A : Z -> Z -> payload -> (payload -> prog) -> prog.
  Let al := c_SC_REDUCE_ALLTOALL_LEVEL.
  Let tag := c_SC_TAG_REDUCE.
  Fixpoint rec_gen (fuel : nat) (level branch : Z) (data : payload) (k : payload -> prog) : prog :=
    match fuel with
    | O => k data
    | S fu =>
      let myrank := sc_search_bias m level branch target in
      if level =? 0 then k data
      else if level <=? al then A2A level branch data k
      else
        let peer := sc_search_bias m level (Z.lxor branch 1) target in
        let higher := sc_search_bias m (level - 1) (branch / 2) target in
        if myrank =? higher then
          let cont (d : payload) :=
            rec_gen fu (level - 1) (branch / 2) d (fun d' =>
              if doall && (peer <? P) then send peer tag d' (k d') else k d') in
          if peer <? P then recv peer tag (fun v => cont (if myrank <? peer then sym_f v data else sym_f data v)) else cont data
        else
          if peer <? P then
            send peer tag data (if doall then recv peer tag (fun v => k v) else k data)
          else k data
    end.
End Gen.
Lemma rec_gen_eq P m doall target : rec_prog P m doall target = rec_gen P m doall target (a2a_prog P m doall target).
Proof. reflexivity. Qed.

Section Tree.
  Variable P m target : Z.
  Hypothesis Hm : 0 <= m <= 30.
  Hypothesis HP : 1 <= P <= 2 ^ m.
  Hypothesis Ht : 0 <= target < P.
  (* every rank's input buffer and continuation: the call stands inside a longer program (histories of calls, C03/ReduceHist.v) *)
  Variable xin : Z -> payload.
  Variable kk : Z -> payload -> prog.
  Notation al := c_SC_REDUCE_ALLTOALL_LEVEL.
  Notation tag := c_SC_TAG_REDUCE.

  Definition wd (l : Z) : Z := 2 ^ (m - l).
  Definition lft (l br : Z) : Z := br * wd l.
  Definition rep (l br : Z) : Z := sc_search_bias m l br target.
  Definition V (l br : Z) : payload := treeval payload sym_f P m xin (Z.to_nat (m - l)) br.
  Definition Sub (l br r : Z) : Prop := lft l br <= r < lft l br + wd l /\ r < P.

  Lemma wd_pos l : l <= m -> 0 < wd l.
  Proof. intros H. unfold wd. apply pow2_pos. lia. Qed.
  Lemma wd_m : wd m = 1.
  Proof. unfold wd. rewrite Z.sub_diag. reflexivity. Qed.
  Lemma wd_step l : l < m -> wd l = 2 * wd (l + 1).
  Proof. intros H. unfold wd. replace (m - l) with (Z.succ (m - (l + 1))) by lia. rewrite Z.pow_succ_r by lia. reflexivity. Qed.
  Lemma wd_total l : 0 <= l <= m -> 2 ^ m = 2 ^ l * wd l.
  Proof. intros H. unfold wd. rewrite <- pow2_split by lia. f_equal. lia. Qed.

  Lemma br_lt l br : 0 <= l <= m -> 0 <= br -> lft l br < P -> br < 2 ^ l.
  Proof.
    intros Hl Hb Hx. unfold lft in Hx. pose proof (wd_pos l ltac:(lia)). pose proof (wd_total l Hl).
    assert (0 < 2 ^ l) by (apply pow2_pos; lia). nia.
  Qed.

  Lemma rep_clamp l br : 0 <= l <= m -> 0 <= br < 2 ^ l -> rep l br = clamp (lft l br) (lft l br + wd l) target.
  Proof. intros Hl Hb. unfold rep, lft, wd. apply bias_spec; lia. Qed.

  Lemma lft_child0 l br : l < m -> lft (l + 1) (2 * br) = lft l br.
  Proof. intros H. unfold lft. rewrite (wd_step l H). ring. Qed.
  Lemma lft_child1 l br : l < m -> lft (l + 1) (2 * br + 1) = lft l br + wd (l + 1).
  Proof. intros H. unfold lft. rewrite (wd_step l H). ring. Qed.

  (* the value of a node from the values of its children *)
  Lemma V_step l br : 0 <= l < m ->
    V l br = if lft (l + 1) (2 * br + 1) <? P then sym_f (V (l + 1) (2 * br + 1)) (V (l + 1) (2 * br)) else V (l + 1) (2 * br).
  Proof.
    intros Hl. unfold V. replace (Z.to_nat (m - l)) with (S (Z.to_nat (m - (l + 1)))) by lia.
    cbn [treeval]. cbv zeta. unfold left_end, lft, wd.
    replace (m - (m - Z.of_nat (S (Z.to_nat (m - (l + 1)))) + 1)) with (m - (l + 1)) by lia. reflexivity.
  Qed.
  Lemma V_leaf br : V m br = xin br.
  Proof. unfold V. rewrite Z.sub_diag. reflexivity. Qed.

  (* ---- representatives ---- *)
  Lemma tgt_lt : target < 2 ^ m.  Proof. lia. Qed.

  Lemma rep_range l br : 0 <= l <= m -> 0 <= br -> lft l br < P -> Sub l br (rep l br).
  Proof.
    intros Hl Hb Hx. pose proof (br_lt l br Hl Hb Hx). pose proof (wd_pos l ltac:(lia)).
    rewrite rep_clamp by lia. unfold Sub, clamp.
    destruct (target <? lft l br) eqn:E1; [lia|]. destruct (lft l br + wd l <=? target) eqn:E2; lia.
  Qed.

  Lemma rep_exists l br : 0 <= l <= m -> 0 <= br < 2 ^ l -> (rep l br <? P) = (lft l br <? P).
  Proof.
    intros Hl Hb. pose proof (wd_pos l ltac:(lia)). rewrite rep_clamp by lia. unfold clamp.
    destruct (target <? lft l br) eqn:E1; [reflexivity|]. destruct (lft l br + wd l <=? target) eqn:E2; lia.
  Qed.

  Lemma rep_leaf br : 0 <= br < P -> rep m br = br.
  Proof.
    intros Hb. rewrite rep_clamp by lia. unfold clamp, lft. rewrite wd_m.
    destruct (target <? br * 1) eqn:E1; [lia|]. destruct (br * 1 + 1 <=? target) eqn:E2; lia.
  Qed.

  Lemma rep_target l br : 0 <= l <= m -> 0 <= br < 2 ^ l -> lft l br <= target < lft l br + wd l -> rep l br = target.
  Proof.
    intros Hl Hb Hx. rewrite rep_clamp by lia. unfold clamp.
    destruct (target <? lft l br) eqn:E1; [lia|]. destruct (lft l br + wd l <=? target) eqn:E2; lia.
  Qed.

  Lemma child_bound l br : 0 <= l < m -> 0 <= br < 2 ^ l -> 0 <= 2 * br /\ 2 * br + 1 < 2 ^ (l + 1).
  Proof. intros Hl Hb. rewrite Z.pow_add_r by lia. change (2 ^ 1) with 2. lia. Qed.

  Lemma rep_parent l br : 0 <= l < m -> 0 <= br < 2 ^ l ->
    rep l br = if target <? lft (l + 1) (2 * br + 1) then rep (l + 1) (2 * br) else rep (l + 1) (2 * br + 1).
  Proof.
    intros Hl Hb. pose proof (child_bound l br Hl Hb). pose proof (wd_pos (l + 1) ltac:(lia)).
    rewrite !rep_clamp by lia. rewrite lft_child0, lft_child1 by lia. rewrite (wd_step l) by lia. unfold clamp.
    repeat match goal with |- context [if ?c then _ else _] => destruct c eqn:? end; lia.
  Qed.

  Lemma rep_children_lt l br : 0 <= l < m -> 0 <= br < 2 ^ l -> rep (l + 1) (2 * br) < rep (l + 1) (2 * br + 1).
  Proof.
    intros Hl Hb. pose proof (child_bound l br Hl Hb). pose proof (wd_pos (l + 1) ltac:(lia)).
    rewrite !rep_clamp by lia. rewrite lft_child0, lft_child1 by lia. unfold clamp.
    repeat match goal with |- context [if ?c then _ else _] => destruct c eqn:? end; lia.
  Qed.

  Lemma Sub_children l br r : 0 <= l < m ->
    (Sub l br r <-> Sub (l + 1) (2 * br) r \/ Sub (l + 1) (2 * br + 1) r).
  Proof.
    intros Hl. pose proof (wd_pos (l + 1) ltac:(lia)). unfold Sub. rewrite lft_child0, lft_child1 by lia.
    rewrite (wd_step l) by lia. lia.
  Qed.
  Lemma Sub_disjoint l br r : 0 <= l < m -> Sub (l + 1) (2 * br) r -> Sub (l + 1) (2 * br + 1) r -> False.
  Proof. intros Hl. unfold Sub. rewrite lft_child0, lft_child1 by lia. lia. Qed.
  Lemma Sub_nonneg l br r : l <= m -> 0 <= br -> Sub l br r -> 0 <= r.
  Proof. intros Hl Hb [H _]. pose proof (wd_pos l Hl). unfold lft in H. nia. Qed.

  (* ---- the upward phase: subtrees, for reduce and allreduce alike -------------------------------------- *)
  Variable da : bool.
  Variable A2A : Z -> Z -> payload -> (payload -> prog) -> prog.
  Notation RG := (rec_gen P m da target A2A).

  Definition start (r : Z) : prog := RG (S (Z.to_nat m)) m r (xin r) (kk r).

  Lemma rg_step fu l c data k : 0 <= l -> al <= l ->
    RG (S fu) (l + 1) c data k =
      if rep (l + 1) c =? rep l (c / 2) then
        (if rep (l + 1) (Z.lxor c 1) <? P then
           recv (rep (l + 1) (Z.lxor c 1)) tag (fun v =>
             RG fu l (c / 2) (if rep (l + 1) c <? rep (l + 1) (Z.lxor c 1) then sym_f v data else sym_f data v)
                (fun d' => if da && (rep (l + 1) (Z.lxor c 1) <? P) then send (rep (l + 1) (Z.lxor c 1)) tag d' (k d') else k d'))
         else RG fu l (c / 2) data
                (fun d' => if da && (rep (l + 1) (Z.lxor c 1) <? P) then send (rep (l + 1) (Z.lxor c 1)) tag d' (k d') else k d'))
      else if rep (l + 1) (Z.lxor c 1) <? P then
             send (rep (l + 1) (Z.lxor c 1)) tag data (if da then recv (rep (l + 1) (Z.lxor c 1)) tag (fun v => k v) else k data)
           else k data.
  Proof.
    intros Hl Hal. cbn [rec_gen]. replace (l + 1 =? 0) with false by lia. replace (l + 1 <=? al) with false by lia.
    replace (l + 1 - 1) with l by lia. reflexivity.
  Qed.

  Definition Subch (l br : Z) (s : gs) : Prop := forall a b t, Sub l br a -> Sub l br b -> ch s a b t = [].

  (* what the subtree can do once its representative is handed the final result v (allreduce) *)
  Definition downcap (l br : Z) (s : gs) (K : payload -> prog) : Prop :=
    forall s2 v, pr s2 (rep l br) = K v -> (forall r, Sub l br r -> r <> rep l br -> pr s2 r = pr s r) -> Subch l br s2 ->
    exists n s3, run n s2 s3 /\ (forall r, Sub l br r -> pr s3 r = kk r v) /\
      (forall r, ~ Sub l br r -> pr s3 r = pr s2 r) /\ (forall a b t, ch s3 a b t = ch s2 a b t).
  Definition after (l br : Z) (s : gs) (K : payload -> prog) : Prop :=
    (da = true -> downcap l br s K) /\
    (da = false -> (forall v, K v = kk (rep l br) v) /\ forall r, Sub l br r -> r <> rep l br -> exists o, pr s r = kk r o).

  Lemma after_frame l br s s' K : (forall r, Sub l br r -> r <> rep l br -> pr s' r = pr s r) -> after l br s K -> after l br s' K.
  Proof.
    intros Hsame [Ht1 Hf1]. split.
    - intros Hd s2 v Hq Hoth Hch. apply (Ht1 Hd s2 v Hq); [|exact Hch].
      intros r Hr Hne. rewrite Hoth by assumption. apply Hsame; assumption.
    - intros Hd. destruct (Hf1 Hd) as [HK Ho]. split; [exact HK|]. intros r Hr Hne. rewrite Hsame by assumption. apply Ho; assumption.
  Qed.

  Lemma triple_dec (a b t a' b' t' : Z) : {(a, b, t) = (a', b', t')} + {(a, b, t) <> (a', b', t')}.
  Proof.
    destruct (Z.eq_dec a a'); [|right; congruence]. destruct (Z.eq_dec b b'); [|right; congruence].
    destruct (Z.eq_dec t t'); [left|right]; congruence.
  Qed.

  (* joining the two children ci (whose representative represents the parent) and cj *)
  Lemma join fu l br ci cj s Ki Kj :
    0 <= l < m -> al <= l -> 0 <= br ->
    (ci = 2 * br /\ cj = 2 * br + 1) \/ (ci = 2 * br + 1 /\ cj = 2 * br) ->
    lft (l + 1) (2 * br + 1) < P ->
    rep l br = rep (l + 1) ci ->
    pr s (rep (l + 1) ci) = RG (S (S fu)) (l + 1) ci (V (l + 1) ci) Ki ->
    pr s (rep (l + 1) cj) = RG (S (S fu)) (l + 1) cj (V (l + 1) cj) Kj ->
    Subch l br s ->
    after (l + 1) ci s Ki -> after (l + 1) cj s Kj ->
    exists n s' KQ, run n s s' /\ pr s' (rep l br) = RG (S fu) l br (V l br) KQ /\
      (forall r, ~ Sub l br r -> pr s' r = pr s r) /\ (forall a b t, ch s' a b t = ch s a b t) /\
      after l br s' KQ.
  Proof.
    intros Hl Hal Hb Hcase Hex Hrep Hpi Hpj Hch Hai Haj.
    pose proof (wd_pos (l + 1) ltac:(lia)) as Hw.
    assert (Hx0 : lft l br < P) by (rewrite lft_child1 in Hex by lia; lia).
    pose proof (br_lt l br ltac:(lia) Hb Hx0) as Hb2.
    pose proof (child_bound l br ltac:(lia) ltac:(lia)) as Hcb.
    pose proof (rep_children_lt l br ltac:(lia) ltac:(lia)) as Hlt.
    assert (Hx1 : lft (l + 1) (2 * br) < P) by (rewrite lft_child0 by lia; exact Hx0).
    pose proof (rep_range (l + 1) (2 * br) ltac:(lia) ltac:(lia) Hx1) as Hr0.
    pose proof (rep_range (l + 1) (2 * br + 1) ltac:(lia) ltac:(lia) Hex) as Hr1.
    set (qi := rep (l + 1) ci) in *. set (qj := rep (l + 1) cj) in *.
    assert (Hlx : Z.lxor ci 1 = cj /\ Z.lxor cj 1 = ci /\ ci / 2 = br /\ cj / 2 = br).
    { destruct Hcase as [[-> ->]|[-> ->]]; rewrite lxor1_even, lxor1_odd by lia; repeat split; try reflexivity; lia. }
    destruct Hlx as [Hlx1 [Hlx2 [Hd1 Hd2]]].
    assert (Hsi : Sub (l + 1) ci qi /\ Sub (l + 1) cj qj /\ qi <> qj).
    { destruct Hcase as [[-> ->]|[-> ->]]; unfold qi, qj; repeat split; try apply Hr0; try apply Hr1; lia. }
    destruct Hsi as [Hsi [Hsj Hne]].
    assert (HSi : Sub l br qi) by (apply (Sub_children l br qi ltac:(lia)); destruct Hcase as [[-> ->]|[-> ->]]; [left|right]; exact Hsi).
    assert (HSj : Sub l br qj) by (apply (Sub_children l br qj ltac:(lia)); destruct Hcase as [[-> ->]|[-> ->]]; [right|left]; exact Hsj).
    assert (Hqi : 0 <= qi < P) by (split; [eapply (Sub_nonneg l br); eauto; lia|apply HSi]).
    assert (Hqj : 0 <= qj < P) by (split; [eapply (Sub_nonneg l br); eauto; lia|apply HSj]).
    assert (HV : (if qi <? qj then sym_f (V (l + 1) cj) (V (l + 1) ci) else sym_f (V (l + 1) ci) (V (l + 1) cj)) = V l br).
    { rewrite (V_step l br) by lia. replace (lft (l + 1) (2 * br + 1) <? P) with true by lia.
      destruct Hcase as [[-> ->]|[-> ->]]; unfold qi, qj.
      - replace (rep (l + 1) (2 * br) <? rep (l + 1) (2 * br + 1)) with true by lia. reflexivity.
      - replace (rep (l + 1) (2 * br + 1) <? rep (l + 1) (2 * br)) with false by lia. reflexivity. }
    (* cj's representative sends its value to ci's *)
    rewrite rg_step in Hpj by lia. rewrite Hlx2, Hd2 in Hpj. fold qi qj in Hpj. rewrite Hrep in Hpj. fold qi in Hpj.
    replace (qj =? qi) with false in Hpj by lia. replace (qi <? P) with true in Hpj by lia.
    destruct (run_send1 _ _ _ _ _ _ Hpj) as [s1 [Hrun1 [Hp1 [Hpo1 [Hc1 Hco1]]]]].
    (* ci's representative receives it *)
    rewrite rg_step in Hpi by lia. rewrite Hlx1, Hd1 in Hpi. fold qi qj in Hpi. rewrite Hrep in Hpi. fold qi in Hpi.
    rewrite Z.eqb_refl in Hpi. replace (qj <? P) with true in Hpi by lia.
    rewrite <- (Hpo1 qi) in Hpi by lia.
    assert (Hcq : ch s1 qj qi tag = [V (l + 1) cj]) by (rewrite Hc1, (Hch qj qi tag HSj HSi); reflexivity).
    destruct (run_recv1 _ _ _ _ _ _ _ Hpi ltac:(lia) Hcq) as [s2 [Hrun2 [Hp2 [Hpo2 [Hc2 Hco2]]]]].
    cbv beta in Hp2. rewrite HV in Hp2.
    assert (Hchs : forall a b t, ch s2 a b t = ch s a b t).
    { intros a b t. destruct (triple_dec a b t qj qi tag) as [E|E].
      - injection E as -> -> ->. rewrite Hc2. symmetry. apply Hch; assumption.
      - rewrite Hco2 by exact E. apply Hco1. exact E. }
    eexists (1 + 1)%nat, s2, _. split; [eapply run_app; eauto|]. split; [rewrite Hrep; exact Hp2|]. split; [|split; [exact Hchs|]].
    { intros r Hr. rewrite Hpo2 by (intros ->; contradiction). apply Hpo1. intros ->. contradiction. }
    unfold after, downcap. rewrite Hrep. fold qi.
    split.
    - (* allreduce: the way down *)
      intros Hda. rewrite Hda in *. intros s3 v Hq3 Hoth3 Hch3.
      replace (true && (qj <? P)) with true in Hq3 by lia.
      destruct (run_send1 _ _ _ _ _ _ Hq3) as [s4 [Hrun4 [Hp4 [Hpo4 [Hc4 Hco4]]]]].
      assert (Hpj4 : pr s4 qj = recv qi tag (fun v0 => Kj v0)).
      { rewrite Hpo4 by lia. rewrite (Hoth3 qj HSj) by lia. rewrite Hpo2 by lia. exact Hp1. }
      assert (Hcq4 : ch s4 qi qj tag = [v]) by (rewrite Hc4, (Hch3 qi qj tag HSi HSj); reflexivity).
      destruct (run_recv1 _ _ _ _ _ _ _ Hpj4 ltac:(lia) Hcq4) as [s5 [Hrun5 [Hp5 [Hpo5 [Hc5 Hco5]]]]].
      assert (Hchs5 : forall a b t, ch s5 a b t = ch s3 a b t).
      { intros a b t. destruct (triple_dec a b t qi qj tag) as [E|E].
        - injection E as -> -> ->. rewrite Hc5. symmetry. apply Hch3; assumption.
        - rewrite Hco5 by exact E. apply Hco4. exact E. }
      assert (Hsub_i : forall r, Sub (l + 1) ci r -> Sub l br r).
      { intros r Hr. apply (Sub_children l br r ltac:(lia)). destruct Hcase as [[-> ->]|[-> ->]]; [left|right]; exact Hr. }
      assert (Hsub_j : forall r, Sub (l + 1) cj r -> Sub l br r).
      { intros r Hr. apply (Sub_children l br r ltac:(lia)). destruct Hcase as [[-> ->]|[-> ->]]; [right|left]; exact Hr. }
      assert (Hdisj : forall r, Sub (l + 1) ci r -> Sub (l + 1) cj r -> False).
      { intros r H1 H2. destruct Hcase as [[-> ->]|[-> ->]]; eapply (Sub_disjoint l br r); eauto; lia. }
      (* subtree of ci *)
      destruct (proj1 Hai Hda s5 v) as [n6 [s6 [Hrun6 [Hp6 [Hpo6 Hc6]]]]].
      { fold qi. rewrite Hpo5 by lia. exact Hp4. }
      { fold qi. intros r Hr Hnq. rewrite Hpo5 by (intros ->; eapply Hdisj; eauto).
        rewrite Hpo4 by exact Hnq. rewrite (Hoth3 r (Hsub_i r Hr) Hnq). rewrite Hpo2 by exact Hnq.
        apply Hpo1. intros ->. eapply Hdisj; eauto. }
      { intros a b t Ha Hb'. rewrite Hchs5. apply Hch3; apply Hsub_i; assumption. }
      (* subtree of cj *)
      destruct (proj1 Haj Hda s6 v) as [n7 [s7 [Hrun7 [Hp7 [Hpo7 Hc7]]]]].
      { fold qj. rewrite Hpo6 by (intros Hx; eapply Hdisj; eauto). exact Hp5. }
      { fold qj. intros r Hr Hnq. rewrite Hpo6 by (intros Hx; eapply Hdisj; eauto).
        rewrite Hpo5 by exact Hnq. rewrite Hpo4 by (intros ->; eapply Hdisj; eauto).
        assert (Hnqi : r <> qi) by (intros ->; eapply Hdisj; eauto).
        rewrite (Hoth3 r (Hsub_j r Hr) Hnqi). rewrite Hpo2 by exact Hnqi. apply Hpo1. exact Hnq. }
      { intros a b t Ha Hb'. rewrite Hc6, Hchs5. apply Hch3; apply Hsub_j; assumption. }
      exists (1 + 1 + n6 + n7)%nat, s7. split; [eapply run_app; [eapply run_app; [eapply run_app; eauto|eauto]|eauto]|].
      split; [|split].
      + intros r Hr. apply (Sub_children l br r ltac:(lia)) in Hr.
        assert (Hr' : Sub (l + 1) ci r \/ Sub (l + 1) cj r) by (destruct Hcase as [[-> ->]|[-> ->]]; tauto).
        destruct Hr' as [Hr'|Hr'].
        * rewrite Hpo7 by (intros Hx; eapply Hdisj; eauto). apply Hp6. exact Hr'.
        * apply Hp7. exact Hr'.
      + intros r Hr. rewrite Hpo7 by (intros Hx; apply Hr; apply Hsub_j; exact Hx).
        rewrite Hpo6 by (intros Hx; apply Hr; apply Hsub_i; exact Hx).
        rewrite Hpo5 by (intros ->; contradiction). apply Hpo4. intros ->. contradiction.
      + intros a b t. rewrite Hc7, Hc6. apply Hchs5.
    - (* reduce: everybody below has returned *)
      intros Hda. rewrite Hda in *. destruct (proj2 Hai Hda) as [HKi Hoi]. destruct (proj2 Haj Hda) as [HKj Hoj].
      split; [intros v; cbn [andb]; apply HKi|].
      intros r Hr Hnq. apply (Sub_children l br r ltac:(lia)) in Hr.
      assert (Hr' : Sub (l + 1) ci r \/ Sub (l + 1) cj r) by (destruct Hcase as [[-> ->]|[-> ->]]; tauto).
      destruct (Z.eq_dec r qj) as [->|Hnj].
      + rewrite Hpo2 by lia. rewrite Hp1. rewrite HKj. eauto.
      + rewrite Hpo2 by exact Hnq. rewrite Hpo1 by exact Hnj.
        destruct Hr' as [Hr'|Hr']; [apply Hoi|apply Hoj]; assumption.
  Qed.

  Lemma Sub_leaf br r : Sub m br r <-> r = br /\ br < P.
  Proof. unfold Sub, lft. rewrite wd_m. lia. Qed.

  Theorem up : forall d l br, l = m - Z.of_nat d -> (d = 0%nat \/ al <= l) -> 0 <= l -> 0 <= br -> lft l br < P ->
    forall s, (forall r, Sub l br r -> pr s r = start r) -> Subch l br s ->
    exists n s' KQ, run n s s' /\ pr s' (rep l br) = RG (S (Z.to_nat l)) l br (V l br) KQ /\
      (forall r, ~ Sub l br r -> pr s' r = pr s r) /\ (forall a b t, ch s' a b t = ch s a b t) /\ after l br s' KQ.
  Proof.
    induction d as [|d IH]; intros l br Hld Hal Hl Hb Hx s Hst Hch.
    - assert (l = m) as -> by lia.
      assert (Hbr : 0 <= br < P) by (unfold lft in Hx; rewrite wd_m in Hx; lia).
      exists 0%nat, s, (kk br). rewrite rep_leaf by exact Hbr.
      split; [apply run_nil|]. split; [|split; [reflexivity|split; [reflexivity|]]].
      + rewrite Hst by (apply Sub_leaf; lia). rewrite V_leaf. reflexivity.
      + split.
        * intros _ s2 v Hq _ _. exists 0%nat, s2. split; [apply run_nil|]. split; [|split; reflexivity].
          intros r Hr. apply Sub_leaf in Hr. destruct Hr as [-> _]. rewrite rep_leaf in Hq by exact Hbr. exact Hq.
        * intros _. split; [intros v; rewrite rep_leaf by exact Hbr; reflexivity|]. intros r Hr Hne. apply Sub_leaf in Hr. rewrite rep_leaf in Hne by exact Hbr. lia.
    - assert (Hlm : 0 <= l < m) by lia. assert (Hal' : al <= l) by (destruct Hal; [discriminate|assumption]).
      pose proof (wd_pos (l + 1) ltac:(lia)) as Hw.
      pose proof (br_lt l br ltac:(lia) Hb Hx) as Hb2.
      pose proof (child_bound l br Hlm ltac:(lia)) as Hcb.
      assert (Hfu : S (Z.to_nat (l + 1)) = S (S (Z.to_nat l))) by lia.
      destruct (IH (l + 1) (2 * br)) with (s := s) as [n1 [s1 [K1 [Hrun1 [Hq1 [Hpo1 [Hc1 Ha1]]]]]]]; try lia.
      { rewrite lft_child0 by lia. exact Hx. }
      { intros r Hr. apply Hst. apply (Sub_children l br r Hlm). left. exact Hr. }
      { intros a b t Ha Hb'. apply Hch; apply (Sub_children l br _ Hlm); left; assumption. }
      rewrite Hfu in Hq1.
      destruct (lft (l + 1) (2 * br + 1) <? P) eqn:Eex.
      + (* both children exist *)
        assert (Hex : lft (l + 1) (2 * br + 1) < P) by lia.
        destruct (IH (l + 1) (2 * br + 1)) with (s := s1) as [n2 [s2 [K2 [Hrun2 [Hq2 [Hpo2 [Hc2 Ha2]]]]]]]; try lia.
        { intros r Hr. rewrite Hpo1 by (intros Hx'; eapply (Sub_disjoint l br r); eauto).
          apply Hst. apply (Sub_children l br r Hlm). right. exact Hr. }
        { intros a b t Ha Hb'. rewrite Hc1. apply Hch; apply (Sub_children l br _ Hlm); right; assumption. }
        rewrite Hfu in Hq2.
        assert (Hr0 : Sub (l + 1) (2 * br) (rep (l + 1) (2 * br))) by (apply rep_range; try lia; rewrite lft_child0 by lia; exact Hx).
        assert (Hq1' : pr s2 (rep (l + 1) (2 * br)) = RG (S (S (Z.to_nat l))) (l + 1) (2 * br) (V (l + 1) (2 * br)) K1).
        { rewrite Hpo2 by (intros Hx'; eapply (Sub_disjoint l br); eauto). exact Hq1. }
        assert (Ha1' : after (l + 1) (2 * br) s2 K1).
        { eapply after_frame; [|exact Ha1]. intros r Hr _. apply Hpo2. intros Hx'. eapply (Sub_disjoint l br r); eauto. }
        assert (Hch2 : Subch l br s2) by (intros a b t Ha Hb'; rewrite Hc2, Hc1; apply Hch; assumption).
        pose proof (rep_parent l br Hlm ltac:(lia)) as Hpar.
        destruct (target <? lft (l + 1) (2 * br + 1)) eqn:Etg.
        * destruct (join (Z.to_nat l) l br (2 * br) (2 * br + 1) s2 K1 K2) as [n3 [s3 [KQ [Hrun3 [Hq3 [Hpo3 [Hc3 Ha3]]]]]]]; auto.
          exists (n1 + n2 + n3)%nat, s3, KQ. split; [eapply run_app; [eapply run_app; eauto|eauto]|].
          split; [exact Hq3|]. split; [|split; [|exact Ha3]].
          -- intros r Hr. rewrite Hpo3 by exact Hr. rewrite Hpo2, Hpo1; [reflexivity| |];
               intros Hx'; apply Hr; apply (Sub_children l br r Hlm); tauto.
          -- intros a b t. rewrite Hc3, Hc2, Hc1. reflexivity.
        * destruct (join (Z.to_nat l) l br (2 * br + 1) (2 * br) s2 K2 K1) as [n3 [s3 [KQ [Hrun3 [Hq3 [Hpo3 [Hc3 Ha3]]]]]]]; auto.
          exists (n1 + n2 + n3)%nat, s3, KQ. split; [eapply run_app; [eapply run_app; eauto|eauto]|].
          split; [exact Hq3|]. split; [|split; [|exact Ha3]].
          -- intros r Hr. rewrite Hpo3 by exact Hr. rewrite Hpo2, Hpo1; [reflexivity| |];
               intros Hx'; apply Hr; apply (Sub_children l br r Hlm); tauto.
          -- intros a b t. rewrite Hc3, Hc2, Hc1. reflexivity.
      + (* the right child does not exist *)
        assert (Hnex : P <= lft (l + 1) (2 * br + 1)) by lia.
        assert (Hrp : rep l br = rep (l + 1) (2 * br)).
        { rewrite (rep_parent l br Hlm) by lia. replace (target <? lft (l + 1) (2 * br + 1)) with true by lia. reflexivity. }
        assert (Hsame : forall r, Sub l br r <-> Sub (l + 1) (2 * br) r).
        { intros r. rewrite (Sub_children l br r Hlm). split; [|tauto]. intros [H|H]; [exact H|]. unfold Sub in H. lia. }
        rewrite rg_step in Hq1 by lia. rewrite lxor1_even in Hq1 by lia.
        replace (2 * br / 2) with br in Hq1 by lia. rewrite <- Hrp in Hq1. rewrite Z.eqb_refl in Hq1.
        rewrite (rep_exists (l + 1) (2 * br + 1)) in Hq1 by lia. rewrite Eex in Hq1.
        assert (HV : V l br = V (l + 1) (2 * br)) by (rewrite (V_step l br Hlm), Eex; reflexivity).
        rewrite <- HV in Hq1.
        eexists n1, s1, _. split; [exact Hrun1|]. split; [exact Hq1|]. split; [|split; [exact Hc1|]].
        * intros r Hr. apply Hpo1. intros Hx'. apply Hr. apply Hsame. exact Hx'.
        * destruct Ha1 as [Hat Haf]. unfold after, downcap. rewrite Hrp. split.
          -- intros Hda. rewrite Hda. cbn [andb]. intros s2 v Hq2 Hoth2 Hch2.
             destruct (Hat Hda s2 v Hq2) as [n3 [s3 [Hrun3 [Hp3 [Hpo3 Hc3]]]]].
             { intros r Hr Hne. apply Hoth2; [apply Hsame; exact Hr|exact Hne]. }
             { intros a b t Ha Hb'. apply Hch2; apply Hsame; assumption. }
             exists n3, s3. split; [exact Hrun3|]. split; [|split; [|exact Hc3]].
             ++ intros r Hr. apply Hp3. apply Hsame. exact Hr.
             ++ intros r Hr. apply Hpo3. intros Hx'. apply Hr. apply Hsame. exact Hx'.
          -- intros Hda. destruct (Haf Hda) as [HK Ho]. split.
             ++ intros v. rewrite Hda. cbn [andb]. apply HK.
             ++ intros r Hr Hne. apply Ho; [apply Hsame; exact Hr|exact Hne].
  Qed.

  (* ---- nodes of one level ---- *)
  Lemma rep_in_node l br : 0 <= l <= m -> 0 <= br < 2 ^ l -> lft l br <= rep l br < lft l br + wd l.
  Proof.
    intros Hl Hb. pose proof (wd_pos l ltac:(lia)). rewrite rep_clamp by lia. unfold clamp.
    destruct (target <? lft l br) eqn:E1; [lia|]. destruct (lft l br + wd l <=? target) eqn:E2; lia.
  Qed.
  Lemma node_inj l i j r : l <= m -> lft l i <= r < lft l i + wd l -> lft l j <= r < lft l j + wd l -> i = j.
  Proof. intros Hl. pose proof (wd_pos l Hl). unfold lft. nia. Qed.
  Lemma rep_inj l i j : 0 <= l <= m -> 0 <= i < 2 ^ l -> 0 <= j < 2 ^ l -> rep l i = rep l j -> i = j.
  Proof.
    intros Hl Hi Hj E. pose proof (rep_in_node l i Hl Hi). pose proof (rep_in_node l j Hl Hj). rewrite E in *.
    eapply node_inj; eauto. lia.
  Qed.
  Lemma Sub_inj l i j r : l <= m -> Sub l i r -> Sub l j r -> i = j.
  Proof. intros Hl [H1 _] [H2 _]. eapply node_inj; eauto. Qed.

  Definition nodes (l : Z) : list Z := map Z.of_nat (seq 0 (Z.to_nat (2 ^ l))).
  Lemma In_nodes l i : 0 <= l -> (In i (nodes l) <-> 0 <= i < 2 ^ l).
  Proof.
    intros Hl. assert (0 < 2 ^ l) by (apply pow2_pos; lia). unfold nodes. rewrite in_map_iff. split.
    - intros [k [<- Hk]]. apply in_seq in Hk. lia.
    - intros Hi. exists (Z.to_nat i). split; [lia|]. apply in_seq. lia.
  Qed.
  Lemma NoDup_nodes l : NoDup (nodes l).
  Proof. unfold nodes. apply FinFun.Injective_map_NoDup; [|apply seq_NoDup]. intros x y H. lia. Qed.

  (* ---- the combination loops of the all-to-all stage compute the tree ---- *)
  Lemma inner_spec l shift : 0 <= shift -> forall is sl, NoDup is ->
    (forall i, In i is ->
       a2a_inner P m target is l shift sl (2 * i * 2 ^ shift) =
         if rep (l + 1) (2 * i + 1) <? P then sym_f (sl ((2 * i + 1) * 2 ^ shift)) (sl (2 * i * 2 ^ shift)) else sl (2 * i * 2 ^ shift)) /\
    (forall x, (forall i, In i is -> x <> 2 * i * 2 ^ shift) -> a2a_inner P m target is l shift sl x = sl x).
  Proof.
    intros Hs. assert (Hp : 0 < 2 ^ shift) by (apply pow2_pos; lia).
    induction is as [|i rest IH]; intros sl Hnd; cbn [a2a_inner]; [split; [intros ? []|reflexivity]|].
    inversion Hnd as [|? ? Hnot Hnd']; subst. fold (rep (l + 1) (2 * i + 1)).
    set (sl1 := if rep (l + 1) (2 * i + 1) <? P then supd sl (2 * i * 2 ^ shift) (sym_f (sl ((2 * i + 1) * 2 ^ shift)) (sl (2 * i * 2 ^ shift))) else sl).
    destruct (IH sl1 Hnd') as [IH1 IH2].
    assert (Hsl1 : forall x, x <> 2 * i * 2 ^ shift -> sl1 x = sl x).
    { intros x Hx. unfold sl1. destruct (rep (l + 1) (2 * i + 1) <? P); [|reflexivity]. unfold supd.
      destruct (x =? 2 * i * 2 ^ shift) eqn:E; [lia|reflexivity]. }
    split.
    - intros j [<-|Hj].
      + rewrite IH2 by (intros i' Hi' E; apply Hnot; assert (i = i') by nia; subst; exact Hi').
        unfold sl1. destruct (rep (l + 1) (2 * i + 1) <? P); [|reflexivity]. unfold supd. rewrite Z.eqb_refl. reflexivity.
      + rewrite IH1 by exact Hj. assert (i <> j) by (intros ->; contradiction).
        rewrite !Hsl1 by nia. reflexivity.
    - intros x Hx. rewrite IH2 by (intros i' Hi'; apply Hx; right; exact Hi'). apply Hsl1. apply Hx. left. reflexivity.
  Qed.

  Lemma outer_spec : forall n l shift sl, l = Z.of_nat n - 1 -> 0 <= shift -> l + 1 <= m ->
    (forall j, 0 <= j < 2 ^ (l + 1) -> lft (l + 1) j < P -> sl (j * 2 ^ shift) = V (l + 1) j) ->
    a2a_outer P m target n l shift sl 0 = V 0 0.
  Proof.
    induction n as [|n IH]; intros l shift sl Hl Hs Hlm Hsl; cbn [a2a_outer].
    - assert (l + 1 = 0) as E by lia. rewrite E in Hsl. rewrite <- (Hsl 0); [f_equal; lia|lia|unfold lft; lia].
    - assert (Hl0 : 0 <= l < m) by lia.
      apply IH; try lia. replace (l - 1 + 1) with l by lia. intros j Hj Hx.
      assert (Hp : 0 < 2 ^ shift) by (apply pow2_pos; lia).
      replace (j * 2 ^ (shift + 1)) with (2 * j * 2 ^ shift) by (rewrite Z.pow_add_r by lia; change (2 ^ 1) with 2; ring).
      destruct (inner_spec l shift Hs (nodes l) sl (NoDup_nodes l)) as [H1 _]. fold (nodes l).
      rewrite H1 by (apply In_nodes; lia).
      pose proof (child_bound l j Hl0 Hj) as Hcb.
      rewrite (rep_exists (l + 1) (2 * j + 1)) by lia. rewrite (V_step l j Hl0).
      rewrite (Hsl (2 * j)) by (try lia; rewrite lft_child0 by lia; exact Hx).
      destruct (lft (l + 1) (2 * j + 1) <? P) eqn:E; [|reflexivity].
      rewrite (Hsl (2 * j + 1)) by lia. reflexivity.
  Qed.

  (* ---- the receive loop of the all-to-all stage (posting loop without sends) -------------------------- *)
  Lemma run_a2a_post L me data k : 0 <= L <= m -> forall is sl s, NoDup is -> (forall i, In i is -> 0 <= i < 2 ^ L) ->
    pr s me = a2a_post P m false target is L me data sl k ->
    (forall i, In i is -> rep L i <> me -> rep L i < P -> ch s (rep L i) me tag = [V L i]) ->
    exists n s' sl', run n s s' /\ pr s' me = k sl' /\
      (forall j, In j is -> sl' j = if rep L j =? me then data else if rep L j <? P then V L j else sl j) /\
      (forall j, ~ In j is -> sl' j = sl j) /\
      (forall r, r <> me -> pr s' r = pr s r) /\
      (forall i, In i is -> rep L i <> me -> rep L i < P -> ch s' (rep L i) me tag = []) /\
      (forall a b t, ~ (b = me /\ t = tag /\ exists i, In i is /\ a = rep L i /\ a <> me /\ a < P) -> ch s' a b t = ch s a b t).
  Proof.
    intros HL. induction is as [|i rest IH]; intros sl s Hnd Hin Hp Hch.
    - exists 0%nat, s, sl. cbn [a2a_post] in Hp. split; [apply run_nil|]. split; [exact Hp|].
      repeat split; try reflexivity; intros; contradiction.
    - inversion Hnd as [|? ? Hnot Hnd']; subst. cbn [a2a_post] in Hp. fold (rep L i) in Hp.
      assert (Hi : 0 <= i < 2 ^ L) by (apply Hin; left; reflexivity).
      assert (Hin' : forall j, In j rest -> 0 <= j < 2 ^ L) by (intros j Hj; apply Hin; right; exact Hj).
      destruct (rep L i =? me) eqn:E1.
      + destruct (IH (supd sl i data) s Hnd' Hin' Hp) as [n [s' [sl' [Hrun [Hp' [Hs1 [Hs2 [Hpo [Hc1 Hc2]]]]]]]]].
        { intros j Hj. apply Hch. right. exact Hj. }
        exists n, s', sl'. split; [exact Hrun|]. split; [exact Hp'|]. split; [|split; [|split; [exact Hpo|split]]].
        * intros j [<-|Hj].
          -- rewrite Hs2 by exact Hnot. rewrite E1. unfold supd. rewrite Z.eqb_refl. reflexivity.
          -- rewrite Hs1 by exact Hj. unfold supd. destruct (j =? i) eqn:E; [assert (j = i) by lia; subst; contradiction|reflexivity].
        * intros j Hj. rewrite Hs2 by (intros Hx; apply Hj; right; exact Hx). unfold supd.
          destruct (j =? i) eqn:E; [exfalso; apply Hj; left; lia|reflexivity].
        * intros j [<-|Hj] Hne Hlt; [lia|]. apply Hc1; assumption.
        * intros a b t Hn. apply Hc2. intros [Hb [Htg [j [Hj Hrest]]]]. apply Hn. split; [exact Hb|]. split; [exact Htg|].
          exists j. split; [right; exact Hj|exact Hrest].
      + destruct (rep L i <? P) eqn:E2.
        * pose proof (rep_in_node L i HL Hi) as Hnode. pose proof (wd_pos L ltac:(lia)) as Hw.
          assert (Hri : 0 <= rep L i) by (unfold lft in Hnode; nia).
          destruct (run_recv1 _ _ _ _ _ _ _ Hp Hri (Hch i (or_introl eq_refl) ltac:(lia) ltac:(lia)))
            as [s1 [Hrun1 [Hp1 [Hpo1 [Hc1 Hco1]]]]].
          cbv beta in Hp1.
          destruct (IH (supd sl i (V L i)) s1 Hnd' Hin' Hp1) as [n [s' [sl' [Hrun [Hp' [Hs1 [Hs2 [Hpo [Hc1' Hc2]]]]]]]]].
          { intros j Hj Hne Hlt. rewrite Hco1; [apply Hch; [right; exact Hj|exact Hne|exact Hlt]|].
            intros E. injection E as E. apply Hnot. rewrite <- (rep_inj L j i HL (Hin' j Hj) Hi E). exact Hj. }
          exists (1 + n)%nat, s', sl'. split; [eapply run_app; eauto|]. split; [exact Hp'|].
          split; [|split; [|split; [|split]]].
          -- intros j [<-|Hj].
             ++ rewrite Hs2 by exact Hnot. rewrite E1, E2. unfold supd. rewrite Z.eqb_refl. reflexivity.
             ++ rewrite Hs1 by exact Hj. unfold supd. destruct (j =? i) eqn:E; [assert (j = i) by lia; subst; contradiction|reflexivity].
          -- intros j Hj. rewrite Hs2 by (intros Hx; apply Hj; right; exact Hx). unfold supd.
             destruct (j =? i) eqn:E; [exfalso; apply Hj; left; lia|reflexivity].
          -- intros r Hr. rewrite Hpo by exact Hr. apply Hpo1. exact Hr.
          -- intros j [<-|Hj] Hne Hlt; [|apply Hc1'; assumption].
             rewrite Hc2; [exact Hc1|]. intros [_ [_ [j [Hj [E _]]]]]. apply Hnot.
             rewrite (rep_inj L i j HL Hi (Hin' j Hj) E). exact Hj.
          -- intros a b t Hn. rewrite Hc2.
             ++ apply Hco1. intros E. injection E as -> -> ->. apply Hn. split; [reflexivity|]. split; [reflexivity|].
                exists i. split; [left; reflexivity|]. split; [reflexivity|]. lia.
             ++ intros [Hb [Htg [j [Hj Hrest]]]]. apply Hn. split; [exact Hb|]. split; [exact Htg|].
                exists j. split; [right; exact Hj|exact Hrest].
        * destruct (IH sl s Hnd' Hin' Hp) as [n [s' [sl' [Hrun [Hp' [Hs1 [Hs2 [Hpo [Hc1 Hc2]]]]]]]]].
          { intros j Hj. apply Hch. right. exact Hj. }
          exists n, s', sl'. split; [exact Hrun|]. split; [exact Hp'|]. split; [|split; [|split; [exact Hpo|split]]].
          -- intros j [<-|Hj]; [rewrite Hs2 by exact Hnot; rewrite E1, E2; reflexivity|apply Hs1; exact Hj].
          -- intros j Hj. apply Hs2. intros Hx. apply Hj. right. exact Hx.
          -- intros j [<-|Hj] Hne Hlt; [lia|]. apply Hc1; assumption.
          -- intros a b t Hn. apply Hc2. intros [Hb [Htg [j [Hj Hrest]]]]. apply Hn. split; [exact Hb|]. split; [exact Htg|].
             exists j. split; [right; exact Hj|exact Hrest].
  Qed.

  (* ---- all subtrees below one level ---- *)
  Lemma forest L : 0 <= L <= m -> (L = m \/ al <= L) -> forall ns, NoDup ns -> (forall i, In i ns -> 0 <= i /\ lft L i < P) ->
    forall s, (forall i r, In i ns -> Sub L i r -> pr s r = start r) -> (forall a b t, ch s a b t = []) ->
    exists n s' (KQ : Z -> payload -> prog), run n s s' /\
      (forall i, In i ns -> pr s' (rep L i) = RG (S (Z.to_nat L)) L i (V L i) (KQ i) /\ after L i s' (KQ i)) /\
      (forall r, (forall i, In i ns -> ~ Sub L i r) -> pr s' r = pr s r) /\ (forall a b t, ch s' a b t = []).
  Proof.
    intros HL Hal. induction ns as [|i ns IH]; intros Hnd Hex s Hst Hch.
    - exists 0%nat, s, (fun _ v => Ret v). split; [apply run_nil|]. split; [intros ? []|]. split; [reflexivity|exact Hch].
    - inversion Hnd as [|? ? Hnot Hnd']; subst.
      destruct (IH Hnd') with (s := s) as [n1 [s1 [KQ1 [Hrun1 [Hq1 [Hpo1 Hc1]]]]]].
      { intros j Hj. apply Hex. right. exact Hj. }
      { intros j r Hj Hr. apply (Hst j r); [right; exact Hj|exact Hr]. }
      { exact Hch. }
      destruct (Hex i (or_introl eq_refl)) as [Hi0 Hix].
      destruct (up (Z.to_nat (m - L)) L i) with (s := s1) as [n2 [s2 [K [Hrun2 [Hq2 [Hpo2 [Hc2 Ha2]]]]]]]; try lia.
      { intros r Hr. rewrite Hpo1.
        - apply (Hst i r); [left; reflexivity|exact Hr].
        - intros j Hj Hx. apply Hnot. rewrite (Sub_inj L i j r ltac:(lia) Hr Hx). exact Hj. }
      { intros a b t _ _. apply Hc1. }
      exists (n1 + n2)%nat, s2, (fun j => if j =? i then K else KQ1 j).
      split; [eapply run_app; eauto|]. split; [|split].
      + intros j [<-|Hj].
        * rewrite Z.eqb_refl. split; [exact Hq2|exact Ha2].
        * assert (Hji : j <> i) by (intros ->; contradiction).
          replace (j =? i) with false by lia. destruct (Hq1 j Hj) as [Hp Ha].
          destruct (Hex j (or_intror Hj)) as [Hj0 Hjx].
          assert (Hns : forall r, Sub L j r -> ~ Sub L i r).
          { intros r Hr Hx. apply Hji. eapply Sub_inj; eauto. lia. }
          split.
          -- rewrite Hpo2; [exact Hp|]. apply Hns. apply rep_range; lia.
          -- eapply after_frame; [|exact Ha]. intros r Hr _. apply Hpo2. apply Hns. exact Hr.
      + intros r Hr. rewrite Hpo2 by (apply Hr; left; reflexivity). apply Hpo1. intros j Hj. apply Hr. right. exact Hj.
      + intros a b t. rewrite Hc2. apply Hc1.
  Qed.

  Lemma node_of L r : 0 <= L <= m -> 0 <= r < P -> 0 <= r / wd L /\ Sub L (r / wd L) r.
  Proof.
    intros HL Hr. pose proof (wd_pos L ltac:(lia)) as Hw.
    pose proof (Z.div_mod r (wd L) ltac:(lia)) as H1. pose proof (Z.mod_pos_bound r (wd L) Hw) as H2.
    pose proof (Z.div_pos r (wd L) ltac:(lia) Hw) as H3.
    unfold Sub, lft. generalize dependent (r / wd L). generalize dependent (r mod wd L). intros. split; [|split]; lia.
  Qed.
  Lemma rep_div L i : 0 <= L <= m -> 0 <= i < 2 ^ L -> rep L i / wd L = i.
  Proof.
    intros HL Hi. pose proof (rep_in_node L i HL Hi) as H. pose proof (wd_pos L ltac:(lia)) as Hw. unfold lft in H.
    symmetry. apply (Z.div_unique (rep L i) (wd L) i (rep L i - i * wd L)); lia.
  Qed.

  Lemma al_pos : 1 <= al.  Proof. discriminate. Qed.

  Lemma rg_a2a fu L i data k : 1 <= L <= al -> RG (S fu) L i data k = A2A L i data k.
  Proof. intros HL. cbn [rec_gen]. replace (L =? 0) with false by lia. replace (L <=? al) with true by lia. reflexivity. Qed.

  Lemma NoDup_map_in {A B} (f : A -> B) (l : list A) :
    (forall x y, In x l -> In y l -> f x = f y -> x = y) -> NoDup l -> NoDup (map f l).
  Proof.
    induction l as [|a l IH]; intros Hinj Hnd; cbn [map]; [constructor|].
    inversion Hnd as [|? ? Hnot Hnd']; subst. constructor.
    - intros Hin. apply in_map_iff in Hin. destruct Hin as [x [E Hx]]. apply Hnot.
      rewrite <- (Hinj x a (or_intror Hx) (or_introl eq_refl) E). exact Hx.
    - apply IH; [|exact Hnd']. intros x y Hx Hy. apply Hinj; right; assumption.
  Qed.

  (* ---- sc_reduce: the whole system ------------------------------------------------------------------------ *)
  Theorem reduce_sched : da = false -> (forall l b d k, A2A l b d k = a2a_prog P m false target l b d k) ->
    forall s0, (forall r, 0 <= r < P -> pr s0 r = start r) ->
    (forall a b t, ch s0 a b t = []) ->
    exists n f, run n s0 f /\ pr f target = kk target (V 0 0) /\
      (forall r, 0 <= r < P -> r <> target -> exists o, pr f r = kk r o) /\
      (forall r, ~ 0 <= r < P -> pr f r = pr s0 r) /\ (forall a b t, ch f a b t = []).
  Proof.
    intros Hda HA s0 Hst Hch.
    destruct (Z.eq_dec m 0) as [Hm0|Hm0].
    - (* one rank *)
      assert (P = 1) by (rewrite Hm0 in HP; change (2 ^ 0) with 1 in HP; lia). assert (target = 0) by lia.
      exists 0%nat, s0. split; [apply run_nil|].
      assert (Hz : pr s0 0 = kk 0 (V 0 0)).
      { rewrite Hst by lia. unfold start, V. rewrite Hm0. reflexivity. }
      split; [replace target with 0 by lia; exact Hz|]. split; [intros r Hr Hne; lia|]. split; [reflexivity|exact Hch].
    - pose proof al_pos as Hal1.
      set (L := Z.min m al). assert (HL : 1 <= L <= al /\ L <= m /\ (L = m \/ al <= L)) by lia.
      destruct HL as [HL1 [HL2 HL3]].
      pose proof (wd_pos L ltac:(lia)) as Hw.
      set (ns := filter (fun i => lft L i <? P) (nodes L)).
      assert (Hns : forall i, In i ns <-> 0 <= i < 2 ^ L /\ lft L i < P).
      { intros i. unfold ns. rewrite filter_In, In_nodes by lia. lia. }
      assert (Hnsd : NoDup ns) by (apply NoDup_filter, NoDup_nodes).
      assert (Hnode : forall r, 0 <= r < P -> In (r / wd L) ns /\ Sub L (r / wd L) r).
      { intros r Hr. destruct (node_of L r ltac:(lia) Hr) as [H0 HS]. split; [|exact HS]. apply Hns.
        assert (lft L (r / wd L) < P) by (destruct HS as [[? ?] ?]; lia).
        split; [|assumption]. split; [exact H0|]. apply br_lt; try lia. }
      destruct (forest L ltac:(lia) HL3 ns Hnsd) with (s := s0) as [n1 [s1 [KQ [Hrun1 [Hq1 [Hpo1 Hc1]]]]]].
      { intros i Hi. apply Hns in Hi. lia. }
      { intros i r Hi Hr. apply Hst. split; [|apply Hr]. apply (Sub_nonneg L i r); [lia| |exact Hr]. apply Hns in Hi. lia. }
      { exact Hch. }
      (* the node of the target *)
      set (it := target / wd L).
      destruct (Hnode target Ht) as [Hit HSit]. fold it in Hit, HSit.
      assert (Hit' : 0 <= it < 2 ^ L) by (apply Hns in Hit; lia).
      assert (Hrt : rep L it = target) by (apply rep_target; try lia; apply HSit).
      assert (HKQ : forall i v, In i ns -> KQ i v = kk (rep L i) v).
      { intros i v Hi. destruct (Hq1 i Hi) as [_ [_ Haf]]. apply (Haf Hda). }
      assert (Hprog : forall i, In i ns -> pr s1 (rep L i) =
                if target =? rep L i then
                  a2a_post P m false target (nodes L) L (rep L i) (V L i) (fun _ => [])
                           (fun sl => KQ i (a2a_outer P m target (Z.to_nat L) (L - 1) 0 sl 0))
                else send target tag (V L i) (KQ i (V L i))).
      { intros i Hi. destruct (Hq1 i Hi) as [Hp _]. rewrite Hp, rg_a2a, HA by lia. reflexivity. }
      (* everybody but the target sends *)
      set (snd_nodes := filter (fun i => negb (i =? it)) ns).
      assert (Hsn : forall i, In i snd_nodes <-> In i ns /\ i <> it) by (intros i; unfold snd_nodes; rewrite filter_In; split; intros [H1 H2]; (split; [exact H1|lia])).
      set (rs := map (rep L) snd_nodes).
      assert (Hrs : forall r, In r rs <-> exists i, In i ns /\ i <> it /\ r = rep L i).
      { intros r. unfold rs. rewrite in_map_iff. split.
        - intros [i [<- Hi]]. apply Hsn in Hi. exists i. tauto.
        - intros [i [H1 [H2 ->]]]. exists i. split; [reflexivity|]. apply Hsn. tauto. }
      assert (Hrsd : NoDup rs).
      { apply NoDup_map_in; [|apply NoDup_filter; exact Hnsd]. intros x y Hx Hy E. apply Hsn in Hx, Hy.
        destruct Hx as [Hx _], Hy as [Hy _]. apply Hns in Hx, Hy. apply (rep_inj L x y); lia. }
      assert (Hne_t : forall i, In i ns -> i <> it -> rep L i <> target).
      { intros i Hi Hne E. apply Hne. apply Hns in Hi. apply (rep_inj L i it); lia. }
      destruct (sends_all (fun r => [(target, tag, V L (r / wd L))]) (fun r => kk r (V L (r / wd L))) rs Hrsd s1)
        as [n2 [s2 [Hrun2 [Hp2 [Hpo2 [Hcs2 Hco2]]]]]].
      { intros r Hr. apply Hrs in Hr. destruct Hr as [i [Hi [Hne ->]]]. rewrite (Hprog i Hi).
        replace (target =? rep L i) with false by (pose proof (Hne_t i Hi Hne); lia).
        rewrite rep_div by (apply Hns in Hi; lia). rewrite HKQ by exact Hi. reflexivity. }
      (* the target receives and combines *)
      assert (Htnr : ~ In target rs).
      { intros Hx. apply Hrs in Hx. destruct Hx as [i [Hi [Hne E]]]. apply (Hne_t i Hi Hne). symmetry. exact E. }
      assert (Hpt : pr s2 target = a2a_post P m false target (nodes L) L target (V L it) (fun _ => [])
                           (fun sl => KQ it (a2a_outer P m target (Z.to_nat L) (L - 1) 0 sl 0))).
      { rewrite Hpo2 by exact Htnr. rewrite <- Hrt at 1. rewrite (Hprog it Hit). rewrite Hrt, Z.eqb_refl. reflexivity. }
      destruct (run_a2a_post L target (V L it) (fun sl => KQ it (a2a_outer P m target (Z.to_nat L) (L - 1) 0 sl 0)) ltac:(lia) (nodes L) (fun _ => []) s2 (NoDup_nodes L)) as
        [n3 [s3 [sl' [Hrun3 [Hp3 [Hs1 [Hs2 [Hpo3 [Hc3 Hco3]]]]]]]]].
      { intros i Hi. apply In_nodes in Hi; lia. }
      { exact Hpt. }
      { intros i Hi Hne Hlt. apply In_nodes in Hi; [|lia].
        assert (Hi' : In i ns) by (apply Hns; split; [exact Hi|]; pose proof (rep_exists L i ltac:(lia) Hi); lia).
        assert (Hii : i <> it) by (intros ->; contradiction).
        rewrite Hcs2 by (apply Hrs; exists i; tauto). rewrite Hc1. cbn [app sent].
        rewrite !Z.eqb_refl. cbn [andb]. rewrite rep_div by lia. reflexivity. }
      assert (Hres : a2a_outer P m target (Z.to_nat L) (L - 1) 0 sl' 0 = V 0 0).
      { apply outer_spec; try lia. replace (L - 1 + 1) with L by lia. intros j Hj Hx.
        change (2 ^ 0) with 1. rewrite Z.mul_1_r. rewrite Hs1 by (apply In_nodes; lia).
        destruct (rep L j =? target) eqn:E.
        - f_equal. symmetry. apply (rep_inj L j it); lia.
        - rewrite rep_exists by lia. replace (lft L j <? P) with true by lia. reflexivity. }
      exists (n1 + n2 + n3)%nat, s3. split; [eapply run_app; [eapply run_app; eauto|eauto]|].
      assert (Hfin_t : pr s3 target = kk target (V 0 0)) by (rewrite Hp3, Hres; rewrite HKQ by exact Hit; rewrite Hrt; reflexivity).
      assert (Hrs_in : forall r, In r rs -> 0 <= r < P).
      { intros r Hr. apply Hrs in Hr. destruct Hr as [i [Hi [_ ->]]]. apply Hns in Hi.
        pose proof (rep_range L i ltac:(lia) ltac:(lia) ltac:(lia)) as HS. split; [|apply HS].
        apply (Sub_nonneg L i _ ltac:(lia) ltac:(lia) HS). }
      split; [exact Hfin_t|]. split; [|split].
      + intros r Hr Hrt'.
        rewrite Hpo3 by exact Hrt'.
        destruct (in_dec Z.eq_dec r rs) as [Hin|Hin]; [rewrite Hp2 by exact Hin; eauto|].
        rewrite Hpo2 by exact Hin.
        destruct (Hnode r Hr) as [Hi HS]. generalize dependent (r / wd L). intros i Hi HS.
        destruct (Hq1 i Hi) as [_ [_ Haf]]. destruct (Haf Hda) as [_ Ho].
        apply Ho; [exact HS|]. intros E. destruct (Z.eq_dec i it) as [E2|E2]; [apply Hrt'; rewrite E, E2; exact Hrt|].
        apply Hin. apply Hrs. exists i. tauto.
      + intros r Hr. rewrite Hpo3 by lia. rewrite Hpo2 by (intros Hx; apply Hr; apply Hrs_in; exact Hx).
        apply Hpo1. intros i Hi HS. apply Hr. split; [|apply HS].
        apply (Sub_nonneg L i r); [lia| |exact HS]. apply Hns in Hi. lia.
      + intros a b t.
        destruct (in_dec Z.eq_dec a rs) as [Hin|Hin].
        * pose proof Hin as Hin'. apply Hrs in Hin'. destruct Hin' as [i [Hi [Hne ->]]].
          pose proof (Hne_t i Hi Hne) as Hnt.
          assert (Hlt : rep L i < P) by (apply Hns in Hi; pose proof (rep_exists L i ltac:(lia) ltac:(lia)); lia).
          destruct ((target =? b) && (tag =? t)) eqn:E.
          -- assert (b = target /\ t = tag) as [-> ->] by lia. apply Hc3; [apply In_nodes; [lia|apply Hns in Hi; lia]|exact Hnt|exact Hlt].
          -- rewrite Hco3.
             ++ rewrite Hcs2 by exact Hin. rewrite Hc1. cbn [app sent]. rewrite E. reflexivity.
             ++ intros [-> [-> _]]. rewrite !Z.eqb_refl in E. discriminate.
        * rewrite Hco3.
          -- rewrite Hco2 by exact Hin. apply Hc1.
          -- intros [_ [_ [i [Hi [-> [Hne Hlt]]]]]]. apply Hin. apply Hrs. apply In_nodes in Hi; [|lia]. exists i.
             split; [apply Hns; split; [exact Hi|]; pose proof (rep_exists L i ltac:(lia) Hi); lia|].
             split; [|reflexivity]. intros ->. contradiction.
  Qed.

  (* ---- sc_allreduce: the all-to-all window in canonical window order (all sends, then the receives) ------ *)
  Definition a2a_dests (L me : Z) : list Z := filter (fun i => negb (rep L i =? me) && (rep L i <? P)) (nodes L).
  Definition a2a_sends (L me : Z) (data : payload) : list (Z * Z * payload) :=
    map (fun i => (rep L i, tag, data)) (a2a_dests L me).
  Definition a2a_prog_w (level branch : Z) (data : payload) (k : payload -> prog) : prog :=
    do_sends (a2a_sends level (rep level branch) data)
      (a2a_post P m false target (nodes level) level (rep level branch) data (fun _ => [])
         (fun sl => k (a2a_outer P m target (Z.to_nat level) (level - 1) 0 sl 0))).

  Lemma In_dests L me i : 0 <= L -> (In i (a2a_dests L me) <-> 0 <= i < 2 ^ L /\ rep L i <> me /\ rep L i < P).
  Proof. intros HL. unfold a2a_dests. rewrite filter_In, In_nodes by exact HL. lia. Qed.

  Lemma sends_keys L me data : 0 <= L <= m -> NoDup (map skey (a2a_sends L me data)).
  Proof.
    intros HL. unfold a2a_sends. rewrite map_map. unfold skey. cbn [fst snd].
    apply NoDup_map_in; [|apply NoDup_filter, NoDup_nodes].
    intros x y Hx Hy E. apply In_dests in Hx, Hy; try lia. injection E as E. apply (rep_inj L x y); lia.
  Qed.

  (* which channels hold a message after the sends of the window, as long as the receivers ms have not received *)
  Definition expect (L : Z) (ms : list Z) (a b t : Z) : bool :=
    (t =? tag) && existsb (fun i => b =? rep L i) ms &&
    existsb (fun j => (a =? rep L j) && negb (rep L j =? b) && (rep L j <? P)) (nodes L).

  Lemma expect_true L ms a b t : expect L ms a b t = true <->
    t = tag /\ (exists i, In i ms /\ b = rep L i) /\ (exists j, In j (nodes L) /\ a = rep L j /\ a <> b /\ a < P).
  Proof.
    unfold expect. rewrite !andb_true_iff, !existsb_exists. split.
    - intros [[H1 [i [Hi H2]]] [j [Hj H3]]]. split; [lia|]. split; [exists i; split; [exact Hi|lia]|].
      exists j. split; [exact Hj|]. lia.
    - intros [H1 [[i [Hi H2]] [j [Hj H3]]]]. split; [split; [lia|exists i; split; [exact Hi|lia]]|].
      exists j. split; [exact Hj|]. lia.
  Qed.

  Definition chan_inv (L : Z) (ms : list Z) (s : gs) : Prop :=
    forall a b t, ch s a b t = if expect L ms a b t then [V L (a / wd L)] else [].

  (* stage 2: the representatives ms run their receive loops one after the other *)
  Lemma recv_stage L (K : Z -> slotsT -> prog) : 0 <= L <= m -> forall ms, NoDup ms ->
    (forall i, In i ms -> 0 <= i < 2 ^ L /\ lft L i < P) -> forall s,
    (forall i, In i ms -> pr s (rep L i) = a2a_post P m false target (nodes L) L (rep L i) (V L i) (fun _ => []) (K i)) ->
    chan_inv L ms s ->
    exists n s', run n s s' /\
      (forall i, In i ms -> exists sl', pr s' (rep L i) = K i sl' /\ forall j, 0 <= j < 2 ^ L -> lft L j < P -> sl' j = V L j) /\
      (forall r, (forall i, In i ms -> r <> rep L i) -> pr s' r = pr s r) /\
      (forall a b t, ch s' a b t = []).
  Proof.
    intros HL. induction ms as [|i ms IH]; intros Hnd Hex s Hp Hinv.
    - exists 0%nat, s. split; [apply run_nil|]. split; [intros ? []|]. split; [reflexivity|].
      intros a b t. rewrite Hinv. unfold expect. cbn [existsb]. rewrite andb_false_r. reflexivity.
    - inversion Hnd as [|? ? Hnot Hnd']; subst.
      destruct (Hex i (or_introl eq_refl)) as [Hi Hix].
      assert (Hri : rep L i < P) by (pose proof (rep_exists L i HL Hi); lia).
      destruct (run_a2a_post L (rep L i) (V L i) (K i) HL (nodes L) (fun _ => []) s (NoDup_nodes L))
        as [n1 [s1 [sl' [Hrun1 [Hp1 [Hs1 [Hs2 [Hpo1 [Hc1 Hco1]]]]]]]]].
      { intros j Hj. apply In_nodes in Hj; lia. }
      { apply Hp. left. reflexivity. }
      { intros j Hj Hne Hlt. rewrite Hinv. replace (expect L (i :: ms) (rep L j) (rep L i) tag) with true.
        - rewrite rep_div by (try exact HL; apply In_nodes in Hj; lia). reflexivity.
        - symmetry. apply expect_true. split; [reflexivity|]. split; [exists i; split; [left|]; reflexivity|].
          exists j. split; [exact Hj|]. split; [reflexivity|]. split; assumption. }
      destruct (IH Hnd') with (s := s1) as [n2 [s2 [Hrun2 [Hq2 [Hpo2 Hc2]]]]].
      { intros j Hj. apply Hex. right. exact Hj. }
      { intros j Hj. rewrite Hpo1; [apply Hp; right; exact Hj|].
        intros E. apply Hnot. destruct (Hex j (or_intror Hj)) as [Hj0 _].
        rewrite <- (rep_inj L j i HL Hj0 Hi E). exact Hj. }
      { intros a b t.
        destruct (expect L (i :: ms) a b t) eqn:E1.
        - pose proof E1 as E1'. apply expect_true in E1'. destruct E1' as [-> [[i' [Hi' ->]] [j [Hj [-> [Hab HaP]]]]]].
          destruct Hi' as [<-|Hi'].
          + rewrite Hc1 by assumption.
            replace (expect L ms (rep L j) (rep L i) tag) with false; [reflexivity|].
            symmetry. apply not_true_is_false. intros E2. apply expect_true in E2. destruct E2 as [_ [[i2 [Hi2 E2]] _]].
            apply Hnot. destruct (Hex i2 (or_intror Hi2)) as [Hi20 _]. rewrite (rep_inj L i i2 HL Hi Hi20 E2). exact Hi2.
          + assert (Hii : rep L i' <> rep L i).
            { intros E. apply Hnot. destruct (Hex i' (or_intror Hi')) as [Hi0 _]. rewrite <- (rep_inj L i' i HL Hi0 Hi E). exact Hi'. }
            rewrite Hco1 by (intros [Hx _]; contradiction). rewrite Hinv, E1.
            replace (expect L ms (rep L j) (rep L i') tag) with true; [reflexivity|].
            symmetry. apply expect_true. split; [reflexivity|]. split; [exists i'; split; [exact Hi'|reflexivity]|].
            exists j. repeat split; assumption.
        - replace (expect L ms a b t) with false.
          + rewrite Hco1; [rewrite Hinv, E1; reflexivity|].
            intros [-> [-> [j [Hj [-> [Hne Hlt]]]]]]. apply not_true_iff_false in E1. apply E1. apply expect_true.
            split; [reflexivity|]. split; [exists i; split; [left|]; reflexivity|]. exists j. repeat split; assumption.
          + symmetry. apply not_true_is_false. intros E2. apply not_true_iff_false in E1. apply E1.
            apply expect_true in E2. destruct E2 as [-> [[i2 [Hi2 ->]] Hj]]. apply expect_true.
            split; [reflexivity|]. split; [exists i2; split; [right; exact Hi2|reflexivity]|exact Hj]. }
      exists (n1 + n2)%nat, s2. split; [eapply run_app; eauto|]. split; [|split; [|exact Hc2]].
      + intros j [<-|Hj]; [|apply Hq2; exact Hj].
        exists sl'. split.
        * rewrite Hpo2; [exact Hp1|]. intros j Hj E. apply Hnot. destruct (Hex j (or_intror Hj)) as [Hj0 _].
          rewrite (rep_inj L i j HL Hi Hj0 E). exact Hj.
        * intros j Hj Hjx. rewrite Hs1 by (apply In_nodes; lia).
          destruct (rep L j =? rep L i) eqn:E.
          -- f_equal. symmetry. apply (rep_inj L j i); lia.
          -- rewrite rep_exists by lia. replace (lft L j <? P) with true by lia. reflexivity.
      + intros r Hr. rewrite Hpo2 by (intros j Hj; apply Hr; right; exact Hj). apply Hpo1. apply Hr. left. reflexivity.
  Qed.

  (* stage 3: the result flows down the subtrees ms *)
  Lemma down_stage L (KQ : Z -> payload -> prog) (sref : gs) v : 0 <= L <= m -> da = true -> forall ms, NoDup ms ->
    (forall i, In i ms -> 0 <= i /\ lft L i < P /\ after L i sref (KQ i)) -> forall s,
    (forall i, In i ms -> pr s (rep L i) = KQ i v) ->
    (forall i r, In i ms -> Sub L i r -> r <> rep L i -> pr s r = pr sref r) ->
    (forall a b t, ch s a b t = []) ->
    exists n s', run n s s' /\ (forall i r, In i ms -> Sub L i r -> pr s' r = kk r v) /\
      (forall r, (forall i, In i ms -> ~ Sub L i r) -> pr s' r = pr s r) /\ (forall a b t, ch s' a b t = []).
  Proof.
    intros HL Hda. induction ms as [|i ms IH]; intros Hnd Hex s Hq Hoth Hch.
    - exists 0%nat, s. split; [apply run_nil|]. split; [intros ? ? []|]. split; [reflexivity|exact Hch].
    - inversion Hnd as [|? ? Hnot Hnd']; subst.
      destruct (Hex i (or_introl eq_refl)) as [Hi0 [Hix Haf]].
      destruct (proj1 Haf Hda s v) as [n1 [s1 [Hrun1 [Hp1 [Hpo1 Hc1]]]]].
      { apply Hq. left. reflexivity. }
      { intros r Hr Hne. apply (Hoth i r); [left; reflexivity|exact Hr|exact Hne]. }
      { intros a b t _ _. apply Hch. }
      assert (Hdis : forall j r, In j ms -> Sub L j r -> ~ Sub L i r).
      { intros j r Hj Hr Hx. apply Hnot. rewrite (Sub_inj L i j r ltac:(lia) Hx Hr). exact Hj. }
      destruct (IH Hnd') with (s := s1) as [n2 [s2 [Hrun2 [Hp2 [Hpo2 Hc2]]]]].
      { intros j Hj. apply Hex. right. exact Hj. }
      { intros j Hj. rewrite Hpo1; [apply Hq; right; exact Hj|]. apply (Hdis j); [exact Hj|].
        destruct (Hex j (or_intror Hj)) as [Hj0 [Hjx _]]. apply rep_range; lia. }
      { intros j r Hj Hr Hne. rewrite Hpo1 by (apply (Hdis j); assumption). apply (Hoth j r); [right; exact Hj|exact Hr|exact Hne]. }
      { intros a b t. rewrite Hc1. apply Hch. }
      exists (n1 + n2)%nat, s2. split; [eapply run_app; eauto|]. split; [|split; [|exact Hc2]].
      + intros j r [<-|Hj] Hr.
        * rewrite Hpo2; [apply Hp1; exact Hr|]. intros j Hj Hx. apply (Hdis j r Hj Hx Hr).
        * apply (Hp2 j r Hj Hr).
      + intros r Hr. rewrite Hpo2 by (intros j Hj; apply Hr; right; exact Hj). apply Hpo1. apply Hr. left. reflexivity.
  Qed.

  (* ---- sc_allreduce (window order in the all-to-all stage): the whole system ---------------------------- *)
  Theorem allreduce_sched : da = true -> (forall l b d k, A2A l b d k = a2a_prog_w l b d k) ->
    forall s0, (forall r, 0 <= r < P -> pr s0 r = start r) ->
    (forall a b t, ch s0 a b t = []) ->
    exists n f, run n s0 f /\ (forall r, 0 <= r < P -> pr f r = kk r (V 0 0)) /\
      (forall r, ~ 0 <= r < P -> pr f r = pr s0 r) /\ (forall a b t, ch f a b t = []).
  Proof.
    intros Hda HA s0 Hst Hch.
    destruct (Z.eq_dec m 0) as [Hm0|Hm0].
    - assert (P = 1) by (rewrite Hm0 in HP; change (2 ^ 0) with 1 in HP; lia).
      exists 0%nat, s0. split; [apply run_nil|]. split; [|split; [reflexivity|exact Hch]].
      intros r Hr. assert (r = 0) as -> by lia. rewrite Hst by lia. unfold start, V. rewrite Hm0. reflexivity.
    - pose proof al_pos as Hal1.
      set (L := Z.min m al). assert (HL : 1 <= L <= al /\ L <= m /\ (L = m \/ al <= L)) by lia.
      destruct HL as [HL1 [HL2 HL3]].
      pose proof (wd_pos L ltac:(lia)) as Hw.
      set (ns := filter (fun i => lft L i <? P) (nodes L)).
      assert (Hns : forall i, In i ns <-> 0 <= i < 2 ^ L /\ lft L i < P).
      { intros i. unfold ns. rewrite filter_In, In_nodes by lia. lia. }
      assert (Hnsd : NoDup ns) by (apply NoDup_filter, NoDup_nodes).
      assert (Hnode : forall r, 0 <= r < P -> In (r / wd L) ns /\ Sub L (r / wd L) r).
      { intros r Hr. destruct (node_of L r ltac:(lia) Hr) as [H0 HS]. split; [|exact HS]. apply Hns.
        assert (lft L (r / wd L) < P) by (destruct HS as [[? ?] ?]; lia).
        split; [|assumption]. split; [exact H0|]. apply br_lt; try lia. }
      destruct (forest L ltac:(lia) HL3 ns Hnsd) with (s := s0) as [n1 [s1 [KQ [Hrun1 [Hq1 [Hpo1 Hc1]]]]]].
      { intros i Hi. apply Hns in Hi. lia. }
      { intros i r Hi Hr. apply Hst. split; [|apply Hr]. apply (Sub_nonneg L i r); [lia| |exact Hr]. apply Hns in Hi. lia. }
      { exact Hch. }
      assert (Hrepx : forall i, In i ns -> rep L i < P).
      { intros i Hi. apply Hns in Hi. pose proof (rep_exists L i ltac:(lia) ltac:(lia)). lia. }
      (* stage 1: the sends of the window *)
      set (rs := map (rep L) ns).
      assert (Hrs : forall r, In r rs <-> exists i, In i ns /\ r = rep L i).
      { intros r. unfold rs. rewrite in_map_iff. split; intros [i [H1 H2]]; exists i; [split; [exact H2|symmetry; exact H1]|split; [symmetry; exact H2|exact H1]]. }
      assert (Hrsd : NoDup rs).
      { apply NoDup_map_in; [|exact Hnsd]. intros x y Hx Hy E. apply Hns in Hx, Hy. apply (rep_inj L x y); lia. }
      set (Kr := fun i sl => KQ i (a2a_outer P m target (Z.to_nat L) (L - 1) 0 sl 0)).
      destruct (sends_all (fun r => a2a_sends L r (V L (r / wd L)))
                          (fun r => a2a_post P m false target (nodes L) L r (V L (r / wd L)) (fun _ => []) (Kr (r / wd L))) rs Hrsd s1)
        as [n2 [s2 [Hrun2 [Hp2 [Hpo2 [Hcs2 Hco2]]]]]].
      { intros r Hr. apply Hrs in Hr. destruct Hr as [i [Hi ->]]. destruct (Hq1 i Hi) as [Hp _].
        rewrite Hp, rg_a2a, HA by lia. rewrite rep_div by (apply Hns in Hi; lia). reflexivity. }
      assert (Hinv2 : chan_inv L ns s2).
      { intros a b t. destruct (in_dec Z.eq_dec a rs) as [Hin|Hin].
        - rewrite Hcs2 by exact Hin. rewrite Hc1. cbn [app].
          apply Hrs in Hin. destruct Hin as [j0 [Hj0 ->]].
          destruct (expect L ns (rep L j0) b t) eqn:E.
          + apply expect_true in E. destruct E as [-> [[i [Hi ->]] [j [Hj [Ej [Hab HaP]]]]]].
            apply sent_one; [apply sends_keys; lia|]. unfold a2a_sends. apply in_map_iff. exists i. split; [reflexivity|].
            apply In_dests; [lia|]. apply Hns in Hi. split; [lia|]. split; [lia|apply Hrepx; apply Hns; exact Hi].
          + apply sent_none. intros msg Hmsg. apply not_true_iff_false in E. apply E. apply expect_true.
            unfold a2a_sends in Hmsg. apply in_map_iff in Hmsg. destruct Hmsg as [i [Ei Hi]]. injection Ei as <- <- _.
            apply In_dests in Hi; [|lia]. split; [reflexivity|]. split.
            * exists i. split; [apply Hns; split; [lia|]; pose proof (rep_exists L i ltac:(lia) ltac:(lia)); lia|reflexivity].
            * exists j0. apply Hns in Hj0. split; [apply In_nodes; lia|]. split; [reflexivity|]. split; [lia|].
              pose proof (rep_exists L j0 ltac:(lia) ltac:(lia)). lia.
        - rewrite Hco2 by exact Hin. rewrite Hc1.
          replace (expect L ns a b t) with false; [reflexivity|]. symmetry. apply not_true_is_false. intros E.
          apply expect_true in E. destruct E as [_ [_ [j [Hj [-> [_ HaP]]]]]]. apply Hin. apply Hrs. exists j.
          split; [|reflexivity]. apply In_nodes in Hj; [|lia]. apply Hns. split; [exact Hj|].
          pose proof (rep_exists L j ltac:(lia) Hj). lia. }
      (* stage 2: the receives of the window and the combination *)
      destruct (recv_stage L Kr ltac:(lia) ns Hnsd) with (s := s2) as [n3 [s3 [Hrun3 [Hq3 [Hpo3 Hc3]]]]].
      { intros i Hi. apply Hns. exact Hi. }
      { intros i Hi. rewrite Hp2 by (apply Hrs; exists i; tauto). rewrite rep_div by (apply Hns in Hi; lia). reflexivity. }
      { exact Hinv2. }
      assert (Hq3' : forall i, In i ns -> pr s3 (rep L i) = KQ i (V 0 0)).
      { intros i Hi. destruct (Hq3 i Hi) as [sl' [Hp Hsl]]. rewrite Hp. unfold Kr. f_equal.
        apply outer_spec; try lia. replace (L - 1 + 1) with L by lia. intros j Hj Hx.
        change (2 ^ 0) with 1. rewrite Z.mul_1_r. apply Hsl; assumption. }
      (* stage 3: the way down *)
      assert (Hnotrep : forall i r, In i ns -> Sub L i r -> r <> rep L i -> forall j, In j ns -> r <> rep L j).
      { intros i r Hi Hr Hne j Hj E. apply Hne. rewrite E. f_equal.
        apply Hns in Hj. assert (Sub L j r) by (rewrite E; apply rep_range; lia). eapply Sub_inj; eauto; lia. }
      destruct (down_stage L KQ s1 (V 0 0) ltac:(lia) Hda ns Hnsd) with (s := s3) as [n4 [s4 [Hrun4 [Hp4 [Hpo4 Hc4]]]]].
      { intros i Hi. destruct (Hq1 i Hi) as [_ Ha]. apply Hns in Hi. split; [lia|]. split; [lia|exact Ha]. }
      { exact Hq3'. }
      { intros i r Hi Hr Hne. rewrite Hpo3 by (intros j Hj; apply (Hnotrep i r Hi Hr Hne j Hj)).
        apply Hpo2. intros Hx. apply Hrs in Hx. destruct Hx as [j [Hj E]]. exact (Hnotrep i r Hi Hr Hne j Hj E). }
      { exact Hc3. }
      exists (n1 + n2 + n3 + n4)%nat, s4.
      split; [eapply run_app; [eapply run_app; [eapply run_app; eauto|eauto]|eauto]|]. split; [|split; [|exact Hc4]].
      + intros r Hr. destruct (Hnode r Hr) as [Hi HS]. apply (Hp4 (r / wd L) r Hi HS).
      + intros r Hr.
        assert (Hnos : forall i, In i ns -> ~ Sub L i r).
        { intros i Hi HS. apply Hr. split; [|apply HS]. apply (Sub_nonneg L i r); [lia| |exact HS]. apply Hns in Hi. lia. }
        assert (Hnor : forall i, In i ns -> r <> rep L i).
        { intros i Hi E. apply (Hnos i Hi). rewrite E. apply Hns in Hi. apply rep_range; lia. }
        rewrite Hpo4 by exact Hnos. rewrite Hpo3 by exact Hnor.
        rewrite Hpo2 by (intros Hx; apply Hrs in Hx; destruct Hx as [i [Hi E]]; exact (Hnor i Hi E)).
        apply Hpo1. exact Hnos.
  Qed.
End Tree.

(* ---- sc_reduce with the per-rank programs of C03/ReduceModel.v ------------------------------------------ *)
From ScV Require Import C03.ReduceProofs.

Definition red_start (P target : Z) : gs :=
  mkgs (fun r => if (0 <=? r) && (r <? P) then reduce_prog P (maxlevel P) false target r else Ret [])
       (fun _ _ _ => []).

Lemma maxlevel_le30 P : 1 <= P <= 2 ^ 30 -> 0 <= maxlevel P <= 30.
Proof.
  intros HP. unfold maxlevel. destruct (P <=? 1) eqn:E; [lia|].
  pose proof (Z.log2_nonneg (P - 1)). assert (Z.log2 (P - 1) < 30) by (apply Z.log2_lt_pow2; lia). lia.
Qed.

Theorem reduce_one_schedule P target : 1 <= P <= 2 ^ 30 -> 0 <= target < P ->
  exists n f, run n (red_start P target) f /\ final f /\ pr f target = Ret (sym_reduce_result P) /\
    (forall a b t, ch f a b t = []).
Proof.
  intros HP Ht. pose proof (maxlevel_le30 P HP) as Hm. pose proof (maxlevel_cover P ltac:(lia)) as [_ Hc].
  destruct (reduce_sched P (maxlevel P) target Hm ltac:(lia) Ht sym_leaf (fun _ d => Ret d) false (a2a_prog P (maxlevel P) false target) eq_refl
                         (fun _ _ _ _ => eq_refl) (red_start P target)) as [n [f [Hrun [Hres [Hoth [Hout Hch]]]]]].
  - intros r Hr. unfold red_start. cbn [pr]. replace ((0 <=? r) && (r <? P)) with true by lia. reflexivity.
  - reflexivity.
  - exists n, f. split; [exact Hrun|]. split; [|split; [|exact Hch]].
    + intros r. destruct (Z.eq_dec r target) as [->|Hne]; [eauto|].
      assert (Hcases : 0 <= r < P \/ ~ 0 <= r < P) by lia. destruct Hcases as [Hr|Hr]; [apply Hoth; assumption|].
      rewrite Hout by exact Hr. unfold red_start. cbn [pr]. replace ((0 <=? r) && (r <? P)) with false by lia. eauto.
    + rewrite Hres. unfold V, sym_reduce_result, reduce_result. rewrite Z.sub_0_r. reflexivity.
Qed.

Theorem reduce_all_schedules P target : 1 <= P <= 2 ^ 30 -> 0 <= target < P ->
  exists n f, run n (red_start P target) f /\ final f /\ pr f target = Ret (sym_reduce_result P) /\
    (forall a b t, ch f a b t = []) /\ terminal_for (red_start P target) f n.
Proof.
  intros HP Ht. destruct (reduce_one_schedule P target HP Ht) as [n [f [Hrun [Hfin [Hres Hch]]]]].
  exists n, f. split; [exact Hrun|]. split; [exact Hfin|]. split; [exact Hres|]. split; [exact Hch|].
  apply one_schedule_all_schedules; assumption.
Qed.

(* ---- symbolic payloads stand for every datatype, operator and input ---------------------------------------
   sym_eval interprets the prefix code (leaf r = [0; r], f s r = 1 :: s ++ r) with a concrete operator f and
   concrete inputs x; the symbolic tree of the model evaluates to the model's value for that f and x. *)
Fixpoint sym_eval {T} (f : T -> T -> T) (x : Z -> T) (fuel : nat) (p : payload) : option (T * payload) :=
  match fuel with
  | O => None
  | S fu =>
    match p with
    | 0 :: r :: rest => Some (x r, rest)
    | 1 :: rest =>
      match sym_eval f x fu rest with
      | Some (a, rest1) => match sym_eval f x fu rest1 with Some (b, rest2) => Some (f a b, rest2) | None => None end
      | None => None
      end
    | _ => None
    end
  end.

Lemma sym_eval_treeval {T} (f : T -> T -> T) (x : Z -> T) P m : forall d fuel br rest, (d < fuel)%nat ->
  sym_eval f x fuel (treeval payload sym_f P m sym_leaf d br ++ rest) = Some (treeval T f P m x d br, rest).
Proof.
  induction d as [|d IH]; intros fuel br rest Hf; (destruct fuel as [|fu]; [lia|]).
  - reflexivity.
  - cbn [treeval]. cbv zeta. destruct (left_end m (m - Z.of_nat (S d) + 1) (2 * br + 1) <? P).
    + unfold sym_f. cbn [app sym_eval]. rewrite <- app_assoc. rewrite IH by lia. rewrite IH by lia. reflexivity.
    + apply IH. lia.
Qed.

Theorem sym_eval_reduce_result {T} (f : T -> T -> T) (x : Z -> T) P :
  sym_eval f x (S (Z.to_nat (maxlevel P))) (sym_reduce_result P) = Some (reduce_result T f P x, []).
Proof.
  unfold sym_reduce_result, reduce_result. rewrite <- (app_nil_r (treeval payload sym_f P _ _ _ _)).
  apply sym_eval_treeval. lia.
Qed.

(* ---- sc_allreduce ------------------------------------------------------------------------------------------
   The per-rank program of C03/ReduceModel.v lists the actions in the order in which the C code POSTS them; in
   the all-to-all stage of sc_allreduce that is  Irecv(peer_0); Isend(peer_0); Irecv(peer_1); Isend(peer_1); ...
   all completed later by Waitall.  MPI/Sem.v reads every Recv as a BLOCKING receive; read that way the literal
   program deadlocks for every P >= 2 (allreduce_posting_order_blocks below).  The schedule theorem is therefore
   stated for the program in canonical window order (allreduce_prog_w: all sends of the window, then its
   receives - the convention of MPI/Prog.v's `phase`, used by the allgather programs), and the relation between
   the two programs is proved: allreduce_prog_w is obtained from the literal program by moving sends in front of
   receives posted earlier (nbeq: congruence closure of that one swap).
   C03/ReducePosted.v carries the theorem over to the LITERAL program under the posted-receive semantics of
   MPI/SemPosted.v (nbeq is a simulation there; confluence of that semantics). *)
Definition allreduce_prog_w (P m me : Z) : prog :=
  rec_gen P m true 0 (a2a_prog_w P m 0) (S (Z.to_nat m)) m me (sym_leaf me) (fun d => Ret d).

Definition all_start_w (P : Z) : gs :=
  mkgs (fun r => if (0 <=? r) && (r <? P) then allreduce_prog_w P (maxlevel P) r else Ret []) (fun _ _ _ => []).
Definition all_end (P : Z) : gs :=
  mkgs (fun r => if (0 <=? r) && (r <? P) then Ret (sym_reduce_result P) else Ret []) (fun _ _ _ => []).

Lemma all_end_final P : final (all_end P).
Proof. intros r. unfold all_end. cbn [pr]. destruct ((0 <=? r) && (r <? P)); eauto. Qed.

Theorem allreduce_w_one_schedule P : 1 <= P <= 2 ^ 30 -> exists n, run n (all_start_w P) (all_end P).
Proof.
  intros HP. pose proof (maxlevel_le30 P HP) as Hm. pose proof (maxlevel_cover P ltac:(lia)) as [_ Hc].
  destruct (allreduce_sched P (maxlevel P) 0 Hm ltac:(lia) ltac:(lia) sym_leaf (fun _ d => Ret d) true (a2a_prog_w P (maxlevel P) 0) eq_refl
                            (fun _ _ _ _ => eq_refl) (all_start_w P)) as [n [f [Hrun [Hres [Hout Hch]]]]].
  - intros r Hr. unfold all_start_w. cbn [pr]. replace ((0 <=? r) && (r <? P)) with true by lia. reflexivity.
  - reflexivity.
  - exists n. replace (all_end P) with f; [exact Hrun|]. apply gs_eq.
    + intros r. unfold all_end. cbn [pr]. destruct ((0 <=? r) && (r <? P)) eqn:E.
      * rewrite Hres by lia. unfold V, sym_reduce_result, reduce_result. rewrite Z.sub_0_r. reflexivity.
      * rewrite Hout by lia. unfold all_start_w. cbn [pr]. rewrite E. reflexivity.
    + intros a b t. rewrite Hch. reflexivity.
Qed.

Theorem allreduce_w_all_schedules P : 1 <= P <= 2 ^ 30 ->
  exists n, run n (all_start_w P) (all_end P) /\ terminal_for (all_start_w P) (all_end P) n.
Proof.
  intros HP. destruct (allreduce_w_one_schedule P HP) as [n Hn]. exists n. split; [exact Hn|].
  apply one_schedule_all_schedules; [exact Hn|apply all_end_final].
Qed.

(* ---- the relation between the posting-order program and the window-order program ------------------------ *)
Inductive nbeq : prog -> prog -> Prop :=
| nb_refl p : nbeq p p
| nb_trans p q r : nbeq p q -> nbeq q r -> nbeq p r
| nb_cong a k k' : (forall v, nbeq (k v) (k' v)) -> nbeq (Do a k) (Do a k')
| nb_swap src t d t' msg k :       (* a send posted after a receive whose reply it does not use moves in front of it *)
    nbeq (Do (Recv src t) (fun v => Do (Send d t' msg) (fun u => k v u)))
         (Do (Send d t' msg) (fun u => Do (Recv src t) (fun v => k v u))).

Lemma nbeq_send d t msg k k' : nbeq k k' -> nbeq (send d t msg k) (send d t msg k').
Proof. intros H. unfold send. apply nb_cong. intros _. exact H. Qed.
Lemma nbeq_recv s t k k' : (forall v, nbeq (k v) (k' v)) -> nbeq (recv s t k) (recv s t k').
Proof. intros H. unfold recv. apply nb_cong. intros v. apply H. Qed.
Lemma nbeq_do_sends S k k' : nbeq k k' -> nbeq (do_sends S k) (do_sends S k').
Proof. induction S as [|[[d t] msg] S IH]; intros H; cbn [do_sends]; [exact H|]. apply nbeq_send. apply IH. exact H. Qed.

Lemma hoist_sends p t S K : nbeq (recv p t (fun v => do_sends S (K v))) (do_sends S (recv p t K)).
Proof.
  induction S as [|[[d t'] msg] S IH]; cbn [do_sends]; [apply nb_refl|].
  eapply nb_trans; [|apply nbeq_send; exact IH].
  unfold recv, send. exact (nb_swap p t d t' msg (fun v _ => do_sends S (K (tl v)))).
Qed.

Section Norm.
  Variable P m target : Z.
  Notation tag := c_SC_TAG_REDUCE.

  Lemma a2a_post_norm L me data : forall is sl k k', (forall x, nbeq (k x) (k' x)) ->
    nbeq (a2a_post P m true target is L me data sl k)
         (do_sends (map (fun i => (rep m target L i, tag, data))
                        (filter (fun i => negb (rep m target L i =? me) && (rep m target L i <? P)) is))
                   (a2a_post P m false target is L me data sl k')).
  Proof.
    induction is as [|i rest IH]; intros sl k k' Hk; cbn [a2a_post filter map do_sends]; [apply Hk|].
    fold (rep m target L i).
    destruct (rep m target L i =? me) eqn:E1; cbn [negb andb]; [apply IH; exact Hk|].
    destruct (rep m target L i <? P) eqn:E2; cbn [map do_sends]; [|apply IH; exact Hk].
    eapply nb_trans.
    { apply nbeq_recv. intros v. apply nbeq_send. apply (IH (supd sl i v) k k' Hk). }
    eapply nb_trans.
    { unfold recv, send.
      exact (nb_swap (rep m target L i) tag (rep m target L i) tag data
               (fun v _ => do_sends _ (a2a_post P m false target rest L me data (supd sl i (tl v)) k'))). }
    unfold send. apply nb_cong. intros _. cbv beta.
    exact (hoist_sends (rep m target L i) tag _ (fun v => a2a_post P m false target rest L me data (supd sl i v) k')).
  Qed.

  Lemma a2a_prog_norm l b d k k' : (forall x, nbeq (k x) (k' x)) ->
    nbeq (a2a_prog P m true target l b d k) (a2a_prog_w P m target l b d k').
  Proof.
    intros Hk. unfold a2a_prog, a2a_prog_w, a2a_sends, a2a_dests. cbn [orb].
    apply a2a_post_norm. intros sl. apply Hk.
  Qed.

  Lemma rec_gen_nbeq da A B :
    (forall l b d k k', (forall x, nbeq (k x) (k' x)) -> nbeq (A l b d k) (B l b d k')) ->
    forall fuel l b d k k', (forall x, nbeq (k x) (k' x)) ->
    nbeq (rec_gen P m da target A fuel l b d k) (rec_gen P m da target B fuel l b d k').
  Proof.
    intros HAB. induction fuel as [|fu IH]; intros l b d k k' Hk; cbn [rec_gen]; [apply Hk|].
    destruct (l =? 0); [apply Hk|]. destruct (l <=? c_SC_REDUCE_ALLTOALL_LEVEL); [apply HAB; exact Hk|].
    destruct (sc_search_bias m l b target =? sc_search_bias m (l - 1) (b / 2) target).
    - assert (Hc : forall x, nbeq (if da && (sc_search_bias m l (Z.lxor b 1) target <? P)
                                  then send (sc_search_bias m l (Z.lxor b 1) target) tag x (k x) else k x)
                                 (if da && (sc_search_bias m l (Z.lxor b 1) target <? P)
                                  then send (sc_search_bias m l (Z.lxor b 1) target) tag x (k' x) else k' x)).
      { intros x. destruct (da && _); [apply nbeq_send|]; apply Hk. }
      destruct (sc_search_bias m l (Z.lxor b 1) target <? P).
      + apply nbeq_recv. intros v. apply IH. exact Hc.
      + apply IH. exact Hc.
    - destruct (sc_search_bias m l (Z.lxor b 1) target <? P); [|apply Hk].
      apply nbeq_send. destruct da; [apply nbeq_recv; intros v|]; apply Hk.
  Qed.
End Norm.

Theorem allreduce_prog_window_form P m me : nbeq (reduce_prog P m true 0 me) (allreduce_prog_w P m me).
Proof.
  unfold reduce_prog, allreduce_prog_w. rewrite rec_gen_eq.
  apply rec_gen_nbeq; [|intros x; apply nb_refl].
  intros l b d k k' Hk. apply a2a_prog_norm. exact Hk.
Qed.

(* read with blocking receives, the posting-order program of sc_allreduce is stuck from the start for two ranks:
   both ranks begin with the receive of the all-to-all window *)
Example allreduce_posting_order_blocks :
  let s0 := mkgs (fun r => if (0 <=? r) && (r <? 2) then reduce_prog 2 (maxlevel 2) true 0 r else Ret []) (fun _ _ _ => []) in
  (forall r s', ~ step s0 r s') /\ ~ final s0.
Proof.
  cbv zeta. split.
  - intros r s' Hs. inversion Hs as [? ? d t msg k Hp|? ? src t k msg q Hsrc Hp Hc]; subst; cbn [pr ch] in *; [|discriminate].
    destruct (Z.eq_dec r 0) as [->|H0]; [vm_compute in Hp; discriminate|].
    destruct (Z.eq_dec r 1) as [->|H1]; [vm_compute in Hp; discriminate|].
    replace ((0 <=? r) && (r <? 2)) with false in Hp by lia. discriminate.
  - intros Hf. destruct (Hf 0) as [o Ho]. vm_compute in Ho. discriminate.
Qed.

Lemma all_end_spec P :
  (forall r, 0 <= r < P -> pr (all_end P) r = Ret (sym_reduce_result P)) /\ (forall a b t, ch (all_end P) a b t = []).
Proof.
  split; [|reflexivity]. intros r Hr. unfold all_end. cbn [pr]. replace ((0 <=? r) && (r <? P)) with true by lia. reflexivity.
Qed.
