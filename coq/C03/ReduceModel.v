(* C03 - sc_reduce / sc_allreduce: per-rank program and global tree model.
   sc_search_bias is the GENERATED definition (Gen/Search.v); tags and the all-to-all level are generated constants. *)
From Coq Require Import ZArith List Bool.
From ScV Require Import Base.CInt Gen.Search Gen.Consts MPI.Prog.
Import ListNotations.
Local Open Scope Z_scope.

Section Reduce.
  Variable T : Type.                 (* one buffer (count elements) *)
  Variable f : T -> T -> T.          (* reduce_fn (sendbuf = first argument, recvbuf = second): new content of recvbuf *)

  (* ---- global model: the balanced binary tree over rank order ---------------------------------- *)
  (* node (l, br) of the complete tree of depth m covers the ranks [br * 2^(m-l), (br+1) * 2^(m-l)) *)
  Definition left_end (m l br : Z) : Z := br * 2 ^ (m - l).

  (* value of node (l, br); d = m - l as a nat for the recursion.  At every node the operands are in rank
     order: recvbuf = left child, sendbuf = right child (all-to-all levels by construction, recursive levels
     since the repair "sc_reduce keeps the operands in rank order"); the value does not involve the target. *)
  Fixpoint treeval (P m : Z) (x : Z -> T) (d : nat) (br : Z) : T :=
    match d with
    | O => x br
    | S d' =>
      let l := m - Z.of_nat d in
      let L := treeval P m x d' (2 * br) in
      if left_end m (l + 1) (2 * br + 1) <? P then f (treeval P m x d' (2 * br + 1)) L else L
    end.

  Definition maxlevel (P : Z) : Z := if P <=? 1 then 0 else Z.log2 (P - 1) + 1.
  (* the same value for every target and for allreduce *)
  Definition reduce_result (P : Z) (x : Z -> T) : T := treeval P (maxlevel P) x (Z.to_nat (maxlevel P)) 0.
End Reduce.

(* ---- per-rank program over symbolic payloads ------------------------------------------------------
   A payload is the prefix encoding of an expression tree: leaf r = [0; r], f s r = 1 :: s ++ r.
   The correspondence run evaluates these trees with the concrete operation and datatype and compares
   the bytes with what the real code sent. *)
Definition sym_leaf (r : Z) : payload := [0; r].
Definition sym_f (s r : payload) : payload := 1 :: s ++ r.

Section ReduceProg.
  Variable P : Z.
  Variable m : Z.                    (* maxlevel *)
  Variable doall : bool.
  Variable target : Z.               (* the working target: 0 for allreduce *)
  Let al := c_SC_REDUCE_ALLTOALL_LEVEL.
  Let tag := c_SC_TAG_REDUCE.

  Definition slotsT := Z -> payload.
  Definition supd (s : slotsT) (i : Z) (v : payload) : slotsT := fun j => if j =? i then v else s j.

  (* posting loop of sc_reduce_alltoall: i = 0 .. 2^level - 1 *)
  Fixpoint a2a_post (is : list Z) (level myrank : Z) (data : payload) (sl : slotsT) (k : slotsT -> prog) : prog :=
    match is with
    | [] => k sl
    | i :: rest =>
      let peer := sc_search_bias m level i target in
      if peer =? myrank then a2a_post rest level myrank data (supd sl i data) k
      else if peer <? P then
        recv peer tag (fun v =>
          if doall then send peer tag data (a2a_post rest level myrank data (supd sl i v) k)
          else a2a_post rest level myrank data (supd sl i v) k)
      else a2a_post rest level myrank data sl k
    end.

  (* combination loops: for (shift = 0, l = level - 1; l >= 0; ++shift, --l) for (i = 0; i < 2^l; ++i) *)
  Fixpoint a2a_inner (is : list Z) (l shift : Z) (sl : slotsT) : slotsT :=
    match is with
    | [] => sl
    | i :: rest =>
      let peer2 := sc_search_bias m (l + 1) (2 * i + 1) target in
      let sl' := if peer2 <? P
                 then supd sl ((2 * i) * 2 ^ shift) (sym_f (sl ((2 * i + 1) * 2 ^ shift)) (sl ((2 * i) * 2 ^ shift)))
                 else sl in
      a2a_inner rest l shift sl'
    end.
  Fixpoint a2a_outer (n : nat) (l shift : Z) (sl : slotsT) : slotsT :=
    match n with
    | O => sl
    | S n' => a2a_outer n' (l - 1) (shift + 1) (a2a_inner (map Z.of_nat (seq 0 (Z.to_nat (2 ^ l)))) l shift sl)
    end.

  Definition a2a_prog (level branch : Z) (data : payload) (k : payload -> prog) : prog :=
    let myrank := sc_search_bias m level branch target in
    if doall || (target =? myrank) then
      a2a_post (map Z.of_nat (seq 0 (Z.to_nat (2 ^ level)))) level myrank data (fun _ => []) (fun sl =>
        k (a2a_outer (Z.to_nat level) (level - 1) 0 sl 0))
    else send target tag data (k data).

  Fixpoint rec_prog (fuel : nat) (level branch : Z) (data : payload) (k : payload -> prog) : prog :=
    match fuel with
    | O => k data
    | S fu =>
      let myrank := sc_search_bias m level branch target in
      if level =? 0 then k data
      else if level <=? al then a2a_prog level branch data k
      else
        let peer := sc_search_bias m level (Z.lxor branch 1) target in
        let higher := sc_search_bias m (level - 1) (branch / 2) target in
        if myrank =? higher then
          let cont (d : payload) :=
            rec_prog fu (level - 1) (branch / 2) d (fun d' =>
              if doall && (peer <? P) then send peer tag d' (k d') else k d') in
          if peer <? P then recv peer tag (fun v => cont (if myrank <? peer then sym_f v data else sym_f data v)) else cont data
        else
          if peer <? P then
            send peer tag data (if doall then recv peer tag (fun v => k v) else k data)
          else k data
    end.

  Definition reduce_prog (me : Z) : prog :=
    rec_prog (S (Z.to_nat m)) m me (sym_leaf me) (fun d => Ret d).
End ReduceProg.

(* the symbolic instance of the global model, for comparing the two executable artefacts *)
Definition sym_reduce_result (P : Z) : payload := reduce_result payload sym_f P sym_leaf.
